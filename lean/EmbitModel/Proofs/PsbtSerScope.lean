import EmbitModel.Proofs.PsbtWF
import EmbitModel.Proofs.ViewCompose
/-
  C04 (deepening): serialise-then-parse of one scope. `InScope.addPairs` over the pairs `write_to` emits (from the
  seed `read_from` starts with) gives back the scope; same for `OutScope`. One lemma per field of `write_to`,
  then the chain.
-/
set_option linter.unusedSimpArgs false
set_option linter.unusedVariables false
namespace Embit
open Model Spec.Wire

theorem InScope.addPairs_append (ko : KeyOps) (sha : Bytes → Bytes) (c : Nat) : ∀ (a b : List KV) (s : InScope),
    InScope.addPairs ko sha c s (a ++ b)
      = (InScope.addPairs ko sha c s a).bind (fun s' => InScope.addPairs ko sha c s' b) := by
  intro a
  induction a with
  | nil => intro b s; simp [InScope.addPairs]
  | cons kv a ih =>
    intro b s
    obtain ⟨k, v⟩ := kv
    simp only [List.cons_append, InScope.addPairs]
    cases InScope.addPair ko sha c s k v with
    | none => rfl
    | some s1 => exact ih b s1

theorem OutScope.addPairs_append (ko : KeyOps) : ∀ (a b : List KV) (s : OutScope),
    OutScope.addPairs ko s (a ++ b) = (OutScope.addPairs ko s a).bind (fun s' => OutScope.addPairs ko s' b) := by
  intro a
  induction a with
  | nil => intro b s; simp [OutScope.addPairs]
  | cons kv a ih =>
    intro b s
    obtain ⟨k, v⟩ := kv
    simp only [List.cons_append, OutScope.addPairs]
    cases OutScope.addPair ko s k v with
    | none => rfl
    | some s1 => exact ih b s1

theorem nodup_snoc_split {β : Type} (a : List (Bytes × β)) (p : Bytes) (v : β) (l : List (Bytes × β))
    (h : ((a ++ (p, v) :: l).map Prod.fst).Nodup) :
    lookup p a = none ∧ (((a ++ [(p, v)]) ++ l).map Prod.fst).Nodup := by
  refine ⟨lookup_none_of _ _ ?_, by simpa [List.append_assoc] using h⟩
  intro x hx e
  simp only [List.map_append, List.map_cons, List.nodup_append] at h
  exact h.2.2 x.1 (List.mem_map.mpr ⟨x, hx, rfl⟩) p (by simp) e

/-! ### input scope: one lemma per field, in `write_to` order -/

section In
variable (ko : KeyOps) (sha : Bytes → Bytes)

-- `ht`: since `fixes/fix-compress-dup-utxo.diff` a scope that already holds `_txhash` refuses key 00 (both callers
-- start from a scope whose `txhash` is the default `none`)
theorem in_step_nwu (s : InScope) (o : Option Tx) (hs : s.nonWitnessUtxo = none) (ht : s.txhash = none)
    (ho : OptP (fun t => WF t ∧ Fits (Tx.ser t)) o) :
    InScope.addPairs ko sha 0 s (optKV [0x00] (o.map Tx.ser)) = some { s with nonWitnessUtxo := o } := by
  cases o with
  | none => cases s; simp at hs; subst hs; rfl
  | some t =>
    have := Props.C03.parse_ser t ho.1
    simp [optKV, InScope.addPairs, InScope.addPair, hs, ht, this]

theorem in_step_wu (s : InScope) (o : Option TxOut) (hs : s.witnessUtxo = none)
    (ho : OptP (fun o => WFOut o ∧ Fits (TxOut.ser o)) o) :
    InScope.addPairs ko sha 0 s (optKV [0x01] (o.map TxOut.ser)) = some { s with witnessUtxo := o } := by
  cases o with
  | none => cases s; simp at hs; subst hs; rfl
  | some t =>
    have := TxOut.read_ser t [] ho.1
    simp only [List.append_nil] at this
    simp [optKV, InScope.addPairs, InScope.addPair, hs, parseAll, this]

theorem in_step_psigs : ∀ (l : List (Bytes × Bytes)) (s : InScope),
    (∀ e ∈ l, ko.validSec e.1 = true) → ((s.partialSigs ++ l).map Prod.fst).Nodup →
    InScope.addPairs ko sha 0 s (l.map (fun e => (0x02 :: e.1, e.2)))
      = some { s with partialSigs := s.partialSigs ++ l } := by
  intro l
  induction l with
  | nil => intro s _ _; simp [InScope.addPairs]
  | cons e l ih =>
    intro s hv hn
    obtain ⟨p, v⟩ := e
    obtain ⟨hp, hn'⟩ := nodup_snoc_split _ _ _ _ hn
    have h1 : InScope.addPair ko sha 0 s (0x02 :: p) v
        = some { s with partialSigs := s.partialSigs ++ [(p, v)] } := by
      simp [InScope.addPair, hv (p, v) (by simp), hp]
    simp only [List.map_cons, InScope.addPairs, h1]
    rw [ih _ (fun x hx => hv x (by simp [hx])) hn']
    simp [List.append_assoc]

theorem in_step_sighash (s : InScope) (o : Option Nat) (hs : s.sighashType = none) (ho : OptP (· < 2^32) o) :
    InScope.addPairs ko sha 0 s (optKV [0x03] (o.map (leN 4))) = some { s with sighashType := o } := by
  cases o with
  | none => cases s; simp at hs; subst hs; rfl
  | some n =>
    have := ofLe_leN 4 n (by simp at ho; omega)
    simp [optKV, InScope.addPairs, InScope.addPair, hs, leN_length, this]

theorem in_step_redeem (s : InScope) (o : Option Bytes) (hs : s.redeemScript = none) :
    InScope.addPairs ko sha 0 s (optKV [0x04] o) = some { s with redeemScript := o } := by
  cases o with
  | none => cases s; simp at hs; subst hs; rfl
  | some n => simp [optKV, InScope.addPairs, InScope.addPair, hs]

theorem in_step_wscript (s : InScope) (o : Option Bytes) (hs : s.witnessScript = none) :
    InScope.addPairs ko sha 0 s (optKV [0x05] o) = some { s with witnessScript := o } := by
  cases o with
  | none => cases s; simp at hs; subst hs; rfl
  | some n => simp [optKV, InScope.addPairs, InScope.addPair, hs]

theorem in_step_bip32 : ∀ (l : List (Bytes × Deriv)) (s : InScope),
    (∀ e ∈ l, ko.validSec e.1 = true ∧ DerivWF e.2) → ((s.bip32 ++ l).map Prod.fst).Nodup →
    InScope.addPairs ko sha 0 s (l.map (fun e => (0x06 :: e.1, Deriv.ser e.2)))
      = some { s with bip32 := s.bip32 ++ l } := by
  intro l
  induction l with
  | nil => intro s _ _; simp [InScope.addPairs]
  | cons e l ih =>
    intro s hv hn
    obtain ⟨p, d⟩ := e
    obtain ⟨hp, hn'⟩ := nodup_snoc_split _ _ _ _ hn
    have h1 : InScope.addPair ko sha 0 s (0x06 :: p) (Deriv.ser d)
        = some { s with bip32 := s.bip32 ++ [(p, d)] } := by
      simp [InScope.addPair, (hv (p, d) (by simp)).1, hp, Deriv.parse_ser d (hv (p, d) (by simp)).2]
    simp only [List.map_cons, InScope.addPairs, h1]
    rw [ih _ (fun x hx => hv x (by simp [hx])) hn']
    simp [List.append_assoc]

theorem in_step_fsig (s : InScope) (o : Option Bytes) (hs : s.finalScriptSig = none) :
    InScope.addPairs ko sha 0 s (optKV [0x07] o) = some { s with finalScriptSig := o } := by
  cases o with
  | none => cases s; simp at hs; subst hs; rfl
  | some n => simp [optKV, InScope.addPairs, InScope.addPair, hs]

theorem in_step_fwit (s : InScope) (o : Option (List Bytes)) (hs : s.finalWitness = none)
    (ho : OptP (fun w => w.length < 2^64 ∧ (∀ d ∈ w, Fits d) ∧ Fits (witnessSer w)) o) :
    InScope.addPairs ko sha 0 s (optKV [0x08] (o.map witnessSer)) = some { s with finalWitness := o } := by
  cases o with
  | none => cases s; simp at hs; subst hs; rfl
  | some w =>
    have := witnessRead_ser w [] ho.1 ho.2.1
    simp only [List.append_nil] at this
    simp [optKV, InScope.addPairs, InScope.addPair, hs, parseAll, this]

theorem in_step_txid (s : InScope) (o : Option Bytes) (hs : s.txid = none) (ho : OptP (fun t => t.length = 32) o) :
    InScope.addPairs ko sha 0 s (optKV [0x0e] (o.map List.reverse)) = some { s with txid := o } := by
  cases o with
  | none => cases s; simp at hs; subst hs; rfl
  | some t =>
    have : t.length = 32 := ho
    simp [optKV, InScope.addPairs, InScope.addPair, hs, this]

theorem in_step_vout (s : InScope) (o : Option Nat) (hs : s.vout = none) (ho : OptP (· < 2^32) o) :
    InScope.addPairs ko sha 0 s (optKV [0x0f] (o.map (leN 4))) = some { s with vout := o } := by
  cases o with
  | none => cases s; simp at hs; subst hs; rfl
  | some n =>
    have := ofLe_leN 4 n (by simp at ho; omega)
    simp [optKV, InScope.addPairs, InScope.addPair, hs, leN_length, this]

theorem in_step_sequence (s : InScope) (o : Option Nat) (hs : s.sequence = none) (ho : OptP (· < 2^32) o) :
    InScope.addPairs ko sha 0 s (optKV [0x10] (o.map (leN 4))) = some { s with sequence := o } := by
  cases o with
  | none => cases s; simp at hs; subst hs; rfl
  | some n =>
    have := ofLe_leN 4 n (by simp at ho; omega)
    simp [optKV, InScope.addPairs, InScope.addPair, hs, leN_length, this]

theorem in_step_tapSigs : ∀ (l : List (Bytes × Bytes)) (s : InScope),
    (∀ e ∈ l, e.1.length = 64 ∧ ko.validX (e.1.take 32) = true) → ((s.tapSigs ++ l).map Prod.fst).Nodup →
    InScope.addPairs ko sha 0 s (l.map (fun e => (0x14 :: e.1, e.2)))
      = some { s with tapSigs := s.tapSigs ++ l } := by
  intro l
  induction l with
  | nil => intro s _ _; simp [InScope.addPairs]
  | cons e l ih =>
    intro s hv hn
    obtain ⟨p, v⟩ := e
    obtain ⟨hp, hn'⟩ := nodup_snoc_split _ _ _ _ hn
    have h1 : InScope.addPair ko sha 0 s (0x14 :: p) v
        = some { s with tapSigs := s.tapSigs ++ [(p, v)] } := by
      simp [InScope.addPair, (hv (p, v) (by simp)).1, (hv (p, v) (by simp)).2, hp]
    simp only [List.map_cons, InScope.addPairs, h1]
    rw [ih _ (fun x hx => hv x (by simp [hx])) hn']
    simp [List.append_assoc]

theorem in_step_tapScripts : ∀ (l : List (Bytes × Bytes)) (s : InScope),
    ((s.tapScripts ++ l).map Prod.fst).Nodup →
    InScope.addPairs ko sha 0 s (l.map (fun e => (0x15 :: e.1, e.2)))
      = some { s with tapScripts := s.tapScripts ++ l } := by
  intro l
  induction l with
  | nil => intro s _; simp [InScope.addPairs]
  | cons e l ih =>
    intro s hn
    obtain ⟨p, v⟩ := e
    obtain ⟨hp, hn'⟩ := nodup_snoc_split _ _ _ _ hn
    have h1 : InScope.addPair ko sha 0 s (0x15 :: p) v
        = some { s with tapScripts := s.tapScripts ++ [(p, v)] } := by
      simp [InScope.addPair, hp]
    simp only [List.map_cons, InScope.addPairs, h1]
    rw [ih _ hn']
    simp [List.append_assoc]

theorem in_step_tapBip32 : ∀ (l : List (Bytes × (List Bytes × Deriv))) (s : InScope),
    (∀ e ∈ l, e.1.length = 32 ∧ ko.validX e.1 = true ∧ TapDerivWF e.2) → ((s.tapBip32 ++ l).map Prod.fst).Nodup →
    InScope.addPairs ko sha 0 s (l.map (fun e => (0x16 :: e.1, tapDerivSer e.2)))
      = some { s with tapBip32 := s.tapBip32 ++ l } := by
  intro l
  induction l with
  | nil => intro s _ _; simp [InScope.addPairs]
  | cons e l ih =>
    intro s hv hn
    obtain ⟨p, x⟩ := e
    obtain ⟨hp, hn'⟩ := nodup_snoc_split _ _ _ _ hn
    obtain ⟨a1, a2, a3⟩ := hv (p, x) (by simp)
    have h1 : InScope.addPair ko sha 0 s (0x16 :: p) (tapDerivSer x)
        = some { s with tapBip32 := s.tapBip32 ++ [(p, x)] } := by
      simp [InScope.addPair, a1, a2, hp, tapDerivParse_ser x a3]
    simp only [List.map_cons, InScope.addPairs, h1]
    rw [ih _ (fun x hx => hv x (by simp [hx])) hn']
    simp [List.append_assoc]

theorem in_step_tapIK (s : InScope) (o : Option Bytes) (hs : s.tapInternalKey = none)
    (ho : OptP (fun v => v.length = 32 ∧ ko.validX v = true) o) :
    InScope.addPairs ko sha 0 s (optKV [0x17] o) = some { s with tapInternalKey := o } := by
  cases o with
  | none => cases s; simp at hs; subst hs; rfl
  | some v =>
    have h1 : v.length = 32 := ho.1
    have h2 : ko.validX v = true := ho.2
    simp [optKV, InScope.addPairs, InScope.addPair, hs, h1, h2]

theorem in_step_tapMR (s : InScope) (o : Option Bytes) (hs : s.tapMerkleRoot = none) :
    InScope.addPairs ko sha 0 s (optKV [0x18] o) = some { s with tapMerkleRoot := o } := by
  cases o with
  | none => cases s; simp at hs; subst hs; rfl
  | some n => simp [optKV, InScope.addPairs, InScope.addPair, hs]

theorem InScope.addPair_unknown (s : InScope) (k v : Bytes) (hk : unkKeyIn k = true)
    (hl : lookup k s.unknown = none) :
    InScope.addPair ko sha 0 s k v = some { s with unknown := s.unknown ++ [(k, v)] } := by
  cases k with
  | nil => simp [unkKeyIn] at hk
  | cons k0 kr =>
    simp only [unkKeyIn, typedIn, txFieldKey, Bool.and_eq_true, Bool.not_eq_true', Bool.or_eq_false_iff,
      beq_eq_false_iff_ne, ne_eq] at hk
    obtain ⟨⟨⟨⟨⟨⟨⟨⟨⟨⟨⟨⟨⟨⟨t0, t1⟩, t2⟩, t3⟩, t4⟩, t5⟩, t6⟩, t7⟩, t8⟩, t14⟩, t15⟩, t16⟩, t17⟩, t18⟩, ⟨te, tf⟩, tg⟩ := hk
    simp only [InScope.addPair, t0, t1, t2, t3, t4, t5, t6, t7, t8, t14, t15, t16, t17, t18, te, tf, tg, if_false, hl]
    simp

theorem in_step_unknown : ∀ (l : List KV) (s : InScope),
    (∀ kv ∈ l, unkKeyIn kv.1 = true) → ((s.unknown ++ l).map Prod.fst).Nodup →
    InScope.addPairs ko sha 0 s l = some { s with unknown := s.unknown ++ l } := by
  intro l
  induction l with
  | nil => intro s _ _; simp [InScope.addPairs]
  | cons e l ih =>
    intro s hv hn
    obtain ⟨k, v⟩ := e
    obtain ⟨hp, hn'⟩ := nodup_snoc_split _ _ _ _ hn
    have h1 := InScope.addPair_unknown ko sha s k v (hv (k, v) (by simp)) hp
    simp only [InScope.addPairs, h1]
    rw [ih _ (fun x hx => hv x (by simp [hx])) hn']
    simp [List.append_assoc]

end In

/-- `write_to` of an input scope with the tuple patterns spelled as projections -/
theorem InScope.pairs_eq (s : InScope) (version : Option Nat) : s.pairs version =
  optKV [0x00] (s.nonWitnessUtxo.map Tx.ser)
  ++ optKV [0x01] (s.witnessUtxo.map TxOut.ser)
  ++ s.partialSigs.map (fun e => (0x02 :: e.1, e.2))
  ++ optKV [0x03] (s.sighashType.map (leN 4))
  ++ optKV [0x04] s.redeemScript
  ++ optKV [0x05] s.witnessScript
  ++ s.bip32.map (fun e => (0x06 :: e.1, Deriv.ser e.2))
  ++ optKV [0x07] s.finalScriptSig
  ++ optKV [0x08] (s.finalWitness.map witnessSer)
  ++ (if version = some 2 then
        optKV [0x0e] (s.txid.map List.reverse) ++ optKV [0x0f] (s.vout.map (leN 4))
        ++ optKV [0x10] (s.sequence.map (leN 4))
      else [])
  ++ s.tapSigs.map (fun e => (0x14 :: e.1, e.2))
  ++ s.tapScripts.map (fun e => (0x15 :: e.1, e.2))
  ++ s.tapBip32.map (fun e => (0x16 :: e.1, tapDerivSer e.2))
  ++ optKV [0x17] s.tapInternalKey
  ++ optKV [0x18] s.tapMerkleRoot
  ++ s.unknown := rfl

/-- the scope `read_from` starts with: empty for PSBTv2, carrying the transaction fields (from the global
    transaction) otherwise -/
def InScope.seedOf (version : Option Nat) (s : InScope) : InScope :=
  if version = some 2 then {} else { txid := s.txid, vout := s.vout, sequence := s.sequence }

def OutScope.seedOf (version : Option Nat) (s : OutScope) : OutScope :=
  if version = some 2 then {} else { value := s.value, spk := s.spk }

theorem InScope.rebuild (s : InScope) (h1 : s.utxoS = none) (h2 : s.txhash = none) (h3 : s.verified = false) :
    ({ txid := s.txid, vout := s.vout, sequence := s.sequence, nonWitnessUtxo := s.nonWitnessUtxo,
       witnessUtxo := s.witnessUtxo, partialSigs := s.partialSigs, sighashType := s.sighashType,
       redeemScript := s.redeemScript, witnessScript := s.witnessScript, bip32 := s.bip32, tapBip32 := s.tapBip32,
       tapInternalKey := s.tapInternalKey, tapMerkleRoot := s.tapMerkleRoot, tapSigs := s.tapSigs,
       tapScripts := s.tapScripts, finalScriptSig := s.finalScriptSig, finalWitness := s.finalWitness,
       unknown := s.unknown } : InScope) = s := by
  cases s; simp at h1 h2 h3; obtain rfl := h1; obtain rfl := h2; obtain rfl := h3; rfl

theorem InScope.bind_step {ko : KeyOps} {sha : Bytes → Bytes} {c : Nat} {s s' : InScope} {a b : List KV}
    {r : Option InScope} (h1 : InScope.addPairs ko sha c s a = some s') (h2 : InScope.addPairs ko sha c s' b = r) :
    InScope.addPairs ko sha c s (a ++ b) = r := by
  rw [InScope.addPairs_append, h1]; exact h2

theorem in_step_txgroup_v2 (ko : KeyOps) (sha : Bytes → Bytes) (version : Option Nat) (hv : version = some 2)
    (s : InScope) (t : Option Bytes) (vo sq : Option Nat)
    (hs1 : s.txid = none) (hs2 : s.vout = none) (hs3 : s.sequence = none)
    (h1 : OptP (fun t => t.length = 32) t) (h2 : OptP (· < 2^32) vo) (h3 : OptP (· < 2^32) sq) :
    InScope.addPairs ko sha 0 s
      (if version = some 2 then
        optKV [0x0e] (t.map List.reverse) ++ optKV [0x0f] (vo.map (leN 4)) ++ optKV [0x10] (sq.map (leN 4))
       else []) = some { s with txid := t, vout := vo, sequence := sq } := by
  rw [if_pos hv]
  exact InScope.bind_step (InScope.bind_step (in_step_txid ko sha s t hs1 h1) (in_step_vout ko sha _ vo hs2 h2))
    (in_step_sequence ko sha _ sq hs3 h3)

theorem in_step_txgroup_v0 (ko : KeyOps) (sha : Bytes → Bytes) (version : Option Nat) (hv : ¬ version = some 2)
    (s : InScope) (t : Option Bytes) (vo sq : Option Nat) :
    InScope.addPairs ko sha 0 s
      (if version = some 2 then
        optKV [0x0e] (t.map List.reverse) ++ optKV [0x0f] (vo.map (leN 4)) ++ optKV [0x10] (sq.map (leN 4))
       else []) = some s := by
  rw [if_neg hv]; rfl

/-- serialise-then-parse of an input scope: folding `read_value` over the pairs `write_to` emits, from the seed
    `read_from` starts with, gives the scope back -/
theorem InScope.addPairs_pairs (ko : KeyOps) (sha : Bytes → Bytes) (version : Option Nat) (s : InScope)
    (h : InWF ko s) :
    InScope.addPairs ko sha 0 (InScope.seedOf version s) (s.pairs version) = some s := by
  rw [InScope.pairs_eq]
  by_cases hv : version = some 2
  · -- PSBTv2: the transaction fields are written into the scope
    rw [InScope.seedOf, if_pos hv]
    have c := InScope.bind_step (InScope.bind_step (InScope.bind_step (InScope.bind_step (InScope.bind_step
      (InScope.bind_step (InScope.bind_step (InScope.bind_step (InScope.bind_step (InScope.bind_step
      (InScope.bind_step (InScope.bind_step (InScope.bind_step (InScope.bind_step (InScope.bind_step
      (in_step_nwu ko sha {} s.nonWitnessUtxo rfl rfl h.nwu)
      (in_step_wu ko sha _ s.witnessUtxo rfl h.wu))
      (in_step_psigs ko sha s.partialSigs _ (fun e he => (h.psigs e he).1) h.psigsNodup))
      (in_step_sighash ko sha _ s.sighashType rfl h.sighash))
      (in_step_redeem ko sha _ s.redeemScript rfl))
      (in_step_wscript ko sha _ s.witnessScript rfl))
      (in_step_bip32 ko sha s.bip32 _ (fun e he => ⟨(h.bip32 e he).1, (h.bip32 e he).2.2⟩) h.bip32Nodup))
      (in_step_fsig ko sha _ s.finalScriptSig rfl))
      (in_step_fwit ko sha _ s.finalWitness rfl h.fwit))
      (in_step_txgroup_v2 ko sha version hv _ s.txid s.vout s.sequence rfl rfl rfl h.txid h.vout h.sequence))
      (in_step_tapSigs ko sha s.tapSigs _ (fun e he => ⟨(h.tapSigs e he).1, (h.tapSigs e he).2.1⟩) h.tapSigsNodup))
      (in_step_tapScripts ko sha s.tapScripts _ h.tapScriptsNodup))
      (in_step_tapBip32 ko sha s.tapBip32 _ h.tapBip32 h.tapBip32Nodup))
      (in_step_tapIK ko sha _ s.tapInternalKey rfl h.tapIK))
      (in_step_tapMR ko sha _ s.tapMerkleRoot rfl))
      (in_step_unknown ko sha s.unknown _ (fun e he => (h.unknown e he).2) h.unknownNodup)
    exact c.trans (congrArg some (InScope.rebuild s h.utxoS h.txhash h.verified))
  · -- PSBTv0: they are taken from the seed
    rw [InScope.seedOf, if_neg hv]
    have c := InScope.bind_step (InScope.bind_step (InScope.bind_step (InScope.bind_step (InScope.bind_step
      (InScope.bind_step (InScope.bind_step (InScope.bind_step (InScope.bind_step (InScope.bind_step
      (InScope.bind_step (InScope.bind_step (InScope.bind_step (InScope.bind_step (InScope.bind_step
      (in_step_nwu ko sha { txid := s.txid, vout := s.vout, sequence := s.sequence } s.nonWitnessUtxo rfl rfl h.nwu)
      (in_step_wu ko sha _ s.witnessUtxo rfl h.wu))
      (in_step_psigs ko sha s.partialSigs _ (fun e he => (h.psigs e he).1) h.psigsNodup))
      (in_step_sighash ko sha _ s.sighashType rfl h.sighash))
      (in_step_redeem ko sha _ s.redeemScript rfl))
      (in_step_wscript ko sha _ s.witnessScript rfl))
      (in_step_bip32 ko sha s.bip32 _ (fun e he => ⟨(h.bip32 e he).1, (h.bip32 e he).2.2⟩) h.bip32Nodup))
      (in_step_fsig ko sha _ s.finalScriptSig rfl))
      (in_step_fwit ko sha _ s.finalWitness rfl h.fwit))
      (in_step_txgroup_v0 ko sha version hv _ s.txid s.vout s.sequence))
      (in_step_tapSigs ko sha s.tapSigs _ (fun e he => ⟨(h.tapSigs e he).1, (h.tapSigs e he).2.1⟩) h.tapSigsNodup))
      (in_step_tapScripts ko sha s.tapScripts _ h.tapScriptsNodup))
      (in_step_tapBip32 ko sha s.tapBip32 _ h.tapBip32 h.tapBip32Nodup))
      (in_step_tapIK ko sha _ s.tapInternalKey rfl h.tapIK))
      (in_step_tapMR ko sha _ s.tapMerkleRoot rfl))
      (in_step_unknown ko sha s.unknown _ (fun e he => (h.unknown e he).2) h.unknownNodup)
    exact c.trans (congrArg some (InScope.rebuild s h.utxoS h.txhash h.verified))

/-! ### output scope -/

section Out
variable (ko : KeyOps)

theorem out_step_redeem (s : OutScope) (o : Option Bytes) (hs : s.redeemScript = none) :
    OutScope.addPairs ko s (optKV [0x00] o) = some { s with redeemScript := o } := by
  cases o with
  | none => cases s; simp at hs; subst hs; rfl
  | some n => simp [optKV, OutScope.addPairs, OutScope.addPair, hs]

theorem out_step_wscript (s : OutScope) (o : Option Bytes) (hs : s.witnessScript = none) :
    OutScope.addPairs ko s (optKV [0x01] o) = some { s with witnessScript := o } := by
  cases o with
  | none => cases s; simp at hs; subst hs; rfl
  | some n => simp [optKV, OutScope.addPairs, OutScope.addPair, hs]

theorem out_step_bip32 : ∀ (l : List (Bytes × Deriv)) (s : OutScope),
    (∀ e ∈ l, ko.validSec e.1 = true ∧ DerivWF e.2) → ((s.bip32 ++ l).map Prod.fst).Nodup →
    OutScope.addPairs ko s (l.map (fun e => (0x02 :: e.1, Deriv.ser e.2)))
      = some { s with bip32 := s.bip32 ++ l } := by
  intro l
  induction l with
  | nil => intro s _ _; simp [OutScope.addPairs]
  | cons e l ih =>
    intro s hv hn
    obtain ⟨p, d⟩ := e
    obtain ⟨hp, hn'⟩ := nodup_snoc_split _ _ _ _ hn
    have h1 : OutScope.addPair ko s (0x02 :: p) (Deriv.ser d)
        = some { s with bip32 := s.bip32 ++ [(p, d)] } := by
      simp [OutScope.addPair, (hv (p, d) (by simp)).1, hp, Deriv.parse_ser d (hv (p, d) (by simp)).2]
    simp only [List.map_cons, OutScope.addPairs, h1]
    rw [ih _ (fun x hx => hv x (by simp [hx])) hn']
    simp [List.append_assoc]

theorem out_step_value (s : OutScope) (o : Option Nat) (hs : s.value = none) (ho : OptP (· < 2^64) o) :
    OutScope.addPairs ko s (optKV [0x03] (o.map (leN 8))) = some { s with value := o } := by
  cases o with
  | none => cases s; simp at hs; subst hs; rfl
  | some n =>
    have := ofLe_leN 8 n (by simp at ho; omega)
    simp [optKV, OutScope.addPairs, OutScope.addPair, hs, this]

theorem out_step_spk (s : OutScope) (o : Option Bytes) (hs : s.spk = none) :
    OutScope.addPairs ko s (optKV [0x04] o) = some { s with spk := o } := by
  cases o with
  | none => cases s; simp at hs; subst hs; rfl
  | some n => simp [optKV, OutScope.addPairs, OutScope.addPair, hs]

theorem out_step_tapIK (s : OutScope) (o : Option Bytes) (hs : s.tapInternalKey = none)
    (ho : OptP (fun v => v.length = 32 ∧ ko.validX v = true) o) :
    OutScope.addPairs ko s (optKV [0x05] o) = some { s with tapInternalKey := o } := by
  cases o with
  | none => cases s; simp at hs; subst hs; rfl
  | some v =>
    have h1 : v.length = 32 := ho.1
    have h2 : ko.validX v = true := ho.2
    simp [optKV, OutScope.addPairs, OutScope.addPair, hs, h1, h2]

theorem out_step_tapBip32 : ∀ (l : List (Bytes × (List Bytes × Deriv))) (s : OutScope),
    (∀ e ∈ l, e.1.length = 32 ∧ ko.validX e.1 = true ∧ TapDerivWF e.2) → ((s.tapBip32 ++ l).map Prod.fst).Nodup →
    OutScope.addPairs ko s (l.map (fun e => (0x07 :: e.1, tapDerivSer e.2)))
      = some { s with tapBip32 := s.tapBip32 ++ l } := by
  intro l
  induction l with
  | nil => intro s _ _; simp [OutScope.addPairs]
  | cons e l ih =>
    intro s hv hn
    obtain ⟨p, x⟩ := e
    obtain ⟨hp, hn'⟩ := nodup_snoc_split _ _ _ _ hn
    obtain ⟨a1, a2, a3⟩ := hv (p, x) (by simp)
    have h1 : OutScope.addPair ko s (0x07 :: p) (tapDerivSer x)
        = some { s with tapBip32 := s.tapBip32 ++ [(p, x)] } := by
      simp [OutScope.addPair, a1, a2, hp, tapDerivParse_ser x a3]
    simp only [List.map_cons, OutScope.addPairs, h1]
    rw [ih _ (fun x hx => hv x (by simp [hx])) hn']
    simp [List.append_assoc]

theorem OutScope.addPair_unknown (s : OutScope) (k v : Bytes) (hk : unkKeyOut k = true)
    (hl : lookup k s.unknown = none) :
    OutScope.addPair ko s k v = some { s with unknown := s.unknown ++ [(k, v)] } := by
  cases k with
  | nil => simp [unkKeyOut] at hk
  | cons k0 kr =>
    simp only [unkKeyOut, typedOut, txFieldKeyOut, Bool.and_eq_true, Bool.not_eq_true', Bool.or_eq_false_iff,
      beq_eq_false_iff_ne, ne_eq] at hk
    obtain ⟨⟨⟨⟨⟨t0, t1⟩, t2⟩, t5⟩, t7⟩, t3, t4⟩ := hk
    simp only [OutScope.addPair, t0, t1, t2, t3, t4, t5, t7, if_false, hl]
    simp

theorem out_step_unknown : ∀ (l : List KV) (s : OutScope),
    (∀ kv ∈ l, unkKeyOut kv.1 = true) → ((s.unknown ++ l).map Prod.fst).Nodup →
    OutScope.addPairs ko s l = some { s with unknown := s.unknown ++ l } := by
  intro l
  induction l with
  | nil => intro s _ _; simp [OutScope.addPairs]
  | cons e l ih =>
    intro s hv hn
    obtain ⟨k, v⟩ := e
    obtain ⟨hp, hn'⟩ := nodup_snoc_split _ _ _ _ hn
    have h1 := OutScope.addPair_unknown ko s k v (hv (k, v) (by simp)) hp
    simp only [OutScope.addPairs, h1]
    rw [ih _ (fun x hx => hv x (by simp [hx])) hn']
    simp [List.append_assoc]

end Out

theorem OutScope.pairs_eq (s : OutScope) (version : Option Nat) : s.pairs version =
  optKV [0x00] s.redeemScript
  ++ optKV [0x01] s.witnessScript
  ++ s.bip32.map (fun e => (0x02 :: e.1, Deriv.ser e.2))
  ++ (if version = some 2 then optKV [0x03] (s.value.map (leN 8)) ++ optKV [0x04] s.spk else [])
  ++ optKV [0x05] s.tapInternalKey
  ++ s.tapBip32.map (fun e => (0x07 :: e.1, tapDerivSer e.2))
  ++ s.unknown := rfl

theorem OutScope.bind_step {ko : KeyOps} {s s' : OutScope} {a b : List KV}
    {r : Option OutScope} (h1 : OutScope.addPairs ko s a = some s') (h2 : OutScope.addPairs ko s' b = r) :
    OutScope.addPairs ko s (a ++ b) = r := by
  rw [OutScope.addPairs_append, h1]; exact h2

theorem out_step_txgroup_v2 (ko : KeyOps) (version : Option Nat) (hv : version = some 2)
    (s : OutScope) (va : Option Nat) (sp : Option Bytes) (hs1 : s.value = none) (hs2 : s.spk = none)
    (h1 : OptP (· < 2^64) va) :
    OutScope.addPairs ko s (if version = some 2 then optKV [0x03] (va.map (leN 8)) ++ optKV [0x04] sp else [])
      = some { s with value := va, spk := sp } := by
  rw [if_pos hv]
  exact OutScope.bind_step (out_step_value ko s va hs1 h1) (out_step_spk ko _ sp hs2)

theorem out_step_txgroup_v0 (ko : KeyOps) (version : Option Nat) (hv : ¬ version = some 2)
    (s : OutScope) (va : Option Nat) (sp : Option Bytes) :
    OutScope.addPairs ko s (if version = some 2 then optKV [0x03] (va.map (leN 8)) ++ optKV [0x04] sp else [])
      = some s := by
  rw [if_neg hv]; rfl

theorem OutScope.addPairs_pairs (ko : KeyOps) (version : Option Nat) (s : OutScope) (h : OutWF ko s) :
    OutScope.addPairs ko (OutScope.seedOf version s) (s.pairs version) = some s := by
  rw [OutScope.pairs_eq]
  by_cases hv : version = some 2
  · rw [OutScope.seedOf, if_pos hv]
    exact OutScope.bind_step (OutScope.bind_step (OutScope.bind_step (OutScope.bind_step (OutScope.bind_step
      (OutScope.bind_step
      (out_step_redeem ko {} s.redeemScript rfl)
      (out_step_wscript ko _ s.witnessScript rfl))
      (out_step_bip32 ko s.bip32 _ (fun e he => ⟨(h.bip32 e he).1, (h.bip32 e he).2.2⟩) h.bip32Nodup))
      (out_step_txgroup_v2 ko version hv _ s.value s.spk rfl rfl h.value))
      (out_step_tapIK ko _ s.tapInternalKey rfl h.tapIK))
      (out_step_tapBip32 ko s.tapBip32 _ h.tapBip32 h.tapBip32Nodup))
      (out_step_unknown ko s.unknown _ (fun e he => (h.unknown e he).2) h.unknownNodup)
  · rw [OutScope.seedOf, if_neg hv]
    exact OutScope.bind_step (OutScope.bind_step (OutScope.bind_step (OutScope.bind_step (OutScope.bind_step
      (OutScope.bind_step
      (out_step_redeem ko { value := s.value, spk := s.spk } s.redeemScript rfl)
      (out_step_wscript ko _ s.witnessScript rfl))
      (out_step_bip32 ko s.bip32 _ (fun e he => ⟨(h.bip32 e he).1, (h.bip32 e he).2.2⟩) h.bip32Nodup))
      (out_step_txgroup_v0 ko version hv _ s.value s.spk))
      (out_step_tapIK ko _ s.tapInternalKey rfl h.tapIK))
      (out_step_tapBip32 ko s.tapBip32 _ h.tapBip32 h.tapBip32Nodup))
      (out_step_unknown ko s.unknown _ (fun e he => (h.unknown e he).2) h.unknownNodup)

/-! ### every pair `write_to` emits fits the key-value framing -/

theorem optKV_wf (k : Bytes) (o : Option Bytes) (hk : k ≠ [] ∧ Fits k) (ho : OptP Fits o) :
    ∀ kv ∈ optKV k o, KVWF kv := by
  cases o with
  | none => simp [optKV]
  | some v => intro kv hkv; simp [optKV] at hkv; subst hkv; exact ⟨hk.1, hk.2, ho⟩

theorem OptP_map {α β : Type} {P : β → Prop} {Q : α → Prop} {f : α → β} {o : Option α} (h : OptP Q o)
    (hf : ∀ x, Q x → P (f x)) : OptP P (o.map f) := by
  cases o with
  | none => trivial
  | some x => exact hf x h

theorem OptP_imp {α : Type} {P Q : α → Prop} {o : Option α} (h : OptP Q o) (hf : ∀ x, Q x → P x) : OptP P o := by
  cases o with
  | none => trivial
  | some x => exact hf x h

theorem InScope.pairs_wf (ko : KeyOps) (version : Option Nat) (s : InScope) (h : InWF ko s) :
    ∀ kv ∈ s.pairs version, KVWF kv := by
  have b1 : ∀ k0 : UInt8, ([k0] : Bytes) ≠ [] ∧ Fits [k0] := fun k0 => ⟨by simp, by simp [Fits]⟩
  intro kv hkv
  rw [InScope.pairs_eq] at hkv
  simp only [List.mem_append] at hkv
  rcases hkv with (((((((((((((((hkv | hkv) | hkv) | hkv) | hkv) | hkv) | hkv) | hkv) | hkv) | hkv) | hkv) | hkv)
    | hkv) | hkv) | hkv) | hkv)
  · exact optKV_wf _ _ (b1 _) (OptP_map h.nwu (fun t ht => ht.2)) kv hkv
  · exact optKV_wf _ _ (b1 _) (OptP_map h.wu (fun t ht => ht.2)) kv hkv
  · obtain ⟨e, he, rfl⟩ := List.mem_map.mp hkv
    exact ⟨by simp, (h.psigs e he).2.1, (h.psigs e he).2.2⟩
  · exact optKV_wf _ _ (b1 _) (OptP_map h.sighash (fun t ht => by simp [Fits])) kv hkv
  · exact optKV_wf _ _ (b1 _) h.redeem kv hkv
  · exact optKV_wf _ _ (b1 _) h.wscript kv hkv
  · obtain ⟨e, he, rfl⟩ := List.mem_map.mp hkv
    exact ⟨by simp, (h.bip32 e he).2.1, (h.bip32 e he).2.2.2.2⟩
  · exact optKV_wf _ _ (b1 _) h.fsig kv hkv
  · exact optKV_wf _ _ (b1 _) (OptP_map h.fwit (fun t ht => ht.2.2)) kv hkv
  · split at hkv
    · simp only [List.mem_append] at hkv
      rcases hkv with (hkv | hkv) | hkv
      · exact optKV_wf _ _ (b1 _) (OptP_map h.txid (fun t ht => by simp [Fits, ht])) kv hkv
      · exact optKV_wf _ _ (b1 _) (OptP_map h.vout (fun t ht => by simp [Fits])) kv hkv
      · exact optKV_wf _ _ (b1 _) (OptP_map h.sequence (fun t ht => by simp [Fits])) kv hkv
    · simp at hkv
  · obtain ⟨e, he, rfl⟩ := List.mem_map.mp hkv
    exact ⟨by simp, by simp [Fits, (h.tapSigs e he).1], (h.tapSigs e he).2.2⟩
  · obtain ⟨e, he, rfl⟩ := List.mem_map.mp hkv
    exact ⟨by simp, (h.tapScripts e he).1, (h.tapScripts e he).2⟩
  · obtain ⟨e, he, rfl⟩ := List.mem_map.mp hkv
    exact ⟨by simp, by simp [Fits, (h.tapBip32 e he).1], (h.tapBip32 e he).2.2.2.2.2⟩
  · exact optKV_wf _ _ (b1 _) (OptP_imp h.tapIK (fun t ht => by simp [Fits, ht.1])) kv hkv
  · exact optKV_wf _ _ (b1 _) h.tapMR kv hkv
  · exact (h.unknown kv hkv).1

theorem OutScope.pairs_wf (ko : KeyOps) (version : Option Nat) (s : OutScope) (h : OutWF ko s) :
    ∀ kv ∈ s.pairs version, KVWF kv := by
  have b1 : ∀ k0 : UInt8, ([k0] : Bytes) ≠ [] ∧ Fits [k0] := fun k0 => ⟨by simp, by simp [Fits]⟩
  intro kv hkv
  rw [OutScope.pairs_eq] at hkv
  simp only [List.mem_append] at hkv
  rcases hkv with ((((((hkv | hkv) | hkv) | hkv) | hkv) | hkv) | hkv)
  · exact optKV_wf _ _ (b1 _) h.redeem kv hkv
  · exact optKV_wf _ _ (b1 _) h.wscript kv hkv
  · obtain ⟨e, he, rfl⟩ := List.mem_map.mp hkv
    exact ⟨by simp, (h.bip32 e he).2.1, (h.bip32 e he).2.2.2.2⟩
  · split at hkv
    · simp only [List.mem_append] at hkv
      rcases hkv with hkv | hkv
      · exact optKV_wf _ _ (b1 _) (OptP_map h.value (fun t ht => by simp [Fits])) kv hkv
      · exact optKV_wf _ _ (b1 _) h.spk kv hkv
    · simp at hkv
  · exact optKV_wf _ _ (b1 _) (OptP_imp h.tapIK (fun t ht => by simp [Fits, ht.1])) kv hkv
  · obtain ⟨e, he, rfl⟩ := List.mem_map.mp hkv
    exact ⟨by simp, by simp [Fits, (h.tapBip32 e he).1], (h.tapBip32 e he).2.2.2.2.2⟩
  · exact (h.unknown kv hkv).1

end Embit
