import EmbitModel.Spec.Bip39Spec
import Mathlib.Tactic.Ring
import Mathlib.Tactic.IntervalCases
import Mathlib.Data.List.Induction
/-
  Bit-string lemmas for the BIP39 specification: `bitsOfNat`/`natOfBits` are mutually inverse, bytes ↔ bits,
  grouping. Core Lean only.
-/
namespace Embit.Spec.Bip39

@[simp] theorem bitsOfNat_length (w n : Nat) : (bitsOfNat w n).length = w := by
  induction w generalizing n with
  | zero => rfl
  | succ w ih => simp [bitsOfNat, ih]

theorem bitsOfNat_append (a b x y : Nat) (hy : y < 2 ^ b) :
    bitsOfNat (a + b) (x * 2 ^ b + y) = bitsOfNat a x ++ bitsOfNat b y := by
  induction b generalizing y with
  | zero => simp at hy; subst hy; simp [bitsOfNat]
  | succ b ih =>
    have e : x * 2 ^ (b + 1) = 2 * (x * 2 ^ b) := by ring
    have h1 : (x * 2 ^ (b + 1) + y) / 2 = x * 2 ^ b + y / 2 := by
      rw [e]; omega
    have h2 : (x * 2 ^ (b + 1) + y) % 2 = y % 2 := by
      rw [e]; omega
    have h3 : y / 2 < 2 ^ b := by rw [Nat.pow_succ] at hy; omega
    show bitsOfNat (a + b + 1) _ = _
    simp only [bitsOfNat, h1, h2, ih _ h3, List.append_assoc]

theorem bitsOfNat_zero (w : Nat) : bitsOfNat w 0 = List.replicate w false := by
  induction w with
  | zero => rfl
  | succ w ih => simp [bitsOfNat, ih, List.replicate_succ']

/-- a number padded with `p` zero bits on the right -/
theorem bitsOfNat_shift (a p x : Nat) :
    bitsOfNat (a + p) (x * 2 ^ p) = bitsOfNat a x ++ List.replicate p false := by
  have := bitsOfNat_append a p x 0 (Nat.two_pow_pos p)
  simpa [bitsOfNat_zero] using this

theorem foldl_bits (acc : Nat) (l : List Bool) :
    l.foldl (fun acc b => 2 * acc + b.toNat) acc = acc * 2 ^ l.length + natOfBits l := by
  induction l generalizing acc with
  | nil => simp [natOfBits]
  | cons b bs ih =>
    simp only [List.foldl_cons, List.length_cons, natOfBits]
    rw [ih, ih (2 * 0 + b.toNat)]
    simp only [natOfBits, Nat.pow_succ]
    ring

theorem natOfBits_append (a b : List Bool) :
    natOfBits (a ++ b) = natOfBits a * 2 ^ b.length + natOfBits b := by
  unfold natOfBits
  rw [List.foldl_append, foldl_bits]
  rfl

theorem natOfBits_lt (a : List Bool) : natOfBits a < 2 ^ a.length := by
  induction a using List.reverseRecOn with
  | nil => simp [natOfBits]
  | append_singleton l b ih =>
    rw [natOfBits_append]
    simp only [List.length_append, List.length_cons, List.length_nil, Nat.pow_succ]
    have : natOfBits [b] ≤ 1 := by cases b <;> simp [natOfBits]
    simp only [Nat.pow_zero, Nat.one_mul]
    omega

theorem natOfBits_bitsOfNat (w n : Nat) (h : n < 2 ^ w) : natOfBits (bitsOfNat w n) = n := by
  induction w generalizing n with
  | zero => simp at h; subst h; rfl
  | succ w ih =>
    have h3 : n / 2 < 2 ^ w := by rw [Nat.pow_succ] at h; omega
    simp only [bitsOfNat, natOfBits_append, ih _ h3]
    have : natOfBits [n % 2 == 1] = n % 2 := by
      rcases Nat.mod_two_eq_zero_or_one n with h | h <;> simp [natOfBits, h]
    simp [this]; omega

theorem bitsOfNat_natOfBits (l : List Bool) : bitsOfNat l.length (natOfBits l) = l := by
  induction l using List.reverseRecOn with
  | nil => rfl
  | append_singleton l b ih =>
    rw [natOfBits_append]
    simp only [List.length_append, List.length_cons, List.length_nil, Nat.zero_add, Nat.pow_one]
    have hb : natOfBits [b] < 2 ^ 1 := natOfBits_lt [b]
    have := bitsOfNat_append l.length 1 (natOfBits l) _ hb
    simp only [Nat.pow_one] at this
    rw [this, ih]
    congr 1
    cases b <;> rfl

/-! ### bytes and bits -/

@[simp] theorem bytesToBits_nil : bytesToBits [] = [] := rfl

@[simp] theorem bytesToBits_cons (x : UInt8) (xs : Bytes) :
    bytesToBits (x :: xs) = bitsOfNat 8 x.toNat ++ bytesToBits xs := by
  simp [bytesToBits]

@[simp] theorem bytesToBits_append (a b : Bytes) : bytesToBits (a ++ b) = bytesToBits a ++ bytesToBits b := by
  simp [bytesToBits]

@[simp] theorem bytesToBits_length (b : Bytes) : (bytesToBits b).length = 8 * b.length := by
  induction b with
  | nil => rfl
  | cons x xs ih => simp [ih]; omega

theorem bytesToBits_take (b : Bytes) (m : Nat) : bytesToBits (b.take m) = (bytesToBits b).take (8 * m) := by
  induction b generalizing m with
  | nil => simp
  | cons x xs ih =>
    cases m with
    | zero => simp
    | succ m =>
      simp only [List.take_succ_cons, bytesToBits_cons, ih]
      have : 8 * (m + 1) = (bitsOfNat 8 x.toNat).length + 8 * m := by simp; omega
      rw [this, List.take_length_add_append]

theorem bytesToBits_drop (b : Bytes) (m : Nat) : bytesToBits (b.drop m) = (bytesToBits b).drop (8 * m) := by
  induction b generalizing m with
  | nil => simp
  | cons x xs ih =>
    cases m with
    | zero => simp
    | succ m =>
      simp only [List.drop_succ_cons, bytesToBits_cons, ih]
      have : 8 * (m + 1) = (bitsOfNat 8 x.toNat).length + 8 * m := by simp; omega
      rw [this, List.drop_length_add_append]

theorem ofBe_cons (x : UInt8) (xs : Bytes) : ofBe (x :: xs) = x.toNat * 256 ^ xs.length + ofBe xs := by
  induction xs using List.reverseRecOn generalizing x with
  | nil => simp [ofBe, ofLe]
  | append_singleton l a ih =>
    have h1 : ofBe (x :: (l ++ [a])) = a.toNat + 256 * ofBe (x :: l) := by
      simp [ofBe, ofLe]
    have h2 : ofBe (l ++ [a]) = a.toNat + 256 * ofBe l := by
      simp [ofBe, ofLe]
    rw [h1, h2, ih]
    simp only [List.length_append, List.length_cons, List.length_nil, Nat.pow_succ]
    ring

theorem ofBe_snoc (l : Bytes) (a : UInt8) : ofBe (l ++ [a]) = ofBe l * 256 + a.toNat := by
  simp [ofBe, ofLe]; ring

theorem ofBe_lt (b : Bytes) : ofBe b < 2 ^ (8 * b.length) := by
  have := ofLe_lt b.reverse
  simp only [List.length_reverse] at this
  have e : (256 : Nat) ^ b.length = 2 ^ (8 * b.length) := by
    rw [Nat.pow_mul]
  rw [← e]; exact this

/-- the bit string of a byte string is the big-endian number it denotes, written with 8·length bits -/
theorem bytesToBits_eq_bitsOfNat (b : Bytes) : bytesToBits b = bitsOfNat (8 * b.length) (ofBe b) := by
  induction b with
  | nil => rfl
  | cons x xs ih =>
    rw [bytesToBits_cons, ofBe_cons, ih]
    have e : (256 : Nat) ^ xs.length = 2 ^ (8 * xs.length) := by rw [Nat.pow_mul]
    have l : 8 * (x :: xs).length = 8 + 8 * xs.length := by simp; omega
    rw [e, l, bitsOfNat_append _ _ _ _ (ofBe_lt xs)]

/-! ### grouping -/

theorem groupsAux_fuel {α : Type} (n : Nat) (hn : 0 < n) (f : Nat) (l : List α) (h : l.length ≤ f) :
    groupsAux n f l = groupsAux n l.length l := by
  induction f using Nat.strongRecOn generalizing l with
  | _ f ih =>
    cases l with
    | nil => cases f <;> simp [groupsAux]
    | cons a as =>
      cases f with
      | zero => simp at h
      | succ f =>
        simp only [groupsAux, List.length_cons, List.isEmpty_cons, Bool.false_eq_true, if_false]
        congr 1
        have h1 : ((a :: as).drop n).length ≤ as.length := by simp; omega
        have h2 : ((a :: as).drop n).length ≤ f := by simp at h; omega
        rw [ih f (by omega) _ h2, ih as.length (by simp at h; omega) _ h1]

@[simp] theorem groups_nil {α : Type} (n : Nat) : groups n ([] : List α) = [] := rfl

theorem groups_append {α : Type} (n : Nat) (hn : 0 < n) (g rest : List α) (hg : g.length = n) :
    groups n (g ++ rest) = g :: groups n rest := by
  unfold groups
  cases g with
  | nil => simp at hg; omega
  | cons a as =>
    simp only [List.length_append, List.length_cons]
    have : as.length + 1 + rest.length = (as.length + rest.length) + 1 := by omega
    rw [this]
    simp only [groupsAux, List.cons_append, List.isEmpty_cons, Bool.false_eq_true, if_false]
    have t : (a :: (as ++ rest)).take n = a :: as := by
      rw [← List.cons_append, List.take_append_of_le_length (by simp [← hg])]
      simp [← hg]
    have d : (a :: (as ++ rest)).drop n = rest := by
      rw [← List.cons_append, ← hg]; simp
    rw [t, d, groupsAux_fuel n hn _ rest (by omega)]

/-- cutting a string whose length is a multiple of `n` into groups: the i-th group is the slice `[n·i, n·i+n)` -/
theorem groups_eq_map_range {α : Type} (n : Nat) (hn : 0 < n) (k : Nat) (l : List α) (h : l.length = n * k) :
    groups n l = (List.range k).map fun i => (l.drop (n * i)).take n := by
  induction k generalizing l with
  | zero => simp at h; subst h; simp
  | succ k ih =>
    have hl : l = l.take n ++ l.drop n := (List.take_append_drop n l).symm
    have htl : (l.take n).length = n := by simp [h]; rw [Nat.mul_succ]; omega
    have hdl : (l.drop n).length = n * k := by simp [h]; rw [Nat.mul_succ]; omega
    rw [hl, groups_append n hn _ _ htl, ih _ hdl, List.range_succ_eq_map]
    simp only [List.map_cons, List.map_map, Nat.mul_zero, List.drop_zero]
    congr 1
    · rw [← hl]
    · apply List.map_congr_left
      intro i _
      simp only [Function.comp, Nat.succ_eq_add_one, List.drop_drop]
      rw [← hl]
      congr 2; ring

theorem groups_flatten (n : Nat) (hn : 0 < n) (k : Nat) (l : List Bool) (h : l.length = n * k) :
    (groups n l).flatMap id = l ∧ ∀ g ∈ groups n l, g.length = n := by
  induction k generalizing l with
  | zero => simp at h; subst h; simp
  | succ k ih =>
    have hl : l = l.take n ++ l.drop n := (List.take_append_drop n l).symm
    have htl : (l.take n).length = n := by simp [h]; rw [Nat.mul_succ]; omega
    have hdl : (l.drop n).length = n * k := by simp [h]; rw [Nat.mul_succ]; omega
    obtain ⟨i1, i2⟩ := ih _ hdl
    rw [hl, groups_append n hn _ _ htl]
    constructor
    · simp only [List.flatMap_cons, id, i1]
    · intro g hg
      simp only [List.mem_cons] at hg
      rcases hg with rfl | hg
      · exact htl
      · exact i2 g hg

theorem bitsToBytes_bytesToBits (b : Bytes) : bitsToBytes (bytesToBits b) = b := by
  induction b with
  | nil => rfl
  | cons x xs ih =>
    unfold bitsToBytes at ih ⊢
    rw [bytesToBits_cons, groups_append 8 (by decide) _ _ (by simp), List.map_cons, ih]
    congr 1
    rw [natOfBits_bitsOfNat 8 _ x.toNat_lt]
    simp

theorem bytesToBits_inj {a b : Bytes} (h : bytesToBits a = bytesToBits b) : a = b := by
  rw [← bitsToBytes_bytesToBits a, ← bitsToBytes_bytesToBits b, h]

/-- a bit string of 8·m bits is the bit string of the bytes it packs into -/
theorem bytesToBits_bitsToBytes (m : Nat) (l : List Bool) (h : l.length = 8 * m) :
    bytesToBits (bitsToBytes l) = l ∧ (bitsToBytes l).length = m := by
  induction m generalizing l with
  | zero => simp at h; subst h; exact ⟨rfl, rfl⟩
  | succ m ih =>
    have hl : l = l.take 8 ++ l.drop 8 := (List.take_append_drop 8 l).symm
    have htl : (l.take 8).length = 8 := by simp [h]
    have hdl : (l.drop 8).length = 8 * m := by simp [h]; omega
    obtain ⟨i1, i2⟩ := ih _ hdl
    unfold bitsToBytes at i1 i2 ⊢
    rw [hl, groups_append 8 (by decide) _ _ htl, List.map_cons, bytesToBits_cons]
    constructor
    · rw [i1]
      congr 1
      have lt : natOfBits (l.take 8) < 256 := by
        have := natOfBits_lt (l.take 8); rw [htl] at this; exact this
      have : (UInt8.ofNat (natOfBits (l.take 8))).toNat = natOfBits (l.take 8) := by
        simp [UInt8.toNat_ofNat']; omega
      rw [this]
      have := bitsOfNat_natOfBits (l.take 8)
      rw [htl] at this; exact this
    · simp [i2]

end Embit.Spec.Bip39
