import EmbitModel.Proofs.SignWithJust
import EmbitModel.Proofs.SignWithFrame
/-
  Completeness of `SignWith.signWith` as far as the code provides it: after a successful run every key the signer
  controls on an authorised input has an entry in its slot (Mathlib-free).
-/
namespace Embit.Model.SignWith
open Embit Embit.Model

variable {HD : Type}

theorem Tr.isSome {seen : List Slot} {s s' : InScope} {k : Nat} {ws : List (Slot × Bytes)} (t : Tr seen s s' k ws) (sl : Slot)
    (h : (slotValue s sl).isSome = true) : (slotValue s' sl).isSome = true := by
  rw [t.app]; exact slotValue_applySlots_isSome s ws sl h

theorem Tr.finalSingle {seen : List Slot} {s s' : InScope} {k : Nat} {ws : List (Slot × Bytes)} (t : Tr seen s s' k ws)
    (h : ∃ v, s.finalWitness = some [v]) : ∃ v, s'.finalWitness = some [v] := by
  rw [t.app]
  rcases finalWitness_applySlots s ws with h1 | ⟨v, _, h1⟩
  · rw [h1]; exact h
  · exact ⟨v, h1⟩

/-! ### derived key pairs -/

theorem derivedPairs_complete (O : Ops HD) (sg : Single HD) (tap : Bool) (l : List (Bytes × Deriv))
    (kps : List (Bytes × Bytes)) (h : derivedPairs O sg tap l = some kps) (pub : Bytes) (d : Deriv) (k : HD)
    (hm : (pub, d) ∈ l) (hd : sg.deriveFor O d.path = some (some k)) : (O.hdSecret k, pub) ∈ kps := by
  induction l generalizing kps with
  | nil => cases hm
  | cons a r ih =>
    obtain ⟨pub', d'⟩ := a
    unfold derivedPairs at h
    rw [List.mem_cons] at hm
    split at h
    · cases h
    · rename_i hskip
      rcases hm with hm | hm
      · cases hm; rw [hd] at hskip; cases hskip
      · exact ih kps h hm
    · rename_i k' hk'
      split at h
      · cases h
      · split at h
        · cases h
        · rename_i l' hl'
          simp only [Option.some.injEq] at h; subst h
          rcases hm with hm | hm
          · cases hm
            rw [hd] at hk'
            cases hk'
            exact List.mem_cons_self
          · exact List.mem_cons_of_mem _ (ih l' hl' hm)

theorem controls_mem (O : Ops HD) (OL : OrderLaws O) (sg : Single HD) (tap : Bool) (s : InScope)
    (kps0 : List (Bytes × Bytes))
    (h : derivedPairs O sg tap (O.orderD (dedup (match sg.fingerprint O with
        | some fp => if fp.isEmpty then [] else matchingDerivs s fp
        | none => []))) = some kps0) (sk pub : Bytes) (hc : Controls O sg tap s sk pub) :
    (sk, pub) ∈ O.orderK (dedup kps0) := by
  obtain ⟨fp, d, k, h1, h2, h3, h4, h5, _⟩ := hc
  rw [h1] at h
  have hne : fp.isEmpty = false := by cases fp <;> simp_all
  simp only [hne] at h
  have hm : (pub, d) ∈ O.orderD (dedup (matchingDerivs s fp)) :=
    (OL.permD _).mem_iff.mpr ((mem_dedup _ _).mpr h3)
  have := derivedPairs_complete O sg tap _ kps0 h pub d k hm h4
  rw [h5] at this
  exact (OL.permK _).mem_iff.mpr ((mem_dedup _ _).mpr this)

/-! ### taproot -/

/-- the TapLeaf hash `sign_input_with_tapkey` files a script-path signature under -/
def leafHashOf (O : Ops HD) (sc : Bytes) (lv : UInt8) : Bytes :=
  taggedHash O.sha "TapLeaf" ([lv] ++ scriptSer sc.dropLast)

theorem signLeaves_complete (O : Ops HD) (dg : Digest) (sk : Bytes) (f : Nat) (xo : Bytes) (l : List (Bytes × Bytes))
    (seen : List Slot) (s s' : InScope) (k : Nat) (ws : List (Slot × Bytes))
    (h : signLeaves O dg sk f xo seen l s = some (s', k, ws)) :
    ∀ ctrl sc lv, (ctrl, sc) ∈ l → isInfix xo sc = true → sc.getLast? = some lv →
      (slotValue s' (.tapScriptSig (xo ++ leafHashOf O sc lv))).isSome = true := by
  induction l generalizing seen s s' k ws with
  | nil => intro ctrl sc lv hm; cases hm
  | cons e r ih =>
    obtain ⟨ctrl0, sc0⟩ := e
    intro ctrl sc lv hm hin hlv
    rw [List.mem_cons] at hm
    unfold signLeaves at h
    split at h
    · rename_i hnot
      rcases hm with hm | hm
      · cases hm; simp [hin] at hnot
      · exact ih _ _ _ _ _ h ctrl sc lv hm hin hlv
    · split at h
      · cases h
      · rename_i lv0 hlv0
        dsimp only at h
        split at h
        · cases h
        · split at h
          · cases h
          · rename_i sig hsig
            split at h
            · cases h
            · rename_i s2 k2 ws2 hrec
              simp only [Option.some.injEq, Prod.mk.injEq] at h
              obtain ⟨rfl, rfl, rfl⟩ := h
              rcases hm with hm | hm
              · cases hm
                rw [hlv] at hlv0; cases hlv0
                refine (signLeaves_tr _ _ _ _ _ _ _ _ _ _ _ hrec).isSome _ ?_
                simp only [slotValue, leafHashOf]
                rw [lookup_setKV_self]; rfl
              · exact ih _ _ _ _ _ hrec ctrl sc lv hm hin hlv

/-- what `sign_input_with_tapkey(key)` guarantees about the scope afterwards -/
def TapDone (O : Ops HD) (s0 : InScope) (u : TxOut) (sk : Bytes) (c : Bool) (s' : InScope) : Prop :=
  ∀ tsk, O.tapTweak sk (s0.tapMerkleRoot.getD []) = some tsk →
    (isInfix (xonlyOfSec (O.secOf tsk true)) u.spk = true → ∃ v, s'.finalWitness = some [v]) ∧
    (isInfix (xonlyOfSec (O.secOf tsk true)) u.spk = false →
      ∀ ctrl sc lv, (ctrl, sc) ∈ s0.tapScripts → isInfix (xonlyOfSec (O.secOf sk c)) sc = true →
        sc.getLast? = some lv →
        (slotValue s' (.tapScriptSig (xonlyOfSec (O.secOf sk c) ++ leafHashOf O sc lv))).isSome = true)

theorem TapDone.mono {O : Ops HD} {s0 : InScope} {u : TxOut} {sk : Bytes} {c : Bool} {s' s'' : InScope} {k : Nat}
    {seen : List Slot} {ws : List (Slot × Bytes)} (t : Tr seen s' s'' k ws) (h : TapDone O s0 u sk c s') : TapDone O s0 u sk c s'' := by
  intro tsk htw
  obtain ⟨h1, h2⟩ := h tsk htw
  exact ⟨fun hin => t.finalSingle (h1 hin), fun hin ctrl sc lv hm hi hl => t.isSome _ (h2 hin ctrl sc lv hm hi hl)⟩

theorem signTapKey_complete (O : Ops HD) (dg : Digest) (s0 : InScope) (u : TxOut) (sk : Bytes) (c : Bool) (f : Nat)
    (hu : s0.utxo = some u) (htap : isTaprootSpk u.spk = true) (seen : List Slot) (s s' : InScope) (k : Nat)
    (ws : List (Slot × Bytes)) (hc : core s = core s0) (h : signTapKey O dg sk c f seen s = some (s', k, ws)) :
    TapDone O s0 u sk c s' := by
  have hf := core_fields hc
  unfold signTapKey at h
  rw [hf.1, hu] at h
  dsimp only at h
  simp only [htap, Bool.not_true, Bool.false_eq_true, if_false] at h
  rw [hf.2.2.2.1] at h
  intro tsk htw
  rw [htw] at h
  dsimp only at h
  split at h
  · rename_i hin
    refine ⟨fun _ => ?_, fun hnot => by rw [hin] at hnot; cases hnot⟩
    split at h
    · cases h
    · split at h
      · cases h
      · simp only [Option.some.injEq, Prod.mk.injEq] at h; obtain ⟨rfl, rfl, rfl⟩ := h
        exact ⟨_, rfl⟩
  · rename_i hin
    refine ⟨fun hyes => absurd hyes hin, fun _ ctrl sc lv hm hi hl => ?_⟩
    rw [hf.2.2.2.2.1] at h
    exact signLeaves_complete O dg sk f _ _ _ _ _ _ _ h ctrl sc lv hm hi hl

theorem signTapDerived_complete (O : Ops HD) (dg : Digest) (s0 : InScope) (u : TxOut) (f : Nat)
    (hu : s0.utxo = some u) (htap : isTaprootSpk u.spk = true) (l : List (Bytes × Bytes))
    (seen : List Slot) (s s' : InScope) (k : Nat) (ws : List (Slot × Bytes)) (hc : core s = core s0)
    (h : signTapDerived O dg f seen l s = some (s', k, ws)) :
    ∀ e ∈ l, TapDone O s0 u e.1 true s' := by
  induction l generalizing seen s s' k ws with
  | nil => intro e he; cases he
  | cons a r ih =>
    obtain ⟨prv, pub⟩ := a
    unfold signTapDerived at h
    split at h
    · cases h
    · rename_i s1 k1 w1 h1
      split at h
      · cases h
      · rename_i s2 k2 w2 h2
        simp only [Option.some.injEq, Prod.mk.injEq] at h; obtain ⟨rfl, rfl, rfl⟩ := h
        have hc1 : core s1 = core s0 := by rw [(signTapKey_tr _ _ _ _ _ _ _ _ _ _ h1).core, hc]
        intro e he
        rw [List.mem_cons] at he
        rcases he with rfl | he
        · exact (signTapKey_complete O dg s0 u prv true f hu htap seen s s1 k1 w1 hc h1).mono
            (signTapDerived_tr _ _ _ _ _ _ _ _ _ h2)
        · exact ih _ _ _ _ _ hc1 h2 e he

/-! ### legacy and segwit -/

theorem signEcdsaRoot_complete (O : Ops HD) (sk : Bytes) (c : Bool) (f : Nat) (hh sc : Bytes) (seen : List Slot)
    (s s' : InScope) (k : Nat)
    (ws : List (Slot × Bytes)) (h : signEcdsaRoot O sk c f hh sc seen s = some (s', k, ws))
    (hin : isInfix (O.secOf sk c) sc = true ∨ isInfix (O.hash160 (O.secOf sk c)) sc = true) :
    (slotValue s' (.partialSig (O.secOf sk c))).isSome = true := by
  unfold signEcdsaRoot at h
  dsimp only at h
  have : (isInfix (O.secOf sk c) sc || isInfix (O.hash160 (O.secOf sk c)) sc) = true := by
    simpa [Bool.or_eq_true] using hin
  rw [if_pos this] at h
  split at h
  · cases h
  · simp only [Option.some.injEq, Prod.mk.injEq] at h; obtain ⟨rfl, rfl, rfl⟩ := h
    simp only [slotValue]
    rw [lookup_setKV_self]; rfl

theorem signEcdsaDerived_complete (O : Ops HD) (rootpub : Bytes) (f : Nat) (hh : Bytes) (l : List (Bytes × Bytes))
    (seen : List Slot) (s s' : InScope) (k : Nat) (ws : List (Slot × Bytes))
    (h : signEcdsaDerived O rootpub f hh seen l s = some (s', k, ws)) :
    ∀ e ∈ l, (slotValue s' (.partialSig e.2)).isSome = true := by
  induction l generalizing seen s s' k ws with
  | nil => intro e he; cases he
  | cons a r ih =>
    obtain ⟨prv, pub⟩ := a
    intro e he
    rw [List.mem_cons] at he
    unfold signEcdsaDerived at h
    split at h
    · rename_i hskip
      rcases he with rfl | he
      · refine (signEcdsaDerived_tr _ _ _ _ _ _ _ _ _ _ h).isSome _ ?_
        simp only [Bool.and_eq_true, decide_eq_true_eq] at hskip
        exact hskip.2
      · exact ih _ _ _ _ _ h e he
    · split at h
      · cases h
      · dsimp only at h
        split at h
        · cases h
        · rename_i s2 k2 w2 h2
          simp only [Option.some.injEq, Prod.mk.injEq] at h; obtain ⟨rfl, rfl, rfl⟩ := h
          rcases he with rfl | he
          · refine (signEcdsaDerived_tr _ _ _ _ _ _ _ _ _ _ h2).isSome _ ?_
            simp only [slotValue]
            rw [lookup_setKV_self]; rfl
          · exact ih _ _ _ _ _ h2 e he

/-! ### one input -/

/-- what one pass of one key over one authorised input guarantees -/
def InputDone (O : Ops HD) (sg : Single HD) (s : InScope) (u : TxOut) (s' : InScope) : Prop :=
  (isTaprootSpk u.spk = false →
    ((isInfix (O.secOf (sg.secret O) sg.compressed) (scriptOf s u.spk) = true
        ∨ isInfix (O.hash160 (O.secOf (sg.secret O) sg.compressed)) (scriptOf s u.spk) = true) →
      (slotValue s' (.partialSig (O.secOf (sg.secret O) sg.compressed))).isSome = true) ∧
    ∀ sk pub, Controls O sg false s sk pub → (slotValue s' (.partialSig pub)).isSome = true) ∧
  (isTaprootSpk u.spk = true → ∀ sk c, OwnKey O sg s sk c → TapDone O s u sk c s')

theorem InputDone.mono {O : Ops HD} {sg : Single HD} {s : InScope} {u : TxOut} {s' s'' : InScope} {k : Nat}
    {seen : List Slot} {ws : List (Slot × Bytes)} (t : Tr seen s' s'' k ws) (h : InputDone O sg s u s') : InputDone O sg s u s'' := by
  refine ⟨fun hn => ?_, fun ht sk c ho => (h.2 ht sk c ho).mono t⟩
  obtain ⟨h1, h2⟩ := h.1 hn
  exact ⟨fun hin => t.isSome _ (h1 hin), fun sk pub hc => t.isSome _ (h2 sk pub hc)⟩

theorem TapDone.mono' {O : Ops HD} {s0 : InScope} {u : TxOut} {sk : Bytes} {c : Bool} {s' s'' : InScope}
    {ws : List (Slot × Bytes)} (t : s'' = applySlots s' ws) (h : TapDone O s0 u sk c s') : TapDone O s0 u sk c s'' := by
  intro tsk htw
  obtain ⟨h1, h2⟩ := h tsk htw
  refine ⟨fun hin => ?_, fun hin ctrl sc lv hm hi hl => ?_⟩
  · rw [t]
    rcases finalWitness_applySlots s' ws with h3 | ⟨v, _, h3⟩
    · rw [h3]; exact h1 hin
    · exact ⟨v, h3⟩
  · rw [t]; exact slotValue_applySlots_isSome s' ws _ (h2 hin ctrl sc lv hm hi hl)

theorem InputDone.mono' {O : Ops HD} {sg : Single HD} {s : InScope} {u : TxOut} {s' s'' : InScope}
    {ws : List (Slot × Bytes)} (t : s'' = applySlots s' ws) (h : InputDone O sg s u s') : InputDone O sg s u s'' := by
  refine ⟨fun hn => ?_, fun ht sk c ho => (h.2 ht sk c ho).mono' t⟩
  obtain ⟨h1, h2⟩ := h.1 hn
  exact ⟨fun hin => by rw [t]; exact slotValue_applySlots_isSome s' ws _ (h1 hin),
    fun sk pub hc => by rw [t]; exact slotValue_applySlots_isSome s' ws _ (h2 sk pub hc)⟩

theorem InputDone.core {O : Ops HD} {sg : Single HD} {s t : InScope} {u : TxOut} {s' : InScope}
    (hc : core s = core t) (h : InputDone O sg s u s') : InputDone O sg t u s' := by
  have hf := core_fields hc
  refine ⟨fun hn => ?_, fun ht sk c ho => ?_⟩
  · obtain ⟨h1, h2⟩ := h.1 hn
    refine ⟨fun hin => h1 (by rw [scriptOf_core hc]; exact hin), fun sk pub hctl => h2 sk pub (hctl.core hc.symm)⟩
  · have := h.2 ht sk c (ho.core hc.symm)
    intro tsk htw
    obtain ⟨h1, h2⟩ := this tsk (by rw [hf.2.2.2.1]; exact htw)
    exact ⟨h1, fun hin ctrl sc lv hm => h2 hin ctrl sc lv (by rw [hf.2.2.2.2.1]; exact hm)⟩

theorem signInput_complete (O : Ops HD) (OL : OrderLaws O) (sg : Single HD) (auth : Option Nat) (dg : Digest)
    (s : InScope) (u : TxOut) (hu : s.utxo = some u) (f : Nat)
    (hpol : signPolicy auth s.sighashType (isTaprootSpk u.spk) = some f)
    (seen : List Slot) (s' : InScope) (k : Nat) (ws : List (Slot × Bytes))
    (h : signInput O sg auth dg seen s = some (s', k, ws)) :
    InputDone O sg s u s' := by
  unfold signInput at h
  rw [hu] at h
  dsimp only at h
  rw [hpol] at h
  dsimp only at h
  split at h
  · cases h
  · rename_i kps0 hkps
    have hmem := controls_mem O OL sg (isTaprootSpk u.spk) s kps0 hkps
    split at h
    · rename_i htap
      split at h
      · cases h
      · rename_i s1 k1 w1 h1
        split at h
        · cases h
        · rename_i s2 k2 w2 h2
          simp only [Option.some.injEq, Prod.mk.injEq] at h; obtain ⟨rfl, rfl, rfl⟩ := h
          refine ⟨fun hn => (by rw [htap] at hn; cases hn), fun _ sk c ho => ?_⟩
          rcases ho with ⟨rfl, rfl⟩ | ⟨rfl, pub, hctl⟩
          · exact (signTapKey_complete O dg s u _ _ f hu htap seen s s1 k1 w1 rfl h1).mono
              (signTapDerived_tr _ _ _ _ _ _ _ _ _ h2)
          · rw [htap] at hmem
            have hc1 : core s1 = core s := (signTapKey_tr _ _ _ _ _ _ _ _ _ _ h1).core
            exact signTapDerived_complete O dg s u f hu htap _ _ s1 s2 k2 w2 hc1 h2 (sk, pub) (hmem sk pub hctl)
    · rename_i htap
      have htap' : isTaprootSpk u.spk = false := by simpa using htap
      split at h
      · cases h
      · split at h
        · cases h
        · rename_i s1 k1 w1 h1
          split at h
          · cases h
          · rename_i s2 k2 w2 h2
            simp only [Option.some.injEq, Prod.mk.injEq] at h; obtain ⟨rfl, rfl, rfl⟩ := h
            refine ⟨fun _ => ⟨fun hin => ?_, fun sk pub hctl => ?_⟩, fun ht => (by rw [htap'] at ht; cases ht)⟩
            · exact (signEcdsaDerived_tr _ _ _ _ _ _ _ _ _ _ h2).isSome _
                (signEcdsaRoot_complete O _ _ f _ _ seen s s1 k1 w1 h1 hin)
            · rw [htap'] at hmem
              exact signEcdsaDerived_complete O _ f _ _ _ s1 s2 k2 w2 h2 (sk, pub) (hmem sk pub hctl)


/-! ### PSBT level -/

/-- later writes keep what an input has got -/
theorem inputDone_applyWrites {O : Ops HD} {sg : Single HD} {s : InScope} {u : TxOut} {p : Psbt} {i : Nat}
    {s' : InScope} (hs : p.inputs[i]? = some s') (h : InputDone O sg s u s') (ws : List Write) :
    ∃ s'', (applyWrites p ws).inputs[i]? = some s'' ∧ InputDone O sg s u s'' := by
  rw [applyWrites_get, hs]
  exact ⟨_, rfl, h.mono' rfl⟩

theorem signInputs_complete (O : Ops HD) (OL : OrderLaws O) (sg : Single HD) (auth : Option Nat) (p0 : Psbt)
    (idxs : List Nat) (G : List (Nat × Slot)) (p p' : Psbt) (n : Nat) (ws : List Write) (hp : pcore p = pcore p0)
    (h : signInputs O sg auth idxs G p = some (p', n, ws)) :
    ∀ i ∈ idxs, ∀ s u f, p0.inputs[i]? = some s → s.utxo = some u →
      signPolicy auth s.sighashType (isTaprootSpk u.spk) = some f →
      ∃ s', p'.inputs[i]? = some s' ∧ InputDone O sg s u s' := by
  induction idxs generalizing G p p' n ws with
  | nil => intro i hi; cases hi
  | cons j r ih =>
    unfold signInputs at h
    split at h
    · cases h
    · rename_i sj hsj
      split at h
      · cases h
      · rename_i sj' k w1 h1
        split at h
        · cases h
        · rename_i p2 k2 w2 h2
          simp only [Option.some.injEq, Prod.mk.injEq] at h; obtain ⟨rfl, rfl, rfl⟩ := h
          have htr := signInput_tr _ _ _ _ _ _ _ _ _ h1
          have hp2 : pcore (Psbt.setInput p j sj') = pcore p0 := by
            rw [pcore_setInput p j sj sj' hsj htr.core, hp]
          intro i hi s u f hs hu hpol
          by_cases hir : i ∈ r
          · exact ih _ _ _ _ _ hp2 h2 i hir s u f hs hu hpol
          · have hij : i = j := by
              rcases List.mem_cons.mp hi with h' | h'
              · exact h'
              · exact absurd h' hir
            subst hij
            obtain ⟨t, ht, hc⟩ := pcore_get hp.symm i s hs
            rw [hsj] at ht; cases ht
            have hf := core_fields hc
            have hu' : sj.utxo = some u := by rw [← hf.1]; exact hu
            have hpol' : signPolicy auth sj.sighashType (isTaprootSpk u.spk) = some f := by
              rw [← hf.2.2.2.2.2.2.2]; exact hpol
            have hdone := (signInput_complete O OL sg auth _ sj u hu' f hpol' _ sj' k w1 h1).core hc.symm
            have hget : (Psbt.setInput p i sj').inputs[i]? = some sj' := setInput_get p i sj sj' hsj
            rw [(signInputs_tr _ _ _ _ _ _ _ _ _ h2).app]
            exact inputDone_applyWrites hget hdone w2

theorem signSingle_complete (O : Ops HD) (OL : OrderLaws O) (sg : Single HD) (auth : Option Nat) (p0 : Psbt)
    (G : List (Nat × Slot)) (p p' : Psbt)
    (n : Nat) (ws : List Write) (hp : pcore p = pcore p0) (hsg : sg ≠ .keyPub)
    (h : signSingle O sg auth G p = some (p', n, ws)) :
    ∀ (i : Nat) s u f, p0.inputs[i]? = some s → s.utxo = some u →
      signPolicy auth s.sighashType (isTaprootSpk u.spk) = some f →
      ∃ s', p'.inputs[i]? = some s' ∧ InputDone O sg s u s' := by
  unfold signSingle at h
  split at h
  · exact absurd rfl hsg
  · intro i s u f hs hu hpol
    have hlen : p.inputs.length = p0.inputs.length := by
      have := congrArg (fun q => q.inputs.length) hp
      simpa [pcore] using this
    have hi : i ∈ List.range p.inputs.length := by
      rw [List.mem_range, hlen]
      rcases Nat.lt_or_ge i p0.inputs.length with h' | h'
      · exact h'
      · rw [List.getElem?_eq_none h'] at hs; cases hs
    exact signInputs_complete O OL sg auth p0 _ G p p' n ws hp h i hi s u f hs hu hpol

theorem signKeys_complete (O : Ops HD) (OL : OrderLaws O) (auth : Option Nat) (p0 : Psbt) (keys : List (Single HD))
    (G : List (Nat × Slot)) (p p' : Psbt) (n : Nat) (ws : List Write) (hp : pcore p = pcore p0)
    (h : signKeys O auth keys G p = some (p', n, ws)) :
    ∀ sg ∈ keys, sg ≠ .keyPub → ∀ (i : Nat) s u f, p0.inputs[i]? = some s → s.utxo = some u →
      signPolicy auth s.sighashType (isTaprootSpk u.spk) = some f →
      ∃ s', p'.inputs[i]? = some s' ∧ InputDone O sg s u s' := by
  induction keys generalizing G p p' n ws with
  | nil => intro sg hsg; cases hsg
  | cons k r ih =>
    unfold signKeys at h
    split at h
    · cases h
    · rename_i p1 n1 w1 h1
      split at h
      · cases h
      · rename_i p2 n2 w2 h2
        simp only [Option.some.injEq, Prod.mk.injEq] at h; obtain ⟨rfl, rfl, rfl⟩ := h
        have hp1 : pcore p1 = pcore p0 := by
          rw [(signSingle_tr _ _ _ _ _ _ _ _ h1).app, pcore_applyWrites, hp]
        intro sg hsg hne i s u f hs hu hpol
        rcases List.mem_cons.mp hsg with rfl | hsg
        · obtain ⟨s1, hs1, hd1⟩ := signSingle_complete O OL sg auth p0 G p p1 n1 w1 hp hne h1 i s u f hs hu hpol
          rw [(signKeys_tr _ _ _ _ _ _ _ _ h2).app]
          exact inputDone_applyWrites hs1 hd1 w2
        · exact ih _ _ _ _ _ hp1 h2 sg hsg hne i s u f hs hu hpol

theorem signWith_complete (O : Ops HD) (OL : OrderLaws O) (signer : Signer HD) (auth : Option Nat) (p p' : Psbt)
    (n : Nat) (ws : List Write) (h : signWith O signer auth p = some (p', n, ws)) :
    ∀ sg ∈ signer.keys, sg ≠ .keyPub → ∀ (i : Nat) s u f, p.inputs[i]? = some s → s.utxo = some u →
      signPolicy auth s.sighashType (isTaprootSpk u.spk) = some f →
      ∃ s', p'.inputs[i]? = some s' ∧ InputDone O sg s u s' := by
  unfold signWith at h
  split at h
  · rename_i sg0
    intro sg hsg hne
    rw [Signer.keys, List.mem_singleton] at hsg
    subst hsg
    exact signSingle_complete O OL sg auth p [] p p' n ws rfl hne h
  · exact signKeys_complete O OL auth p _ [] p p' n ws rfl h

end Embit.Model.SignWith
