import EmbitModel.Proofs.PsbtTop
/-
  C04 (deepening): the well-formedness predicates of the serialise-then-parse theorems — explicit, decidable
  (for a given `KeyOps`), and satisfied by everything `Psbt.parse` (KEEP_ALL) returns — plus the field codecs in
  the serialise-then-parse direction (`Deriv`, taproot derivations).
-/
set_option linter.unusedSimpArgs false
set_option linter.unusedVariables false
namespace Embit
open Model Spec.Wire

/-- a predicate on an optional field: nothing demanded of an absent field -/
def OptP {α : Type} (P : α → Prop) : Option α → Prop
  | none => True
  | some x => P x

@[simp] theorem OptP_none {α : Type} (P : α → Prop) : OptP P none = True := rfl
@[simp] theorem OptP_some {α : Type} (P : α → Prop) (x : α) : OptP P (some x) = P x := rfl

instance {α : Type} (P : α → Prop) [DecidablePred P] : DecidablePred (OptP P) := fun o => by
  cases o <;> simp only [OptP_none, OptP_some] <;> infer_instance

theorem OptP.of_eq {α : Type} {P : α → Prop} {o : Option α} (h : OptP P o) {x : α} (e : o = some x) : P x := by
  subst e; exact h

instance (i : TxIn) : Decidable (WFIn i) :=
  decidable_of_iff (i.txid.length = 32 ∧ i.vout < 2^32 ∧ i.scriptSig.length < 2^64 ∧ i.sequence < 2^32
      ∧ i.witness.length < 2^64 ∧ ∀ d ∈ i.witness, d.length < 2^64)
    ⟨fun ⟨a, b, c, d, e, f⟩ => ⟨a, b, c, d, e, f⟩, fun ⟨a, b, c, d, e, f⟩ => ⟨a, b, c, d, e, f⟩⟩

instance (o : TxOut) : Decidable (WFOut o) :=
  decidable_of_iff (o.value < 2^64 ∧ o.spk.length < 2^64) ⟨fun ⟨a, b⟩ => ⟨a, b⟩, fun ⟨a, b⟩ => ⟨a, b⟩⟩

instance (t : Tx) : Decidable (WF t) :=
  decidable_of_iff (t.version < 2^32 ∧ t.locktime < 2^32 ∧ 1 ≤ t.vin.length ∧ t.vin.length < 2^64
      ∧ t.vout.length < 2^64 ∧ (∀ i ∈ t.vin, WFIn i) ∧ ∀ o ∈ t.vout, WFOut o)
    ⟨fun ⟨a, b, c, d, e, f, g⟩ => ⟨a, b, c, d, e, f, g⟩, fun ⟨a, b, c, d, e, f, g⟩ => ⟨a, b, c, d, e, f, g⟩⟩

instance (kv : KV) : Decidable (KVWF kv) := by unfold KVWF; infer_instance

/-- a byte string that fits a CompactSize length prefix -/
abbrev Fits (v : Bytes) : Prop := v.length < 2^64

/-! ### derivation paths -/

/-- what `DerivationPath.parse` returns: a 4-byte fingerprint (or a shorter one and then no path), 32-bit indices -/
def DerivWF (d : Deriv) : Prop :=
  (d.fingerprint.length = 4 ∨ (d.fingerprint.length < 4 ∧ d.path = [])) ∧ (∀ n ∈ d.path, n < 2^32)
  ∧ Fits (Deriv.ser d)

instance (d : Deriv) : Decidable (DerivWF d) := by unfold DerivWF; infer_instance

/-- taproot derivation: leaf hashes of 32 bytes, then a derivation -/
def TapDerivWF (x : List Bytes × Deriv) : Prop :=
  x.1.length < 2^64 ∧ (∀ h ∈ x.1, h.length = 32) ∧ DerivWF x.2 ∧ Fits (tapDerivSer x)

instance (x : List Bytes × Deriv) : Decidable (TapDerivWF x) := by unfold TapDerivWF; infer_instance

theorem chunks4_flatMap (p : List Nat) (hp : ∀ n ∈ p, n < 2^32) :
    ∀ fuel, p.length + 1 ≤ fuel → chunks4 fuel (p.flatMap (leN 4)) = some p := by
  induction p with
  | nil => intro fuel hf; cases fuel with
    | zero => omega
    | succ f => simp [chunks4]
  | cons n p ih =>
    intro fuel hf
    cases fuel with
    | zero => omega
    | succ f =>
      have hl : (leN 4 n).length = 4 := by simp [leN]
      have h1 : ((n :: p).flatMap (leN 4)) = leN 4 n ++ p.flatMap (leN 4) := by simp
      have hne : (leN 4 n ++ p.flatMap (leN 4)).isEmpty = false := by
        cases h : leN 4 n with
        | nil => simp [h] at hl
        | cons _ _ => rfl
      have hlen : ¬ (leN 4 n ++ p.flatMap (leN 4)).length < 4 := by simp [hl]
      have ht : (leN 4 n ++ p.flatMap (leN 4)).take 4 = leN 4 n := by
        rw [List.take_append_of_le_length (by omega)]; rw [List.take_of_length_le (by omega)]
      have hd : (leN 4 n ++ p.flatMap (leN 4)).drop 4 = p.flatMap (leN 4) := by
        rw [List.drop_append_of_le_length (by omega)]; rw [List.drop_of_length_le (by omega)]; simp
      have ih' := ih (fun m hm => hp m (by simp [hm])) f (by simp at hf; omega)
      have hv : ofLe (leN 4 n) = n := ofLe_leN 4 n (by have := hp n (by simp); omega)
      rw [h1]
      simp only [chunks4, hne, hlen, ht, hd, ih', hv]
      simp

theorem flatMap_leN4_length (p : List Nat) : (p.flatMap (leN 4)).length = 4 * p.length := by
  induction p with
  | nil => rfl
  | cons n p ih =>
    have : (leN 4 n).length = 4 := by simp [leN]
    rw [List.flatMap_cons, List.length_append, ih, this, List.length_cons]; omega

/-- serialise-then-parse of a derivation -/
theorem Deriv.parse_ser (d : Deriv) (h : DerivWF d) : Deriv.parse (Deriv.ser d) = some d := by
  obtain ⟨hf, hp, _⟩ := h
  unfold Deriv.parse Deriv.ser
  rcases hf with hf | ⟨hf, hnil⟩
  · have ht : (d.fingerprint ++ d.path.flatMap (leN 4)).take 4 = d.fingerprint := by
      rw [List.take_append_of_le_length (by omega)]; rw [List.take_of_length_le (by omega)]
    have hd : (d.fingerprint ++ d.path.flatMap (leN 4)).drop 4 = d.path.flatMap (leN 4) := by
      rw [List.drop_append_of_le_length (by omega)]; rw [List.drop_of_length_le (by omega)]; simp
    have hc := chunks4_flatMap d.path hp ((d.fingerprint ++ d.path.flatMap (leN 4)).length + 1)
      (by rw [List.length_append, flatMap_leN4_length]; omega)
    rw [hd, hc, ht]
  · have ht : (d.fingerprint ++ d.path.flatMap (leN 4)).take 4 = d.fingerprint := by
      rw [hnil]; simp only [List.flatMap_nil, List.append_nil]; exact List.take_of_length_le (by omega)
    have hd : (d.fingerprint ++ d.path.flatMap (leN 4)).drop 4 = [] := by
      rw [hnil]; simp only [List.flatMap_nil, List.append_nil]; exact List.drop_of_length_le (by omega)
    rw [hd, ht]
    cases d with
    | mk fp path => simp at hnil; subst hnil; simp [chunks4]

theorem chunks4_lt (fuel : Nat) : ∀ (b : Bytes) (p : List Nat), chunks4 fuel b = some p → ∀ n ∈ p, n < 2^32 := by
  induction fuel with
  | zero => intro b p h; simp [chunks4] at h
  | succ f ih =>
    intro b p h
    simp only [chunks4] at h
    split at h
    · simp at h; subst h; simp
    · split at h
      · simp at h
      · rename_i hl
        split at h
        · simp at h
        · rename_i rest hr
          simp at h; subst h
          intro n hn
          simp at hn
          rcases hn with rfl | hn
          · have := ofLe_lt (b.take 4)
            have ht : (b.take 4).length = 4 := by simp; omega
            rw [ht] at this; omega
          · exact ih _ _ hr n hn

theorem chunks4_nil_of_empty (fuel : Nat) (p : List Nat) (h : chunks4 fuel [] = some p) : p = [] := by
  cases fuel with
  | zero => simp [chunks4] at h
  | succ f => simp [chunks4] at h; exact h

/-- what the derivation parser returns is well-formed (the length bound is that of the value it was read from) -/
theorem Deriv.parse_wf {v : Bytes} {d : Deriv} (h : Deriv.parse v = some d) (hv : Fits v) : DerivWF d := by
  have hs := Deriv.ser_parse h
  unfold Deriv.parse at h
  split at h
  · simp at h
  · rename_i p hp
    simp at h; subst h
    refine ⟨?_, chunks4_lt _ _ _ hp, by rw [hs]; exact hv⟩
    by_cases hl : 4 ≤ v.length
    · left; simp; omega
    · right
      refine ⟨by simp; omega, ?_⟩
      have : v.drop 4 = [] := by simp; omega
      rw [this] at hp
      exact chunks4_nil_of_empty _ _ hp

theorem readMany_takeN32 (hs : List Bytes) (r : Bytes) (h : ∀ x ∈ hs, x.length = 32) :
    readMany (takeN 32) hs.length (hs.flatten ++ r) = some (hs, r) := by
  have := readMany_enc (takeN 32) id hs r (fun x hx r => by
    have := takeN_append x r; rw [h x hx] at this; exact this)
  simpa [List.flatMap_def] using this

theorem tapDerivParse_ser (x : List Bytes × Deriv) (h : TapDerivWF x) : tapDerivParse (tapDerivSer x) = some x := by
  obtain ⟨h1, h2, h3, _⟩ := h
  unfold tapDerivParse tapDerivSer
  simp only [List.append_assoc, Compact.read_enc _ _ h1, readMany_takeN32 _ _ h2, Deriv.parse_ser _ h3]

theorem takeN32_len (n : Nat) (b : Bytes) (hs : List Bytes) (r : Bytes)
    (h : readMany (takeN 32) n b = some (hs, r)) : ∀ x ∈ hs, x.length = 32 :=
  (readMany_sound (takeN 32) id (fun x => x.length = 32)
    (fun b x r hx => ⟨(takeN_sound hx).1, (takeN_sound hx).2⟩) n b hs r h).2.2

theorem tapDerivParse_wf {v : Bytes} {x : List Bytes × Deriv} (h : tapDerivParse v = some x) (hv : Fits v) :
    TapDerivWF x := by
  have hs := tapDeriv_ser_parse h
  unfold tapDerivParse at h
  split at h
  · simp at h
  · rename_i n r hn
    obtain ⟨e1, l1⟩ := Compact.read_sound hn
    split at h
    · simp at h
    · rename_i hashes r2 hh
      obtain ⟨e2, l2⟩ := takeN32_flatten _ _ _ _ hh
      split at h
      · simp at h
      · rename_i d hd
        simp at h; subst h
        have hr2 : Fits r2 := by
          have : v.length = (Compact.enc n).length + (hashes.flatten.length + r2.length) := by
            rw [e1, e2]; simp
          unfold Fits at hv ⊢; omega
        exact ⟨by simp [l2]; exact l1, takeN32_len _ _ _ _ hh, Deriv.parse_wf hd hr2, by rw [hs]; exact hv⟩

/-! ### keys that stay in `unknown` -/

/-- an input-scope key no typed field is written under (it is kept in `unknown`) -/
def unkKeyIn : Bytes → Bool
  | [] => false
  | k0 :: kr => !typedIn k0 && !txFieldKey (k0 :: kr)

def unkKeyOut : Bytes → Bool
  | [] => false
  | k0 :: kr => !typedOut k0 && !txFieldKeyOut (k0 :: kr)

/-- a global key `parse_unknowns` leaves in `unknown` (`isV2`: the PSBT is version 2) -/
def unkKeyGlobal (isV2 : Bool) : Bytes → Bool
  | [] => false
  | k0 :: kr => !(k0 == 0x01) && !(k0 :: kr == [0x00]) && !(k0 :: kr == [0xfb])
      && !(isV2 && (k0 :: kr == [0x02] || k0 :: kr == [0x03] || k0 :: kr == [0x04] || k0 :: kr == [0x05]))

/-! ### scopes -/

/-- well-formed input scope: what `InputScope.read_from` (KEEP_ALL) can return. Every clause is a size bound of the
    wire format, a validity check `read_value` performs, or the absence of duplicate keys. -/
structure InWF (ko : KeyOps) (s : InScope) : Prop where
  utxoS : s.utxoS = none
  txhash : s.txhash = none
  verified : s.verified = false
  txid : OptP (fun t => t.length = 32) s.txid
  vout : OptP (· < 2^32) s.vout
  sequence : OptP (· < 2^32) s.sequence
  nwu : OptP (fun t => WF t ∧ Fits (Tx.ser t)) s.nonWitnessUtxo
  wu : OptP (fun o => WFOut o ∧ Fits (TxOut.ser o)) s.witnessUtxo
  psigs : ∀ e ∈ s.partialSigs, ko.validSec e.1 = true ∧ Fits (0x02 :: e.1) ∧ Fits e.2
  psigsNodup : (s.partialSigs.map Prod.fst).Nodup
  sighash : OptP (· < 2^32) s.sighashType
  redeem : OptP Fits s.redeemScript
  wscript : OptP Fits s.witnessScript
  bip32 : ∀ e ∈ s.bip32, ko.validSec e.1 = true ∧ Fits (0x06 :: e.1) ∧ DerivWF e.2
  bip32Nodup : (s.bip32.map Prod.fst).Nodup
  fsig : OptP Fits s.finalScriptSig
  fwit : OptP (fun w => w.length < 2^64 ∧ (∀ d ∈ w, Fits d) ∧ Fits (witnessSer w)) s.finalWitness
  tapSigs : ∀ e ∈ s.tapSigs, e.1.length = 64 ∧ ko.validX (e.1.take 32) = true ∧ Fits e.2
  tapSigsNodup : (s.tapSigs.map Prod.fst).Nodup
  tapScripts : ∀ e ∈ s.tapScripts, Fits (0x15 :: e.1) ∧ Fits e.2
  tapScriptsNodup : (s.tapScripts.map Prod.fst).Nodup
  tapBip32 : ∀ e ∈ s.tapBip32, e.1.length = 32 ∧ ko.validX e.1 = true ∧ TapDerivWF e.2
  tapBip32Nodup : (s.tapBip32.map Prod.fst).Nodup
  tapIK : OptP (fun v => v.length = 32 ∧ ko.validX v = true) s.tapInternalKey
  tapMR : OptP Fits s.tapMerkleRoot
  unknown : ∀ kv ∈ s.unknown, KVWF kv ∧ unkKeyIn kv.1 = true
  unknownNodup : (s.unknown.map Prod.fst).Nodup

instance (ko : KeyOps) (s : InScope) : Decidable (InWF ko s) :=
  decidable_of_iff (s.utxoS = none ∧ s.txhash = none ∧ s.verified = false
      ∧ OptP (fun t => t.length = 32) s.txid ∧ OptP (· < 2^32) s.vout ∧ OptP (· < 2^32) s.sequence
      ∧ OptP (fun t => WF t ∧ Fits (Tx.ser t)) s.nonWitnessUtxo
      ∧ OptP (fun o => WFOut o ∧ Fits (TxOut.ser o)) s.witnessUtxo
      ∧ (∀ e ∈ s.partialSigs, ko.validSec e.1 = true ∧ Fits (0x02 :: e.1) ∧ Fits e.2)
      ∧ (s.partialSigs.map Prod.fst).Nodup
      ∧ OptP (· < 2^32) s.sighashType ∧ OptP Fits s.redeemScript ∧ OptP Fits s.witnessScript
      ∧ (∀ e ∈ s.bip32, ko.validSec e.1 = true ∧ Fits (0x06 :: e.1) ∧ DerivWF e.2)
      ∧ (s.bip32.map Prod.fst).Nodup
      ∧ OptP Fits s.finalScriptSig
      ∧ OptP (fun w => w.length < 2^64 ∧ (∀ d ∈ w, Fits d) ∧ Fits (witnessSer w)) s.finalWitness
      ∧ (∀ e ∈ s.tapSigs, e.1.length = 64 ∧ ko.validX (e.1.take 32) = true ∧ Fits e.2)
      ∧ (s.tapSigs.map Prod.fst).Nodup
      ∧ (∀ e ∈ s.tapScripts, Fits (0x15 :: e.1) ∧ Fits e.2)
      ∧ (s.tapScripts.map Prod.fst).Nodup
      ∧ (∀ e ∈ s.tapBip32, e.1.length = 32 ∧ ko.validX e.1 = true ∧ TapDerivWF e.2)
      ∧ (s.tapBip32.map Prod.fst).Nodup
      ∧ OptP (fun v => v.length = 32 ∧ ko.validX v = true) s.tapInternalKey
      ∧ OptP Fits s.tapMerkleRoot
      ∧ (∀ kv ∈ s.unknown, KVWF kv ∧ unkKeyIn kv.1 = true)
      ∧ (s.unknown.map Prod.fst).Nodup)
    ⟨fun ⟨a1, a2, a3, a4, a5, a6, a7, a8, a9, a10, a11, a12, a13, a14, a15, a16, a17, a18, a19, a20, a21, a22, a23,
          a24, a25, a26, a27⟩ =>
        ⟨a1, a2, a3, a4, a5, a6, a7, a8, a9, a10, a11, a12, a13, a14, a15, a16, a17, a18, a19, a20, a21, a22, a23,
          a24, a25, a26, a27⟩,
     fun ⟨a1, a2, a3, a4, a5, a6, a7, a8, a9, a10, a11, a12, a13, a14, a15, a16, a17, a18, a19, a20, a21, a22, a23,
          a24, a25, a26, a27⟩ =>
        ⟨a1, a2, a3, a4, a5, a6, a7, a8, a9, a10, a11, a12, a13, a14, a15, a16, a17, a18, a19, a20, a21, a22, a23,
          a24, a25, a26, a27⟩⟩

/-- well-formed output scope -/
structure OutWF (ko : KeyOps) (s : OutScope) : Prop where
  value : OptP (· < 2^64) s.value
  spk : OptP Fits s.spk
  redeem : OptP Fits s.redeemScript
  wscript : OptP Fits s.witnessScript
  bip32 : ∀ e ∈ s.bip32, ko.validSec e.1 = true ∧ Fits (0x02 :: e.1) ∧ DerivWF e.2
  bip32Nodup : (s.bip32.map Prod.fst).Nodup
  tapBip32 : ∀ e ∈ s.tapBip32, e.1.length = 32 ∧ ko.validX e.1 = true ∧ TapDerivWF e.2
  tapBip32Nodup : (s.tapBip32.map Prod.fst).Nodup
  tapIK : OptP (fun v => v.length = 32 ∧ ko.validX v = true) s.tapInternalKey
  unknown : ∀ kv ∈ s.unknown, KVWF kv ∧ unkKeyOut kv.1 = true
  unknownNodup : (s.unknown.map Prod.fst).Nodup

instance (ko : KeyOps) (s : OutScope) : Decidable (OutWF ko s) :=
  decidable_of_iff (OptP (· < 2^64) s.value ∧ OptP Fits s.spk ∧ OptP Fits s.redeemScript ∧ OptP Fits s.witnessScript
      ∧ (∀ e ∈ s.bip32, ko.validSec e.1 = true ∧ Fits (0x02 :: e.1) ∧ DerivWF e.2)
      ∧ (s.bip32.map Prod.fst).Nodup
      ∧ (∀ e ∈ s.tapBip32, e.1.length = 32 ∧ ko.validX e.1 = true ∧ TapDerivWF e.2)
      ∧ (s.tapBip32.map Prod.fst).Nodup
      ∧ OptP (fun v => v.length = 32 ∧ ko.validX v = true) s.tapInternalKey
      ∧ (∀ kv ∈ s.unknown, KVWF kv ∧ unkKeyOut kv.1 = true)
      ∧ (s.unknown.map Prod.fst).Nodup)
    ⟨fun ⟨a1, a2, a3, a4, a5, a6, a7, a8, a9, a10, a11⟩ => ⟨a1, a2, a3, a4, a5, a6, a7, a8, a9, a10, a11⟩,
     fun ⟨a1, a2, a3, a4, a5, a6, a7, a8, a9, a10, a11⟩ => ⟨a1, a2, a3, a4, a5, a6, a7, a8, a9, a10, a11⟩⟩

/-! ### whole PSBT -/

/-- what distinguishes a version-0 object: every scope carries its transaction fields (they come from the global
    unsigned transaction), there is at least one input (embit cannot serialise a transaction without inputs),
    the transaction version and locktime are set, and the transaction fits a length prefix -/
structure V0WF (p : Psbt) : Prop where
  txVersion : p.txVersion.isSome = true
  locktime : p.locktime.isSome = true
  nin : 1 ≤ p.inputs.length
  ins : ∀ s ∈ p.inputs, InSeeded s
  outs : ∀ s ∈ p.outputs, OutSeeded s
  txFits : OptP (fun t => Fits (Tx.ser t)) p.tx

instance (s : InScope) : Decidable (InSeeded s) := by unfold InSeeded; infer_instance
instance (s : OutScope) : Decidable (OutSeeded s) := by unfold OutSeeded; infer_instance

instance (p : Psbt) : Decidable (V0WF p) :=
  decidable_of_iff (p.txVersion.isSome = true ∧ p.locktime.isSome = true ∧ 1 ≤ p.inputs.length
      ∧ (∀ s ∈ p.inputs, InSeeded s) ∧ (∀ s ∈ p.outputs, OutSeeded s) ∧ OptP (fun t => Fits (Tx.ser t)) p.tx)
    ⟨fun ⟨a1, a2, a3, a4, a5, a6⟩ => ⟨a1, a2, a3, a4, a5, a6⟩, fun ⟨a1, a2, a3, a4, a5, a6⟩ => ⟨a1, a2, a3, a4, a5, a6⟩⟩

/-- well-formed PSBT object: what `PSBT.parse` (KEEP_ALL) can return -/
structure PsbtWF (ko : KeyOps) (p : Psbt) : Prop where
  version : OptP (· < 2^32) p.version
  txVersion : OptP (· < 2^32) p.txVersion
  locktime : OptP (· < 2^32) p.locktime
  xpubs : ∀ e ∈ p.xpubs, ko.validXpub e.1 = true ∧ Fits (0x01 :: e.1) ∧ DerivWF e.2
  xpubsNodup : (p.xpubs.map Prod.fst).Nodup
  unknown : ∀ kv ∈ p.unknown, KVWF kv ∧ unkKeyGlobal (p.version == some 2) kv.1 = true
  unknownNodup : (p.unknown.map Prod.fst).Nodup
  nin : p.inputs.length < 2^64
  nout : p.outputs.length < 2^64
  ins : ∀ s ∈ p.inputs, InWF ko s
  outs : ∀ s ∈ p.outputs, OutWF ko s
  v0 : p.version ≠ some 2 → V0WF p

instance (ko : KeyOps) (p : Psbt) : Decidable (PsbtWF ko p) :=
  decidable_of_iff (OptP (· < 2^32) p.version ∧ OptP (· < 2^32) p.txVersion ∧ OptP (· < 2^32) p.locktime
      ∧ (∀ e ∈ p.xpubs, ko.validXpub e.1 = true ∧ Fits (0x01 :: e.1) ∧ DerivWF e.2)
      ∧ (p.xpubs.map Prod.fst).Nodup
      ∧ (∀ kv ∈ p.unknown, KVWF kv ∧ unkKeyGlobal (p.version == some 2) kv.1 = true)
      ∧ (p.unknown.map Prod.fst).Nodup
      ∧ p.inputs.length < 2^64 ∧ p.outputs.length < 2^64
      ∧ (∀ s ∈ p.inputs, InWF ko s) ∧ (∀ s ∈ p.outputs, OutWF ko s) ∧ (p.version ≠ some 2 → V0WF p))
    ⟨fun ⟨a1, a2, a3, a4, a5, a6, a7, a8, a9, a10, a11, a12⟩ => ⟨a1, a2, a3, a4, a5, a6, a7, a8, a9, a10, a11, a12⟩,
     fun ⟨a1, a2, a3, a4, a5, a6, a7, a8, a9, a10, a11, a12⟩ => ⟨a1, a2, a3, a4, a5, a6, a7, a8, a9, a10, a11, a12⟩⟩

end Embit
