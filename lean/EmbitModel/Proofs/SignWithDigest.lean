import EmbitModel.Proofs.SignWithDefs
/-
  `PSBT.sighash` does not read the signature fields: the digest of a PSBT is the digest of its `pcore`, so every
  digest computed while signing equals the digest of the PSBT as it was handed in (Mathlib-free).
-/
namespace Embit.Model.SignWith
open Embit Embit.Model

theorem core_vin (s : InScope) : (core s).vin = s.vin := rfl
theorem core_utxo (s : InScope) : (core s).utxo = s.utxo := rfl

theorem pcore_tx (p : Psbt) : (pcore p).tx = p.tx := by
  unfold Psbt.tx pcore
  simp only [List.map_map]
  have : (InScope.vin ∘ core) = InScope.vin := by funext s; rfl
  rw [this]

theorem pcore_utxos (p : Psbt) : (pcore p).inputs.map InScope.utxo = p.inputs.map InScope.utxo := by
  unfold pcore
  simp only [List.map_map]
  have : (InScope.utxo ∘ core) = InScope.utxo := by funext s; rfl
  rw [this]

theorem psbtSighash_pcore (sha : Bytes → Bytes) (p : Psbt) (i f : Nat) (leaf : Option (Bytes × Nat)) :
    psbtSighash sha (pcore p) i f leaf = psbtSighash sha p i f leaf := by
  unfold psbtSighash
  rw [pcore_tx, pcore_utxos]
  have hget : (pcore p).inputs[i]? = (p.inputs[i]?).map core := by simp [pcore]
  rw [hget]
  cases hi : p.inputs[i]? with
  | none => rfl
  | some s => rfl

/-- two PSBTs with the same frame have the same digests -/
theorem psbtSighash_congr (sha : Bytes → Bytes) (p q : Psbt) (h : pcore p = pcore q) (i f : Nat)
    (leaf : Option (Bytes × Nat)) : psbtSighash sha p i f leaf = psbtSighash sha q i f leaf := by
  rw [← psbtSighash_pcore sha p, ← psbtSighash_pcore sha q, h]

/-- the digest function handed to `signInput` is constant on scopes with the same frame -/
theorem digest_setInput (sha : Bytes → Bytes) (p : Psbt) (i : Nat) (s t : InScope) (hs : p.inputs[i]? = some s)
    (hc : core t = core s) (f : Nat) (leaf : Option (Bytes × Nat)) :
    psbtSighash sha (Psbt.setInput p i t) i f leaf = psbtSighash sha p i f leaf :=
  psbtSighash_congr sha _ _ (pcore_setInput p i s t hs hc) i f leaf

end Embit.Model.SignWith
