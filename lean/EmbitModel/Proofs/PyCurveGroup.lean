import EmbitModel.Proofs.PyCurveField
import Mathlib.AlgebraicGeometry.EllipticCurve.Jacobian.Point
/-
  key.py's Jacobian formulas (`negate`, `double`, `add_mixed`, `add`) against Mathlib's group law.

  `W C` is the Weierstrass curve `y² = x³ + a x + b` over `ZMod C.p`; `pt C P` is the point of Mathlib's group
  `(W C).toAffine.Point` that a Jacobian tuple `P` denotes (`Jacobian.Point.toAffine`; `0` when `z ≡ 0`).
  * `double` computes exactly Mathlib's `dblXYZ` (`double_toF`);
  * the general branch of `add` / `add_mixed` computes `(-(z₁ z₂)) • addXYZ` — another representative of the same
    Jacobian point (`add_short`);
  * Mathlib proves `toAffine (W.add P Q) = toAffine P + toAffine Q` (`Jacobian.Point.toAffine_add`), so
    `pt (add P Q) = pt P + pt Q`, `pt (double P) = pt P + pt P`, `pt (negate P) = - pt P` for valid tuples
    (`Valid`: entries reduced, on the curve or `z = 0`), and the results are valid again.
-/
namespace Embit.Model.PyCurve
open WeierstrassCurve WeierstrassCurve.Jacobian

/-! ### facts about Mathlib's Jacobian formulas over any field -/
/-- the short Weierstrass curve `y² = x³ + a x + b` -/
def Wab {R : Type} [CommRing R] (a b : R) : Jacobian R := ⟨0, 0, 0, a, b⟩

section generic
variable {F : Type} [Field F]

theorem eqn_short (a b x y z : F) :
    (Wab a b).Equation ![x, y, z] ↔ y ^ 2 = x ^ 3 + a * x * z ^ 4 + b * z ^ 6 := by
  rw [equation_iff]
  simp only [Wab, fin3_def_ext]
  constructor <;> intro h <;> linear_combination h

/-- key.py's doubling formulas are Mathlib's `dblXYZ` -/
theorem dbl_short (a b x y z : F) :
    (Wab a b).dblXYZ ![x, y, z] =
      ![(3 * x ^ 2 + a * z ^ 4) ^ 2 - 2 * (4 * x * y ^ 2),
        (3 * x ^ 2 + a * z ^ 4) * (4 * x * y ^ 2 - ((3 * x ^ 2 + a * z ^ 4) ^ 2 - 2 * (4 * x * y ^ 2)))
          - 8 * (y ^ 2) ^ 2,
        2 * y * z] := by
  simp only [dblXYZ, dblX, dblY, dblZ, negDblY, dblU_eq, negY, Wab, fin3_def_ext]
  congr 1 <;> [skip; congr 1 <;> [skip; congr 1]] <;> ring

/-- key.py's addition formulas are Mathlib's `addXYZ` scaled by the unit `-(z₁ z₂)` (on the curve) -/
theorem add_short (a b x1 y1 z1 x2 y2 z2 : F)
    (e1 : y1 ^ 2 = x1 ^ 3 + a * x1 * z1 ^ 4 + b * z1 ^ 6) (e2 : y2 ^ 2 = x2 ^ 3 + a * x2 * z2 ^ 4 + b * z2 ^ 6) :
    (-(z1 * z2)) • (Wab a b).addXYZ ![x1, y1, z1] ![x2, y2, z2] =
      (let u1 := x1 * z2 ^ 2; let u2 := x2 * z1 ^ 2; let s1 := y1 * z2 ^ 3; let s2 := y2 * z1 ^ 3
       let h := u2 - u1; let r := s2 - s1
       let x3 := r ^ 2 - h ^ 3 - 2 * (u1 * h ^ 2)
       ![x3, r * (u1 * h ^ 2 - x3) - s1 * h ^ 3, h * z1 * z2]) := by
  simp only [smul_fin3, addXYZ, addX, addY, addZ, negAddY, negY_eq, Wab, fin3_def_ext]
  congr 1
  · linear_combination (-(z2 ^ 6)) * e1 + (-(z1 ^ 6)) * e2
  congr 1
  · linear_combination (z1 ^ 3 * z2 ^ 6 * y2 - z2 ^ 9 * y1) * e1 + (z1 ^ 9 * y2 - z1 ^ 6 * z2 ^ 3 * y1) * e2
  congr 1
  ring

variable [DecidableEq F] {W : Jacobian F}

/-- same `x`, different `y`: the points are opposite -/
theorem toAffine_opposite {P Q : Fin 3 → F} (hP : W.Nonsingular P) (hQ : W.Nonsingular Q) (hPz : P 2 ≠ 0)
    (hQz : Q 2 ≠ 0) (hx : P 0 * Q 2 ^ 2 = Q 0 * P 2 ^ 2) (hy : P 1 * Q 2 ^ 3 ≠ Q 1 * P 2 ^ 3) :
    Point.toAffine W P + Point.toAffine W Q = 0 := by
  rw [← Point.toAffine_add hP hQ, add_of_Y_ne hP.left hQ.left hPz hQz hx hy,
    Point.toAffine_smul _ (isUnit_addU_of_Y_ne hPz hQz hy), Point.toAffine_zero]

/-- same `x`, same `y`: the sum is the double -/
theorem toAffine_same {P Q : Fin 3 → F} (hP : W.Nonsingular P) (hQ : W.Nonsingular Q) (hPz : P 2 ≠ 0)
    (hQz : Q 2 ≠ 0) (hx : P 0 * Q 2 ^ 2 = Q 0 * P 2 ^ 2) (hy : P 1 * Q 2 ^ 3 = Q 1 * P 2 ^ 3) :
    Point.toAffine W (W.dblXYZ P) = Point.toAffine W P + Point.toAffine W Q := by
  rw [← Point.toAffine_add hP hQ, add_of_equiv (equiv_of_X_eq_of_Y_eq hPz hQz hx hy)]

theorem toAffine_dbl {P : Fin 3 → F} (hP : W.Nonsingular P) :
    Point.toAffine W (W.dblXYZ P) = Point.toAffine W P + Point.toAffine W P := by
  rw [← Point.toAffine_add hP hP, add_self]

omit [DecidableEq F] in
theorem nonsingular_dbl {P : Fin 3 → F} (hP : W.Nonsingular P) : W.Nonsingular (W.dblXYZ P) := by
  rw [← add_self]; exact nonsingular_add hP hP

/-- different `x`: any unit multiple of `addXYZ` represents the sum -/
theorem toAffine_generic {P Q : Fin 3 → F} (hP : W.Nonsingular P) (hQ : W.Nonsingular Q)
    (hx : P 0 * Q 2 ^ 2 ≠ Q 0 * P 2 ^ 2) {u : F} (hu : IsUnit u) :
    Point.toAffine W (u • W.addXYZ P Q) = Point.toAffine W P + Point.toAffine W Q := by
  rw [Point.toAffine_smul _ hu, ← Point.toAffine_add hP hQ, add_of_not_equiv (not_equiv_of_X_ne hx)]

omit [DecidableEq F] in
theorem nonsingular_generic {P Q : Fin 3 → F} (hP : W.Nonsingular P) (hQ : W.Nonsingular Q)
    (hx : P 0 * Q 2 ^ 2 ≠ Q 0 * P 2 ^ 2) {u : F} (hu : IsUnit u) : W.Nonsingular (u • W.addXYZ P Q) := by
  rw [nonsingular_smul _ hu, ← add_of_not_equiv (not_equiv_of_X_ne hx)]
  exact nonsingular_add hP hQ

end generic

/-! ### the curve of a `Curve` record, residues of tuples -/

variable (C : Curve)

/-- `y² = x³ + a x + b` over `ZMod p` -/
def W : Jacobian (ZMod C.p) := Wab (C.a : ZMod C.p) (C.b : ZMod C.p)

/-- the residues of a tuple -/
def toF (P : JPt) : Fin 3 → ZMod C.p := ![(P.1 : ZMod C.p), (P.2.1 : ZMod C.p), (P.2.2 : ZMod C.p)]

/-- every entry is a reduced residue -/
def Red (P : JPt) : Prop :=
  (0 ≤ P.1 ∧ P.1 < C.p) ∧ (0 ≤ P.2.1 ∧ P.2.1 < C.p) ∧ (0 ≤ P.2.2 ∧ P.2.2 < C.p)

/-- reduced, and either `z = 0` or a (nonsingular) point of the curve -/
structure Valid (P : JPt) : Prop where
  red : Red C P
  ns : P.2.2 = 0 ∨ (W C).Nonsingular (toF C P)

theorem red_inf (hp : 1 < C.p) : Red C inf := by
  have h0 : (0 : ℤ) < C.p := by exact_mod_cast (by omega : 0 < C.p)
  have h1 : (1 : ℤ) < C.p := by exact_mod_cast hp
  exact ⟨⟨le_rfl, h0⟩, ⟨show (0 : ℤ) ≤ 1 by norm_num, h1⟩, ⟨le_rfl, h0⟩⟩

theorem valid_inf (hp : 1 < C.p) : Valid C inf := ⟨red_inf C hp, Or.inl rfl⟩

variable [Fact C.p.Prime]

/-- the group element a tuple denotes -/
noncomputable def pt (P : JPt) : (W C).toAffine.Point := Point.toAffine (W C) (toF C P)

theorem p_pos : 0 < C.p := (Fact.out : C.p.Prime).pos
theorem p_gt_one : 1 < C.p := (Fact.out : C.p.Prime).one_lt

theorem pt_of_z_zero {P : JPt} (h : P.2.2 = 0) : pt C P = 0 := by
  unfold pt
  apply Point.toAffine_of_Z_eq_zero
  show ((P.2.2 : ℤ) : ZMod C.p) = 0
  rw [h]; simp

theorem pt_inf : pt C inf = 0 := pt_of_z_zero C rfl

theorem toF_z_ne {P : JPt} (hr : Red C P) (h : P.2.2 ≠ 0) : toF C P 2 ≠ 0 := by
  show ((P.2.2 : ℤ) : ZMod C.p) ≠ 0
  intro h0
  exact h ((cast_eq_zero_iff hr.2.2.1 hr.2.2.2).mp h0)

omit [Fact C.p.Prime] in
theorem Valid.nonsingular {P : JPt} (hv : Valid C P) (h : P.2.2 ≠ 0) : (W C).Nonsingular (toF C P) := by
  rcases hv.ns with h0 | h0
  · exact absurd h0 h
  · exact h0

theorem Valid.eqn {x y z : ℤ} (hv : Valid C (x, y, z)) (h : z ≠ 0) :
    (y : ZMod C.p) ^ 2 = (x : ZMod C.p) ^ 3 + (C.a : ZMod C.p) * x * (z : ZMod C.p) ^ 4 + (C.b : ZMod C.p) * (z : ZMod C.p) ^ 6 := by
  have h1 : (Wab (C.a : ZMod C.p) (C.b : ZMod C.p)).Equation ![(x : ZMod C.p), (y : ZMod C.p), (z : ZMod C.p)] :=
    (hv.nonsingular C h).left
  exact (eqn_short _ _ _ _ _).mp h1

/-! ### `negate` -/

theorem negate_toF (P : JPt) : toF C (negate C P) = (W C).neg (toF C P) := by
  obtain ⟨x, y, z⟩ := P
  simp only [negate, toF, Jacobian.neg, negY, fin3_def_ext, cast_emod]
  simp only [W, Wab]
  push_cast
  simp

theorem red_negate {P : JPt} (hr : Red C P) : Red C (negate C P) := by
  obtain ⟨x, y, z⟩ := P
  exact ⟨hr.1, emod_range (p_pos C) _, hr.2.2⟩

theorem valid_negate {P : JPt} (hv : Valid C P) : Valid C (negate C P) := by
  refine ⟨red_negate C hv.red, ?_⟩
  rcases hv.ns with h | h
  · left; obtain ⟨x, y, z⟩ := P; exact h
  · right; rw [negate_toF]; exact nonsingular_neg h

/-- **`negate` is the group inverse** -/
theorem pt_negate {P : JPt} (hv : Valid C P) : pt C (negate C P) = - pt C P := by
  rcases hv.ns with h | h
  · have h' : (negate C P).2.2 = 0 := by obtain ⟨x, y, z⟩ := P; exact h
    rw [pt_of_z_zero C h, pt_of_z_zero C h', neg_zero]
  · unfold pt; rw [negate_toF]; exact Point.toAffine_neg h

/-! ### `double` -/

theorem double_toF (x y z : ℤ) (hz : z ≠ 0) : toF C (double C (x, y, z)) = (W C).dblXYZ (toF C (x, y, z)) := by
  simp only [double, if_neg hz, toF, W, dbl_short]
  have hm : (((if C.a ≠ 0 then 3 * (x ^ 2 % (C.p : ℤ)) + C.a * powMod z 4 C.p else 3 * (x ^ 2 % (C.p : ℤ))) : ℤ) : ZMod C.p)
      = 3 * (x : ZMod C.p) ^ 2 + (C.a : ZMod C.p) * (z : ZMod C.p) ^ 4 := by
    split
    · push_cast [cast_emod, powMod_cast]; ring
    · rename_i h
      have : C.a = 0 := by simpa using h
      push_cast [cast_emod, this]; ring
  congr 1 <;> [skip; congr 1 <;> [skip; congr 1]]
  · push_cast [cast_emod, hm]; ring
  · push_cast [cast_emod, hm]; ring
  · push_cast [cast_emod]; ring

theorem red_double (P : JPt) : Red C (double C P) := by
  obtain ⟨x, y, z⟩ := P
  by_cases hz : z = 0
  · simp only [double, if_pos hz]; exact red_inf C (p_gt_one C)
  · simp only [double, if_neg hz]
    exact ⟨emod_range (p_pos C) _, emod_range (p_pos C) _, emod_range (p_pos C) _⟩

theorem valid_double {P : JPt} (hv : Valid C P) : Valid C (double C P) := by
  refine ⟨red_double C P, ?_⟩
  obtain ⟨x, y, z⟩ := P
  by_cases hz : z = 0
  · left; simp only [double, if_pos hz]
  · right; rw [double_toF C x y z hz]; exact nonsingular_dbl (hv.nonsingular C hz)

/-- **`double` doubles** -/
theorem pt_double {P : JPt} (hv : Valid C P) : pt C (double C P) = pt C P + pt C P := by
  obtain ⟨x, y, z⟩ := P
  by_cases hz : z = 0
  · have : double C (x, y, z) = inf := by simp only [double, if_pos hz]; rfl
    rw [this, pt_inf, pt_of_z_zero C (P := (x, y, z)) hz, add_zero]
  · unfold pt; rw [double_toF C x y z hz]; exact toAffine_dbl (hv.nonsingular C hz)

/-! ### `add_mixed`, `add` -/

/-- the general branch of key.py's addition, on residues -/
def addCore {R : Type} [CommRing R] (x1 y1 z1 x2 y2 z2 : R) : Fin 3 → R :=
  let u1 := x1 * z2 ^ 2; let u2 := x2 * z1 ^ 2; let s1 := y1 * z2 ^ 3; let s2 := y2 * z1 ^ 3
  let h := u2 - u1; let r := s2 - s1
  let x3 := r ^ 2 - h ^ 3 - 2 * (u1 * h ^ 2)
  ![x3, r * (u1 * h ^ 2 - x3) - s1 * h ^ 3, h * z1 * z2]

/-- reduced integers are equal iff their residues are -/
theorem int_eq_iff_cast {a b : ℤ} (ha : 0 ≤ a ∧ a < C.p) (hb : 0 ≤ b ∧ b < C.p) :
    a = b ↔ (a : ZMod C.p) = (b : ZMod C.p) :=
  ⟨fun h => by rw [h], fun h => eq_of_cast_eq ha.1 ha.2 hb.1 hb.2 h⟩

section addsem
variable {x1 y1 z1 x2 y2 z2 : ℤ} (hP : Valid C (x1, y1, z1)) (hQ : Valid C (x2, y2, z2)) (h1 : z1 ≠ 0) (h2 : z2 ≠ 0)
include hP hQ h1 h2

theorem pt_add_opposite
    (hx : (x1 : ZMod C.p) * (z2 : ZMod C.p) ^ 2 = (x2 : ZMod C.p) * (z1 : ZMod C.p) ^ 2)
    (hy : (y1 : ZMod C.p) * (z2 : ZMod C.p) ^ 3 ≠ (y2 : ZMod C.p) * (z1 : ZMod C.p) ^ 3) :
    pt C (x1, y1, z1) + pt C (x2, y2, z2) = 0 :=
  toAffine_opposite (hP.nonsingular C h1) (hQ.nonsingular C h2) (toF_z_ne C hP.red h1) (toF_z_ne C hQ.red h2) hx hy

theorem pt_add_same
    (hx : (x1 : ZMod C.p) * (z2 : ZMod C.p) ^ 2 = (x2 : ZMod C.p) * (z1 : ZMod C.p) ^ 2)
    (hy : (y1 : ZMod C.p) * (z2 : ZMod C.p) ^ 3 = (y2 : ZMod C.p) * (z1 : ZMod C.p) ^ 3) :
    pt C (double C (x1, y1, z1)) = pt C (x1, y1, z1) + pt C (x2, y2, z2) := by
  unfold pt
  rw [double_toF C x1 y1 z1 h1]
  exact toAffine_same (hP.nonsingular C h1) (hQ.nonsingular C h2) (toF_z_ne C hP.red h1) (toF_z_ne C hQ.red h2) hx hy

theorem addCore_eq :
    addCore (x1 : ZMod C.p) (y1 : ZMod C.p) (z1 : ZMod C.p) (x2 : ZMod C.p) (y2 : ZMod C.p) (z2 : ZMod C.p) =
      (-((z1 : ZMod C.p) * (z2 : ZMod C.p))) • (W C).addXYZ (toF C (x1, y1, z1)) (toF C (x2, y2, z2)) :=
  (add_short _ _ _ _ _ _ _ _ (hP.eqn C h1) (hQ.eqn C h2)).symm

theorem unit_zz : IsUnit (-((z1 : ZMod C.p) * (z2 : ZMod C.p))) := by
  have a1 : (z1 : ZMod C.p) ≠ 0 := toF_z_ne C hP.red h1
  have a2 : (z2 : ZMod C.p) ≠ 0 := toF_z_ne C hQ.red h2
  exact (neg_ne_zero.mpr (mul_ne_zero a1 a2)).isUnit

theorem pt_add_generic
    (hx : (x1 : ZMod C.p) * (z2 : ZMod C.p) ^ 2 ≠ (x2 : ZMod C.p) * (z1 : ZMod C.p) ^ 2) :
    Point.toAffine (W C) (addCore (x1 : ZMod C.p) (y1 : ZMod C.p) (z1 : ZMod C.p) (x2 : ZMod C.p) (y2 : ZMod C.p)
        (z2 : ZMod C.p)) = pt C (x1, y1, z1) + pt C (x2, y2, z2) ∧
    (W C).Nonsingular (addCore (x1 : ZMod C.p) (y1 : ZMod C.p) (z1 : ZMod C.p) (x2 : ZMod C.p) (y2 : ZMod C.p)
        (z2 : ZMod C.p)) := by
  rw [addCore_eq C hP hQ h1 h2]
  exact ⟨toAffine_generic (hP.nonsingular C h1) (hQ.nonsingular C h2) hx (unit_zz C hP hQ h1 h2),
    nonsingular_generic (hP.nonsingular C h1) (hQ.nonsingular C h2) hx (unit_zz C hP hQ h1 h2)⟩

end addsem

/-- **`add_mixed(P, Q)` (with `Q.z = 1`) is the group sum**, and its result is valid -/
theorem pt_addMixed {P Q : JPt} (hP : Valid C P) (hQ : Valid C Q) (hz : Q.2.2 = 1) :
    pt C (addMixed C P Q) = pt C P + pt C Q ∧ Valid C (addMixed C P Q) := by
  obtain ⟨x1, y1, z1⟩ := P
  obtain ⟨x2, y2, z2⟩ := Q
  simp only at hz
  subst hz
  have hpp := p_pos C
  by_cases h1 : z1 = 0
  · simp only [addMixed, if_pos h1]
    rw [pt_of_z_zero C (P := (x1, y1, z1)) h1, zero_add]
    exact ⟨rfl, hQ⟩
  · simp only [addMixed, if_neg h1]
    have one_ne : (1 : ℤ) ≠ 0 := one_ne_zero
    have cu2 : (((x2 * (z1 ^ 2 % (C.p : ℤ)) % (C.p : ℤ) : ℤ)) : ZMod C.p) = (x2 : ZMod C.p) * (z1 : ZMod C.p) ^ 2 := by
      push_cast [cast_emod]; ring
    have cs2 : (((y2 * (z1 ^ 2 % (C.p : ℤ) * z1 % (C.p : ℤ)) % (C.p : ℤ) : ℤ)) : ZMod C.p) = (y2 : ZMod C.p) * (z1 : ZMod C.p) ^ 3 := by
      push_cast [cast_emod]; ring
    by_cases hx : x1 = x2 * (z1 ^ 2 % (C.p : ℤ)) % (C.p : ℤ)
    · rw [if_pos hx]
      have hx' : (x1 : ZMod C.p) * ((1 : ℤ) : ZMod C.p) ^ 2 = (x2 : ZMod C.p) * (z1 : ZMod C.p) ^ 2 := by
        rw [← cu2, ← hx]; simp
      by_cases hy : y1 = y2 * (z1 ^ 2 % (C.p : ℤ) * z1 % (C.p : ℤ)) % (C.p : ℤ)
      · rw [if_neg (not_not.mpr hy)]
        have hy' : (y1 : ZMod C.p) * ((1 : ℤ) : ZMod C.p) ^ 3 = (y2 : ZMod C.p) * (z1 : ZMod C.p) ^ 3 := by
          rw [← cs2, ← hy]; simp
        exact ⟨pt_add_same C hP hQ h1 one_ne hx' hy', valid_double C hP⟩
      · rw [if_pos hy]
        have hy' : (y1 : ZMod C.p) * ((1 : ℤ) : ZMod C.p) ^ 3 ≠ (y2 : ZMod C.p) * (z1 : ZMod C.p) ^ 3 := by
          rw [← cs2]
          intro h
          apply hy
          apply (int_eq_iff_cast C hP.red.2.1 (emod_range hpp _)).mpr
          simpa using h
        refine ⟨?_, valid_inf C (p_gt_one C)⟩
        rw [pt_add_opposite C hP hQ h1 one_ne hx' hy']
        exact pt_inf C
    · rw [if_neg hx]
      have hx' : (x1 : ZMod C.p) * ((1 : ℤ) : ZMod C.p) ^ 2 ≠ (x2 : ZMod C.p) * (z1 : ZMod C.p) ^ 2 := by
        rw [← cu2]
        intro h
        apply hx
        apply (int_eq_iff_cast C hP.red.1 (emod_range hpp _)).mpr
        simpa using h
      obtain ⟨g1, g2⟩ := pt_add_generic C hP hQ h1 one_ne hx'
      have key : ∀ T : JPt, toF C T = addCore (x1 : ZMod C.p) (y1 : ZMod C.p) (z1 : ZMod C.p) (x2 : ZMod C.p)
          (y2 : ZMod C.p) (((1 : ℤ)) : ZMod C.p) → Red C T → pt C T = pt C (x1, y1, z1) + pt C (x2, y2, 1) ∧ Valid C T := by
        intro T hT hr
        exact ⟨by unfold pt; rw [hT]; exact g1, hr, Or.inr (by rw [hT]; exact g2)⟩
      apply key
      · simp only [toF, addCore]
        congr 1 <;> [skip; congr 1 <;> [skip; congr 1]]
        · push_cast [cast_emod]; ring
        · push_cast [cast_emod]; ring
        · push_cast [cast_emod]; ring
      · exact ⟨emod_range hpp _, emod_range hpp _, emod_range hpp _⟩

/-- **`add(P, Q)` is the group sum** (every branch: infinity on either side, the `z = 1` fast paths through
    `add_mixed`, equal `x` with equal / opposite `y`, the general formulas), and its result is valid -/
theorem pt_add {P Q : JPt} (hP : Valid C P) (hQ : Valid C Q) :
    pt C (add C P Q) = pt C P + pt C Q ∧ Valid C (add C P Q) := by
  obtain ⟨x1, y1, z1⟩ := P
  obtain ⟨x2, y2, z2⟩ := Q
  have hpp := p_pos C
  by_cases h1 : z1 = 0
  · simp only [add, if_pos h1]
    rw [pt_of_z_zero C (P := (x1, y1, z1)) h1, zero_add]
    exact ⟨rfl, hQ⟩
  by_cases h2 : z2 = 0
  · simp only [add, if_neg h1, if_pos h2]
    rw [pt_of_z_zero C (P := (x2, y2, z2)) h2, add_zero]
    exact ⟨rfl, hP⟩
  by_cases h1' : z1 = 1
  · simp only [add, if_neg h1, if_neg h2, if_pos h1']
    obtain ⟨g1, g2⟩ := pt_addMixed C hQ hP h1'
    exact ⟨by rw [g1, add_comm], g2⟩
  by_cases h2' : z2 = 1
  · simp only [add, if_neg h1, if_neg h2, if_neg h1', if_pos h2']
    exact pt_addMixed C hP hQ h2'
  simp only [add, if_neg h1, if_neg h2, if_neg h1', if_neg h2']
  have cu1 : (((x1 * (z2 ^ 2 % (C.p : ℤ)) % (C.p : ℤ) : ℤ)) : ZMod C.p) = (x1 : ZMod C.p) * (z2 : ZMod C.p) ^ 2 := by
    push_cast [cast_emod]; ring
  have cu2 : (((x2 * (z1 ^ 2 % (C.p : ℤ)) % (C.p : ℤ) : ℤ)) : ZMod C.p) = (x2 : ZMod C.p) * (z1 : ZMod C.p) ^ 2 := by
    push_cast [cast_emod]; ring
  have cs1 : (((y1 * (z2 ^ 2 % (C.p : ℤ) * z2 % (C.p : ℤ)) % (C.p : ℤ) : ℤ)) : ZMod C.p) = (y1 : ZMod C.p) * (z2 : ZMod C.p) ^ 3 := by
    push_cast [cast_emod]; ring
  have cs2 : (((y2 * (z1 ^ 2 % (C.p : ℤ) * z1 % (C.p : ℤ)) % (C.p : ℤ) : ℤ)) : ZMod C.p) = (y2 : ZMod C.p) * (z1 : ZMod C.p) ^ 3 := by
    push_cast [cast_emod]; ring
  by_cases hx : x1 * (z2 ^ 2 % (C.p : ℤ)) % (C.p : ℤ) = x2 * (z1 ^ 2 % (C.p : ℤ)) % (C.p : ℤ)
  · rw [if_pos hx]
    have hx' : (x1 : ZMod C.p) * (z2 : ZMod C.p) ^ 2 = (x2 : ZMod C.p) * (z1 : ZMod C.p) ^ 2 := by
      rw [← cu1, ← cu2, hx]
    by_cases hy : y1 * (z2 ^ 2 % (C.p : ℤ) * z2 % (C.p : ℤ)) % (C.p : ℤ) = y2 * (z1 ^ 2 % (C.p : ℤ) * z1 % (C.p : ℤ)) % (C.p : ℤ)
    · rw [if_neg (not_not.mpr hy)]
      have hy' : (y1 : ZMod C.p) * (z2 : ZMod C.p) ^ 3 = (y2 : ZMod C.p) * (z1 : ZMod C.p) ^ 3 := by
        rw [← cs1, ← cs2, hy]
      exact ⟨pt_add_same C hP hQ h1 h2 hx' hy', valid_double C hP⟩
    · rw [if_pos hy]
      have hy' : (y1 : ZMod C.p) * (z2 : ZMod C.p) ^ 3 ≠ (y2 : ZMod C.p) * (z1 : ZMod C.p) ^ 3 := by
        rw [← cs1, ← cs2]
        intro h
        exact hy ((int_eq_iff_cast C (emod_range hpp _) (emod_range hpp _)).mpr h)
      refine ⟨?_, valid_inf C (p_gt_one C)⟩
      rw [pt_add_opposite C hP hQ h1 h2 hx' hy']
      exact pt_inf C
  · rw [if_neg hx]
    have hx' : (x1 : ZMod C.p) * (z2 : ZMod C.p) ^ 2 ≠ (x2 : ZMod C.p) * (z1 : ZMod C.p) ^ 2 := by
      rw [← cu1, ← cu2]
      intro h
      exact hx ((int_eq_iff_cast C (emod_range hpp _) (emod_range hpp _)).mpr h)
    obtain ⟨g1, g2⟩ := pt_add_generic C hP hQ h1 h2 hx'
    have key : ∀ T : JPt, toF C T = addCore (x1 : ZMod C.p) (y1 : ZMod C.p) (z1 : ZMod C.p) (x2 : ZMod C.p)
        (y2 : ZMod C.p) (z2 : ZMod C.p) → Red C T → pt C T = pt C (x1, y1, z1) + pt C (x2, y2, z2) ∧ Valid C T := by
      intro T hT hr
      exact ⟨by unfold pt; rw [hT]; exact g1, hr, Or.inr (by rw [hT]; exact g2)⟩
    apply key
    · simp only [toF, addCore]
      congr 1 <;> [skip; congr 1 <;> [skip; congr 1]]
      · push_cast [cast_emod]; ring
      · push_cast [cast_emod]; ring
      · push_cast [cast_emod]; ring
    · exact ⟨emod_range hpp _, emod_range hpp _, emod_range hpp _⟩

end Embit.Model.PyCurve
