import EmbitModel.Proofs.SighashLink
import EmbitModel.Proofs.ViewFrame
/-
  B-1 of audit2: the byte-level model of `PSBTView.sign_with` (`View.signWith`, Model/ViewSignBytes.lean) refines the
  model over the parsed PSBT (`viewSignWith`, Model/SignWithView.lean) whenever the view presents the PSBT
  (scope objects, number of inputs) and its accessors describe the PSBT's transaction.
-/
set_option linter.unusedSimpArgs false
set_option linter.unusedVariables false
namespace Embit.Model.SignWith
open Embit Embit.Model

variable {HD : Type}

/-! ### `signInput` asks for leaf digests on taproot scopes only -/

/-- on a non-taproot scope the loop body only asks for the digest without leaf arguments -/
theorem signInput_nontap_leafless (O : Ops HD) (sg : Single HD) (auth : Option Nat) (dg : Digest) (seen : List Slot)
    (s : InScope) (u : TxOut) (hu : s.utxo = some u) (htap : isTaprootSpk u.spk = false) :
    signInput O sg auth dg seen s = signInput O sg auth (fun t f _ => dg t f none) seen s := by
  unfold signInput
  simp only [hu, htap, Bool.false_eq_true, if_false]

/-- two digest functions that agree on every argument combination the loop body can pass (any flag; a leaf only when the
    scope is taproot), on every scope with the frame of `s`, give the same run -/
theorem signInput_congr_args (O : Ops HD) (sg : Single HD) (auth : Option Nat) (dg dg' : Digest) (seen : List Slot)
    (s : InScope)
    (hd : ∀ t, core t = core s → ∀ f leaf,
      (leaf.isSome = true → ∃ u, s.utxo = some u ∧ isTaprootSpk u.spk = true) → dg t f leaf = dg' t f leaf) :
    signInput O sg auth dg seen s = signInput O sg auth dg' seen s := by
  cases hu : s.utxo with
  | none => unfold signInput; simp only [hu]
  | some u =>
    cases htap : isTaprootSpk u.spk with
    | true =>
      apply signInput_congr
      intro t ht
      funext f leaf
      exact hd t ht f leaf (fun _ => ⟨u, hu, htap⟩)
    | false =>
      rw [signInput_nontap_leafless O sg auth dg seen s u hu htap,
        signInput_nontap_leafless O sg auth dg' seen s u hu htap]
      apply signInput_congr
      intro t ht
      funext f leaf
      exact hd t ht f none (by simp)

theorem signInputKeys_congr_args (O : Ops HD) (auth : Option Nat) (dg dg' : Digest) (s0 : InScope)
    (hd : ∀ t, core t = core s0 → ∀ f leaf,
      (leaf.isSome = true → ∃ u, s0.utxo = some u ∧ isTaprootSpk u.spk = true) → dg t f leaf = dg' t f leaf)
    (keys : List (Single HD)) (seen : List Slot) (s : InScope) (hc : core s = core s0) :
    signInputKeys O auth dg seen keys s = signInputKeys O auth dg' seen keys s := by
  induction keys generalizing seen s with
  | nil => rfl
  | cons k ks ih =>
    unfold signInputKeys
    have hu : s.utxo = s0.utxo := (core_fields hc).1
    rw [signInput_congr_args O k auth dg dg' seen s (fun t ht f leaf hl =>
      hd t (ht.trans hc) f leaf (fun h => by rw [← hu]; exact hl h))]
    cases h1 : signInput O k auth dg' seen s with
    | none => rfl
    | some r1 =>
      obtain ⟨s1, n1, w1⟩ := r1
      have hc1 : core s1 = core s0 := by rw [(signInput_tr _ _ _ _ _ _ _ _ _ h1).core, hc]
      dsimp only
      rw [ih _ s1 hc1]

theorem viewSignInput_congr_args (O : Ops HD) (keys : List (Single HD)) (auth : Option Nat) (dg dg' : Digest)
    (s : InScope)
    (hd : ∀ t, core t = core s → ∀ f leaf,
      (leaf.isSome = true → ∃ u, s.utxo = some u ∧ isTaprootSpk u.spk = true) → dg t f leaf = dg' t f leaf) :
    viewSignInput O keys auth dg s = viewSignInput O keys auth dg' s := by
  unfold viewSignInput
  dsimp only
  rw [signInputKeys_congr_args O auth dg dg' s hd _ [] s rfl]

/-! ### B-2 on the loop body: `sign_with` run with `Psbt.sighash` (the C01X model) is the same run -/

/-- the digest function of input `i` over PSBT `q`, written with the C01X model `Psbt.sighash` -/
def dgModel (O : Ops HD) (q : Psbt) (i : Nat) : Digest :=
  fun s f leaf => Psbt.sighash O.sha (Psbt.setInput q i s) i f (extraOf leaf)

theorem setInput_get' (p : Psbt) (i : Nat) (s t : InScope) (h : p.inputs[i]? = some s) :
    (Psbt.setInput p i t).inputs[i]? = some t := by
  have hi : i < p.inputs.length := by
    rcases Nat.lt_or_ge i p.inputs.length with h' | h'
    · exact h'
    · rw [List.getElem?_eq_none h'] at h; cases h
  simp [Psbt.setInput, hi]

/-- on every argument combination the loop body passes, `psbtSighash` and `Psbt.sighash` agree -/
theorem dgOf_eq_dgModel_args (O : Ops HD) (p : Psbt) (i : Nat) (s : InScope) (hs : p.inputs[i]? = some s)
    (t : InScope) (ht : core t = core s) (f : Nat) (leaf : Option (Bytes × Nat))
    (hl : leaf.isSome = true → ∃ u, s.utxo = some u ∧ isTaprootSpk u.spk = true) :
    dgOf O p i t f leaf = dgModel O p i t f leaf := by
  show psbtSighash O.sha (Psbt.setInput p i t) i f leaf = Psbt.sighash O.sha (Psbt.setInput p i t) i f (extraOf leaf)
  apply psbtSighash_eq_model
  unfold leafOnNonTaproot
  rw [setInput_get' p i s t hs]
  have hut : t.utxo = s.utxo := (core_fields ht).1
  cases leaf with
  | none => rfl
  | some l =>
    obtain ⟨u, hu, htap⟩ := hl rfl
    simp [hut, hu, htap]

theorem signInput_dgModel (O : Ops HD) (sg : Single HD) (auth : Option Nat) (p : Psbt) (i : Nat) (seen : List Slot)
    (s : InScope) (hs : p.inputs[i]? = some s) :
    signInput O sg auth (dgOf O p i) seen s = signInput O sg auth (dgModel O p i) seen s :=
  signInput_congr_args O sg auth _ _ seen s (fun t ht f leaf hl => dgOf_eq_dgModel_args O p i s hs t ht f leaf hl)

/-! ### the view's digests while signing = the in-memory digests -/

/-- `PSBTView.sighash(i, …, input_scope=inp)` on a scope object with the frame of the PSBT's input `i` is
    `PSBT.sighash` of the PSBT holding that object -/
theorem sighashWith_eq_setInput (ko : KeyOps) (sha : Bytes → Bytes) (buf : Bytes) (v : View) (vc : Nat) (p : Psbt)
    (tx : Tx) (o : ViewObs buf v tx) (htx : p.tx = some tx) (hn : v.numIn = p.inputs.length)
    (hin : ∀ i, View.input ko sha buf v i vc = p.inputs[i]?) (i f : Nat) (x : TapExtra) (s t : InScope)
    (hs : p.inputs[i]? = some s) (hc : core t = core s) :
    View.sighashWith ko sha buf v vc i f x t = Psbt.sighash sha (Psbt.setInput p i t) i f x := by
  have hpc : pcore (Psbt.setInput p i t) = pcore p := pcore_setInput p i s t hs hc
  have htx' : (Psbt.setInput p i t).tx = some tx := by rw [← pcore_tx, hpc, pcore_tx, htx]
  have hut : (Psbt.setInput p i t).inputs.map InScope.utxo = p.inputs.map InScope.utxo := by
    rw [← pcore_utxos, hpc, pcore_utxos]
  unfold View.sighashWith Psbt.sighash
  rw [setInput_get' p i s t hs]
  cases hu : t.utxo with
  | none => simp only [hu]
  | some u =>
    simp only [hu]
    have hall : (List.range v.numIn).map (fun idx => (View.input ko sha buf v idx vc).bind InScope.utxo)
        = p.inputs.map InScope.utxo := by
      rw [hn, ← range_bind_eq_map InScope.utxo p.inputs]
      apply List.map_congr_left
      intro idx _
      rw [hin idx]
    rw [hall, hut, htx']
    rcases hd : t.dispatch u with ⟨algo, sc⟩
    cases algo with
    | legacy => simp only []; exact View.sighashLegacy_eq sha buf v tx o i sc f
    | segwit => simp only []; exact View.sighashSegwit_eq sha buf v tx o i sc u.value f
    | taproot =>
      simp only []
      cases optAll (p.inputs.map InScope.utxo) with
      | none => rfl
      | some us => simp only []; exact View.sighashTaproot_eq sha buf v tx o i _ _ f _ _ _ _ _

/-- every digest the byte-level signing model asks the view for is the digest the parsed-PSBT model computes -/
theorem viewDigest_eq_dgOf_args (ko : KeyOps) (O : Ops HD) (buf : Bytes) (v : View) (vc : Nat) (p : Psbt)
    (tx : Tx) (o : ViewObs buf v tx) (htx : p.tx = some tx) (hn : v.numIn = p.inputs.length)
    (hin : ∀ i, View.input ko O.sha buf v i vc = p.inputs[i]?) (i : Nat) (s : InScope)
    (hs : p.inputs[i]? = some s) (t : InScope) (ht : core t = core s) (f : Nat) (leaf : Option (Bytes × Nat))
    (hl : leaf.isSome = true → ∃ u, s.utxo = some u ∧ isTaprootSpk u.spk = true) :
    viewDigest ko O buf v vc i s t f leaf = dgOf O p i t f leaf := by
  rw [dgOf_eq_dgModel_args O p i s hs t ht f leaf hl]
  unfold viewDigest dgModel
  cases hu : s.utxo with
  | none =>
    -- no digest exists on either side: `PSBT.sighash` needs the utxo
    simp only []
    unfold Psbt.sighash
    rw [setInput_get' p i s t hs]
    have : t.utxo = none := by rw [(core_fields ht).1, hu]
    simp only [this]
  | some u =>
    simp only []
    cases htap : isTaprootSpk u.spk with
    | true =>
      simp only [if_true]
      rw [View.sighash_eq_psbt ko O.sha buf v vc p tx o htx hn hin i f (extraOf leaf)]
      -- the digest of a taproot input does not read the signature fields
      have h1 : leafOnNonTaproot p i leaf = false := by
        unfold leafOnNonTaproot; rw [hs]; simp [hu, htap]
      have h2 : leafOnNonTaproot (Psbt.setInput p i t) i leaf = false := by
        unfold leafOnNonTaproot; rw [setInput_get' p i s t hs]; simp [(core_fields ht).1, hu, htap]
      rw [← psbtSighash_eq_model O.sha p i f leaf h1, ← psbtSighash_eq_model O.sha _ i f leaf h2,
        digest_setInput O.sha p i s t hs ht]
    | false =>
      simp only [Bool.false_eq_true, if_false]
      have hln : leaf = none := by
        cases leaf with
        | none => rfl
        | some l =>
          obtain ⟨u', hu', htap'⟩ := hl rfl
          rw [hu] at hu'; cases hu'; rw [htap] at htap'; cases htap'
      subst hln
      exact sighashWith_eq_setInput ko O.sha buf v vc p tx o htx hn hin i f {} s t hs ht

/-! ### the refinement -/

/-- one loop iteration: `sign_input(i, …)` over the bytes = `sign_input` over the parsed scope with the in-memory digest -/
theorem viewSignInput_bytes_eq (ko : KeyOps) (O : Ops HD) (keys : List (Single HD)) (auth : Option Nat) (buf : Bytes)
    (v : View) (vc : Nat) (p : Psbt) (tx : Tx) (o : ViewObs buf v tx) (htx : p.tx = some tx)
    (hn : v.numIn = p.inputs.length) (hin : ∀ i, View.input ko O.sha buf v i vc = p.inputs[i]?)
    (i : Nat) (s : InScope) (hs : p.inputs[i]? = some s) :
    View.signInput ko O keys auth buf v vc i
      = (viewSignInput O keys auth (fun s' f leaf => psbtSighash O.sha (Psbt.setInput p i s') i f leaf) s).map
          (fun r => (r.1, r.2.2.1)) := by
  have hi : i < p.inputs.length := by
    rcases Nat.lt_or_ge i p.inputs.length with h' | h'
    · exact h'
    · rw [List.getElem?_eq_none h'] at hs; cases hs
  unfold View.signInput
  rw [if_neg (by omega), hin i, hs]
  simp only []
  rw [viewSignInput_congr_args O keys auth (viewDigest ko O buf v vc i s) (dgOf O p i) s
    (fun t ht f leaf hl => viewDigest_eq_dgOf_args ko O buf v vc p tx o htx hn hin i s hs t ht f leaf hl)]
  change _ = (viewSignInput O keys auth (dgOf O p i) s).map (fun r => (r.1, r.2.2.1))
  cases h : viewSignInput O keys auth (dgOf O p i) s with
  | none => rfl
  | some r => obtain ⟨b, s', n, ws⟩ := r; rfl

/-- the loop -/
theorem viewSignFrom_bytes_eq (ko : KeyOps) (O : Ops HD) (keys : List (Single HD)) (auth : Option Nat) (buf : Bytes)
    (v : View) (vc : Nat) (p : Psbt) (tx : Tx) (o : ViewObs buf v tx) (htx : p.tx = some tx)
    (hn : v.numIn = p.inputs.length) (hin : ∀ i, View.input ko O.sha buf v i vc = p.inputs[i]?)
    (l : List InScope) (i : Nat) (hl : ∀ j, l[j]? = p.inputs[i + j]?) (hlen : i + l.length = p.inputs.length) :
    View.signFrom ko O keys auth buf v vc i l.length
      = (viewSignFrom O keys auth p i l).map (fun r => (r.1, r.2.2.1)) := by
  induction l generalizing i with
  | nil => rfl
  | cons s r ih =>
    have hs : p.inputs[i]? = some s := by have := hl 0; simpa using this.symm
    simp only [List.length_cons]
    unfold View.signFrom viewSignFrom
    rw [viewSignInput_bytes_eq ko O keys auth buf v vc p tx o htx hn hin i s hs]
    cases h1 : viewSignInput O keys auth (fun s' f leaf => psbtSighash O.sha (Psbt.setInput p i s') i f leaf) s with
    | none => rfl
    | some r1 =>
      obtain ⟨b, s', n, ws⟩ := r1
      simp only [Option.map_some]
      rw [ih (i + 1) (fun j => by have := hl (j + 1); simpa [Nat.add_assoc, Nat.add_comm 1 j] using this)
        (by simp only [List.length_cons] at hlen; omega)]
      cases h2 : viewSignFrom O keys auth p (i + 1) r with
      | none => rfl
      | some r2 => obtain ⟨b', ss, n', ws'⟩ := r2; rfl

/-- `PSBTView.sign_with` over the bytes = `PSBTView.sign_with` over the parsed PSBT: same signature stream, same counter,
    one raises iff the other does -/
theorem viewSignWith_bytes_eq (ko : KeyOps) (O : Ops HD) (signer : Signer HD) (auth : Option Nat) (buf : Bytes)
    (v : View) (vc : Nat) (p : Psbt) (tx : Tx) (o : ViewObs buf v tx) (htx : p.tx = some tx)
    (hn : v.numIn = p.inputs.length) (hin : ∀ i, View.input ko O.sha buf v i vc = p.inputs[i]?) :
    View.signWith ko O signer auth buf v vc = (viewSignWith O signer auth p).map (fun r => (r.1, r.2.1)) := by
  unfold View.signWith viewSignWith
  rw [hn, viewSignFrom_bytes_eq ko O signer.keys auth buf v vc p tx o htx hn hin p.inputs 0
    (fun j => by simp) (by simp)]
  cases viewSignFrom O signer.keys auth p 0 p.inputs with
  | none => rfl
  | some r => obtain ⟨b, ss, n, ws⟩ := r; rfl

end Embit.Model.SignWith
