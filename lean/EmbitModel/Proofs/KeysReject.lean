import EmbitModel.Proofs.KeysCodec
/-
  Rejection classes of the decoders: for every input in the class the decoder returns `none`.
-/
namespace Embit.Keys
open Embit

variable {E : EcOps}

/-! ### SEC public keys -/

theorem pubkeyParse_length (b : Bytes) (h : b.length ≠ 33 ∧ b.length ≠ 65) : pubkeyParse E b = none := by
  cases b with
  | nil => rfl
  | cons f r =>
    simp only [List.length_cons] at h
    simp only [pubkeyParse]
    rw [if_neg (by omega), if_neg (by omega)]

theorem pubkeyParse_some_shape (f : UInt8) (r : Bytes) (P : E.Pt) (h : pubkeyParse E (f :: r) = some P) :
    (r.length = 32 ∧ (f = 0x02 ∨ f = 0x03)) ∨ (r.length = 64 ∧ f = 0x04) := by
  simp only [pubkeyParse] at h
  by_cases h32 : r.length = 32
  · rw [if_pos h32] at h
    by_cases h2 : f = 0x02
    · exact Or.inl ⟨h32, Or.inl h2⟩
    · by_cases h3 : f = 0x03
      · exact Or.inl ⟨h32, Or.inr h3⟩
      · rw [if_neg h2, if_neg h3] at h; cases h
  · rw [if_neg h32] at h
    by_cases h64 : r.length = 64
    · rw [if_pos h64] at h
      by_cases h4 : f = 0x04
      · exact Or.inr ⟨h64, h4⟩
      · rw [if_neg h4] at h; cases h
    · rw [if_neg h64] at h; cases h

theorem readFrom_some_length (b : Bytes) (k : PublicKey E) (rest : Bytes)
    (h : PublicKey.readFrom E b = some (k, rest)) :
    ∃ f r, b = f :: r ∧ ((f = 0x04 ∧ 64 ≤ r.length ∧ rest = r.drop 64 ∧ k.compressed = false)
      ∨ ((f = 0x02 ∨ f = 0x03) ∧ 32 ≤ r.length ∧ rest = r.drop 32 ∧ k.compressed = true)) := by
  cases b with
  | nil => simp [PublicKey.readFrom] at h
  | cons f r =>
    refine ⟨f, r, rfl, ?_⟩
    simp only [PublicKey.readFrom] at h
    by_cases hf : f = 0x02 ∨ f = 0x03 ∨ f = 0x04
    · rw [if_pos hf] at h
      by_cases h4 : f = 0x04
      · subst h4
        simp only [if_true] at h
        cases hp : pubkeyParse E (0x04 :: r.take 64) with
        | none => simp [hp] at h
        | some P =>
          simp only [hp, Option.some.injEq, Prod.mk.injEq] at h
          left
          refine ⟨rfl, ?_, h.2.symm, by rw [← h.1]; rfl⟩
          rcases pubkeyParse_some_shape _ _ _ hp with ⟨_, h23⟩ | ⟨hl, _⟩
          · rcases h23 with h23 | h23 <;> simp at h23
          · rw [List.length_take] at hl; omega
      · simp only [h4, if_false] at h
        cases hp : pubkeyParse E (f :: r.take 32) with
        | none => simp [hp] at h
        | some P =>
          simp only [hp, Option.some.injEq, Prod.mk.injEq] at h
          right
          refine ⟨by rcases hf with hf | hf | hf <;> simp_all, ?_, h.2.symm, by rw [← h.1]; simp [h4]⟩
          rcases pubkeyParse_some_shape _ _ _ hp with ⟨hl, _⟩ | ⟨_, h4'⟩
          · rw [List.length_take] at hl; omega
          · exact absurd h4' h4
    · rw [if_neg hf] at h; cases h

/-- wrong length (truncation, extension): neither 33 nor 65 bytes -/
theorem sec_wrong_length (b : Bytes) (h : b.length ≠ 33 ∧ b.length ≠ 65) : PublicKey.parse E b = none := by
  cases hp : PublicKey.parse E b with
  | none => rfl
  | some k =>
    exfalso
    unfold PublicKey.parse at hp
    split at hp
    · rename_i k' hr
      obtain ⟨f, r, rfl, hcase⟩ := readFrom_some_length b k' [] hr
      simp only [List.length_cons] at h
      rcases hcase with ⟨_, hl, hrest, _⟩ | ⟨_, hl, hrest, _⟩
      · have := congrArg List.length hrest; simp at this; omega
      · have := congrArg List.length hrest; simp at this; omega
    · cases hp

/-- wrong prefix byte: anything but 02, 03, 04 (in particular the hybrid forms 06, 07) -/
theorem sec_bad_prefix (f : UInt8) (r : Bytes) (h : f ≠ 0x02 ∧ f ≠ 0x03 ∧ f ≠ 0x04) :
    PublicKey.parse E (f :: r) = none := by
  simp [PublicKey.parse, PublicKey.readFrom, h.1, h.2.1, h.2.2]

/-- prefix of the wrong kind for the length: 04 on 33 bytes, 02/03 on 65 bytes -/
theorem sec_prefix_length_mismatch (f : UInt8) (r : Bytes)
    (h : (f = 0x04 ∧ r.length ≠ 64) ∨ ((f = 0x02 ∨ f = 0x03) ∧ r.length ≠ 32)) :
    PublicKey.parse E (f :: r) = none := by
  cases hp : PublicKey.parse E (f :: r) with
  | none => rfl
  | some k =>
    exfalso
    unfold PublicKey.parse at hp
    split at hp
    · rename_i k' hr
      obtain ⟨f', r', hb, hcase⟩ := readFrom_some_length _ k' [] hr
      injection hb with h1 h2; subst h1; subst h2
      rcases hcase with ⟨hf, hl, hrest, _⟩ | ⟨hf, hl, hrest, _⟩
      · have := congrArg List.length hrest; simp at this
        rcases h with ⟨_, h⟩ | ⟨h, _⟩
        · omega
        · subst hf; rcases h with h | h <;> simp at h
      · have := congrArg List.length hrest; simp at this
        rcases h with ⟨h, _⟩ | ⟨_, h⟩
        · subst h; rcases hf with h | h <;> simp at h
        · omega
    · cases hp

/-- compressed form whose X is not the abscissa of a curve point (`lift_x` fails; includes X ≥ p) -/
theorem sec_off_curve_x (f : UInt8) (r : Bytes) (hf : f = 0x02 ∨ f = 0x03) (hl : E.liftX (ofBe r) = none) :
    PublicKey.parse E (f :: r) = none := by
  by_cases hlen : r.length = 32
  · have h4 : f ≠ 0x04 := by rcases hf with h | h <;> subst h <;> simp
    simp only [PublicKey.parse, PublicKey.readFrom]
    rw [if_pos (by rcases hf with h | h <;> simp [h])]
    simp only [h4, if_false, take_len r 32 hlen, pubkeyParse, hlen, if_true, hl, Option.map_none]
    rcases hf with h | h <;> subst h <;> simp
  · exact sec_prefix_length_mismatch f r (Or.inr ⟨hf, hlen⟩)

/-- uncompressed form whose (X, Y) is not a curve point (off-curve, substituted Y, coordinates ≥ p) -/
theorem sec_off_curve_xy (r : Bytes) (hl : E.ofXY (ofBe (r.take 32)) (ofBe (r.drop 32)) = none) :
    PublicKey.parse E (0x04 :: r) = none := by
  by_cases hlen : r.length = 64
  · simp only [PublicKey.parse, PublicKey.readFrom]
    rw [if_pos (by simp)]
    simp [take_len r 64 hlen, pubkeyParse, hlen, hl]
  · exact sec_prefix_length_mismatch 0x04 r (Or.inl ⟨rfl, hlen⟩)

/-- under the curve laws: when no finite point has abscissa `v`, `lift_x v` fails -/
theorem liftX_none_of_no_point (L : EcLaws E) (v : Nat) (h : ∀ P, E.isInf P = false → E.x P ≠ v) : E.liftX v = none := by
  cases hl : E.liftX v with
  | none => rfl
  | some P => obtain ⟨h1, h2, _⟩ := L.liftX_sound v P hl; exact absurd h2 (h P h1)

theorem ofXY_none_of_no_point (L : EcLaws E) (a b : Nat)
    (h : ∀ P, E.isInf P = false → ¬ (E.x P = a ∧ E.y P = b)) : E.ofXY a b = none := by
  cases hl : E.ofXY a b with
  | none => rfl
  | some P => obtain ⟨h1, h2, h3⟩ := L.ofXY_sound a b P hl; exact absurd ⟨h2, h3⟩ (h P h1)

/-! ### private keys, WIF -/

theorem priv_wrong_length (secret : Bytes) (c : Bool) (net : Nat) (h : secret.length ≠ 32) :
    PrivateKey.init E secret c net = none := by
  simp [PrivateKey.init, h]

/-- scalar 0 or ≥ n -/
theorem priv_bad_scalar (secret : Bytes) (c : Bool) (net : Nat) (h : ofBe secret = 0 ∨ ofBe secret ≥ E.n) :
    PrivateKey.init E secret c net = none := by
  unfold PrivateKey.init
  split
  · rfl
  · have : seckeyValid E (ofBe secret) = false := by
      simp only [seckeyValid, Bool.and_eq_false_iff, decide_eq_false_iff_not]; omega
    simp [this]

theorem wif_bad_checksum (env : Env) (s : Text) (h : env.b58dec s = none) : PrivateKey.fromWif E env s = none := by
  simp [PrivateKey.fromWif, h]

theorem wif_unknown_version (env : Env) (s : Text) (b : Bytes) (h : env.b58dec s = some b)
    (hv : wifNetwork (b.take 1) = none) : PrivateKey.fromWif E env s = none := by
  simp [PrivateKey.fromWif, h, hv]

theorem wif_wrong_length (env : Env) (s : Text) (b : Bytes) (h : env.b58dec s = some b)
    (hl : b.length ≠ 33 ∧ b.length ≠ 34) : PrivateKey.fromWif E env s = none := by
  unfold PrivateKey.fromWif
  rw [h]
  simp only
  split
  · rfl
  · rw [if_neg hl.1, if_neg hl.2]

theorem wif_bad_flag (env : Env) (s : Text) (b : Bytes) (h : env.b58dec s = some b) (hl : b.length = 34)
    (hf : b.getLast? ≠ some 0x01) : PrivateKey.fromWif E env s = none := by
  unfold PrivateKey.fromWif
  rw [h]
  simp only
  split
  · rfl
  · rw [if_neg (by omega), if_pos hl, if_neg hf]

theorem wif_bad_scalar (env : Env) (s : Text) (b : Bytes) (h : env.b58dec s = some b)
    (hs : ofBe ((b.drop 1).take 32) = 0 ∨ ofBe ((b.drop 1).take 32) ≥ E.n) : PrivateKey.fromWif E env s = none := by
  unfold PrivateKey.fromWif
  rw [h]
  simp only
  split
  · rfl
  · split
    · exact priv_bad_scalar _ _ _ hs
    · split
      · split
        · exact priv_bad_scalar _ _ _ hs
        · rfl
      · rfl

/-! ### extended keys -/

/-- what an accepted stream looks like -/
theorem readFrom_some (env : Env) (s : Bytes) (hd : HDKey E) (rest : Bytes)
    (h : HDKey.readFrom E env s = some (hd, rest)) :
    ∃ d s2 k0 kr key,
      s.drop 4 = d :: s2 ∧ (s2.drop 40).take 33 = k0 :: kr ∧ readKeyField E k0 kr = some key ∧
      (s.take 4).length = 4 ∧ (s2.take 4).length = 4 ∧ ((s2.drop 8).take 32).length = 32 ∧
      HDKey.init env key ((s2.drop 8).take 32) (some (s.take 4)) d.toNat (s2.take 4) (ofBe ((s2.drop 4).take 4)) = some hd ∧
      ¬ (d.toNat = 0 ∧ ofBe ((s2.drop 4).take 4) ≠ 0) ∧ ¬ (d.toNat = 0 ∧ s2.take 4 ≠ [0, 0, 0, 0]) ∧
      rest = (s2.drop 40).drop 33 := by
  unfold HDKey.readFrom at h
  split at h
  · cases h
  · rename_i d s2 hs
    split at h
    · cases h
    · rename_i k0 kr hk
      split at h
      · cases h
      · rename_i key hkey
        split at h
        · cases h
        · rename_i hlen
          split at h
          · cases h
          · rename_i hd' hinit
            split at h
            · cases h
            · split at h
              · cases h
              · split at h
                · cases h
                · rename_i h00
                  split at h
                  · cases h
                  · rename_i h01
                    simp only [Option.some.injEq, Prod.mk.injEq] at h
                    refine ⟨d, s2, k0, kr, key, hs, hk, hkey, ?_, ?_, ?_, ?_, h00, h01, h.2.symm⟩
                    · have := List.length_take_le 4 s; omega
                    · have := List.length_take_le 4 s2; omega
                    · have := List.length_take_le 32 (s2.drop 8); omega
                    · rw [← h.1]; exact hinit

/-- truncation: fewer than 78 bytes -/
theorem xkey_too_short (env : Env) (b : Bytes) (h : b.length < 78) : HDKey.parse E env b = none := by
  cases hp : HDKey.parse E env b with
  | none => rfl
  | some k =>
    exfalso
    unfold HDKey.parse at hp
    split at hp
    · rename_i k' hr
      obtain ⟨d, s2, k0, kr, key, hs, hk, hkey, _, _, _, _, _, _, _⟩ := readFrom_some env b k' [] hr
      have h1 := congrArg List.length hs
      have h2 := congrArg List.length hk
      simp only [List.length_drop, List.length_cons, List.length_take] at h1 h2
      have hkr : kr.length < 32 := by omega
      unfold readKeyField at hkey
      split at hkey
      · simp only [PrivateKey.parse, PrivateKey.init, List.length_take] at hkey
        rw [if_pos (by omega)] at hkey
        cases hkey
      · cases hpk : PublicKey.parse E (k0 :: kr) with
        | none => simp [hpk] at hkey
        | some pk =>
          have := sec_wrong_length (E := E) (k0 :: kr) (by simp only [List.length_cons]; omega)
          rw [this] at hpk; cases hpk
    · cases hp

/-- extension: more than 78 bytes -/
theorem xkey_too_long (env : Env) (b : Bytes) (h : 78 < b.length) : HDKey.parse E env b = none := by
  cases hp : HDKey.parse E env b with
  | none => rfl
  | some k =>
    exfalso
    unfold HDKey.parse at hp
    split at hp
    · rename_i k' hr
      obtain ⟨d, s2, k0, kr, key, hs, hk, hkey, _, _, _, _, _, _, hrest⟩ := readFrom_some env b k' [] hr
      have h1 := congrArg List.length hs
      have h3 := congrArg List.length hrest
      simp only [List.length_drop, List.length_cons, List.length_nil] at h1 h3
      omega
    · cases hp

/-- depth 0 with a non-zero child number -/
theorem xkey_depth0_index (env : Env) (b : Bytes) (d : UInt8) (s2 : Bytes) (hs : b.drop 4 = d :: s2)
    (hd : d = 0) (hi : ofBe ((s2.drop 4).take 4) ≠ 0) : HDKey.parse E env b = none := by
  cases hp : HDKey.parse E env b with
  | none => rfl
  | some k =>
    exfalso
    unfold HDKey.parse at hp
    split at hp
    · rename_i k' hr
      obtain ⟨d', s2', k0, kr, key, hs', _, _, _, _, _, _, h00, _, _⟩ := readFrom_some env b k' [] hr
      rw [hs] at hs'
      injection hs' with e1 e2
      subst e1; subst e2; subst hd
      exact h00 ⟨rfl, hi⟩
    · cases hp

/-- depth 0 with a non-zero parent fingerprint -/
theorem xkey_depth0_parent (env : Env) (b : Bytes) (d : UInt8) (s2 : Bytes) (hs : b.drop 4 = d :: s2)
    (hd : d = 0) (hf : s2.take 4 ≠ [0, 0, 0, 0]) : HDKey.parse E env b = none := by
  cases hp : HDKey.parse E env b with
  | none => rfl
  | some k =>
    exfalso
    unfold HDKey.parse at hp
    split at hp
    · rename_i k' hr
      obtain ⟨d', s2', k0, kr, key, hs', _, _, _, _, _, _, _, h01, _⟩ := readFrom_some env b k' [] hr
      rw [hs] at hs'
      injection hs' with e1 e2
      subst e1; subst e2; subst hd
      exact h01 ⟨rfl, hf⟩
    · cases hp

theorem privInit_fields (sec : Bytes) (c : Bool) (net : Nat) (k : PrivateKey)
    (h : PrivateKey.init E sec c net = some k) : k = ⟨ofBe sec, c, net⟩ ∧ seckeyValid E (ofBe sec) = true := by
  unfold PrivateKey.init at h
  split at h
  · cases h
  · split at h
    · rename_i hv
      exact ⟨(Option.some.inj h).symm, hv⟩
    · cases h

theorem privParse_compressed (b : Bytes) (k : PrivateKey) (h : PrivateKey.parse E b = some k) :
    k.compressed = true := by
  unfold PrivateKey.parse at h
  cases hi : PrivateKey.init E (b.take 32) with
  | none => simp [hi] at h
  | some k' =>
    simp only [hi] at h
    split at h
    · have := (privInit_fields _ _ _ _ hi).1
      rw [← Option.some.inj h, this]
    · cases h

theorem readKeyField_canon (k0 : UInt8) (kr : Bytes) (key : KeyObj E) (hl : kr.length ≤ 32)
    (h : readKeyField E k0 kr = some key) : key.Canon ∧ (key.isPrivate = true ↔ k0 = 0) := by
  unfold readKeyField at h
  split at h
  · rename_i h0
    cases hpk : PrivateKey.parse E kr with
    | none => simp [hpk] at h
    | some pk =>
      simp only [hpk, Option.map_some, Option.some.injEq] at h
      subst h
      exact ⟨privParse_compressed kr pk hpk, by simp [KeyObj.isPrivate, h0]⟩
  · rename_i h0
    cases hp : PublicKey.parse E (k0 :: kr) with
    | none => simp [hp] at h
    | some pk =>
      simp only [hp, Option.map_some, Option.some.injEq] at h
      subst h
      refine ⟨?_, by simp [KeyObj.isPrivate, h0]⟩
      unfold PublicKey.parse at hp
      split at hp
      · rename_i k' hr
        obtain ⟨f, r, hb, hcase⟩ := readFrom_some_length _ k' [] hr
        injection hb with e1 e2; subst e1; subst e2
        rcases hcase with ⟨_, hl64, _, _⟩ | ⟨_, _, _, hc⟩
        · omega
        · simp only [Option.some.injEq] at hp; subst hp; exact hc
      · cases hp

/-- version bytes of the wrong kind: a version that always renders `?pub…` on a private key field (first key
    byte 00), or one that always renders `?prv…` on a public key field -/
theorem xkey_wrong_kind (env : Env) (b : Bytes) (d k0 : UInt8) (s2 kr : Bytes) (hs : b.drop 4 = d :: s2)
    (hk : (s2.drop 40).take 33 = k0 :: kr) (t : Text) (hv : VersionSays env (b.take 4) t)
    (hwrong : (k0 = 0 ∧ t = tPub) ∨ (k0 ≠ 0 ∧ t = tPrv)) : HDKey.parse E env b = none := by
  cases hp : HDKey.parse E env b with
  | none => rfl
  | some k =>
    exfalso
    unfold HDKey.parse at hp
    split at hp
    · rename_i k' hr
      obtain ⟨d', s2', k0', kr', key, hs', hk', hkey, hl1, hl2, hl3, hinit, _, _, _⟩ := readFrom_some env b k' [] hr
      rw [hs] at hs'
      injection hs' with e1 e2
      subst e1; subst e2
      rw [hk] at hk'
      injection hk' with e1 e2
      subst e1; subst e2
      have hkrl : kr.length ≤ 32 := by
        have := congrArg List.length hk
        simp only [List.length_take, List.length_cons] at this
        omega
      obtain ⟨hcanon, hpriv⟩ := readKeyField_canon k0 kr key hkrl hkey
      obtain ⟨_, _, hkeq, b', hser, htext⟩ := (init_iff env _ _ _ _ _ _ k').mp hinit
      have hdcn : d.toNat < 256 ∧ ofBe ((s2.drop 4).take 4) < 2 ^ 32 := by
        unfold HDKey.serialize at hser
        split at hser
        · assumption
        · cases hser
      obtain ⟨rest, hrl, hsplit⟩ := serialize_split (E := E)
        ⟨key, (s2.drop 8).take 32, b.take 4, d.toNat, s2.take 4, ofBe ((s2.drop 4).take 4)⟩ hcanon hl3 hl2 hdcn.1 hdcn.2
      rw [hser] at hsplit
      have := Option.some.inj hsplit
      rw [this, hv rest hrl] at htext
      rcases hwrong with ⟨h0, ht⟩ | ⟨h0, ht⟩
      · have : key.isPrivate = true := hpriv.mpr h0
        rw [this, ht] at htext
        exact tPrv_ne_tPub htext.symm
      · have : key.isPrivate = false := by
          cases hq : key.isPrivate
          · rfl
          · exact absurd (hpriv.mp hq) h0
        rw [this, ht] at htext
        exact tPrv_ne_tPub htext
    · cases hp

/-- an invalid key field (scalar 0 or ≥ n, padding byte other than 00 followed by an invalid point, off-curve X) -/
theorem xkey_bad_key (env : Env) (b : Bytes) (d k0 : UInt8) (s2 kr : Bytes) (hs : b.drop 4 = d :: s2)
    (hk : (s2.drop 40).take 33 = k0 :: kr) (hbad : readKeyField E k0 kr = none) : HDKey.parse E env b = none := by
  cases hp : HDKey.parse E env b with
  | none => rfl
  | some k =>
    exfalso
    unfold HDKey.parse at hp
    split at hp
    · rename_i k' hr
      obtain ⟨d', s2', k0', kr', key, hs', hk', hkey, _⟩ := readFrom_some env b k' [] hr
      rw [hs] at hs'
      injection hs' with e1 e2
      subst e1; subst e2
      rw [hk] at hk'
      injection hk' with e1 e2
      subst e1; subst e2
      rw [hbad] at hkey; cases hkey
    · cases hp

theorem readKeyField_bad_scalar (kr : Bytes) (h : ofBe (kr.take 32) = 0 ∨ ofBe (kr.take 32) ≥ E.n) :
    readKeyField E 0x00 kr = none := by
  simp only [readKeyField, if_true, PrivateKey.parse]
  rw [priv_bad_scalar (E := E) (kr.take 32) true Generated.privDefaultNet h]
  rfl

theorem xkey_bad_checksum (env : Env) (s : Text) (h : env.b58dec s = none) : HDKey.fromBase58 E env s = none := by
  simp [HDKey.fromBase58, h]

end Embit.Keys
