import EmbitModel.Proofs.PsetParseWF
/-
  C18 (deepening): serialise-then-parse of version-0 ("elements") PSET objects. Output scopes are seeded with script,
  asset and the value (integer or raw commitment) of the global transaction and write the legacy spellings; the whole
  object must carry its transaction (`LPsetWF0.tx`).
-/
set_option linter.unusedSimpArgs false
set_option linter.unusedVariables false
namespace Embit
open Model Spec.LWire

/-! ### version-0 output scopes -/

/-- the scope `read_from` starts with for a version-0 output: script, asset, and the value as an integer or as the raw
    commitment (`LOutputScope(vout=vout)`) -/
def Model.LOutScope.seedOf0 (s : LOutScope) : LOutScope :=
  { base := { value := s.base.value, spk := s.base.spk }, valueConf := s.valueConf,
    lf := match lget s.lf .asset with | some a => [(.asset, a)] | none => [] }

/-- well-formed output scope of a version-0 PSET -/
structure LOutWF0 (ko : KeyOps) (s : LOutScope) : Prop where
  typed : OutWF ko s.base.typed
  typedNL : ∀ kv ∈ s.base.typed.pairs (some 2), isLiquidKey kv.1 = false
  unknown : ∀ kv ∈ s.base.unknown, KVWF kv ∧
    ((isLiquidKey kv.1 = false ∧ unkKeyOut kv.1 = true) ∨ (isLiquidKey kv.1 = true ∧ LOutField.ofKey kv.1 = none))
  unknownNodup : (s.base.unknown.map Prod.fst).Nodup
  lf : ∀ e ∈ s.lf, lenOK e.1.len e.2 = true ∧ Fits e.2
  asset : (lget s.lf .asset).isSome = true
  /-- (since fix `d53`) the scope keeps no nonce of a global transaction beside its fields -/
  txNonce : s.txNonce = none

theorem LOutScope.addPair_base' (ko : KeyOps) (s : LOutScope) (k v : Bytes) (hk : isLiquidKey k = false)
    (h3 : k ≠ [0x03]) :
    LOutScope.addPair ko s k v = (OutScope.addPair ko s.base k v).map (fun b => { s with base := b }) := by
  simp only [LOutScope.addPair, hk, Bool.not_false, if_true, h3, decide_false, Bool.false_and, Bool.false_eq_true, if_false]
  cases OutScope.addPair ko s.base k v <;> rfl

theorem LOutScope.addPairs_base' (ko : KeyOps) : ∀ (kvs : List KV) (s : LOutScope),
    (∀ kv ∈ kvs, isLiquidKey kv.1 = false ∧ kv.1 ≠ [0x03]) →
    LOutScope.addPairs ko s kvs = (OutScope.addPairs ko s.base kvs).map (fun b => { s with base := b }) := by
  intro kvs
  induction kvs with
  | nil => intro s _; simp [LOutScope.addPairs, OutScope.addPairs]
  | cons kv kvs ih =>
    intro s h
    obtain ⟨k, v⟩ := kv
    obtain ⟨h1, h2⟩ := h (k, v) (by simp)
    simp only [LOutScope.addPairs, OutScope.addPairs, LOutScope.addPair_base' ko s k v h1 h2]
    cases hb : OutScope.addPair ko s.base k v with
    | none => rfl
    | some b =>
      simp only [Option.map_some]
      rw [ih { s with base := b } (fun x hx => h x (by simp [hx]))]

theorem unkKeyOut_ne3 (k : Bytes) (h : unkKeyOut k = true) : k ≠ [0x03] := by
  intro e; subst e; revert h; decide

theorem LOutScope.addPair_unknown' (ko : KeyOps) (s : LOutScope) (k v : Bytes)
    (hcls : (isLiquidKey k = false ∧ unkKeyOut k = true) ∨ (isLiquidKey k = true ∧ LOutField.ofKey k = none))
    (hl : lookup k s.base.unknown = none) :
    LOutScope.addPair ko s k v = some { s with base := { s.base with unknown := s.base.unknown ++ [(k, v)] } } := by
  rcases hcls with ⟨hliq, hu⟩ | ⟨hliq, hof⟩
  · rw [LOutScope.addPair_base' ko s k v hliq (unkKeyOut_ne3 k hu), OutScope.addPair_unknown ko s.base k v hu hl]
    rfl
  · simp [LOutScope.addPair, hliq, hof, hl]

theorem lout_step_unknown' (ko : KeyOps) : ∀ (l : List KV) (s : LOutScope),
    (∀ kv ∈ l, (isLiquidKey kv.1 = false ∧ unkKeyOut kv.1 = true) ∨ (isLiquidKey kv.1 = true ∧ LOutField.ofKey kv.1 = none)) →
    ((s.base.unknown ++ l).map Prod.fst).Nodup →
    LOutScope.addPairs ko s l = some { s with base := { s.base with unknown := s.base.unknown ++ l } } := by
  intro l
  induction l with
  | nil => intro s _ _; simp [LOutScope.addPairs]
  | cons e l ih =>
    intro s hv hn
    obtain ⟨k, v⟩ := e
    obtain ⟨hp, hn'⟩ := nodup_snoc_split _ _ _ _ hn
    have h1 := LOutScope.addPair_unknown' ko s k v (hv (k, v) (by simp)) hp
    simp only [LOutScope.addPairs, h1]
    rw [ih _ (fun x hx => hv x (by simp [hx])) hn']
    simp [List.append_assoc]

/-- the liquid fields under the spelling `b` -/
theorem lout_step_lf' (ko : KeyOps) (b : Bool) (src : List (LOutField × Bytes)) (hsrc : ∀ e ∈ src, lenOK e.1.len e.2 = true) :
    ∀ (l : List LOutField), l.Nodup → ∀ (s : LOutScope), (∀ f ∈ l, lget s.lf f = none) →
    LOutScope.addPairs ko s (l.filterMap (fun f => (lget src f).map (fun v => (f.key b, v))))
      = some { s with lf := s.lf ++ l.filterMap (fun f => (lget src f).map (fun v => (f, v))) } := by
  intro l
  induction l with
  | nil => intro _ s _; simp [LOutScope.addPairs]
  | cons f r ih =>
    intro hnd s hdis
    simp only [List.nodup_cons] at hnd
    cases hv : lget src f with
    | none =>
      simp only [List.filterMap_cons, hv, Option.map_none]
      exact ih hnd.2 s (fun g hg => hdis g (by simp [hg]))
    | some v =>
      simp only [List.filterMap_cons, hv, Option.map_some]
      have hlen := hsrc (f, v) (lget_mem src f v hv)
      have hn : lget s.lf f = none := hdis f (by simp)
      have h1 : LOutScope.addPair ko s (f.key b) v = some { s with lf := s.lf ++ [(f, v)] } := by
        simp [LOutScope.addPair, LOutField.key_liquid, LOutField.ofKey_key, hn, hlen]
      simp only [LOutScope.addPairs, h1]
      rw [ih hnd.2 { s with lf := s.lf ++ [(f, v)] } (fun g hg => by
        have hne : g ≠ f := fun e => hnd.1 (e ▸ hg)
        simp only []
        rw [lget_append_ne _ _ _ _ (fun e => hne e.symm)]
        exact hdis g (by simp [hg]))]
      simp [List.append_assoc]

theorem filterMap_congr' {α β : Type} (f g : α → Option β) : ∀ (l : List α), (∀ x ∈ l, f x = g x) →
    l.filterMap f = l.filterMap g := by
  intro l
  induction l with
  | nil => intro _; rfl
  | cons a r ih =>
    intro h
    simp only [List.filterMap_cons, h a (by simp), ih (fun x hx => h x (by simp [hx]))]

theorem OutScope.pairs_sub_v2 (s : OutScope) (ver : Option Nat) : ∀ kv ∈ s.pairs ver, kv ∈ s.pairs (some 2) := by
  intro kv hkv
  by_cases hv : ver = some 2
  · rw [hv] at hkv; exact hkv
  · rw [OutScope.pairs_eq] at hkv ⊢
    simp only [hv, if_false, List.append_nil, if_true, List.mem_append] at hkv ⊢
    grind

theorem OutScope.typed_pairs_v0 (b : OutScope) (ver : Option Nat) (hv : ver ≠ some 2) :
    ∀ kv ∈ b.typed.pairs ver, kv.1 ≠ [0x03] := by
  intro kv hkv
  rw [OutScope.pairs_eq] at hkv
  simp only [OutScope.typed, hv, if_false, List.append_nil, List.mem_append] at hkv
  rcases hkv with (((h | h) | h) | h) | h
  · rw [optKV_mem h]; decide
  · rw [optKV_mem h]; decide
  · obtain ⟨e, he, rfl⟩ := List.mem_map.mp h; simp
  · rw [optKV_mem h]; decide
  · obtain ⟨e, he, rfl⟩ := List.mem_map.mp h; simp

/-- serialise-then-parse of a version-0 output scope -/
theorem LOutScope.addPairs_pairs0 (ko : KeyOps) (ver : Option Nat) (hv : ver ≠ some 2) (s : LOutScope) (h : LOutWF0 ko s) :
    LOutScope.addPairs ko s.seedOf0 (s.pairsL ver) = some s.norm := by
  obtain ⟨a, ha⟩ := Option.isSome_iff_exists.mp h.asset
  have hb : (ver == some 2) = false := by simp [hv]
  have hkeys : ∀ kv ∈ s.base.typed.pairs ver, isLiquidKey kv.1 = false ∧ kv.1 ≠ [0x03] := by
    intro kv hkv
    exact ⟨h.typedNL kv (OutScope.pairs_sub_v2 _ ver kv hkv), OutScope.typed_pairs_v0 s.base ver hv kv hkv⟩
  have step3 : LOutScope.addPairs ko s.seedOf0 (s.base.typed.pairs ver)
      = some { s.seedOf0 with base := s.base.typed } := by
    rw [LOutScope.addPairs_base' ko _ _ hkeys]
    have := OutScope.addPairs_pairs ko ver s.base.typed h.typed
    simp only [OutScope.seedOf, hv, if_false] at this
    show (OutScope.addPairs ko { value := s.base.value, spk := s.base.spk } (s.base.typed.pairs ver)).map _ = _
    have e : ({ value := s.base.value, spk := s.base.spk } : OutScope)
        = { value := s.base.typed.value, spk := s.base.typed.spk } := rfl
    rw [e, this]
    rfl
  have step4 := lout_step_unknown' ko s.base.unknown { s.seedOf0 with base := s.base.typed }
    (fun kv hkv => (h.unknown kv hkv).2) (by simpa [OutScope.typed] using h.unknownNodup)
  -- the liquid fields after the asset
  have hord : LOutField.order = LOutField.asset :: LOutField.order.tail := by decide
  have hnd : LOutField.order.tail.Nodup := by decide
  have hnotin : LOutField.asset ∉ LOutField.order.tail := by decide
  have step5 := lout_step_lf' ko false s.lf (fun e he => (h.lf e he).1) LOutField.order.tail hnd
    { s.seedOf0 with base := { s.base.typed with unknown := s.base.typed.unknown ++ s.base.unknown } }
    (fun f hf => by
      have hfa : f ≠ LOutField.asset := fun e => hnotin (e ▸ hf)
      simp only [LOutScope.seedOf0, ha, lget, hfa.symm, if_false])
  have hlp : s.lpairs ver = LOutField.order.tail.filterMap (fun f => (lget s.lf f).map (fun v => (f.key false, v))) := by
    unfold LOutScope.lpairs
    rw [hord]
    simp only [List.filterMap_cons, hb, Bool.not_false, Bool.and_true, decide_true, if_true, List.tail_cons]
    apply filterMap_congr'
    intro f hf
    have hfa : f ≠ LOutField.asset := fun e => hnotin (e ▸ hf)
    simp [hfa]
  have hpairs : s.pairsL ver = s.base.typed.pairs ver ++ (s.base.unknown
      ++ LOutField.order.tail.filterMap (fun f => (lget s.lf f).map (fun v => (f.key false, v)))) := by
    rw [LOutScope.pairsL, OutScope.pairs_typed, hlp, List.append_assoc]
  rw [hpairs]
  refine LOutScope.bind_step step3 (LOutScope.bind_step step4 ?_)
  rw [step5]
  simp only [LOutScope.norm, LOutScope.normLf, LOutScope.seedOf0, ha, OutScope.typed, List.nil_append]
  have e : LOutField.order.filterMap (fun f => (lget s.lf f).map (fun v => (f, v)))
      = (LOutField.asset, a) :: LOutField.order.tail.filterMap (fun f => (lget s.lf f).map (fun v => (f, v))) := by
    conv => lhs; rw [hord]
    simp [ha]
  rw [e]
  have hn := h.txNonce
  cases s with
  | mk b vc lf tn =>
    simp only at hn
    subst hn
    rfl

theorem LOutScope.pairsL_wf0 (ko : KeyOps) (ver : Option Nat) (s : LOutScope) (h : LOutWF0 ko s) :
    ∀ kv ∈ s.pairsL ver, KVWF kv := by
  intro kv hkv
  rw [LOutScope.pairsL, OutScope.pairs_typed] at hkv
  simp only [List.mem_append] at hkv
  rcases hkv with ((hkv | hkv) | hkv)
  · exact OutScope.pairs_wf ko ver _ h.typed kv hkv
  · exact (h.unknown kv hkv).1
  · simp only [LOutScope.lpairs, List.mem_filterMap] at hkv
    obtain ⟨f, _, hf⟩ := hkv
    split at hf
    · simp at hf
    · cases hv : lget s.lf f with
      | none => simp [hv] at hf
      | some v =>
        simp [hv] at hf; subst hf
        exact ⟨(LOutField.key_fits f _).1, (LOutField.key_fits f _).2, (h.lf (f, v) (lget_mem _ _ _ hv)).2⟩

/-! ### scopes in sequence, seeded from a transaction -/

theorem readLIns_write' (ko : KeyOps) (tx : Option LTx) (ver : Option Nat) :
    ∀ (ins : List LInScope) (i : Nat) (r : Bytes), (∀ s ∈ ins, LInWF ko s) →
    (∀ (j : Nat) (s : LInScope), ins[j]? = some s → lseedIn tx (i + j) = LInScope.seedOf ver s) →
    readLIns ko tx ins.length i (ins.flatMap (fun s => writeKVs (s.pairs ver)) ++ r)
      = some (ins.map LInScope.norm, r) := by
  intro ins
  induction ins with
  | nil => intro i r _ _; simp [readLIns]
  | cons s ins ih =>
    intro i r hwf hseed
    have h1 := readKVs_write (s.pairs ver) (ins.flatMap (fun s => writeKVs (s.pairs ver)) ++ r)
      (LInScope.pairs_wf ko ver s (hwf s (by simp)))
    have h2 := LInScope.addPairs_pairs ko ver s (hwf s (by simp))
    have h3 : lseedIn tx i = LInScope.seedOf ver s := by simpa using hseed 0 s (by simp)
    have h4 := ih (i + 1) r (fun x hx => hwf x (by simp [hx])) (fun j x hx => by
      have := hseed (j + 1) x (by simpa using hx)
      rwa [show i + (j + 1) = i + 1 + j by omega] at this)
    simp only [List.flatMap_cons, List.append_assoc, List.length_cons, readLIns, h1, h3, h2, h4, List.map_cons]

theorem readLOuts_write0 (ko : KeyOps) (tx : Option LTx) (ver : Option Nat) (hv : ver ≠ some 2) :
    ∀ (outs : List LOutScope) (i : Nat) (r : Bytes), (∀ s ∈ outs, LOutWF0 ko s) →
    (∀ (j : Nat) (s : LOutScope), outs[j]? = some s → lseedOut tx (i + j) = s.seedOf0) →
    readLOuts ko tx outs.length i (outs.flatMap (fun s => writeKVs (s.pairsL ver)) ++ r)
      = some (outs.map LOutScope.norm, r) := by
  intro outs
  induction outs with
  | nil => intro i r _ _; simp [readLOuts]
  | cons s outs ih =>
    intro i r hwf hseed
    have h1 := readKVs_write (s.pairsL ver) (outs.flatMap (fun s => writeKVs (s.pairsL ver)) ++ r)
      (LOutScope.pairsL_wf0 ko ver s (hwf s (by simp)))
    have h2 := LOutScope.addPairs_pairs0 ko ver hv s (hwf s (by simp))
    have h3 : lseedOut tx i = s.seedOf0 := by simpa using hseed 0 s (by simp)
    have h4 := ih (i + 1) r (fun x hx => hwf x (by simp [hx])) (fun j x hx => by
      have := hseed (j + 1) x (by simpa using hx)
      rwa [show i + (j + 1) = i + 1 + j by omega] at this)
    simp only [List.flatMap_cons, List.append_assoc, List.length_cons, readLOuts, h1, h3, h2, h4, List.map_cons]

/-! ### the whole version-0 PSET -/

theorem optAll_length {α : Type} : ∀ (l : List (Option α)) (r : List α), optAll l = some r → r.length = l.length := by
  intro l
  induction l with
  | nil => intro r h; simp [optAll] at h; subst h; rfl
  | cons a l ih =>
    intro r h
    cases a with
    | none => simp [optAll] at h
    | some x =>
      simp only [optAll] at h
      cases hr : optAll l with
      | none => simp [hr] at h
      | some xs => simp [hr] at h; subst h; simp [ih xs hr]

theorem optAll_mem {α : Type} : ∀ (l : List (Option α)) (r : List α), optAll l = some r → ∀ x ∈ r, some x ∈ l := by
  intro l
  induction l with
  | nil => intro r h; simp [optAll] at h; subst h; simp
  | cons a l ih =>
    intro r h
    cases a with
    | none => simp [optAll] at h
    | some x =>
      simp only [optAll] at h
      cases hr : optAll l with
      | none => simp [hr] at h
      | some xs =>
        simp [hr] at h; subst h
        intro y hy
        simp at hy
        rcases hy with rfl | hy
        · simp
        · exact List.mem_cons_of_mem _ (ih xs hr y hy)

/-- the transaction `PSET.tx` builds has empty scriptSigs, as many inputs / outputs as there are scopes -/
theorem LPset.tx_shape (p : LPset) (t : LTx) (h : p.tx = some t) :
    LUnsigned t ∧ t.vin.length = p.inputs.length ∧ t.vout.length = p.outputs.length := by
  unfold LPset.tx at h
  split at h
  · rename_i vin vout hi ho
    simp at h; subst h
    refine ⟨?_, by simpa using optAll_length _ _ hi, by simpa using optAll_length _ _ ho⟩
    intro i hi'
    have := optAll_mem _ _ hi i hi'
    simp only [List.mem_map] at this
    obtain ⟨s, _, hs⟩ := this
    unfold LInScope.vin at hs
    split at hs
    · simp at hs; subst hs; rfl
    · simp at hs
  · simp at h

/-- the transaction `PSET.tx` builds carries no witness (so the check of fix `b4` accepts it) -/
theorem LPset.tx_noWitness (p : LPset) (t : LTx) (h : p.tx = some t) : LTx.hasWitness t = false := by
  unfold LPset.tx at h
  split at h
  · rename_i vin vout hi ho
    simp at h; subst h
    simp only [LTx.hasWitness, Bool.or_eq_false_iff, List.any_eq_false]
    constructor
    · intro i hi'
      have := optAll_mem _ _ hi i hi'
      simp only [List.mem_map] at this
      obtain ⟨s, _, hs⟩ := this
      unfold LInScope.vin at hs
      split at hs
      · simp at hs; subst hs; simp [LInWitness.isEmpty]
      · simp at hs
    · intro o ho'
      have := optAll_mem _ _ ho o ho'
      simp only [List.mem_map] at this
      obtain ⟨s, _, hs⟩ := this
      unfold LOutScope.vout at hs
      simp only [] at hs
      split at hs
      · simp at hs; subst hs; simp [LOutWitness.isEmpty]
      · simp at hs
  · simp at h

theorem lglobalFold_tx_step (t : LTx) (hwf : WF t) (hu : LUnsigned t) (hnw : LTx.hasWitness t = false)
    (ver : Option Nat) (unk rest : List KV) :
    lglobalFold none ver unk (([0x00], LTx.ser t) :: rest) = lglobalFold (some t) ver unk rest := by
  have h1 := LTx.parse_ser t hwf
  have h2 : (t.vin.any fun i => !i.scriptSig.isEmpty) = false := by
    rw [List.any_eq_false]
    intro i hi
    simp [hu i hi]
  simp [lglobalFold, h1, h2, hnw]

/-- well-formed version-0 PSET object. `tx`: the object carries its transaction — it is well-formed, fits the framing,
    agrees with the stored version / locktime — and the seeds `read_from` derives from that transaction are the seeds of
    the object's scopes (decidable; for outputs this says: script, asset and value-or-commitment of the scope are the
    ones its own `vout` reports). -/
structure LPsetWF0 (ko : KeyOps) (p : LPset) : Prop where
  version : p.version ≠ some 2
  versionLt : OptP (· < 2^32) p.version
  xpubs : ∀ e ∈ p.xpubs, ko.validXpub e.1 = true ∧ Fits (0x01 :: e.1) ∧ DerivWF e.2
  xpubsNodup : (p.xpubs.map Prod.fst).Nodup
  unknown : ∀ kv ∈ p.unknown, KVWF kv ∧ unkKeyGlobal false kv.1 = true
  unknownNodup : (p.unknown.map Prod.fst).Nodup
  ins : ∀ s ∈ p.inputs, LInWF ko s
  outs : ∀ s ∈ p.outputs, LOutWF0 ko s
  tx : ∃ t, p.tx = some t ∧ WF t ∧ Fits (LTx.ser t) ∧ p.txVersion = some t.version ∧ p.locktime = some t.locktime
    ∧ (∀ (j : Nat) (s : LInScope), p.inputs[j]? = some s → lseedIn (some t) j = LInScope.seedOf p.version s)
    ∧ (∀ (j : Nat) (s : LOutScope), p.outputs[j]? = some s → lseedOut (some t) j = s.seedOf0)

/-- serialise-then-parse, version 0 -/
theorem LPset.parse_ser_v0 (ko : KeyOps) (p : LPset) (h : LPsetWF0 ko p) :
    ∃ b, LPset.ser p = some b ∧ LPset.parse ko b = some p.norm := by
  obtain ⟨t, ht, twf, tfit, tv, tl, sin, sout⟩ := h.tx
  obtain ⟨tun, tni, tno⟩ := LPset.tx_shape p t ht
  have hv := h.version
  have hisv2 : (p.version == some 2) = false := by simp [hv]
  have hver := h.versionLt
  let xp : List KV := p.xpubs.map (fun e => (0x01 :: e.1, Deriv.ser e.2))
  have x1 : ∀ kv ∈ xp, KVWF kv ∧ notTxVer kv = true ∧ ∃ x, kv.1 = 0x01 :: x := by
    intro kv hkv
    obtain ⟨e, he, rfl⟩ := List.mem_map.mp hkv
    obtain ⟨a1, a2, a3⟩ := h.xpubs e he
    exact ⟨⟨by simp, a2, a3.2.2⟩, by simp [notTxVer], e.1, rfl⟩
  have x2 : (xp.map Prod.fst).Nodup := by
    have : xp.map Prod.fst = (p.xpubs.map Prod.fst).map (fun x => 0x01 :: x) := by
      simp [xp, List.map_map, Function.comp_def]
    rw [this]
    exact nodup_map_cons _ _ h.xpubsNodup
  have z1 : ∀ kv ∈ p.unknown, KVWF kv ∧ notTxVer kv = true ∧ (∀ x, kv.1 ≠ 0x01 :: x) := by
    intro kv hkv
    obtain ⟨a, b⟩ := h.unknown kv hkv
    obtain ⟨c1, c2, c3⟩ := unkKeyGlobal_props _ kv.1 b
    exact ⟨a, c1, c2⟩
  have hnd2 : ((xp ++ p.unknown).map Prod.fst).Nodup := by
    rw [List.map_append]
    refine nodup_append_of x2 h.unknownNodup ?_
    intro a ha b hb e
    obtain ⟨kv, hkv, rfl⟩ := List.mem_map.mp ha
    obtain ⟨kv', hkv', rfl⟩ := List.mem_map.mp hb
    obtain ⟨x, hx⟩ := (x1 kv hkv).2.2
    exact (z1 kv' hkv').2.2 x (by rw [← e, hx])
  have hgf : lglobalFold none none []
      (([0x00], LTx.ser t) :: (xp ++ optKV [0xfb] (p.version.map (leN 4)) ++ p.unknown))
      = some (some t, p.version, xp ++ p.unknown) := by
    rw [lglobalFold_tx_step t twf tun (LPset.tx_noWitness p t ht), List.append_assoc,
      lglobalFold_unknown_seg _ _ _ _ _ (fun kv hkv => (x1 kv hkv).2.1) (by simpa using x2),
      lglobalFold_ver_step _ _ hver]
    have := lglobalFold_unknown_seg p.unknown (some t) p.version ([] ++ xp) []
      (fun kv hkv => (z1 kv hkv).2.1) (by simpa using hnd2)
    simp only [List.append_nil, List.nil_append] at this ⊢
    rw [this]; rfl
  have hpu : parseUnknowns ko (p.version == some 2) (lgstate0 (some t)) (xp ++ p.unknown)
      = some { txVersion := p.txVersion, locktime := p.locktime, nin := some p.inputs.length,
               nout := some p.outputs.length, xpubs := p.xpubs, unknown := p.unknown } := by
    rw [hisv2, tv, tl, ← tni, ← tno]
    have := pu_bind_step
      (pu_step_xpubs ko false p.xpubs (lgstate0 (some t)) (fun e he => ⟨(h.xpubs e he).1, (h.xpubs e he).2.2⟩))
      (pu_step_unknown ko false p.unknown _ (fun kv hkv => (h.unknown kv hkv).2))
    simpa [lgstate0, xp] using this
  have hins := readLIns_write' ko (some t) p.version p.inputs 0
    (p.outputs.flatMap (fun s => writeKVs (s.pairsL p.version)) ++ []) h.ins
    (fun j s hs => by simpa using sin j s hs)
  have houts := readLOuts_write0 ko (some t) p.version hv p.outputs 0 [] h.outs
    (fun j s hs => by simpa using sout j s hs)
  have hwf : ∀ kv ∈ (([0x00], LTx.ser t) :: (xp ++ optKV [0xfb] (p.version.map (leN 4)) ++ p.unknown) : List KV),
      KVWF kv := by
    intro kv hkv
    simp only [List.mem_cons, List.mem_append] at hkv
    rcases hkv with rfl | ((hkv | hkv) | hkv)
    · exact ⟨by simp, by simp, tfit⟩
    · exact (x1 kv hkv).1
    · exact optKV_wf _ _ ⟨by simp, by simp [Fits]⟩ (OptP_map hver (fun t ht => by simp [Fits])) kv hkv
    · exact (z1 kv hkv).1
  have hparse := LPset.parse_of_parts ko _ _ (some t) p.version _ _ (p.inputs.map LInScope.norm)
    (p.outputs.map LOutScope.norm) _ hwf hgf (by simp [hv]) (by simp) hpu (by simpa using hins) (by simpa using houts)
  refine ⟨_, ?_, hparse⟩
  have hfits : LTx.serOpt t = some (LTx.ser t) := by simp [LTx.serOpt, LTx.fits_of_wf t twf]
  have hgp : p.globalPairs = some (([0x00], LTx.ser t) :: (xp ++ optKV [0xfb] (p.version.map (leN 4)) ++ p.unknown)) := by
    simp only [LPset.globalPairs, hisv2, Bool.not_false, if_true, ht, Option.bind_some, hfits, Option.map_some,
      Bool.false_eq_true, if_false, List.append_nil]
    simp [xp]
  have hop : ∀ s ∈ p.outputs, s.pairs p.version = some (s.pairsL p.version) := by
    intro s hs
    simp [LOutScope.pairs_eq, hv]
  rw [LPset.ser_of_globalPairs p _ hgp hop]
  simp [List.append_assoc]

end Embit
