import EmbitModel.Proofs.SignWithFrame
/-
  Counting: the counter is the number of distinct slots of the trace; when no write stores a value its slot held before
  the call, these are exactly the slots whose content differs between the PSBT handed in and the PSBT returned
  (Mathlib-free).
-/
namespace Embit.Model.SignWith
open Embit Embit.Model

variable {HD : Type}

theorem PTr.scope {G : List (Nat × Slot)} {p p' : Psbt} {n : Nat} {ws : List Write} (t : PTr G p p' n ws) (i : Nat)
    (s s' : InScope) (hs : p.inputs[i]? = some s) (hs' : p'.inputs[i]? = some s') :
    s' = applySlots s (writesOf ws i) := by
  have := applyWrites_get p ws i
  rw [← t.app, hs', hs] at this
  exact Option.some.inj this

/-- the counter of a whole call: the slots of the trace, each once -/
theorem PTr.distinct {p p' : Psbt} {n : Nat} {ws : List Write} (t : PTr [] p p' n ws) :
    ∃ L : List (Nat × Slot), L.Nodup ∧ L.length = n ∧ ∀ x, x ∈ L ↔ x ∈ ws.map Write.slot := by
  refine ⟨firsts [] (ws.map Write.slot), nodup_firsts _ _, ?_, ?_⟩
  · rw [t.cnt, newCount_eq_firsts]
  · intro x
    rw [mem_firsts]
    simp

/-- when no write stores a value its slot held before the call, the slots of the trace are exactly the slots whose
    content changed -/
theorem changed_slots {G : List (Nat × Slot)} (p p' : Psbt) (n : Nat) (ws : List Write) (t : PTr G p p' n ws)
    (hfresh : ∀ w ∈ ws, ∀ s, p.inputs[w.1]? = some s → slotValue s w.2.1 ≠ some w.2.2)
    (i : Nat) (s s' : InScope) (hs : p.inputs[i]? = some s) (hs' : p'.inputs[i]? = some s') (sl : Slot) :
    (i, sl) ∈ ws.map Write.slot ↔ slotValue s' sl ≠ slotValue s sl := by
  have hget := t.scope i s s' hs hs'
  constructor
  · intro hm
    obtain ⟨w, hw, heq⟩ := List.mem_map.mp hm
    obtain ⟨j, sl', v⟩ := w
    simp only [Write.slot, Prod.mk.injEq] at heq
    obtain ⟨rfl, rfl⟩ := heq
    have hw' : (sl', v) ∈ writesOf ws j := (mem_writesOf ws j _).mpr hw
    obtain ⟨v', hv', hfin⟩ := slotValue_applySlots_written s (writesOf ws j) sl' v hw'
    rw [hget, hfin]
    intro e
    exact hfresh (j, sl', v') ((mem_writesOf ws j _).mp hv') s hs e.symm
  · intro hne
    by_cases hm : ∃ v, (sl, v) ∈ writesOf ws i
    · obtain ⟨v, hv⟩ := hm
      exact List.mem_map.mpr ⟨(i, sl, v), (mem_writesOf ws i _).mp hv, rfl⟩
    · exfalso
      apply hne
      rw [hget]
      apply slotValue_applySlots_untouched
      intro w hw heq
      exact hm ⟨w.2, by rw [← heq]; exact hw⟩

end Embit.Model.SignWith
