import EmbitModel.Model.Liquid
import EmbitModel.Spec.Slip77
import EmbitModel.Proofs.Tx
/-
  C18 (audit A15 / I-18.6) helper lemmas: string literals as byte lists (the kernel cannot evaluate
  `ByteArray.toList`, a well-founded loop), SLIP-77 model = spec, and unique decodability of the data `PSET.txseed` hashes.
-/
set_option linter.unusedSimpArgs false
set_option linter.unusedVariables false
namespace Embit
open Model

namespace SpecLink

theorem toList_loop_eq (data : Array UInt8) : ∀ (n i : Nat) (r : List UInt8), data.size - i = n →
    ByteArray.toList.loop ⟨data⟩ i r = r.reverse ++ data.toList.drop i := by
  intro n
  induction n with
  | zero =>
    intro i r h
    rw [ByteArray.toList.loop]
    have hs : (ByteArray.mk data).size = data.size := rfl
    have : ¬ i < data.size := by omega
    have hd : data.toList.drop i = [] := by
      apply List.drop_of_length_le
      rw [Array.length_toList]; omega
    rw [hs, if_neg this, hd, List.append_nil]
  | succ n ih =>
    intro i r h
    rw [ByteArray.toList.loop]
    have hs : (ByteArray.mk data).size = data.size := rfl
    have hlt : i < data.size := by omega
    rw [hs, if_pos hlt, ih (i+1) _ (by omega)]
    have hl : i < data.toList.length := by rw [Array.length_toList]; exact hlt
    rw [List.drop_eq_getElem_cons hl, List.reverse_cons, List.append_assoc]
    have hg : (ByteArray.mk data).get! i = data.toList[i] := by
      show data[i]! = _
      rw [getElem!_pos data i hlt]
      simp
    rw [hg]
    rfl

/-- `ByteArray.toList` is the list of the underlying array (lets the kernel evaluate string literals) -/
theorem byteArray_toList_eq (bs : ByteArray) : bs.toList = bs.data.toList := by
  cases bs with
  | mk data =>
    rw [ByteArray.toList, toList_loop_eq data _ 0 [] rfl]
    rfl

theorem domain_bytes : "Symmetric key seed".toUTF8.toList = Spec.Slip77.domain := by
  rw [byteArray_toList_eq]; decide

theorem label_bytes : "SLIP-0077".toUTF8.toList = Spec.Slip77.label := by
  rw [byteArray_toList_eq]; decide

/-- model = spec for the SLIP-77 master blinding key, for every HMAC with 64-byte output: embit's `node[32:]` is the
    SLIP-0021 key `N[32:64]`, the inlined derivation is the node `m/"SLIP-0077"`, the literals are the ASCII labels -/
theorem slip77Master_eq_spec (hmac512 : Bytes → Bytes → Bytes) (hlen : ∀ k m, (hmac512 k m).length = 64)
    (seed : Bytes) : slip77Master hmac512 seed = Spec.Slip77.masterBlindingKey hmac512 seed := by
  unfold slip77Master Spec.Slip77.masterBlindingKey Spec.Slip77.slip21Node Spec.Slip77.slip21Key
    Spec.Slip77.slip21Master Spec.Slip77.slip21Child
  simp only [List.foldl_cons, List.foldl_nil, domain_bytes, label_bytes]
  symm
  apply List.take_of_length_le
  rw [List.length_drop, hlen]
  decide

/-! ### `PSET.txseed`: the hashed data determines its parts -/

theorem ofLe_leN_mod : ∀ (k v : Nat), ofLe (leN k v) = v % 256 ^ k
  | 0, v => by simp [leN, ofLe, Nat.mod_one]
  | k+1, v => by
    have h1 : v % 256 < 256 := Nat.mod_lt _ (by decide)
    simp only [leN, ofLe, UInt8.toNat_ofNat', ofLe_leN_mod k (v / 256)]
    rw [show 256 ^ (k+1) = 256 * 256 ^ k from Nat.pow_succ', Nat.mod_mul]
    omega

/-- the 36 bytes `PSET.txseed` hashes for an input -/
def outpointSer (i : BlindIn) : Bytes := i.txid.reverse ++ leN 4 i.vout

theorem outpointSer_length (i : BlindIn) (h : i.txid.length = 32) : (outpointSer i).length = 36 := by
  simp [outpointSer, h]

theorem outpoints_inj : ∀ (ins ins' : List BlindIn) (r r' : Bytes), ins.length = ins'.length →
    (∀ i ∈ ins, i.txid.length = 32) → (∀ i ∈ ins', i.txid.length = 32) →
    ins.flatMap outpointSer ++ r = ins'.flatMap outpointSer ++ r' →
    ins.map (fun i => (i.txid, i.vout % 2^32)) = ins'.map (fun i => (i.txid, i.vout % 2^32)) ∧ r = r'
  | [], [], r, r', _, _, _, h => by simpa using h
  | [], _ :: _, _, _, hl, _, _, _ => by simp at hl
  | _ :: _, [], _, _, hl, _, _, _ => by simp at hl
  | i :: t, i' :: t', r, r', hl, h1, h2, h => by
    simp only [List.flatMap_cons, List.append_assoc] at h
    have hi : i.txid.length = 32 := h1 i (by simp)
    have hi' : i'.txid.length = 32 := h2 i' (by simp)
    obtain ⟨ha, hb⟩ := List.append_inj h (by rw [outpointSer_length i hi, outpointSer_length i' hi'])
    obtain ⟨e1, e2⟩ := outpoints_inj t t' r r' (by simpa using hl) (fun x hx => h1 x (by simp [hx]))
      (fun x hx => h2 x (by simp [hx])) hb
    unfold outpointSer at ha
    obtain ⟨hx, hy⟩ := List.append_inj ha (by simp [hi, hi'])
    have htx : i.txid = i'.txid := List.reverse_inj.mp hx
    have hv : i.vout % 2^32 = i'.vout % 2^32 := by
      have := congrArg ofLe hy
      rw [ofLe_leN_mod, ofLe_leN_mod] at this
      simpa using this
    refine ⟨?_, e2⟩
    simp only [List.map_cons, htx, hv, e1]

theorem scriptRead_nil : scriptRead [] = none := by decide

theorem scripts_inj : ∀ (outs outs' : List BlindOut), (∀ o ∈ outs, o.spk.length < 2^64) →
    (∀ o ∈ outs', o.spk.length < 2^64) →
    outs.flatMap (fun o => scriptSer o.spk) = outs'.flatMap (fun o => scriptSer o.spk) →
    outs.map (·.spk) = outs'.map (·.spk)
  | [], [], _, _, _ => rfl
  | [], o' :: t', _, h2, h => by
    exfalso
    have := scriptRead_ser o'.spk (t'.flatMap (fun o => scriptSer o.spk)) (h2 o' (by simp))
    simp only [List.flatMap_cons, List.flatMap_nil] at h
    rw [← h, scriptRead_nil] at this
    simp at this
  | o :: t, [], h1, _, h => by
    exfalso
    have := scriptRead_ser o.spk (t.flatMap (fun o => scriptSer o.spk)) (h1 o (by simp))
    simp only [List.flatMap_cons, List.flatMap_nil] at h
    rw [h, scriptRead_nil] at this
    simp at this
  | o :: t, o' :: t', h1, h2, h => by
    have r1 := scriptRead_ser o.spk (t.flatMap (fun o => scriptSer o.spk)) (h1 o (by simp))
    have r2 := scriptRead_ser o'.spk (t'.flatMap (fun o => scriptSer o.spk)) (h2 o' (by simp))
    simp only [List.flatMap_cons] at h
    rw [h, r2] at r1
    simp only [Option.some.injEq, Prod.mk.injEq] at r1
    have ih := scripts_inj t t' (fun x hx => h1 x (by simp [hx])) (fun x hx => h2 x (by simp [hx])) r1.2.symm
    simp only [List.map_cons, r1.1, ih]

/-- for a collision-free hash, equal transaction seeds mean equal seed, outpoints and scripts — PROVIDED the two
    PSETs have the same number of inputs (the hashed data carries no counts, see `Props/C18Y.txseed_counts_not_bound`) -/
theorem txseed_inj (sha : Bytes → Bytes) (hinj : ∀ x y, sha x = sha y → x = y) (seed seed' : Bytes)
    (ins ins' : List BlindIn) (outs outs' : List BlindOut) (hs : seed.length = seed'.length)
    (hn : ins.length = ins'.length) (h1 : ∀ i ∈ ins, i.txid.length = 32) (h2 : ∀ i ∈ ins', i.txid.length = 32)
    (h3 : ∀ o ∈ outs, o.spk.length < 2^64) (h4 : ∀ o ∈ outs', o.spk.length < 2^64)
    (h : txseed sha seed ins outs = txseed sha seed' ins' outs') :
    seed = seed' ∧ ins.map (fun i => (i.txid, i.vout % 2^32)) = ins'.map (fun i => (i.txid, i.vout % 2^32))
      ∧ outs.map (·.spk) = outs'.map (·.spk) := by
  unfold txseed taggedHash at h
  have hd := List.append_cancel_left (hinj _ _ h)
  simp only [List.append_assoc] at hd
  obtain ⟨e1, e2⟩ := List.append_inj hd hs
  obtain ⟨e3, e4⟩ := outpoints_inj ins ins' _ _ hn h1 h2 e2
  exact ⟨e1, e3, scripts_inj outs outs' h3 h4 e4⟩

end SpecLink
end Embit
