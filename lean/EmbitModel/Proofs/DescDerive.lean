import EmbitModel.Model.Owns
/-
  Helper lemmas about `mapKeys` (the common body of `derive` / `branch` / `to_public`) for C12 and C14.
-/
namespace Embit.Model.Descriptor
open Embit Embit.Miniscript

variable {K : Type}

/-- induction principle for the nested type -/
theorem DMs.ind {P : DMs K → Prop}
    (key : ∀ f k, P (.key f k)) (time : ∀ f n, P (.time f n)) (hash : ∀ f h, P (.hash f h))
    (andor : ∀ x y z, P x → P y → P z → P (.andor x y z))
    (bin : ∀ f x y, P x → P y → P (.bin f x y))
    (thresh : ∀ k xs, (∀ x ∈ xs, P x) → P (.thresh k xs))
    (multi : ∀ f k keys, P (.multi f k keys))
    (wrap : ∀ w x, P x → P (.wrap w x)) : ∀ e, P e := by
  intro e
  exact DMs.rec (motive_1 := P) (motive_2 := fun xs => ∀ x ∈ xs, P x)
    key time hash (fun x y z => andor x y z) (fun f x y => bin f x y) (fun k xs => thresh k xs) multi
    (fun w x => wrap w x)
    (by intro x hx; cases hx)
    (by
      intro h t ph pt x hx
      cases hx with
      | head => exact ph
      | tail _ h' => exact pt x h')
    e

theorem mapOpt_some_all {α β : Type} {f : α → Option β} :
    ∀ {l : List α} {l' : List β}, mapOpt f l = some l' → ∀ x ∈ l, (f x).isSome = true := by
  intro l
  induction l with
  | nil => intro _ _ x hx; cases hx
  | cons a r ih =>
    intro l' h x hx
    unfold mapOpt at h
    cases ha : f a with
    | none => simp [ha] at h
    | some a' =>
      cases hr : mapOpt f r with
      | none => simp [ha, hr] at h
      | some r' =>
        cases hx with
        | head => simp [ha]
        | tail _ hm => exact ih hr x hm

theorem mapKeysL_some {f : KeyExpr K → Option (KeyExpr K)} :
    ∀ {xs : List (DMs K)} {l : List (DMs K)}, DMs.mapKeysL f xs = some l →
      ∀ x ∈ xs, (x.mapKeys f).isSome = true := by
  intro xs
  induction xs with
  | nil => intro _ _ x hx; cases hx
  | cons a r ih =>
    intro l h x hx
    unfold DMs.mapKeysL at h
    cases ha : a.mapKeys f with
    | none => simp [ha] at h
    | some a' =>
      cases hr : DMs.mapKeysL f r with
      | none => simp [ha, hr] at h
      | some r' =>
        cases hx with
        | head => simp [ha]
        | tail _ hm => exact ih hr x hm

theorem mem_keysL {xs : List (DMs K)} {k : KeyExpr K} (h : k ∈ DMs.keysL xs) : ∃ x ∈ xs, k ∈ x.keys := by
  induction xs with
  | nil => simp [DMs.keysL] at h
  | cons a r ih =>
    simp only [DMs.keysL, List.mem_append] at h
    cases h with
    | inl h1 => exact ⟨a, List.mem_cons_self, h1⟩
    | inr h2 =>
      obtain ⟨x, hx, hk⟩ := ih h2
      exact ⟨x, List.mem_cons_of_mem _ hx, hk⟩

/-- `mapKeys f` succeeds only if `f` succeeds on every key of the expression -/
theorem DMs.mapKeys_some_all (f : KeyExpr K → Option (KeyExpr K)) :
    ∀ (e : DMs K), (e.mapKeys f).isSome = true → ∀ k ∈ e.keys, (f k).isSome = true := by
  intro e
  induction e using DMs.ind with
  | key fr k =>
    intro h k' hk
    simp only [DMs.keys, List.mem_singleton] at hk
    subst hk
    simp only [DMs.mapKeys] at h
    cases hf : f k' with
    | none => simp [hf] at h
    | some _ => rfl
  | time _ _ => intro _ k hk; simp [DMs.keys] at hk
  | hash _ _ => intro _ k hk; simp [DMs.keys] at hk
  | andor x y z ihx ihy ihz =>
    intro h k hk
    simp only [DMs.mapKeys] at h
    cases hx : x.mapKeys f with
    | none => simp [hx] at h
    | some _ =>
      cases hy : y.mapKeys f with
      | none => simp [hx, hy] at h
      | some _ =>
        cases hz : z.mapKeys f with
        | none => simp [hx, hy, hz] at h
        | some _ =>
          simp only [DMs.keys, List.mem_append] at hk
          rcases hk with (hk | hk) | hk
          · exact ihx (by simp [hx]) k hk
          · exact ihy (by simp [hy]) k hk
          · exact ihz (by simp [hz]) k hk
  | bin fr x y ihx ihy =>
    intro h k hk
    simp only [DMs.mapKeys] at h
    cases hx : x.mapKeys f with
    | none => simp [hx] at h
    | some _ =>
      cases hy : y.mapKeys f with
      | none => simp [hx, hy] at h
      | some _ =>
        simp only [DMs.keys, List.mem_append] at hk
        rcases hk with hk | hk
        · exact ihx (by simp [hx]) k hk
        · exact ihy (by simp [hy]) k hk
  | thresh n xs ih =>
    intro h k hk
    simp only [DMs.mapKeys] at h
    cases hl : DMs.mapKeysL f xs with
    | none => simp [hl] at h
    | some l =>
      simp only [DMs.keys] at hk
      obtain ⟨x, hx, hkx⟩ := mem_keysL hk
      exact ih x hx (mapKeysL_some hl x hx) k hkx
  | multi fr n keys =>
    intro h k hk
    simp only [DMs.mapKeys] at h
    cases hl : mapOpt f keys with
    | none => simp [hl] at h
    | some l =>
      simp only [DMs.keys] at hk
      exact mapOpt_some_all hl k hk
  | wrap w x ih =>
    intro h k hk
    simp only [DMs.mapKeys] at h
    cases hx : x.mapKeys f with
    | none => simp [hx] at h
    | some _ => exact ih (by simp [hx]) k (by simpa [DMs.keys] using hk)

theorem TapTree.mapKeys_some_all (f : KeyExpr K → Option (KeyExpr K)) :
    ∀ (t : TapTree K), (t.mapKeys f).isSome = true → ∀ k ∈ t.keys, (f k).isSome = true := by
  intro t
  induction t with
  | empty => intro _ k hk; simp [TapTree.keys] at hk
  | leaf ms =>
    intro h k hk
    simp only [TapTree.mapKeys] at h
    cases hm : ms.mapKeys f with
    | none => simp [hm] at h
    | some _ => exact DMs.mapKeys_some_all f ms (by simp [hm]) k (by simpa [TapTree.keys] using hk)
  | node l r ihl ihr =>
    intro h k hk
    simp only [TapTree.mapKeys] at h
    cases hl : l.mapKeys f with
    | none => simp [hl] at h
    | some _ =>
      cases hr : r.mapKeys f with
      | none => simp [hl, hr] at h
      | some _ =>
        simp only [TapTree.keys, List.mem_append] at hk
        rcases hk with hk | hk
        · exact ihl (by simp [hl]) k hk
        · exact ihr (by simp [hr]) k hk

/-- a descriptor object has EITHER a miniscript OR a key (+ tap tree): what the parser and `derive` produce -/
def Desc.Shaped (d : Desc K) : Prop := d.miniscript = none ∨ (d.key = none ∧ d.taptree = .empty)

theorem Desc.mapKeys_some_all (f : KeyExpr K → Option (KeyExpr K)) (d : Desc K) (hs : d.Shaped)
    (h : (d.mapKeys f).isSome = true) : ∀ k ∈ d.keys, (f k).isSome = true := by
  intro k hk
  unfold Desc.mapKeys at h
  unfold Desc.keys at hk
  cases hm : d.miniscript with
  | some ms =>
    simp only [hm] at h hk
    cases hs with
    | inl h0 => rw [hm] at h0; cases h0
    | inr h1 =>
      simp only [h1.1, h1.2, TapTree.truthy] at hk
      cases hmm : ms.mapKeys f with
      | none => simp [hmm] at h
      | some _ => exact DMs.mapKeys_some_all f ms (by simp [hmm]) k (by simpa using hk)
  | none =>
    simp only [hm] at h hk
    cases hkey : d.key with
    | none => simp [hkey] at h
    | some k0 =>
      simp only [hkey] at h hk
      cases hf : f k0 with
      | none => simp [hf] at h
      | some _ =>
        cases ht : d.taptree.mapKeys f with
        | none => simp [hf, ht] at h
        | some _ =>
          split at hk
          · cases hk with
            | head => simp [hf]
            | tail _ hm' => exact TapTree.mapKeys_some_all f d.taptree (by simp [ht]) k hm'
          · simp only [List.mem_singleton] at hk
            subst hk
            simp [hf]

theorem KeyExpr.derive_hardened (ops : KeyOps K) (h : Hashes) (k : KeyExpr K) (ix : List Step)
    (hix : k.deriv = some ix) (i : Nat) (b : Option Nat) (hi : i ≥ 2 ^ 31) : k.derive ops h (some i) b = none := by
  unfold KeyExpr.derive
  simp only [hix]
  have : fill ix (some i) b = none := by
    unfold fill
    simp only
    rw [if_pos]
    simpa [HARDENED] using hi
  simp [this]

theorem deriveScript_hardened (ops : KeyOps K) (h : Hashes) (d : Desc K) (hs : d.Shaped)
    (k : KeyExpr K) (hk : k ∈ d.keys) (ix : List Step) (hix : k.deriv = some ix) (i b : Nat) (hi : i ≥ 2 ^ 31) :
    d.deriveScript ops h i b = none := by
  unfold Desc.deriveScript Desc.derive
  cases hd : d.mapKeys (fun k => k.derive ops h (some i) (some b)) with
  | none => rfl
  | some d' =>
    have := Desc.mapKeys_some_all (fun k => k.derive ops h (some i) (some b)) d hs (by rw [hd]; rfl) k hk
    simp only [KeyExpr.derive_hardened ops h k ix hix i (some b) hi] at this
    cases this

end Embit.Model.Descriptor
