import EmbitModel.Model.LiquidAddrB58
import EmbitModel.Proofs.Base58
import EmbitModel.Proofs.Base58Prefix
/-
  C18 (deepening): base58 Liquid addresses (`bp2sh` confidential, `p2sh` unconfidential) round trip through
  `address` / `addr_decode`. Two ingredients: Base58Check decode∘encode (C11, Proofs/Base58.lean) and the DISPATCH of
  `addr_decode` — the text of such an address must not look like a bech32 / blech32 address (`addr.split("1")[0].lower()`
  in the prefix tables) nor be `"Fee"`. The version bytes fix the two leading base-58 characters up to a small
  range (the number lies in `[V·256^m, (V+1)·256^m)`), and every pair in that range is checked by evaluation.
-/
set_option linter.unusedSimpArgs false
set_option linter.unusedVariables false
namespace Embit.Model.LAddr
open Embit Digits Model.Base58

/-! ### the two leading base-58 digits -/

theorem toLE_split (k : Nat) : ∀ n, n / 58 ^ k ≠ 0 →
    ∃ low : List Nat, low.length = k ∧ toLE 58 n = low ++ toLE 58 (n / 58 ^ k) := by
  induction k with
  | zero => intro n _; exact ⟨[], rfl, by simp⟩
  | succ k ih =>
    intro n h
    have hn : n ≠ 0 := by
      intro h0; subst h0; simp at h
    have hdiv : n / 58 / 58 ^ k = n / 58 ^ (k + 1) := by
      rw [Nat.div_div_eq_div_mul, Nat.pow_succ, Nat.mul_comm]
    obtain ⟨low, hl, hd⟩ := ih (n / 58) (by rw [hdiv]; exact h)
    refine ⟨n % 58 :: low, by simp [hl], ?_⟩
    rw [toLE_pos (by decide) hn, hd, hdiv]
    rfl

theorem toLE_two (T : Nat) (h1 : 58 ≤ T) (h2 : T < 58 ^ 2) : toLE 58 T = [T % 58, T / 58] := by
  have a1 : T ≠ 0 := by omega
  have a2 : T / 58 ≠ 0 := by omega
  have a3 : T / 58 / 58 = 0 := by omega
  rw [toLE_pos (by decide) a1, toLE_pos (by decide) a2, a3, toLE_zero]
  have : T / 58 % 58 = T / 58 := by omega
  rw [this]

/-- a byte string starting with a non-zero byte whose value has the two leading base-58 digits `T` -/
theorem encode_two (b : Bytes) (hh : ∀ x ∈ b.head?, x ≠ 0) (k T : Nat) (hT : ofBe b / 58 ^ k = T) (h1 : 58 ≤ T)
    (h2 : T < 58 ^ 2) : ∃ rest, encode b = digitChar (T / 58) :: digitChar (T % 58) :: rest := by
  have hne : ofBe b / 58 ^ k ≠ 0 := by rw [hT]; omega
  obtain ⟨low, _, hd⟩ := toLE_split k (ofBe b) hne
  have := encode_normal 0 b hh
  simp only [List.replicate_zero, List.nil_append] at this
  rw [this, hd, hT, toLE_two T h1 h2]
  exact ⟨low.reverse.map digitChar, by simp⟩

/-- all numbers `V·256^m + R`, `R < 256^m`, have their leading digits `N / 58^k` in `[lo, hi]` -/
theorem lead_range (V m k R : Nat) (hR : R < 256 ^ m) :
    V * 256 ^ m / 58 ^ k ≤ (V * 256 ^ m + R) / 58 ^ k
    ∧ (V * 256 ^ m + R) / 58 ^ k ≤ ((V + 1) * 256 ^ m - 1) / 58 ^ k := by
  constructor
  · apply Nat.div_le_div_right; omega
  · apply Nat.div_le_div_right
    have : (V + 1) * 256 ^ m = V * 256 ^ m + 256 ^ m := by rw [Nat.add_mul, Nat.one_mul]
    omega

/-! ### texts that `addr_decode` sends to the base58 branch -/

def allHrps : List (List Char) := blech32Hrps ++ bech32Hrps

/-- no text starting with `c1 c2` is `"Fee"` or has a bech32 / blech32 prefix before its first `'1'` -/
def safeStart (c1 c2 : Char) : Bool :=
  !(c1 == 'F' && c2 == 'e') &&
  (if c1 == '1' then true
   else if c2 == '1' then !(allHrps.contains [lowerChar c1])
   else allHrps.all (fun h => h.take 2 != [lowerChar c1, lowerChar c2]))

theorem allHrps_len : ∀ h ∈ allHrps, 2 ≤ h.length := by decide

theorem safeStart_spec (c1 c2 : Char) (rest : List Char) (h : safeStart c1 c2 = true) :
    c1 :: c2 :: rest ≠ ['F', 'e', 'e'] ∧ blech32Hrps.contains (hrpPart (c1 :: c2 :: rest)) = false
    ∧ bech32Hrps.contains (hrpPart (c1 :: c2 :: rest)) = false := by
  unfold safeStart at h
  simp only [Bool.and_eq_true, Bool.not_eq_true'] at h
  obtain ⟨hfee, hrest⟩ := h
  have hnot : ¬ allHrps.contains (hrpPart (c1 :: c2 :: rest)) = true := by
    intro hc
    have hmem : hrpPart (c1 :: c2 :: rest) ∈ allHrps := by simpa using hc
    by_cases e1 : c1 = '1'
    · subst e1
      have : hrpPart ('1' :: c2 :: rest) = [] := by simp [hrpPart]
      rw [this] at hmem
      exact absurd hmem (by decide)
    · have e1' : (c1 == '1') = false := by simpa using e1
      simp only [e1', Bool.false_eq_true, if_false] at hrest
      by_cases e2 : c2 = '1'
      · subst e2
        have : hrpPart (c1 :: '1' :: rest) = [lowerChar c1] := by simp [hrpPart, e1]
        rw [this] at hmem
        simp at hrest
        exact hrest hmem
      · have e2' : (c2 == '1') = false := by simpa using e2
        simp only [e2', Bool.false_eq_true, if_false] at hrest
        have : ∃ t, hrpPart (c1 :: c2 :: rest) = lowerChar c1 :: lowerChar c2 :: t := by
          simp [hrpPart, e1, e2]
        obtain ⟨t, ht⟩ := this
        rw [ht] at hmem
        rw [List.all_eq_true] at hrest
        have := hrest _ hmem
        simp at this
  refine ⟨?_, ?_, ?_⟩
  · intro e
    simp at e
    obtain ⟨a, b, _⟩ := e
    subst a; subst b
    simp at hfee
  · cases hb : blech32Hrps.contains (hrpPart (c1 :: c2 :: rest)) with
    | false => rfl
    | true =>
      exfalso; apply hnot
      simp only [allHrps, List.contains_eq_mem, List.mem_append, decide_eq_true_eq] at hb ⊢
      exact Or.inl (by simpa using hb)
  · cases hb : bech32Hrps.contains (hrpPart (c1 :: c2 :: rest)) with
    | false => rfl
    | true =>
      exfalso; apply hnot
      simp only [allHrps, List.contains_eq_mem, List.mem_append, decide_eq_true_eq] at hb ⊢
      exact Or.inr (by simpa using hb)

/-- the decidable test for a version prefix `V` (big-endian value of the prefix bytes) followed by `m` more bytes:
    the two leading base-58 digits of every such number spell a safe start -/
def prefixSafe (V m k : Nat) : Bool :=
  let lo := V * 256 ^ m / 58 ^ k
  let hi := ((V + 1) * 256 ^ m - 1) / 58 ^ k
  decide (58 ≤ lo) && decide (hi < 58 ^ 2) &&
  (List.range (hi + 1 - lo)).all (fun i => safeStart (digitChar ((lo + i) / 58)) (digitChar ((lo + i) % 58)))

/-- every Base58Check text of `pre ‖ body` (any body of `m - 4` bytes, any checksum function) goes to the base58
    branch of `addr_decode` -/
theorem route_base58_of_prefixSafe (dsha : Bytes → Bytes) (hd : ∀ b, 4 ≤ (dsha b).length) (pre body : Bytes)
    (c : UInt8) (r : Bytes) (hp : pre = c :: r) (hc : c ≠ 0) (m k : Nat) (hm : body.length + 4 = m)
    (hs : prefixSafe (ofBe pre) m k = true) :
    let addr := encodeCheck dsha (pre ++ body)
    addr ≠ ['F', 'e', 'e'] ∧ blech32Hrps.contains (hrpPart addr) = false
    ∧ bech32Hrps.contains (hrpPart addr) = false := by
  intro addr
  unfold prefixSafe at hs
  simp only [Bool.and_eq_true, decide_eq_true_eq, List.all_eq_true, List.mem_range] at hs
  obtain ⟨⟨hlo, hhi⟩, hall⟩ := hs
  let tail := body ++ (dsha (pre ++ body)).take 4
  have hlen : tail.length = m := by
    have := hd (pre ++ body); simp [tail, List.length_take]; omega
  have hN : ofBe (pre ++ body ++ (dsha (pre ++ body)).take 4) = ofBe pre * 256 ^ m + ofBe tail := by
    rw [List.append_assoc, Keys.B58.ofBe_append, hlen]
  have hR : ofBe tail < 256 ^ m := by
    have := Keys.ofBe_lt tail; rwa [hlen] at this
  obtain ⟨r1, r2⟩ := lead_range (ofBe pre) m k (ofBe tail) hR
  generalize hT : (ofBe pre * 256 ^ m + ofBe tail) / 58 ^ k = T at r1 r2
  have hsafe : safeStart (digitChar (T / 58)) (digitChar (T % 58)) = true := by
    have := hall (T - ofBe pre * 256 ^ m / 58 ^ k) (by omega)
    rwa [show ofBe pre * 256 ^ m / 58 ^ k + (T - ofBe pre * 256 ^ m / 58 ^ k) = T by omega] at this
  obtain ⟨rest, he⟩ := encode_two (pre ++ body ++ (dsha (pre ++ body)).take 4)
    (by rw [hp]; simpa using hc) k T (by rw [hN]; exact hT) (by omega) (by omega)
  have : addr = digitChar (T / 58) :: digitChar (T % 58) :: rest := he
  rw [this]
  exact safeStart_spec _ _ rest hsafe

/-! ### the table -/

/-- the number of base-58 digits below the two leading ones: confidential `bp2sh ‖ 33 ‖ 20 ‖ 4` has 80 digits,
    unconfidential `p2sh ‖ 20 ‖ 4` has 34 (35 for the version byte `0xc4`) -/
def leadKConf : Nat := 78
def leadKPlain (pre : Bytes) : Nat := if pre = [0xc4] then 33 else 32

def tableSafe : Bool :=
  nets.all fun n =>
    (match n.bp2sh with
     | some pre => pre.length == 2 && (match pre with | c :: _ => c != 0 | [] => false)
                   && prefixSafe (ofBe pre) 57 leadKConf
     | none => true)
    && n.p2sh.length == 1 && (match n.p2sh with | c :: _ => c != 0 | [] => false)
    && prefixSafe (ofBe n.p2sh) 24 (leadKPlain n.p2sh)
    && bp2shPrefixes.all (fun q => q.take 1 != n.p2sh)

set_option maxRecDepth 100000 in
theorem table_safe : tableSafe = true := by decide +kernel

theorem p2sh_last (h : Bytes) : ([0xa9, 0x14] ++ h ++ [0x87] : Bytes).getLast? = some 0x87 := by
  show (([0xa9, 0x14] ++ h) ++ [0x87] : Bytes).getLast? = some 0x87
  exact List.getLast?_concat ..

theorem take_append_len {α : Type} (a b : List α) (n : Nat) (h : a.length = n) : (a ++ b).take n = a := by
  subst h; simp
theorem drop_append_len {α : Type} (a b : List α) (n : Nat) (h : a.length = n) : (a ++ b).drop n = b := by
  subst h; simp

/-- confidential P2SH address → (script, blinding key), every network of the table that has a `bp2sh` prefix -/
theorem addrDecode_addressP2sh_conf (validSec : Bytes → Bool) (dsha : Bytes → Bytes) (hd : ∀ b, 4 ≤ (dsha b).length)
    (net : Net) (hn : net ∈ nets) (pre : Bytes) (hpre : net.bp2sh = some pre) (hash pub : Bytes)
    (hh : hash.length = 20) (hpl : pub.length = 33) (hv : validSec pub = true) :
    ∃ addr, addressP2sh dsha net ([0xa9, 0x14] ++ hash ++ [0x87]) (some pub) = some addr
      ∧ addrDecode validSec dsha addr = .base58 (some ([0xa9, 0x14] ++ hash ++ [0x87], some pub)) := by
  have ht := table_safe
  unfold tableSafe at ht
  rw [List.all_eq_true] at ht
  have hnet := ht net hn
  simp only [hpre, Bool.and_eq_true, beq_iff_eq] at hnet
  obtain ⟨⟨⟨⟨⟨⟨hl2, hc⟩, hsafe⟩, _⟩, _⟩, _⟩, _⟩ := hnet
  have hspk : isP2sh ([0xa9, 0x14] ++ hash ++ [0x87]) = true := by
    simp only [isP2sh, p2sh_last]; simp [hh]
  have hdata : (([0xa9, 0x14] ++ hash ++ [0x87] : Bytes).drop 2).dropLast = hash := by simp
  refine ⟨encodeCheck dsha (pre ++ pub ++ hash), ?_, ?_⟩
  · simp only [addressP2sh, hspk, hpre, hdata]
    simp
  · cases hp : pre with
    | nil => rw [hp] at hc; simp at hc
    | cons c r =>
      rw [hp] at hc hsafe hl2
      simp only [bne_iff_ne, ne_eq] at hc
      have hroute := route_base58_of_prefixSafe dsha hd (c :: r) (pub ++ hash) c r rfl hc 57 leadKConf
        (by simp [hh, hpl]) hsafe
      simp only [] at hroute
      obtain ⟨r1, r2, r3⟩ := hroute
      have hmem : bp2shPrefixes.contains (c :: r) = true := by
        simp only [bp2shPrefixes, List.contains_eq_mem, List.mem_filterMap, decide_eq_true_eq]
        exact ⟨net, hn, by rw [hpre, hp]⟩
      have e1 : (c :: r) ++ pub ++ hash = (c :: r) ++ (pub ++ hash) := by simp
      unfold addrDecode
      rw [e1, if_neg r1, r2, r3, decodeCheck_encodeCheck dsha hd]
      have t2 : ((c :: r) ++ (pub ++ hash)).take 2 = c :: r := take_append_len _ _ 2 hl2
      have d2 : ((c :: r) ++ (pub ++ hash)).drop 2 = pub ++ hash := drop_append_len _ _ 2 hl2
      have t33 : (pub ++ hash).take 33 = pub := take_append_len _ _ 33 hpl
      have d35 : ((c :: r) ++ (pub ++ hash)).drop 35 = hash := by
        rw [show 35 = 2 + 33 from rfl, ← List.drop_drop, d2, drop_append_len _ _ 33 hpl]
      simp only [Bool.false_eq_true, if_false, t2, hmem, if_true, d2, t33, hv, d35]

/-- unconfidential P2SH address → (script, no key), every network of the table -/
theorem addrDecode_addressP2sh_plain (validSec : Bytes → Bool) (dsha : Bytes → Bytes) (hd : ∀ b, 4 ≤ (dsha b).length)
    (net : Net) (hn : net ∈ nets) (hash : Bytes) (hh : hash.length = 20) :
    ∃ addr, addressP2sh dsha net ([0xa9, 0x14] ++ hash ++ [0x87]) none = some addr
      ∧ addrDecode validSec dsha addr = .base58 (some ([0xa9, 0x14] ++ hash ++ [0x87], none)) := by
  have ht := table_safe
  unfold tableSafe at ht
  rw [List.all_eq_true] at ht
  have hnet := ht net hn
  simp only [Bool.and_eq_true, beq_iff_eq] at hnet
  obtain ⟨⟨⟨⟨_, hl1⟩, hc⟩, hsafe⟩, hdis⟩ := hnet
  have hspk : isP2sh ([0xa9, 0x14] ++ hash ++ [0x87]) = true := by
    simp only [isP2sh, p2sh_last]; simp [hh]
  have hdata : (([0xa9, 0x14] ++ hash ++ [0x87] : Bytes).drop 2).dropLast = hash := by simp
  refine ⟨encodeCheck dsha (net.p2sh ++ hash), ?_, ?_⟩
  · simp only [addressP2sh, hspk, hdata]
    simp
  · cases hp : net.p2sh with
    | nil => rw [hp] at hc; simp at hc
    | cons c r =>
      rw [hp] at hc hsafe hl1
      simp only [bne_iff_ne, ne_eq] at hc
      have hroute := route_base58_of_prefixSafe dsha hd (c :: r) hash c r rfl hc 24 (leadKPlain (c :: r))
        (by simp [hh]) hsafe
      simp only [] at hroute
      obtain ⟨r1, r2, r3⟩ := hroute
      have hmem : p2shPrefixes.contains (c :: r) = true := by
        simp only [p2shPrefixes, List.contains_eq_mem, List.mem_map, decide_eq_true_eq]
        exact ⟨net, hn, hp⟩
      -- a one-byte prefix followed by a 20-byte hash never starts with a `bp2sh` prefix? it may (0x0c27…) — the
      -- decoder looks at `data[:2]` first
      have hnb : bp2shPrefixes.contains (((c :: r) ++ hash).take 2) = false := by
        cases hb : bp2shPrefixes.contains (((c :: r) ++ hash).take 2) with
        | false => rfl
        | true =>
          exfalso
          have hm : ((c :: r) ++ hash).take 2 ∈ bp2shPrefixes := by simpa using hb
          rw [List.all_eq_true] at hdis
          have := hdis _ hm
          rw [hp, List.take_take] at this
          simp only [Nat.min_def] at this
          have t1 : ((c :: r) ++ hash).take 1 = c :: r := take_append_len _ _ 1 hl1
          simp [t1] at this
          have hr : r = [] := by simpa using hl1
          exact this hr
      unfold addrDecode
      rw [if_neg r1, r2, r3, decodeCheck_encodeCheck dsha hd]
      have t1 : ((c :: r) ++ hash).take 1 = c :: r := take_append_len _ _ 1 hl1
      have d1 : ((c :: r) ++ hash).drop 1 = hash := drop_append_len _ _ 1 hl1
      simp only [Bool.false_eq_true, if_false, hnb, t1, hmem, if_true, d1]

/-- what the base58 branch accepts is the Base58Check text of the payload it splits (any checksum function) -/
theorem addrDecode_base58_sound (validSec : Bytes → Bool) (dsha : Bytes → Bytes) (addr : List Char) (sc : Bytes)
    (k : Option Bytes) (h : addrDecode validSec dsha addr = .base58 (some (sc, k))) :
    ∃ data, addr = encodeCheck dsha data
      ∧ ((bp2shPrefixes.contains (data.take 2) = true ∧ k = some ((data.drop 2).take 33)
            ∧ validSec ((data.drop 2).take 33) = true ∧ sc = [0xa9, 0x14] ++ data.drop 35 ++ [0x87])
         ∨ (bp2shPrefixes.contains (data.take 2) = false ∧ p2shPrefixes.contains (data.take 1) = true ∧ k = none
            ∧ sc = [0xa9, 0x14] ++ data.drop 1 ++ [0x87])) := by
  unfold addrDecode at h
  split at h
  · simp at h
  · split at h
    · simp at h
    · split at h
      · simp at h
      · split at h
        · simp at h
        · rename_i data hdc
          refine ⟨data, decodeCheck_sound dsha addr data hdc, ?_⟩
          split at h
          · rename_i hb
            simp only [] at h
            split at h
            · rename_i hv
              simp only [Route.base58.injEq, Option.some.injEq, Prod.mk.injEq] at h
              exact Or.inl ⟨hb, h.2.symm, hv, h.1.symm⟩
            · simp at h
          · rename_i hb
            split at h
            · rename_i hp
              simp only [Route.base58.injEq, Option.some.injEq, Prod.mk.injEq] at h
              exact Or.inr ⟨by simpa using hb, hp, h.2.symm, h.1.symm⟩
            · simp at h

end Embit.Model.LAddr
