import EmbitModel.Proofs.PyCurveMul
import EmbitModel.Proofs.PyCurveJacobi
/-
  `on_curve`, `is_x_coord`, `lift_x` and the two branches of `ECPubKey.set` against the curve `W C`:
  membership is decided, the root selected is the even one, exactly the squares are accepted.
  `Smooth C` (odd `p`, non-zero discriminant — decidable facts) makes every point of the curve nonsingular, i.e. an
  element of Mathlib's group.
-/
namespace Embit.Model.PyCurve
open WeierstrassCurve WeierstrassCurve.Jacobian NumberTheorySymbols

variable (C : Curve) [Fact C.p.Prime]

/-- odd characteristic and non-zero discriminant `-16(4a³ + 27b²)` -/
structure Smooth : Prop where
  odd : C.p ≠ 2
  disc : (4 * C.a ^ 3 + 27 * C.b ^ 2) % (C.p : ℤ) ≠ 0

theorem two_ne_zero' (hs : Smooth C) : (2 : ZMod C.p) ≠ 0 := by
  have hp : C.p.Prime := Fact.out
  intro h
  have h2 : ((2 : ℕ) : ZMod C.p) = 0 := by exact_mod_cast h
  rw [ZMod.natCast_eq_zero_iff] at h2
  exact hs.odd ((Nat.prime_dvd_prime_iff_eq hp Nat.prime_two).mp h2)

theorem isElliptic (hs : Smooth C) : WeierstrassCurve.IsElliptic (W C) := by
  constructor
  apply Ne.isUnit
  have hΔ : (W C).Δ = -16 * (4 * (C.a : ZMod C.p) ^ 3 + 27 * (C.b : ZMod C.p) ^ 2) := by
    simp only [WeierstrassCurve.Δ, WeierstrassCurve.b₂, WeierstrassCurve.b₄, WeierstrassCurve.b₆,
      WeierstrassCurve.b₈, W, Wab]
    ring
  rw [hΔ]
  have h2 := two_ne_zero' C hs
  have h16 : (-16 : ZMod C.p) ≠ 0 := by
    have : (-16 : ZMod C.p) = -(2 ^ 4) := by norm_num
    rw [this]
    exact neg_ne_zero.mpr (pow_ne_zero 4 h2)
  refine mul_ne_zero h16 ?_
  intro h
  apply hs.disc
  have : (((4 * C.a ^ 3 + 27 * C.b ^ 2 : ℤ)) : ZMod C.p) = 0 := by push_cast; exact h
  rw [ZMod.intCast_zmod_eq_zero_iff_dvd] at this
  exact Int.emod_eq_zero_of_dvd this

/-- on a smooth curve every finite solution of the equation is a nonsingular point -/
theorem nonsingular_of_eqn (hs : Smooth C) {P : Fin 3 → ZMod C.p} (hz : P 2 ≠ 0) (h : (W C).Equation P) :
    (W C).Nonsingular P := by
  have := isElliptic C hs
  rw [nonsingular_of_Z_ne_zero hz]
  rw [equation_of_Z_ne_zero hz] at h
  exact Affine.equation_iff_nonsingular.mp h

/-! ### `on_curve` -/

/-- **`on_curve` decides membership**: finite (`z1 != 0` as integers) and on the projective curve -/
theorem onCurve_iff (x y z : ℤ) :
    onCurve C (x, y, z) = true ↔ z ≠ 0 ∧
      (y : ZMod C.p) ^ 2 = (x : ZMod C.p) ^ 3 + (C.a : ZMod C.p) * x * (z : ZMod C.p) ^ 4 + (C.b : ZMod C.p) * (z : ZMod C.p) ^ 6 := by
  simp only [onCurve, Bool.and_eq_true, bne_iff_ne, ne_eq, beq_iff_eq]
  apply and_congr Iff.rfl
  rw [← Int.dvd_iff_emod_eq_zero, ← ZMod.intCast_zmod_eq_zero_iff_dvd]
  push_cast [powMod_cast]
  constructor <;> intro h <;> linear_combination (-1 : ZMod C.p) * h

theorem valid_of_onCurve (hs : Smooth C) {P : JPt} (hr : Red C P) (h : onCurve C P = true) : Valid C P := by
  obtain ⟨x, y, z⟩ := P
  obtain ⟨hz, he⟩ := (onCurve_iff C x y z).mp h
  refine ⟨hr, Or.inr ?_⟩
  apply nonsingular_of_eqn C hs (toF_z_ne C hr hz)
  exact (eqn_short _ _ _ _ _).mpr he

theorem onCurve_of_valid {P : JPt} (hv : Valid C P) (hz : P.2.2 ≠ 0) : onCurve C P = true := by
  obtain ⟨x, y, z⟩ := P
  exact (onCurve_iff C x y z).mpr ⟨hz, hv.eqn C hz⟩

/-- a reduced affine pair is a valid tuple iff `on_curve` accepts it -/
theorem valid_affine_iff (hs : Smooth C) (x y : ℤ) (hx : 0 ≤ x ∧ x < C.p) (hy : 0 ≤ y ∧ y < C.p) :
    Valid C (x, y, 1) ↔ onCurve C (x, y, 1) = true :=
  ⟨fun hv => onCurve_of_valid C hv one_ne_zero,
   valid_of_onCurve C hs ⟨hx, hy, ⟨show (0 : ℤ) ≤ 1 by norm_num, show (1 : ℤ) < C.p by exact_mod_cast p_gt_one C⟩⟩⟩

/-- the affine equation `y² = x³ + a x + b` of a valid tuple with `z = 1` -/
theorem Valid.affine_eqn {x y : ℤ} (hv : Valid C (x, y, 1)) :
    (y : ZMod C.p) ^ 2 = (x : ZMod C.p) ^ 3 + (C.a : ZMod C.p) * x + (C.b : ZMod C.p) := by
  have := hv.eqn C one_ne_zero
  simpa using this

theorem valid_affine_of_eqn (hs : Smooth C) {x y : ℤ} (hx : 0 ≤ x ∧ x < C.p) (hy : 0 ≤ y ∧ y < C.p)
    (h : (y : ZMod C.p) ^ 2 = (x : ZMod C.p) ^ 3 + (C.a : ZMod C.p) * x + (C.b : ZMod C.p)) : Valid C (x, y, 1) := by
  apply (valid_affine_iff C hs x y hx hy).mpr
  apply (onCurve_iff C x y 1).mpr
  exact ⟨one_ne_zero, by simpa using h⟩

/-! ### `is_x_coord` -/

/-- the right-hand side `x³ + a x + b` as the code forms it -/
theorem rhs_cast (x : ℤ) : (((powMod x 3 C.p + C.a * x + C.b : ℤ)) : ZMod C.p) =
    (x : ZMod C.p) ^ 3 + (C.a : ZMod C.p) * x + (C.b : ZMod C.p) := by
  push_cast [powMod_cast]; ring

/-- **`is_x_coord(x)` decides whether `x³ + a x + b` is a square** (p an odd prime) -/
theorem isXCoord_eq (hodd : C.p % 2 = 1) (x : ℤ) :
    isXCoord C x = some (decide (IsSquare ((x : ZMod C.p) ^ 3 + (C.a : ZMod C.p) * x + (C.b : ZMod C.p)))) := by
  unfold isXCoord
  simp only
  rw [jacobiSymbol_eq _ _ (p_pos C) hodd]
  simp only [Option.some.injEq]
  have h := ZMod.nonsquare_iff_jacobiSym_eq_neg_one (a := powMod x 3 C.p + C.a * x + C.b) (p := C.p)
  rw [rhs_cast] at h
  by_cases hsq : IsSquare ((x : ZMod C.p) ^ 3 + (C.a : ZMod C.p) * x + (C.b : ZMod C.p))
  · have : J(powMod x 3 C.p + C.a * x + C.b | C.p) ≠ -1 := fun hh => (h.mp hh) hsq
    simp [hsq, this]
  · have : J(powMod x 3 C.p + C.a * x + C.b | C.p) = -1 := h.mpr hsq
    simp [hsq, this]

/-! ### `lift_x` -/

section lift
variable (hs : Smooth C) (h3 : C.p % 4 = 3)
include hs h3

/-- **what `lift_x` returns**: the point with that `x` and the EVEN root, a valid tuple -/
theorem liftX_sound (x : ℤ) (hx : 0 ≤ x ∧ x < C.p) (P : JPt) (h : liftX C x = some (some P)) :
    ∃ y : ℤ, P = (x, y, 1) ∧ y % 2 = 0 ∧ Valid C P := by
  unfold liftX at h
  simp only at h
  cases hm : modsqrt (powMod x 3 C.p + C.a * x + C.b) C.p with
  | none => rw [hm] at h; cases h
  | some r =>
    cases r with
    | none => rw [hm] at h; cases h
    | some y0 =>
      rw [hm] at h
      simp only [Option.some.injEq] at h
      obtain ⟨y00, y0p, hy0⟩ := modsqrt_sound C.p _ y0 hm
      rw [rhs_cast] at hy0
      have hpodd : (C.p : ℤ) % 2 = 1 := by omega
      by_cases ho : y0 % 2 = 1
      · rw [if_pos ho] at h
        refine ⟨(C.p : ℤ) - y0, h.symm, by omega, ?_⟩
        rw [← h]
        apply valid_affine_of_eqn C hs hx ⟨by omega, by omega⟩
        rw [← hy0]; push_cast; simp
      · rw [if_neg ho] at h
        refine ⟨y0, h.symm, by omega, ?_⟩
        rw [← h]
        exact valid_affine_of_eqn C hs hx ⟨y00, y0p⟩ hy0

omit hs in
/-- **`lift_x` finds every even-`y` point**: if `(x, y, 1)` is on the curve with `y` even, `lift_x(x)` is it -/
theorem liftX_complete (x y : ℤ) (hv : Valid C (x, y, 1)) (hy : y % 2 = 0) : liftX C x = some (some (x, y, 1)) := by
  have he := hv.affine_eqn C
  have hyr : 0 ≤ y ∧ y < C.p := hv.red.2.1
  have hsq : IsSquare (((powMod x 3 C.p + C.a * x + C.b : ℤ)) : ZMod C.p) := by
    rw [rhs_cast, ← he]; exact ⟨(y : ZMod C.p), by ring⟩
  obtain ⟨y0, hm⟩ := modsqrt_complete C.p h3 _ hsq
  obtain ⟨y00, y0p, hy0⟩ := modsqrt_sound C.p _ y0 hm
  rw [rhs_cast, ← he] at hy0
  unfold liftX
  simp only [hm]
  have hpodd : (C.p : ℤ) % 2 = 1 := by omega
  have hfac : ((y0 : ZMod C.p) - y) * ((y0 : ZMod C.p) + y) = 0 := by linear_combination hy0
  rcases mul_eq_zero.mp hfac with h | h
  · have : y0 = y := eq_of_cast_eq y00 y0p hyr.1 hyr.2 (sub_eq_zero.mp h)
    subst this
    rw [if_neg (by omega)]
  · by_cases hy0' : y = 0
    · subst hy0'
      have : y0 = 0 := eq_of_cast_eq y00 y0p le_rfl (by omega) (by simpa using h)
      subst this
      simp
    · have : y0 = (C.p : ℤ) - y := by
        apply eq_of_cast_eq y00 y0p (by omega) (by omega)
        push_cast
        simp only [CharP.cast_eq_zero, zero_sub]
        exact eq_neg_of_add_eq_zero_left h
      subst this
      rw [if_pos (by omega)]
      simp

omit hs in
/-- `lift_x` answers `None` when `x³ + a x + b` is not a square -/
theorem liftX_nonsquare (x : ℤ)
    (hn : ¬ IsSquare ((x : ZMod C.p) ^ 3 + (C.a : ZMod C.p) * x + (C.b : ZMod C.p))) : liftX C x = some none := by
  unfold liftX
  simp only
  rw [modsqrt_nonsquare C.p h3 _ (by rw [rhs_cast]; exact hn)]

/-- `lift_x` never raises and never answers `None` on a square -/
theorem liftX_square (x : ℤ) (hx : 0 ≤ x ∧ x < C.p)
    (hsq : IsSquare ((x : ZMod C.p) ^ 3 + (C.a : ZMod C.p) * x + (C.b : ZMod C.p))) :
    ∃ y : ℤ, liftX C x = some (some (x, y, 1)) ∧ y % 2 = 0 ∧ Valid C (x, y, 1) := by
  obtain ⟨y0, hm⟩ := modsqrt_complete C.p h3 (powMod x 3 C.p + C.a * x + C.b) (by rw [rhs_cast]; exact hsq)
  have hl : ∃ P, liftX C x = some (some P) := by
    unfold liftX; simp only [hm]; exact ⟨_, rfl⟩
  obtain ⟨P, hP⟩ := hl
  obtain ⟨y, rfl, hy, hv⟩ := liftX_sound C hs h3 x hx P hP
  exact ⟨y, hP, hy, hv⟩

end lift

/-! ### `ECPubKey.set` -/

/-- the uncompressed branch accepts exactly the reduced pairs on the curve and stores `(x, y, 1)` -/
theorem setUncompressed_iff (hs : Smooth C) (x y : ℕ) (P : JPt) :
    setUncompressed C x y = some P ↔ P = ((x : ℤ), (y : ℤ), 1) ∧ x < C.p ∧ y < C.p ∧ Valid C P := by
  unfold setUncompressed
  constructor
  · intro h
    split at h
    · rename_i hc
      simp only [Option.some.injEq] at h
      subst h
      refine ⟨rfl, hc.1, hc.2.1, ?_⟩
      exact (valid_affine_iff C hs x y ⟨by positivity, by exact_mod_cast hc.1⟩ ⟨by positivity, by exact_mod_cast hc.2.1⟩).mpr hc.2.2
    · cases h
  · rintro ⟨rfl, hx, hy, hv⟩
    rw [if_pos ⟨hx, hy, onCurve_of_valid C hv one_ne_zero⟩]

/-- the compressed branch: never raises; accepts exactly the `x < p` with `x³ + a x + b` a square and stores the
    point with the demanded parity of `y` -/
theorem setCompressed_spec (hs : Smooth C) (h3 : C.p % 4 = 3) (odd : Bool) (x : ℕ) :
    (x < C.p ∧ IsSquare (((x : ℤ) : ZMod C.p) ^ 3 + (C.a : ZMod C.p) * ((x : ℤ) : ZMod C.p) + (C.b : ZMod C.p)) →
      ∃ y : ℤ, liftX C x = some (some ((x : ℤ), y, 1)) ∧ y % 2 = 0 ∧ Valid C ((x : ℤ), y, 1) ∧
        setCompressed C odd x = some (some (if odd then negate C ((x : ℤ), y, 1) else ((x : ℤ), y, 1)))) ∧
    (¬ (x < C.p ∧ IsSquare (((x : ℤ) : ZMod C.p) ^ 3 + (C.a : ZMod C.p) * ((x : ℤ) : ZMod C.p) + (C.b : ZMod C.p))) →
      setCompressed C odd x = some none) := by
  have hodd : C.p % 2 = 1 := by omega
  constructor
  · rintro ⟨hx, hsq⟩
    obtain ⟨y, hl, hy, hv⟩ := liftX_square C hs h3 x ⟨by positivity, by exact_mod_cast hx⟩ hsq
    refine ⟨y, hl, hy, hv, ?_⟩
    unfold setCompressed
    rw [if_pos hx, isXCoord_eq C hodd]
    simp only [hsq, decide_true, hl]
  · intro hn
    unfold setCompressed
    by_cases hx : x < C.p
    · rw [if_pos hx, isXCoord_eq C hodd]
      have : ¬ IsSquare (((x : ℤ) : ZMod C.p) ^ 3 + (C.a : ZMod C.p) * ((x : ℤ) : ZMod C.p) + (C.b : ZMod C.p)) :=
        fun h => hn ⟨hx, h⟩
      simp only [this, decide_false]
    · rw [if_neg hx]

end Embit.Model.PyCurve
