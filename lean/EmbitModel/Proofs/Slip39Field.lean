import Mathlib.Algebra.Field.Defs
import EmbitModel.Proofs.Slip39MulTable0
import EmbitModel.Proofs.Slip39MulTable1
import EmbitModel.Proofs.Slip39MulTable2
import EmbitModel.Proofs.Slip39MulTable3
import EmbitModel.Proofs.Slip39InvTable
/-
  GF(256) as a Mathlib `Field`: carrier = numbers below 256, addition = XOR, multiplication = the spec's
  carry-less multiplication modulo x^8+x^4+x^3+x+1 (= multiplication through embit's exp/log tables).
  Group laws come from the tables (Z/255 transported by exp/log), distributivity from the XOR-linearity of
  carry-less multiplication (structural, no case enumeration).
-/
namespace Embit.Model.Slip39
open Embit.Spec.Slip39 (gfMul clmul xtime)

theorem mulL_eq_gfMul (a b : Nat) (ha : a < 256) (hb : b < 256) : mulL a b = gfMul a b := by
  have h : a / 64 = 0 ∨ a / 64 = 1 ∨ a / 64 = 2 ∨ a / 64 = 3 := by omega
  have hm : a % 64 < 64 := Nat.mod_lt _ (by decide)
  rcases h with h | h | h | h
  · have := mulL_eq_gfMul_q0 (a % 64) hm b hb; rwa [show 0 + a % 64 = a by omega] at this
  · have := mulL_eq_gfMul_q1 (a % 64) hm b hb; rwa [show 64 + a % 64 = a by omega] at this
  · have := mulL_eq_gfMul_q2 (a % 64) hm b hb; rwa [show 128 + a % 64 = a by omega] at this
  · have := mulL_eq_gfMul_q3 (a % 64) hm b hb; rwa [show 192 + a % 64 = a by omega] at this

/-! ### laws of table multiplication -/

theorem mulL_comm (a b : Nat) : mulL a b = mulL b a := by
  unfold mulL; simp only [Nat.add_comm, Or.comm]

theorem mulL_zero_left (b : Nat) : mulL 0 b = 0 := by simp [mulL]
theorem mulL_zero_right (a : Nat) : mulL a 0 = 0 := by simp [mulL]

theorem mulL_nz {a b : Nat} (ha : a ≠ 0) (hb : b ≠ 0) : mulL a b = expL ((logL a + logL b) % 255) := by
  simp [mulL, ha, hb]

theorem mulL_pos {a b : Nat} (ha : a ≠ 0) (hb : b ≠ 0) : mulL a b ≠ 0 := by
  rw [mulL_nz ha hb]
  have := (expL_facts _ (Nat.mod_lt (logL a + logL b) (by decide))).1
  omega

theorem mulL_lt (a b : Nat) : mulL a b < 256 := by
  unfold mulL
  split
  · decide
  · exact (expL_facts _ (Nat.mod_lt _ (by decide))).2.1

theorem logL_mulL {a b : Nat} (ha : a ≠ 0) (hb : b ≠ 0) : logL (mulL a b) = (logL a + logL b) % 255 := by
  rw [mulL_nz ha hb]
  exact (expL_facts _ (Nat.mod_lt _ (by decide))).2.2

theorem mulL_assoc (a b c : Nat) : mulL (mulL a b) c = mulL a (mulL b c) := by
  by_cases ha : a = 0
  · simp [ha, mulL_zero_left]
  by_cases hb : b = 0
  · simp [hb, mulL_zero_left, mulL_zero_right]
  by_cases hc : c = 0
  · simp [hc, mulL_zero_right]
  rw [mulL_nz (mulL_pos ha hb) hc, mulL_nz ha (mulL_pos hb hc), logL_mulL ha hb, logL_mulL hb hc]
  congr 1
  omega

theorem logL_one : logL 1 = 0 := by decide +kernel

theorem mulL_one (a : Nat) (ha : a < 256) : mulL a 1 = a := by
  by_cases h0 : a = 0
  · simp [h0, mulL_zero_left]
  rw [mulL_nz h0 (by decide), logL_one, Nat.add_zero]
  have := logL_facts a ha h0
  rw [Nat.mod_eq_of_lt this.1]; exact this.2


theorem invL_lt (a : Nat) : invL a < 256 := by
  unfold invL; split
  · decide
  · exact (expL_facts _ (Nat.mod_lt _ (by decide))).2.1

theorem invL_ne_zero {a : Nat} (ha : a ≠ 0) : invL a ≠ 0 := by
  simp only [invL, ha, if_false]
  have := (expL_facts _ (Nat.mod_lt (255 - logL a) (by decide))).1
  omega

theorem mulL_invL {a : Nat} (ha : a ≠ 0) (hlt : a < 256) : mulL a (invL a) = 1 := by
  rw [mulL_nz ha (invL_ne_zero ha)]
  have hl := (logL_facts a hlt ha).1
  have : logL (invL a) = (255 - logL a) % 255 := by
    simp only [invL, ha, if_false]
    exact (expL_facts _ (Nat.mod_lt _ (by decide))).2.2
  rw [this]
  have : (logL a + (255 - logL a) % 255) % 255 = 0 := by omega
  rw [this, expL_zero]

/-! ### XOR-linearity of carry-less multiplication in its first argument (structural) -/

theorem xtime_xor (m poly a b : Nat) : xtime m poly (a ^^^ b) = xtime m poly a ^^^ xtime m poly b := by
  unfold xtime
  simp only [Nat.shiftLeft_xor_distrib, Nat.testBit_xor]
  cases h1 : (a <<< 1).testBit m <;> cases h2 : (b <<< 1).testBit m <;> simp
  · ac_rfl
  · ac_rfl
  · rw [show a <<< 1 ^^^ poly ^^^ (b <<< 1 ^^^ poly) = a <<< 1 ^^^ b <<< 1 ^^^ (poly ^^^ poly) by ac_rfl]
    simp

theorem clmul_xor (m poly n a b c : Nat) :
    clmul m poly n (a ^^^ b) c = clmul m poly n a c ^^^ clmul m poly n b c := by
  induction n generalizing a b c with
  | zero => simp [clmul]
  | succ n ih =>
    simp only [clmul, xtime_xor, ih]
    cases c.testBit 0 <;> simp
    · ac_rfl

theorem gfMul_xor_left (a b c : Nat) : gfMul (a ^^^ b) c = gfMul a c ^^^ gfMul b c := clmul_xor _ _ _ _ _ _

theorem xor_lt_256 {a b : Nat} (ha : a < 256) (hb : b < 256) : a ^^^ b < 256 :=
  Nat.xor_lt_two_pow (n := 8) ha hb

theorem mulL_xor_left (a b c : Nat) (ha : a < 256) (hb : b < 256) (hc : c < 256) :
    mulL (a ^^^ b) c = mulL a c ^^^ mulL b c := by
  rw [mulL_eq_gfMul _ _ (xor_lt_256 ha hb) hc, mulL_eq_gfMul _ _ ha hc, mulL_eq_gfMul _ _ hb hc, gfMul_xor_left]

/-! ### the field -/

@[ext] structure GF256 where
  val : Nat
  lt : val < 256

namespace GF256

instance : DecidableEq GF256 := fun a b =>
  if h : a.val = b.val then isTrue (GF256.ext h) else isFalse (fun e => h (e ▸ rfl))

def ofNat (n : Nat) : GF256 := ⟨n % 256, Nat.mod_lt _ (by decide)⟩

instance : Add GF256 := ⟨fun a b => ⟨a.val ^^^ b.val, xor_lt_256 a.lt b.lt⟩⟩
instance : Zero GF256 := ⟨⟨0, by decide⟩⟩
instance : One GF256 := ⟨⟨1, by decide⟩⟩
instance : Neg GF256 := ⟨fun a => a⟩
instance : Mul GF256 := ⟨fun a b => ⟨mulL a.val b.val, mulL_lt _ _⟩⟩
instance : Inv GF256 := ⟨fun a => ⟨invL a.val, invL_lt _⟩⟩

@[simp] theorem add_val (a b : GF256) : (a + b).val = a.val ^^^ b.val := rfl
@[simp] theorem mul_val (a b : GF256) : (a * b).val = mulL a.val b.val := rfl
@[simp] theorem zero_val : (0 : GF256).val = 0 := rfl
@[simp] theorem one_val : (1 : GF256).val = 1 := rfl
@[simp] theorem neg_eq (a : GF256) : -a = a := rfl
@[simp] theorem inv_val (a : GF256) : (a⁻¹).val = invL a.val := rfl

instance instField : Field GF256 where
  add_assoc a b c := by ext; simp [Nat.xor_assoc]
  zero_add a := by ext; simp
  add_zero a := by ext; simp
  nsmul := nsmulRec
  zsmul := zsmulRec
  neg_add_cancel a := by ext; simp
  add_comm a b := by ext; simp [Nat.xor_comm]
  mul_assoc a b c := by ext; simp [mulL_assoc]
  one_mul a := by ext; simp; rw [mulL_comm]; exact mulL_one _ a.lt
  mul_one a := by ext; simp; exact mulL_one _ a.lt
  zero_mul a := by ext; simp [mulL_zero_left]
  mul_zero a := by ext; simp [mulL_zero_right]
  left_distrib a b c := by
    ext; simp
    rw [mulL_comm, mulL_xor_left _ _ _ b.lt c.lt a.lt, mulL_comm b.val, mulL_comm c.val]
  right_distrib a b c := by ext; simp; exact mulL_xor_left _ _ _ a.lt b.lt c.lt
  mul_comm a b := by ext; simp [mulL_comm]
  exists_pair_ne := ⟨0, 1, by intro h; have := congrArg GF256.val h; simp at this⟩
  mul_inv_cancel a ha := by
    ext; simp
    apply mulL_invL _ a.lt
    intro h; apply ha; ext; simpa using h
  inv_zero := by ext; simp [invL]
  nnqsmul := _
  nnqsmul_def := fun _ _ => rfl
  qsmul := _
  qsmul_def := fun _ _ => rfl

theorem sub_eq_add (a b : GF256) : a - b = a + b := by
  rw [sub_eq_add_neg]; rfl

end GF256

end Embit.Model.Slip39
