import EmbitModel.Proofs.View
import EmbitModel.Proofs.PsbtLossless
import EmbitModel.Props.C04
/-
  C05 helper lemmas for the composed refinement theorem (Props/C05X.lean): the global scan of the streaming
  view over a framed global scope, scope offsets, per-scope reads, the v2 transaction fields, and the
  decomposition `PSBT.parse` performs (with every equation the composition needs).
-/
set_option linter.unusedSimpArgs false
set_option linter.unusedVariables false
namespace Embit
open Model Spec.Wire

/-! ### "last match wins" folds (what a streaming scan remembers about a key) -/

/-- value remembered for `key` after walking over `g` when every occurrence overwrites the previous one -/
def lastFold {α : Type} (key : Bytes) (f : Bytes → Option α) (a : Option α) (g : List KV) : Option α :=
  g.foldl (fun a kv => if kv.1 = key then f kv.2 else a) a

theorem lastFold_nil {α : Type} (key : Bytes) (f : Bytes → Option α) (a : Option α) :
    lastFold key f a [] = a := rfl

theorem lastFold_cons {α : Type} (key : Bytes) (f : Bytes → Option α) (a : Option α) (kv : KV) (g : List KV) :
    lastFold key f a (kv :: g) = lastFold key f (if kv.1 = key then f kv.2 else a) g := rfl

theorem lastFold_append {α : Type} (key : Bytes) (f : Bytes → Option α) (a : Option α) (g1 g2 : List KV) :
    lastFold key f a (g1 ++ g2) = lastFold key f (lastFold key f a g1) g2 := by
  simp [lastFold, List.foldl_append]

/-- characterisation: if every occurrence of the key carries (something that maps to) `x`, and `x` is the initial
    value when the key does not occur, the fold is `x` -/
theorem lastFold_char {α : Type} (key : Bytes) (f : Bytes → Option α) (x : Option α) :
    ∀ (g : List KV) (a : Option α), (∀ kv ∈ g, kv.1 = key → f kv.2 = x) → ((∀ kv ∈ g, kv.1 ≠ key) → a = x) →
      lastFold key f a g = x := by
  intro g
  induction g with
  | nil => intro a _ h; exact h (by simp)
  | cons kv g ih =>
    intro a h1 h2
    rw [lastFold_cons]
    apply ih
    · intro x hx; exact h1 x (by simp [hx])
    · intro hno
      by_cases hk : kv.1 = key
      · simp only [hk, if_true]; exact h1 kv (by simp) hk
      · simp only [hk, if_false]
        apply h2
        intro y hy; simp at hy
        rcases hy with rfl | hy
        · exact hk
        · exact hno y hy

theorem lastFold_absent {α : Type} (key : Bytes) (f : Bytes → Option α) (a : Option α) (g : List KV)
    (h : ∀ kv ∈ g, kv.1 ≠ key) : lastFold key f a g = a :=
  lastFold_char key f a g a (fun kv hkv e => absurd e (h kv hkv)) (fun _ => rfl)

/-- the fold is the initial value or comes from an occurrence of the key -/
theorem lastFold_mem {α : Type} (key : Bytes) (f : Bytes → Option α) :
    ∀ (g : List KV) (a : Option α), lastFold key f a g = a ∨ ∃ kv ∈ g, kv.1 = key ∧ lastFold key f a g = f kv.2 := by
  intro g
  induction g with
  | nil => intro a; exact Or.inl rfl
  | cons kv g ih =>
    intro a
    rw [lastFold_cons]
    rcases ih (if kv.1 = key then f kv.2 else a) with h | ⟨x, hx, hk, he⟩
    · by_cases hk : kv.1 = key
      · simp only [hk, if_true] at h ⊢
        exact Or.inr ⟨kv, by simp, hk, h⟩
      · simp only [hk, if_false] at h ⊢
        exact Or.inl h
    · exact Or.inr ⟨x, by simp [hx], hk, he⟩

/-! ### lookup facts -/

theorem lookup_mem {β : Type} (k : Bytes) : ∀ (l : List (Bytes × β)) (v : β), lookup k l = some v → (k, v) ∈ l := by
  intro l
  induction l with
  | nil => intro v h; simp [lookup] at h
  | cons x xs ih =>
    intro v h
    obtain ⟨k', v'⟩ := x
    by_cases hk : k = k'
    · subst hk; simp [lookup] at h; subst h; simp
    · simp [lookup, hk] at h; simp [ih v h]

theorem lookup_none_of {β : Type} (k : Bytes) (l : List (Bytes × β)) (h : ∀ p ∈ l, p.1 ≠ k) : lookup k l = none := by
  have := (lookup_none_iff k l).mpr h
  simpa using this

theorem lookup_none_not_mem {β : Type} (k : Bytes) (l : List (Bytes × β)) (h : lookup k l = none) :
    ∀ p ∈ l, p.1 ≠ k := (lookup_none_iff k l).mp (by simp [h])

/-! ### the transaction fields of a scope, in terms of the pairs it was read from -/

/-- a field that is set by exactly one key, once: after a whole scope it is the seed's value, or (seed unset) the
    value stored under that key -/
theorem InScope.addPairs_field {α : Type} (ko : KeyOps) (sha : Bytes → Bytes) (c : Nat) (φ : InScope → Option α)
    (key : Bytes) (f : Bytes → α)
    (step : ∀ s s' k v, InScope.addPair ko sha c s k v = some s' →
      φ s' = (if k = key then some (f v) else φ s) ∧ (k = key → φ s = none)) :
    ∀ (kvs : List KV) (s s' : InScope), InScope.addPairs ko sha c s kvs = some s' →
      (φ s = none → φ s' = (lookup key kvs).map f) ∧ (∀ a, φ s = some a → φ s' = some a) := by
  intro kvs
  induction kvs with
  | nil => intro s s' h; simp [InScope.addPairs] at h; subst h; simp [lookup]
  | cons kv kvs ih =>
    intro s s' h
    obtain ⟨k, v⟩ := kv
    simp only [InScope.addPairs] at h
    split at h
    · simp at h
    · rename_i s1 h1
      obtain ⟨e1, e2⟩ := step s s1 k v h1
      obtain ⟨r1, r2⟩ := ih s1 s' h
      by_cases hk : k = key
      · simp only [hk, if_true] at e1
        refine ⟨fun _ => ?_, fun a ha => ?_⟩
        · rw [r2 _ e1]; simp [lookup, hk]
        · rw [e2 hk] at ha; simp at ha
      · simp only [hk, if_false] at e1
        have hk' : ¬ key = k := fun e => hk e.symm
        refine ⟨fun hn => ?_, fun a ha => ?_⟩
        · rw [r1 (by rw [e1]; exact hn)]; simp [lookup, hk']
        · exact r2 a (by rw [e1]; exact ha)

theorem OutScope.addPairs_field {α : Type} (ko : KeyOps) (φ : OutScope → Option α)
    (key : Bytes) (f : Bytes → α)
    (step : ∀ s s' k v, OutScope.addPair ko s k v = some s' →
      φ s' = (if k = key then some (f v) else φ s) ∧ (k = key → φ s = none)) :
    ∀ (kvs : List KV) (s s' : OutScope), OutScope.addPairs ko s kvs = some s' →
      (φ s = none → φ s' = (lookup key kvs).map f) ∧ (∀ a, φ s = some a → φ s' = some a) := by
  intro kvs
  induction kvs with
  | nil => intro s s' h; simp [OutScope.addPairs] at h; subst h; simp [lookup]
  | cons kv kvs ih =>
    intro s s' h
    obtain ⟨k, v⟩ := kv
    simp only [OutScope.addPairs] at h
    split at h
    · simp at h
    · rename_i s1 h1
      obtain ⟨e1, e2⟩ := step s s1 k v h1
      obtain ⟨r1, r2⟩ := ih s1 s' h
      by_cases hk : k = key
      · simp only [hk, if_true] at e1
        refine ⟨fun _ => ?_, fun a ha => ?_⟩
        · rw [r2 _ e1]; simp [lookup, hk]
        · rw [e2 hk] at ha; simp at ha
      · simp only [hk, if_false] at e1
        have hk' : ¬ key = k := fun e => hk e.symm
        refine ⟨fun hn => ?_, fun a ha => ?_⟩
        · rw [r1 (by rw [e1]; exact hn)]; simp [lookup, hk']
        · exact r2 a (by rw [e1]; exact ha)

/-- a value accepted under the sequence key has four bytes -/
theorem InScope.addPairs_seqlen (ko : KeyOps) (sha : Bytes → Bytes) (c : Nat) :
    ∀ (kvs : List KV) (s s' : InScope), InScope.addPairs ko sha c s kvs = some s' →
      ∀ v, ([0x10], v) ∈ kvs → v.length = 4 := by
  intro kvs
  induction kvs with
  | nil => intro s s' _ v hv; simp at hv
  | cons kv kvs ih =>
    intro s s' h v hv
    obtain ⟨k, w⟩ := kv
    simp only [InScope.addPairs] at h
    split at h
    · simp at h
    · rename_i s1 h1
      simp at hv
      rcases hv with ⟨rfl, rfl⟩ | hv
      · exact ((InScope.addPair_txfields ko sha c s s1 _ _ h1).2.2.2.2.2 rfl).2
      · exact ih s1 s' h v hv

/-- PSBTv2 (empty seed): the transaction input a scope describes is made of the values stored under 0e / 0f / 10 -/
theorem InScope.addPairs_v2_fields (ko : KeyOps) (sha : Bytes → Bytes) (c : Nat) (kvs : List KV) (s : InScope)
    (h : InScope.addPairs ko sha c {} kvs = some s) :
    s.txid = (lookup [0x0e] kvs).map List.reverse ∧ s.vout = (lookup [0x0f] kvs).map ofLe
    ∧ s.sequence = (lookup [0x10] kvs).map ofLe ∧ (∀ v, lookup [0x10] kvs = some v → v.length = 4) := by
  refine ⟨?_, ?_, ?_, ?_⟩
  · exact (InScope.addPairs_field ko sha c (·.txid) [0x0e] List.reverse (fun s s' k v hh => by
      obtain ⟨a1, a2, a3, a4, a5, a6⟩ := InScope.addPair_txfields ko sha c s s' k v hh
      exact ⟨a1, a4⟩) kvs {} s h).1 rfl
  · exact (InScope.addPairs_field ko sha c (·.vout) [0x0f] ofLe (fun s s' k v hh => by
      obtain ⟨a1, a2, a3, a4, a5, a6⟩ := InScope.addPair_txfields ko sha c s s' k v hh
      exact ⟨a2, fun e => (a5 e).1⟩) kvs {} s h).1 rfl
  · exact (InScope.addPairs_field ko sha c (·.sequence) [0x10] ofLe (fun s s' k v hh => by
      obtain ⟨a1, a2, a3, a4, a5, a6⟩ := InScope.addPair_txfields ko sha c s s' k v hh
      exact ⟨a3, fun e => (a6 e).1⟩) kvs {} s h).1 rfl
  · intro v hv
    exact InScope.addPairs_seqlen ko sha c kvs {} s h v (lookup_mem _ _ _ hv)

theorem OutScope.addPairs_v2_fields (ko : KeyOps) (kvs : List KV) (s : OutScope)
    (h : OutScope.addPairs ko {} kvs = some s) :
    s.value = (lookup [0x03] kvs).map ofLe ∧ s.spk = lookup [0x04] kvs := by
  refine ⟨?_, ?_⟩
  · exact (OutScope.addPairs_field ko (·.value) [0x03] ofLe (fun s s' k v hh => by
      obtain ⟨a1, a2, a3, a4⟩ := OutScope.addPair_txfields ko s s' k v hh
      exact ⟨a1, fun e => (a3 e).1⟩) kvs {} s h).1 rfl
  · have := (OutScope.addPairs_field ko (·.spk) [0x04] id (fun s s' k v hh => by
      obtain ⟨a1, a2, a3, a4⟩ := OutScope.addPair_txfields ko s s' k v hh
      exact ⟨a2, a4⟩) kvs {} s h).1 rfl
    simpa using this

/-! ### the global scan (`PSBTView.view`) over framed pairs -/

/-- the pairs of a scope without the separator -/
def kvBytes (g : List KV) : Bytes := g.flatMap (fun kv => serString kv.1 ++ serString kv.2)

theorem writeKVs_eq (g : List KV) : writeKVs g = kvBytes g ++ [0] := rfl

theorem kvBytes_cons (kv : KV) (g : List KV) : kvBytes (kv :: g) = serString kv.1 ++ (serString kv.2 ++ kvBytes g) := by
  simp [kvBytes, List.flatMap_cons, List.append_assoc]

theorem kvBytes_append (g1 g2 : List KV) : kvBytes (g1 ++ g2) = kvBytes g1 ++ kvBytes g2 := by
  simp [kvBytes, List.flatMap_append]

theorem viewScan_skip (buf post : Bytes) : ∀ (g : List KV) (pre : Bytes) (st : GScan) (fuel : Nat),
    buf = pre ++ (kvBytes g ++ post) → st.cur = pre.length → (∀ kv ∈ g, KVWF kv) → (∀ kv ∈ g, kv.1 ≠ [0x00]) →
    (∀ kv ∈ g, kv.1 = [0x04] ∨ kv.1 = [0x05] → (parseAll Compact.read kv.2).isSome) →
    viewScan buf (g.length + fuel) st = viewScan buf fuel
      { st with cur := st.cur + (kvBytes g).length,
                version := lastFold [0xfb] (fun v => some (ofLe v)) st.version g,
                numIn := lastFold [0x04] (parseAll Compact.read) st.numIn g,
                numOut := lastFold [0x05] (parseAll Compact.read) st.numOut g } := by
  intro g
  induction g with
  | nil =>
    intro pre st fuel _ _ _ _ _
    simp [kvBytes, lastFold_nil]
  | cons kv g ih =>
    intro pre st fuel hb hc hw h0 hp
    obtain ⟨k, v⟩ := kv
    obtain ⟨hne, hk, hv⟩ := hw (k, v) (by simp)
    have hk0 : k ≠ [0x00] := h0 (k, v) (by simp)
    have e1 : buf = pre ++ (serString k ++ (serString v ++ (kvBytes g ++ post))) := by
      rw [hb, kvBytes_cons]; simp [List.append_assoc]
    have e2 : buf = (pre ++ serString k) ++ (serString v ++ (kvBytes g ++ post)) := by
      rw [e1]; simp [List.append_assoc]
    have e3 : buf = (pre ++ serString k ++ serString v) ++ (kvBytes g ++ post) := by
      rw [e1]; simp [List.append_assoc]
    have s1 : stringAt buf st.cur = some (k, st.cur + (serString k).length) := by
      rw [e1]; exact stringAt_ser pre _ k hk st.cur hc
    have s2 : stringAt buf (st.cur + (serString k).length)
        = some (v, st.cur + (serString k).length + (serString v).length) := by
      rw [e2]; exact stringAt_ser (pre ++ serString k) _ v hv _ (by simp [hc])
    have s3 : skipStringAt buf (st.cur + (serString k).length)
        = some ((serString v).length, st.cur + (serString k).length + (serString v).length) := by
      rw [e2]; exact skipStringAt_ser (pre ++ serString k) _ v hv _ (by simp [hc])
    have hke : k.isEmpty = false := by
      cases k with
      | nil => exact absurd rfl hne
      | cons _ _ => rfl
    have hlen : st.cur + (serString k).length + (serString v).length + (kvBytes g).length
        = st.cur + (kvBytes ((k, v) :: g)).length := by
      rw [kvBytes_cons]; simp; omega
    have hrec := fun st' (hc' : st'.cur = st.cur + (serString k).length + (serString v).length) =>
      ih (pre ++ serString k ++ serString v) st' fuel e3 (by simp [hc', hc]; omega)
        (fun x hx => hw x (by simp [hx])) (fun x hx => h0 x (by simp [hx])) (fun x hx => hp x (by simp [hx]))
    rw [show ((k, v) :: g).length + fuel = (g.length + fuel) + 1 by simp; omega]
    rw [viewScan, s1]
    simp only [hke, Bool.false_eq_true, if_false]
    by_cases hfb : k = [0xfb]
    · subst hfb
      simp only [Bool.true_or, if_true, s2, decide_true]
      rw [hrec _ rfl]
      simp only [lastFold_cons, if_true, hlen]
      simp
    · by_cases h4 : k = [0x04]
      · subst h4
        obtain ⟨n, hn⟩ := Option.isSome_iff_exists.mp (hp ([0x04], v) (by simp) (Or.inl rfl))
        have c1 : (decide (([0x04] : Bytes) = [0xfb]) || decide (([0x04] : Bytes) = [0x04]) || decide (([0x04] : Bytes) = [0x05])) = true := by decide
        have c2 : ¬ (([0x04] : Bytes) = [0xfb]) := by decide
        simp only [c1, c2, if_true, if_false, s2, hn]
        rw [hrec _ rfl]
        simp only [lastFold_cons, if_true, hlen, c2, if_false, hn]
        simp
      · by_cases h5 : k = [0x05]
        · subst h5
          obtain ⟨n, hn⟩ := Option.isSome_iff_exists.mp (hp ([0x05], v) (by simp) (Or.inr rfl))
          have c1 : (decide (([0x05] : Bytes) = [0xfb]) || decide (([0x05] : Bytes) = [0x04]) || decide (([0x05] : Bytes) = [0x05])) = true := by decide
          have c2 : ¬ (([0x05] : Bytes) = [0xfb]) := by decide
          have c3 : ¬ (([0x05] : Bytes) = [0x04]) := by decide
          simp only [c1, c2, c3, if_true, if_false, s2, hn]
          rw [hrec _ rfl]
          simp only [lastFold_cons, if_true, hlen, c2, c3, if_false, hn]
          simp
        · have c1 : (decide (k = [0xfb]) || decide (k = [0x04]) || decide (k = [0x05])) = false := by simp [hfb, h4, h5]
          simp only [c1, Bool.false_eq_true, if_false, hk0, s3]
          rw [hrec _ rfl]
          simp only [lastFold_cons, hfb, h4, h5, if_false, hlen]

/-- the global scan at the unsigned transaction (key 00): counts and offsets are taken from the transaction -/
theorem viewScan_tx (buf pre post : Bytes) (t : Tx) (hwf : WF t) (hu : Unsigned t) (hl : (Tx.ser t).length < 2^64)
    (st : GScan) (fuel : Nat)
    (hb : buf = pre ++ (serString [0x00] ++ (serString (Tx.ser t) ++ post))) (hc : st.cur = pre.length)
    (hv : st.version ≠ some 2) (hi : st.numIn = none) (ho : st.numOut = none) :
    ∃ gx, buf = (pre ++ serString [0x00] ++ Compact.enc (Tx.ser t).length) ++ (Tx.ser t ++ post)
      ∧ GTx.open buf (pre ++ serString [0x00] ++ Compact.enc (Tx.ser t).length).length = some gx
      ∧ viewScan buf (fuel + 1) st = viewScan buf fuel
        { st with cur := st.cur + (serString [0x00]).length + (serString (Tx.ser t)).length,
                  numIn := some t.vin.length, numOut := some t.vout.length,
                  txOffset := some (pre ++ serString [0x00] ++ Compact.enc (Tx.ser t).length).length,
                  gtx := some gx } := by
  have eP : buf = (pre ++ serString [0x00] ++ Compact.enc (Tx.ser t).length) ++ (Tx.ser t ++ post) := by
    rw [hb]; simp [serString, List.append_assoc]
  have hopen := GTx.open_spec (pre ++ serString [0x00] ++ Compact.enc (Tx.ser t).length) post t hwf hu
  rw [← eP] at hopen
  refine ⟨_, eP, hopen, ?_⟩
  have s1 : stringAt buf st.cur = some ([0x00], st.cur + (serString [0x00]).length) := by
    rw [hb]; exact stringAt_ser pre _ [0x00] (by decide) st.cur hc
  have e2 : buf = (pre ++ serString [0x00]) ++ (Compact.enc (Tx.ser t).length ++ (Tx.ser t ++ post)) := by
    rw [hb]; simp [serString, List.append_assoc]
  have s2 : compactAt buf (st.cur + (serString [0x00]).length)
      = some ((Tx.ser t).length, st.cur + (serString [0x00]).length + (Compact.enc (Tx.ser t).length).length) := by
    rw [e2]; exact compactAt_enc (pre ++ serString [0x00]) _ _ hl _ (by simp [hc])
  have hoff : st.cur + (serString [0x00]).length + (Compact.enc (Tx.ser t).length).length
      = (pre ++ serString [0x00] ++ Compact.enc (Tx.ser t).length).length := by
    simp [hc]; omega
  have c1 : (decide (([0x00] : Bytes) = [0xfb]) || decide (([0x00] : Bytes) = [0x04]) || decide (([0x00] : Bytes) = [0x05])) = false := by decide
  have c0 : ([0x00] : Bytes).isEmpty = false := rfl
  rw [viewScan, s1]
  simp only [c0, c1, Bool.false_eq_true, if_false, if_true, hv, hi, ho, Option.isSome_none, Bool.or_self, s2, hoff, hopen]
  congr 2
  simp [serString, hc]; omega

/-- the global scan at the separator stops just behind it -/
theorem viewScan_end (buf pre post : Bytes) (st : GScan) (fuel : Nat)
    (hb : buf = pre ++ ([0] ++ post)) (hc : st.cur = pre.length) :
    viewScan buf (fuel + 1) st = some { st with cur := st.cur + 1 } := by
  have s1 : stringAt buf st.cur = some ([], st.cur + 1) := by
    have := stringAt_ser pre post [] (by decide) st.cur hc
    simp [serString, Compact.enc] at this
    rw [hb]; simpa using this
  rw [viewScan, s1]
  simp
/-- (1a) the global scan over a version-0 global scope: pairs, the unsigned transaction, pairs, separator -/
theorem viewScan_v0 (buf pre post : Bytes) (g1 g2 : List KV) (t : Tx) (hwf : WF t) (hu : Unsigned t)
    (hb : buf = pre ++ (writeKVs (g1 ++ ([0x00], Tx.ser t) :: g2) ++ post))
    (hw : ∀ kv ∈ g1 ++ ([0x00], Tx.ser t) :: g2, KVWF kv)
    (h1 : ∀ kv ∈ g1, kv.1 ≠ [0x00] ∧ kv.1 ≠ [0x04] ∧ kv.1 ≠ [0x05])
    (h2 : ∀ kv ∈ g2, kv.1 ≠ [0x00] ∧ kv.1 ≠ [0x04] ∧ kv.1 ≠ [0x05])
    (hv : lastFold [0xfb] (fun v => some (ofLe v)) none g1 ≠ some 2)
    (fuel : Nat) (hf : g1.length + g2.length + 2 ≤ fuel) :
    ∃ (P Q : Bytes) (gx : GTx), buf = P ++ (Tx.ser t ++ Q) ∧ GTx.open buf P.length = some gx
      ∧ viewScan buf fuel { cur := pre.length }
        = some { cur := pre.length + (writeKVs (g1 ++ ([0x00], Tx.ser t) :: g2)).length,
                 version := lastFold [0xfb] (fun v => some (ofLe v)) none (g1 ++ ([0x00], Tx.ser t) :: g2),
                 numIn := some t.vin.length, numOut := some t.vout.length,
                 txOffset := some P.length, gtx := some gx } := by
  obtain ⟨k, rfl⟩ : ∃ k, fuel = g1.length + ((g2.length + (k + 1)) + 1) := ⟨fuel - (g1.length + g2.length + 2), by omega⟩
  have hl : (Tx.ser t).length < 2^64 := (hw ([0x00], Tx.ser t) (by simp)).2.2
  have hb1 : buf = pre ++ (kvBytes g1 ++ (serString [0x00] ++ (serString (Tx.ser t) ++ (kvBytes g2 ++ ([0] ++ post))))) := by
    rw [hb, writeKVs_eq, kvBytes_append, kvBytes_cons]; simp [List.append_assoc]
  have n1 : lastFold [0x04] (parseAll Compact.read) none g1 = none :=
    lastFold_absent _ _ _ g1 (fun x hx => (h1 x hx).2.1)
  have n2 : lastFold [0x05] (parseAll Compact.read) none g1 = none :=
    lastFold_absent _ _ _ g1 (fun x hx => (h1 x hx).2.2)
  have step1 : viewScan buf (g1.length + ((g2.length + (k + 1)) + 1)) { cur := pre.length }
      = viewScan buf ((g2.length + (k + 1)) + 1)
          { cur := pre.length + (kvBytes g1).length, version := lastFold [0xfb] (fun v => some (ofLe v)) none g1,
            numIn := none, numOut := none } := by
    have := viewScan_skip buf _ g1 pre { cur := pre.length } ((g2.length + (k + 1)) + 1) hb1 rfl
      (fun x hx => hw x (by simp [hx])) (fun x hx => (h1 x hx).1)
      (fun x hx hh => by rcases hh with hh | hh; exact absurd hh (h1 x hx).2.1; exact absurd hh (h1 x hx).2.2)
    simp only [n1, n2] at this
    exact this
  rw [step1]
  have hb2 : buf = (pre ++ kvBytes g1) ++ (serString [0x00] ++ (serString (Tx.ser t) ++ (kvBytes g2 ++ ([0] ++ post)))) := by
    rw [hb1]; simp [List.append_assoc]
  obtain ⟨gx, eP, hopen, step2⟩ := viewScan_tx buf (pre ++ kvBytes g1) (kvBytes g2 ++ ([0] ++ post)) t hwf hu hl
    { cur := pre.length + (kvBytes g1).length, version := lastFold [0xfb] (fun v => some (ofLe v)) none g1,
      numIn := none, numOut := none } (g2.length + (k + 1)) hb2 (by simp) hv rfl rfl
  rw [step2]
  have hb3 : buf = (pre ++ kvBytes g1 ++ serString [0x00] ++ serString (Tx.ser t)) ++ (kvBytes g2 ++ ([0] ++ post)) := by
    rw [hb1]; simp [List.append_assoc]
  have step3 := viewScan_skip buf _ g2 _
    { cur := pre.length + (kvBytes g1).length + (serString [0x00]).length + (serString (Tx.ser t)).length,
      version := lastFold [0xfb] (fun v => some (ofLe v)) none g1,
      numIn := some t.vin.length, numOut := some t.vout.length,
      txOffset := some (pre ++ kvBytes g1 ++ serString [0x00] ++ Compact.enc (Tx.ser t).length).length,
      gtx := some gx } (k + 1) hb3 (by simp; omega)
    (fun x hx => hw x (by simp [hx])) (fun x hx => (h2 x hx).1)
    (fun x hx hh => by rcases hh with hh | hh; exact absurd hh (h2 x hx).2.1; exact absurd hh (h2 x hx).2.2)
  simp only [] at step3
  rw [step3]
  have hb4 : buf = (pre ++ kvBytes g1 ++ serString [0x00] ++ serString (Tx.ser t) ++ kvBytes g2) ++ ([0] ++ post) := by
    rw [hb1]; simp [List.append_assoc]
  have step4 := viewScan_end buf _ post
    { cur := pre.length + (kvBytes g1).length + (serString [0x00]).length + (serString (Tx.ser t)).length
             + (kvBytes g2).length,
      version := lastFold [0xfb] (fun v => some (ofLe v)) (lastFold [0xfb] (fun v => some (ofLe v)) none g1) g2,
      numIn := lastFold [0x04] (parseAll Compact.read) (some t.vin.length) g2,
      numOut := lastFold [0x05] (parseAll Compact.read) (some t.vout.length) g2,
      txOffset := some (pre ++ kvBytes g1 ++ serString [0x00] ++ Compact.enc (Tx.ser t).length).length,
      gtx := some gx } k hb4 (by simp; omega)
  simp only [] at step4
  rw [step4]
  refine ⟨_, _, gx, eP, hopen, ?_⟩
  have c2 : ¬ (([0x00] : Bytes) = [0xfb]) := by decide
  simp only [lastFold_append, lastFold_cons, c2, if_false,
    lastFold_absent [0x04] _ _ g2 (fun x hx => (h2 x hx).2.1), lastFold_absent [0x05] _ _ g2 (fun x hx => (h2 x hx).2.2)]
  have hcur : pre.length + (kvBytes g1).length + (serString [0x00]).length + (serString (Tx.ser t)).length
      + (kvBytes g2).length + 1 = pre.length + (writeKVs (g1 ++ ([0x00], Tx.ser t) :: g2)).length := by
    simp only [writeKVs_eq, kvBytes_append, kvBytes_cons, List.length_append, List.length_cons, List.length_nil]
    omega
  rw [hcur]

/-- (1b) the global scan over a global scope without unsigned transaction (PSBTv2) -/
theorem viewScan_v2 (buf pre post : Bytes) (g : List KV)
    (hb : buf = pre ++ (writeKVs g ++ post)) (hw : ∀ kv ∈ g, KVWF kv) (h0 : ∀ kv ∈ g, kv.1 ≠ [0x00])
    (hp : ∀ kv ∈ g, kv.1 = [0x04] ∨ kv.1 = [0x05] → (parseAll Compact.read kv.2).isSome)
    (fuel : Nat) (hf : g.length + 1 ≤ fuel) :
    viewScan buf fuel { cur := pre.length }
      = some { cur := pre.length + (writeKVs g).length,
               version := lastFold [0xfb] (fun v => some (ofLe v)) none g,
               numIn := lastFold [0x04] (parseAll Compact.read) none g,
               numOut := lastFold [0x05] (parseAll Compact.read) none g } := by
  obtain ⟨k, rfl⟩ : ∃ k, fuel = g.length + (k + 1) := ⟨fuel - (g.length + 1), by omega⟩
  have hb1 : buf = pre ++ (kvBytes g ++ ([0] ++ post)) := by
    rw [hb, writeKVs_eq]; simp [List.append_assoc]
  have step1 := viewScan_skip buf _ g pre { cur := pre.length } (k + 1) hb1 rfl hw h0 hp
  simp only [] at step1
  rw [step1]
  have hb2 : buf = (pre ++ kvBytes g) ++ ([0] ++ post) := by
    rw [hb1]; simp [List.append_assoc]
  have step2 := viewScan_end buf _ post
    { cur := pre.length + (kvBytes g).length,
      version := lastFold [0xfb] (fun v => some (ofLe v)) none g,
      numIn := lastFold [0x04] (parseAll Compact.read) none g,
      numOut := lastFold [0x05] (parseAll Compact.read) none g } k hb2 (by simp)
  simp only [] at step2
  rw [step2]
  have hcur : pre.length + (kvBytes g).length + 1 = pre.length + (writeKVs g).length := by
    simp only [writeKVs_eq, List.length_append, List.length_cons, List.length_nil]; omega
  rw [hcur]
/-! ### (2) scope offsets -/

/-- a framed sequence of scopes splits at scope `n` -/
theorem scopes_split : ∀ (scopes : List (List KV)) (n : Nat) (kvs : List KV), scopes[n]? = some kvs →
    scopes.flatMap writeKVs
      = (scopes.take n).flatMap writeKVs ++ (writeKVs kvs ++ (scopes.drop (n + 1)).flatMap writeKVs) := by
  intro scopes
  induction scopes with
  | nil => intro n kvs h; simp at h
  | cons s ss ih =>
    intro n kvs h
    cases n with
    | zero => simp at h; subst h; simp
    | succ n =>
      simp at h
      simp [List.flatMap_cons, ih n kvs h, List.append_assoc]

/-- walking `n` scopes with `_skip_scope` lands at the sum of their lengths -/
theorem scopeGo_spec (post : Bytes) : ∀ (n : Nat) (scopes : List (List KV)) (pre : Bytes) (pos : Nat),
    (∀ kvs ∈ scopes, ∀ kv ∈ kvs, KVWF kv) → pos = pre.length → n ≤ scopes.length →
    View.scopeOffset.go (pre ++ (scopes.flatMap writeKVs ++ post)) n pos
      = some (pos + ((scopes.take n).flatMap writeKVs).length) := by
  intro n
  induction n with
  | zero => intro scopes pre pos _ _ _; simp [View.scopeOffset.go]
  | succ n ih =>
    intro scopes pre pos hw hp hn
    cases scopes with
    | nil => simp at hn
    | cons kvs rest =>
      have e1 : pre ++ ((kvs :: rest).flatMap writeKVs ++ post)
          = pre ++ (writeKVs kvs ++ (rest.flatMap writeKVs ++ post)) := by
        simp [List.flatMap_cons, List.append_assoc]
      have e2 : pre ++ (writeKVs kvs ++ (rest.flatMap writeKVs ++ post))
          = (pre ++ writeKVs kvs) ++ (rest.flatMap writeKVs ++ post) := by simp
      have hs := skipScopeAt_spec (rest.flatMap writeKVs ++ post) kvs pre
        ((pre ++ (writeKVs kvs ++ (rest.flatMap writeKVs ++ post))).length + 1) pos
        (hw kvs (by simp)) hp (by have := writeKVs_length kvs; simp; omega)
      have hrec := ih rest (pre ++ writeKVs kvs) (pos + (writeKVs kvs).length)
        (fun x hx => hw x (by simp [hx])) (by simp [hp]) (by simpa using hn)
      rw [e1]
      simp only [View.scopeOffset.go]
      rw [hs]
      simp only []
      rw [e2, hrec]
      simp [List.flatMap_cons]; omega

/-- `seek_to_scope(n)` of a view whose first scope starts at `|pre|` -/
theorem scopeOffset_spec (pre post : Bytes) (scopes : List (List KV)) (v : View) (n : Nat)
    (hw : ∀ kvs ∈ scopes, ∀ kv ∈ kvs, KVWF kv) (hf : v.firstScope = pre.length)
    (hcnt : v.numIn + v.numOut = scopes.length) (hn : n ≤ scopes.length) :
    View.scopeOffset (pre ++ (scopes.flatMap writeKVs ++ post)) v n
      = some (v.firstScope + ((scopes.take n).flatMap writeKVs).length) := by
  unfold View.scopeOffset
  have : ¬ n > v.numIn + v.numOut := by omega
  simp only [this, if_false]
  exact scopeGo_spec post n scopes pre v.firstScope hw hf hn

/-- the bytes at the offset of scope `n` are that scope's framing followed by the remaining scopes -/
theorem scope_at (pre post : Bytes) (scopes : List (List KV)) (n : Nat) (kvs : List KV) (h : scopes[n]? = some kvs) :
    pre ++ (scopes.flatMap writeKVs ++ post)
      = (pre ++ (scopes.take n).flatMap writeKVs) ++ (writeKVs kvs ++ ((scopes.drop (n + 1)).flatMap writeKVs ++ post)) := by
  rw [scopes_split scopes n kvs h]; simp [List.append_assoc]

/-- everything the view needs about scope `n`: its offset, and what lies there -/
theorem scope_read (pre post : Bytes) (scopes : List (List KV)) (v : View) (n : Nat) (kvs : List KV)
    (hw : ∀ kvs ∈ scopes, ∀ kv ∈ kvs, KVWF kv) (hf : v.firstScope = pre.length)
    (hcnt : v.numIn + v.numOut = scopes.length) (hk : scopes[n]? = some kvs) :
    ∃ (pos : Nat) (P rest : Bytes),
      View.scopeOffset (pre ++ (scopes.flatMap writeKVs ++ post)) v n = some pos
      ∧ pre ++ (scopes.flatMap writeKVs ++ post) = P ++ (writeKVs kvs ++ rest) ∧ pos = P.length
      ∧ readKVs ((pre ++ (scopes.flatMap writeKVs ++ post)).drop pos) = some (kvs, rest)
      ∧ (∀ kv ∈ kvs, KVWF kv) := by
  have hn : n < scopes.length := (List.getElem?_eq_some_iff.mp hk).1
  have hwk : ∀ kv ∈ kvs, KVWF kv := hw kvs (List.mem_of_getElem? hk)
  refine ⟨_, pre ++ (scopes.take n).flatMap writeKVs, (scopes.drop (n + 1)).flatMap writeKVs ++ post,
    scopeOffset_spec pre post scopes v n hw hf hcnt (by omega), scope_at pre post scopes n kvs hk, by simp [hf], ?_, hwk⟩
  rw [scope_at pre post scopes n kvs hk, drop_pre _ _ _ (by simp [hf])]
  exact readKVs_write kvs _ hwk

/-! ### (3) `input(i)` / `output(j)` of the view are `read_value` folds over the scope's pairs -/

theorem View.input_v0 (ko : KeyOps) (sha : Bytes → Bytes) (c : Nat) (pre post : Bytes) (scopes : List (List KV))
    (v : View) (i : Nat) (kvs : List KV) (gx : GTx) (vi : TxIn)
    (hw : ∀ kvs ∈ scopes, ∀ kv ∈ kvs, KVWF kv) (hf : v.firstScope = pre.length)
    (hcnt : v.numIn + v.numOut = scopes.length) (hi : i < v.numIn) (hk : scopes[i]? = some kvs)
    (htx : v.tx = some gx) (hvi : GTx.vin (pre ++ (scopes.flatMap writeKVs ++ post)) gx i = some vi) :
    View.input ko sha (pre ++ (scopes.flatMap writeKVs ++ post)) v i c
      = InScope.addPairs ko sha c { txid := some vi.txid, vout := some vi.vout, sequence := some vi.sequence } kvs := by
  obtain ⟨pos, P, rest, h1, _, _, h2, _⟩ := scope_read pre post scopes v i kvs hw hf hcnt hk
  have : ¬ i ≥ v.numIn := by omega
  simp only [View.input, this, if_false, htx, hvi, Option.map_some, h1, h2]

theorem View.input_v2 (ko : KeyOps) (sha : Bytes → Bytes) (c : Nat) (pre post : Bytes) (scopes : List (List KV))
    (v : View) (i : Nat) (kvs : List KV)
    (hw : ∀ kvs ∈ scopes, ∀ kv ∈ kvs, KVWF kv) (hf : v.firstScope = pre.length)
    (hcnt : v.numIn + v.numOut = scopes.length) (hi : i < v.numIn) (hk : scopes[i]? = some kvs)
    (htx : v.tx = none) :
    View.input ko sha (pre ++ (scopes.flatMap writeKVs ++ post)) v i c = InScope.addPairs ko sha c {} kvs := by
  obtain ⟨pos, P, rest, h1, _, _, h2, _⟩ := scope_read pre post scopes v i kvs hw hf hcnt hk
  have : ¬ i ≥ v.numIn := by omega
  simp only [View.input, this, if_false, htx, h1, h2]

theorem View.output_v0 (ko : KeyOps) (pre post : Bytes) (scopes : List (List KV))
    (v : View) (j : Nat) (kvs : List KV) (gx : GTx) (vo : TxOut)
    (hw : ∀ kvs ∈ scopes, ∀ kv ∈ kvs, KVWF kv) (hf : v.firstScope = pre.length)
    (hcnt : v.numIn + v.numOut = scopes.length) (hj : j < v.numOut) (hk : scopes[v.numIn + j]? = some kvs)
    (htx : v.tx = some gx) (hvo : GTx.vout (pre ++ (scopes.flatMap writeKVs ++ post)) gx j = some vo) :
    View.output ko (pre ++ (scopes.flatMap writeKVs ++ post)) v j
      = OutScope.addPairs ko { value := some vo.value, spk := some vo.spk } kvs := by
  obtain ⟨pos, P, rest, h1, _, _, h2, _⟩ := scope_read pre post scopes v (v.numIn + j) kvs hw hf hcnt hk
  have : ¬ j ≥ v.numOut := by omega
  simp only [View.output, this, if_false, htx, hvo, Option.map_some, h1, h2]

theorem View.output_v2 (ko : KeyOps) (pre post : Bytes) (scopes : List (List KV))
    (v : View) (j : Nat) (kvs : List KV)
    (hw : ∀ kvs ∈ scopes, ∀ kv ∈ kvs, KVWF kv) (hf : v.firstScope = pre.length)
    (hcnt : v.numIn + v.numOut = scopes.length) (hj : j < v.numOut) (hk : scopes[v.numIn + j]? = some kvs)
    (htx : v.tx = none) :
    View.output ko (pre ++ (scopes.flatMap writeKVs ++ post)) v j = OutScope.addPairs ko {} kvs := by
  obtain ⟨pos, P, rest, h1, _, _, h2, _⟩ := scope_read pre post scopes v (v.numIn + j) kvs hw hf hcnt hk
  have : ¬ j ≥ v.numOut := by omega
  simp only [View.output, this, if_false, htx, h1, h2]

/-! ### (4) PSBTv2: `vin(i)` / `vout(j)` of the view are read from the scope's own fields -/

theorem ofLe_ffffffff : ofLe [0xff, 0xff, 0xff, 0xff] = 0xFFFFFFFF := by decide

theorem View.vin_v2 (ko : KeyOps) (sha : Bytes → Bytes) (c : Nat) (pre post : Bytes) (scopes : List (List KV))
    (v : View) (i : Nat) (kvs : List KV) (s : InScope)
    (hw : ∀ kvs ∈ scopes, ∀ kv ∈ kvs, KVWF kv) (hf : v.firstScope = pre.length)
    (hcnt : v.numIn + v.numOut = scopes.length) (hi : i < v.numIn) (hk : scopes[i]? = some kvs)
    (htx : v.tx = none) (hs : InScope.addPairs ko sha c {} kvs = some s) :
    View.vin (pre ++ (scopes.flatMap writeKVs ++ post)) v i = s.vin := by
  obtain ⟨pos, P, rest, h1, hb, hp, _, hwk⟩ := scope_read pre post scopes v i kvs hw hf hcnt hk
  obtain ⟨f1, f2, f3, f4⟩ := InScope.addPairs_v2_fields ko sha c kvs s hs
  have hval : ∀ key : Bytes, key ≠ [] →
      View.getValue (pre ++ (scopes.flatMap writeKVs ++ post)) key pos = some (lookup key kvs) := by
    intro key hkey
    rw [hb]
    apply valueAt_spec rest key hkey kvs P _ _ hwk hp
    have := writeKVs_length kvs
    simp; omega
  have : ¬ i ≥ v.numIn := by omega
  simp only [View.vin, this, if_false, htx, h1, hval [0x0e] (by decide), hval [0x0f] (by decide), hval [0x10] (by decide)]
  simp only [InScope.vin, f1, f2, f3]
  cases h14 : lookup [0x0e] kvs with
  | none => simp
  | some a =>
    cases h15 : lookup [0x0f] kvs with
    | none => simp
    | some b =>
      cases h16 : lookup [0x10] kvs with
      | none => simp [ofLe_ffffffff]
      | some q =>
        have hq : q.length = 4 := f4 q h16
        have hqe : q.isEmpty = false := by
          cases q with
          | nil => simp at hq
          | cons _ _ => rfl
        simp [hqe]

theorem View.vout_v2 (ko : KeyOps) (pre post : Bytes) (scopes : List (List KV))
    (v : View) (j : Nat) (kvs : List KV) (s : OutScope)
    (hw : ∀ kvs ∈ scopes, ∀ kv ∈ kvs, KVWF kv) (hf : v.firstScope = pre.length)
    (hcnt : v.numIn + v.numOut = scopes.length) (hj : j < v.numOut) (hk : scopes[v.numIn + j]? = some kvs)
    (htx : v.tx = none) (hs : OutScope.addPairs ko {} kvs = some s) :
    View.vout (pre ++ (scopes.flatMap writeKVs ++ post)) v j = s.vout := by
  obtain ⟨pos, P, rest, h1, hb, hp, _, hwk⟩ := scope_read pre post scopes v (v.numIn + j) kvs hw hf hcnt hk
  obtain ⟨f1, f2⟩ := OutScope.addPairs_v2_fields ko kvs s hs
  have hval : ∀ key : Bytes, key ≠ [] →
      View.getValue (pre ++ (scopes.flatMap writeKVs ++ post)) key pos = some (lookup key kvs) := by
    intro key hkey
    rw [hb]
    apply valueAt_spec rest key hkey kvs P _ _ hwk hp
    have := writeKVs_length kvs
    simp; omega
  have : ¬ j ≥ v.numOut := by omega
  simp only [View.vout, this, if_false, htx, h1, hval [0x03] (by decide), hval [0x04] (by decide)]
  simp only [OutScope.vout, f1, f2]
  cases h3 : lookup [0x03] kvs with
  | none => simp
  | some a =>
    cases h4 : lookup [0x04] kvs with
    | none => simp
    | some b => simp
/-! ### the global scope as `PSBT.parse` sees it -/

theorem lastFold_filter {α : Type} (key : Bytes) (f : Bytes → Option α) (p : KV → Bool)
    (hp : ∀ kv : KV, kv.1 = key → p kv = true) :
    ∀ (g : List KV) (a : Option α), lastFold key f a (g.filter p) = lastFold key f a g := by
  intro g
  induction g with
  | nil => intro a; rfl
  | cons kv g ih =>
    intro a
    by_cases h : p kv = true
    · simp only [List.filter_cons, h, if_true, lastFold_cons]; exact ih _
    · have hk : ¬ kv.1 = key := fun e => h (hp kv e)
      simp only [List.filter_cons, h, lastFold_cons, hk, if_false]
      exact ih _

/-- in a list without duplicate keys a key determines its value -/
theorem nodup_keys_unique {β : Type} : ∀ (l : List (Bytes × β)) (k : Bytes) (v v' : β),
    (l.map Prod.fst).Nodup → (k, v) ∈ l → (k, v') ∈ l → v = v' := by
  intro l
  induction l with
  | nil => intro k v v' _ h; simp at h
  | cons x xs ih =>
    intro k v v' hn h1 h2
    simp only [List.map_cons, List.nodup_cons] at hn
    simp only [List.mem_cons] at h1 h2
    rcases h1 with h1 | h1 <;> rcases h2 with h2 | h2
    · rw [← h2] at h1; exact (Prod.mk.inj h1).2
    · exfalso; apply hn.1; rw [← h1]; exact List.mem_map.mpr ⟨(k, v'), h2, rfl⟩
    · exfalso; apply hn.1; rw [← h2]; exact List.mem_map.mpr ⟨(k, v), h1, rfl⟩
    · exact ih k v v' hn.2 h1 h2

/-- the pairs the global fold hands on to `parse_unknowns`: everything except keys 00 and fb, in order -/
def notTxVer (kv : KV) : Bool := !(kv.1 == [0x00]) && !(kv.1 == [0xfb])

theorem globalFold_unk : ∀ (g : List KV) (tx : Option Tx) (ver : Option Nat) (unk : List KV)
    (tx' : Option Tx) (ver' : Option Nat) (unk' : List KV),
    globalFold tx ver unk g = some (tx', ver', unk') → unk' = unk ++ g.filter notTxVer := by
  intro g
  induction g with
  | nil => intro tx ver unk tx' ver' unk' h; simp [globalFold] at h; obtain ⟨rfl, rfl, rfl⟩ := h; simp
  | cons kv g ih =>
    intro tx ver unk tx' ver' unk' h
    obtain ⟨k, v⟩ := kv
    simp only [globalFold] at h
    split at h
    · rename_i hk0
      split at h
      · simp at h
      · split at h
        · simp at h
        · split at h
          · simp at h
          · rw [ih _ _ _ _ _ _ h]; simp [notTxVer, hk0]
    · rename_i hk0
      split at h
      · rename_i hkfb
        split at h
        · simp at h
        · split at h
          · simp at h
          · rw [ih _ _ _ _ _ _ h]; simp [notTxVer, hkfb]
      · rename_i hkfb
        split at h
        · simp at h
        · have hp : notTxVer (k, v) = true := by simp [notTxVer, hk0, hkfb]
          rw [ih _ _ _ _ _ _ h]; simp [List.filter_cons, hp]

/-- the version the global fold returns is the one stored under key fb -/
theorem globalFold_ver : ∀ (g : List KV) (tx : Option Tx) (ver : Option Nat) (unk : List KV)
    (tx' : Option Tx) (ver' : Option Nat) (unk' : List KV),
    globalFold tx ver unk g = some (tx', ver', unk') →
      (∀ kv ∈ g, kv.1 = [0xfb] → ver' = some (ofLe kv.2)) ∧ ((∀ kv ∈ g, kv.1 ≠ [0xfb]) → ver' = ver) := by
  intro g
  induction g with
  | nil => intro tx ver unk tx' ver' unk' h; simp [globalFold] at h; obtain ⟨rfl, rfl, rfl⟩ := h; simp
  | cons kv g ih =>
    intro tx ver unk tx' ver' unk' h
    obtain ⟨k, v⟩ := kv
    simp only [globalFold] at h
    split at h
    · rename_i hk0
      split at h
      · simp at h
      · split at h
        · simp at h
        · split at h
          · simp at h
          · obtain ⟨r1, r2⟩ := ih _ _ _ _ _ _ h
            refine ⟨?_, fun hh => r2 (fun x hx => hh x (by simp [hx]))⟩
            intro x hx hxk; simp at hx
            rcases hx with rfl | hx
            · simp [hk0] at hxk
            · exact r1 x hx hxk
    · rename_i hk0
      split at h
      · rename_i hkfb
        split at h
        · simp at h
        · split at h
          · simp at h
          · obtain ⟨r1, r2⟩ := ih _ _ _ _ _ _ h
            have hp := (globalFold_spec g _ _ _ _ _ _ h).2.1 _ rfl
            refine ⟨?_, fun hh => absurd hkfb (hh (k, v) (by simp))⟩
            intro x hx hxk; simp at hx
            rcases hx with rfl | hx
            · exact hp
            · exact r1 x hx hxk
      · rename_i hkfb
        split at h
        · simp at h
        · obtain ⟨r1, r2⟩ := ih _ _ _ _ _ _ h
          refine ⟨?_, fun hh => r2 (fun x hx => hh x (by simp [hx]))⟩
          intro x hx hxk; simp at hx
          rcases hx with rfl | hx
          · exact absurd hxk hkfb
          · exact r1 x hx hxk

/-- a global transaction that is already there makes every further key 00 fail -/
theorem globalFold_no00 (g : List KV) (t0 : Tx) (ver : Option Nat) (unk : List KV)
    (tx' : Option Tx) (ver' : Option Nat) (unk' : List KV)
    (h : globalFold (some t0) ver unk g = some (tx', ver', unk')) : ∀ kv ∈ g, kv.1 ≠ [0x00] := by
  intro kv hkv
  rcases (globalFold_spec g _ _ _ _ _ _ h).2.2.2.2 kv hkv with ⟨_, _, _, _, _, hn⟩ | ⟨e, _⟩ | ⟨_, e, _⟩
  · simp at hn
  · rw [e]; decide
  · exact e

/-- version 0: the global scope is pairs, the (parsed, unsigned) transaction under key 00, pairs -/
theorem globalFold_split : ∀ (g : List KV) (ver : Option Nat) (unk : List KV)
    (t : Tx) (ver' : Option Nat) (unk' : List KV),
    globalFold none ver unk g = some (some t, ver', unk') →
      ∃ g1 v g2, g = g1 ++ ([0x00], v) :: g2 ∧ (∀ kv ∈ g1, kv.1 ≠ [0x00]) ∧ (∀ kv ∈ g2, kv.1 ≠ [0x00])
        ∧ Tx.parse v = some t ∧ Unsigned t := by
  intro g
  induction g with
  | nil => intro ver unk t ver' unk' h; simp [globalFold] at h
  | cons kv g ih =>
    intro ver unk t ver' unk' h
    obtain ⟨k, v⟩ := kv
    have h' := h
    simp only [globalFold] at h
    split at h
    · rename_i hk0
      split at h
      · simp at h
      · split at h
        · simp at h
        · rename_i t0 ht0
          split at h
          · simp at h
          · rename_i hun
            have e := (globalFold_spec g _ _ _ _ _ _ h).1 t0 rfl
            simp at e; subst e
            refine ⟨[], v, g, by simp [hk0], by simp, globalFold_no00 g _ _ _ _ _ _ h, ht0, ?_⟩
            intro i hi
            simp only [List.any_eq_true, not_exists] at hun
            have := hun i
            simp [hi] at this
            exact this
    · rename_i hk0
      split at h
      · split at h
        · simp at h
        · split at h
          · simp at h
          · obtain ⟨g1, w, g2, e, a1, a2, a3, a4⟩ := ih _ _ _ _ _ h
            refine ⟨(k, v) :: g1, w, g2, by simp [e], ?_, a2, a3, a4⟩
            intro x hx; simp at hx
            rcases hx with rfl | hx
            · exact hk0
            · exact a1 x hx
      · split at h
        · simp at h
        · obtain ⟨g1, w, g2, e, a1, a2, a3, a4⟩ := ih _ _ _ _ _ h
          refine ⟨(k, v) :: g1, w, g2, by simp [e], ?_, a2, a3, a4⟩
          intro x hx; simp at hx
          rcases hx with rfl | hx
          · exact hk0
          · exact a1 x hx

/-- PSBTv2: what `parse_unknowns` remembers about the keys 02 / 03 / 04 / 05 — the last occurrence wins, exactly
    like in the view's scan — and every count value is a canonical CompactSize -/
theorem parseUnknowns_fold (ko : KeyOps) : ∀ (unk : List KV) (g g' : GState),
    parseUnknowns ko true g unk = some g' →
      g'.txVersion = lastFold [0x02] (fun v => some (ofLe v)) g.txVersion unk
      ∧ g'.locktime = lastFold [0x03] (fun v => some (ofLe v)) g.locktime unk
      ∧ g'.nin = lastFold [0x04] (parseAll Compact.read) g.nin unk
      ∧ g'.nout = lastFold [0x05] (parseAll Compact.read) g.nout unk
      ∧ (∀ kv ∈ unk, kv.1 = [0x04] ∨ kv.1 = [0x05] → (parseAll Compact.read kv.2).isSome) := by
  intro unk
  induction unk with
  | nil => intro g g' h; simp [parseUnknowns] at h; subst h; simp [lastFold_nil]
  | cons kv unk ih =>
    intro g g' h
    obtain ⟨k, v⟩ := kv
    simp only [parseUnknowns] at h
    split at h
    · obtain ⟨a1, a2, a3, a4, a5⟩ := ih _ _ h
      refine ⟨by simp [lastFold_cons, a1], by simp [lastFold_cons, a2], by simp [lastFold_cons, a3],
        by simp [lastFold_cons, a4], ?_⟩
      intro x hx hxk; simp at hx
      rcases hx with rfl | hx
      · simp at hxk
      · exact a5 x hx hxk
    · rename_i k0 krest
      split at h
      · rename_i hk0
        split at h
        · simp at h
        · split at h
          · simp at h
          · obtain ⟨a1, a2, a3, a4, a5⟩ := ih _ _ h
            subst hk0
            refine ⟨by simp [lastFold_cons, a1], by simp [lastFold_cons, a2], by simp [lastFold_cons, a3],
              by simp [lastFold_cons, a4], ?_⟩
            intro x hx hxk; simp at hx
            rcases hx with rfl | hx
            · simp at hxk
            · exact a5 x hx hxk
      · split at h
        · rename_i hc
          simp only [Bool.true_and, decide_eq_true_eq] at hc
          split at h
          · simp at h
          · obtain ⟨a1, a2, a3, a4, a5⟩ := ih _ _ h
            rw [hc]
            refine ⟨by simp [lastFold_cons, a1], by simp [lastFold_cons, a2], by simp [lastFold_cons, a3],
              by simp [lastFold_cons, a4], ?_⟩
            intro x hx hxk; simp at hx
            rcases hx with rfl | hx
            · simp at hxk
            · exact a5 x hx hxk
        · rename_i hc2
          split at h
          · rename_i hc
            simp only [Bool.true_and, decide_eq_true_eq] at hc
            split at h
            · simp at h
            · obtain ⟨a1, a2, a3, a4, a5⟩ := ih _ _ h
              rw [hc]
              refine ⟨by simp [lastFold_cons, a1], by simp [lastFold_cons, a2], by simp [lastFold_cons, a3],
                by simp [lastFold_cons, a4], ?_⟩
              intro x hx hxk; simp at hx
              rcases hx with rfl | hx
              · simp at hxk
              · exact a5 x hx hxk
          · rename_i hc3
            split at h
            · rename_i hc
              simp only [Bool.true_and, decide_eq_true_eq] at hc
              split at h
              · simp at h
              · rename_i n hn
                obtain ⟨a1, a2, a3, a4, a5⟩ := ih _ _ h
                rw [hc]
                refine ⟨by simp [lastFold_cons, a1], by simp [lastFold_cons, a2], by simp [lastFold_cons, a3, hn],
                  by simp [lastFold_cons, a4], ?_⟩
                intro x hx hxk; simp at hx
                rcases hx with rfl | hx
                · simp [hn]
                · exact a5 x hx hxk
            · rename_i hc4
              split at h
              · rename_i hc
                simp only [Bool.true_and, decide_eq_true_eq] at hc
                split at h
                · simp at h
                · rename_i n hn
                  obtain ⟨a1, a2, a3, a4, a5⟩ := ih _ _ h
                  rw [hc]
                  refine ⟨by simp [lastFold_cons, a1], by simp [lastFold_cons, a2], by simp [lastFold_cons, a3],
                    by simp [lastFold_cons, a4, hn], ?_⟩
                  intro x hx hxk; simp at hx
                  rcases hx with rfl | hx
                  · simp [hn]
                  · exact a5 x hx hxk
              · rename_i hc5
                simp only [Bool.true_and, decide_eq_true_eq] at hc2 hc3 hc4 hc5
                obtain ⟨a1, a2, a3, a4, a5⟩ := ih _ _ h
                refine ⟨by simp [lastFold_cons, a1, hc2], by simp [lastFold_cons, a2, hc3],
                  by simp [lastFold_cons, a3, hc4], by simp [lastFold_cons, a4, hc5], ?_⟩
                intro x hx hxk; simp at hx
                rcases hx with rfl | hx
                · rcases hxk with e | e
                  · exact absurd e hc4
                  · exact absurd e hc5
                · exact a5 x hx hxk
/-! ### the decomposition `PSBT.parse` performs -/

/-- the initial state of `parse_unknowns` (counts / version / locktime of the global transaction, if any) -/
def gstate0 (tx : Option Tx) : GState :=
  { txVersion := tx.map (·.version), locktime := tx.map (·.locktime),
    nin := tx.map (·.vin.length), nout := tx.map (·.vout.length), xpubs := [], unknown := [] }

/-- `PSBT.parse` (KEEP_ALL) accepted `b`: the framing, the global fold, the `parse_unknowns` pass, and the
    per-scope folds — with every equation (this is `C04.parse_lossless` with the intermediate objects exposed) -/
theorem parse_decomp (ko : KeyOps) (sha : Bytes → Bytes) (b : Bytes) (p : Psbt)
    (h : Psbt.parse ko sha 0 b = some p) :
    ∃ (g : List KV) (kin kout : List (List KV)) (tx : Option Tx) (unk : List KV) (gs : GState),
      b = psbtMagic ++ (writeKVs g ++ ((kin ++ kout).flatMap writeKVs))
      ∧ (∀ kv ∈ g, KVWF kv) ∧ (∀ kvs ∈ kin ++ kout, ∀ kv ∈ kvs, KVWF kv)
      ∧ globalFold none none [] g = some (tx, p.version, unk)
      ∧ parseUnknowns ko (p.version == some 2) (gstate0 tx) unk = some gs
      ∧ ((p.version = some 2 ∧ tx = none) ∨ (p.version ≠ some 2 ∧ ∃ t, tx = some t))
      ∧ p.txVersion = gs.txVersion ∧ p.locktime = gs.locktime ∧ p.xpubs = gs.xpubs ∧ p.unknown = gs.unknown
      ∧ kin.length = p.inputs.length ∧ kout.length = p.outputs.length
      ∧ p.inputs.length = gs.nin.getD 0 ∧ p.outputs.length = gs.nout.getD 0
      ∧ (∀ j, j < p.inputs.length → ∃ kvs s, kin[j]? = some kvs ∧ p.inputs[j]? = some s
            ∧ InScope.addPairs ko sha 0 (seedIn tx j) kvs = some s)
      ∧ (∀ j, j < p.outputs.length → ∃ kvs s, kout[j]? = some kvs ∧ p.outputs[j]? = some s
            ∧ OutScope.addPairs ko (seedOut tx j) kvs = some s)
      ∧ (∀ t, tx = some t → p.tx = some t ∧ p.inputs.length = t.vin.length ∧ p.outputs.length = t.vout.length) := by
  unfold Psbt.parse at h
  split at h
  · simp at h
  · rename_i m r0 hm
    obtain ⟨em, lm⟩ := takeN_sound hm
    split at h
    · simp at h
    · rename_i hmagic
      simp only [ne_eq, Decidable.not_not] at hmagic
      split at h
      · simp at h
      · rename_i g r1 hg
        obtain ⟨eg, wg⟩ := readKVs_sound hg
        split at h
        · simp at h
        · rename_i tx ver unk hgf
          simp only [] at h
          split at h
          · simp at h
          · rename_i hc1
            split at h
            · simp at h
            · rename_i hc2
              split at h
              · simp at h
              · rename_i gs hpu
                generalize hnin : gs.nin.getD 0 = nin at h
                generalize hnout : gs.nout.getD 0 = nout at h
                · split at h
                  · simp at h
                  · rename_i ins' r2 hins
                    split at h
                    · simp at h
                    · rename_i outs' r3 houts
                      split at h
                      · simp at h
                      · rename_i hr3
                        simp at h
                        have hr3' : r3 = [] := by simpa using hr3
                        obtain ⟨f1, f2, f3, f5, f4⟩ := globalFold_spec g none none [] tx ver unk hgf
                        have hnd := globalFold_nodup g none none [] tx ver unk hgf (by simp)
                        obtain ⟨u1, u2, u3, u4, u5, u6, u7, u8⟩ :=
                          parseUnknowns_spec ko (ver == some 2) unk _ gs hnd hpu
                        obtain ⟨kin, ei, li1, li2, wi, fi⟩ := readIns_spec ko sha tx nin 0 r1 ins' r2 hins
                        obtain ⟨kout, eo, lo1, lo2, wo, fo⟩ := readOuts_spec ko tx nout 0 r2 outs' r3 houts
                        subst h
                        have hver : (ver = some 2 ∧ tx = none) ∨ (ver ≠ some 2 ∧ ∃ t, tx = some t) := by
                          by_cases hv : ver = some 2
                          · left; refine ⟨hv, ?_⟩
                            cases tx with
                            | none => rfl
                            | some t => simp [hv] at hc1
                          · right; refine ⟨hv, ?_⟩
                            cases tx with
                            | none => simp [hv] at hc2
                            | some t => exact ⟨t, rfl⟩
                        have hrec : ∀ t, tx = some t →
                            Psbt.tx { version := ver, txVersion := gs.txVersion, locktime := gs.locktime,
                                      xpubs := gs.xpubs, unknown := gs.unknown, inputs := ins', outputs := outs' }
                              = some t ∧ nin = t.vin.length ∧ nout = t.vout.length := by
                          intro t ht
                          subst ht
                          have hv : ver ≠ some 2 := by
                            rcases hver with ⟨_, hn⟩ | ⟨hv, _⟩
                            · simp at hn
                            · exact hv
                          have huns : Unsigned t := by
                            rcases f5 t rfl with hh | hh
                            · simp at hh
                            · exact hh
                          obtain ⟨c1, c2, c3, c4⟩ := u7 (by simp [hv])
                          rw [c3] at hnin; simp at hnin
                          rw [c4] at hnout; simp at hnout
                          have hvin : optAll (ins'.map InScope.vin) = some t.vin := by
                            apply Props.C04.optAll_map_eq
                            · omega
                            · intro j a ha
                              have hj : j < nin := by
                                have := (List.getElem?_eq_some_iff.mp ha).1; omega
                              have hjt : j < t.vin.length := by omega
                              obtain ⟨kvs', s', a1, a2, a3⟩ := fi j hj
                              rw [ha] at a2; simp at a2; subst a2
                              have hne : ∀ kv ∈ kvs', kv.1 ≠ [] := fun kv hkv =>
                                (wi kvs' (List.mem_of_getElem? a1) kv hkv).1
                              have hseed : InSeeded (seedIn (some t) (0 + j)) := by
                                simp [seedIn, List.getElem?_eq_getElem hjt, InSeeded]
                              obtain ⟨_, _, k3⟩ := InScope.addPairs_lossless ko sha ver kvs' _ a (Or.inr hseed) hne a3
                              obtain ⟨e1, e2, e3⟩ := k3 hseed
                              refine ⟨t.vin[j], List.getElem?_eq_getElem hjt, ?_⟩
                              have hu := huns t.vin[j] (List.getElem_mem hjt)
                              simp [seedIn, List.getElem?_eq_getElem hjt] at e1 e2 e3
                              simp only [InScope.vin, e1, e2, e3, Option.getD_some]
                              cases hh : t.vin[j] with
                              | mk a1 a2 a3 a4 a5 => simp [hh] at hu ⊢; exact ⟨hu.1, hu.2⟩
                          have hvout : optAll (outs'.map OutScope.vout) = some t.vout := by
                            apply Props.C04.optAll_map_eq
                            · omega
                            · intro j a ha
                              have hj : j < nout := by
                                have := (List.getElem?_eq_some_iff.mp ha).1; omega
                              have hjt : j < t.vout.length := by omega
                              obtain ⟨kvs', s', a1, a2, a3⟩ := fo j hj
                              rw [ha] at a2; simp at a2; subst a2
                              have hne : ∀ kv ∈ kvs', kv.1 ≠ [] := fun kv hkv =>
                                (wo kvs' (List.mem_of_getElem? a1) kv hkv).1
                              have hseed : OutSeeded (seedOut (some t) (0 + j)) := by
                                simp [seedOut, List.getElem?_eq_getElem hjt, OutSeeded]
                              obtain ⟨_, _, k3⟩ := OutScope.addPairs_lossless ko ver kvs' _ a (Or.inr hseed) hne a3
                              obtain ⟨e1, e2⟩ := k3 hseed
                              refine ⟨t.vout[j], List.getElem?_eq_getElem hjt, ?_⟩
                              simp [seedOut, List.getElem?_eq_getElem hjt] at e1 e2
                              simp only [OutScope.vout, e1, e2]
                          refine ⟨?_, hnin.symm, hnout.symm⟩
                          simp only [Psbt.tx, hvin, hvout, c1, c2]
                          simp
                        refine ⟨g, kin, kout, tx, unk, gs, ?_, wg, ?_, hgf, hpu, hver, rfl, rfl, rfl, rfl,
                          by simp [li1, li2], by simp [lo1, lo2], by simp [li2, hnin], by simp [lo2, hnout], ?_, ?_, ?_⟩
                        · simp [em, hmagic, eg, ei, eo, hr3', List.append_assoc]
                        · intro kvs hk
                          rcases List.mem_append.mp hk with hk | hk
                          · exact wi kvs hk
                          · exact wo kvs hk
                        · intro j hj
                          obtain ⟨kvs, s, a1, a2, a3⟩ := fi j (by simpa [li2] using hj)
                          exact ⟨kvs, s, a1, a2, by simpa using a3⟩
                        · intro j hj
                          obtain ⟨kvs, s, a1, a2, a3⟩ := fo j (by simpa [lo2] using hj)
                          exact ⟨kvs, s, a1, a2, by simpa using a3⟩
                        · intro t ht
                          obtain ⟨r1, r2, r3⟩ := hrec t ht
                          exact ⟨r1, by simp [li2, r2], by simp [lo2, r3]⟩
/-! ### PSBTv2 global fields -/

/-- if the key occurs, the fold comes from one of its occurrences -/
theorem lastFold_occ {α : Type} (key : Bytes) (f : Bytes → Option α) :
    ∀ (g : List KV) (a : Option α), (∃ kv ∈ g, kv.1 = key) →
      ∃ kv ∈ g, kv.1 = key ∧ lastFold key f a g = f kv.2 := by
  intro g
  induction g with
  | nil => intro a h; simp at h
  | cons kv g ih =>
    intro a h
    rw [lastFold_cons]
    by_cases hg : ∃ x ∈ g, x.1 = key
    · obtain ⟨x, hx, hk, e⟩ := ih (if kv.1 = key then f kv.2 else a) hg
      exact ⟨x, by simp [hx], hk, e⟩
    · have hno : ∀ x ∈ g, x.1 ≠ key := fun x hx e => hg ⟨x, hx, e⟩
      obtain ⟨x, hx, hk⟩ := h
      simp at hx
      rcases hx with rfl | hx
      · refine ⟨x, by simp, hk, ?_⟩
        rw [lastFold_absent key f _ g hno]; simp [hk]
      · exact absurd hk (hno x hx)

/-- PSBTv2: a global field that `parse_unknowns` takes from the (duplicate-free) unknown map is the value the
    view finds under that key in the global scope -/
theorem v2_field_lookup (g unk : List KV) (hunk : unk = g.filter notTxVer) (hnd : (unk.map Prod.fst).Nodup)
    (key : Bytes) (hkey : ∀ kv : KV, kv.1 = key → notTxVer kv = true) (f : Bytes → Nat) :
    lastFold key (fun v => some (f v)) none unk = (lookup key g).map f := by
  cases hl : lookup key g with
  | none =>
    have hno := lookup_none_not_mem key g hl
    rw [lastFold_absent key _ none unk (fun kv hkv => hno kv (by rw [hunk] at hkv; exact (List.mem_filter.mp hkv).1))]
    rfl
  | some x =>
    have hm : (key, x) ∈ unk := by
      rw [hunk]; exact List.mem_filter.mpr ⟨lookup_mem key g x hl, hkey _ rfl⟩
    apply lastFold_char
    · intro kv hkv hk
      have : (key, kv.2) ∈ unk := by rw [← hk]; exact hkv
      rw [nodup_keys_unique unk key kv.2 x hnd this hm]; rfl
    · intro hno; exact absurd rfl (hno _ hm)

end Embit
