import EmbitModel.Proofs.KeysReject
/-
  `PublicKey.parse` is exactly the strict SEC decoder of `Spec/KeyEncodings.lean`, on every byte string.
-/
namespace Embit.Keys
open Embit

variable {E : EcOps}

theorem pubkeySerialize_eq_spec (P : E.Pt) (c : Bool) : pubkeySerialize E P c = Spec.KeyEnc.sec E P c := by
  unfold pubkeySerialize Spec.KeyEnc.sec
  cases c
  · rfl
  · simp only [if_true]
    cases h : E.yOdd P
    · have := (yOdd_false P).mp h; simp [this]
    · have := (yOdd_eq P).mp h; simp [this]

theorem parse_eq_secDecode (b : Bytes) :
    PublicKey.parse E b = (Spec.KeyEnc.secDecode E b).map (fun pc => ⟨pc.1, pc.2⟩) := by
  cases b with
  | nil => rfl
  | cons f r =>
    by_cases h2 : f = 0x02
    · subst h2
      by_cases hl : r.length = 32
      · simp only [PublicKey.parse, PublicKey.readFrom, Spec.KeyEnc.secDecode]
        rw [if_pos (by simp)]
        have h4 : ((2:UInt8) = 4) = False := by simp
        simp only [h4, if_false, take_len r 32 hl, pubkeyParse, hl, if_true, true_and]
        have hd : r.drop 32 = [] := List.drop_eq_nil_of_le (by omega)
        cases E.liftX (ofBe r) with
        | none => rfl
        | some P => simp [hd]
      · rw [sec_prefix_length_mismatch (E := E) 0x02 r (Or.inr ⟨Or.inl rfl, hl⟩)]
        simp [Spec.KeyEnc.secDecode, hl]
    · by_cases h3 : f = 0x03
      · subst h3
        by_cases hl : r.length = 32
        · simp only [PublicKey.parse, PublicKey.readFrom, Spec.KeyEnc.secDecode]
          rw [if_pos (by simp)]
          have h4 : ((3:UInt8) = 4) = False := by simp
          have h32 : ((3:UInt8) = 2) = False := by simp
          simp only [h4, h32, if_false, take_len r 32 hl, pubkeyParse, hl, if_true, true_and, false_and]
          have hd : r.drop 32 = [] := List.drop_eq_nil_of_le (by omega)
          cases E.liftX (ofBe r) with
          | none => rfl
          | some P => simp [hd]
        · rw [sec_prefix_length_mismatch (E := E) 0x03 r (Or.inr ⟨Or.inr rfl, hl⟩)]
          simp [Spec.KeyEnc.secDecode, hl]
      · by_cases h4 : f = 0x04
        · subst h4
          by_cases hl : r.length = 64
          · simp only [PublicKey.parse, PublicKey.readFrom, Spec.KeyEnc.secDecode]
            rw [if_pos (by simp)]
            have h42 : ((4:UInt8) = 2) = False := by simp
            have h43 : ((4:UInt8) = 3) = False := by simp
            have hne : ¬ r.length = 32 := by omega
            simp only [h42, h43, if_true, take_len r 64 hl, pubkeyParse, hl, hne, if_false, true_and, false_and]
            have hd : r.drop 64 = [] := List.drop_eq_nil_of_le (by omega)
            cases E.ofXY (ofBe (r.take 32)) (ofBe (r.drop 32)) with
            | none => rfl
            | some P => simp [hd]
          · rw [sec_prefix_length_mismatch (E := E) 0x04 r (Or.inl ⟨rfl, hl⟩)]
            simp [Spec.KeyEnc.secDecode, hl]
        · rw [sec_bad_prefix (E := E) f r ⟨h2, h3, h4⟩]
          simp [Spec.KeyEnc.secDecode, h2, h3, h4]

end Embit.Keys

namespace Embit.Keys
open Embit

variable {E : EcOps}

/-- whatever the SEC parser accepts re-encodes to exactly the same bytes (no second encoding of a key is accepted) -/
theorem parse_sec_sound (L : EcLaws E) (b : Bytes) (k : PublicKey E) (h : PublicKey.parse E b = some k) :
    k.sec = b ∧ E.isInf k.point = false := by
  rw [parse_eq_secDecode] at h
  cases b with
  | nil => simp [Spec.KeyEnc.secDecode] at h
  | cons f r =>
    simp only [Spec.KeyEnc.secDecode] at h
    by_cases h2 : f = 0x02 ∧ r.length = 32
    · rw [if_pos h2] at h
      cases hl : E.liftX (ofBe r) with
      | none => simp [hl] at h
      | some P =>
        simp only [hl, Option.map_some, Option.some.injEq] at h
        obtain ⟨hi, hx, hy⟩ := L.liftX_sound _ P hl
        subst h
        refine ⟨?_, hi⟩
        simp [PublicKey.sec, pubkeySerialize, hy, hx, h2.1, beN32_ofBe r h2.2]
    · rw [if_neg h2] at h
      by_cases h3 : f = 0x03 ∧ r.length = 32
      · rw [if_pos h3] at h
        cases hl : E.liftX (ofBe r) with
        | none => simp [hl] at h
        | some P =>
          simp only [hl, Option.map_some, Option.some.injEq] at h
          obtain ⟨hi, hx, hy⟩ := L.liftX_sound _ P hl
          subst h
          refine ⟨?_, by simp [L.neg_inf, hi]⟩
          simp [PublicKey.sec, pubkeySerialize, L.yOdd_neg P hi, hy, L.x_neg P hi, hx, h3.1, beN32_ofBe r h3.2]
      · rw [if_neg h3] at h
        by_cases h4 : f = 0x04 ∧ r.length = 64
        · rw [if_pos h4] at h
          cases hl : E.ofXY (ofBe (r.take 32)) (ofBe (r.drop 32)) with
          | none => simp [hl] at h
          | some P =>
            simp only [hl, Option.map_some, Option.some.injEq] at h
            obtain ⟨hi, hx, hy⟩ := L.ofXY_sound _ _ P hl
            subst h
            refine ⟨?_, hi⟩
            have e1 : beN 32 (ofBe (r.take 32)) = r.take 32 := beN32_ofBe _ (by simp [h4.2])
            have e2 : beN 32 (ofBe (r.drop 32)) = r.drop 32 := beN32_ofBe _ (by simp [h4.2])
            simp [PublicKey.sec, pubkeySerialize, hx, hy, h4.1, e1, e2]
        · rw [if_neg h4] at h; cases h

end Embit.Keys
