import Mathlib.LinearAlgebra.Lagrange
import EmbitModel.Proofs.Slip39Field
/-
  Model.interpolate (sums of logarithms, exp/log tables) = Lagrange interpolation over GF(256), bytewise,
  stated with Mathlib's `Lagrange.interpolate`.
-/

namespace Embit.Model.Slip39
open GF256

theorem ofNat_val {n : Nat} (h : n < 256) : (GF256.ofNat n).val = n := Nat.mod_eq_of_lt h

theorem ofNat_xor (a b : Nat) (ha : a < 256) (hb : b < 256) : GF256.ofNat (a ^^^ b) = GF256.ofNat a + GF256.ofNat b := by
  ext; simp [ofNat_val ha, ofNat_val hb, ofNat_val (xor_lt_256 ha hb)]

theorem ofNat_eq_zero {n : Nat} (h : n < 256) : GF256.ofNat n = 0 ↔ n = 0 := by
  constructor
  · intro e; have := congrArg GF256.val e; simpa [ofNat_val h] using this
  · intro e; subst e; rfl

theorem ofNat_mulL (a b : Nat) (ha : a < 256) (hb : b < 256) : GF256.ofNat (mulL a b) = GF256.ofNat a * GF256.ofNat b := by
  ext; simp [ofNat_val ha, ofNat_val hb, ofNat_val (mulL_lt a b)]

theorem expL_lt (i : Nat) : expL (i % 255) < 256 := (expL_facts _ (Nat.mod_lt _ (by decide))).2.1
theorem expL_ne (i : Nat) : expL (i % 255) ≠ 0 := by
  have := (expL_facts _ (Nat.mod_lt i (by decide))).1; omega
theorem logL_expL (i : Nat) : logL (expL (i % 255)) = i % 255 := (expL_facts _ (Nat.mod_lt _ (by decide))).2.2

/-- product of nonzero elements = exp of the sum of their logs -/
theorem prod_eq_exp_sum (as : List Nat) (h : ∀ a ∈ as, a ≠ 0 ∧ a < 256) :
    (as.map GF256.ofNat).prod = GF256.ofNat (expL (sumNat (as.map logL) % 255)) := by
  induction as with
  | nil => simp [sumNat, expL_zero]; rfl
  | cons a as ih =>
    have ha := h a (List.mem_cons_self)
    rw [List.map_cons, List.prod_cons, ih (fun a' h' => h a' (List.mem_cons_of_mem _ h'))]
    rw [← ofNat_mulL _ _ ha.2 (expL_lt _)]
    congr 1
    rw [mulL_nz ha.1 (expL_ne _), logL_expL]
    simp only [List.map_cons, sumNat, List.foldr_cons]
    congr 1
    change (logL a + sumNat (as.map logL) % 255) % 255 = (logL a + sumNat (as.map logL)) % 255
    omega

/-- `exp[(N - D) mod 255] = exp[N mod 255] / exp[D mod 255]` (Python's `%` on a possibly negative difference) -/
theorem exp_sub (N D : Nat) :
    GF256.ofNat (expL ((((N : Int) - (D : Int)) % 255).toNat)) =
      GF256.ofNat (expL (N % 255)) / GF256.ofNat (expL (D % 255)) := by
  have hm : (((N : Int) - (D : Int)) % 255).toNat = (((N : Int) - (D : Int)) % 255).toNat % 255 := by omega
  have hD : GF256.ofNat (expL (D % 255)) ≠ 0 := by
    rw [Ne, ofNat_eq_zero (expL_lt _)]; exact expL_ne _
  rw [eq_div_iff hD, hm, ← ofNat_mulL _ _ (expL_lt _) (expL_lt _), mulL_nz (expL_ne _) (expL_ne _), logL_expL, logL_expL]
  congr 2
  omega


/-! ### the per-share logarithm of `interpolate` is the log of the Lagrange basis value -/

theorem eq_of_xor_eq_zero {a b : Nat} (h : a ^^^ b = 0) : a = b := by
  have : (a ^^^ b) ^^^ b = 0 ^^^ b := by rw [h]
  rwa [Nat.xor_assoc, Nat.xor_self, Nat.xor_zero, Nat.zero_xor] at this

theorem sumNat_erase (f : Nat → Nat) (l : List Nat) (a : Nat) (h : a ∈ l) :
    sumNat (l.map f) = f a + sumNat ((l.erase a).map f) := by
  induction l with
  | nil => simp at h
  | cons b l ih =>
    by_cases e : b = a
    · subst e; simp [sumNat]
    · have : a ∈ l := by
        rcases List.mem_cons.mp h with h | h
        · exact absurd h.symm e
        · exact h
      rw [List.erase_cons_tail (by simpa using e)]
      simp only [List.map_cons, sumNat, List.foldr_cons] at ih ⊢
      have := ih this
      omega

theorem lagrangeLog_lt (x : Nat) (xs : List Nat) (xi : Nat) : lagrangeLog x xs xi < 255 := by
  unfold lagrangeLog; simp only; omega

/-- the Lagrange basis value ℓ_i(x) over the x-coordinates `xs`, as a quotient of two list products -/
def basisVal (x : Nat) (xs : List Nat) (xi : Nat) : GF256 :=
  ((xs.erase xi).map fun xj => GF256.ofNat x - GF256.ofNat xj).prod /
  ((xs.erase xi).map fun xj => GF256.ofNat xi - GF256.ofNat xj).prod

theorem exp_lagrangeLog (x : Nat) (xs : List Nat) (xi : Nat) (hx : x < 256) (hxs : ∀ a ∈ xs, a < 256)
    (hnd : xs.Nodup) (hnot : x ∉ xs) (hi : xi ∈ xs) :
    GF256.ofNat (expL (lagrangeLog x xs xi)) = basisVal x xs xi := by
  have hxi := hxs xi hi
  have hsub : ∀ a ∈ xs.erase xi, a ∈ xs := fun a h => List.mem_of_mem_erase h
  -- numerator
  have hN : sumNat (xs.map fun sx => logL (sx ^^^ x)) = logL (xi ^^^ x) + sumNat ((xs.erase xi).map fun sx => logL (sx ^^^ x)) :=
    sumNat_erase (fun sx => logL (sx ^^^ x)) xs xi hi
  have hD : sumNat (xs.map fun ox => logL (xi ^^^ ox)) = sumNat ((xs.erase xi).map fun ox => logL (xi ^^^ ox)) := by
    rw [sumNat_erase (fun ox => logL (xi ^^^ ox)) xs xi hi]; simp [logL_zero]
  unfold lagrangeLog
  simp only [log_eq_logL]
  rw [hN, hD]
  have e1 : ((logL (xi ^^^ x) + sumNat ((xs.erase xi).map fun sx => logL (sx ^^^ x)) : Nat) : Int) - (logL (xi ^^^ x) : Int)
      = ((sumNat ((xs.erase xi).map fun sx => logL (sx ^^^ x)) : Nat) : Int) := by omega
  rw [e1, exp_sub]
  unfold basisVal
  congr 1
  · have := prod_eq_exp_sum ((xs.erase xi).map fun sx => sx ^^^ x) (by
      intro a ha
      obtain ⟨sx, hsx, rfl⟩ := List.mem_map.mp ha
      have h1 := hxs sx (hsub sx hsx)
      refine ⟨?_, xor_lt_256 h1 hx⟩
      intro h0
      have : sx = x := eq_of_xor_eq_zero h0  
      exact hnot (this ▸ hsub sx hsx))
    rw [List.map_map, List.map_map] at this
    rw [show (fun sx => logL (sx ^^^ x)) = (logL ∘ fun sx => sx ^^^ x) from rfl, ← this]
    congr 1
    apply List.map_congr_left
    intro a ha
    have h1 := hxs a (hsub a ha)
    simp only [Function.comp]
    rw [ofNat_xor _ _ h1 hx, GF256.sub_eq_add, add_comm]
  · have := prod_eq_exp_sum ((xs.erase xi).map fun ox => xi ^^^ ox) (by
      intro a ha
      obtain ⟨ox, hox, rfl⟩ := List.mem_map.mp ha
      have h1 := hxs ox (hsub ox hox)
      refine ⟨?_, xor_lt_256 hxi h1⟩
      intro h0
      have : xi = ox := eq_of_xor_eq_zero h0
      exact (List.Nodup.mem_erase_iff hnd).mp hox |>.1 this.symm)
    rw [List.map_map, List.map_map] at this
    rw [show (fun ox => logL (xi ^^^ ox)) = (logL ∘ fun ox => xi ^^^ ox) from rfl, ← this]
    congr 1
    apply List.map_congr_left
    intro a ha
    have h1 := hxs a (hsub a ha)
    simp only [Function.comp]
    rw [ofNat_xor _ _ hxi h1, GF256.sub_eq_add]


/-! ### the byte update and the fold of `interpolate`, bytewise -/

/-- a byte as a field element -/
def toG (u : UInt8) : GF256 := ⟨u.toNat, u.toNat_lt⟩

theorem toG_eq_ofNat (u : UInt8) : toG u = GF256.ofNat u.toNat := by
  ext; simp [toG, ofNat_val u.toNat_lt]

theorem toG_zero : toG 0 = 0 := rfl

theorem toG_inj {a b : UInt8} (h : toG a = toG b) : a = b := by
  have := congrArg GF256.val h
  exact UInt8.toNat_inj.mp this

theorem mixByte_field (lg : Nat) (hlg : lg < 255) (y c : UInt8) :
    toG (mixByte lg y c) = toG c + toG y * GF256.ofNat (expL lg) := by
  have he := expL_facts lg hlg
  ext
  simp only [toG, mixByte, GF256.add_val, GF256.mul_val, UInt8.toNat_xor, ofNat_val he.2.1, exp_eq_expL, log_eq_logL]
  congr 1
  by_cases hy : y.toNat > 0
  · rw [if_pos hy, mulL_nz (by omega) (by omega), he.2.2]
    simp only [UInt8.toNat_ofNat']
    exact Nat.mod_eq_of_lt (expL_lt _)
  · rw [if_neg hy, show y.toNat = 0 by omega, mulL_zero_left]; rfl

theorem getD_zipWith {α β γ : Type} (f : α → β → γ) (l1 : List α) (l2 : List β) (b : Nat) (da : α) (db : β) (dc : γ)
    (h1 : b < l1.length) (h2 : b < l2.length) :
    (List.zipWith f l1 l2).getD b dc = f (l1.getD b da) (l2.getD b db) := by
  simp [List.getD, List.getElem?_zipWith, List.getElem?_eq_getElem h1, List.getElem?_eq_getElem h2]

theorem fold_mix (lg : Nat → Nat) (hlg : ∀ a, lg a < 255) (data : List (Nat × Bytes)) (init : Bytes)
    (hl : ∀ s ∈ data, s.2.length = init.length) :
    (data.foldl (fun result s => List.zipWith (mixByte (lg s.1)) s.2 result) init).length = init.length ∧
    ∀ b < init.length,
      toG ((data.foldl (fun result s => List.zipWith (mixByte (lg s.1)) s.2 result) init).getD b 0) =
        toG (init.getD b 0) + (data.map fun s => toG (s.2.getD b 0) * GF256.ofNat (expL (lg s.1))).sum := by
  induction data generalizing init with
  | nil => simp
  | cons s data ih =>
    have hs := hl s List.mem_cons_self
    have hlen : (List.zipWith (mixByte (lg s.1)) s.2 init).length = init.length := by simp [hs]
    have := ih (List.zipWith (mixByte (lg s.1)) s.2 init) (by
      intro s' hs'; rw [hlen]; exact hl s' (List.mem_cons_of_mem _ hs'))
    rw [hlen] at this
    refine ⟨this.1, ?_⟩
    intro b hb
    rw [List.foldl_cons, this.2 b hb, getD_zipWith _ _ _ _ 0 0 0 (by omega) hb, mixByte_field _ (hlg _)]
    simp only [List.map_cons, List.sum_cons]
    ring

theorem interpolate_length (x : Nat) (s : Nat × Bytes) (data : List (Nat × Bytes))
    (hl : ∀ s' ∈ s :: data, s'.2.length = s.2.length) : (interpolate x (s :: data)).length = s.2.length := by
  unfold interpolate
  have := (fold_mix (lagrangeLog x ((s :: data).map (·.1))) (lagrangeLog_lt x _) (s :: data)
    (List.replicate s.2.length 0) (by simpa using hl)).1
  simpa using this

/-- byte `b` of `interpolate x data` is Σ_i y_i[b] · ℓ_i(x) in GF(256) -/
theorem interpolate_byte (x : Nat) (s : Nat × Bytes) (data : List (Nat × Bytes))
    (hl : ∀ s' ∈ s :: data, s'.2.length = s.2.length) (hx : x < 256) (hxs : ∀ s' ∈ s :: data, s'.1 < 256)
    (hnd : ((s :: data).map (·.1)).Nodup) (hnot : x ∉ (s :: data).map (·.1)) (b : Nat) (hb : b < s.2.length) :
    toG ((interpolate x (s :: data)).getD b 0) =
      ((s :: data).map fun s' => toG (s'.2.getD b 0) * basisVal x ((s :: data).map (·.1)) s'.1).sum := by
  unfold interpolate
  have := (fold_mix (lagrangeLog x ((s :: data).map (·.1))) (lagrangeLog_lt x _) (s :: data)
    (List.replicate s.2.length 0) (by simpa using hl)).2 b (by simpa using hb)
  simp only at this ⊢
  rw [this]
  have h0 : toG ((List.replicate s.2.length (0 : UInt8)).getD b 0) = 0 := by
    simp [List.getD, hb]; rfl
  rw [h0, zero_add]
  refine congrArg List.sum ?_
  apply List.map_congr_left
  intro s' hs'
  rw [exp_lagrangeLog x _ s'.1 hx (by
    intro a ha; obtain ⟨t, ht, rfl⟩ := List.mem_map.mp ha; exact hxs t ht) hnd hnot (List.mem_map_of_mem hs')]


/-! ### the list formula is Mathlib's `Lagrange.interpolate`, evaluated -/

section generic
variable {F : Type} [Field F] [DecidableEq F]
open Polynomial

/-- the y-value recorded for x-coordinate `a` (0 when absent) -/
def lookup (pts : List (F × F)) (a : F) : F :=
  match pts.find? (fun p => p.1 = a) with
  | some p => p.2
  | none => 0

theorem lookup_mem (pts : List (F × F)) (hnd : (pts.map (·.1)).Nodup) (p : F × F) (hp : p ∈ pts) :
    lookup pts p.1 = p.2 := by
  induction pts with
  | nil => simp at hp
  | cons q pts ih =>
    simp only [List.map_cons, List.nodup_cons] at hnd
    unfold lookup
    by_cases e : q.1 = p.1
    · simp only [List.find?_cons, e, decide_true]
      rcases List.mem_cons.mp hp with h | h
      · rw [h]
      · exfalso; apply hnd.1; rw [e]; exact List.mem_map_of_mem h
    · simp only [List.find?_cons, e, decide_false]
      rcases List.mem_cons.mp hp with h | h
      · exact absurd (by rw [h]) e
      · exact ih hnd.2 h

omit [Field F] in
theorem toFinset_erase_nodup (l : List F) (hnd : l.Nodup) (a : F) : l.toFinset.erase a = (l.erase a).toFinset := by
  ext b
  simp only [Finset.mem_erase, List.mem_toFinset, hnd.mem_erase_iff]

omit [DecidableEq F] in
theorem prod_map_div (l : List F) (f g : F → F) :
    (l.map f).prod / (l.map g).prod = (l.map fun j => f j / g j).prod := by
  induction l with
  | nil => simp
  | cons a l ih => simp only [List.map_cons, List.prod_cons, ← ih, div_mul_div_comm]

/-- Σ_i y_i · Π_{j≠i}(x − x_j) / Π_{j≠i}(x_i − x_j) over a list of points with distinct x-coordinates is the value
    at `x` of the Lagrange interpolation polynomial through the points -/
theorem list_lagrange_eq_eval (pts : List (F × F)) (hnd : (pts.map (·.1)).Nodup) (x : F) :
    (pts.map fun p => p.2 * ((((pts.map (·.1)).erase p.1).map fun xj => x - xj).prod /
        (((pts.map (·.1)).erase p.1).map fun xj => p.1 - xj).prod)).sum =
      eval x (Lagrange.interpolate (pts.map (·.1)).toFinset id (lookup pts)) := by
  rw [Lagrange.interpolate_apply, eval_finsetSum, List.sum_toFinset _ hnd, List.map_map]
  refine congrArg List.sum ?_
  apply List.map_congr_left
  intro p hp
  simp only [Function.comp, eval_mul, eval_C, lookup_mem pts hnd p hp]
  congr 1
  unfold Lagrange.basis
  rw [eval_prod, toFinset_erase_nodup _ hnd, List.prod_toFinset _ (hnd.erase _), prod_map_div]
  refine congrArg List.prod ?_
  apply List.map_congr_left
  intro j _
  simp only [Lagrange.basisDivisor, eval_mul, eval_C, eval_sub, eval_X, id]
  rw [div_eq_inv_mul]

end generic


/-! ### `interpolate` = evaluation of the Lagrange polynomial through the shares, bytewise -/

open Polynomial

theorem ofNat_inj {a b : Nat} (ha : a < 256) (hb : b < 256) (h : GF256.ofNat a = GF256.ofNat b) : a = b := by
  have := congrArg GF256.val h
  rwa [ofNat_val ha, ofNat_val hb] at this

theorem map_ofNat_erase (l : List Nat) (hl : ∀ a ∈ l, a < 256) (a : Nat) (ha : a < 256) :
    (l.map GF256.ofNat).erase (GF256.ofNat a) = (l.erase a).map GF256.ofNat := by
  induction l with
  | nil => rfl
  | cons b l ih =>
    have hb := hl b List.mem_cons_self
    by_cases e : b = a
    · subst e; simp
    · have : GF256.ofNat b ≠ GF256.ofNat a := fun h => e (ofNat_inj hb ha h)
      rw [List.map_cons, List.erase_cons_tail (by simpa using this), List.erase_cons_tail (by simpa using e),
        List.map_cons, ih (fun a' h' => hl a' (List.mem_cons_of_mem _ h'))]

theorem map_ofNat_nodup (l : List Nat) (hl : ∀ a ∈ l, a < 256) (hnd : l.Nodup) : (l.map GF256.ofNat).Nodup := by
  rw [List.nodup_map_iff_inj_on hnd]
  intro a ha b hb h
  exact ofNat_inj (hl a ha) (hl b hb) h

/-- the points (x_i, y_i[b]) of byte position `b` as field elements -/
def col (data : List (Nat × Bytes)) (b : Nat) : List (GF256 × GF256) :=
  data.map fun s => (GF256.ofNat s.1, toG (s.2.getD b 0))

theorem col_fst (data : List (Nat × Bytes)) (b : Nat) : (col data b).map (·.1) = (data.map (·.1)).map GF256.ofNat := by
  simp [col, List.map_map, Function.comp_def]

/-- the Lagrange interpolation polynomial through byte position `b` of the shares -/
noncomputable def sharePoly (data : List (Nat × Bytes)) (b : Nat) : GF256[X] :=
  Lagrange.interpolate ((col data b).map (·.1)).toFinset id (lookup (col data b))

theorem interpolate_eq_eval (x : Nat) (s : Nat × Bytes) (data : List (Nat × Bytes))
    (hl : ∀ s' ∈ s :: data, s'.2.length = s.2.length) (hx : x < 256) (hxs : ∀ s' ∈ s :: data, s'.1 < 256)
    (hnd : ((s :: data).map (·.1)).Nodup) (hnot : x ∉ (s :: data).map (·.1)) (b : Nat) (hb : b < s.2.length) :
    toG ((interpolate x (s :: data)).getD b 0) = eval (GF256.ofNat x) (sharePoly (s :: data) b) := by
  have hxs' : ∀ a ∈ (s :: data).map (·.1), a < 256 := by
    intro a ha; obtain ⟨t, ht, rfl⟩ := List.mem_map.mp ha; exact hxs t ht
  have hnd' : ((col (s :: data) b).map (·.1)).Nodup := by
    rw [col_fst]; exact map_ofNat_nodup _ hxs' hnd
  rw [interpolate_byte x s data hl hx hxs hnd hnot b hb, sharePoly, ← list_lagrange_eq_eval _ hnd']
  rw [col, List.map_map]
  refine congrArg List.sum ?_
  apply List.map_congr_left
  intro t ht
  simp only [Function.comp]
  congr 1
  have e : List.map (fun p : GF256 × GF256 => p.1) (List.map (fun s => (GF256.ofNat s.1, toG (s.2.getD b 0))) (s :: data))
      = ((s :: data).map (·.1)).map GF256.ofNat := col_fst (s :: data) b
  rw [e, map_ofNat_erase _ hxs' _ (hxs t ht), List.map_map, List.map_map]
  rfl

end Embit.Model.Slip39
