import EmbitModel.Proofs.Bech32Checksum
import EmbitModel.Proofs.ConvertBits
/-
  bech32 string codec: `bech32_decode ∘ bech32_encode = id`, `convertbits 8→5→8 = id`,
  segwit `decode ∘ encode = id`, and the individual rejection rules.
-/
namespace Embit.Model.Bech32
open Embit Digits

/-! ### Option.mapM helpers -/

theorem mapM_map_some {α β : Type} (f : α → Option β) (g : α → β) (l : List α) (h : ∀ x ∈ l, f x = some (g x)) :
    l.mapM f = some (l.map g) := by
  induction l with
  | nil => rfl
  | cons x xs ih =>
    rw [List.mapM_cons, h x (by simp), ih (fun y hy => h y (by simp [hy]))]
    rfl

theorem mapM_some_elim {α β : Type} (f : α → Option β) (l : List α) (r : List β) (h : l.mapM f = some r) :
    r.length = l.length ∧ ∀ i (h1 : i < l.length) (h2 : i < r.length), f l[i] = some r[i] := by
  induction l generalizing r with
  | nil => simp [List.mapM_nil] at h; subst h; simp
  | cons x xs ih =>
    rw [List.mapM_cons] at h
    cases hx : f x with
    | none => simp [hx] at h
    | some y =>
      cases hxs : xs.mapM f with
      | none => simp [hx, hxs] at h
      | some ys =>
        simp [hx, hxs] at h
        subst h
        obtain ⟨hl, hi⟩ := ih ys hxs
        refine ⟨by simp [hl], ?_⟩
        intro i h1 h2
        cases i with
        | zero => simpa using hx
        | succ i => simpa using hi i (by simpa using h1) (by simpa using h2)

/-! ### the character set -/

theorem charset_length : charset.length = 32 := by decide +kernel

theorem charVal_charOf : ∀ d, d < 32 → ∃ c, charOf d = some c ∧ charVal c = some d ∧ c ≠ '1'
    ∧ 33 ≤ c.toNat ∧ c.toNat ≤ 126 ∧ c.toLower = c := by decide +kernel

/-- the character of a 5-bit value (total version used in statements) -/
def chr (d : Nat) : Char := charset.getD d 'q'

theorem charOf_eq (d : Nat) (h : d < 32) : charOf d = some (chr d) := by
  have hl : d < charset.length := by rw [charset_length]; exact h
  simp [charOf, chr, List.getD_eq_getElem?_getD, hl]

theorem chr_props (d : Nat) (h : d < 32) :
    charVal (chr d) = some d ∧ chr d ≠ '1' ∧ 33 ≤ (chr d).toNat ∧ (chr d).toNat ≤ 126 ∧ (chr d).toLower = chr d := by
  obtain ⟨c, h1, h2⟩ := charVal_charOf d h
  rw [charOf_eq d h] at h1
  simp at h1; subst h1; exact h2

theorem charVal_some {c : Char} {d : Nat} (h : charVal c = some d) : d < 32 ∧ chr d = c := by
  unfold charVal at h
  rw [List.idxOf?_eq_some_iff] at h
  obtain ⟨hlt, he, _⟩ := h
  refine ⟨by rw [charset_length] at hlt; exact hlt, ?_⟩
  simp [chr, List.getD_eq_getElem?_getD, hlt, he]

/-! ### rfind -/

theorem idxOf_append_not_mem (a b : List Char) (c : Char) (h : c ∉ a) :
    (a ++ c :: b).idxOf? c = some a.length := by
  induction a with
  | nil => simp [List.idxOf?_cons]
  | cons x xs ih =>
    have hx : x ≠ c := fun e => h (by simp [e])
    have hxs : c ∉ xs := fun e => h (by simp [e])
    simp [List.idxOf?_cons, hx, ih hxs]

theorem rfind1_spec (a b : List Char) (h : '1' ∉ b) : rfind1 (a ++ '1' :: b) = some a.length := by
  unfold rfind1
  have : (a ++ '1' :: b).reverse = b.reverse ++ '1' :: a.reverse := by simp
  rw [this, idxOf_append_not_mem _ _ _ (by simpa using h)]
  simp

theorem rfind1_some {s : List Char} {pos : Nat} (h : rfind1 s = some pos) :
    pos < s.length ∧ s = s.take pos ++ '1' :: s.drop (pos + 1) := by
  unfold rfind1 at h
  cases hj : s.reverse.idxOf? '1' with
  | none => simp [hj] at h
  | some j =>
    simp [hj] at h
    rw [List.idxOf?_eq_some_iff] at hj
    obtain ⟨hlt, he, _⟩ := hj
    simp at hlt
    have hp : pos < s.length := by omega
    refine ⟨hp, ?_⟩
    have hget : s[pos] = '1' := by
      rw [List.getElem_reverse] at he
      have : s.length - 1 - j = pos := by omega
      simpa [this] using he
    conv => lhs; rw [← List.take_append_drop pos s]
    congr 1
    rw [List.drop_eq_getElem_cons hp, hget]

/-! ### bech32_decode ∘ bech32_encode -/

/-- a human-readable part embit's decoder returns unchanged: non-empty, printable ASCII, no upper case -/
structure HrpOk (hrp : List Char) : Prop where
  nonempty : hrp ≠ []
  range : ∀ c ∈ hrp, 33 ≤ c.toNat ∧ c.toNat ≤ 126
  lower : ∀ c ∈ hrp, c.toLower = c

theorem bech32Encode_eq (e : Encoding) (hrp : List Char) (data : List Nat) (hd : ∀ d ∈ data, d < 32) :
    bech32Encode e hrp data = some (hrp ++ ['1'] ++ (data ++ createChecksum e hrp data).map chr) := by
  unfold bech32Encode
  have hall : ∀ x ∈ data ++ createChecksum e hrp data, charOf x = some (chr x) := by
    intro x hx
    simp only [List.mem_append] at hx
    rcases hx with hx | hx
    · exact charOf_eq x (hd x hx)
    · rw [createChecksum_eq] at hx
      exact charOf_eq x (fixedBE_lt (by decide) 6 _ x hx)
  simp only [mapM_map_some charOf chr _ hall]

theorem createChecksum_length (e : Encoding) (hrp : List Char) (data : List Nat) :
    (createChecksum e hrp data).length = 6 := by rw [createChecksum_eq, fixedBE_length]

theorem createChecksum_lt (e : Encoding) (hrp : List Char) (data : List Nat) :
    ∀ x ∈ createChecksum e hrp data, x < 32 := by
  rw [createChecksum_eq]; exact fixedBE_lt (by decide) 6 _

theorem bech32Decode_encode (e : Encoding) (hrp : List Char) (data : List Nat) (hh : HrpOk hrp)
    (hd : ∀ d ∈ data, d < 32) (hlen : hrp.length + 1 + data.length + 6 ≤ 90) :
    bech32Decode (hrp ++ ['1'] ++ (data ++ createChecksum e hrp data).map chr) = some (e, hrp, data) := by
  obtain ⟨full, hfd⟩ : ∃ full, full = data ++ createChecksum e hrp data := ⟨_, rfl⟩
  have hfull : ∀ x ∈ full, x < 32 := by
    intro x hx
    simp only [hfd, List.mem_append] at hx
    rcases hx with hx | hx
    · exact hd x hx
    · exact createChecksum_lt e hrp data x hx
  obtain ⟨cs, hcd⟩ : ∃ cs, cs = full.map chr := ⟨_, rfl⟩
  have hcs : ∀ c ∈ cs, charVal c ≠ none ∧ c ≠ '1' ∧ 33 ≤ c.toNat ∧ c.toNat ≤ 126 ∧ c.toLower = c := by
    intro c hc
    simp only [hcd, List.mem_map] at hc
    obtain ⟨d, hd', rfl⟩ := hc
    have := chr_props d (hfull d hd')
    exact ⟨by simp [this.1], this.2⟩
  have hs : hrp ++ ['1'] ++ (data ++ createChecksum e hrp data).map chr = hrp ++ '1' :: cs := by simp [hcd, hfd]
  rw [hs]
  unfold bech32Decode
  -- printable, not mixed case
  have hrange : (hrp ++ '1' :: cs).any (fun x => x.toNat < 33 || x.toNat > 126) = false := by
    rw [List.any_eq_false]
    intro x hx
    simp only [List.mem_append, List.mem_cons] at hx
    rcases hx with hx | rfl | hx
    · have := hh.range x hx; simp; omega
    · decide
    · have := (hcs x hx).2.2; simp; omega
  have hlow : lower (hrp ++ '1' :: cs) = hrp ++ '1' :: cs := by
    unfold lower
    conv => rhs; rw [← List.map_id (hrp ++ '1' :: cs)]
    apply List.map_congr_left
    intro x hx
    simp only [List.mem_append, List.mem_cons] at hx
    rcases hx with hx | rfl | hx
    · exact hh.lower x hx
    · decide
    · exact (hcs x hx).2.2.2.2
  simp only [hrange, hlow, bne_self_eq_false, Bool.false_and, Bool.or_false, Bool.false_eq_true, if_false]
  have hno1 : '1' ∉ cs := fun h => (hcs '1' h).2.1 rfl
  rw [rfind1_spec hrp cs hno1]
  have hcl : cs.length = data.length + 6 := by simp [hcd, hfd, createChecksum_length]
  have hne : 1 ≤ hrp.length := by
    cases hrp with
    | nil => exact absurd rfl hh.nonempty
    | cons _ _ => simp
  have hcond : (decide (hrp.length < 1) || decide (hrp.length + 7 > (hrp ++ '1' :: cs).length)
      || decide ((hrp ++ '1' :: cs).length > 90)) = false := by
    simp [hcl]; exact ⟨hh.nonempty, by omega⟩
  simp only [hcond, Bool.false_eq_true, if_false]
  have hdrop : (hrp ++ '1' :: cs).drop (hrp.length + 1) = cs := by
    rw [show hrp ++ '1' :: cs = (hrp ++ ['1']) ++ cs by simp]
    rw [List.drop_left' (by simp)]
  have htake : (hrp ++ '1' :: cs).take hrp.length = hrp := List.take_left' rfl
  rw [hdrop, htake]
  have hmap : cs.mapM charVal = some full := by
    have := mapM_map_some charVal (fun c => (charVal c).getD 0) cs (by
      intro c hc
      have := (hcs c hc).1
      cases h : charVal c with
      | none => exact absurd h this
      | some d => simp)
    rw [this]
    simp only [hcd, List.map_map]
    congr 1
    conv => rhs; rw [← List.map_id full]
    apply List.map_congr_left
    intro d hd'
    simp [(chr_props d (hfull d hd')).1]
  rw [hmap]
  have hver : verifyChecksum hrp full = some e := by
    rw [verifyChecksum_eq_some]
    have := polymod_createChecksum e hrp data
    simpa [hfd, List.append_assoc] using this
  simp only [hver]
  simp [hfd, createChecksum_length]

/-- what a successful `bech32_decode` tells about its input -/
theorem bech32Decode_some (s : List Char) (e : Encoding) (h : List Char) (d : List Nat)
    (hd : bech32Decode s = some (e, h, d)) :
    ∃ vals, lower s = h ++ '1' :: vals.map chr ∧ (∀ v ∈ vals, v < 32) ∧ 6 ≤ vals.length
      ∧ verifyChecksum h vals = some e ∧ d = vals.take (vals.length - 6) ∧ s.length ≤ 90 ∧ 1 ≤ h.length := by
  unfold bech32Decode at hd
  split at hd
  · simp at hd
  · cases hr : rfind1 (lower s) with
    | none => simp [hr] at hd
    | some pos =>
      simp only [hr] at hd
      split at hd
      · simp at hd
      · rename_i hc
        simp only [Bool.or_eq_true, decide_eq_true_eq, not_or, Nat.not_lt, Nat.not_lt] at hc
        cases hm : ((lower s).drop (pos + 1)).mapM charVal with
        | none => simp [hm] at hd
        | some vals =>
          simp only [hm] at hd
          cases hv : verifyChecksum ((lower s).take pos) vals with
          | none => simp [hv] at hd
          | some e' =>
            simp only [hv, Option.some.injEq, Prod.mk.injEq] at hd
            obtain ⟨rfl, rfl, rfl⟩ := hd
            obtain ⟨hp, hsplit⟩ := rfind1_some hr
            obtain ⟨hl, hi⟩ := mapM_some_elim charVal _ vals hm
            have hlow : (lower s).length = s.length := by simp [lower]
            have hchars : (lower s).drop (pos + 1) = vals.map chr := by
              apply List.ext_getElem
              · simp [hl]
              · intro i h1 h2
                have := hi i h1 (by simpa using h2)
                have := (charVal_some this).2
                simp [this]
            have hvals : ∀ v ∈ vals, v < 32 := by
              intro v hv'
              obtain ⟨i, hi1, rfl⟩ := List.getElem_of_mem hv'
              exact (charVal_some (hi i (by omega) hi1)).1
            refine ⟨vals, ?_, hvals, ?_, hv, rfl, ?_, ?_⟩
            · rw [← hchars]; exact hsplit
            · have : vals.length = (lower s).length - (pos + 1) := by rw [hl]; simp
              omega
            · omega
            · simp [List.length_take]; omega

/-! ### convertbits 8 → 5 → 8 -/

theorem convertbits_8_5 (b : List Nat) (hb : ∀ v ∈ b, v < 256) :
    ∃ k p, 5 * k = 8 * b.length + p ∧ p < 5 ∧
      convertbits b 8 5 true = some (fixedBE 32 k (ofBE 256 b * 2 ^ p)) := by
  have h := convertbits_spec 8 5 (by decide) (by decide) b (by simpa using hb) true
  simp only [valOf, if_true] at h
  by_cases hr : 8 * b.length % 5 = 0
  · refine ⟨8 * b.length / 5, 0, by omega, by decide, ?_⟩
    rw [h]; simp [hr]
  · refine ⟨8 * b.length / 5 + 1, 5 - 8 * b.length % 5, by omega, by omega, ?_⟩
    rw [h]; simp [hr]

theorem convertbits_8_5_8 (b : List Nat) (hb : ∀ v ∈ b, v < 256) :
    ∃ c, convertbits b 8 5 true = some c ∧ (∀ x ∈ c, x < 32) ∧ 5 * c.length < 8 * b.length + 5 ∧
      8 * b.length ≤ 5 * c.length ∧ convertbits c 5 8 false = some b := by
  obtain ⟨k, p, hk, hp, hc⟩ := convertbits_8_5 b hb
  refine ⟨_, hc, fixedBE_lt (by decide) k _, by simp; omega, by simp; omega, ?_⟩
  have hlt32 : ∀ x ∈ fixedBE 32 k (ofBE 256 b * 2 ^ p), x < 2 ^ 5 := by
    simpa using fixedBE_lt (B := 32) (by decide) k (ofBE 256 b * 2 ^ p)
  have h := convertbits_spec 5 8 (by decide) (by decide) _ hlt32 false
  simp only [valOf, Bool.false_eq_true, if_false, fixedBE_length] at h
  rw [h]
  -- the value of the 5-bit list is N·2^p
  have hN : ofBE 256 b < 2 ^ (8 * b.length) := by
    have := ofBE_lt (B := 256) (by decide) b hb
    rwa [show (256:Nat) = 2 ^ 8 by decide, ← Nat.pow_mul] at this
  have hval : ofBE (2 ^ 5) (fixedBE 32 k (ofBE 256 b * 2 ^ p)) = ofBE 256 b * 2 ^ p := by
    rw [show (2:Nat) ^ 5 = 32 by decide, ofBE_fixedBE, show (32:Nat) = 2 ^ 5 by decide, ← Nat.pow_mul, hk,
      Nat.pow_add]
    exact Nat.mod_eq_of_lt (Nat.mul_lt_mul_of_pos_right hN (Nat.two_pow_pos p))
  rw [hval]
  have hbits : 5 * k % 8 = p := by omega
  have hdiv : 5 * k / 8 = b.length := by omega
  rw [hbits, hdiv]
  have hmod : ofBE 256 b * 2 ^ p % 2 ^ p = 0 := Nat.mul_mod_left _ _
  have hcond : ¬ (p ≥ 5 ∨ ofBE 256 b * 2 ^ p % 2 ^ p ≠ 0) := by
    intro h; rcases h with h | h
    · omega
    · exact h hmod
  simp only [hcond, if_false]
  rw [Nat.mul_div_cancel _ (Nat.two_pow_pos p), show (2:Nat) ^ 8 = 256 by decide,
    fixedBE_ofBE (by decide) b hb]

/-! ### segwit addresses: decode ∘ encode -/

/-- a (hrp, witness version, program) triple that BIP173/BIP350 allow and that fits in 90 characters -/
structure SegwitOk (hrp : List Char) (ver : Nat) (prog : List Nat) : Prop where
  hrpOk : HrpOk hrp
  verOk : ver ≤ 16
  bytes : ∀ v ∈ prog, v < 256
  lenLo : 2 ≤ prog.length
  lenHi : prog.length ≤ 40
  v0 : ver = 0 → prog.length = 20 ∨ prog.length = 32
  total : hrp.length + 1 + (1 + (8 * prog.length + 4) / 5) + 6 ≤ 90

def encOf (ver : Nat) : Encoding := if ver = 0 then .bech32 else .bech32m

/-- the address text produced for a valid triple -/
def segwitText (hrp : List Char) (ver : Nat) (conv : List Nat) : List Char :=
  hrp ++ ['1'] ++ ((ver :: conv) ++ createChecksum (encOf ver) hrp (ver :: conv)).map chr

theorem decode_segwitText (hrp : List Char) (ver : Nat) (prog conv : List Nat) (h : SegwitOk hrp ver prog)
    (hc : ∀ x ∈ conv, x < 32) (hl1 : 5 * conv.length < 8 * prog.length + 5) (hl2 : 8 * prog.length ≤ 5 * conv.length)
    (hback : convertbits conv 5 8 false = some prog) :
    decode hrp (segwitText hrp ver conv) = some (ver, prog) := by
  have hdata : ∀ d ∈ ver :: conv, d < 32 := by
    intro d hd; simp at hd; rcases hd with rfl | hd
    · have := h.verOk; omega
    · exact hc d hd
  have htot := h.total
  have hlen : hrp.length + 1 + (ver :: conv).length + 6 ≤ 90 := by simp; omega
  unfold decode segwitText
  rw [bech32Decode_encode (encOf ver) hrp (ver :: conv) h.hrpOk hdata hlen]
  simp only [ne_eq, not_true_eq_false, if_false, List.drop_succ_cons, List.drop_zero, hback]
  have h1 := h.lenLo
  have h2 := h.lenHi
  have hlenc : (decide (prog.length < 2) || decide (prog.length > 40)) = false := by simp; omega
  simp only [hlenc, Bool.false_eq_true, if_false]
  have hv : ¬ ver > 16 := by have := h.verOk; omega
  simp only [hv, if_false]
  by_cases hz : ver = 0
  · subst hz
    have := h.v0 rfl
    simp [encOf]
    intro hne; rcases this with e | e
    · exact absurd e hne
    · exact e
  · simp [hz, encOf]

theorem encode_segwit (hrp : List Char) (ver : Nat) (prog : List Nat) (h : SegwitOk hrp ver prog) :
    ∃ conv, convertbits prog 8 5 true = some conv ∧ (∀ x ∈ conv, x < 32)
      ∧ 5 * conv.length < 8 * prog.length + 5 ∧ 8 * prog.length ≤ 5 * conv.length
      ∧ encode hrp ver prog = some (segwitText hrp ver conv)
      ∧ decode hrp (segwitText hrp ver conv) = some (ver, prog) := by
  obtain ⟨conv, h1, h2, h3, h4, h5⟩ := convertbits_8_5_8 prog h.bytes
  have hd := decode_segwitText hrp ver prog conv h h2 h3 h4 h5
  refine ⟨conv, h1, h2, h3, h4, ?_, hd⟩
  have hdata : ∀ d ∈ ver :: conv, d < 32 := by
    intro d hd; simp at hd; rcases hd with rfl | hd
    · have := h.verOk; omega
    · exact h2 d hd
  unfold encode
  simp only [h1, List.singleton_append]
  have he : (if ver = 0 then Encoding.bech32 else Encoding.bech32m) = encOf ver := rfl
  rw [he, bech32Encode_eq (encOf ver) hrp (ver :: conv) hdata]
  have : segwitText hrp ver conv = hrp ++ ['1'] ++ ((ver :: conv) ++ createChecksum (encOf ver) hrp (ver :: conv)).map chr := rfl
  rw [← this]
  simp only [hd]
  simp

/-! ### rejection rules of `bech32_decode` / `decode` -/

/-- a string with both an upper-case and a lower-case letter is never decoded -/
theorem bech32Decode_mixed_case (s : List Char) (h1 : lower s ≠ s) (h2 : upper s ≠ s) : bech32Decode s = none := by
  unfold bech32Decode
  have a : (lower s != s) = true := by simpa using h1
  have b : (upper s != s) = true := by simpa using h2
  simp [a, b]

theorem decode_mixed_case (hrp s : List Char) (h1 : lower s ≠ s) (h2 : upper s ≠ s) : decode hrp s = none := by
  unfold decode; rw [bech32Decode_mixed_case s h1 h2]

/-- whatever `decode` returns satisfies the BIP173/BIP350 program rules and used the right checksum variant -/
theorem decode_some_rules (hrp s : List Char) (ver : Nat) (prog : List Nat) (h : decode hrp s = some (ver, prog)) :
    ver ≤ 16 ∧ 2 ≤ prog.length ∧ prog.length ≤ 40 ∧ (ver = 0 → prog.length = 20 ∨ prog.length = 32)
    ∧ ∃ data, bech32Decode s = some (encOf ver, hrp, ver :: data) ∧ convertbits data 5 8 false = some prog := by
  unfold decode at h
  cases hd : bech32Decode s with
  | none => simp [hd] at h
  | some r =>
    obtain ⟨e, hg, data⟩ := r
    cases data with
    | nil => simp [hd, convertbits, cbLoop] at h
    | cons d0 rest =>
      simp only [hd, List.drop_succ_cons, List.drop_zero] at h
      split at h
      · simp at h
      · rename_i hh
        cases hc : convertbits rest 5 8 false with
        | none => simp [hc] at h
        | some dec =>
          simp only [hc] at h
          split at h
          · simp at h
          · rename_i hlen
            split at h
            · simp at h
            · rename_i hv
              split at h
              · simp at h
              · rename_i h0
                split at h
                · simp at h
                · rename_i henc
                  simp at h
                  obtain ⟨rfl, rfl⟩ := h
                  simp at hlen hv h0 henc hh
                  subst hh
                  refine ⟨by omega, by omega, by omega, ?_, rest, ?_, hc⟩
                  · intro hz; subst hz
                    have := h0 rfl
                    omega
                  · by_cases hz : d0 = 0
                    · subst hz; simp [encOf, henc.1 rfl]
                    · simp [encOf, hz, henc.2 hz]

/-- wrong checksum variant for the witness version: never decoded -/
theorem decode_wrong_variant (hrp s : List Char) (e : Encoding) (hg : List Char) (d0 : Nat) (rest : List Nat)
    (hd : bech32Decode s = some (e, hg, d0 :: rest)) (hw : e ≠ encOf d0) : decode hrp s = none := by
  cases h : decode hrp s with
  | none => rfl
  | some r =>
    obtain ⟨ver, prog⟩ := r
    obtain ⟨_, _, _, _, data, h2, _⟩ := decode_some_rules hrp s ver prog h
    rw [hd] at h2
    simp at h2
    obtain ⟨h3, _, h4, _⟩ := h2
    subst h4
    exact absurd h3 hw

end Embit.Model.Bech32
