import EmbitModel.Proofs.PyCurveGroup
/-
  `mul` (the 256-step double-and-add loop, multi-scalar), `affine`, `on_curve`, `lift_x` of key.py against
  Mathlib's group `(W C).toAffine.Point`.
-/
namespace Embit.Model.PyCurve
open WeierstrassCurve WeierstrassCurve.Jacobian

variable (C : Curve) [Fact C.p.Prime]

/-! ### `mul` -/

/-- `Σ f(nᵢ) • Pᵢ` -/
noncomputable def scalSum (f : ℕ → ℕ) (ps : List (JPt × ℕ)) : (W C).toAffine.Point :=
  (ps.map fun pn => f pn.2 • pt C pn.1).sum

theorem scalSum_nil (f : ℕ → ℕ) : scalSum C f [] = 0 := rfl

theorem scalSum_cons (f : ℕ → ℕ) (pn : JPt × ℕ) (ps : List (JPt × ℕ)) :
    scalSum C f (pn :: ps) = f pn.2 • pt C pn.1 + scalSum C f ps := by
  simp [scalSum]

/-- the inner loop adds the points whose scalar has bit `i` set -/
theorem pt_mulInner (i : ℕ) : ∀ (ps : List (JPt × ℕ)) (r : JPt), (∀ pn ∈ ps, Valid C pn.1) → Valid C r →
    pt C (mulInner C i ps r) = pt C r + scalSum C (fun n => (n.testBit i).toNat) ps ∧
      Valid C (mulInner C i ps r) := by
  intro ps
  induction ps with
  | nil => intro r _ hr; simp [mulInner, scalSum_nil, hr]
  | cons pn ps ih =>
    intro r hps hr
    obtain ⟨P, n⟩ := pn
    have hP : Valid C P := hps (P, n) (by simp)
    have hps' : ∀ pn ∈ ps, Valid C pn.1 := fun pn h => hps pn (by simp [h])
    simp only [mulInner]
    rw [scalSum_cons]
    by_cases hb : n.testBit i = true
    · rw [if_pos hb]
      obtain ⟨g1, g2⟩ := pt_add C hr hP
      obtain ⟨k1, k2⟩ := ih _ hps' g2
      refine ⟨?_, k2⟩
      rw [k1, g1, hb]
      simp [add_assoc]
    · rw [if_neg hb]
      obtain ⟨k1, k2⟩ := ih _ hps' hr
      refine ⟨?_, k2⟩
      have : n.testBit i = false := by simpa using hb
      rw [k1, this]
      simp

theorem scalSum_step (k : ℕ) (ps : List (JPt × ℕ)) :
    2 ^ k • scalSum C (fun n => (n.testBit k).toNat) ps + scalSum C (fun n => n % 2 ^ k) ps =
      scalSum C (fun n => n % 2 ^ (k + 1)) ps := by
  induction ps with
  | nil => simp [scalSum_nil]
  | cons pn ps ih =>
    rw [scalSum_cons, scalSum_cons, scalSum_cons, ← ih]
    have : pn.2 % 2 ^ (k + 1) = 2 ^ k * (pn.2.testBit k).toNat + pn.2 % 2 ^ k := by
      rw [Nat.toNat_testBit, Nat.mod_pow_succ]; ring
    rw [this, add_nsmul, mul_nsmul', nsmul_add]
    abel

/-- the loop invariant: after the iterations for bits `k-1 … 0`, `r ↦ 2^k • r + Σ (nᵢ mod 2^k) • Pᵢ` -/
theorem pt_mulLoop (ps : List (JPt × ℕ)) (hps : ∀ pn ∈ ps, Valid C pn.1) : ∀ (k : ℕ) (r : JPt), Valid C r →
    pt C (mulLoop C ps k r) = 2 ^ k • pt C r + scalSum C (fun n => n % 2 ^ k) ps ∧ Valid C (mulLoop C ps k r) := by
  intro k
  induction k with
  | zero =>
    intro r hr
    refine ⟨?_, hr⟩
    have : scalSum C (fun n => n % 2 ^ 0) ps = 0 := by
      unfold scalSum
      apply List.sum_eq_zero
      intro x hx
      simp only [List.mem_map] at hx
      obtain ⟨pn, _, rfl⟩ := hx
      simp [Nat.mod_one]
    rw [this]
    simp [mulLoop]
  | succ k ih =>
    intro r hr
    simp only [mulLoop]
    obtain ⟨g1, g2⟩ := pt_mulInner C k ps (double C r) hps (valid_double C hr)
    obtain ⟨k1, k2⟩ := ih _ g2
    refine ⟨?_, k2⟩
    rw [k1, g1, pt_double C hr, ← scalSum_step C k ps, nsmul_add, pow_succ, mul_nsmul', two_nsmul]
    abel

/-- **`mul(ps)` is the multi-scalar product** `Σ (nᵢ mod 2^256) • Pᵢ` (the loop reads 256 bits), and valid -/
theorem pt_mul (ps : List (JPt × ℕ)) (hps : ∀ pn ∈ ps, Valid C pn.1) :
    pt C (mul C ps) = scalSum C (fun n => n % 2 ^ 256) ps ∧ Valid C (mul C ps) := by
  obtain ⟨g1, g2⟩ := pt_mulLoop C ps hps 256 inf (valid_inf C (p_gt_one C))
  refine ⟨?_, g2⟩
  unfold mul
  rw [g1, pt_inf, nsmul_zero, zero_add]

/-- single scalar below `2^256`: `mul([(P, k)]) = k • P` -/
theorem pt_mul_single {P : JPt} (hP : Valid C P) (k : ℕ) (hk : k < 2 ^ 256) :
    pt C (mul C [(P, k)]) = k • pt C P := by
  rw [(pt_mul C [(P, k)] (by simpa using hP)).1, scalSum_cons, scalSum_nil, add_zero]
  simp only [Nat.mod_eq_of_lt hk]

/-- Shamir's trick as the code does it: `mul([(P, a), (Q, b)]) = a • P + b • Q` -/
theorem pt_mul_pair {P Q : JPt} (hP : Valid C P) (hQ : Valid C Q) (a b : ℕ) (ha : a < 2 ^ 256) (hb : b < 2 ^ 256) :
    pt C (mul C [(P, a), (Q, b)]) = a • pt C P + b • pt C Q := by
  rw [(pt_mul C [(P, a), (Q, b)] (by
    intro pn h
    simp only [List.mem_cons, List.not_mem_nil, or_false] at h
    rcases h with rfl | rfl
    · exact hP
    · exact hQ)).1, scalSum_cons, scalSum_cons, scalSum_nil, add_zero]
  simp only [Nat.mod_eq_of_lt ha, Nat.mod_eq_of_lt hb]

theorem valid_mul (ps : List (JPt × ℕ)) (hps : ∀ pn ∈ ps, Valid C pn.1) : Valid C (mul C ps) := (pt_mul C ps hps).2

/-! ### `affine` -/

omit [Fact C.p.Prime] in
theorem affine_inf (x y : ℤ) : affine C (x, y, 0) = some none := by simp [affine]

/-- for a finite valid tuple `affine` returns the reduced representative `(x/z², y/z³, 1)` of the same point -/
theorem affine_finite {x y z : ℤ} (hv : Valid C (x, y, z)) (hz : z ≠ 0) :
    ∃ x' y' : ℤ, affine C (x, y, z) = some (some (x', y', 1)) ∧ Valid C (x', y', 1) ∧
      (x' : ZMod C.p) = (x : ZMod C.p) / (z : ZMod C.p) ^ 2 ∧ (y' : ZMod C.p) = (y : ZMod C.p) / (z : ZMod C.p) ^ 3 ∧
      pt C (x', y', 1) = pt C (x, y, z) := by
  have hpp := p_pos C
  have hz' : (z : ZMod C.p) ≠ 0 := toF_z_ne C hv.red hz
  obtain ⟨t, ht, hti⟩ := modinv_inv C.p z hv.red.2.2.1 hz'
  simp only [affine, if_neg hz, ht]
  refine ⟨_, _, rfl, ?_⟩
  have cx : (((t ^ 2 % (C.p : ℤ) * x % (C.p : ℤ) : ℤ)) : ZMod C.p) = (x : ZMod C.p) / (z : ZMod C.p) ^ 2 := by
    push_cast [cast_emod, hti]; field_simp
  have cy : (((t ^ 2 % (C.p : ℤ) * t % (C.p : ℤ) * y % (C.p : ℤ) : ℤ)) : ZMod C.p) = (y : ZMod C.p) / (z : ZMod C.p) ^ 3 := by
    push_cast [cast_emod, hti]; field_simp
  have hone : (0 : ℤ) ≤ 1 ∧ (1 : ℤ) < C.p := ⟨by norm_num, by exact_mod_cast p_gt_one C⟩
  have heq : toF C (x, y, z) ≈ toF C (t ^ 2 % (C.p : ℤ) * x % (C.p : ℤ), t ^ 2 % (C.p : ℤ) * t % (C.p : ℤ) * y % (C.p : ℤ), 1) := by
    have := equiv_some_of_Z_ne_zero (P := toF C (x, y, z)) hz'
    convert this using 1
    simp only [toF]
    rw [cx, cy]
    simp [fin3_def_ext]
  have hns := (nonsingular_of_equiv heq).mp (hv.nonsingular C hz)
  refine ⟨⟨⟨emod_range hpp _, emod_range hpp _, hone⟩, Or.inr hns⟩, cx, cy, ?_⟩
  unfold pt
  exact (Point.toAffine_of_equiv heq).symm

/-- a finite valid tuple does not denote the neutral element -/
theorem pt_ne_zero {P : JPt} (hv : Valid C P) (hz : P.2.2 ≠ 0) : pt C P ≠ 0 := by
  unfold pt
  rw [Point.toAffine_of_Z_ne_zero (hv.nonsingular C hz) (toF_z_ne C hv.red hz)]
  exact Affine.Point.some_ne_zero _

theorem pt_eq_zero_iff {P : JPt} (hv : Valid C P) : pt C P = 0 ↔ P.2.2 = 0 :=
  ⟨fun h => by by_contra hz; exact pt_ne_zero C hv hz h, pt_of_z_zero C⟩

/-- the affine coordinates of a group element as natural numbers (`none` for the neutral element) -/
noncomputable def ptXY : (W C).toAffine.Point → Option (ℕ × ℕ)
  | .zero => none
  | .some x y _ => some (x.val, y.val)

/-- **`affine` (as used by `get_bytes`) is a function of the group element only**: whatever representative the
    Jacobian pipeline produced, the serialised coordinates are those of `pt P` -/
theorem affineXY_eq {P : JPt} (hv : Valid C P) : affineXY C P = some (ptXY C (pt C P)) := by
  obtain ⟨x, y, z⟩ := P
  have : NeZero C.p := ⟨(p_pos C).ne'⟩
  by_cases hz : z = 0
  · subst hz
    have h0 : pt C (x, y, 0) = 0 := pt_of_z_zero C rfl
    rw [h0]
    simp only [affineXY, affine_inf]
    rfl
  · obtain ⟨x', y', ha, hv', cx, cy, _⟩ := affine_finite C hv hz
    simp only [affineXY, ha]
    unfold pt
    rw [Point.toAffine_of_Z_ne_zero (hv.nonsingular C hz) (toF_z_ne C hv.red hz)]
    simp only [ptXY, toF, fin3_def_ext]
    rw [← cx, ← cy]
    have hb := hv'.red
    simp only [Red] at hb
    congr 3
    · have := ZMod.val_intCast (n := C.p) x'
      rw [Int.emod_eq_of_lt hb.1.1 hb.1.2] at this
      omega
    · have := ZMod.val_intCast (n := C.p) y'
      rw [Int.emod_eq_of_lt hb.2.1.1 hb.2.1.2] at this
      omega

/-- two valid tuples denoting the same group element have the same `affine` coordinates -/
theorem affineXY_congr {P Q : JPt} (hP : Valid C P) (hQ : Valid C Q) (h : pt C P = pt C Q) :
    affineXY C P = affineXY C Q := by rw [affineXY_eq C hP, affineXY_eq C hQ, h]

end Embit.Model.PyCurve
