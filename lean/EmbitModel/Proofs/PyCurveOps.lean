import EmbitModel.Proofs.PyCurvePoints
import EmbitModel.Proofs.EcLaws
import EmbitModel.Model.PyCurveOps
import Mathlib.GroupTheory.SpecificGroups.Cyclic
/-
  `pyEcOps C n g`: the abstract curve record `EcOps` (over which `Model/PySecp.lean`, the libsecp contract and
  all of C07 / C08 are written) INSTANTIATED with key.py's own arithmetic, and `pyEcLaws`: the law structure
  `EcLaws` for it, from explicit arithmetic facts about the parameters.

  Points are the canonical affine values the binding layer exchanges (what `ECPubKey.get_bytes` serialises):
  `none` or reduced coordinates on the curve. Every operation embeds its operands as `(x, y, 1)` / `(0, 1, 0)`,
  runs the modelled key.py function (`add`, `negate`, `mul`, `on_curve`, `ECPubKey.set`'s compressed branch,
  `modinv`) and normalises the result with `affine` — the pipeline of `py_secp256k1.py`. Because `affine` is a
  function of the group element only (`affineXY_eq`), normalising between steps does not change any result.
-/
namespace Embit.Model.PyCurve
open WeierstrassCurve WeierstrassCurve.Jacobian

variable (C : Curve) [Fact C.p.Prime]

/-! `toJ` (the tuple `ECPubKey` stores for an affine value) and `eInvN` (`modinv(·, n)` on naturals) are defined in
    Model/PyCurveOps.lean (Mathlib-free: the driver's record `lawfulOps` uses the same two functions). -/

/-- canonical points: infinity, or the reduced coordinates of a point of the curve -/
abbrev APt : Type := { q : Option (ℕ × ℕ) // Valid C (toJ q) }

theorem valid_affineXY {J : JPt} (hv : Valid C J) : Valid C (toJ ((affineXY C J).getD none)) := by
  obtain ⟨x, y, z⟩ := J
  by_cases hz : z = 0
  · subst hz
    simp only [affineXY, affine_inf, Option.getD_some, toJ]
    exact valid_inf C (p_gt_one C)
  · obtain ⟨x', y', ha, hv', _, _, _⟩ := affine_finite C hv hz
    simp only [affineXY, ha, Option.getD_some, toJ]
    have hb := hv'.red
    simp only [Red] at hb
    rw [Int.toNat_of_nonneg hb.1.1, Int.toNat_of_nonneg hb.2.1.1]
    exact hv'

open Classical in
/-- `affine` of a tuple as a canonical point (infinity for a tuple that is not valid — never the case below) -/
noncomputable def ofJ (J : JPt) : APt C :=
  if hv : Valid C J then ⟨(affineXY C J).getD none, valid_affineXY C hv⟩ else ⟨none, valid_inf C (p_gt_one C)⟩

/-- the group element of a canonical point -/
noncomputable def ι (P : APt C) : (W C).toAffine.Point := pt C (toJ P.1)

theorem ofJ_val {J : JPt} (hv : Valid C J) : (ofJ C J).1 = (affineXY C J).getD none := by
  unfold ofJ
  rw [dif_pos hv]

theorem ι_ofJ {J : JPt} (hv : Valid C J) : ι C (ofJ C J) = pt C J := by
  unfold ι
  rw [ofJ_val C hv]
  obtain ⟨x, y, z⟩ := J
  by_cases hz : z = 0
  · subst hz
    simp only [affineXY, affine_inf, Option.getD_some, toJ]
    rw [pt_inf, pt_of_z_zero C (P := (x, y, 0)) rfl]
  · obtain ⟨x', y', ha, hv', _, _, hpt⟩ := affine_finite C hv hz
    simp only [affineXY, ha, Option.getD_some, toJ]
    have hb := hv'.red
    simp only [Red] at hb
    rw [Int.toNat_of_nonneg hb.1.1, Int.toNat_of_nonneg hb.2.1.1]
    exact hpt

theorem pt_affine_some (x y : ℕ) (hv : Valid C ((x : ℤ), (y : ℤ), 1)) :
    ∃ h, pt C ((x : ℤ), (y : ℤ), 1) = Affine.Point.some (((x : ℤ)) : ZMod C.p) (((y : ℤ)) : ZMod C.p) h := by
  have hns := hv.nonsingular C one_ne_zero
  have hns' : (W C).Nonsingular ![(((x : ℤ)) : ZMod C.p), (((y : ℤ)) : ZMod C.p), 1] := by
    have : toF C ((x : ℤ), (y : ℤ), 1) = ![(((x : ℤ)) : ZMod C.p), (((y : ℤ)) : ZMod C.p), 1] := by
      simp [toF]
    rw [← this]; exact hns
  refine ⟨(nonsingular_some _ _).mp hns', ?_⟩
  unfold pt
  have : toF C ((x : ℤ), (y : ℤ), 1) = ![(((x : ℤ)) : ZMod C.p), (((y : ℤ)) : ZMod C.p), 1] := by
    simp [toF]
  rw [this]
  exact Point.toAffine_some hns'

/-- a canonical point is determined by its group element -/
theorem ι_injective : Function.Injective (ι C) := by
  rintro ⟨q1, h1⟩ ⟨q2, h2⟩ h
  apply Subtype.ext
  simp only
  unfold ι at h
  simp only at h
  cases q1 with
  | none =>
    cases q2 with
    | none => rfl
    | some xy =>
      exfalso
      obtain ⟨x, y⟩ := xy
      simp only [toJ] at h h2
      rw [pt_inf] at h
      exact pt_ne_zero C h2 one_ne_zero h.symm
  | some xy =>
    obtain ⟨x, y⟩ := xy
    cases q2 with
    | none =>
      exfalso
      simp only [toJ] at h h1
      rw [pt_inf] at h
      exact pt_ne_zero C h1 one_ne_zero h
    | some xy' =>
      obtain ⟨x', y'⟩ := xy'
      simp only [toJ] at h h1 h2
      obtain ⟨k1, e1⟩ := pt_affine_some C x y h1
      obtain ⟨k2, e2⟩ := pt_affine_some C x' y' h2
      rw [e1, e2] at h
      simp only [Affine.Point.some.injEq] at h
      have r1 := h1.red
      have r2 := h2.red
      simp only [Red] at r1 r2
      have hx := eq_of_cast_eq r1.1.1 r1.1.2 r2.1.1 r2.1.2 h.1
      have hy := eq_of_cast_eq r1.2.1.1 r1.2.1.2 r2.2.1.1 r2.2.1.2 h.2
      have hx' : x = x' := by exact_mod_cast hx
      have hy' : y = y' := by exact_mod_cast hy
      rw [hx', hy']

/-- every group element is a canonical point -/
theorem ι_surjective (hs : Smooth C) : Function.Surjective (ι C) := by
  have : NeZero C.p := ⟨(p_pos C).ne'⟩
  intro Q
  cases Q with
  | zero => exact ⟨⟨none, valid_inf C (p_gt_one C)⟩, pt_inf C⟩
  | some x y h =>
    have hx : ((x.val : ℤ) : ZMod C.p) = x := by simp
    have hy : ((y.val : ℤ) : ZMod C.p) = y := by simp
    have hv : Valid C ((x.val : ℤ), (y.val : ℤ), 1) := by
      apply valid_affine_of_eqn C hs ⟨by positivity, by exact_mod_cast x.val_lt⟩ ⟨by positivity, by exact_mod_cast y.val_lt⟩
      rw [hx, hy]
      have he := h.left
      rw [Affine.equation_iff] at he
      simp only [W, Wab] at he
      linear_combination he
    refine ⟨⟨some (x.val, y.val), hv⟩, ?_⟩
    obtain ⟨k, e⟩ := pt_affine_some C x.val y.val hv
    unfold ι
    simp only [toJ]
    rw [e]
    simp only [Affine.Point.some.injEq]
    exact ⟨hx, hy⟩

/-! ### the record -/

/-! the operations of the record, on canonical points -/

noncomputable def eAdd (P Q : APt C) : APt C := ofJ C (add C (toJ P.1) (toJ Q.1))
noncomputable def eNeg (P : APt C) : APt C := ofJ C (negate C (toJ P.1))
noncomputable def eMul (n k : ℕ) (P : APt C) : APt C :=
  ofJ C (mul C [(toJ P.1, if k < 2 ^ 256 then k else k % n)])
def eXY (P : APt C) : Option (ℕ × ℕ) := (affineXY C (toJ P.1)).getD none
noncomputable def eOfXY (x y : ℕ) : Option (APt C) := (setUncompressed C x y).map (ofJ C)
noncomputable def eLiftX (x : ℕ) : Option (APt C) :=
  match setCompressed C false x with
  | some (some J) => some (ofJ C J)
  | _ => none

/-- key.py's arithmetic as an `EcOps` (`n` the claimed order, `g` the generator as a canonical point).
    `mul`: key.py's loop reads 256 bits of the scalar; every caller passes a value below `2^256` (a 32-byte
    integer or a residue modulo `n`), for which this is `mul([(P, k)])` exactly; larger `k` (never passed) are
    reduced modulo `n` first so that the record is total. `invN` is `modinv(·, n)` (a value in `[0, n)` by
    `modinv_range`; `None` — never reached for `0 < a < n` — reads as 0). `liftX` is the compressed branch of `ECPubKey.set` before the parity flip; `ofXY` its
    uncompressed branch; `xy` is `affine` as `get_bytes` applies it. -/
noncomputable def pyEcOps (n : ℕ) (g : APt C) : EcOps where
  Pt := APt C
  add := eAdd C
  neg := eNeg C
  mul := eMul C n
  g := g
  n := n
  p := C.p
  xy := eXY C
  ofXY := eOfXY C
  liftX := eLiftX C
  invN := eInvN n

/-- the explicit arithmetic facts about the parameters from which the laws follow -/
structure Params (n : ℕ) (g : APt C) : Prop where
  /-- `p ≡ 3 (mod 4)` (what `modsqrt` needs) -/
  p34 : C.p % 4 = 3
  /-- non-zero discriminant -/
  disc : (4 * C.a ^ 3 + 27 * C.b ^ 2) % (C.p : ℤ) ≠ 0
  /-- `b` is not a square modulo `p` (no point with `x = 0`): `jacobi_symbol(b, p) = -1` -/
  b_nonsquare : jacobiSymbol C.b C.p = some (-1)
  n_prime : n.Prime
  n_odd : n ≠ 2
  n_le : n ≤ 2 ^ 256
  /-- the generator is a finite point -/
  g_finite : g.1 ≠ none
  /-- `n • G = 0`, as key.py computes it -/
  nG : (mul C [(toJ g.1, n)]).2.2 = 0

/-- the hypothesis that is NOT decidable by running the code on the parameters: the curve has exactly `n`
    points (including the point at infinity) -/
def CardEq (n : ℕ) : Prop := Nat.card (W C).toAffine.Point = n

section laws
variable {n : ℕ} {g : APt C} (hp : Params C n g)
include hp

omit [Fact C.p.Prime] in
theorem Params.smooth : Smooth C := ⟨by have := hp.p34; omega, hp.disc⟩

omit [Fact C.p.Prime] in
theorem Params.p_odd : C.p % 2 = 1 := by have := hp.p34; omega

omit hp in
theorem ι_add (P Q : APt C) : ι C (eAdd C P Q) = ι C P + ι C Q := by
  show ι C (ofJ C (add C (toJ P.1) (toJ Q.1))) = _
  obtain ⟨h1, h2⟩ := pt_add C P.2 Q.2
  rw [ι_ofJ C h2, h1]; rfl

omit hp in
theorem ι_neg (P : APt C) : ι C (eNeg C P) = - ι C P := by
  show ι C (ofJ C (negate C (toJ P.1))) = _
  rw [ι_ofJ C (valid_negate C P.2), pt_negate C P.2]; rfl

theorem ι_g_ne : ι C g ≠ 0 := by
  obtain ⟨q, hq⟩ := g
  have := hp.g_finite
  simp only at this
  cases q with
  | none => exact absurd rfl this
  | some xy => obtain ⟨x, y⟩ := xy; exact pt_ne_zero C hq one_ne_zero

/-- `n • G = 0` in the group -/
theorem nsmul_g : n • ι C g = 0 := by
  have h := pt_mul_single C g.2 n (lt_of_le_of_ne hp.n_le (by
    intro h; have := hp.n_prime; rw [h] at this
    exact absurd (this.eq_one_or_self_of_dvd 2 (dvd_pow_self 2 (by norm_num))) (by norm_num)))
  show n • pt C (toJ g.1) = 0
  rw [← h]
  exact pt_of_z_zero C hp.nG

theorem addOrderOf_g : addOrderOf (ι C g) = n := by
  have : Fact n.Prime := ⟨hp.n_prime⟩
  exact addOrderOf_eq_prime (nsmul_g C hp) (ι_g_ne C hp)

/-- scalar multiplication of the record is scalar multiplication of the group on points killed by `n` -/
theorem ι_mul (k : ℕ) (P : APt C) (hP : n • ι C P = 0) : ι C (eMul C n k P) = k • ι C P := by
  show ι C (ofJ C (mul C [(toJ P.1, if k < 2 ^ 256 then k else k % n)])) = _
  have hval : Valid C (mul C [(toJ P.1, if k < 2 ^ 256 then k else k % n)]) :=
    valid_mul C _ (by simpa using P.2)
  rw [ι_ofJ C hval]
  have hn0 : 0 < n := hp.n_prime.pos
  by_cases hk : k < 2 ^ 256
  · rw [if_pos hk, pt_mul_single C P.2 k hk]; rfl
  · rw [if_neg hk, pt_mul_single C P.2 (k % n) (lt_of_lt_of_le (Nat.mod_lt _ hn0) hp.n_le)]
    show (k % n) • ι C P = k • ι C P
    conv_rhs => rw [← Nat.div_add_mod k n, add_nsmul, mul_nsmul, hP, nsmul_zero, zero_add]

theorem ι_mul_g (k : ℕ) : ι C (eMul C n k g) = k • ι C g := ι_mul C hp k g (nsmul_g C hp)

theorem nsmul_mul_g (k : ℕ) : n • ι C (eMul C n k g) = 0 := by
  rw [ι_mul_g C hp, ← mul_nsmul', mul_comm, mul_nsmul', nsmul_g C hp, nsmul_zero]

omit [Fact C.p.Prime] in
/-- `modinv(a, n)` inverts modulo the prime `n` -/
theorem invN_spec (a : ℕ) (h0 : 0 < a) (h1 : a < n) : (a * eInvN n a) % n = 1 := by
  show (a * ((modinv (a : ℤ) (n : ℤ)).getD 0).toNat) % n = 1
  have hg : Int.gcd (a : ℤ) n = 1 := by
    rw [Int.gcd_natCast_natCast, Nat.gcd_comm]
    exact (Nat.Prime.coprime_iff_not_dvd hp.n_prime).mpr (fun h => absurd (Nat.le_of_dvd h0 h) (by omega))
  obtain ⟨t, ht, hta⟩ := modinv_some n (a : ℤ) (by positivity) hg
  obtain ⟨ht0, _⟩ := modinv_range n (a : ℤ) (by positivity) (by exact_mod_cast h1) t ht
  rw [ht]
  simp only [Option.getD_some]
  have : ((a * t.toNat : ℕ) : ZMod n) = ((1 : ℕ) : ZMod n) := by
    push_cast
    rw [← Int.cast_natCast (R := ZMod n) t.toNat, Int.toNat_of_nonneg ht0]
    have : ((a : ℤ) : ZMod n) = (a : ZMod n) := by push_cast; rfl
    rw [← this, mul_comm]; exact hta
  have h2 := (ZMod.natCast_eq_natCast_iff' _ _ _).mp this
  rw [h2]
  exact Nat.mod_eq_of_lt hp.n_prime.one_lt

end laws

/-! ### canonical points and their coordinates -/

/-- embedding a canonical value and normalising it again is the identity (`affine((x, y, 1)) = (x, y, 1)`) -/
theorem ofJ_toJ (P : APt C) : ofJ C (toJ P.1) = P := by
  apply ι_injective C
  rw [ι_ofJ C P.2]
  rfl

theorem ofJ_toJ' (q : Option (ℕ × ℕ)) (hv : Valid C (toJ q)) : ofJ C (toJ q) = ⟨q, hv⟩ := ofJ_toJ C ⟨q, hv⟩

theorem xy_val (P : APt C) : eXY C P = P.1 := by
  show (affineXY C (toJ P.1)).getD none = P.1
  rw [← ofJ_val C P.2, ofJ_toJ]

theorem val_none_iff (P : APt C) : P.1 = none ↔ ι C P = 0 := by
  obtain ⟨q, hq⟩ := P
  cases q with
  | none => simp only [true_iff]; exact pt_inf C
  | some xy =>
    obtain ⟨x, y⟩ := xy
    simp only [reduceCtorEq, false_iff]
    exact pt_ne_zero C hq one_ne_zero

section laws2
variable {n : ℕ} {g : APt C} (hp : Params C n g) (hc : CardEq C n)
include hp

/-- no point has `x = 0`: `b` is not a square -/
theorem x_ne_zero {y : ℕ} (hv : Valid C ((0 : ℤ), (y : ℤ), 1)) : False := by
  have he := hv.affine_eqn C
  have hj := jacobiSymbol_eq C.b C.p (p_pos C) hp.p_odd
  rw [hp.b_nonsquare] at hj
  have hns := ZMod.nonsquare_iff_jacobiSym_eq_neg_one.mp (Option.some.inj hj).symm
  apply hns
  refine ⟨((y : ℤ) : ZMod C.p), ?_⟩
  simp only [Int.cast_zero, ne_eq, OfNat.ofNat_ne_zero, not_false_eq_true, zero_pow, mul_zero, add_zero, zero_add] at he
  rw [← he]; ring

omit hp in
include hc in
/-- every element of the group is killed by `n` -/
theorem nsmul_all (Q : (W C).toAffine.Point) : n • Q = 0 := by
  have h := addOrderOf_dvd_natCard Q
  rw [hc] at h
  obtain ⟨k, hk⟩ := h
  rw [hk, mul_nsmul, addOrderOf_nsmul_eq_zero, nsmul_zero]

include hc in
/-- no point has `y = 0`: the group has odd prime order, so no element of order two -/
theorem y_ne_zero {x : ℕ} (hv : Valid C ((x : ℤ), (0 : ℤ), 1)) : False := by
  have hneg : negate C ((x : ℤ), (0 : ℤ), 1) = ((x : ℤ), (0 : ℤ), 1) := by
    simp [negate]
  have h1 := pt_negate C hv
  rw [hneg] at h1
  have h2 : 2 • pt C ((x : ℤ), (0 : ℤ), 1) = 0 := by
    rw [two_nsmul]; nth_rewrite 1 [h1]; exact neg_add_cancel _
  have hn := nsmul_all C hc (pt C ((x : ℤ), (0 : ℤ), 1))
  have hd2 := addOrderOf_dvd_of_nsmul_eq_zero h2
  have hdn := addOrderOf_dvd_of_nsmul_eq_zero hn
  have hcop : Nat.Coprime 2 n := by
    rw [Nat.coprime_primes Nat.prime_two hp.n_prime]
    exact fun h => hp.n_odd h.symm
  have h1' : addOrderOf (pt C ((x : ℤ), (0 : ℤ), 1)) = 1 :=
    Nat.eq_one_of_dvd_coprimes hcop hd2 hdn
  rw [AddMonoid.addOrderOf_eq_one_iff] at h1'
  exact pt_ne_zero C hv one_ne_zero h1'

include hc in
/-- coordinates of a canonical point are reduced and non-zero -/
theorem coords_range {P : APt C} {x y : ℕ} (h : P.1 = some (x, y)) : 0 < x ∧ x < C.p ∧ 0 < y ∧ y < C.p := by
  obtain ⟨q, hq⟩ := P
  simp only at h
  subst h
  simp only [toJ] at hq
  have hr := hq.red
  simp only [Red] at hr
  refine ⟨?_, by exact_mod_cast hr.1.2, ?_, by exact_mod_cast hr.2.1.2⟩
  · rcases Nat.eq_zero_or_pos x with h0 | h0
    · subst h0; exact (x_ne_zero C hp hq).elim
    · exact h0
  · rcases Nat.eq_zero_or_pos y with h0 | h0
    · subst h0; exact (y_ne_zero C hp hc hq).elim
    · exact h0

theorem law_mul_add (a b : ℕ) : eAdd C (eMul C n a g) (eMul C n b g) = eMul C n (a + b) g := by
  apply ι_injective C
  rw [ι_add, ι_mul_g C hp, ι_mul_g C hp, ι_mul_g C hp, add_nsmul]

theorem law_mul_mul (a b : ℕ) : eMul C n a (eMul C n b g) = eMul C n (a * b) g := by
  apply ι_injective C
  rw [ι_mul C hp a _ (nsmul_mul_g C hp b), ι_mul_g C hp, ι_mul_g C hp, mul_nsmul']

theorem law_mul_mod (a : ℕ) : eMul C n (a % n) g = eMul C n a g := by
  apply ι_injective C
  rw [ι_mul_g C hp, ι_mul_g C hp]
  conv_rhs => rw [← Nat.div_add_mod a n, add_nsmul, mul_nsmul, nsmul_g C hp, nsmul_zero, zero_add]

theorem law_neg_mul (a : ℕ) (ha : a ≤ n) : eNeg C (eMul C n a g) = eMul C n (n - a) g := by
  apply ι_injective C
  rw [ι_neg, ι_mul_g C hp, ι_mul_g C hp]
  have : (n - a) • ι C g + a • ι C g = 0 := by
    rw [← add_nsmul, Nat.sub_add_cancel ha, nsmul_g C hp]
  exact (eq_neg_of_add_eq_zero_left this).symm

include hc in
theorem law_xy_neg (P : APt C) (x y : ℕ) (h : eXY C P = some (x, y)) : eXY C (eNeg C P) = some (x, C.p - y) := by
  rw [xy_val] at h
  obtain ⟨hx0, hxp, hy0, hyp⟩ := coords_range C hp hc h
  rw [xy_val]
  show (ofJ C (negate C (toJ P.1))).1 = some (x, C.p - y)
  rw [h]
  have hneg : negate C (toJ (some (x, y))) = toJ (some (x, C.p - y)) := by
    simp only [negate, toJ, Prod.mk.injEq, true_and, and_true]
    rw [Int.emod_eq_of_lt (by omega) (by omega)]
    omega
  rw [hneg]
  have hv : Valid C (toJ (some (x, C.p - y))) := by
    rw [← hneg]
    have := valid_negate C P.2
    rwa [h] at this
  rw [ofJ_toJ' C _ hv]

theorem law_ofXY_xy (P : APt C) (x y : ℕ) (h : eXY C P = some (x, y)) : eOfXY C x y = some P := by
  rw [xy_val] at h
  show (setUncompressed C x y).map (ofJ C) = some P
  have hv : Valid C ((x : ℤ), (y : ℤ), 1) := by have := P.2; rwa [h] at this
  have hr := hv.red
  simp only [Red] at hr
  rw [(setUncompressed_iff C hp.smooth x y _).mpr ⟨rfl, by exact_mod_cast hr.1.2, by exact_mod_cast hr.2.1.2, hv⟩]
  simp only [Option.map_some, Option.some.injEq]
  have := ofJ_toJ' C (some (x, y)) hv
  simp only [toJ] at this
  rw [this]
  exact Subtype.ext h.symm

theorem law_xy_ofXY (P : APt C) (x y : ℕ) (h : eOfXY C x y = some P) : eXY C P = some (x, y) := by
  rw [xy_val]
  have h' : (setUncompressed C x y).map (ofJ C) = some P := h
  cases hs : setUncompressed C x y with
  | none => rw [hs] at h'; cases h'
  | some J =>
    rw [hs] at h'
    simp only [Option.map_some, Option.some.injEq] at h'
    obtain ⟨rfl, _, _, hv⟩ := (setUncompressed_iff C hp.smooth x y J).mp hs
    rw [← h']
    have := ofJ_toJ' C (some (x, y)) hv
    simp only [toJ] at this
    rw [this]

theorem law_mul_inj (a b : ℕ) (ha : a < n) (hb : b < n) (h : eMul C n a g = eMul C n b g) : a = b := by
  have h' := congrArg (ι C) h
  rw [ι_mul_g C hp, ι_mul_g C hp, nsmul_eq_nsmul_iff_modEq, addOrderOf_g C hp] at h'
  exact Nat.ModEq.eq_of_lt_of_lt h' ha hb

include hc in
theorem law_generated (P : APt C) : ∃ a, a < n ∧ P = eMul C n a g := by
  have : Fact n.Prime := ⟨hp.n_prime⟩
  have htop := zmultiples_eq_top_of_prime_card (G := (W C).toAffine.Point) hc (ι_g_ne C hp)
  have hmem : ι C P ∈ AddSubgroup.zmultiples (ι C g) := by rw [htop]; trivial
  obtain ⟨k, hk⟩ := AddSubgroup.mem_zmultiples_iff.mp hmem
  have hn0 : (0 : ℤ) < n := by exact_mod_cast hp.n_prime.pos
  have h0 := Int.emod_nonneg k hn0.ne'
  refine ⟨(k % (n : ℤ)).toNat, ?_, ?_⟩
  · have := Int.emod_lt_of_pos k hn0
    omega
  · apply ι_injective C
    rw [ι_mul_g C hp, ← hk, ← natCast_zsmul, Int.toNat_of_nonneg h0]
    have hdm := Int.ediv_mul_add_emod k n
    conv_lhs => rw [← hdm, add_zsmul, mul_zsmul, natCast_zsmul, nsmul_g C hp, zsmul_zero, zero_add]

theorem law_liftX_sound (x : ℕ) (P : APt C) (h : eLiftX C x = some P) :
    ∃ y, eXY C P = some (x, y) ∧ y % 2 = 0 := by
  have h' : (match setCompressed C false x with
    | some (some J) => some (ofJ C J)
    | _ => none) = some P := h
  obtain ⟨h1, h2⟩ := setCompressed_spec C hp.smooth hp.p34 false x
  by_cases hcnd : x < C.p ∧ IsSquare (((x : ℤ) : ZMod C.p) ^ 3 + (C.a : ZMod C.p) * ((x : ℤ) : ZMod C.p) + (C.b : ZMod C.p))
  · obtain ⟨y, _, hy, hv, hset⟩ := h1 hcnd
    rw [hset] at h'
    simp only [Bool.false_eq_true, if_false, Option.some.injEq] at h'
    have hr := hv.red
    simp only [Red] at hr
    refine ⟨y.toNat, ?_, by omega⟩
    rw [xy_val, ← h']
    have hv' : Valid C (toJ (some (x, y.toNat))) := by
      simp only [toJ]; rw [Int.toNat_of_nonneg hr.2.1.1]; exact hv
    have := ofJ_toJ' C (some (x, y.toNat)) hv'
    simp only [toJ] at this
    rw [Int.toNat_of_nonneg hr.2.1.1] at this
    rw [this]
  · rw [h2 hcnd] at h'
    cases h'

theorem law_liftX_even (P : APt C) (x y : ℕ) (h : eXY C P = some (x, y)) (hy : y % 2 = 0) : eLiftX C x = some P := by
  rw [xy_val] at h
  show (match setCompressed C false x with
    | some (some J) => some (ofJ C J)
    | _ => none) = some P
  have hv : Valid C ((x : ℤ), (y : ℤ), 1) := by have := P.2; rwa [h] at this
  have hr := hv.red
  simp only [Red] at hr
  have hl := liftX_complete C hp.p34 (x : ℤ) (y : ℤ) hv (by omega)
  have hsq : IsSquare (((x : ℤ) : ZMod C.p) ^ 3 + (C.a : ZMod C.p) * ((x : ℤ) : ZMod C.p) + (C.b : ZMod C.p)) := by
    rw [← hv.affine_eqn C]; exact ⟨((y : ℤ) : ZMod C.p), by ring⟩
  obtain ⟨y', hl', _, _, hset⟩ := (setCompressed_spec C hp.smooth hp.p34 false x).1 ⟨by exact_mod_cast hr.1.2, hsq⟩
  rw [hl] at hl'
  simp only [Option.some.injEq, Prod.mk.injEq, true_and, and_true] at hl'
  subst hl'
  rw [hset]
  simp only [Bool.false_eq_true, if_false, Option.some.injEq]
  have := ofJ_toJ' C (some (x, y)) hv
  simp only [toJ] at this
  rw [this]
  exact Subtype.ext h.symm

include hc in
theorem law_xy_range (P : APt C) (x y : ℕ) (h : eXY C P = some (x, y)) : 0 < x ∧ x < C.p ∧ 0 < y ∧ y < C.p := by
  rw [xy_val] at h
  exact coords_range C hp hc h

omit hp in
theorem law_neg_neg (P : APt C) : eNeg C (eNeg C P) = P := by
  apply ι_injective C
  rw [ι_neg, ι_neg, neg_neg]

omit hp in
theorem law_xy_neg_none (P : APt C) (h : eXY C P = none) : eXY C (eNeg C P) = none := by
  rw [xy_val] at h ⊢
  rw [val_none_iff] at h ⊢
  rw [ι_neg, h, neg_zero]

include hc in
/-- **key.py's arithmetic satisfies the law structure `EcLaws`** that the C07 / C08 theorems assume — from the
    decidable facts `Params` and the one remaining hypothesis `CardEq` -/
theorem pyEcLaws : EcLaws (pyEcOps C n g) where
  n_gt_one := hp.n_prime.one_lt
  mul_add := law_mul_add C hp
  mul_mul := law_mul_mul C hp
  mul_mod := law_mul_mod C hp
  neg_mul := law_neg_mul C hp
  inv_mul := fun a h0 h1 => invN_spec C hp a h0 h1
  xy_range := law_xy_range C hp hc
  p_odd := hp.p_odd
  xy_neg := law_xy_neg C hp hc
  ofXY_xy := law_ofXY_xy C hp
  neg_neg := law_neg_neg C
  xy_neg_none := law_xy_neg_none C
  mul_inj := law_mul_inj C hp
  xy_ofXY := fun P x y _ _ h => law_xy_ofXY C hp P x y h
  generated := law_generated C hp hc
  liftX_sound := law_liftX_sound C hp
  liftX_even := law_liftX_even C hp

end laws2

end Embit.Model.PyCurve
