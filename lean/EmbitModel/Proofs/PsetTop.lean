import EmbitModel.Proofs.PsbtTop
import EmbitModel.Proofs.PsetScope
/-
  C18 (deepening): the whole-PSET statements — framing of `PSET.parse`, global scope, scope counts, and the
  version-0 reconstruction of the global transaction outside the D53 region.
-/
set_option linter.unusedSimpArgs false
set_option linter.unusedVariables false
namespace Embit
open Model Spec.LWire

/-! ### parsing a complete value -/

theorem LTx.parse_sound {v : Bytes} {t : LTx} (h : LTx.parse v = some t) : LTx.ser t = v ∧ WF t := by
  unfold LTx.parse parseAll at h
  split at h
  · rename_i x hx
    simp at h; subst h
    obtain ⟨e, w⟩ := LTx.read_sound hx
    exact ⟨by simp [e], w⟩
  · simp at h

/-! ### the scope readers -/

theorem readLIns_spec (ko : KeyOps) (tx : Option LTx) :
    ∀ (n i : Nat) (b : Bytes) (ss : List LInScope) (r : Bytes),
      readLIns ko tx n i b = some (ss, r) →
      ∃ kvss : List (List KV), b = kvss.flatMap writeKVs ++ r ∧ kvss.length = n ∧ ss.length = n
        ∧ (∀ kvs ∈ kvss, ∀ kv ∈ kvs, KVWF kv)
        ∧ ∀ j (hj : j < n), ∃ kvs s, kvss[j]? = some kvs ∧ ss[j]? = some s
            ∧ LInScope.addPairs ko (lseedIn tx (i + j)) kvs = some s := by
  intro n
  induction n with
  | zero =>
    intro i b ss r h
    simp [readLIns] at h
    obtain ⟨h1, h2⟩ := h; subst h1; subst h2
    exact ⟨[], by simp, rfl, rfl, by simp, fun j hj => by omega⟩
  | succ n ih =>
    intro i b ss r h
    simp only [readLIns] at h
    split at h
    · simp at h
    · rename_i kvs r1 hk
      obtain ⟨e1, w1⟩ := readKVs_sound hk
      split at h
      · simp at h
      · rename_i s hs
        split at h
        · simp at h
        · rename_i ss' r' hrec
          simp at h; obtain ⟨h1, h2⟩ := h; subst h1; subst h2
          obtain ⟨kvss, e2, l1, l2, w2, f⟩ := ih (i+1) _ _ _ hrec
          refine ⟨kvs :: kvss, by simp [e1, e2, List.append_assoc], by simp [l1], by simp [l2], ?_, ?_⟩
          · intro x hx; simp at hx; rcases hx with rfl | hx
            · exact w1
            · exact w2 x hx
          · intro j hj
            cases j with
            | zero => exact ⟨kvs, s, by simp, by simp, by simpa using hs⟩
            | succ j =>
              obtain ⟨kvs', s', a1, a2, a3⟩ := f j (by omega)
              refine ⟨kvs', s', by simpa using a1, by simpa using a2, ?_⟩
              have : i + (j + 1) = i + 1 + j := by omega
              rw [this]; exact a3

theorem readLOuts_spec (ko : KeyOps) (tx : Option LTx) :
    ∀ (n i : Nat) (b : Bytes) (ss : List LOutScope) (r : Bytes),
      readLOuts ko tx n i b = some (ss, r) →
      ∃ kvss : List (List KV), b = kvss.flatMap writeKVs ++ r ∧ kvss.length = n ∧ ss.length = n
        ∧ (∀ kvs ∈ kvss, ∀ kv ∈ kvs, KVWF kv)
        ∧ ∀ j (hj : j < n), ∃ kvs s, kvss[j]? = some kvs ∧ ss[j]? = some s
            ∧ LOutScope.addPairs ko (lseedOut tx (i + j)) kvs = some s := by
  intro n
  induction n with
  | zero =>
    intro i b ss r h
    simp [readLOuts] at h
    obtain ⟨h1, h2⟩ := h; subst h1; subst h2
    exact ⟨[], by simp, rfl, rfl, by simp, fun j hj => by omega⟩
  | succ n ih =>
    intro i b ss r h
    simp only [readLOuts] at h
    split at h
    · simp at h
    · rename_i kvs r1 hk
      obtain ⟨e1, w1⟩ := readKVs_sound hk
      split at h
      · simp at h
      · rename_i s hs
        split at h
        · simp at h
        · rename_i ss' r' hrec
          simp at h; obtain ⟨h1, h2⟩ := h; subst h1; subst h2
          obtain ⟨kvss, e2, l1, l2, w2, f⟩ := ih (i+1) _ _ _ hrec
          refine ⟨kvs :: kvss, by simp [e1, e2, List.append_assoc], by simp [l1], by simp [l2], ?_, ?_⟩
          · intro x hx; simp at hx; rcases hx with rfl | hx
            · exact w1
            · exact w2 x hx
          · intro j hj
            cases j with
            | zero => exact ⟨kvs, s, by simp, by simp, by simpa using hs⟩
            | succ j =>
              obtain ⟨kvs', s', a1, a2, a3⟩ := f j (by omega)
              refine ⟨kvs', s', by simpa using a1, by simpa using a2, ?_⟩
              have : i + (j + 1) = i + 1 + j := by omega
              rw [this]; exact a3

/-! ### the global scope -/

/-- what embit checks of a Liquid global transaction: empty scriptSigs (the witness test of `psbt.py` looks for a
    bitcoin `Witness` object and never fires on a `TxInWitness`) -/
def LUnsigned (t : LTx) : Prop := ∀ i ∈ t.vin, i.scriptSig = []

theorem lglobalFold_spec : ∀ (g : List KV) (tx : Option LTx) (ver : Option Nat) (unk : List KV)
    (tx' : Option LTx) (ver' : Option Nat) (unk' : List KV),
    lglobalFold tx ver unk g = some (tx', ver', unk') →
      (∀ t, tx = some t → tx' = some t) ∧ (∀ n, ver = some n → ver' = some n)
      ∧ (∀ kv ∈ unk, kv ∈ unk')
      ∧ (∀ t, tx' = some t → tx = some t ∨ (LUnsigned t ∧ WF t))
      ∧ (∀ kv ∈ g, (kv.1 = [0x00] ∧ ∃ t, tx' = some t ∧ LTx.ser t = kv.2 ∧ WF t ∧ LUnsigned t ∧ tx = none)
                  ∨ (kv.1 = [0xfb] ∧ ∃ n, ver' = some n ∧ leN 4 n = kv.2)
                  ∨ (kv ∈ unk' ∧ kv.1 ≠ [0x00] ∧ kv.1 ≠ [0xfb])) := by
  intro g
  induction g with
  | nil =>
    intro tx ver unk tx' ver' unk' h; simp [lglobalFold] at h; obtain ⟨rfl, rfl, rfl⟩ := h
    simp
    intro t ht; exact Or.inl ht
  | cons kv g ih =>
    intro tx ver unk tx' ver' unk' h
    obtain ⟨k, v⟩ := kv
    simp only [lglobalFold] at h
    split at h
    · rename_i hk0
      split at h
      · simp at h
      · rename_i htx
        split at h
        · simp at h
        · rename_i t ht
          split at h
          · simp at h
          · rename_i hun
            split at h
            · simp at h
            obtain ⟨a1, a2, a3, a5, a4⟩ := ih _ _ _ _ _ _ h
            have htn : tx = none := by simpa using htx
            obtain ⟨hser, hwf⟩ := LTx.parse_sound ht
            have huns : LUnsigned t := by
              intro i hi
              simp only [List.any_eq_true, not_exists] at hun
              have := hun i
              simp [hi] at this
              exact this
            refine ⟨by simp [htn], a2, a3, ?_, ?_⟩
            · intro t0 ht0
              have := a1 t rfl
              rw [this] at ht0; simp at ht0; subst ht0
              exact Or.inr ⟨huns, hwf⟩
            intro x hx; simp at hx
            rcases hx with rfl | hx
            · exact Or.inl ⟨hk0, t, a1 t rfl, hser, hwf, huns, htn⟩
            · rcases a4 x hx with ⟨e, t', b1, b2, b3, b4, b5⟩ | b | b
              · simp at b5
              · exact Or.inr (Or.inl b)
              · exact Or.inr (Or.inr b)
    · rename_i hk0
      split at h
      · rename_i hkfb
        split at h
        · simp at h
        · rename_i hver
          split at h
          · simp at h
          · rename_i hlen
            obtain ⟨a1, a2, a3, a5, a4⟩ := ih _ _ _ _ _ _ h
            have hvn : ver = none := by simpa using hver
            refine ⟨a1, by simp [hvn], a3, a5, ?_⟩
            intro x hx; simp at hx
            rcases hx with rfl | hx
            · refine Or.inr (Or.inl ⟨hkfb, ofLe v, a2 _ rfl, len4 (by simpa using hlen)⟩)
            · exact a4 x hx
      · rename_i hkfb
        split at h
        · simp at h
        · obtain ⟨a1, a2, a3, a5, a4⟩ := ih _ _ _ _ _ _ h
          refine ⟨a1, a2, fun x hx => a3 x (by simp [hx]), a5, ?_⟩
          intro x hx; simp at hx
          rcases hx with rfl | hx
          · exact Or.inr (Or.inr ⟨a3 _ (by simp), hk0, hkfb⟩)
          · exact a4 x hx

theorem lglobalFold_nodup : ∀ (g : List KV) (tx : Option LTx) (ver : Option Nat) (unk : List KV)
    (tx' : Option LTx) (ver' : Option Nat) (unk' : List KV),
    lglobalFold tx ver unk g = some (tx', ver', unk') → (unk.map Prod.fst).Nodup → (unk'.map Prod.fst).Nodup := by
  intro g
  induction g with
  | nil => intro tx ver unk tx' ver' unk' h; simp [lglobalFold] at h; obtain ⟨rfl, rfl, rfl⟩ := h; simp
  | cons kv g ih =>
    intro tx ver unk tx' ver' unk' h hn
    obtain ⟨k, v⟩ := kv
    simp only [lglobalFold] at h
    split at h
    · split at h
      · simp at h
      · split at h
        · simp at h
        · split at h
          · simp at h
          · split at h
            · simp at h
            · exact ih _ _ _ _ _ _ h hn
    · split at h
      · split at h
        · simp at h
        · split at h
          · simp at h
          · exact ih _ _ _ _ _ _ h hn
      · split at h
        · simp at h
        · rename_i hl
          apply ih _ _ _ _ _ _ h
          simp only [List.map_append, List.map_cons, List.map_nil]
          rw [List.nodup_append]
          refine ⟨hn, by simp, ?_⟩
          intro a ha b hb
          simp at hb
          simp only [Bool.not_eq_true, Option.isSome_eq_false_iff, Option.isNone_iff_eq_none] at hl
          have := (lookup_none_iff k unk).mp (by simp [hl])
          simp at ha
          obtain ⟨v', hv'⟩ := ha
          intro hab
          exact this (a, v') hv' (by simp [hab, hb])

/-! ### what a step of `read_value` leaves alone -/

theorem lget_append_ne {φ : Type} [DecidableEq φ] (l : List (φ × Bytes)) (f g : φ) (v : Bytes) (h : g ≠ f) :
    lget (l ++ [(g, v)]) f = lget l f := by
  induction l with
  | nil => simp [lget, h]
  | cons x xs ih =>
    obtain ⟨g', w'⟩ := x
    by_cases e : g' = f <;> simp [lget, e, ih]

/-- input scope: the transaction fields of a seeded scope stay, and the liquid table only grows by the field the
    key denotes -/
theorem LInScope.addPair_facts (ko : KeyOps) (s s' : LInScope) (k v : Bytes) (hs : InSeeded s.base)
    (h : LInScope.addPair ko s k v = some s') :
    (s'.base.txid = s.base.txid ∧ s'.base.vout = s.base.vout ∧ s'.base.sequence = s.base.sequence)
    ∧ (s'.lf = s.lf ∨ ∃ f, f.key = k ∧ s'.lf = s.lf ++ [(f, v)]) := by
  unfold LInScope.addPair at h
  split at h
  · rename_i hliq
    split at h
    · simp at h; subst h; exact ⟨⟨rfl, rfl, rfl⟩, Or.inl rfl⟩
    · rename_i k0 krest
      split at h
      · repeat' (split at h)
        all_goals (try (simp at h; done))
        all_goals (simp at h; subst h; exact ⟨⟨rfl, rfl, rfl⟩, Or.inl rfl⟩)
      · split at h
        · repeat' (split at h)
          all_goals (try (simp at h; done))
          all_goals (simp at h; subst h; exact ⟨⟨rfl, rfl, rfl⟩, Or.inl rfl⟩)
        · split at h
          · simp at h
          · rename_i b hb
            simp at h; subst h
            obtain ⟨e0, e1, e2, e3⟩ := InScope.addPair_seeded ko _ 0 s.base b _ v hs hb
            exact ⟨⟨e1, e2, e3⟩, Or.inl rfl⟩
  · split at h
    · rename_i f hf
      obtain ⟨_, hfk⟩ := LInField.ofKey_spec k f hf
      repeat' (split at h)
      all_goals (try (simp at h; done))
      all_goals (simp at h; subst h; exact ⟨⟨rfl, rfl, rfl⟩, Or.inr ⟨f, hfk, rfl⟩⟩)
    · repeat' (split at h)
      all_goals (try (simp at h; done))
      all_goals (simp at h; subst h; exact ⟨⟨rfl, rfl, rfl⟩, Or.inl rfl⟩)

theorem LInScope.addPairs_facts (ko : KeyOps) : ∀ (kvs : List KV) (s s' : LInScope), InSeeded s.base →
    LInScope.addPairs ko s kvs = some s' →
    (s'.base.txid = s.base.txid ∧ s'.base.vout = s.base.vout ∧ s'.base.sequence = s.base.sequence)
    ∧ ∀ f, lget s.lf f = none → (∀ kv ∈ kvs, kv.1 ≠ f.key) → lget s'.lf f = none := by
  intro kvs
  induction kvs with
  | nil => intro s s' _ h; simp [LInScope.addPairs] at h; subst h; exact ⟨⟨rfl, rfl, rfl⟩, fun f hf _ => hf⟩
  | cons kv kvs ih =>
    intro s s' hs h
    obtain ⟨k, v⟩ := kv
    simp only [LInScope.addPairs] at h
    split at h
    · simp at h
    · rename_i s1 h1
      obtain ⟨⟨e1, e2, e3⟩, hl⟩ := LInScope.addPair_facts ko s s1 k v hs h1
      have hs1 : InSeeded s1.base := (LInScope.addPair_seeded ko s s1 k v hs h1).2
      obtain ⟨⟨f1, f2, f3⟩, hl'⟩ := ih s1 s' hs1 h
      refine ⟨⟨f1.trans e1, f2.trans e2, f3.trans e3⟩, ?_⟩
      intro f hf hk
      apply hl' f
      · rcases hl with hl | ⟨g, hg, hl⟩
        · rw [hl]; exact hf
        · rw [hl, lget_append_ne _ _ _ _ (by intro e; subst e; exact hk (k, v) (by simp) hg.symm)]; exact hf
      · intro x hx; exact hk x (by simp [hx])

/-- a version-0 output scope as seeded from ANY output of the global transaction: script, asset, and the value either as
    an integer or as the raw commitment -/
def LOutSeededG (s : LOutScope) : Prop :=
  s.base.spk.isSome = true ∧ (s.base.value.isSome = true ∨ s.valueConf.isSome = true)
  ∧ (lget s.lf LOutField.asset).isSome = true

theorem LOutScope.addPair_seededG (ko : KeyOps) (s s' : LOutScope) (k v : Bytes) (hs : LOutSeededG s)
    (h : LOutScope.addPair ko s k v = some s') :
    (txFieldKeyOut k = false ∧ LOutField.ofKey k ≠ some .asset) ∧ LOutSeededG s'
    ∧ s'.base.value = s.base.value ∧ s'.base.spk = s.base.spk ∧ s'.valueConf = s.valueConf
    ∧ (s'.lf = s.lf ∨ ∃ f, f ≠ LOutField.asset ∧ (f.key true = k ∨ f.key false = k) ∧ s'.lf = s.lf ++ [(f, v)]) := by
  obtain ⟨hspk, hval, hasset⟩ := hs
  unfold LOutScope.addPair at h
  split at h
  · rename_i hliq
    have hl : isLiquidKey k = false := by simpa using hliq
    split at h
    · simp at h
    · rename_i hc
      split at h
      · simp at h
      · rename_i b hb
        simp at h; subst h
        obtain ⟨t1, t2, t3, t4⟩ := OutScope.addPair_txfields ko s.base b k v hb
        have hk4 : k ≠ [0x04] := by
          intro e
          have := t4 e
          rw [this] at hspk; simp at hspk
        have hk3 : k ≠ [0x03] := by
          intro e
          have hv0 := (t3 e).1
          rcases hval with hv | hv
          · rw [hv0] at hv; simp at hv
          · simp [e, hv] at hc
        simp only [hk3, hk4, if_false] at t1 t2
        have hna : LOutField.ofKey k ≠ some .asset := by
          intro hof
          obtain ⟨_, hkk⟩ := LOutField.ofKey_spec k _ hof
          have : isLiquidKey k = true := by
            rcases hkk with rfl | rfl <;> decide
          rw [hl] at this; exact absurd this (by decide)
        refine ⟨⟨by simp [txFieldKeyOut, hk3, hk4], hna⟩, ⟨by rw [t2]; exact hspk, ?_, hasset⟩, t1, t2, rfl, Or.inl rfl⟩
        simpa [t1] using hval
  · rename_i hliq
    have hl : isLiquidKey k = true := by simpa using hliq
    have hk : txFieldKeyOut k = false := isLiquidKey_not_txFieldOut k hl
    split at h
    · rename_i f hf
      obtain ⟨_, hfk⟩ := LOutField.ofKey_spec k f hf
      split at h
      · simp at h
      · rename_i hnone
        split at h
        · simp at h
        · simp at h; subst h
          have hfa : f ≠ LOutField.asset := by
            intro e; subst e; exact hnone hasset
          refine ⟨⟨hk, ?_⟩, ⟨hspk, hval, lget_append_isSome _ _ _ _ hasset⟩, rfl, rfl, rfl, Or.inr ⟨f, hfa, hfk, rfl⟩⟩
          intro e
          rw [hf] at e; simp at e; exact hfa e
    · rename_i hnf
      split at h
      · simp at h
      · simp at h; subst h
        exact ⟨⟨hk, by simp [hnf]⟩, ⟨hspk, hval, hasset⟩, rfl, rfl, rfl, Or.inl rfl⟩

/-- whole output scope from a general version-0 seed: nothing lost (as `LOutScope.addPairs_lossless`, which covers
    seeds with an explicit value only), and the seeded fields are still there -/
theorem LOutScope.addPairs_losslessG (ko : KeyOps) (ver : Option Nat) :
    ∀ (kvs : List KV) (s s' : LOutScope), (ver = some 2 ∨ LOutSeededG s) → (∀ kv ∈ kvs, kv.1 ≠ []) →
      LOutScope.addPairs ko s kvs = some s' →
      (∀ kv ∈ kvs, (LOutField.canonKey ver kv.1, kv.2) ∈ s'.pairsL ver) ∧ (∀ kv ∈ s.pairsL ver, kv ∈ s'.pairsL ver)
      ∧ s'.valueConf = s.valueConf
      ∧ (LOutSeededG s → s'.base.value = s.base.value ∧ s'.base.spk = s.base.spk
           ∧ lget s'.lf LOutField.asset = lget s.lf LOutField.asset) := by
  intro kvs
  induction kvs with
  | nil => intro s s' _ _ h; simp [LOutScope.addPairs] at h; subst h; simp
  | cons kv kvs ih =>
    intro s s' hv hne h
    obtain ⟨k, v⟩ := kv
    simp only [LOutScope.addPairs] at h
    split at h
    · simp at h
    · rename_i s1 h1
      have hk : k ≠ [] := hne (k, v) (by simp)
      have hv1 : ver = some 2 ∨ (txFieldKeyOut k = false ∧ LOutField.ofKey k ≠ some .asset) := by
        rcases hv with hv | hv
        · exact Or.inl hv
        · exact Or.inr (LOutScope.addPair_seededG ko s s1 k v hv h1).1
      obtain ⟨m1, m2, m3⟩ := LOutScope.addPair_lossless ko s s1 k v ver hv1 hk h1
      have hv' : ver = some 2 ∨ LOutSeededG s1 := by
        rcases hv with hv | hv
        · exact Or.inl hv
        · exact Or.inr (LOutScope.addPair_seededG ko s s1 k v hv h1).2.1
      obtain ⟨n1, n2, n3, n4⟩ := ih s1 s' hv' (fun x hx => hne x (by simp [hx])) h
      refine ⟨?_, fun x hx => n2 x (m2 x hx), by rw [n3, m3], ?_⟩
      · intro x hx
        simp at hx
        rcases hx with rfl | hx
        · exact n2 _ m1
        · exact n1 x hx
      · intro hs
        obtain ⟨_, hs1, e1, e2, e3, hl⟩ := LOutScope.addPair_seededG ko s s1 k v hs h1
        obtain ⟨f1, f2, f3⟩ := n4 hs1
        refine ⟨f1.trans e1, f2.trans e2, f3.trans ?_⟩
        rcases hl with hl | ⟨f, hfa, _, hl⟩
        · rw [hl]
        · rw [hl, lget_append_ne _ _ _ _ hfa]

/-! ### the decomposition `PSET.parse` performs -/

/-- the initial state of `parse_unknowns` -/
def lgstate0 (tx : Option LTx) : GState :=
  { txVersion := tx.map (·.version), locktime := tx.map (·.locktime),
    nin := tx.map (·.vin.length), nout := tx.map (·.vout.length), xpubs := [], unknown := [] }

/-- `PSET.parse` (KEEP_ALL) accepted `b`: the framing, the global fold, the `parse_unknowns` pass and the per-scope
    folds, with every equation -/
theorem LPset.parse_decomp (ko : KeyOps) (b : Bytes) (p : LPset) (h : LPset.parse ko b = some p) :
    ∃ (g : List KV) (kin kout : List (List KV)) (tx : Option LTx) (unk : List KV) (gs : GState),
      b = psetMagic ++ (writeKVs g ++ ((kin ++ kout).flatMap writeKVs))
      ∧ (∀ kv ∈ g, KVWF kv) ∧ (∀ kvs ∈ kin ++ kout, ∀ kv ∈ kvs, KVWF kv)
      ∧ lglobalFold none none [] g = some (tx, p.version, unk)
      ∧ parseUnknowns ko (p.version == some 2) (lgstate0 tx) unk = some gs
      ∧ ((p.version = some 2 ∧ tx = none) ∨ (p.version ≠ some 2 ∧ ∃ t, tx = some t))
      ∧ p.txVersion = gs.txVersion ∧ p.locktime = gs.locktime ∧ p.xpubs = gs.xpubs ∧ p.unknown = gs.unknown
      ∧ kin.length = p.inputs.length ∧ kout.length = p.outputs.length
      ∧ p.inputs.length = gs.nin.getD 0 ∧ p.outputs.length = gs.nout.getD 0
      ∧ (∀ j, j < p.inputs.length → ∃ kvs s, kin[j]? = some kvs ∧ p.inputs[j]? = some s
            ∧ LInScope.addPairs ko (lseedIn tx j) kvs = some s)
      ∧ (∀ j, j < p.outputs.length → ∃ kvs s, kout[j]? = some kvs ∧ p.outputs[j]? = some s
            ∧ LOutScope.addPairs ko (lseedOut tx j) kvs = some s) := by
  unfold LPset.parse at h
  split at h
  · simp at h
  · rename_i m r0 hm
    obtain ⟨em, lm⟩ := takeN_sound hm
    split at h
    · simp at h
    · rename_i hmagic
      simp only [ne_eq, Decidable.not_not] at hmagic
      split at h
      · simp at h
      · rename_i g r1 hg
        obtain ⟨eg, wg⟩ := readKVs_sound hg
        split at h
        · simp at h
        · rename_i tx ver unk hgf
          simp only [] at h
          split at h
          · simp at h
          · rename_i hc1
            split at h
            · simp at h
            · rename_i hc2
              split at h
              · simp at h
              · rename_i gs hpu
                generalize hnin : gs.nin.getD 0 = nin at h
                generalize hnout : gs.nout.getD 0 = nout at h
                split at h
                · simp at h
                · rename_i ins' r2 hins
                  split at h
                  · simp at h
                  · rename_i outs' r3 houts
                    split at h
                    · simp at h
                    · rename_i hr3
                      simp at h
                      have hr3' : r3 = [] := by simpa using hr3
                      obtain ⟨kin, ei, li1, li2, wi, fi⟩ := readLIns_spec ko tx nin 0 r1 ins' r2 hins
                      obtain ⟨kout, eo, lo1, lo2, wo, fo⟩ := readLOuts_spec ko tx nout 0 r2 outs' r3 houts
                      subst h
                      have hver : (ver = some 2 ∧ tx = none) ∨ (ver ≠ some 2 ∧ ∃ t, tx = some t) := by
                        by_cases hv : ver = some 2
                        · left; refine ⟨hv, ?_⟩
                          cases tx with
                          | none => rfl
                          | some t => simp [hv] at hc1
                        · right; refine ⟨hv, ?_⟩
                          cases tx with
                          | none => simp [hv] at hc2
                          | some t => exact ⟨t, rfl⟩
                      refine ⟨g, kin, kout, tx, unk, gs, ?_, wg, ?_, hgf, hpu, hver, rfl, rfl, rfl, rfl,
                        by simp [li1, li2], by simp [lo1, lo2], by simp [li2, hnin], by simp [lo2, hnout], ?_, ?_⟩
                      · simp [em, hmagic, eg, ei, eo, hr3', List.append_assoc]
                      · intro kvs hk
                        rcases List.mem_append.mp hk with hk | hk
                        · exact wi kvs hk
                        · exact wo kvs hk
                      · intro j hj
                        obtain ⟨kvs, s, a1, a2, a3⟩ := fi j (by simpa [li2] using hj)
                        exact ⟨kvs, s, a1, a2, by simpa using a3⟩
                      · intro j hj
                        obtain ⟨kvs, s, a1, a2, a3⟩ := fo j (by simpa [lo2] using hj)
                        exact ⟨kvs, s, a1, a2, by simpa using a3⟩

/-! ### version 0: the transaction rebuilt from the scopes -/

theorem WFAsset_norm (a : Bytes) (h : WFAsset a) : normAsset a = a := by
  rcases h with h | ⟨h, h1⟩
  · unfold normAsset
    split
    · rfl
    · rename_i c rest
      have : rest.length ≠ 32 := by simp at h; omega
      simp [this]
  · exact normAsset_other a h1

theorem WFAsset_truthy (a : Bytes) (h : WFAsset a) : truthyB (some a) = true := by
  have : a ≠ [] := by
    rintro rfl
    rcases h with h | ⟨h, _⟩ <;> simp at h
  simp [truthyB, this]

theorem LTx.fits_of_wf (t : LTx) (h : WF t) : LTx.fits t = true := by
  unfold LTx.fits
  simp only [Bool.and_eq_true, decide_eq_true_eq, List.all_eq_true]
  refine ⟨⟨⟨h.version, h.locktime⟩, ?_⟩, ?_⟩
  · intro i hi
    have wi := h.ins i hi
    refine ⟨⟨?_, wi.sequence⟩, ?_⟩
    · unfold LTxIn.wireVout
      rcases wi.index with ⟨h1, _⟩ | ⟨h1, h2, h3⟩
      · split <;> split <;> omega
      · simp [h1, h2, h3]
    · cases hiss : i.issuance with
      | none => rfl
      | some a =>
        have wa := wi.issuance a hiss
        have ha := wa.amount
        have ht := wa.token
        simp only [Bool.and_eq_true]
        constructor
        · cases hx : a.amount <;> simp [Commit.fits]
          rw [hx] at ha; exact ha
        · cases hx : a.token <;> simp [Commit.fits]
          rw [hx] at ht; exact ht
  · intro o ho
    have wo := (h.outs o ho).value
    cases hv : o.value with
    | explicit v =>
      rw [hv] at wo
      have : v < 2^64 := wo
      simpa using this
    | conf b => rfl

/-- the parts of the global transaction kept beside the scope's fields (fix `d53`) are not touched by reading pairs -/
theorem LInScope.addPair_txparts (ko : KeyOps) (s s' : LInScope) (k v : Bytes)
    (h : LInScope.addPair ko s k v = some s') : s'.isPegin = s.isPegin ∧ s'.txIssuance = s.txIssuance := by
  unfold LInScope.addPair at h
  repeat' (split at h)
  all_goals (first | (simp at h; done) | (simp only [Option.some.injEq] at h; subst h; exact ⟨rfl, rfl⟩))

theorem LInScope.addPairs_txparts (ko : KeyOps) : ∀ (kvs : List KV) (s s' : LInScope),
    LInScope.addPairs ko s kvs = some s' → s'.isPegin = s.isPegin ∧ s'.txIssuance = s.txIssuance := by
  intro kvs
  induction kvs with
  | nil => intro s s' h; simp [LInScope.addPairs] at h; subst h; exact ⟨rfl, rfl⟩
  | cons kv kvs ih =>
    intro s s' h
    obtain ⟨k, v⟩ := kv
    simp only [LInScope.addPairs] at h
    split at h
    · simp at h
    · rename_i s1 h1
      obtain ⟨a1, a2⟩ := LInScope.addPair_txparts ko s s1 k v h1
      obtain ⟨b1, b2⟩ := ih s1 s' h
      exact ⟨b1.trans a1, b2.trans a2⟩

theorem LOutScope.addPair_txparts (ko : KeyOps) (s s' : LOutScope) (k v : Bytes)
    (h : LOutScope.addPair ko s k v = some s') : s'.txNonce = s.txNonce := by
  unfold LOutScope.addPair at h
  repeat' (split at h)
  all_goals (first | (simp at h; done) | (simp only [Option.some.injEq] at h; subst h; rfl))

theorem LOutScope.addPairs_txparts (ko : KeyOps) : ∀ (kvs : List KV) (s s' : LOutScope),
    LOutScope.addPairs ko s kvs = some s' → s'.txNonce = s.txNonce := by
  intro kvs
  induction kvs with
  | nil => intro s s' h; simp [LOutScope.addPairs] at h; subst h; rfl
  | cons kv kvs ih =>
    intro s s' h
    obtain ⟨k, v⟩ := kv
    simp only [LOutScope.addPairs] at h
    split at h
    · simp at h
    · rename_i s1 h1
      exact (ih s1 s' h).trans (LOutScope.addPair_txparts ko s s1 k v h1)

/-- outside the D53 region: the global transaction of a version-0 PSET has nothing the scopes cannot hold (no
    issuance, no peg-in flag, no witness data, no output nonce) and no input scope carries the PSETv2 issuance
    fields from which `LInputScope.vin` would build an issuance of its own -/
def D53Free (t : LTx) (ins : List (List KV)) : Bool :=
  t.vin.all (fun i => i.issuance.isNone && !i.isPegin && decide (i.witness = {}))
  && t.vout.all (fun o => o.nonce.isNone && decide (o.witness = {}))
  && ins.all (fun kvs => kvs.all (fun kv => kv.1 != LInField.key .issueValue && kv.1 != LInField.key .issueCommitment))

theorem LInScope.vin_of_seed (ko : KeyOps) (t : LTx) (j : Nat) (hj : j < t.vin.length) (kvs : List KV) (s : LInScope)
    (h : LInScope.addPairs ko (lseedIn (some t) j) kvs = some s)
    (hu : t.vin[j].scriptSig = [])
    (hf : t.vin[j].issuance = none ∧ t.vin[j].isPegin = false ∧ t.vin[j].witness = {})
    (hk : ∀ kv ∈ kvs, kv.1 ≠ LInField.key .issueValue ∧ kv.1 ≠ LInField.key .issueCommitment) :
    s.vin = some t.vin[j] := by
  have hseed : InSeeded (lseedIn (some t) j).base := by
    simp [lseedIn, List.getElem?_eq_getElem hj, InSeeded]
  obtain ⟨⟨e1, e2, e3⟩, hl⟩ := LInScope.addPairs_facts ko kvs _ s hseed h
  have l1 := hl .issueValue (by simp [lseedIn, List.getElem?_eq_getElem hj, lget]) (fun kv hkv => (hk kv hkv).1)
  have l2 := hl .issueCommitment (by simp [lseedIn, List.getElem?_eq_getElem hj, lget]) (fun kv hkv => (hk kv hkv).2)
  simp [lseedIn, List.getElem?_eq_getElem hj] at e1 e2 e3
  have hai : s.assetIssuance = none := by
    simp [LInScope.assetIssuance, LInScope.geti, l1, l2, truthyN, truthyB]
  obtain ⟨p1, p2⟩ := LInScope.addPairs_txparts ko kvs _ s h
  simp [lseedIn, List.getElem?_eq_getElem hj] at p1 p2
  simp only [LInScope.vin, LInScope.issuance, e1, e2, e3, hai, p1, p2, Option.getD_some]
  obtain ⟨f1, f2, f3⟩ := hf
  cases hh : t.vin[j] with
  | mk a1 a2 a3 a4 a5 a6 a7 =>
    simp [hh] at hu f1 f2 f3 ⊢
    simp_all

theorem LOutScope.vout_of_seed (ko : KeyOps) (t : LTx) (j : Nat) (hj : j < t.vout.length) (kvs : List KV) (s : LOutScope)
    (h : LOutScope.addPairs ko (lseedOut (some t) j) kvs = some s)
    (hne : ∀ kv ∈ kvs, kv.1 ≠ [])
    (hw : WFAsset t.vout[j].asset) (hf : t.vout[j].nonce = none ∧ t.vout[j].witness = {}) :
    s.vout = some t.vout[j] := by
  cases hv : t.vout[j].value with
  | explicit v =>
    have hseed : LOutSeededG (lseedOut (some t) j) := by
      simp [lseedOut, List.getElem?_eq_getElem hj, hv, LOutSeededG, lget]
    obtain ⟨_, _, e0, e⟩ := LOutScope.addPairs_losslessG ko none kvs _ s (Or.inr hseed) hne h
    obtain ⟨e1, e2, e3⟩ := e hseed
    simp [lseedOut, List.getElem?_eq_getElem hj, hv, lget] at e0 e1 e2 e3
    have ht := WFAsset_truthy _ hw
    have q := LOutScope.addPairs_txparts ko kvs _ s h
    simp [lseedOut, List.getElem?_eq_getElem hj, hv, hf.1] at q
    simp only [LOutScope.vout, LOutScope.get, e0, e1, e2, e3, ht, if_true, WFAsset_norm _ hw, q]
    obtain ⟨f1, f2⟩ := hf
    cases hh : t.vout[j] with
    | mk a1 a2 a3 a4 a5 =>
      simp [hh] at hv f1 f2 ⊢
      refine ⟨?_, ?_, ?_⟩ <;> simp_all
  | conf c =>
    have hseed : LOutSeededG (lseedOut (some t) j) := by
      simp [lseedOut, List.getElem?_eq_getElem hj, hv, LOutSeededG, lget]
    obtain ⟨_, _, e0, e⟩ := LOutScope.addPairs_losslessG ko none kvs _ s (Or.inr hseed) hne h
    obtain ⟨e1, e2, e3⟩ := e hseed
    simp [lseedOut, List.getElem?_eq_getElem hj, hv, lget] at e0 e1 e2 e3
    have ht := WFAsset_truthy _ hw
    have q := LOutScope.addPairs_txparts ko kvs _ s h
    simp [lseedOut, List.getElem?_eq_getElem hj, hv, hf.1] at q
    simp only [LOutScope.vout, LOutScope.get, e0, e1, e2, e3, ht, if_true, WFAsset_norm _ hw, q]
    obtain ⟨f1, f2⟩ := hf
    cases hh : t.vout[j] with
    | mk a1 a2 a3 a4 a5 =>
      simp [hh] at hv f1 f2 ⊢
      refine ⟨?_, ?_, ?_⟩ <;> simp_all

theorem optAll_map_eq_get {α β : Type} (f : α → Option β) : ∀ (l : List α) (l' : List β), l.length = l'.length →
    (∀ (j : Nat) (a : α), l[j]? = some a → ∃ b, l'[j]? = some b ∧ f a = some b) → optAll (l.map f) = some l' := by
  intro l
  induction l with
  | nil => intro l' hl _; cases l' with
    | nil => rfl
    | cons _ _ => simp at hl
  | cons a l ih =>
    intro l' hl h
    cases l' with
    | nil => simp at hl
    | cons b l' =>
      obtain ⟨b', hb1, hb2⟩ := h 0 a (by simp)
      simp at hb1; subst hb1
      have := ih l' (by simpa using hl) (fun j x hx => by
        obtain ⟨y, hy1, hy2⟩ := h (j+1) x (by simpa using hx)
        exact ⟨y, by simpa using hy1, hy2⟩)
      simp [optAll, hb2, this]

/-- version 0, outside the D53 region: the transaction rebuilt from the scopes IS the global transaction -/
theorem LPset.tx_of_v0 (ko : KeyOps) (p : LPset) (t : LTx) (kin kout : List (List KV))
    (hwf : WF t) (hu : LUnsigned t)
    (wi : ∀ kvs ∈ kin, ∀ kv ∈ kvs, KVWF kv) (wo : ∀ kvs ∈ kout, ∀ kv ∈ kvs, KVWF kv)
    (hv : p.txVersion = some t.version) (hl : p.locktime = some t.locktime)
    (li : p.inputs.length = t.vin.length) (lo : p.outputs.length = t.vout.length)
    (fi : ∀ j, j < p.inputs.length → ∃ kvs s, kin[j]? = some kvs ∧ p.inputs[j]? = some s
            ∧ LInScope.addPairs ko (lseedIn (some t) j) kvs = some s)
    (fo : ∀ j, j < p.outputs.length → ∃ kvs s, kout[j]? = some kvs ∧ p.outputs[j]? = some s
            ∧ LOutScope.addPairs ko (lseedOut (some t) j) kvs = some s)
    (hfree : D53Free t kin = true) : p.tx = some t := by
  simp only [D53Free, Bool.and_eq_true, List.all_eq_true, decide_eq_true_eq, bne_iff_ne, ne_eq,
    Option.isNone_iff_eq_none, Bool.not_eq_true'] at hfree
  obtain ⟨⟨hfi, hfo⟩, hfk⟩ := hfree
  have hvin : optAll (p.inputs.map LInScope.vin) = some t.vin := by
    apply optAll_map_eq_get
    · exact li
    · intro j a ha
      have hj : j < p.inputs.length := (List.getElem?_eq_some_iff.mp ha).1
      have hjt : j < t.vin.length := by omega
      obtain ⟨kvs, s, a1, a2, a3⟩ := fi j hj
      rw [ha] at a2; simp at a2; subst a2
      refine ⟨t.vin[j], List.getElem?_eq_getElem hjt, ?_⟩
      have hm := List.getElem_mem hjt
      obtain ⟨⟨g1, g2⟩, g3⟩ := hfi _ hm
      exact LInScope.vin_of_seed ko t j hjt kvs a a3 (hu _ hm) ⟨g1, g2, g3⟩
        (fun kv hkv => hfk kvs (List.mem_of_getElem? a1) kv hkv)
  have hvout : optAll (p.outputs.map LOutScope.vout) = some t.vout := by
    apply optAll_map_eq_get
    · exact lo
    · intro j a ha
      have hj : j < p.outputs.length := (List.getElem?_eq_some_iff.mp ha).1
      have hjt : j < t.vout.length := by omega
      obtain ⟨kvs, s, a1, a2, a3⟩ := fo j hj
      rw [ha] at a2; simp at a2; subst a2
      refine ⟨t.vout[j], List.getElem?_eq_getElem hjt, ?_⟩
      have hm := List.getElem_mem hjt
      obtain ⟨g1, g2⟩ := hfo _ hm
      exact LOutScope.vout_of_seed ko t j hjt kvs a a3
        (fun kv hkv => (wo kvs (List.mem_of_getElem? a1) kv hkv).1) (hwf.outs _ hm).asset ⟨g1, g2⟩
  simp only [LPset.tx, hvin, hvout, hv, hl]
  simp

theorem lglobalFold_tx_mem : ∀ (g : List KV) (tx : Option LTx) (ver : Option Nat) (unk : List KV)
    (tx' : Option LTx) (ver' : Option Nat) (unk' : List KV),
    lglobalFold tx ver unk g = some (tx', ver', unk') → tx' = tx ∨ ∃ kv ∈ g, kv.1 = [0x00] := by
  intro g
  induction g with
  | nil => intro tx ver unk tx' ver' unk' h; simp [lglobalFold] at h; exact Or.inl h.1.symm
  | cons kv g ih =>
    intro tx ver unk tx' ver' unk' h
    obtain ⟨k, v⟩ := kv
    by_cases hk0 : k = [0x00]
    · exact Or.inr ⟨(k, v), by simp, hk0⟩
    · simp only [lglobalFold, hk0, if_false] at h
      repeat' (split at h)
      all_goals (try (simp at h; done))
      all_goals (rcases ih _ _ _ _ _ _ h with hh | ⟨x, hx, he⟩)
      all_goals (first | exact Or.inl hh | exact Or.inr ⟨x, by simp [hx], he⟩)

theorem optAll_map_of_forall {α β : Type} (f : α → Option β) (g : α → β) : ∀ (l : List α),
    (∀ a ∈ l, f a = some (g a)) → optAll (l.map f) = some (l.map g) := by
  intro l
  induction l with
  | nil => intro _; rfl
  | cons a l ih =>
    intro h
    simp [optAll, h a (by simp), ih (fun x hx => h x (by simp [hx]))]

/-- `PSET.write_to` succeeds as soon as the global scope can be written and no output scope holds a raw commitment
    in the place of a version-2 value -/
theorem LPset.ser_of_globalPairs (p : LPset) (gp : List KV) (hgp : p.globalPairs = some gp)
    (ho : ∀ s ∈ p.outputs, s.pairs p.version = some (s.pairsL p.version)) :
    LPset.ser p = some (psetMagic ++ writeKVs gp
      ++ p.inputs.flatMap (fun s => writeKVs (s.pairs p.version))
      ++ p.outputs.flatMap (fun s => writeKVs (s.pairsL p.version))) := by
  have := optAll_map_of_forall (fun s : LOutScope => s.pairs p.version) (fun s => s.pairsL p.version) p.outputs ho
  simp only [LPset.ser, hgp, this]
  simp [List.flatMap_map]

end Embit
