import EmbitModel.Proofs.Base58Prefix
import EmbitModel.Proofs.Bip32Neuter
/-
  Facts about the generated NETWORKS tables used by the table-level theorems (all by `decide` on the table that
  harness/facts.py re-extracts from the loaded module on every run).
-/
namespace Embit.Keys
open Embit

variable {E : EcOps}

/-- `to_public()` maps every `?prv` version of every network to the `?pub` version of the same network and letter -/
theorem detect_table :
    (Generated.keyNets.all fun net => net.prvPub.all fun e => detectPubVersion e.1 == e.2) = true := by decide

def isPubVersion (pv : Bytes) : Bool :=
  Generated.keyNets.any fun n => n.versions.any fun v => v.2.1 == pv && !v.2.2

/-- every private SLIP-132 version of the table has a public counterpart that is itself a public version of the table -/
def detectTableOk : Bool :=
  Generated.keyNets.all fun net => net.versions.all fun e =>
    !e.2.2 || (match detectPubVersion e.2.1 with
               | some pv => isPubVersion pv
               | none => false)

theorem detectTable_ok : detectTableOk = true := by decide

/-- there are ten version prefixes per network, five private and five public -/
theorem ten_versions_per_network :
    (Generated.keyNets.all fun net => net.versions.length == 10 && (net.versions.filter (·.2.2)).length == 5) = true := by
  decide

theorem table_pub_says (env : Env) (dsha : Bytes → Bytes) (hd : ∀ b, 4 ≤ (dsha b).length)
    (henc : env.b58enc = B58.encodeCheck dsha) (net : Generated.KeyNet) (hn : net ∈ Generated.keyNets)
    (e : String × Bytes × Bool) (he : e ∈ net.versions) (hprv : e.2.2 = true) :
    VersionSays env e.2.1 tPrv ∧ ∀ pv, detectPubVersion e.2.1 = some pv → VersionSays env pv tPub := by
  refine ⟨by simpa [kindText, hprv] using B58.table_versionSays env dsha hd henc net hn e he, ?_⟩
  intro pv hpv
  have := detectTable_ok
  unfold detectTableOk at this
  rw [List.all_eq_true] at this
  have := this net hn
  rw [List.all_eq_true] at this
  have := this e he
  simp only [hprv, Bool.not_true, Bool.false_or, hpv] at this
  unfold isPubVersion at this
  rw [List.any_eq_true] at this
  obtain ⟨n', hn', hv⟩ := this
  rw [List.any_eq_true] at hv
  obtain ⟨v, hv, hvv⟩ := hv
  simp only [Bool.and_eq_true, beq_iff_eq, Bool.not_eq_eq_eq_not, Bool.not_true] at hvv
  have := B58.table_versionSays env dsha hd henc n' hn' v hv
  rw [hvv.1, hvv.2] at this
  simpa [kindText] using this

end Embit.Keys
