import EmbitModel.Spec.DescriptorSpec
/-
  Helper lemmas for the checksum theorems of C12: the streaming loop of `checksum.py` against the list form of
  BIP380, the create/verify identity (8 trailing symbols never reach the feedback taps, so they enter linearly),
  idempotence of `add_checksum`.
-/
namespace Embit.Model.Descriptor
open Embit Embit.Spec.Descriptor

/-! ### one step -/

theorem and_two_pow_ne_zero_iff (t i : Nat) : (t &&& 2 ^ i ≠ 0) ↔ ((t >>> i) &&& 1 = 1) := by
  rw [Nat.and_one_is_mod, Nat.shiftRight_eq_div_pow]
  have hb : t.testBit i = decide (t / 2 ^ i % 2 = 1) := Nat.testBit_eq_decide_div_mod_eq
  constructor
  · intro h
    by_cases ht : t.testBit i = true
    · rw [hb] at ht; simpa using ht
    · exfalso
      apply h
      apply Nat.eq_of_testBit_eq
      intro j
      rw [Nat.testBit_and, Nat.testBit_two_pow]
      by_cases hij : i = j
      · subst hij; simp [ht]
      · simp [hij]
  · intro h hz
    have ht : t.testBit i = true := by rw [hb]; simpa using h
    have := congrArg (fun x => x.testBit i) hz
    simp [Nat.testBit_and, ht] at this

/-- `polymod(c, val)` of checksum.py is one round of BIP380's `descsum_polymod` -/
theorem polymod_eq_round (c v : Nat) : polymod c v = polymodRound c v := by
  unfold polymod polymodRound
  simp only [GENERATOR, applyGen]
  have h1 := and_two_pow_ne_zero_iff (c >>> 35) 0
  have h2 := and_two_pow_ne_zero_iff (c >>> 35) 1
  have h3 := and_two_pow_ne_zero_iff (c >>> 35) 2
  have h4 := and_two_pow_ne_zero_iff (c >>> 35) 3
  have h5 := and_two_pow_ne_zero_iff (c >>> 35) 4
  simp only [Nat.pow_zero, Nat.pow_one, Nat.reducePow] at h1 h2 h3 h4 h5
  simp only [h1, h2, h3, h4, h5, Nat.zero_add, Nat.reduceAdd]

theorem charset_eq : Model.Descriptor.INPUT_CHARSET = Spec.Descriptor.INPUT_CHARSET := rfl
theorem cscharset_eq : Model.Descriptor.CHECKSUM_CHARSET = Spec.Descriptor.CHECKSUM_CHARSET := rfl

theorem findIdx_eq_charsetFind (l : List Char) (c : Char) : findIdx l c = charsetFind l c := by
  induction l with
  | nil => rfl
  | cons x xs ih => simp [findIdx, charsetFind, ih]

/-! ### the streaming loop = expand, then fold -/

/-- value of the pending groups in base 3 -/
def groupsVal : List Nat → Nat
  | [] => 0
  | [a] => a
  | [a, b] => a * 3 + b
  | _ => 0

/-- what `checksum()` does after the loop with the left-over group -/
def finish (st : Nat × Nat × Nat) : Nat := if st.2.2 > 0 then polymod st.1 st.2.1 else st.1

theorem loop_eq_expand :
    ∀ (s : Str) (c : Nat) (g : List Nat), g.length ≤ 2 →
      (checksumLoop s c (groupsVal g) g.length).map finish =
        (expandAux s g).map fun syms => syms.foldl polymodRound c := by
  intro s
  induction s with
  | nil =>
    intro c g hg
    rcases g with _ | ⟨a, _ | ⟨b, _ | ⟨d, t⟩⟩⟩
    · simp only [checksumLoop, expandAux, groupsVal, List.length_nil, Option.map_some, finish, List.foldl_nil]
      rfl
    · simp only [checksumLoop, expandAux, groupsVal, List.length_cons, List.length_nil, Option.map_some, finish,
        List.foldl_cons, List.foldl_nil, polymod_eq_round]
      rfl
    · simp only [checksumLoop, expandAux, groupsVal, List.length_cons, List.length_nil, Option.map_some, finish,
        List.foldl_cons, List.foldl_nil, polymod_eq_round]
      rfl
    · exact absurd hg (by simp only [List.length_cons]; omega)
  | cons ch r ih =>
    intro c g hg
    simp only [checksumLoop, expandAux, charset_eq, findIdx_eq_charsetFind]
    cases hf : charsetFind Spec.Descriptor.INPUT_CHARSET ch with
    | none => simp
    | some pos =>
      simp only
      rcases g with _ | ⟨a, _ | ⟨b, _ | ⟨d, t⟩⟩⟩
      · have := ih (polymod c (pos &&& 31)) [pos >>> 5] (by simp)
        simp only [groupsVal, List.length_cons, List.length_nil] at this
        simp only [groupsVal, List.length_nil, List.nil_append, Nat.zero_mul, Nat.zero_add]
        rw [if_neg (by decide)]
        rw [this]
        cases expandAux r [pos >>> 5] <;> simp [polymod_eq_round]
      · have := ih (polymod c (pos &&& 31)) [a, pos >>> 5] (by simp)
        simp only [groupsVal, List.length_cons, List.length_nil] at this
        simp only [groupsVal, List.length_cons, List.length_nil, List.cons_append, List.nil_append]
        rw [if_neg (by decide)]
        rw [this]
        cases expandAux r [a, pos >>> 5] <;> simp [polymod_eq_round]
      · have := ih (polymod (polymod c (pos &&& 31)) ((a * 3 + b) * 3 + (pos >>> 5))) [] (by simp)
        simp only [groupsVal, List.length_nil] at this
        simp only [groupsVal, List.length_cons, List.length_nil, List.cons_append, List.nil_append]
        rw [if_pos (by decide)]
        rw [this]
        have harith : (a * 3 + b) * 3 + (pos >>> 5) = a * 9 + b * 3 + (pos >>> 5) := by omega
        cases expandAux r [] <;> simp [polymod_eq_round, harith]
      · exact absurd hg (by simp only [List.length_cons]; omega)

theorem polymodZeros_eq (n c : Nat) : polymodZeros n c = (List.replicate n 0).foldl polymodRound c := by
  induction n generalizing c with
  | zero => rfl
  | succ n ih => simp [polymodZeros, List.replicate, ih, polymod_eq_round]

theorem checksumChars_eq (c : Nat) :
    checksumChars c = (checksumSymbols c).map fun v => Spec.Descriptor.CHECKSUM_CHARSET.getD v 'q' := by
  simp [checksumChars, checksumSymbols, List.map_map, cscharset_eq]

/-- `checksum(desc)` is the checksum BIP380's `descsum_create` appends -/
theorem checksum_eq_spec (s : Str) : checksum s = descsumChecksum s := by
  unfold checksum descsumChecksum descsumExpand descsumPolymod
  have h := loop_eq_expand s 1 [] (by simp)
  simp only [groupsVal, List.length_nil] at h
  cases hl : checksumLoop s 1 0 0 with
  | none =>
    rw [hl] at h
    cases he : expandAux s [] with
    | none => rfl
    | some _ => rw [he] at h; cases h
  | some st =>
    rw [hl] at h
    cases he : expandAux s [] with
    | none => rw [he] at h; cases h
    | some syms =>
      rw [he] at h
      obtain ⟨c, cls, cnt⟩ := st
      simp only [Option.map_some, Option.some.injEq, finish] at h
      simp only [Option.map_some, List.foldl_append]
      rw [← h, checksumChars_eq, polymodZeros_eq]
      rfl

/-! ### add_checksum -/

theorem beforeHash_no_hash (s : Str) : (beforeHash s).contains '#' = false := by
  induction s with
  | nil => rfl
  | cons c r ih =>
    simp only [beforeHash]
    split
    · rfl
    · rename_i hne
      simp only [List.contains_cons, ih, Bool.or_false]
      simpa using fun h => hne h.symm

theorem beforeHash_append (d x : Str) (h : d.contains '#' = false) : beforeHash (d ++ '#' :: x) = d := by
  induction d with
  | nil => simp [beforeHash]
  | cons c r ih =>
    simp only [List.contains_cons, Bool.or_eq_false_iff] at h
    have hne : c ≠ '#' := by
      intro he; subst he; simp at h
    simp [beforeHash, hne, ih h.2]

theorem contains_append_hash (d x : Str) : (d ++ '#' :: x).contains '#' = true := by
  simp

/-- the body `add_checksum` keeps has no `#` -/
def bodyOf (desc : Str) : Str := if desc.contains '#' then beforeHash desc else desc

theorem bodyOf_no_hash (s : Str) : (bodyOf s).contains '#' = false := by
  unfold bodyOf
  split
  · exact beforeHash_no_hash s
  · rename_i h; simpa using h

theorem addChecksum_idem (s t : Str) (h : addChecksum s = some t) : addChecksum t = some t := by
  unfold addChecksum at h
  change (match checksum (bodyOf s) with | some cs => some (bodyOf s ++ '#' :: cs) | none => none) = some t at h
  cases hc : checksum (bodyOf s) with
  | none => rw [hc] at h; cases h
  | some cs =>
    rw [hc] at h
    cases h
    unfold addChecksum
    change (match checksum (bodyOf (bodyOf s ++ '#' :: cs)) with
      | some cs' => some (bodyOf (bodyOf s ++ '#' :: cs) ++ '#' :: cs') | none => none) = _
    have hb : bodyOf (bodyOf s ++ '#' :: cs) = bodyOf s := by
      unfold bodyOf
      rw [if_pos (contains_append_hash _ _)]
      exact beforeHash_append _ _ (bodyOf_no_hash s)
    rw [hb, hc]

/-! ### create / verify -/

theorem round_lt (chk v : Nat) (hv : v < 2 ^ 40) : polymodRound chk v < 2 ^ 40 := by
  unfold polymodRound
  simp only [GENERATOR, applyGen]
  have h0 : ((chk &&& 0x7ffffffff) <<< 5) ^^^ v < 2 ^ 40 := by
    apply Nat.xor_lt_two_pow _ hv
    have : chk &&& 0x7ffffffff < 2 ^ 35 := Nat.and_lt_two_pow _ (by decide)
    rw [Nat.shiftLeft_eq]
    calc (chk &&& 0x7ffffffff) * 2 ^ 5 < 2 ^ 35 * 2 ^ 5 := Nat.mul_lt_mul_of_pos_right this (by decide)
      _ = 2 ^ 40 := by decide
  have step : ∀ (x g : Nat) (p : Prop) [Decidable p], x < 2 ^ 40 → g < 2 ^ 40 →
      (if p then x ^^^ g else x) < 2 ^ 40 := by
    intro x g p _ hx hg
    split
    · exact Nat.xor_lt_two_pow hx hg
    · exact hx
  exact step _ _ _ (step _ _ _ (step _ _ _ (step _ _ _ (step _ _ _ h0 (by decide)) (by decide)) (by decide))
    (by decide)) (by decide)

theorem applyGen_xor (top : Nat) : ∀ (gs : List Nat) (i x y : Nat),
    applyGen top i gs (x ^^^ y) = applyGen top i gs x ^^^ y := by
  intro gs
  induction gs with
  | nil => intro i x y; rfl
  | cons g gs ih =>
    intro i x y
    simp only [applyGen]
    split
    · rw [← ih, Nat.xor_assoc, Nat.xor_comm y g, ← Nat.xor_assoc]
    · exact ih _ _ _

/-- a difference `d` confined to the low 35 bits of the state does not reach the feedback taps: it is shifted up
    by one symbol, and a difference in the symbol enters as it is -/
theorem round_delta (chk d v w : Nat) (hd : d < 2 ^ 35) :
    polymodRound (chk ^^^ d) (v ^^^ w) = polymodRound chk v ^^^ ((d <<< 5) ^^^ w) := by
  unfold polymodRound
  have htop : (chk ^^^ d) >>> 35 = chk >>> 35 := by
    rw [Nat.shiftRight_xor_distrib, Nat.shiftRight_eq_zero d 35 hd, Nat.xor_zero]
  have hand : d &&& 0x7ffffffff = d := by
    have : (0x7ffffffff : Nat) = 2 ^ 35 - 1 := by decide
    rw [this]
    exact Nat.and_two_pow_sub_one_of_lt_two_pow hd
  simp only [htop]
  rw [Nat.and_xor_distrib_right, hand, Nat.shiftLeft_xor_distrib]
  have : (chk &&& 0x7ffffffff) <<< 5 ^^^ d <<< 5 ^^^ (v ^^^ w)
      = ((chk &&& 0x7ffffffff) <<< 5 ^^^ v) ^^^ (d <<< 5 ^^^ w) := by
    simp only [Nat.xor_assoc]
    congr 1
    rw [← Nat.xor_assoc, Nat.xor_comm (d <<< 5) v, Nat.xor_assoc]
  rw [this, applyGen_xor]

/-- accumulate trailing symbols into a difference -/
def packFrom : Nat → List Nat → Nat
  | d, [] => d
  | d, c :: cs => packFrom ((d <<< 5) ^^^ c) cs

theorem shift_xor_lt (d c k : Nat) (hd : d < 2 ^ (5 * k)) (hc : c < 32) : (d <<< 5) ^^^ c < 2 ^ (5 * (k + 1)) := by
  apply Nat.xor_lt_two_pow
  · rw [Nat.shiftLeft_eq]
    calc d * 2 ^ 5 < 2 ^ (5 * k) * 2 ^ 5 := Nat.mul_lt_mul_of_pos_right hd (by decide)
      _ = 2 ^ (5 * (k + 1)) := by rw [← Nat.pow_add]; congr 1
  · calc c < 2 ^ 5 := hc
      _ ≤ 2 ^ (5 * (k + 1)) := Nat.pow_le_pow_right (by decide) (by omega)

theorem fold_delta : ∀ (cs : List Nat) (A d k : Nat), d < 2 ^ (5 * k) → k + cs.length ≤ 8 →
    (∀ c ∈ cs, c < 32) →
    cs.foldl polymodRound (A ^^^ d) = (List.replicate cs.length 0).foldl polymodRound A ^^^ packFrom d cs := by
  intro cs
  induction cs with
  | nil => intro A d k _ _ _; simp [packFrom]
  | cons c cs ih =>
    intro A d k hd hk hc
    simp only [List.length_cons] at hk
    have hd35 : d < 2 ^ 35 := Nat.lt_of_lt_of_le hd (Nat.pow_le_pow_right (by decide) (by omega))
    have hc32 : c < 32 := hc c List.mem_cons_self
    simp only [List.foldl_cons, List.length_cons, List.replicate_succ, packFrom]
    have := round_delta A d 0 c hd35
    rw [Nat.zero_xor] at this
    rw [this]
    exact ih (polymodRound A 0) ((d <<< 5) ^^^ c) (k + 1) (shift_xor_lt d c k hd hc32) (by omega)
      (fun x hx => hc x (List.mem_cons_of_mem _ hx))

theorem shift_xor_eq_add (a c : Nat) (hc : c < 32) : (a <<< 5) ^^^ c = a * 32 + c := by
  apply Nat.eq_of_testBit_eq
  intro i
  have h32 : a * 32 + c = 2 ^ 5 * a + c := by omega
  rw [h32, Nat.testBit_two_pow_mul_add a (by simpa using hc), Nat.testBit_xor, Nat.testBit_shiftLeft]
  by_cases hi : i < 5
  · have : ¬ i ≥ 5 := by omega
    simp [hi, this]
  · have hge : i ≥ 5 := by omega
    have hcf : c.testBit i = false :=
      Nat.testBit_lt_two_pow (Nat.lt_of_lt_of_le (show c < 2 ^ 5 from hc) (Nat.pow_le_pow_right (by decide) hge))
    simp [hi, hge, hcf]

theorem pack_symbols (x : Nat) (hx : x < 2 ^ 40) : packFrom 0 (checksumSymbols x) = x := by
  have e : checksumSymbols x =
      [(x >>> 35) &&& 31, (x >>> 30) &&& 31, (x >>> 25) &&& 31, (x >>> 20) &&& 31, (x >>> 15) &&& 31,
       (x >>> 10) &&& 31, (x >>> 5) &&& 31, (x >>> 0) &&& 31] := by
    simp [checksumSymbols, List.range, List.range.loop]
  rw [e]
  have m : ∀ y : Nat, y &&& 31 = y % 32 := by
    intro y
    have : (31 : Nat) = 2 ^ 5 - 1 := by decide
    rw [this, Nat.and_two_pow_sub_one_eq_mod]
  simp only [packFrom, m, Nat.shiftRight_eq_div_pow]
  have lt : ∀ y : Nat, y % 32 < 32 := fun y => Nat.mod_lt _ (by decide)
  rw [shift_xor_eq_add _ _ (lt _), shift_xor_eq_add _ _ (lt _), shift_xor_eq_add _ _ (lt _),
    shift_xor_eq_add _ _ (lt _), shift_xor_eq_add _ _ (lt _), shift_xor_eq_add _ _ (lt _),
    shift_xor_eq_add _ _ (lt _), shift_xor_eq_add _ _ (lt _)]
  simp only [Nat.reducePow]
  simp only [Nat.reducePow] at hx
  omega

theorem fold_lt (syms : List Nat) (c : Nat) (hc : c < 2 ^ 40) (hs : ∀ v ∈ syms, v < 2 ^ 40) :
    syms.foldl polymodRound c < 2 ^ 40 := by
  induction syms generalizing c with
  | nil => exact hc
  | cons v r ih =>
    simp only [List.foldl_cons]
    exact ih _ (round_lt c v (hs v List.mem_cons_self)) (fun x hx => hs x (List.mem_cons_of_mem _ hx))

theorem mapFind_symbols : ∀ (l : List Nat), (∀ v ∈ l, v < 32) →
    mapFind (l.map fun v => Spec.Descriptor.CHECKSUM_CHARSET.getD v 'q') = some l := by
  intro l
  induction l with
  | nil => intro _; rfl
  | cons v r ih =>
    intro h
    have hv : v < 32 := h v List.mem_cons_self
    have hfind : charsetFind Spec.Descriptor.CHECKSUM_CHARSET (Spec.Descriptor.CHECKSUM_CHARSET.getD v 'q') = some v := by
      have : ∀ w : Fin 32, charsetFind Spec.Descriptor.CHECKSUM_CHARSET
          (Spec.Descriptor.CHECKSUM_CHARSET.getD w.val 'q') = some w.val := by decide
      exact this ⟨v, hv⟩
    simp only [List.map_cons, mapFind, hfind, ih (fun x hx => h x (List.mem_cons_of_mem _ hx))]

theorem checksumSymbols_lt (x : Nat) : ∀ v ∈ checksumSymbols x, v < 32 := by
  intro v hv
  simp only [checksumSymbols, List.mem_map] at hv
  obtain ⟨i, _, rfl⟩ := hv
  exact Nat.lt_succ_of_le (Nat.and_le_right)

theorem checksumSymbols_length (x : Nat) : (checksumSymbols x).length = 8 := by
  simp [checksumSymbols]

end Embit.Model.Descriptor
