import EmbitModel.Proofs.PsbtLossless
/-
  C04: the whole-PSBT statements (framing, scopes, global scope, unsigned-transaction reconstruction).
-/
set_option linter.unusedSimpArgs false
set_option linter.unusedVariables false
namespace Embit
open Model

/-- what `readIns` accepts: a sequence of framed scopes, each of which folds (from its seed) to the result -/
theorem readIns_spec (ko : KeyOps) (sha : Bytes → Bytes) (tx : Option Tx) :
    ∀ (n i : Nat) (b : Bytes) (ss : List InScope) (r : Bytes),
      readIns ko sha 0 tx n i b = some (ss, r) →
      ∃ kvss : List (List KV), b = kvss.flatMap writeKVs ++ r ∧ kvss.length = n ∧ ss.length = n
        ∧ (∀ kvs ∈ kvss, ∀ kv ∈ kvs, KVWF kv)
        ∧ ∀ j (hj : j < n), ∃ kvs s, kvss[j]? = some kvs ∧ ss[j]? = some s
            ∧ InScope.addPairs ko sha 0 (seedIn tx (i + j)) kvs = some s := by
  intro n
  induction n with
  | zero =>
    intro i b ss r h
    simp [readIns] at h
    obtain ⟨h1, h2⟩ := h; subst h1; subst h2
    exact ⟨[], by simp, rfl, rfl, by simp, fun j hj => by omega⟩
  | succ n ih =>
    intro i b ss r h
    simp only [readIns] at h
    split at h
    · simp at h
    · rename_i kvs r1 hk
      obtain ⟨e1, w1⟩ := readKVs_sound hk
      split at h
      · simp at h
      · rename_i s hs
        split at h
        · simp at h
        · rename_i ss' r' hrec
          simp at h; obtain ⟨h1, h2⟩ := h; subst h1; subst h2
          obtain ⟨kvss, e2, l1, l2, w2, f⟩ := ih (i+1) _ _ _ hrec
          refine ⟨kvs :: kvss, by simp [e1, e2, List.append_assoc], by simp [l1], by simp [l2], ?_, ?_⟩
          · intro x hx; simp at hx; rcases hx with rfl | hx
            · exact w1
            · exact w2 x hx
          · intro j hj
            cases j with
            | zero => exact ⟨kvs, s, by simp, by simp, by simpa using hs⟩
            | succ j =>
              obtain ⟨kvs', s', a1, a2, a3⟩ := f j (by omega)
              refine ⟨kvs', s', by simpa using a1, by simpa using a2, ?_⟩
              have : i + (j + 1) = i + 1 + j := by omega
              rw [this]; exact a3

theorem readOuts_spec (ko : KeyOps) (tx : Option Tx) :
    ∀ (n i : Nat) (b : Bytes) (ss : List OutScope) (r : Bytes),
      readOuts ko tx n i b = some (ss, r) →
      ∃ kvss : List (List KV), b = kvss.flatMap writeKVs ++ r ∧ kvss.length = n ∧ ss.length = n
        ∧ (∀ kvs ∈ kvss, ∀ kv ∈ kvs, KVWF kv)
        ∧ ∀ j (hj : j < n), ∃ kvs s, kvss[j]? = some kvs ∧ ss[j]? = some s
            ∧ OutScope.addPairs ko (seedOut tx (i + j)) kvs = some s := by
  intro n
  induction n with
  | zero =>
    intro i b ss r h
    simp [readOuts] at h
    obtain ⟨h1, h2⟩ := h; subst h1; subst h2
    exact ⟨[], by simp, rfl, rfl, by simp, fun j hj => by omega⟩
  | succ n ih =>
    intro i b ss r h
    simp only [readOuts] at h
    split at h
    · simp at h
    · rename_i kvs r1 hk
      obtain ⟨e1, w1⟩ := readKVs_sound hk
      split at h
      · simp at h
      · rename_i s hs
        split at h
        · simp at h
        · rename_i ss' r' hrec
          simp at h; obtain ⟨h1, h2⟩ := h; subst h1; subst h2
          obtain ⟨kvss, e2, l1, l2, w2, f⟩ := ih (i+1) _ _ _ hrec
          refine ⟨kvs :: kvss, by simp [e1, e2, List.append_assoc], by simp [l1], by simp [l2], ?_, ?_⟩
          · intro x hx; simp at hx; rcases hx with rfl | hx
            · exact w1
            · exact w2 x hx
          · intro j hj
            cases j with
            | zero => exact ⟨kvs, s, by simp, by simp, by simpa using hs⟩
            | succ j =>
              obtain ⟨kvs', s', a1, a2, a3⟩ := f j (by omega)
              refine ⟨kvs', s', by simpa using a1, by simpa using a2, ?_⟩
              have : i + (j + 1) = i + 1 + j := by omega
              rw [this]; exact a3

/-- the global tx is unsigned -/
def Unsigned (t : Tx) : Prop := ∀ i ∈ t.vin, i.scriptSig = [] ∧ i.witness = []

/-- what the global fold returns, in terms of the pairs it consumed -/
theorem globalFold_spec : ∀ (g : List KV) (tx : Option Tx) (ver : Option Nat) (unk : List KV)
    (tx' : Option Tx) (ver' : Option Nat) (unk' : List KV),
    globalFold tx ver unk g = some (tx', ver', unk') →
      (∀ t, tx = some t → tx' = some t) ∧ (∀ n, ver = some n → ver' = some n)
      ∧ (∀ kv ∈ unk, kv ∈ unk')
      ∧ (∀ t, tx' = some t → tx = some t ∨ Unsigned t)
      ∧ (∀ kv ∈ g, (kv.1 = [0x00] ∧ ∃ t, tx' = some t ∧ Tx.ser t = kv.2 ∧ Unsigned t ∧ tx = none)
                  ∨ (kv.1 = [0xfb] ∧ ∃ n, ver' = some n ∧ leN 4 n = kv.2)
                  ∨ (kv ∈ unk' ∧ kv.1 ≠ [0x00] ∧ kv.1 ≠ [0xfb])) := by
  intro g
  induction g with
  | nil =>
    intro tx ver unk tx' ver' unk' h; simp [globalFold] at h; obtain ⟨rfl, rfl, rfl⟩ := h
    simp
    intro t ht; exact Or.inl ht
  | cons kv g ih =>
    intro tx ver unk tx' ver' unk' h
    obtain ⟨k, v⟩ := kv
    simp only [globalFold] at h
    split at h
    · rename_i hk0
      split at h
      · simp at h
      · rename_i htx
        split at h
        · simp at h
        · rename_i t ht
          split at h
          · simp at h
          · rename_i hun
            obtain ⟨a1, a2, a3, a5, a4⟩ := ih _ _ _ _ _ _ h
            have htn : tx = none := by simpa using htx
            have hser : Tx.ser t = v := Props.C03.reencode _ _ ht
            have huns : Unsigned t := by
              intro i hi
              simp only [List.any_eq_true, not_exists] at hun
              have := hun i
              simp [hi] at this
              exact this
            refine ⟨by simp [htn], a2, a3, ?_, ?_⟩
            · intro t0 ht0
              have := a1 t rfl
              rw [this] at ht0; simp at ht0; subst ht0
              exact Or.inr huns
            intro x hx; simp at hx
            rcases hx with rfl | hx
            · exact Or.inl ⟨hk0, t, a1 t rfl, hser, huns, htn⟩
            · rcases a4 x hx with ⟨e, t', b1, b2, b3, b4⟩ | b | b
              · simp at b4
              · exact Or.inr (Or.inl b)
              · exact Or.inr (Or.inr b)
    · rename_i hk0
      split at h
      · rename_i hkfb
        split at h
        · simp at h
        · rename_i hver
          split at h
          · simp at h
          · rename_i hlen
            obtain ⟨a1, a2, a3, a5, a4⟩ := ih _ _ _ _ _ _ h
            have hvn : ver = none := by simpa using hver
            refine ⟨a1, by simp [hvn], a3, a5, ?_⟩
            intro x hx; simp at hx
            rcases hx with rfl | hx
            · refine Or.inr (Or.inl ⟨hkfb, ofLe v, a2 _ rfl, len4 (by simpa using hlen)⟩)
            · exact a4 x hx
      · rename_i hkfb
        split at h
        · simp at h
        · obtain ⟨a1, a2, a3, a5, a4⟩ := ih _ _ _ _ _ _ h
          refine ⟨a1, a2, fun x hx => a3 x (by simp [hx]), a5, ?_⟩
          intro x hx; simp at hx
          rcases hx with rfl | hx
          · exact Or.inr (Or.inr ⟨a3 _ (by simp), hk0, hkfb⟩)
          · exact a4 x hx

end Embit

namespace Embit
open Model

theorem globalFold_nodup : ∀ (g : List KV) (tx : Option Tx) (ver : Option Nat) (unk : List KV)
    (tx' : Option Tx) (ver' : Option Nat) (unk' : List KV),
    globalFold tx ver unk g = some (tx', ver', unk') → (unk.map Prod.fst).Nodup → (unk'.map Prod.fst).Nodup := by
  intro g
  induction g with
  | nil => intro tx ver unk tx' ver' unk' h; simp [globalFold] at h; obtain ⟨rfl, rfl, rfl⟩ := h; simp
  | cons kv g ih =>
    intro tx ver unk tx' ver' unk' h hn
    obtain ⟨k, v⟩ := kv
    simp only [globalFold] at h
    split at h
    · split at h
      · simp at h
      · split at h
        · simp at h
        · split at h
          · simp at h
          · exact ih _ _ _ _ _ _ h hn
    · split at h
      · split at h
        · simp at h
        · split at h
          · simp at h
          · exact ih _ _ _ _ _ _ h hn
      · split at h
        · simp at h
        · rename_i hl
          apply ih _ _ _ _ _ _ h
          simp only [List.map_append, List.map_cons, List.map_nil]
          rw [List.nodup_append]
          refine ⟨hn, by simp, ?_⟩
          intro a ha b hb
          simp at hb
          simp only [Bool.not_eq_true, Option.isSome_eq_false_iff, Option.isNone_iff_eq_none] at hl
          have := (lookup_none_iff k unk).mp (by simp [hl])
          simp at ha
          obtain ⟨v', hv'⟩ := ha
          intro hab
          exact this (a, v') hv' (by simp [hab, hb])

/-- the outcome of `parse_unknowns` in terms of the pairs it consumed -/
theorem parseUnknowns_spec (ko : KeyOps) (isV2 : Bool) : ∀ (unk : List KV) (g g' : GState),
    (unk.map Prod.fst).Nodup → parseUnknowns ko isV2 g unk = some g' →
      (∀ x ∈ g.xpubs, x ∈ g'.xpubs) ∧ (∀ x ∈ g.unknown, x ∈ g'.unknown)
      ∧ ((∀ kv ∈ unk, kv.1 ≠ [0x02]) → g'.txVersion = g.txVersion)
      ∧ ((∀ kv ∈ unk, kv.1 ≠ [0x03]) → g'.locktime = g.locktime)
      ∧ ((∀ kv ∈ unk, kv.1 ≠ [0x04]) → g'.nin = g.nin)
      ∧ ((∀ kv ∈ unk, kv.1 ≠ [0x05]) → g'.nout = g.nout)
      ∧ (isV2 = false → g'.txVersion = g.txVersion ∧ g'.locktime = g.locktime ∧ g'.nin = g.nin ∧ g'.nout = g.nout)
      ∧ ∀ kv ∈ unk,
          (∃ x d, kv.1 = 0x01 :: x ∧ (x, d) ∈ g'.xpubs ∧ Deriv.ser d = kv.2)
          ∨ (isV2 = true ∧ kv.1 = [0x02] ∧ ∃ n, g'.txVersion = some n ∧ leN 4 n = kv.2)
          ∨ (isV2 = true ∧ kv.1 = [0x03] ∧ ∃ n, g'.locktime = some n ∧ leN 4 n = kv.2)
          ∨ (isV2 = true ∧ kv.1 = [0x04] ∧ ∃ n, g'.nin = some n ∧ Compact.enc n = kv.2)
          ∨ (isV2 = true ∧ kv.1 = [0x05] ∧ ∃ n, g'.nout = some n ∧ Compact.enc n = kv.2)
          ∨ kv ∈ g'.unknown := by
  intro unk
  induction unk with
  | nil => intro g g' _ h; simp [parseUnknowns] at h; subst h; simp
  | cons kv unk ih =>
    intro g g' hn h
    obtain ⟨k, v⟩ := kv
    simp only [List.map_cons, List.nodup_cons] at hn
    obtain ⟨hnk, hn'⟩ := hn
    have hnotin : ∀ kv ∈ unk, kv.1 ≠ k := by
      intro kv hkv e; apply hnk; simp; exact ⟨kv.2, by rw [← e]; exact hkv⟩
    simp only [parseUnknowns] at h
    split at h
    · -- empty key
      obtain ⟨a1, a2, a3, a4, a5, a6, a7, a8⟩ := ih _ _ hn' h
      refine ⟨a1, fun x hx => a2 x (by simp [hx]), fun hh => a3 (fun y hy => hh y (by simp [hy])),
        fun hh => a4 (fun y hy => hh y (by simp [hy])), fun hh => a5 (fun y hy => hh y (by simp [hy])),
        fun hh => a6 (fun y hy => hh y (by simp [hy])), a7, ?_⟩
      intro x hx; simp at hx
      rcases hx with rfl | hx
      · exact Or.inr (Or.inr (Or.inr (Or.inr (Or.inr (a2 _ (by simp))))))
      · exact a8 x hx
    · rename_i k0 krest
      split at h
      · -- xpub
        rename_i hk0
        split at h
        · simp at h
        · split at h
          · simp at h
          · rename_i d hd
            obtain ⟨a1, a2, a3, a4, a5, a6, a7, a8⟩ := ih _ _ hn' h
            refine ⟨fun x hx => a1 x (by simp [hx]), a2, fun hh => a3 (fun y hy => hh y (by simp [hy])),
              fun hh => a4 (fun y hy => hh y (by simp [hy])), fun hh => a5 (fun y hy => hh y (by simp [hy])),
              fun hh => a6 (fun y hy => hh y (by simp [hy])), a7, ?_⟩
            intro x hx; simp at hx
            rcases hx with rfl | hx
            · exact Or.inl ⟨krest, d, by simp [hk0], a1 _ (by simp), Deriv.ser_parse hd⟩
            · exact a8 x hx
      · split at h
        · -- tx version
          rename_i hc
          simp only [Bool.and_eq_true, decide_eq_true_eq] at hc
          split at h
          · simp at h
          · rename_i hl
            obtain ⟨a1, a2, a3, a4, a5, a6, a7, a8⟩ := ih _ _ hn' h
            have hno : ∀ kv ∈ unk, kv.1 ≠ [0x02] := fun kv hkv => by rw [← hc.2]; exact hnotin kv hkv
            refine ⟨a1, a2, fun hh => absurd hc.2 (hh (k0 :: krest, v) (by simp)), fun hh => a4 (fun y hy => hh y (by simp [hy])),
              fun hh => a5 (fun y hy => hh y (by simp [hy])), fun hh => a6 (fun y hy => hh y (by simp [hy])),
              fun hf => by simp [hf] at hc, ?_⟩
            intro x hx; simp at hx
            rcases hx with rfl | hx
            · exact Or.inr (Or.inl ⟨hc.1, hc.2, ofLe v, by rw [a3 hno], len4 (by simpa using hl)⟩)
            · exact a8 x hx
        · split at h
          · rename_i hc
            simp only [Bool.and_eq_true, decide_eq_true_eq] at hc
            split at h
            · simp at h
            · rename_i hl
              obtain ⟨a1, a2, a3, a4, a5, a6, a7, a8⟩ := ih _ _ hn' h
              have hno : ∀ kv ∈ unk, kv.1 ≠ [0x03] := fun kv hkv => by rw [← hc.2]; exact hnotin kv hkv
              refine ⟨a1, a2, fun hh => a3 (fun y hy => hh y (by simp [hy])), fun hh => absurd hc.2 (hh (k0 :: krest, v) (by simp)),
                fun hh => a5 (fun y hy => hh y (by simp [hy])), fun hh => a6 (fun y hy => hh y (by simp [hy])),
                fun hf => by simp [hf] at hc, ?_⟩
              intro x hx; simp at hx
              rcases hx with rfl | hx
              · exact Or.inr (Or.inr (Or.inl ⟨hc.1, hc.2, ofLe v, by rw [a4 hno], len4 (by simpa using hl)⟩))
              · exact a8 x hx
          · split at h
            · rename_i hc
              simp only [Bool.and_eq_true, decide_eq_true_eq] at hc
              split at h
              · simp at h
              · rename_i n hnn
                obtain ⟨a1, a2, a3, a4, a5, a6, a7, a8⟩ := ih _ _ hn' h
                have hno : ∀ kv ∈ unk, kv.1 ≠ [0x04] := fun kv hkv => by rw [← hc.2]; exact hnotin kv hkv
                refine ⟨a1, a2, fun hh => a3 (fun y hy => hh y (by simp [hy])),
                  fun hh => a4 (fun y hy => hh y (by simp [hy])), fun hh => absurd hc.2 (hh (k0 :: krest, v) (by simp)),
                  fun hh => a6 (fun y hy => hh y (by simp [hy])), fun hf => by simp [hf] at hc, ?_⟩
                intro x hx; simp at hx
                rcases hx with rfl | hx
                · exact Or.inr (Or.inr (Or.inr (Or.inl ⟨hc.1, hc.2, n, by rw [a5 hno], parseAll_compact hnn⟩)))
                · exact a8 x hx
            · split at h
              · rename_i hc
                simp only [Bool.and_eq_true, decide_eq_true_eq] at hc
                split at h
                · simp at h
                · rename_i n hnn
                  obtain ⟨a1, a2, a3, a4, a5, a6, a7, a8⟩ := ih _ _ hn' h
                  have hno : ∀ kv ∈ unk, kv.1 ≠ [0x05] := fun kv hkv => by rw [← hc.2]; exact hnotin kv hkv
                  refine ⟨a1, a2, fun hh => a3 (fun y hy => hh y (by simp [hy])),
                    fun hh => a4 (fun y hy => hh y (by simp [hy])), fun hh => a5 (fun y hy => hh y (by simp [hy])),
                    fun hh => absurd hc.2 (hh (k0 :: krest, v) (by simp)), fun hf => by simp [hf] at hc, ?_⟩
                  intro x hx; simp at hx
                  rcases hx with rfl | hx
                  · exact Or.inr (Or.inr (Or.inr (Or.inr (Or.inl ⟨hc.1, hc.2, n, by rw [a6 hno], parseAll_compact hnn⟩))))
                  · exact a8 x hx
              · obtain ⟨a1, a2, a3, a4, a5, a6, a7, a8⟩ := ih _ _ hn' h
                refine ⟨a1, fun x hx => a2 x (by simp [hx]), fun hh => a3 (fun y hy => hh y (by simp [hy])),
                  fun hh => a4 (fun y hy => hh y (by simp [hy])), fun hh => a5 (fun y hy => hh y (by simp [hy])),
                  fun hh => a6 (fun y hy => hh y (by simp [hy])), a7, ?_⟩
                intro x hx; simp at hx
                rcases hx with rfl | hx
                · exact Or.inr (Or.inr (Or.inr (Or.inr (Or.inr (a2 _ (by simp))))))
                · exact a8 x hx

end Embit
