import EmbitModel.Proofs.PyCurveField
import Mathlib.NumberTheory.LucasPrimality
/-
  Pratt certificates: a number `p` is prime when `p − 1 = ∏ qᵢ^eᵢ` with every `qᵢ` prime and some `a` has
  `a^(p−1) ≡ 1`, `a^((p−1)/qᵢ) ≢ 1 (mod p)` (Lucas, `lucas_primality`). The modular powers are the executable
  `powMod` of the key.py model (proved equal to `b ^ e % m`), evaluated by the kernel on the literals.
-/
namespace Embit.Model.PyCurve

theorem pratt (p a : ℕ) (fs : List (ℕ × ℕ)) (hp : 1 < p)
    (hprime : ∀ qe ∈ fs, qe.1.Prime)
    (hprod : (fs.map fun qe => qe.1 ^ qe.2).prod = p - 1)
    (h1 : powMod (a : ℤ) (p - 1) (p : ℤ) = 1)
    (h2 : ∀ qe ∈ fs, powMod (a : ℤ) ((p - 1) / qe.1) (p : ℤ) ≠ 1) : p.Prime := by
  have hp0 : 0 < p := by omega
  have hcast : ∀ e : ℕ, ((a : ℕ) : ZMod p) ^ e = ((powMod (a : ℤ) e (p : ℤ) : ℤ) : ZMod p) := by
    intro e; rw [powMod_cast]; push_cast; rfl
  apply lucas_primality p (a : ZMod p)
  · rw [hcast, h1]; simp
  · intro q hq hdvd
    rw [← hprod] at hdvd
    obtain ⟨x, hx, hqx⟩ := (Prime.dvd_prod_iff hq.prime).mp hdvd
    simp only [List.mem_map] at hx
    obtain ⟨qe, hqe, rfl⟩ := hx
    have hq' : q ∣ qe.1 := hq.prime.dvd_of_dvd_pow hqx
    have heq : q = qe.1 := (Nat.prime_dvd_prime_iff_eq hq (hprime qe hqe)).mp hq'
    rw [hcast, heq]
    intro h
    apply h2 qe hqe
    obtain ⟨r0, r1⟩ := powMod_range p hp0 (a : ℤ) ((p - 1) / qe.1)
    exact eq_of_cast_eq r0 r1 zero_le_one (by exact_mod_cast hp) (by simpa using h)

end Embit.Model.PyCurve
