import EmbitModel.Proofs.PsbtParseWFScope
/-
  C04 (deepening): everything `PSBT.parse` (KEEP_ALL) returns is well-formed (`PsbtWF`).
-/
set_option linter.unusedSimpArgs false
set_option linter.unusedVariables false
namespace Embit
open Model Spec.Wire

/-- the version the global fold returns fits 32 bits -/
theorem globalFold_ver_lt : ∀ (g : List KV) (tx : Option Tx) (ver : Option Nat) (unk : List KV)
    (tx' : Option Tx) (ver' : Option Nat) (unk' : List KV),
    globalFold tx ver unk g = some (tx', ver', unk') → OptP (· < 2^32) ver → OptP (· < 2^32) ver' := by
  intro g
  induction g with
  | nil => intro tx ver unk tx' ver' unk' h hv; simp [globalFold] at h; obtain ⟨rfl, rfl, rfl⟩ := h; exact hv
  | cons kv g ih =>
    intro tx ver unk tx' ver' unk' h hv
    obtain ⟨k, v⟩ := kv
    simp only [globalFold] at h
    split at h
    · split at h
      · simp at h
      · split at h
        · simp at h
        · split at h
          · simp at h
          · exact ih _ _ _ _ _ _ h hv
    · split at h
      · split at h
        · simp at h
        · split at h
          · simp at h
          · rename_i hl
            exact ih _ _ _ _ _ _ h (ofLe_lt32 (by simpa using hl))
      · split at h
        · simp at h
        · exact ih _ _ _ _ _ _ h hv

/-- the global transaction the fold returns is what `Transaction.parse` gave for the value under key 00 -/
theorem globalFold_tx_wf (g : List KV) (t : Tx) (ver' : Option Nat) (unk' : List KV)
    (hg : ∀ kv ∈ g, KVWF kv) (h : globalFold none none [] g = some (some t, ver', unk')) :
    WF t ∧ Unsigned t ∧ Fits (Tx.ser t) := by
  obtain ⟨g1, v, g2, e, _, _, hp, hu⟩ := globalFold_split g none [] t ver' unk' h
  refine ⟨(Props.C03.parse_sound _ _ hp).1, hu, ?_⟩
  rw [Props.C03.reencode _ _ hp]
  exact (hg ([0x00], v) (by rw [e]; simp)).2.2

theorem parseAll_compact_lt {v : Bytes} {n : Nat} (h : parseAll Compact.read v = some n) : n < 2^64 := by
  unfold parseAll at h
  split at h
  · rename_i x hx
    simp at h; subst h
    exact (Compact.read_sound hx).2
  · simp at h

/-- invariant of `parse_unknowns`: the state is well-formed, and no pair still to come collides with a key
    already filed -/
structure GInv (ko : KeyOps) (isV2 : Bool) (g : GState) (rem : List KV) : Prop where
  txVersion : OptP (· < 2^32) g.txVersion
  locktime : OptP (· < 2^32) g.locktime
  nin : OptP (· < 2^64) g.nin
  nout : OptP (· < 2^64) g.nout
  xpubs : ∀ e ∈ g.xpubs, ko.validXpub e.1 = true ∧ Fits (0x01 :: e.1) ∧ DerivWF e.2
  xpubsNodup : (g.xpubs.map Prod.fst).Nodup
  xpubsFresh : ∀ e ∈ g.xpubs, ∀ kv ∈ rem, kv.1 ≠ 0x01 :: e.1
  unknown : ∀ kv ∈ g.unknown, KVWF kv ∧ unkKeyGlobal isV2 kv.1 = true
  unknownNodup : (g.unknown.map Prod.fst).Nodup
  unknownFresh : ∀ u ∈ g.unknown, ∀ kv ∈ rem, kv.1 ≠ u.1

theorem GInv.weaken {ko : KeyOps} {isV2 : Bool} {g : GState} {kv : KV} {rest : List KV}
    (h : GInv ko isV2 g (kv :: rest)) : GInv ko isV2 g rest :=
  { h with xpubsFresh := fun e he x hx => h.xpubsFresh e he x (by simp [hx]),
           unknownFresh := fun e he x hx => h.unknownFresh e he x (by simp [hx]) }

theorem GInv.add_unknown {ko : KeyOps} {isV2 : Bool} {g : GState} {k v : Bytes} {rest : List KV}
    (h : GInv ko isV2 g ((k, v) :: rest)) (hkv : KVWF (k, v)) (hk : unkKeyGlobal isV2 k = true)
    (hfresh : ∀ x ∈ rest, x.1 ≠ k) :
    GInv ko isV2 { g with unknown := g.unknown ++ [(k, v)] } rest :=
  { h.weaken with
    unknown := forall_snoc h.unknown ⟨hkv, hk⟩,
    unknownNodup := nodup_snoc _ _ _ h.unknownNodup ((lookup_none_iff _ _).mpr (fun u hu e =>
      h.unknownFresh u hu (k, v) (by simp) e.symm)),
    unknownFresh := fun u hu x hx => by
      rcases List.mem_append.mp hu with hu | hu
      · exact h.unknownFresh u hu x (by simp [hx])
      · simp at hu; subst hu; exact hfresh x hx }

theorem parseUnknowns_inv (ko : KeyOps) (isV2 : Bool) : ∀ (unk : List KV) (g g' : GState),
    (∀ kv ∈ unk, KVWF kv ∧ notTxVer kv = true) → (unk.map Prod.fst).Nodup → GInv ko isV2 g unk →
    parseUnknowns ko isV2 g unk = some g' → GInv ko isV2 g' [] := by
  intro unk
  induction unk with
  | nil => intro g g' _ _ hi h; simp [parseUnknowns] at h; subst h; exact hi
  | cons kv unk ih =>
    intro g g' hkv hn hi h
    obtain ⟨k, v⟩ := kv
    simp only [List.map_cons, List.nodup_cons] at hn
    obtain ⟨hnk, hn'⟩ := hn
    have hfresh : ∀ x ∈ unk, x.1 ≠ k := by
      intro x hx e; apply hnk; rw [← e]; exact List.mem_map.mpr ⟨x, hx, rfl⟩
    have hkv' : ∀ x ∈ unk, KVWF x ∧ notTxVer x = true := fun x hx => hkv x (by simp [hx])
    obtain ⟨hwf, hnt⟩ := hkv (k, v) (by simp)
    simp only [notTxVer, Bool.and_eq_true, Bool.not_eq_true', beq_eq_false_iff_ne, ne_eq] at hnt
    simp only [parseUnknowns] at h
    split at h
    · exact absurd rfl hwf.1
    · rename_i k0 krest
      split at h
      · -- xpub
        rename_i hk0
        subst hk0
        split at h
        · simp at h
        · rename_i hval
          split at h
          · simp at h
          · rename_i d hd
            refine ih _ _ hkv' hn' ?_ h
            exact { hi.weaken with
              xpubs := forall_snoc hi.xpubs ⟨by simpa using hval, hwf.2.1, Deriv.parse_wf hd hwf.2.2⟩,
              xpubsNodup := nodup_snoc _ _ _ hi.xpubsNodup ((lookup_none_iff _ _).mpr (fun e he ee =>
                hi.xpubsFresh e he (0x01 :: krest, v) (by simp) (by simp [ee]))),
              xpubsFresh := fun e he x hx => by
                rcases List.mem_append.mp he with he | he
                · exact hi.xpubsFresh e he x (by simp [hx])
                · simp at he; subst he; exact hfresh x hx }
      · rename_i hk0
        split at h
        · rename_i hc
          split at h
          · simp at h
          · rename_i hl
            refine ih _ _ hkv' hn' ?_ h
            exact { hi.weaken with txVersion := ofLe_lt32 (by simpa using hl) }
        · rename_i hc2
          split at h
          · rename_i hc
            split at h
            · simp at h
            · rename_i hl
              refine ih _ _ hkv' hn' ?_ h
              exact { hi.weaken with locktime := ofLe_lt32 (by simpa using hl) }
          · rename_i hc3
            split at h
            · rename_i hc
              split at h
              · simp at h
              · rename_i n hnn
                refine ih _ _ hkv' hn' ?_ h
                exact { hi.weaken with nin := parseAll_compact_lt hnn }
            · rename_i hc4
              split at h
              · rename_i hc
                split at h
                · simp at h
                · rename_i n hnn
                  refine ih _ _ hkv' hn' ?_ h
                  exact { hi.weaken with nout := parseAll_compact_lt hnn }
              · rename_i hc5
                refine ih _ _ hkv' hn' (hi.add_unknown hwf ?_ hfresh) h
                simp only [unkKeyGlobal, Bool.and_eq_true, Bool.not_eq_true', beq_eq_false_iff_ne, ne_eq]
                refine ⟨⟨⟨hk0, hnt.1⟩, hnt.2⟩, ?_⟩
                cases isV2 with
                | false => rfl
                | true =>
                  simp only [Bool.true_and, decide_eq_true_eq] at hc2 hc3 hc4 hc5
                  simp only [Bool.true_and, Bool.or_eq_false_iff, beq_eq_false_iff_ne, ne_eq]
                  exact ⟨⟨⟨hc2, hc3⟩, hc4⟩, hc5⟩

/-- everything `PSBT.parse` (KEEP_ALL) returns is well-formed -/
theorem Psbt.parse_wf (ko : KeyOps) (sha : Bytes → Bytes) (b : Bytes) (p : Psbt)
    (h : Psbt.parse ko sha 0 b = some p) : PsbtWF ko p := by
  obtain ⟨g, kin, kout, tx, unk, gs, eb, wg, ws, hgf, hpu, hver, e1, e2, e3, e4, l1, l2, l3, l4, fi, fo, ft⟩ :=
    parse_decomp ko sha b p h
  have hvlt : OptP (· < 2^32) p.version := globalFold_ver_lt g none none [] tx p.version unk hgf trivial
  have htx : OptP (fun t => WF t ∧ Unsigned t ∧ Fits (Tx.ser t)) tx := by
    cases tx with
    | none => trivial
    | some t => exact globalFold_tx_wf g t _ _ wg hgf
  have htx' : OptP WF tx := OptP_imp htx (fun t ht => ht.1)
  have hunk : unk = g.filter notTxVer := by simpa using globalFold_unk g none none [] tx p.version unk hgf
  have hnd := globalFold_nodup g none none [] tx p.version unk hgf (by simp)
  have hunkwf : ∀ kv ∈ unk, KVWF kv ∧ notTxVer kv = true := by
    intro kv hkv
    rw [hunk] at hkv
    obtain ⟨a, b⟩ := List.mem_filter.mp hkv
    exact ⟨wg kv a, b⟩
  have hg0 : GInv ko (p.version == some 2) (gstate0 tx) unk := by
    cases tx with
    | none => constructor <;> simp [gstate0]
    | some t =>
      have hw : WF t := htx.1
      constructor <;> simp [gstate0, hw.version, hw.locktime, hw.ninLt, hw.noutLt]
  have hgs := parseUnknowns_inv ko _ unk _ gs hunkwf hnd hg0 hpu
  have kinwf : ∀ kvs ∈ kin, ∀ kv ∈ kvs, KVWF kv := fun kvs hk => ws kvs (by simp [hk])
  have koutwf : ∀ kvs ∈ kout, ∀ kv ∈ kvs, KVWF kv := fun kvs hk => ws kvs (by simp [hk])
  refine ⟨hvlt, by rw [e1]; exact hgs.txVersion, by rw [e2]; exact hgs.locktime, by rw [e3]; exact hgs.xpubs,
    by rw [e3]; exact hgs.xpubsNodup, by rw [e4]; exact hgs.unknown, by rw [e4]; exact hgs.unknownNodup, ?_, ?_, ?_, ?_, ?_⟩
  · rw [l3]
    have := hgs.nin
    cases hn : gs.nin with
    | none => simp
    | some n => rw [hn] at this; simpa using this
  · rw [l4]
    have := hgs.nout
    cases hn : gs.nout with
    | none => simp
    | some n => rw [hn] at this; simpa using this
  · intro s hs
    obtain ⟨j, hj⟩ := List.mem_iff_getElem?.mp hs
    have hjl : j < p.inputs.length := (List.getElem?_eq_some_iff.mp hj).1
    obtain ⟨kvs, s', a1, a2, a3⟩ := fi j hjl
    rw [hj] at a2; simp at a2; subst a2
    exact InScope.addPairs_wf ko sha kvs _ s (kinwf kvs (List.mem_of_getElem? a1)) (seedIn_wf ko tx htx' j) a3
  · intro s hs
    obtain ⟨j, hj⟩ := List.mem_iff_getElem?.mp hs
    have hjl : j < p.outputs.length := (List.getElem?_eq_some_iff.mp hj).1
    obtain ⟨kvs, s', a1, a2, a3⟩ := fo j hjl
    rw [hj] at a2; simp at a2; subst a2
    exact OutScope.addPairs_wf ko kvs _ s (koutwf kvs (List.mem_of_getElem? a1)) (seedOut_wf ko tx htx' j) a3
  · -- version 0
    intro hv
    rcases hver with ⟨hv2, _⟩ | ⟨_, t, rfl⟩
    · exact absurd hv2 hv
    · obtain ⟨ptx, pl1, pl2⟩ := ft t rfl
      have hw : WF t := htx.1
      have hisv2 : (p.version == some 2) = false := by simp [hv]
      obtain ⟨c1, c2, c3, c4⟩ := (parseUnknowns_spec ko (p.version == some 2) unk _ gs hnd hpu).2.2.2.2.2.2.1 hisv2
      refine ⟨by rw [e1, c1]; rfl, by rw [e2, c2]; rfl, by rw [pl1]; exact hw.nin, ?_, ?_, by rw [ptx]; exact htx.2.2⟩
      · intro s hs
        obtain ⟨j, hj⟩ := List.mem_iff_getElem?.mp hs
        have hjl : j < p.inputs.length := (List.getElem?_eq_some_iff.mp hj).1
        obtain ⟨kvs, s', a1, a2, a3⟩ := fi j hjl
        rw [hj] at a2; simp at a2; subst a2
        have hjt : j < t.vin.length := by omega
        have hseed : InSeeded (seedIn (some t) j) := by
          simp [seedIn, List.getElem?_eq_getElem hjt, InSeeded]
        have hne : ∀ kv ∈ kvs, kv.1 ≠ [] := fun kv hkv => (kinwf kvs (List.mem_of_getElem? a1) kv hkv).1
        obtain ⟨_, _, k3⟩ := InScope.addPairs_lossless ko sha p.version kvs _ s (Or.inr hseed) hne a3
        obtain ⟨q1, q2, q3⟩ := k3 hseed
        exact ⟨by rw [q1]; exact hseed.1, by rw [q2]; exact hseed.2.1, by rw [q3]; exact hseed.2.2⟩
      · intro s hs
        obtain ⟨j, hj⟩ := List.mem_iff_getElem?.mp hs
        have hjl : j < p.outputs.length := (List.getElem?_eq_some_iff.mp hj).1
        obtain ⟨kvs, s', a1, a2, a3⟩ := fo j hjl
        rw [hj] at a2; simp at a2; subst a2
        have hjt : j < t.vout.length := by omega
        have hseed : OutSeeded (seedOut (some t) j) := by
          simp [seedOut, List.getElem?_eq_getElem hjt, OutSeeded]
        have hne : ∀ kv ∈ kvs, kv.1 ≠ [] := fun kv hkv => (koutwf kvs (List.mem_of_getElem? a1) kv hkv).1
        obtain ⟨_, _, k3⟩ := OutScope.addPairs_lossless ko p.version kvs _ s (Or.inr hseed) hne a3
        obtain ⟨q1, q2⟩ := k3 hseed
        exact ⟨by rw [q1]; exact hseed.1, by rw [q2]; exact hseed.2⟩

end Embit
