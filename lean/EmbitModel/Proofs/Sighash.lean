import EmbitModel.Model.Sighash
import EmbitModel.Spec.Consensus
import EmbitModel.Proofs.Tx
/-
  Helper lemmas for C01.
-/
namespace Embit
open Model Spec.Wire Spec.Consensus

theorem optConcat_map_some {α : Type} (l : List α) (g : α → Bytes) :
    optConcat (l.map fun x => some (g x)) = some (l.flatMap g) := by
  induction l with
  | nil => rfl
  | cons x xs ih => simp [optConcat, ih]

theorem validFlag_cases {f : Nat} (h : validFlag f = true) :
    f = 0 ∨ f = 1 ∨ f = 2 ∨ f = 3 ∨ f = 0x80 ∨ f = 0x81 ∨ f = 0x82 ∨ f = 0x83 := by
  simpa [validFlag] using h

/-- what `write_to(script, f)` produces for a valid flag -/
theorem serWith_valid (inp : TxIn) (s : Bytes) {f : Nat} (h : validFlag f = true) :
    TxIn.serWith inp (some s) f
      = some (encIn { inp with scriptSig := s,
                               sequence := if anyoneCanPay f || isSingle f || isNone f then 0 else inp.sequence }) := by
  rcases validFlag_cases h with rfl | rfl | rfl | rfl | rfl | rfl | rfl | rfl <;>
    simp [TxIn.serWith, sighashCheck, encIn, outpoint, varStr, scriptSer, anyoneCanPay, isSingle, isNone, base,
      SIGHASH_SINGLE, SIGHASH_NONE, List.append_assoc]

theorem zipIdx_flatMap_eq_mapIdx {α β : Type} (l : List α) (g : α → Nat → β) (e : β → Bytes) :
    (l.zipIdx.map fun (x, i) => e (g x i)).flatten = (l.mapIdx fun i x => g x i).flatMap e := by
  rw [List.mapIdx_eq_zipIdx_map, List.flatMap_def, List.map_map]
  rfl

theorem flatten_replicate_flatMap {α : Type} (n : Nat) (x : α) (e : α → Bytes) :
    (List.replicate n (e x)).flatten = (List.replicate n x).flatMap e := by
  induction n with
  | zero => rfl
  | succ n ih => simp [List.replicate_succ, ih]

theorem serWith_all (inp : TxIn) (s : Bytes) :
    TxIn.serWith inp (some s) SIGHASH_ALL = some (encIn { inp with scriptSig := s }) := by
  simp [TxIn.serWith, sighashCheck, encIn, outpoint, varStr, scriptSer, SIGHASH_ALL, SIGHASH_SINGLE, SIGHASH_NONE,
    List.append_assoc]

theorem serWith_one (inp : TxIn) (s : Bytes) :
    TxIn.serWith inp (some s) 1 = some (encIn { inp with scriptSig := s }) := serWith_all inp s

theorem TxOut.ser_fun : TxOut.ser = encOut := funext TxOut.ser_eq

theorem ins_nonacp (t : Tx) (idx : Nat) (sc : Bytes) {f : Nat} (h : validFlag f = true)
    (hacp : anyoneCanPay f = false) :
    optConcat (t.vin.zipIdx.map fun (inp, i) =>
        if idx = i then TxIn.serWith inp (some sc) SIGHASH_ALL else TxIn.serWith inp (some []) f)
    = some ((t.vin.mapIdx fun i inp =>
        if i = idx then { inp with scriptSig := sc }
        else { inp with scriptSig := [], sequence := if isNone f || isSingle f then 0 else inp.sequence }).flatMap encIn) := by
  have : (fun (p : TxIn × Nat) =>
        if idx = p.2 then TxIn.serWith p.1 (some sc) SIGHASH_ALL else TxIn.serWith p.1 (some []) f)
      = fun p => some (encIn (if p.2 = idx then { p.1 with scriptSig := sc }
        else { p.1 with scriptSig := [], sequence := if isNone f || isSingle f then 0 else p.1.sequence })) := by
    funext p
    by_cases hp : idx = p.2
    · subst hp
      simp [serWith_all]
    · have hp' : ¬ p.2 = idx := fun e => hp e.symm
      simp [hp, hp', serWith_valid _ _ h, hacp, Bool.or_comm]
  have e2 : (fun (x : TxIn × Nat) => match x with
      | (inp, i) => if idx = i then TxIn.serWith inp (some sc) SIGHASH_ALL else TxIn.serWith inp (some []) f)
      = (fun (p : TxIn × Nat) =>
        if idx = p.2 then TxIn.serWith p.1 (some sc) SIGHASH_ALL else TxIn.serWith p.1 (some []) f) := by
    funext ⟨a, b⟩; rfl
  rw [e2, this, optConcat_map_some, List.mapIdx_eq_zipIdx_map, List.flatMap_map]

/-! ### taproot: the refusals added by `fixes/fix-taproot-hashtype.diff` -/

/-- below 256, a hash type that BIP341 does not define is either refused by `SIGHASH.check` or is 0x80 -/
theorem check_of_invalidTaprootFlag (f : Nat) (h : f < 256) (hv : validTaprootFlag f = false) :
    sighashCheck f = none ∨ sighashCheck f = some (0, true) := by
  revert f; decide +kernel

/-- `sighash_taproot` refuses every hash type outside BIP341's seven (any natural number, 0x80 included) -/
theorem sighashTaproot_invalid_flag (sha : Bytes → Bytes) (t : Tx) (idx : Nat) (spks : List Bytes)
    (values : List Nat) (f e : Nat) (a s : Option Bytes) (lv : Nat) (cs : Option Nat)
    (hv : validTaprootFlag f = false) :
    sighashTaproot sha t idx spks values f e a s lv cs = none := by
  unfold sighashTaproot
  split; · rfl
  split; · rfl
  split; · rfl
  rcases Nat.lt_or_ge f 256 with h | h
  · rcases check_of_invalidTaprootFlag f h hv with hc | hc <;> simp [hc]
  · split
    · rfl
    · split
      · rfl
      · simp

/-- `sighash_taproot` refuses a list of spent scripts whose length is not the number of inputs -/
theorem sighashTaproot_spks_length (sha : Bytes → Bytes) (t : Tx) (idx : Nat) (spks : List Bytes)
    (values : List Nat) (f e : Nat) (a s : Option Bytes) (lv : Nat) (cs : Option Nat)
    (hs : spks.length ≠ t.vin.length) :
    sighashTaproot sha t idx spks values f e a s lv cs = none := by
  unfold sighashTaproot
  split; · rfl
  split; · rfl
  simp

end Embit
