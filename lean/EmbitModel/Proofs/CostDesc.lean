import EmbitModel.Model.Cost
/-
  C17 (text parsers): the descriptor / miniscript / taptree parser of `Model/Descriptor.lean`
    * never moves the stream forward by less than it claims: every reader leaves at most as much text as it found
      (`…_mono`), the recursive ones strictly less;
    * therefore the fuel `|text| + 1` is never used up: the result is the same for every larger fuel
      (`readMs_fuel`, `readTapTree_fuel`, `readFrom_fuel`) — the recursion of the real code ends by itself;
    * costs (companions of `Model/Cost.lean`): steps ≤ 8·|rest| + 8, depth ≤ |rest| + 1.
  The loop over the keys of `multi(…)` only ends because a key reader that is handed the empty text fails
  (`PrivateKey.from_wif("")` raises): hypothesis `NoEmptyKey`; `Props/C17X.lean` has the witness that it is needed.
-/
set_option linter.unusedSimpArgs false
set_option linter.unusedVariables false
namespace Embit.Model.Cost
open Embit Embit.Miniscript Embit.Model.Descriptor

variable {K : Type}

/-- what is left of the text -/
def R (s : Stream) : Nat := s.rest.length

/-- the key decoders refuse the empty text (`ec.PrivateKey.from_wif("")` raises: Base58Check of nothing) -/
def NoEmptyKey (ops : KeyOps K) : Prop := ops.parseWif [] = none

/-! ### stream primitives -/

theorem read1_none {s s' : Stream} (h : s.read1 = (none, s')) : s' = s ∧ s.rest = [] := by
  obtain ⟨b, r⟩ := s
  cases r with
  | nil => simp [Stream.read1] at h; exact ⟨h.symm, rfl⟩
  | cons c r => simp [Stream.read1] at h

theorem read1_some {s s' : Stream} {c : Char} (h : s.read1 = (some c, s')) :
    s.rest = c :: s'.rest ∧ s'.back = c :: s.back := by
  obtain ⟨b, r⟩ := s
  cases r with
  | nil => simp [Stream.read1] at h
  | cons x r => simp [Stream.read1] at h; obtain ⟨rfl, rfl⟩ := h; exact ⟨rfl, rfl⟩

theorem read1_R {s s' : Stream} {c : Char} (h : s.read1 = (some c, s')) : R s' + 1 = R s := by
  have := (read1_some h).1
  simp [R, this]

theorem unread_R {s s' : Stream} (h : s.unread = some s') : R s' = R s + 1 := by
  obtain ⟨b, r⟩ := s
  cases b with
  | nil => simp [Stream.unread] at h
  | cons c b => simp [Stream.unread] at h; subst h; simp [R]

theorem unread_read1 {s s' : Stream} {c : Char} (h : s.read1 = (some c, s')) : s'.unread = some s := by
  obtain ⟨b, r⟩ := s
  cases r with
  | nil => simp [Stream.read1] at h
  | cons x r => simp [Stream.read1] at h; obtain ⟨rfl, rfl⟩ := h; rfl

theorem expectChar_R {c : Char} {s s' : Stream} (h : expectChar c s = some s') : R s' + 1 = R s := by
  unfold expectChar at h
  split at h
  · rename_i x s1 h1
    split at h
    · simp at h; subst h; exact read1_R h1
    · simp at h
  · simp at h

/-- `read_until`: the result and the stop character are taken off the text; a stop character can be stepped back over -/
theorem readUntilAux_spec (stops : List Char) : ∀ (r b : Str) (res : Str) (ch : Option Char) (s' : Stream),
    readUntilAux stops b r = (res, ch, s') →
    (ch = none → s'.rest = [] ∧ res.length = r.length) ∧
    (∀ c, ch = some c → s'.rest.length + res.length + 1 = r.length ∧ ∃ b', s'.back = c :: b') := by
  intro r
  induction r with
  | nil =>
    intro b res ch s' h
    simp [readUntilAux] at h
    obtain ⟨rfl, rfl, rfl⟩ := h
    simp
  | cons x r ih =>
    intro b res ch s' h
    simp only [readUntilAux] at h
    split at h
    · simp at h
      obtain ⟨rfl, rfl, rfl⟩ := h
      simp
    · generalize hq : readUntilAux stops (x :: b) r = q at h
      obtain ⟨res1, ch1, s1⟩ := q
      simp at h
      obtain ⟨rfl, rfl, rfl⟩ := h
      obtain ⟨h1, h2⟩ := ih _ _ _ _ hq
      constructor
      · intro hc
        obtain ⟨a1, a2⟩ := h1 hc
        exact ⟨a1, by simp [a2]⟩
      · intro c hc
        obtain ⟨a1, a2⟩ := h2 c hc
        exact ⟨by simp; omega, a2⟩

theorem readUntil_none {stops : List Char} {s s' : Stream} {res : Str} (h : readUntil stops s = (res, none, s')) :
    R s' = 0 ∧ res.length = R s := by
  obtain ⟨h1, _⟩ := readUntilAux_spec stops _ _ _ _ _ h
  obtain ⟨a, b⟩ := h1 rfl
  exact ⟨by simp [R, a], b⟩

theorem readUntil_some {stops : List Char} {s s' : Stream} {res : Str} {c : Char}
    (h : readUntil stops s = (res, some c, s')) :
    R s' + res.length + 1 = R s ∧ ∃ s0, s'.unread = some s0 ∧ R s0 = R s' + 1 := by
  obtain ⟨_, h2⟩ := readUntilAux_spec stops _ _ _ _ _ h
  obtain ⟨a, b', hb⟩ := h2 c rfl
  refine ⟨a, ?_⟩
  obtain ⟨bk, rs⟩ := s'
  simp at hb
  subst hb
  exact ⟨⟨b', c :: rs⟩, rfl, by simp [R]⟩

/-- whatever happens, `read_until` leaves `|rest| - |result| - (1 if it stopped)` -/
theorem readUntil_R {stops : List Char} {s s' : Stream} {res : Str} {ch : Option Char}
    (h : readUntil stops s = (res, ch, s')) : R s' + res.length + seekIf ch = R s := by
  cases ch with
  | none => obtain ⟨a, b⟩ := readUntil_none h; simp [seekIf]; omega
  | some c => obtain ⟨a, _⟩ := readUntil_some h; simp [seekIf]; omega

/-- the tail `match ch with | none => some (k, der, s) | some _ => s.unread.map …` of `readKeyBody` -/
theorem tail_R {k der : Str} {ch : Option Char} {s : Stream} {k' der' : Str} {s' : Stream}
    (h : (match ch with
          | none => some (k, der, s)
          | some _ => s.unread.map fun s => (k, der, s)) = some (k', der', s')) :
    k' = k ∧ R s' = R s + seekIf ch := by
  cases ch with
  | none => simp at h; obtain ⟨rfl, rfl, rfl⟩ := h; simp [seekIf]
  | some c =>
    simp at h
    obtain ⟨s0, h0, rfl, rfl, rfl⟩ := h
    simp [seekIf, unread_R h0]

theorem seekIf_le (ch : Option Char) : seekIf ch ≤ 1 := by cases ch <;> simp [seekIf]

theorem readKeyBody_cost (s : Stream) :
    readKeyBodyOps s ≤ R s + 2 ∧
    ∀ k der s', readKeyBody s = some (k, der, s') → R s' + k.length ≤ R s ∧ readKeyBodyOps s + R s' ≤ R s + 2 := by
  unfold readKeyBodyOps readKeyBody
  generalize h1 : readUntil [',', ')', '/'] s = q1
  obtain ⟨k, ch1, s1⟩ := q1
  have e1 := readUntil_R h1
  simp only []
  by_cases c1 : ch1 = some '/'
  · simp only [c1, if_true]
    simp only [c1, seekIf] at e1
    generalize h2 : readUntil ['<', '{', ',', ')'] s1 = q2
    obtain ⟨der, ch2, s2⟩ := q2
    have e2 := readUntil_R h2
    simp only []
    by_cases c2 : ch2 = some '{'
    · simp only [c2, if_true]
      simp only [c2, seekIf] at e2
      generalize h3 : readUntil ['}'] s2 = q3
      obtain ⟨br, ch3, s3⟩ := q3
      have e3 := readUntil_R h3
      simp only []
      by_cases c3 : ch3 = none
      · simp only [c3, if_true]
        simp only [c3, seekIf] at e3
        simp only [untilOps]
        refine ⟨by simp at *; omega, ?_⟩
        intro k' der' s' h; simp at h
      · simp only [c3, if_false]
        simp only [c3, seekIf, if_false] at e3
        generalize h4 : readUntil [',', ')'] s3 = q4
        obtain ⟨rest, ch4, s4⟩ := q4
        have e4 := readUntil_R h4
        simp only [untilOps]
        refine ⟨by cases ch4 <;> simp [seekIf] at * <;> omega, ?_⟩
        intro k' der' s' h
        obtain ⟨rfl, e5⟩ := tail_R h
        have := seekIf_le ch4
        simp at *
        omega
    · simp only [c2, if_false]
      by_cases c2' : ch2 = some '<'
      · simp only [c2', if_true]
        simp only [c2', seekIf] at e2
        generalize h3 : readUntil ['>'] s2 = q3
        obtain ⟨br, ch3, s3⟩ := q3
        have e3 := readUntil_R h3
        simp only []
        by_cases c3 : ch3 = none
        · simp only [c3, if_true]
          simp only [c3, seekIf] at e3
          simp only [untilOps]
          refine ⟨by simp at *; omega, ?_⟩
          intro k' der' s' h; simp at h
        · simp only [c3, if_false]
          simp only [c3, seekIf, if_false] at e3
          generalize h4 : readUntil [',', ')'] s3 = q4
          obtain ⟨rest, ch4, s4⟩ := q4
          have e4 := readUntil_R h4
          simp only [untilOps]
          refine ⟨by cases ch4 <;> simp [seekIf] at * <;> omega, ?_⟩
          intro k' der' s' h
          obtain ⟨rfl, e5⟩ := tail_R h
          have := seekIf_le ch4
          simp at *
          omega
      · simp only [c2', if_false]
        simp only [untilOps]
        refine ⟨by cases ch2 <;> simp [seekIf] at * <;> omega, ?_⟩
        intro k' der' s' h
        obtain ⟨rfl, e5⟩ := tail_R h
        have := seekIf_le ch2
        simp at *
        omega
  · simp only [c1, if_false]
    simp only [untilOps]
    refine ⟨by cases ch1 <;> simp [seekIf] at * <;> omega, ?_⟩
    intro k' der' s' h
    obtain ⟨rfl, e5⟩ := tail_R h
    have := seekIf_le ch1
    omega

theorem parse_empty (ops : KeyOps K) (hW : NoEmptyKey ops) (tap hash : Bool) :
    (if hash then parseKeyHashText ops tap [] else parseKeyText ops tap []) = none := by
  have h1 : parseKeyText ops tap [] = none := by
    simp [parseKeyText]
    exact hW
  cases hash with
  | false => simpa using h1
  | true => simp [parseKeyHashText, h1]

/-- what `readKey` does once it stands in front of the key text -/
theorem readKey_tail (ops : KeyOps K) (hW : NoEmptyKey ops) (tap hash : Bool) (origin : Option Origin) (s2 : Stream)
    (ke : KeyExpr K) (s' : Stream)
    (h : (match readKeyBody s2 with
      | none => none
      | some (k, der, s3) =>
        match (if hash then parseKeyHashText ops tap k else parseKeyText ops tap k) with
        | none => none
        | some (key, xonly) =>
          match parseAllowed (key.allowHardened ops) der with
          | none => none
          | some derivation =>
            if !key.hasDerive ops && derivation.isSome then none
            else some (⟨origin, key, derivation, xonly && tap⟩, s3)) = some (ke, s')) :
    R s' + 1 ≤ R s2 ∧ readKeyBodyOps s2 + R s' ≤ R s2 + 2 := by
  split at h
  · simp at h
  · rename_i k der s3 hb
    obtain ⟨_, hc⟩ := readKeyBody_cost s2
    obtain ⟨a1, a2⟩ := hc _ _ _ hb
    split at h
    · simp at h
    · rename_i key xonly hp
      have hk : k ≠ [] := by
        intro e; subst e
        rw [parse_empty ops hW tap hash] at hp
        simp at hp
      have : k.length ≥ 1 := by
        cases k with
        | nil => exact absurd rfl hk
        | cons _ _ => simp
      split at h
      · simp at h
      · split at h
        · simp at h
        · simp at h
          obtain ⟨_, rfl⟩ := h
          exact ⟨by omega, a2⟩

theorem readKey_cost (ops : KeyOps K) (hW : NoEmptyKey ops) (tap hash : Bool) (s : Stream) :
    readKeyOps s ≤ R s + 5 ∧
    ∀ k s', readKey ops tap hash s = some (k, s') → R s' ≤ R s ∧ readKeyOps s + R s' ≤ R s + 5 := by
  unfold readKeyOps readKey
  generalize hr : s.read1 = q
  obtain ⟨first, s1⟩ := q
  simp only []
  by_cases c1 : first = some '['
  · subst c1
    simp only [if_true]
    have e1 := read1_R hr
    generalize h2 : readUntil [']'] s1 = q2
    obtain ⟨pre, ch, s2⟩ := q2
    have e2 := readUntil_R h2
    have := seekIf_le ch
    simp only [untilOps]
    by_cases c2 : ch = some ']'
    · subst c2
      simp only [ne_eq, not_true_eq_false, if_false]
      simp only [seekIf] at e2
      cases ho : parseOrigin pre with
      | none =>
        simp
        omega
      | some o =>
        simp only [Option.map_some]
        have hb := (readKeyBody_cost s2).1
        refine ⟨by simp at *; omega, ?_⟩
        intro k s' h
        obtain ⟨a1, a2⟩ := readKey_tail ops hW tap hash (some o) s2 k s' h
        simp at *
        omega
    · simp only [ne_eq, c2, not_false_eq_true, if_true]
      refine ⟨by omega, ?_⟩
      intro k s' h; simp at h
  · simp only [c1, if_false]
    cases hu : s1.unread with
    | none =>
      simp only [Option.map_none]
      cases first with
      | none => simp
      | some c => simp
    | some s2 =>
      simp only [Option.map_some]
      have e2 := unread_R hu
      have hb := (readKeyBody_cost s2).1
      cases first with
      | none =>
        obtain ⟨rfl, hnil⟩ := read1_none hr
        have hR : R s1 = 0 := by simp [R, hnil]
        refine ⟨by omega, ?_⟩
        intro k s' h
        obtain ⟨a1, a2⟩ := readKey_tail ops hW tap hash none s2 k s' h
        omega
      | some c =>
        have e1 := read1_R hr
        refine ⟨by omega, ?_⟩
        intro k s' h
        obtain ⟨a1, a2⟩ := readKey_tail ops hW tap hash none s2 k s' h
        omega

theorem readNumberAux_cost : ∀ (r : Str) (acc : Nat) (b : Str),
    numberOps r ≤ r.length + 2 ∧
    ∀ n s', readNumberAux acc b r = some (n, s') → R s' ≤ r.length ∧ numberOps r + R s' ≤ r.length + 2 := by
  intro r
  induction r with
  | nil => intro acc b; simp [numberOps, readNumberAux]
  | cons c r ih =>
    intro acc b
    simp only [numberOps, readNumberAux]
    cases hd : digitVal c with
    | none =>
      simp only []
      refine ⟨by simp, ?_⟩
      intro n s' h
      simp at h
      obtain ⟨_, rfl⟩ := h
      simp [R]
      omega
    | some d =>
      simp only []
      obtain ⟨a1, a2⟩ := ih (10 * acc + d) (c :: b)
      refine ⟨by simp; omega, ?_⟩
      intro n s' h
      obtain ⟨b1, b2⟩ := a2 _ _ h
      simp
      omega

theorem readNumber_cost (s : Stream) :
    readNumberOps s ≤ R s + 2 ∧
    ∀ n s', readNumber s = some (n, s') → R s' ≤ R s ∧ readNumberOps s + R s' ≤ R s + 2 :=
  readNumberAux_cost s.rest 0 s.back

theorem readN_R : ∀ (n : Nat) (s : Stream), R (s.readN n).2 ≤ R s := by
  intro n
  induction n with
  | zero => intro s; simp [Stream.readN]
  | succ n ih =>
    intro s
    obtain ⟨b, r⟩ := s
    cases r with
    | nil => simp [Stream.readN]
    | cons c r =>
      simp only [Stream.readN]
      have := ih ⟨c :: b, r⟩
      generalize Stream.readN n ⟨c :: b, r⟩ = q at *
      obtain ⟨x, s'⟩ := q
      simp [R] at *
      omega

theorem readRaw_R {len : Nat} {s s' : Stream} {b : Bytes} (h : readRaw len s = some (b, s')) : R s' ≤ R s := by
  unfold readRaw at h
  have := readN_R (2 * len) s
  generalize Stream.readN (2 * len) s = q at *
  obtain ⟨t, s1⟩ := q
  simp only [] at h
  split at h
  · simp at h
  · cases hu : unhexlify t with
    | none => simp [hu] at h
    | some x => simp [hu] at h; obtain ⟨_, rfl⟩ := h; exact this

theorem closeOps_le (s : Stream) : closeOps s ≤ 2 := by
  unfold closeOps; split <;> omega

theorem closeOps_ok {s s' : Stream} (h : expectChar ')' s = some s') : closeOps s = 1 := by
  simp [closeOps, h]

@[simp] theorem steps_seq (a b : Nat) : stepsAlg.seq a b = a + b := rfl
@[simp] theorem steps_nest (a : Nat) : stepsAlg.nest a = a + 1 := rfl
@[simp] theorem steps_ops (n : Nat) : stepsAlg.ops n = n := rfl
@[simp] theorem depth_seq (a b : Nat) : depthAlg.seq a b = max a b := rfl
@[simp] theorem depth_nest (a : Nat) : depthAlg.nest a = a + 1 := rfl
@[simp] theorem depth_ops (n : Nat) : depthAlg.ops n = 0 := rfl

/-- the loop over `,item … )`: every round takes the comma off the text, so the items are paid for by what they
    consume; `Kp ≤ 7`: what one item may cost beyond that -/
theorem readMore_steps {α : Type} (p : Stream → Option (α × Stream)) (pc : Stream → Nat) (Kp Kf : Nat) (hKp : Kp ≤ 7)
    (hKf : 2 ≤ Kf)
    (hp : ∀ t, pc t ≤ 8 * R t + Kf ∧
      ∀ x t', p t = some (x, t') → R t' ≤ R t ∧ pc t + 8 * R t' ≤ 8 * R t + Kp) :
    ∀ (n : Nat) (s : Stream), readMoreCost stepsAlg p pc n s ≤ 8 * R s + Kf ∧
      ∀ xs s', readMore p n s = some (xs, s') →
        R s' + 1 ≤ R s ∧ readMoreCost stepsAlg p pc n s + 8 * R s' ≤ 8 * R s := by
  intro n
  induction n with
  | zero => intro s; simp [readMoreCost, readMore]
  | succ n ih =>
    intro s
    simp only [readMoreCost, readMore]
    generalize hr : s.read1 = q
    obtain ⟨first, s1⟩ := q
    cases first with
    | none => simp; omega
    | some c =>
      have e1 := read1_R hr
      split
      · rename_i s1' heq
        simp at heq
        obtain ⟨rfl, rfl⟩ := heq
        simp only []
        obtain ⟨p1, p2⟩ := hp s1
        cases hps : p s1 with
        | none => simp; omega
        | some xs2 =>
          obtain ⟨x, s2⟩ := xs2
          obtain ⟨q1, q2⟩ := p2 _ _ hps
          obtain ⟨i1, i2⟩ := ih s2
          simp only [steps_seq, steps_ops]
          refine ⟨by omega, ?_⟩
          intro xs s' h
          cases hm : readMore p n s2 with
          | none => simp [hm] at h
          | some r =>
            obtain ⟨xs3, s3⟩ := r
            simp [hm] at h
            obtain ⟨_, rfl⟩ := h
            obtain ⟨j1, j2⟩ := i2 _ _ hm
            omega
      · rename_i s1' heq
        simp at heq
        obtain ⟨rfl, rfl⟩ := heq
        simp only [steps_ops]
        refine ⟨by omega, ?_⟩
        intro xs s' h
        simp at h
        obtain ⟨_, rfl⟩ := h
        omega
      · rename_i hn1 hn2
        refine ⟨by simp; omega, ?_⟩
        intro xs s' h
        split at h
        · rename_i s1' heq; exact absurd heq (hn1 _)
        · rename_i s1' heq; exact absurd heq (hn2 _)
        · simp at h

/-- what the induction over the nesting knows about `Miniscript.read_from` one level down -/
def SubSteps {α : Type} (sub : Stream → Option (α × Stream)) (subc : Stream → Nat) : Prop :=
  ∀ t, subc t ≤ 8 * R t + 8 ∧ ∀ x t', sub t = some (x, t') → R t' + 1 ≤ R t ∧ subc t + 8 * R t' ≤ 8 * R t

theorem readKey_amort (ops : KeyOps K) (hW : NoEmptyKey ops) (tap hash : Bool) (t : Stream) :
    readKeyOps t ≤ 8 * R t + 8 ∧
    ∀ x t', readKey ops tap hash t = some (x, t') → R t' ≤ R t ∧ readKeyOps t + 8 * R t' ≤ 8 * R t + 5 := by
  obtain ⟨a1, a2⟩ := readKey_cost ops hW tap hash t
  refine ⟨by omega, ?_⟩
  intro x t' h
  obtain ⟨b1, b2⟩ := a2 _ _ h
  omega

theorem readMsBody_steps (ops : KeyOps K) (hW : NoEmptyKey ops) (tap : Bool) (sub : Stream → Option (DMs K × Stream))
    (subc : Stream → Nat) (hsub : SubSteps sub subc) (fuel : Nat) (op : Str) (s : Stream) :
    readMsBodyCost stepsAlg ops tap sub subc fuel op s ≤ 8 * R s + 14 ∧
    ∀ e s', readMsBody ops tap sub fuel op s = some (e, s') →
      R s' + 1 ≤ R s ∧ readMsBodyCost stepsAlg ops tap sub subc fuel op s + 8 * R s' ≤ 8 * R s + 6 := by
  unfold readMsBodyCost readMsBody
  cases hk : keyFragOf op with
  | some f =>
    simp only [steps_seq, steps_ops]
    obtain ⟨k1, k2⟩ := readKey_cost ops hW tap (f == .pk_h || f == .pkh) s
    cases hr : readKey ops tap (f == .pk_h || f == .pkh) s with
    | none => simp; omega
    | some r =>
      obtain ⟨k, s2⟩ := r
      obtain ⟨a1, a2⟩ := k2 _ _ hr
      have := closeOps_le s2
      simp only []
      refine ⟨by omega, ?_⟩
      intro e s' h
      cases hc : expectChar ')' s2 with
      | none => simp [hc] at h
      | some s3 =>
        simp [hc] at h
        obtain ⟨_, rfl⟩ := h
        have := closeOps_ok hc
        have := expectChar_R hc
        omega
  | none =>
    simp only []
    cases ht : timeFragOf op with
    | some f =>
      simp only [steps_seq, steps_ops]
      obtain ⟨k1, k2⟩ := readNumber_cost s
      cases hr : readNumber s with
      | none => simp; omega
      | some r =>
        obtain ⟨k, s2⟩ := r
        obtain ⟨a1, a2⟩ := k2 _ _ hr
        have := closeOps_le s2
        simp only []
        refine ⟨by omega, ?_⟩
        intro e s' h
        cases hc : expectChar ')' s2 with
        | none => simp [hc] at h
        | some s3 =>
          simp [hc] at h
          obtain ⟨_, rfl⟩ := h
          have := closeOps_ok hc
          have := expectChar_R hc
          omega
    | none =>
      simp only []
      cases hh : hashFragOf op with
      | some f =>
        simp only [steps_seq, steps_ops]
        cases hr : readRaw (hashFragLen f) s with
        | none => simp
        | some r =>
          obtain ⟨k, s2⟩ := r
          have a1 := readRaw_R hr
          have := closeOps_le s2
          simp only []
          refine ⟨by omega, ?_⟩
          intro e s' h
          cases hc : expectChar ')' s2 with
          | none => simp [hc] at h
          | some s3 =>
            simp [hc] at h
            obtain ⟨_, rfl⟩ := h
            have := closeOps_ok hc
            have := expectChar_R hc
            omega
      | none =>
        simp only []
        by_cases handor : op = ['a', 'n', 'd', 'o', 'r']
        · simp only [handor, if_true, steps_seq, steps_ops]
          obtain ⟨x1, x2⟩ := hsub s
          cases h1 : sub s with
          | none => simp; omega
          | some r1 =>
            obtain ⟨x, t1⟩ := r1
            obtain ⟨b1, b2⟩ := x2 _ _ h1
            simp only []
            cases hc1 : expectChar ',' t1 with
            | none => simp; omega
            | some t2 =>
              have e1 := expectChar_R hc1
              simp only []
              obtain ⟨y1, y2⟩ := hsub t2
              cases h2 : sub t2 with
              | none => simp; omega
              | some r2 =>
                obtain ⟨y, t3⟩ := r2
                obtain ⟨c1, c2⟩ := y2 _ _ h2
                simp only []
                cases hc2 : expectChar ',' t3 with
                | none => simp; omega
                | some t4 =>
                  have e2 := expectChar_R hc2
                  simp only []
                  obtain ⟨z1, z2⟩ := hsub t4
                  cases h3 : sub t4 with
                  | none => simp; omega
                  | some r3 =>
                    obtain ⟨z, t5⟩ := r3
                    obtain ⟨d1, d2⟩ := z2 _ _ h3
                    have := closeOps_le t5
                    simp only []
                    refine ⟨by omega, ?_⟩
                    intro e s' h
                    cases hc : expectChar ')' t5 with
                    | none => simp [hc] at h
                    | some s3 =>
                      simp [hc] at h
                      obtain ⟨_, rfl⟩ := h
                      have := closeOps_ok hc
                      have := expectChar_R hc
                      omega
        · simp only [handor, if_false]
          cases hb : binFragOf op with
          | some f =>
            simp only [steps_seq, steps_ops]
            obtain ⟨x1, x2⟩ := hsub s
            cases h1 : sub s with
            | none => simp; omega
            | some r1 =>
              obtain ⟨x, t1⟩ := r1
              obtain ⟨b1, b2⟩ := x2 _ _ h1
              simp only []
              cases hc1 : expectChar ',' t1 with
              | none => simp; omega
              | some t2 =>
                have e1 := expectChar_R hc1
                simp only []
                obtain ⟨y1, y2⟩ := hsub t2
                cases h2 : sub t2 with
                | none => simp; omega
                | some r2 =>
                  obtain ⟨y, t3⟩ := r2
                  obtain ⟨c1, c2⟩ := y2 _ _ h2
                  have := closeOps_le t3
                  simp only []
                  refine ⟨by omega, ?_⟩
                  intro e s' h
                  cases hc : expectChar ')' t3 with
                  | none => simp [hc] at h
                  | some s3 =>
                    simp [hc] at h
                    obtain ⟨_, rfl⟩ := h
                    have := closeOps_ok hc
                    have := expectChar_R hc
                    omega
          | none =>
            simp only []
            by_cases hthresh : op = ['t', 'h', 'r', 'e', 's', 'h']
            · simp only [hthresh, if_true, steps_seq, steps_ops]
              obtain ⟨k1, k2⟩ := readNumber_cost s
              cases hr : readNumber s with
              | none => simp; omega
              | some r =>
                obtain ⟨k, s2⟩ := r
                obtain ⟨a1, a2⟩ := k2 _ _ hr
                simp only []
                obtain ⟨m1, m2⟩ := readMore_steps sub subc 0 8 (by omega) (by omega)
                  (fun t => ⟨(hsub t).1, fun x t' h => by have := (hsub t).2 x t' h; omega⟩) fuel s2
                refine ⟨by omega, ?_⟩
                intro e s' h
                cases hm : readMore sub fuel s2 with
                | none => simp [hm] at h
                | some r2 =>
                  obtain ⟨xs, s3⟩ := r2
                  simp [hm] at h
                  obtain ⟨_, rfl⟩ := h
                  obtain ⟨n1, n2⟩ := m2 _ _ hm
                  omega
            · simp only [hthresh, if_false]
              cases hmf : multiFragOf op with
              | some f =>
                simp only [steps_seq, steps_ops]
                obtain ⟨k1, k2⟩ := readNumber_cost s
                cases hr : readNumber s with
                | none => simp; omega
                | some r =>
                  obtain ⟨k, s2⟩ := r
                  obtain ⟨a1, a2⟩ := k2 _ _ hr
                  simp only []
                  obtain ⟨m1, m2⟩ := readMore_steps (readKey ops tap false) (fun s => readKeyOps s) 5 8 (by omega) (by omega)
                    (readKey_amort ops hW tap false) fuel s2
                  refine ⟨by omega, ?_⟩
                  intro e s' h
                  cases hm : readMore (readKey ops tap false) fuel s2 with
                  | none => simp [hm] at h
                  | some r2 =>
                    obtain ⟨xs, s3⟩ := r2
                    simp only [hm] at h
                    split at h
                    · simp at h
                      obtain ⟨_, rfl⟩ := h
                      obtain ⟨n1, n2⟩ := m2 _ _ hm
                      omega
                    · simp at h
              | none => simp

/-- **`Miniscript.read_from`: steps ≤ 8·|rest| + 8**, and an accepted expression pays for itself: steps ≤ 8·(consumed) -/
theorem readMs_steps (ops : KeyOps K) (hW : NoEmptyKey ops) (tap : Bool) :
    ∀ fuel, SubSteps (readMs ops tap fuel) (readMsCost stepsAlg ops tap fuel) := by
  intro fuel
  induction fuel with
  | zero => intro t; simp [readMs, readMsCost]
  | succ fuel ih =>
    intro s
    simp only [readMs, readMsCost]
    generalize h1 : readUntil ['('] s = q1
    obtain ⟨opw, ch, s1⟩ := q1
    have e1 := readUntil_R h1
    have := seekIf_le ch
    simp only [steps_seq, steps_nest, steps_ops, untilOps]
    generalize hsp : (if opw.contains ':' = true then
        match splitOn ':' opw with
        | [w, o] => some (w, o)
        | _ => none
      else some ([], opw)) = split
    cases split with
    | none => simp; omega
    | some wo =>
      obtain ⟨w, o⟩ := wo
      simp only []
      by_cases hc : ch = some '('
      · subst hc
        simp only [ne_eq, not_true_eq_false, if_false]
        simp only [seekIf] at e1
        obtain ⟨b1, b2⟩ := readMsBody_steps ops hW tap _ _ ih fuel o s1
        refine ⟨by simp at *; omega, ?_⟩
        intro e s' h
        cases hb : readMsBody ops tap (readMs ops tap fuel) fuel o s1 with
        | none => simp [hb] at h
        | some r =>
          obtain ⟨e0, s2⟩ := r
          obtain ⟨c1, c2⟩ := b2 _ _ hb
          simp [hb] at h
          obtain ⟨_, _, _, rfl⟩ := h
          simp at *
          omega
      · simp only [ne_eq, hc, not_false_eq_true, if_true]
        refine ⟨by omega, ?_⟩
        intro e s' h; simp at h

/-- **`TapTree.read_from`: steps ≤ 8·|rest| + 12** -/
theorem readTapTree_steps (ops : KeyOps K) (hW : NoEmptyKey ops) :
    ∀ (fuel : Nat) (s : Stream), readTapTreeCost stepsAlg ops fuel s ≤ 8 * R s + 12 ∧
      ∀ t s', readTapTree ops fuel s = some (t, s') →
        R s' ≤ R s ∧ readTapTreeCost stepsAlg ops fuel s + 8 * R s' ≤ 8 * R s + 3 := by
  intro fuel
  induction fuel with
  | zero => intro s; simp [readTapTree, readTapTreeCost]
  | succ fuel ih =>
    intro s
    simp only [readTapTree, readTapTreeCost]
    generalize hr : s.read1 = q
    obtain ⟨first, s1⟩ := q
    cases first with
    | none =>
      obtain ⟨rfl, hnil⟩ := read1_none hr
      simp
      omega
    | some c =>
      have e1 := read1_R hr
      simp only [steps_seq, steps_nest, steps_ops]
      by_cases hc : c = '{'
      · subst hc
        simp only [if_true]
        obtain ⟨l1, l2⟩ := ih s1
        cases hl : readTapTree ops fuel s1 with
        | none => simp; omega
        | some r =>
          obtain ⟨left, s2⟩ := r
          obtain ⟨a1, a2⟩ := l2 _ _ hl
          simp only []
          generalize hr2 : s2.read1 = q2
          obtain ⟨c2, s3⟩ := q2
          cases c2 with
          | none => simp; omega
          | some c2 =>
            have e2 := read1_R hr2
            split
            · rename_i s3' heq
              simp at heq
              obtain ⟨rfl, rfl⟩ := heq
              refine ⟨by omega, ?_⟩
              intro t s' h
              simp at h
              obtain ⟨_, rfl⟩ := h
              omega
            · rename_i s3' heq
              simp at heq
              obtain ⟨rfl, rfl⟩ := heq
              simp only []
              obtain ⟨r1, r2⟩ := ih s3
              cases hrt : readTapTree ops fuel s3 with
              | none => simp; omega
              | some rr =>
                obtain ⟨right, s4⟩ := rr
                obtain ⟨b1, b2⟩ := r2 _ _ hrt
                simp only []
                refine ⟨by omega, ?_⟩
                intro t s' h
                cases hx : expectChar '}' s4 with
                | none => simp [hx] at h
                | some s5 =>
                  simp [hx] at h
                  obtain ⟨_, rfl⟩ := h
                  have := expectChar_R hx
                  omega
            · rename_i hn1 hn2
              refine ⟨by omega, ?_⟩
              intro t s' h
              split at h
              · rename_i s3' heq; exact absurd heq (hn1 _)
              · rename_i s3' heq; exact absurd heq (hn2 _)
              · simp at h
      · simp only [hc, if_false]
        have hu := unread_read1 hr
        simp only [hu]
        obtain ⟨m1, m2⟩ := readMs_steps ops hW true (fuel + 1) s
        refine ⟨by omega, ?_⟩
        intro t s' h
        cases hm : readMs ops true (fuel + 1) s with
        | none => simp [hm] at h
        | some r =>
          obtain ⟨ms, s3⟩ := r
          obtain ⟨c1, c2⟩ := m2 _ _ hm
          simp only [hm] at h
          split at h
          · simp at h
            obtain ⟨_, rfl⟩ := h
            omega
          · simp at h

theorem readN_split : ∀ (n : Nat) (s : Stream), R (s.readN n).2 + (s.readN n).1.length = R s := by
  intro n
  induction n with
  | zero => intro s; simp [Stream.readN]
  | succ n ih =>
    intro s
    obtain ⟨b, r⟩ := s
    cases r with
    | nil => simp [Stream.readN]
    | cons c r =>
      simp only [Stream.readN]
      have := ih ⟨c :: b, r⟩
      generalize Stream.readN n ⟨c :: b, r⟩ = q at *
      obtain ⟨x, s'⟩ := q
      simp [R] at *
      omega

theorem seekBack_R : ∀ (k : Nat) (s s' : Stream), Stream.seekBack k s = some s' → R s' = R s + k := by
  intro k
  induction k with
  | zero => intro s s' h; simp [Stream.seekBack] at h; subst h; rfl
  | succ k ih =>
    intro s s' h
    simp only [Stream.seekBack] at h
    cases hu : s.unread with
    | none => simp [hu] at h
    | some s1 =>
      simp [hu] at h
      have := ih _ _ h
      have := unread_R hu
      omega

theorem isPrefix_len {p t : Str} (h : isPrefix p t = true) : p.length ≤ t.length := by
  unfold isPrefix at h
  simp at h
  have := congrArg List.length h
  simp at this
  omega

/-- the head dispatch leaves at most one character more than it found (`sh(` / `tr(` step back over 4) -/
theorem readHead_R {s s' : Stream} {hd : Head} (h : readHead s = some (hd, s')) : R s' ≤ R s + 1 := by
  unfold readHead at h
  have hs := readN_split 7 s
  generalize Stream.readN 7 s = q at *
  obtain ⟨start, s1⟩ := q
  simp only [] at h hs
  split at h
  · rename_i hp
    have := isPrefix_len hp
    cases hb : Stream.seekBack 4 s1 with
    | none => simp [hb] at h
    | some s2 => simp [hb] at h; obtain ⟨_, rfl⟩ := h; have := seekBack_R _ _ _ hb; simp at *; omega
  · split at h
    · simp at h; obtain ⟨_, rfl⟩ := h; omega
    · split at h
      · rename_i hp
        have := isPrefix_len hp
        cases hb : Stream.seekBack 3 s1 with
        | none => simp [hb] at h
        | some s2 => simp [hb] at h; obtain ⟨_, rfl⟩ := h; have := seekBack_R _ _ _ hb; simp at *; omega
      · split at h
        · cases hb : expectChar '(' s1 with
          | none => simp [hb] at h
          | some s2 => simp [hb] at h; obtain ⟨_, rfl⟩ := h; have := expectChar_R hb; omega
        · split at h
          · rename_i hp
            have := isPrefix_len hp
            cases hb : Stream.seekBack 2 s1 with
            | none => simp [hb] at h
            | some s2 => simp [hb] at h; obtain ⟨_, rfl⟩ := h; have := seekBack_R _ _ _ hb; simp at *; omega
          · split at h
            · rename_i hp
              have := isPrefix_len hp
              cases hb : Stream.seekBack 3 s1 with
              | none => simp [hb] at h
              | some s2 => simp [hb] at h; obtain ⟨_, rfl⟩ := h; have := seekBack_R _ _ _ hb; simp at *; omega
            · split at h
              · rename_i hp
                have := isPrefix_len hp
                cases hb : Stream.seekBack 4 s1 with
                | none => simp [hb] at h
                | some s2 => simp [hb] at h; obtain ⟨_, rfl⟩ := h; have := seekBack_R _ _ _ hb; simp at *; omega
              · simp at h

theorem readHeadOps_le (s : Stream) : readHeadOps s ≤ 2 := by
  unfold readHeadOps
  generalize Stream.readN 7 s = q
  obtain ⟨start, s1⟩ := q
  simp only []
  repeat (first | omega | split)

/-- **`Descriptor.read_from`: steps ≤ 8·|rest| + 21** -/
theorem readFrom_steps (ops : KeyOps K) (hW : NoEmptyKey ops) (fuel : Nat) (s : Stream) :
    readFromCost stepsAlg ops fuel s ≤ 8 * R s + 21 := by
  unfold readFromCost
  have h0 := readHeadOps_le s
  cases hh : readHead s with
  | none => simp; omega
  | some r =>
    obtain ⟨hd, s1⟩ := r
    have e0 := readHead_R hh
    cases hd with
    | tr =>
      simp only [steps_seq, steps_ops]
      obtain ⟨k1, k2⟩ := readKey_cost ops hW true false s1
      cases hk : readKey ops true false s1 with
      | none => simp; omega
      | some rk =>
        obtain ⟨key, s2⟩ := rk
        obtain ⟨a1, a2⟩ := k2 _ _ hk
        simp only []
        generalize hr : s2.read1 = q
        obtain ⟨c, s3⟩ := q
        simp only []
        by_cases hc : c = some ','
        · subst hc
          have e1 := read1_R hr
          simp only [if_true]
          obtain ⟨t1, t2⟩ := readTapTree_steps ops hW fuel s3
          cases ht : readTapTree ops fuel s3 with
          | none => simp; omega
          | some rt => simp; omega
        · simp only [hc, if_false]
          cases hu : s3.unread with
          | none => simp; omega
          | some s4 => simp; omega
    | shwsh =>
      simp only [steps_seq, steps_ops]
      obtain ⟨m1, m2⟩ := readMs_steps ops hW false fuel s1
      cases hm : readMs ops false fuel s1 with
      | none => simp; omega
      | some r => simp; omega
    | wsh =>
      simp only [steps_seq, steps_ops]
      obtain ⟨m1, m2⟩ := readMs_steps ops hW false fuel s1
      cases hm : readMs ops false fuel s1 with
      | none => simp; omega
      | some r => simp; omega
    | sh =>
      simp only [steps_seq, steps_ops]
      obtain ⟨m1, m2⟩ := readMs_steps ops hW false fuel s1
      cases hm : readMs ops false fuel s1 with
      | none => simp; omega
      | some r => simp; omega
    | shwpkh =>
      simp only [steps_seq, steps_ops]
      obtain ⟨m1, m2⟩ := readKey_cost ops hW false false s1
      cases hm : readKey ops false false s1 with
      | none => simp; omega
      | some r => simp; omega
    | wpkh =>
      simp only [steps_seq, steps_ops]
      obtain ⟨m1, m2⟩ := readKey_cost ops hW false false s1
      cases hm : readKey ops false false s1 with
      | none => simp; omega
      | some r => simp; omega
    | pkh =>
      simp only [steps_seq, steps_ops]
      obtain ⟨m1, m2⟩ := readKey_cost ops hW false false s1
      cases hm : readKey ops false false s1 with
      | none => simp; omega
      | some r => simp; omega

/-- **`Descriptor.from_string`: steps ≤ 8·|text| + 22** -/
theorem parse_steps (ops : KeyOps K) (hW : NoEmptyKey ops) (text : Str) :
    parseCost stepsAlg ops text ≤ 8 * text.length + 22 := by
  unfold parseCost
  have := readFrom_steps ops hW (text.length + 1) (Stream.ofStr text)
  have hR : R (Stream.ofStr text) = text.length := rfl
  simp only [steps_seq, steps_ops]
  cases hm : Desc.readFrom ops (text.length + 1) (Stream.ofStr text) with
  | none => simp; omega
  | some r => simp; omega

/-! ### the fuel is never used up -/

/-- the argument loop: with more fuel than text left, the fuel does not matter — neither here nor in the item reader,
    as long as the two item readers agree on shorter texts -/
theorem readMore_fuel {α : Type} (p1 p2 : Stream → Option (α × Stream))
    (hmono : ∀ t x t', p1 t = some (x, t') → R t' ≤ R t) :
    ∀ (n1 n2 : Nat) (s : Stream), R s < n1 → R s < n2 → (∀ t, R t < R s → p1 t = p2 t) →
      readMore p1 n1 s = readMore p2 n2 s := by
  intro n1
  induction n1 with
  | zero => intro n2 s h1; omega
  | succ n1 ih =>
    intro n2 s h1 h2 hag
    cases n2 with
    | zero => omega
    | succ n2 =>
      simp only [readMore]
      generalize hr : s.read1 = q
      obtain ⟨first, s1⟩ := q
      cases first with
      | none => rfl
      | some c =>
        have e1 := read1_R hr
        split
        · rename_i s1' heq
          simp at heq
          obtain ⟨rfl, rfl⟩ := heq
          rw [← hag s1 (by omega)]
          cases hp : p1 s1 with
          | none => rfl
          | some r =>
            obtain ⟨x, s2⟩ := r
            have := hmono _ _ _ hp
            simp only []
            rw [ih n2 s2 (by omega) (by omega) (fun t ht => hag t (by omega))]
        · rfl
        · rfl

theorem readMs_mono (ops : KeyOps K) (hW : NoEmptyKey ops) (tap : Bool) (fuel : Nat) (t : Stream) (x : DMs K)
    (t' : Stream) (h : readMs ops tap fuel t = some (x, t')) : R t' + 1 ≤ R t :=
  ((readMs_steps ops hW tap fuel t).2 x t' h).1

theorem readKey_mono (ops : KeyOps K) (hW : NoEmptyKey ops) (tap hash : Bool) (t : Stream) (x : KeyExpr K)
    (t' : Stream) (h : readKey ops tap hash t = some (x, t')) : R t' ≤ R t :=
  ((readKey_cost ops hW tap hash t).2 x t' h).1

/-- `read_arguments`: the same result for two sub-expression readers that agree on texts not longer than what is
    left, and for any two fuels above that length -/
theorem readMsBody_fuel (ops : KeyOps K) (hW : NoEmptyKey ops) (tap : Bool) (sub1 sub2 : Stream → Option (DMs K × Stream))
    (hmono : ∀ t x t', sub1 t = some (x, t') → R t' + 1 ≤ R t) (f1 f2 : Nat) (op : Str) (s : Stream)
    (h1 : R s < f1) (h2 : R s < f2) (hag : ∀ t, R t ≤ R s → sub1 t = sub2 t) :
    readMsBody ops tap sub1 f1 op s = readMsBody ops tap sub2 f2 op s := by
  unfold readMsBody
  cases hk : keyFragOf op with
  | some f => rfl
  | none =>
    simp only []
    cases ht : timeFragOf op with
    | some f => rfl
    | none =>
      simp only []
      cases hh : hashFragOf op with
      | some f => rfl
      | none =>
        simp only []
        by_cases handor : op = ['a', 'n', 'd', 'o', 'r']
        · simp only [handor, if_true]
          rw [← hag s (by omega)]
          cases e1 : sub1 s with
          | none => rfl
          | some r1 =>
            obtain ⟨x, t1⟩ := r1
            have m1 := hmono _ _ _ e1
            simp only []
            cases c1 : expectChar ',' t1 with
            | none => rfl
            | some t2 =>
              have := expectChar_R c1
              simp only []
              rw [← hag t2 (by omega)]
              cases e2 : sub1 t2 with
              | none => rfl
              | some r2 =>
                obtain ⟨y, t3⟩ := r2
                have m2 := hmono _ _ _ e2
                simp only []
                cases c2 : expectChar ',' t3 with
                | none => rfl
                | some t4 =>
                  have := expectChar_R c2
                  simp only []
                  rw [← hag t4 (by omega)]
        · simp only [handor, if_false]
          cases hb : binFragOf op with
          | some f =>
            simp only []
            rw [← hag s (by omega)]
            cases e1 : sub1 s with
            | none => rfl
            | some r1 =>
              obtain ⟨x, t1⟩ := r1
              have m1 := hmono _ _ _ e1
              simp only []
              cases c1 : expectChar ',' t1 with
              | none => rfl
              | some t2 =>
                have := expectChar_R c1
                simp only []
                rw [← hag t2 (by omega)]
          | none =>
            simp only []
            by_cases hthresh : op = ['t', 'h', 'r', 'e', 's', 'h']
            · simp only [hthresh, if_true]
              cases hr : readNumber s with
              | none => rfl
              | some r =>
                obtain ⟨k, s2⟩ := r
                have a1 := ((readNumber_cost s).2 _ _ hr).1
                simp only []
                rw [readMore_fuel sub1 sub2 (fun t x t' h => by have := hmono t x t' h; omega) f1 f2 s2
                  (by omega) (by omega) (fun t ht => hag t (by omega))]
            · simp only [hthresh, if_false]
              cases hmf : multiFragOf op with
              | some f =>
                simp only []
                cases hr : readNumber s with
                | none => rfl
                | some r =>
                  obtain ⟨k, s2⟩ := r
                  have a1 := ((readNumber_cost s).2 _ _ hr).1
                  simp only []
                  rw [readMore_fuel (readKey ops tap false) (readKey ops tap false) (readKey_mono ops hW tap false) f1 f2 s2
                    (by omega) (by omega) (fun t ht => rfl)]
              | none => rfl

/-- **no fuel exhaustion in `Miniscript.read_from`**: with more fuel than characters left the fuel does not matter -/
theorem readMs_fuel (ops : KeyOps K) (hW : NoEmptyKey ops) (tap : Bool) :
    ∀ (f1 f2 : Nat) (s : Stream), R s < f1 → R s < f2 → readMs ops tap f1 s = readMs ops tap f2 s := by
  intro f1
  induction f1 with
  | zero => intro f2 s h1; omega
  | succ f1 ih =>
    intro f2 s h1 h2
    cases f2 with
    | zero => omega
    | succ f2 =>
      simp only [readMs]
      generalize hq : readUntil ['('] s = q1
      obtain ⟨opw, ch, s1⟩ := q1
      have e1 := readUntil_R hq
      simp only []
      split
      · rfl
      · rename_i w o hsp
        by_cases hc : ch = some '('
        · subst hc
          simp only [ne_eq, not_true_eq_false, if_false]
          simp only [seekIf] at e1
          simp at e1
          rw [readMsBody_fuel ops hW tap (readMs ops tap f1) (readMs ops tap f2) (readMs_mono ops hW tap f1) f1 f2 o s1
            (by omega) (by omega) (fun t ht => ih f2 t (by omega) (by omega))]
        · simp [hc]

theorem readTapTree_mono (ops : KeyOps K) (hW : NoEmptyKey ops) (fuel : Nat) (t : Stream) (x : TapTree K)
    (t' : Stream) (h : readTapTree ops fuel t = some (x, t')) : R t' ≤ R t :=
  ((readTapTree_steps ops hW fuel t).2 x t' h).1

/-- **no fuel exhaustion in `TapTree.read_from`** -/
theorem readTapTree_fuel (ops : KeyOps K) (hW : NoEmptyKey ops) :
    ∀ (f1 f2 : Nat) (s : Stream), R s < f1 → R s < f2 → readTapTree ops f1 s = readTapTree ops f2 s := by
  intro f1
  induction f1 with
  | zero => intro f2 s h1; omega
  | succ f1 ih =>
    intro f2 s h1 h2
    cases f2 with
    | zero => omega
    | succ f2 =>
      simp only [readTapTree]
      generalize hr : s.read1 = q
      obtain ⟨first, s1⟩ := q
      cases first with
      | none => rfl
      | some c =>
        have e1 := read1_R hr
        simp only []
        by_cases hc : c = '{'
        · subst hc
          simp only [if_true]
          rw [← ih f2 s1 (by omega) (by omega)]
          cases hl : readTapTree ops f1 s1 with
          | none => rfl
          | some r =>
            obtain ⟨left, s2⟩ := r
            have m1 := readTapTree_mono ops hW _ _ _ _ hl
            simp only []
            generalize hr2 : s2.read1 = q2
            obtain ⟨c2, s3⟩ := q2
            cases c2 with
            | none => rfl
            | some c2 =>
              have e2 := read1_R hr2
              split
              · rfl
              · rename_i s3' heq
                simp at heq
                obtain ⟨rfl, rfl⟩ := heq
                rw [← ih f2 s3 (by omega) (by omega)]
              · rfl
        · simp only [hc, if_false]
          have hu := unread_read1 hr
          simp only [hu]
          rw [readMs_fuel ops hW true (f1 + 1) (f2 + 1) s (by omega) (by omega)]

def B (s : Stream) : Nat := s.back.length

theorem readN_total : ∀ (n : Nat) (s : Stream), R (s.readN n).2 + B (s.readN n).2 = R s + B s := by
  intro n
  induction n with
  | zero => intro s; simp [Stream.readN]
  | succ n ih =>
    intro s
    obtain ⟨b, r⟩ := s
    cases r with
    | nil => simp [Stream.readN]
    | cons c r =>
      simp only [Stream.readN]
      have := ih ⟨c :: b, r⟩
      generalize Stream.readN n ⟨c :: b, r⟩ = q at *
      obtain ⟨x, s'⟩ := q
      simp [R, B] at *
      omega

theorem unread_total {s s' : Stream} (h : s.unread = some s') : R s' + B s' = R s + B s := by
  obtain ⟨b, r⟩ := s
  cases b with
  | nil => simp [Stream.unread] at h
  | cons c b => simp [Stream.unread] at h; subst h; simp [R, B]; omega

theorem seekBack_total : ∀ (k : Nat) (s s' : Stream), Stream.seekBack k s = some s' → R s' + B s' = R s + B s := by
  intro k
  induction k with
  | zero => intro s s' h; simp [Stream.seekBack] at h; subst h; rfl
  | succ k ih =>
    intro s s' h
    simp only [Stream.seekBack] at h
    cases hu : s.unread with
    | none => simp [hu] at h
    | some s1 =>
      simp [hu] at h
      have := ih _ _ h
      have := unread_total hu
      omega

theorem expectChar_total {c : Char} {s s' : Stream} (h : expectChar c s = some s') : R s' + B s' = R s + B s := by
  unfold expectChar at h
  split at h
  · rename_i x s1 h1
    split at h
    · simp at h; subst h
      obtain ⟨a, b⟩ := read1_some h1
      simp [R, B, a, b]; omega
    · simp at h
  · simp at h

/-- from the start of a text the head dispatch leaves at most the text -/
theorem readHead_R0 {s s' : Stream} {hd : Head} (h : readHead s = some (hd, s')) (hb : s.back = []) : R s' ≤ R s := by
  have key : R s' + B s' = R s + B s := by
    unfold readHead at h
    have hs := readN_total 7 s
    generalize Stream.readN 7 s = q at *
    obtain ⟨start, s1⟩ := q
    simp only [] at h hs
    split at h
    · cases hb : Stream.seekBack 4 s1 with
      | none => simp [hb] at h
      | some s2 => simp [hb] at h; obtain ⟨_, rfl⟩ := h; have := seekBack_total _ _ _ hb; omega
    · split at h
      · simp at h; obtain ⟨_, rfl⟩ := h; omega
      · split at h
        · cases hb : Stream.seekBack 3 s1 with
          | none => simp [hb] at h
          | some s2 => simp [hb] at h; obtain ⟨_, rfl⟩ := h; have := seekBack_total _ _ _ hb; omega
        · split at h
          · cases hb : expectChar '(' s1 with
            | none => simp [hb] at h
            | some s2 => simp [hb] at h; obtain ⟨_, rfl⟩ := h; have := expectChar_total hb; omega
          · split at h
            · cases hb : Stream.seekBack 2 s1 with
              | none => simp [hb] at h
              | some s2 => simp [hb] at h; obtain ⟨_, rfl⟩ := h; have := seekBack_total _ _ _ hb; omega
            · split at h
              · cases hb : Stream.seekBack 3 s1 with
                | none => simp [hb] at h
                | some s2 => simp [hb] at h; obtain ⟨_, rfl⟩ := h; have := seekBack_total _ _ _ hb; omega
              · split at h
                · cases hb : Stream.seekBack 4 s1 with
                  | none => simp [hb] at h
                  | some s2 => simp [hb] at h; obtain ⟨_, rfl⟩ := h; have := seekBack_total _ _ _ hb; omega
                · simp at h
  have : B s = 0 := by simp [B, hb]
  omega

/-- **no fuel exhaustion in `Descriptor.read_from`** (from the start of a text) -/
theorem readFrom_fuel (ops : KeyOps K) (hW : NoEmptyKey ops) (f1 f2 : Nat) (s : Stream) (hb : s.back = [])
    (h1 : R s < f1) (h2 : R s < f2) : Desc.readFrom ops f1 s = Desc.readFrom ops f2 s := by
  unfold Desc.readFrom
  cases hh : readHead s with
  | none => rfl
  | some r =>
    obtain ⟨hd, s1⟩ := r
    have e0 := readHead_R0 hh hb
    cases hd with
    | tr =>
      simp only []
      cases hk : readKey ops true false s1 with
      | none => rfl
      | some rk =>
        obtain ⟨key, s2⟩ := rk
        have a1 := readKey_mono ops hW _ _ _ _ _ hk
        simp only []
        generalize hr : s2.read1 = q
        obtain ⟨c, s3⟩ := q
        simp only []
        by_cases hc : c = some ','
        · subst hc
          have e1 := read1_R hr
          simp only [if_true]
          rw [readTapTree_fuel ops hW f1 f2 s3 (by omega) (by omega)]
        · simp only [hc, if_false]
    | shwsh => simp only []; rw [readMs_fuel ops hW false f1 f2 s1 (by omega) (by omega)]
    | wsh => simp only []; rw [readMs_fuel ops hW false f1 f2 s1 (by omega) (by omega)]
    | sh => simp only []; rw [readMs_fuel ops hW false f1 f2 s1 (by omega) (by omega)]
    | shwpkh => rfl
    | wpkh => rfl
    | pkh => rfl

/-! ### recursion depth -/

theorem readMore_depth {α : Type} (p : Stream → Option (α × Stream)) (pc : Stream → Nat) (D : Nat)
    (hmono : ∀ t x t', p t = some (x, t') → R t' ≤ R t) :
    ∀ (n : Nat) (s : Stream), (∀ t, R t < R s → pc t ≤ D) → readMoreCost depthAlg p pc n s ≤ D := by
  intro n
  induction n with
  | zero => intro s _; simp [readMoreCost]
  | succ n ih =>
    intro s hd
    simp only [readMoreCost]
    generalize hr : s.read1 = q
    obtain ⟨first, s1⟩ := q
    cases first with
    | none => simp
    | some c =>
      have e1 := read1_R hr
      split
      · rename_i s1' heq
        simp at heq
        obtain ⟨rfl, rfl⟩ := heq
        simp only [depth_seq, depth_ops]
        have h1 := hd s1 (by omega)
        cases hp : p s1 with
        | none => simp; omega
        | some r =>
          obtain ⟨x, s2⟩ := r
          have := hmono _ _ _ hp
          have := ih s2 (fun t ht => hd t (by omega))
          simp only []
          omega
      · simp
      · simp

theorem readMsBody_depth (ops : KeyOps K) (hW : NoEmptyKey ops) (tap : Bool) (sub : Stream → Option (DMs K × Stream))
    (subc : Stream → Nat) (hmono : ∀ t x t', sub t = some (x, t') → R t' + 1 ≤ R t)
    (hd : ∀ t, subc t ≤ R t + 1) (fuel : Nat) (op : Str) (s : Stream) :
    readMsBodyCost depthAlg ops tap sub subc fuel op s ≤ R s + 1 := by
  unfold readMsBodyCost
  cases hk : keyFragOf op with
  | some f =>
    simp only [depth_seq, depth_ops]
    cases readKey ops tap (f == .pk_h || f == .pkh) s <;> simp
  | none =>
    simp only []
    cases ht : timeFragOf op with
    | some f =>
      simp only [depth_seq, depth_ops]
      cases readNumber s <;> simp
    | none =>
      simp only []
      cases hh : hashFragOf op with
      | some f =>
        simp only [depth_seq, depth_ops]
        cases readRaw (hashFragLen f) s <;> simp
      | none =>
        simp only []
        by_cases handor : op = ['a', 'n', 'd', 'o', 'r']
        · simp only [handor, if_true, depth_seq, depth_ops]
          have d0 := hd s
          cases e1 : sub s with
          | none => simp; omega
          | some r1 =>
            obtain ⟨x, t1⟩ := r1
            have m1 := hmono _ _ _ e1
            simp only []
            cases c1 : expectChar ',' t1 with
            | none => simp; omega
            | some t2 =>
              have := expectChar_R c1
              have d2 := hd t2
              simp only []
              cases e2 : sub t2 with
              | none => simp; omega
              | some r2 =>
                obtain ⟨y, t3⟩ := r2
                have m2 := hmono _ _ _ e2
                simp only []
                cases c2 : expectChar ',' t3 with
                | none => simp; omega
                | some t4 =>
                  have := expectChar_R c2
                  have d4 := hd t4
                  simp only []
                  cases e3 : sub t4 with
                  | none => simp; omega
                  | some r3 => simp; omega
        · simp only [handor, if_false]
          cases hb : binFragOf op with
          | some f =>
            simp only [depth_seq, depth_ops]
            have d0 := hd s
            cases e1 : sub s with
            | none => simp; omega
            | some r1 =>
              obtain ⟨x, t1⟩ := r1
              have m1 := hmono _ _ _ e1
              simp only []
              cases c1 : expectChar ',' t1 with
              | none => simp; omega
              | some t2 =>
                have := expectChar_R c1
                have d2 := hd t2
                simp only []
                cases e2 : sub t2 with
                | none => simp; omega
                | some r2 => simp; omega
          | none =>
            simp only []
            by_cases hthresh : op = ['t', 'h', 'r', 'e', 's', 'h']
            · simp only [hthresh, if_true, depth_seq, depth_ops]
              cases hr : readNumber s with
              | none => simp
              | some r =>
                obtain ⟨k, s2⟩ := r
                have a1 := ((readNumber_cost s).2 _ _ hr).1
                simp only []
                have := readMore_depth sub subc (R s + 1) (fun t x t' h => by have := hmono t x t' h; omega) fuel s2
                  (fun t ht => by have := hd t; omega)
                omega
            · simp only [hthresh, if_false]
              cases hmf : multiFragOf op with
              | some f =>
                simp only [depth_seq, depth_ops]
                cases hr : readNumber s with
                | none => simp
                | some r =>
                  obtain ⟨k, s2⟩ := r
                  simp only []
                  have := readMore_depth (readKey ops tap false) (fun s => 0) 0
                    (readKey_mono ops hW tap false) fuel s2 (fun t ht => by simp)
                  omega
              | none => simp

/-- **recursion depth of `Miniscript.read_from` ≤ |rest| + 1** -/
theorem readMs_depth (ops : KeyOps K) (hW : NoEmptyKey ops) (tap : Bool) :
    ∀ (fuel : Nat) (s : Stream), readMsCost depthAlg ops tap fuel s ≤ R s + 1 := by
  intro fuel
  induction fuel with
  | zero => intro s; simp [readMsCost]
  | succ fuel ih =>
    intro s
    simp only [readMsCost]
    generalize h1 : readUntil ['('] s = q1
    obtain ⟨opw, ch, s1⟩ := q1
    have e1 := readUntil_R h1
    simp only [depth_seq, depth_nest, depth_ops]
    split
    · simp
    · rename_i w o hsp
      by_cases hc : ch = some '('
      · subst hc
        simp only [ne_eq, not_true_eq_false, if_false]
        simp [seekIf] at e1
        have := readMsBody_depth ops hW tap _ _ (readMs_mono ops hW tap fuel) ih fuel o s1
        omega
      · simp [hc]

/-- **recursion depth of `TapTree.read_from` ≤ |rest| + 2** (a leaf is `TapTree` → `Miniscript` at the same place) -/
theorem readTapTree_depth (ops : KeyOps K) (hW : NoEmptyKey ops) :
    ∀ (fuel : Nat) (s : Stream), readTapTreeCost depthAlg ops fuel s ≤ R s + 2 := by
  intro fuel
  induction fuel with
  | zero => intro s; simp [readTapTreeCost]
  | succ fuel ih =>
    intro s
    simp only [readTapTreeCost]
    generalize hr : s.read1 = q
    obtain ⟨first, s1⟩ := q
    cases first with
    | none => simp
    | some c =>
      have e1 := read1_R hr
      simp only [depth_seq, depth_nest, depth_ops]
      by_cases hc : c = '{'
      · subst hc
        simp only [if_true]
        have l1 := ih s1
        cases hl : readTapTree ops fuel s1 with
        | none => simp; omega
        | some r =>
          obtain ⟨left, s2⟩ := r
          have m1 := readTapTree_mono ops hW _ _ _ _ hl
          simp only []
          generalize hr2 : s2.read1 = q2
          obtain ⟨c2, s3⟩ := q2
          cases c2 with
          | none => simp; omega
          | some c2 =>
            have e2 := read1_R hr2
            split
            · simp; omega
            · rename_i s3' heq
              simp at heq
              obtain ⟨rfl, rfl⟩ := heq
              have r1 := ih s3
              cases readTapTree ops fuel s3 <;> simp <;> omega
            · simp; omega
      · simp only [hc, if_false]
        have hu := unread_read1 hr
        simp only [hu]
        have := readMs_depth ops hW true (fuel + 1) s
        omega

theorem readFrom_depth (ops : KeyOps K) (hW : NoEmptyKey ops) (fuel : Nat) (s : Stream) (hb : s.back = []) :
    readFromCost depthAlg ops fuel s ≤ R s + 1 := by
  unfold readFromCost
  simp only [depth_seq, depth_ops]
  cases hh : readHead s with
  | none => simp
  | some r =>
    obtain ⟨hd, s1⟩ := r
    have e0 := readHead_R0 hh hb
    cases hd with
    | tr =>
      simp only []
      cases hk : readKey ops true false s1 with
      | none => simp
      | some rk =>
        obtain ⟨key, s2⟩ := rk
        have a1 := readKey_mono ops hW _ _ _ _ _ hk
        simp only []
        generalize hr : s2.read1 = q
        obtain ⟨c, s3⟩ := q
        simp only []
        by_cases hc : c = some ','
        · subst hc
          have e1 := read1_R hr
          simp only [if_true]
          have := readTapTree_depth ops hW fuel s3
          cases readTapTree ops fuel s3 <;> simp <;> omega
        · simp only [hc, if_false]
          cases s3.unread <;> simp
    | shwsh => simp only []; have := readMs_depth ops hW false fuel s1; cases readMs ops false fuel s1 <;> simp <;> omega
    | wsh => simp only []; have := readMs_depth ops hW false fuel s1; cases readMs ops false fuel s1 <;> simp <;> omega
    | sh => simp only []; have := readMs_depth ops hW false fuel s1; cases readMs ops false fuel s1 <;> simp <;> omega
    | shwpkh => simp only []; cases readKey ops false false s1 <;> simp
    | wpkh => simp only []; cases readKey ops false false s1 <;> simp
    | pkh => simp only []; cases readKey ops false false s1 <;> simp

/-- **recursion depth of `Descriptor.from_string` ≤ |text| + 1** -/
theorem parse_depth (ops : KeyOps K) (hW : NoEmptyKey ops) (text : Str) :
    parseCost depthAlg ops text ≤ text.length + 1 := by
  unfold parseCost
  have := readFrom_depth ops hW (text.length + 1) (Stream.ofStr text) rfl
  have hR : R (Stream.ofStr text) = text.length := rfl
  simp only [depth_seq, depth_ops]
  cases Desc.readFrom ops (text.length + 1) (Stream.ofStr text) <;> simp <;> omega

end Embit.Model.Cost
