import EmbitModel.Proofs.DescMs
/-
  C12 (deepening): the parser only produces NORMAL descriptors — whatever `Descriptor.from_string` accepts is an
  object that prints to a text which parses back to the very same object (`DescNormal`, the hypothesis of
  `print_parse_all`). This is the normalisation of the variant spellings: `{a,b}` → `<a;b>`, `'` / `H` → `h`,
  upper-case hex → lower case, `int()` spellings (sign, leading zeros, `_`, surrounding white space) → `%d`,
  trailing `/` in an origin or after a key, an empty wrapper list `:pk(…)`.
  What is assumed of the key codecs, in the PARSE direction, is the explicit hypothesis `KeyCodec` (C10 / C11: every
  key decoder is sound — what it accepts re-encodes to itself).
-/
set_option linter.unusedSimpArgs false
set_option linter.unusedVariables false
namespace Embit.Model.Descriptor
open Embit Embit.Miniscript

variable {K : Type}

/-! ### what is assumed of the key codecs (parse direction) -/

/-- SEC encodings `PublicKey.parse` can accept: 33 bytes starting 02 / 03, or 65 bytes starting 04 -/
def SecShape (b : Bytes) : Prop :=
  ∃ x rest, b = x :: rest ∧ ((rest.length = 32 ∧ (x = 2 ∨ x = 3)) ∨ (rest.length = 64 ∧ x = 4))

/-- the key decoders are sound: an accepted text / byte string is the one the key prints again (C10: "accepted ⇒
    re-encodes to itself", base58 canonicity included), and the class of the object is the one of the decoder -/
structure KeyCodec (ops : KeyOps K) : Prop where
  sec : ∀ b key, ops.parseSec b = some key → ops.kind key = .pub ∧ ops.sec key = b ∧ SecShape b
  xkey : ∀ s key, ops.parseXkey s = some key → ops.kind key = .xkey ∧ ops.text key = some s
  wif : ∀ s key, ops.parseWif s = some key → ops.kind key = .priv ∧ ops.text key = some s
  /-- Base58 texts of keys have at least four characters and no `[` in front -/
  textShape : ∀ s key, (ops.parseXkey s = some key ∨ ops.parseWif s = some key) → 4 ≤ s.length ∧ s.head? ≠ some '['

/-! ### lists -/

theorem mapOpt_sound {α β : Type} (f : α → Option β) : ∀ (l : List α) (l' : List β), mapOpt f l = some l' →
    l'.length = l.length ∧ ∀ y ∈ l', ∃ x ∈ l, f x = some y := by
  intro l
  induction l with
  | nil => intro l' h; simp [mapOpt] at h; subst h; simp
  | cons a r ih =>
    intro l' h
    simp only [mapOpt] at h
    cases hfa : f a with
    | none => simp [hfa] at h
    | some b =>
      cases hr : mapOpt f r with
      | none => simp [hfa, hr] at h
      | some bs =>
        simp only [hfa, hr, Option.some.injEq] at h
        subst h
        obtain ⟨h1, h2⟩ := ih bs hr
        refine ⟨by simp [h1], ?_⟩
        intro y hy
        simp at hy
        rcases hy with rfl | hy
        · exact ⟨a, by simp, hfa⟩
        · obtain ⟨x, hx, hfx⟩ := h2 y hy
          exact ⟨x, by simp [hx], hfx⟩

theorem splitOn_ne_nil (sep : Char) : ∀ (s : Str), splitOn sep s ≠ [] := by
  intro s
  induction s with
  | nil => simp [splitOn]
  | cons c r ih =>
    simp only [splitOn]
    split
    · simp
    · split <;> simp

/-! ### derivation steps: what the parser returns can be printed and read again -/

theorem parseSetElem_sound (ah : Bool) (d : Str) (x : Option Nat) (h : parseSetElem ah d = some x) :
    x = none ∨ ∃ n, x = some n ∧ ElemOk ah n := by
  unfold parseSetElem at h
  split at h
  · simp at h; exact Or.inl h.symm
  · split at h
    · rename_i f l _ _
      split at h
      · simp at h
      · simp only [] at h
        generalize (l = 'h' || l = 'H' || l = '\'') = hard at h
        split at h
        · simp at h
        · rename_i hha
          split at h
          · rename_i i hi
            split at h
            · simp at h
            · rename_i hlt
              simp only [Option.some.injEq] at h
              right
              refine ⟨_, h.symm, ?_⟩
              have hi' : i < HARDENED := by omega
              cases hard with
              | true =>
                have : ah = true := by simpa using hha
                exact ⟨by simp only [HARDENED, if_true] at hi' ⊢; omega, fun _ => this⟩
              | false =>
                refine ⟨by simp only [HARDENED] at hi' ⊢; simp; omega, ?_⟩
                intro hge
                simp only [HARDENED] at hi' hge
                simp at hge
                omega
          · simp at h
    · simp at h

theorem parseElement_sound (ah : Bool) (d : Str) (st : Step) (h : parseElement ah d = some st) : StepOk ah st := by
  have hset : ∀ (sep : Char) (inner : Str) (l : List (Option Nat)),
      mapOpt (parseSetElem ah) (splitOn sep inner) = some l → StepOk ah (.set l) := by
    intro sep inner l hl
    obtain ⟨h1, h2⟩ := mapOpt_sound _ _ _ hl
    constructor
    · intro he
      subst he
      have := splitOn_ne_nil sep inner
      cases hs : splitOn sep inner with
      | nil => exact this hs
      | cons _ _ => rw [hs] at h1; simp at h1
    · intro x hx
      obtain ⟨t, _, ht⟩ := h2 x hx
      exact parseSetElem_sound ah t x ht
  unfold parseElement at h
  split at h
  · simp at h; subst h; trivial
  · split at h
    · split at h
      · simp only [Option.map_eq_some_iff] at h
        obtain ⟨l, hl, rfl⟩ := h
        exact hset _ _ _ hl
      · split at h
        · simp only [Option.map_eq_some_iff] at h
          obtain ⟨l, hl, rfl⟩ := h
          exact hset _ _ _ hl
        · split at h
          · rename_i n hn
            simp at h; subst h
            rcases parseSetElem_sound ah d _ hn with h0 | ⟨m, hm, hok⟩
            · simp at h0
            · simp at hm; subst hm; exact hok
          · simp at h
    · simp at h

theorem parseAllowed_sound (ah : Bool) (der : Str) (ix : List Step) (h : parseAllowed ah der = some (some ix)) :
    StepsOk ah ix := by
  unfold parseAllowed at h
  split at h
  · simp at h
  · cases hm : mapOpt (parseElement ah) (splitOn '/' der) with
    | none => simp [hm] at h
    | some l =>
      simp only [hm] at h
      have hmk : mkAllowed l = some ix := by
        cases hk : mkAllowed l with
        | none => simp [hk] at h
        | some v => simp [hk] at h; subst h; rfl
      have hix : l = ix := by
        unfold mkAllowed at hmk
        split at hmk
        · simp at hmk
        · split at hmk
          · simp at hmk
          · simpa using hmk
      subst hix
      obtain ⟨h1, h2⟩ := mapOpt_sound _ _ _ hm
      refine ⟨?_, ?_, hmk⟩
      · intro he
        subst he
        have := splitOn_ne_nil '/' der
        cases hs : splitOn '/' der with
        | nil => exact this hs
        | cons _ _ => rw [hs] at h1; simp at h1
      · intro s hs
        obtain ⟨t, _, ht⟩ := h2 s hs
        exact parseElement_sound ah t s ht

/-! ### `read_until` -/

theorem readUntilAux_res (stops : List Char) : ∀ (r b res : Str) (ch : Option Char) (s' : Stream),
    readUntilAux stops b r = (res, ch, s') →
    (∀ x ∈ res, stops.contains x = false) ∧ (res = [] ∨ res.head? = r.head?) ∧ res.length ≤ r.length := by
  intro r
  induction r with
  | nil => intro b res ch s' h; simp [readUntilAux] at h; obtain ⟨rfl, _⟩ := h; simp
  | cons c r ih =>
    intro b res ch s' h
    simp only [readUntilAux] at h
    split at h
    · simp at h; obtain ⟨rfl, _⟩ := h; simp
    · rename_i hc
      cases hrec : readUntilAux stops (c :: b) r with
      | mk res1 rest1 =>
        obtain ⟨ch1, s1⟩ := rest1
        simp only [hrec, Prod.mk.injEq] at h
        obtain ⟨rfl, _, _⟩ := h
        obtain ⟨i1, _, i3⟩ := ih _ _ _ _ hrec
        refine ⟨?_, Or.inr rfl, by simp; omega⟩
        intro x hx
        simp at hx
        rcases hx with rfl | hx
        · simpa using hc
        · exact i1 x hx

theorem readUntil_res (stops : List Char) (s : Stream) (res : Str) (ch : Option Char) (s' : Stream)
    (h : readUntil stops s = (res, ch, s')) :
    (∀ x ∈ res, stops.contains x = false) ∧ (res = [] ∨ res.head? = s.rest.head?) ∧ res.length ≤ s.rest.length :=
  readUntilAux_res stops s.rest s.back res ch s' h

/-- the key text `Key.read_from` hands to `parse_key`: what precedes the first `,` `)` `/` -/
theorem readKeyBody_key (s s' : Stream) (k der : Str) (h : readKeyBody s = some (k, der, s')) :
    k = (readUntil [',', ')', '/'] s).1 := by
  unfold readKeyBody at h
  simp only [] at h
  repeat' (split at h)
  all_goals (try (simp at h; done))
  all_goals (first
    | (simp only [Option.some.injEq, Prod.mk.injEq] at h; exact h.1.symm)
    | (simp only [Option.map_eq_some_iff, Prod.mk.injEq] at h; obtain ⟨_, _, h1, _⟩ := h; exact h1.symm))

theorem readKeyBody_chars (s s' : Stream) (k der : Str) (h : readKeyBody s = some (k, der, s')) :
    (∀ x ∈ k, x ≠ ',' ∧ x ≠ ')' ∧ x ≠ '/') ∧ (k = [] ∨ k.head? = s.rest.head?) ∧ k.length ≤ s.rest.length := by
  have hk := readKeyBody_key s s' k der h
  obtain ⟨h1, h2, h3⟩ := readUntil_res [',', ')', '/'] s _ _ _ (rfl : readUntil [',', ')', '/'] s = _)
  change ∀ x ∈ (readUntil [',', ')', '/'] s).1, _ at h1
  change (readUntil [',', ')', '/'] s).1 = [] ∨ (readUntil [',', ')', '/'] s).1.head? = _ at h2
  change (readUntil [',', ')', '/'] s).1.length ≤ _ at h3
  rw [← hk] at h1 h2 h3
  refine ⟨?_, h2, h3⟩
  intro x hx
  have := h1 x hx
  simp at this
  exact ⟨this.1, this.2.1, this.2.2⟩

/-! ### key texts -/

/-- what `Key.parse_key` returns prints (as the key's own text) to something `parse_key` maps to the same result -/
theorem parseKeyText_normal (ops : KeyOps K) (hc : KeyCodec ops) (tap : Bool) (kt : Str) (kv : KeyVal K) (xo : Bool)
    (hdel : ∀ x ∈ kt, x ≠ ',' ∧ x ≠ ')' ∧ x ≠ '/')
    (h : parseKeyText ops tap kt = some (kv, xo)) (origin : Option Origin) (deriv : Option (List Step)) :
    ∃ kt', keyText ops (⟨origin, kv, deriv, xo && tap⟩ : KeyExpr K) = some kt' ∧ kt'.head? ≠ some '[' ∧ kt' ≠ [] ∧
      (∀ x ∈ kt', x ≠ ',' ∧ x ≠ ')' ∧ x ≠ '/') ∧ parseKeyText ops tap kt' = some (kv, xo && tap)
      ∧ 4 ≤ kt'.length ∧ (∃ key, kv = .obj key) ∧ (xo = true → tap = true) ∧ 4 ≤ kt.length
      ∧ (kt.length ≠ 40 → kt'.length ≠ 40) := by
  unfold parseKeyText at h
  simp only [] at h
  split at h
  · -- hex SEC
    rename_i hcond
    cases hu : unhexlify kt with
    | none => simp [hu] at h
    | some b =>
      simp only [hu, Option.map_eq_some_iff, Prod.mk.injEq] at h
      obtain ⟨key, hp, rfl, rfl⟩ := h
      obtain ⟨hkind, hsec, hshape⟩ := hc.sec b key hp
      obtain ⟨kt', a1, a2, a3, a4, a5⟩ := keyText_pub_sec ops tap false ⟨origin, .obj key, deriv, false && tap⟩ key rfl hkind
        (by simp) (by rw [hsec]; exact hshape) (by rw [hsec]; exact hp)
      have hl' : kt'.length = 66 ∨ kt'.length = 130 := by
        simp only [keyText, hkind, Bool.false_and, Bool.false_eq_true, if_false, Option.some.injEq] at a1
        rw [← a1, hexlify_length, hsec]
        obtain ⟨x, rest, rfl, hl⟩ := hshape
        simp only [List.length_cons]
        rcases hl with ⟨h32, _⟩ | ⟨h64, _⟩ <;> omega
      have hk4 : 4 ≤ kt.length := by
        simp only [Bool.and_eq_true, Bool.or_eq_true, decide_eq_true_eq] at hcond
        rcases hcond.1 with e | e <;> omega
      exact ⟨kt', a1, a2, a3, a4, by simpa using a5, by rcases hl' with e | e <;> omega, ⟨key, rfl⟩, by simp, hk4,
        fun _ => by rcases hl' with e | e <;> omega⟩
  · rename_i hnot
    split at h
    · -- x-only
      rename_i htap
      simp only [Bool.and_eq_true, decide_eq_true_eq] at htap
      obtain ⟨htap, hlen⟩ := htap
      subst htap
      cases hu : unhexlify kt with
      | none => simp [hu] at h
      | some b =>
        simp only [hu, Option.map_eq_some_iff, Prod.mk.injEq] at h
        obtain ⟨key, hp, rfl, rfl⟩ := h
        obtain ⟨hkind, hsec, hshape⟩ := hc.sec (0x02 :: b) key hp
        have hb : b.length = 32 := by
          obtain ⟨x, rest, he, hl⟩ := hshape
          simp only [List.cons.injEq] at he
          obtain ⟨rfl, rfl⟩ := he
          rcases hl with ⟨h32, _⟩ | ⟨_, h4⟩
          · exact h32
          · exact absurd h4 (by decide)
        have htk : ((ops.sec key).drop 1).take 32 = b := by rw [hsec]; simp [← hb]
        refine ⟨hexlify b, by simp only [keyText, hkind, Bool.and_self, if_true, htk], ?_, ?_, ?_, ?_, by rw [hexlify_length]; omega, ⟨key, rfl⟩,
          fun _ => rfl, by omega, fun _ => by rw [hexlify_length]; omega⟩
        · cases b with
          | nil => simp at hb
          | cons x xs =>
            rw [hexlify_cons]
            have h1 : x.toNat / 16 < 16 := by have := x.toNat_lt; omega
            have := isHex_not_delim _ (hexDigit_isHex _ h1)
            simp only [List.head?_cons, ne_eq, Option.some.injEq]
            exact this.2.2.2
        · cases b with
          | nil => simp at hb
          | cons x xs => rw [hexlify_cons]; simp
        · intro c hcc
          have := isHex_not_delim c (hexlify_chars _ c hcc)
          exact ⟨this.1, this.2.1, this.2.2.1⟩
        · unfold parseKeyText
          have hl : (hexlify b).length = 64 := by rw [hexlify_length]; omega
          simp only [hl, unhexlify_hexlify, hp]
          have e1 : (decide ((64 : Nat) = 66) || decide ((64 : Nat) = 130)) = false := by decide
          simp only [e1, Bool.false_and, Bool.false_eq_true, if_false, decide_true, Bool.and_self, if_true,
            Option.map_some]
    · rename_i hnot2
      split at h
      · -- xpub / xprv
        rename_i hmid
        simp only [Option.map_eq_some_iff, Prod.mk.injEq] at h
        obtain ⟨key, hp, rfl, rfl⟩ := h
        obtain ⟨hkind, htext⟩ := hc.xkey kt key hp
        obtain ⟨hl, hh⟩ := hc.textShape kt key (Or.inl hp)
        refine ⟨kt, by simp [keyText, hkind, htext], hh, ?_, hdel, ?_, hl, ⟨key, rfl⟩, by simp, hl, fun e => e⟩
        · intro he; subst he; simp at hl
        · simp only [Bool.false_and]
          unfold parseKeyText
          simp only []
          rw [if_neg hnot, if_neg hnot2, if_pos hmid]
          simp [hp]
      · rename_i hmid
        simp only [Option.map_eq_some_iff, Prod.mk.injEq] at h
        obtain ⟨key, hp, rfl, rfl⟩ := h
        obtain ⟨hkind, htext⟩ := hc.wif kt key hp
        obtain ⟨hl, hh⟩ := hc.textShape kt key (Or.inr hp)
        refine ⟨kt, by simp [keyText, hkind, htext], hh, ?_, hdel, ?_, hl, ⟨key, rfl⟩, by simp, hl, fun e => e⟩
        · intro he; subst he; simp at hl
        · simp only [Bool.false_and]
          unfold parseKeyText
          simp only []
          rw [if_neg hnot, if_neg hnot2, if_neg hmid]
          simp [hp]

/-! ### `Key.read_from` -/

theorem parseOrigin_sound (t : Str) (o : Origin) (h : parseOrigin t = some o) : OriginOk o := by
  unfold parseOrigin at h
  split at h
  · simp at h
  · split at h
    · simp at h
    · split at h
      · simp at h
      · rename_i hl
        simp only [Option.map_eq_some_iff] at h
        obtain ⟨p, _, rfl⟩ := h
        simpa [OriginOk] using hl

/-- MAIN (keys): whatever `Key.read_from` / `KeyHash.read_from` returns is a normal key expression -/
theorem readKey_normal (ops : KeyOps K) (hc : KeyCodec ops) (tap hash : Bool) (s s' : Stream) (k : KeyExpr K)
    (h : readKey ops tap hash s = some (k, s')) :
    KeyNormal ops tap hash k ∧ (hash = false → ∀ t, showKey ops k = some t → t.length ≥ 4) := by
  unfold readKey at h
  simp only [] at h
  -- origin and the stream after it
  split at h
  · simp at h
  · rename_i origin s2 hos
    split at h
    · simp at h
    · rename_i kt der s3 hbody
      obtain ⟨hdel, hhead, hklen⟩ := readKeyBody_chars s2 s3 kt der hbody
      split at h
      · simp at h
      · rename_i kv xo hkey
        split at h
        · simp at h
        · rename_i derivation hder
          split at h
          · simp at h
          · rename_i hcheck
            simp only [Option.some.injEq, Prod.mk.injEq] at h
            obtain ⟨rfl, _⟩ := h
            -- the origin
            have horigin : (∀ o, origin = some o → OriginOk o) ∧
                (origin = none → (kt = [] ∨ kt.head? ≠ some '[') ∨ kt.length ≤ 1) := by
              split at hos
              · rename_i hfirst
                split at hos
                · simp at hos
                · simp only [Option.map_eq_some_iff, Prod.mk.injEq] at hos
                  obtain ⟨o, ho, rfl, _⟩ := hos
                  refine ⟨fun o' e => (by cases e; exact parseOrigin_sound _ _ ho), fun e => (by cases e)⟩
              · rename_i hfirst
                simp only [Option.map_eq_some_iff, Prod.mk.injEq] at hos
                obtain ⟨s2', hun, rfl, rfl⟩ := hos
                refine ⟨fun o e => (by cases e), fun _ => ?_⟩
                obtain ⟨b, r⟩ := s
                cases r with
                | nil =>
                  -- end of stream: `seek(-1, 1)` steps back over the previous character
                  right
                  cases b with
                  | nil => simp [Stream.read1, Stream.unread] at hun
                  | cons c b' =>
                    simp [Stream.read1, Stream.unread] at hun
                    subst hun
                    simpa using hklen
                | cons c r =>
                  left
                  simp only [Stream.read1] at hfirst hun
                  simp [Stream.unread] at hun
                  subst hun
                  have hc0 : c ≠ '[' := by simpa using hfirst
                  rcases hhead with e | e
                  · exact Or.inl e
                  · right; rw [e]; simpa using hc0
            -- derivation
            have hderiv : ∀ ix, derivation = some ix → kv.hasDerive ops = true ∧ StepsOk (kv.allowHardened ops) ix := by
              intro ix e
              subst e
              refine ⟨?_, parseAllowed_sound _ _ _ hder⟩
              cases hd : kv.hasDerive ops with
              | true => rfl
              | false => simp [hd] at hcheck
            cases hash with
            | false =>
              simp only [Bool.false_eq_true, if_false] at hkey
              obtain ⟨kt', t1, t2, t3, t4, t5, t6, _, t8, t9, _⟩ :=
                parseKeyText_normal ops hc tap kt kv xo hdel hkey origin derivation
              refine ⟨⟨horigin.1, ⟨kt', t1, fun _ => t2, t3, t4, by simpa using t5⟩, ?_, hderiv⟩, ?_⟩
              · intro hx
                simp only [Bool.and_eq_true] at hx
                exact hx.2
              · intro _ t ht
                rw [showKey_eq ops _ kt' t1 (fun ix hix => (hderiv ix hix).1)] at ht
                simp only [Option.map_eq_some_iff] at ht
                obtain ⟨suf, _, rfl⟩ := ht
                simp only [List.length_append]
                omega
            | true =>
              simp only [if_true] at hkey
              unfold parseKeyHashText at hkey
              split at hkey
              · -- a raw 40-character hash, taken verbatim
                rename_i h40
                -- (fix keyhash-raw-hex) … and only when `unhexlify` takes it
                cases hhex : unhexlify kt with
                | none => simp [hhex] at hkey
                | some hb =>
                simp only [hhex, Option.some.injEq, Prod.mk.injEq] at hkey
                obtain ⟨rfl, rfl⟩ := hkey
                refine ⟨⟨horigin.1, ⟨kt, rfl, ?_, ?_, hdel, ?_⟩, by simp, hderiv⟩, fun e => by cases e⟩
                · intro ho
                  rcases horigin.2 ho with (e | e) | e
                  · subst e; simp at h40
                  · exact e
                  · omega
                · intro e; subst e; simp at h40
                · simp [parseKeyHashText, h40, hhex]
              · rename_i h40
                obtain ⟨kt', t1, t2, t3, t4, t5, t6, _, t8, t9, t10⟩ :=
                  parseKeyText_normal ops hc tap kt kv xo hdel hkey origin derivation
                refine ⟨⟨horigin.1, ⟨kt', t1, fun _ => t2, t3, t4, ?_⟩, ?_, hderiv⟩, fun e => by cases e⟩
                · simp only [if_true, parseKeyHashText]
                  rw [if_neg (t10 h40)]
                  simpa using t5
                · intro hx
                  simp only [Bool.and_eq_true] at hx
                  exact hx.2

/-! ### `Miniscript.read_from` -/

theorem ofHexChars_length : ∀ (n : Nat) (t : Str) (b : Bytes), t.length ≤ n → ofHexChars t = some b →
    t.length = 2 * b.length := by
  intro n
  induction n with
  | zero =>
    intro t b hl h
    have : t = [] := by cases t with
      | nil => rfl
      | cons _ _ => simp at hl
    subst this
    simp [ofHexChars] at h; subst h; rfl
  | succ n ih =>
    intro t b hl h
    match t, h with
    | [], h => simp [ofHexChars] at h; subst h; rfl
    | [_], h => simp [ofHexChars] at h
    | a :: c :: rest, h =>
      simp only [ofHexChars] at h
      cases ha : hexVal a with
      | none => simp [ha] at h
      | some x =>
        cases hb : hexVal c with
        | none => simp [ha, hb] at h
        | some y =>
          cases hr : ofHexChars rest with
          | none => simp [ha, hb, hr] at h
          | some r =>
            simp [ha, hb, hr] at h
            subst h
            have := ih rest r (by simp at hl; omega) hr
            simp [this]; omega

theorem readN_length : ∀ (n : Nat) (s : Stream), (s.readN n).1.length ≤ n := by
  intro n
  induction n with
  | zero => intro s; simp [Stream.readN]
  | succ n ih =>
    intro s
    obtain ⟨b, r⟩ := s
    cases r with
    | nil => simp [Stream.readN]
    | cons c r =>
      simp only [Stream.readN]
      have := ih ⟨c :: b, r⟩
      cases hh : Stream.readN n ⟨c :: b, r⟩ with
      | mk x s' => rw [hh] at this; simp at this ⊢; omega

theorem readRaw_length (len : Nat) (s s' : Stream) (h : Bytes) (hr : readRaw len s = some (h, s')) :
    h.length = len := by
  unfold readRaw at hr
  cases hh : s.readN (2 * len) with
  | mk t s1 =>
    simp only [hh] at hr
    split at hr
    · simp at hr
    · rename_i hl
      simp only [Option.map_eq_some_iff, Prod.mk.injEq] at hr
      obtain ⟨b, hb, rfl, _⟩ := hr
      have := ofHexChars_length t.length t b (Nat.le_refl _) hb
      simp at hl
      omega

theorem readMore_all {α : Type} (p : Stream → Option (α × Stream)) (P : α → Prop)
    (hp : ∀ s x s', p s = some (x, s') → P x) :
    ∀ (fuel : Nat) (s : Stream) (xs : List α) (s' : Stream), readMore p fuel s = some (xs, s') → ∀ x ∈ xs, P x := by
  intro fuel
  induction fuel with
  | zero => intro s xs s' h; simp [readMore] at h
  | succ n ih =>
    intro s xs s' h
    simp only [readMore] at h
    split at h
    · rename_i s1 _
      split at h
      · simp at h
      · rename_i x s2 hx
        split at h
        · simp at h
        · rename_i xs' s3 hrec
          simp only [Option.some.injEq, Prod.mk.injEq] at h
          obtain ⟨rfl, _⟩ := h
          intro y hy
          simp at hy
          rcases hy with rfl | hy
          · exact hp _ _ _ hx
          · exact ih _ _ _ hrec y hy
    · simp at h; obtain ⟨rfl, _⟩ := h; simp
    · simp at h

theorem MsNormalL_of_forall {ops : KeyOps K} {tap : Bool} : ∀ (xs : List (DMs K)),
    (∀ x ∈ xs, MsNormal ops tap x) → MsNormalL ops tap xs := by
  intro xs
  induction xs with
  | nil => intro _; trivial
  | cons x r ih =>
    intro h
    exact ⟨h x (by simp), ih (fun y hy => h y (by simp [hy]))⟩

theorem applyWrappers_normal {ops : KeyOps K} {tap : Bool} : ∀ (ws : Str) (e e' : DMs K),
    applyWrappers ws e = some e' → MsNormal ops tap e → MsNormal ops tap e' := by
  intro ws
  induction ws with
  | nil => intro e e' h hn; simp [applyWrappers] at h; subst h; exact hn
  | cons c r ih =>
    intro e e' h hn
    simp only [applyWrappers] at h
    split at h
    · rename_i inner w hi _
      simp at h; subst h
      simp only [MsNormal]
      exact ih e inner hi hn
    · simp at h

theorem readMsBody_normal (ops : KeyOps K) (hc : KeyCodec ops) (tap : Bool) (sub : Stream → Option (DMs K × Stream))
    (hsub : ∀ s x s', sub s = some (x, s') → MsNormal ops tap x) (fuel : Nat) (op : Str) (s s' : Stream) (e : DMs K)
    (h : readMsBody ops tap sub fuel op s = some (e, s')) : MsNormal ops tap e := by
  unfold readMsBody at h
  split at h
  · -- key fragments
    rename_i f _
    simp only [] at h
    split at h
    · simp at h
    · rename_i k s1 hk
      simp only [Option.map_eq_some_iff, Prod.mk.injEq] at h
      obtain ⟨_, _, rfl, _⟩ := h
      simp only [MsNormal]
      exact (readKey_normal ops hc tap _ _ _ k hk).1
  · split at h
    · split at h
      · simp at h
      · simp only [Option.map_eq_some_iff, Prod.mk.injEq] at h
        obtain ⟨_, _, rfl, _⟩ := h
        trivial
    · split at h
      · rename_i f _
        split at h
        · simp at h
        · rename_i hh s1 hr
          simp only [Option.map_eq_some_iff, Prod.mk.injEq] at h
          obtain ⟨_, _, rfl, _⟩ := h
          simp only [MsNormal]
          exact readRaw_length _ _ _ _ hr
      · split at h
        · -- andor
          split at h
          · simp at h
          rename_i x s1 hx
          split at h
          · simp at h
          split at h
          · simp at h
          rename_i y s3 hy
          split at h
          · simp at h
          split at h
          · simp at h
          rename_i z s5 hz
          simp only [Option.map_eq_some_iff, Prod.mk.injEq] at h
          obtain ⟨_, _, rfl, _⟩ := h
          exact ⟨hsub _ _ _ hx, hsub _ _ _ hy, hsub _ _ _ hz⟩
        · split at h
          · split at h
            · simp at h
            rename_i x s1 hx
            split at h
            · simp at h
            split at h
            · simp at h
            rename_i y s3 hy
            simp only [Option.map_eq_some_iff, Prod.mk.injEq] at h
            obtain ⟨_, _, rfl, _⟩ := h
            exact ⟨hsub _ _ _ hx, hsub _ _ _ hy⟩
          · split at h
            · -- thresh
              split at h
              · simp at h
              · split at h
                · simp at h
                · rename_i xs s2 hm
                  simp only [Option.some.injEq, Prod.mk.injEq] at h
                  obtain ⟨rfl, _⟩ := h
                  simp only [MsNormal]
                  exact MsNormalL_of_forall xs (readMore_all sub _ hsub fuel _ _ _ hm)
            · split at h
              · rename_i f _
                split at h
                · simp at h
                · split at h
                  · simp at h
                  · rename_i keys s2 hm
                    split at h
                    · rename_i hmt
                      simp only [Option.some.injEq, Prod.mk.injEq] at h
                      obtain ⟨rfl, _⟩ := h
                      simp only [MsNormal]
                      refine ⟨by simpa using hmt, ?_⟩
                      exact readMore_all (readKey ops tap false) _
                        (fun s x s' hx => (readKey_normal ops hc tap false s s' x hx).1) fuel _ _ _ hm
                    · simp at h
              · simp at h

/-- MAIN (miniscript): whatever `Miniscript.read_from` returns is a normal expression -/
theorem readMs_normal (ops : KeyOps K) (hc : KeyCodec ops) (tap : Bool) : ∀ (fuel : Nat) (s s' : Stream) (e : DMs K),
    readMs ops tap fuel s = some (e, s') → MsNormal ops tap e := by
  intro fuel
  induction fuel with
  | zero => intro s s' e h; simp [readMs] at h
  | succ n ih =>
    intro s s' e h
    simp only [readMs] at h
    split at h
    · simp at h
    · rename_i wrappers op _
      split at h
      · simp at h
      · split at h
        · simp at h
        · rename_i e0 s1 hb
          simp only [Option.map_eq_some_iff, Prod.mk.injEq] at h
          obtain ⟨e1, hw, rfl, _⟩ := h
          exact applyWrappers_normal wrappers e0 e1 hw
            (readMsBody_normal ops hc tap _ (fun s x s' hx => ih s s' x hx) n op _ _ e0 hb)

/-! ### tap trees, descriptors -/

/-- `TapTree.read_from` returns an empty tree only at the end of the stream (where every caller then fails);
    otherwise a tree of accepted normal leaves without empty sub-trees -/
theorem readTapTree_normal (ops : KeyOps K) (hc : KeyCodec ops) : ∀ (fuel : Nat) (s s' : Stream) (t : TapTree K),
    readTapTree ops fuel s = some (t, s') → (t = .empty ∧ s'.rest = []) ∨ TreeNormal ops t := by
  intro fuel
  induction fuel with
  | zero => intro s s' t h; simp [readTapTree] at h
  | succ n ih =>
    intro s s' t h
    simp only [readTapTree] at h
    split at h
    · -- end of stream
      rename_i s1 hr
      simp only [Option.some.injEq, Prod.mk.injEq] at h
      obtain ⟨rfl, rfl⟩ := h
      left
      refine ⟨rfl, ?_⟩
      obtain ⟨b, r⟩ := s
      cases r with
      | nil => simp [Stream.read1] at hr; rw [← hr]
      | cons c r => simp [Stream.read1] at hr
    · rename_i c s1 hr
      split at h
      · -- `{`
        split at h
        · simp at h
        · rename_i left s2 hl
          have hleft := ih _ _ _ hl
          split at h
          · rename_i s3 hr2
            simp only [Option.some.injEq, Prod.mk.injEq] at h
            obtain ⟨rfl, rfl⟩ := h
            rcases hleft with ⟨_, he⟩ | hn
            · obtain ⟨b2, r2⟩ := s2
              simp only at he
              subst he
              simp [Stream.read1] at hr2
            · exact Or.inr hn
          · rename_i s3 hr2
            split at h
            · simp at h
            · rename_i right s4 hrt
              have hright := ih _ _ _ hrt
              simp only [Option.map_eq_some_iff, Prod.mk.injEq] at h
              obtain ⟨s5, hex, rfl, rfl⟩ := h
              right
              rcases hleft with ⟨_, he⟩ | hnl
              · obtain ⟨b2, r2⟩ := s2
                simp only at he
                subst he
                simp [Stream.read1] at hr2
              · rcases hright with ⟨_, he⟩ | hnr
                · obtain ⟨b4, r4⟩ := s4
                  simp only at he
                  subst he
                  simp [expectChar, Stream.read1] at hex
                · exact ⟨hnl, hnr⟩
          · simp at h
      · -- a leaf
        split at h
        · simp at h
        · rename_i s2 _
          split at h
          · simp at h
          · rename_i ms s3 hms
            split at h
            · rename_i hacc
              simp only [Option.some.injEq, Prod.mk.injEq] at h
              obtain ⟨rfl, rfl⟩ := h
              exact Or.inr ⟨readMs_normal ops hc true _ _ _ _ hms, hacc⟩
            · simp at h

/-- MAIN: whatever `Descriptor.read_from` returns is a normal descriptor -/
theorem readFrom_normal (ops : KeyOps K) (hc : KeyCodec ops) (fuel : Nat) (s s' : Stream) (d : Desc K)
    (h : Desc.readFrom ops fuel s = some (d, s')) : DescNormal ops d := by
  unfold Desc.readFrom at h
  split at h
  · simp at h
  · -- tr
    rename_i s1 _
    split at h
    · simp at h
    · rename_i key s2 hk
      obtain ⟨hkn, hlen⟩ := readKey_normal ops hc true false _ _ key hk
      simp only [] at h
      split at h
      · simp at h
      · rename_i tree s3 htt
        simp only [Option.map_eq_some_iff, Prod.mk.injEq] at h
        obtain ⟨s4, hclose, rfl, _⟩ := h
        split at htt
        · -- with a tree
          rcases readTapTree_normal ops hc _ _ _ _ htt with ⟨_, he⟩ | hn
          · obtain ⟨b3, r3⟩ := s3
            simp only at he
            subst he
            simp [expectClose, expectChar, Stream.read1] at hclose
          · exact .trTree key tree hkn (hlen rfl) hn
        · simp only [Option.map_eq_some_iff, Prod.mk.injEq] at htt
          obtain ⟨_, _, rfl, _⟩ := htt
          exact .keyForm .tr key hkn (hlen rfl)
  · -- sh(wsh(M))
    split at h
    · simp at h
    · rename_i ms s2 hm
      split at h
      · simp at h
      · split at h
        · rename_i hacc
          simp only [Option.some.injEq, Prod.mk.injEq] at h
          obtain ⟨rfl, _⟩ := h
          exact .msForm .shwsh ms (readMs_normal ops hc false _ _ _ _ hm) hacc
        · simp at h
  · -- wsh(M)
    split at h
    · simp at h
    · rename_i ms s2 hm
      split at h
      · simp at h
      · split at h
        · rename_i hacc
          simp only [Option.some.injEq, Prod.mk.injEq] at h
          obtain ⟨rfl, _⟩ := h
          exact .msForm .wsh ms (readMs_normal ops hc false _ _ _ _ hm) hacc
        · simp at h
  · -- sh(M)
    split at h
    · simp at h
    · rename_i ms s2 hm
      split at h
      · simp at h
      · split at h
        · rename_i hacc
          simp only [Option.some.injEq, Prod.mk.injEq] at h
          obtain ⟨rfl, _⟩ := h
          exact .msForm .sh ms (readMs_normal ops hc false _ _ _ _ hm) hacc
        · simp at h
  · -- sh(wpkh(K))
    split at h
    · simp at h
    · rename_i key s2 hk
      obtain ⟨hkn, hlen⟩ := readKey_normal ops hc false false _ _ key hk
      simp only [Option.map_eq_some_iff, Prod.mk.injEq] at h
      obtain ⟨_, _, rfl, _⟩ := h
      exact .keyForm .shwpkh key hkn (hlen rfl)
  · -- wpkh(K)
    split at h
    · simp at h
    · rename_i key s2 hk
      obtain ⟨hkn, hlen⟩ := readKey_normal ops hc false false _ _ key hk
      simp only [Option.map_eq_some_iff, Prod.mk.injEq] at h
      obtain ⟨_, _, rfl, _⟩ := h
      exact .keyForm .wpkh key hkn (hlen rfl)
  · -- pkh(K)
    split at h
    · simp at h
    · rename_i key s2 hk
      obtain ⟨hkn, hlen⟩ := readKey_normal ops hc false false _ _ key hk
      simp only [Option.map_eq_some_iff, Prod.mk.injEq] at h
      obtain ⟨_, _, rfl, _⟩ := h
      exact .keyForm .pkh key hkn (hlen rfl)

theorem parse_normal (ops : KeyOps K) (hc : KeyCodec ops) (t : Str) (d : Desc K) (h : Desc.parse ops t = some d) :
    DescNormal ops d := by
  unfold Desc.parse at h
  split at h
  · simp at h
  · rename_i d' s hr
    have hn := readFrom_normal ops hc _ _ _ _ hr
    split at h
    · simp at h; subst h; exact hn
    · split at h
      · simp at h; subst h; exact hn
      · simp at h

/-- PARSE then PRINT then PARSE: the printed text of a parsed descriptor is accepted and parses to the same object -/
theorem parse_print_parse (ops : KeyOps K) (hc : KeyCodec ops) (t : Str) (d : Desc K) (h : Desc.parse ops t = some d) :
    ∃ text, d.print ops = some text ∧ Desc.parse ops text = some d :=
  print_parse_all ops d (parse_normal ops hc t d h)

end Embit.Model.Descriptor
