import EmbitModel.Proofs.SecpCardBound
import EmbitModel.Proofs.EcBridge
/-
  Consequences of `ord G = n` alone (no cardinality needed) for the record `pyEcOps C n g`:
  `InfUnique` — the extra law the bridge to the key development (C09 / C10, Props/C02Y) needs — and
  "no point of order two" in the form used by Props/C08Z.
-/
namespace Embit.Model.PyCurve
open WeierstrassCurve

variable (C : Curve) [Fact C.p.Prime] {n : ℕ} {g : APt C}

/-- **`InfUnique` for key.py's arithmetic**: `a·G` has no affine coordinates only when `n ∣ a` (`ord G = n`) -/
theorem py_infUnique (hp : Params C n g) : SignWith.InfUnique (pyEcOps C n g) := by
  intro a h
  have h' : eXY C (eMul C n a g) = none := h
  rw [xy_val, val_none_iff, ι_mul_g C hp] at h'
  have hd := addOrderOf_dvd_of_nsmul_eq_zero h'
  rw [addOrderOf_g C hp] at hd
  exact Nat.mod_eq_zero_of_dvd hd

/-- no point of order two when `x³ + a x + b` has no root -/
theorem no_two_torsion (hs : Smooth C)
    (hroot : ∀ x : ZMod C.p, x ^ 3 + (C.a : ZMod C.p) * x + (C.b : ZMod C.p) ≠ 0)
    (P : (W C).toAffine.Point) (h2 : 2 • P = 0) : P = 0 := by
  by_contra h0
  obtain ⟨x, hx⟩ := two_torsion_y C hs P h0 h2
  exact hroot x hx

end Embit.Model.PyCurve
