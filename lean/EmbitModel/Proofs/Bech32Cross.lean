import EmbitModel.Proofs.CrossAll
import EmbitModel.Proofs.Bech32DetectStr
import EmbitModel.Proofs.Bech32Spec
/-
  The cross-variant neighbours of a bech32 data part of 59 symbols (witness version, 32-byte program, checksum):
  if two such data parts under the same human-readable part verify for *different* checksum constants (BECH32 vs
  BECH32M), their version symbols differ by XOR 1 and they differ in at most four symbols, then their difference
  is one fixed pattern (`crossPattern`). From the rank computations of `Proofs/Cross/Part*.lean`.
-/
namespace Embit.Model.Bech32.Cross
open Embit Gf2 Detect

/-! ### generic list facts -/

theorem synG_append (a b : List Nat) (A B : List (List Nat)) (h : a.length = A.length) :
    synG (a ++ b) (A ++ B) = synG a A ^^^ synG b B := by
  induction a generalizing A with
  | nil =>
    cases A with
    | nil => simp [synG]
    | cons _ _ => simp at h
  | cons x xs ih =>
    cases A with
    | nil => simp at h
    | cons g G =>
      simp only [List.cons_append, synG, ih G (by simpa using h), Nat.xor_assoc]

theorem weight_append (a b : List Nat) : weight (a ++ b) = weight a + weight b := by
  induction a with
  | nil => simp [weight]
  | cons x xs ih => simp [weight, ih]; omega

theorem split_at {α : Type} (l : List α) (n : Nat) (h : n < l.length) :
    ∃ A x B, l = A ++ x :: B ∧ A.length = n ∧ B.length = l.length - n - 1 := by
  refine ⟨l.take n, l[n], l.drop (n + 1), ?_, ?_, ?_⟩
  · conv => lhs; rw [← List.take_append_drop n l]
    rw [List.drop_eq_getElem_cons h]
  · simp; omega
  · simp; omega

theorem zeros_of_weight (l : List Nat) (h : weight l = 0) : l = List.replicate l.length 0 := by
  have := weight_zero l h
  exact List.eq_replicate_iff.mpr ⟨rfl, this⟩

theorem comb_bits5_zero (g : List Nat) : comb (bits5 0) g = 0 :=
  comb_all_false _ _ (by simp [bits5_zero])

theorem weight_le_one (x : Nat) : (if x = 0 then 0 else 1) ≤ 1 := by split <;> omega

/-! ### the three exceptional groups -/

theorem triple_unique (a b c : Nat) (ha : a < 32) (hb : b < 32) (hc : c < 32)
    (h : comb (bits5 a) eX ^^^ (comb (bits5 b) eY ^^^ comb (bits5 c) eZ) = 0) :
    (a = 0 ∧ b = 0 ∧ c = 0) ∨ (a = valX ∧ b = valY ∧ c = valZ) := by
  have := tripleCheck_eq
  unfold tripleCheck at this
  simp only [List.all_eq_true, List.mem_range] at this
  have := this a ha b hb c hc
  rw [h] at this
  simpa [and_assoc] using this

/-- two of the three exceptional symbols plus the 55 ordinary ones: weight ≤ 3 and zero syndrome modulo `Tp`
    force the zero word -/
theorem two_of_three (gx gy : List Nat) (hgood : Good 3 (gx :: gy :: others)) (x y : Nat) (rest : List Nat)
    (hx : x < 32) (hy : y < 32) (hrest : ∀ v ∈ rest, v < 32) (hlen : rest.length = 55)
    (hw : weight (x :: y :: rest) ≤ 3)
    (hs : comb (bits5 x) gx ^^^ (comb (bits5 y) gy ^^^ synG rest others) = 0) :
    x = 0 ∧ y = 0 ∧ ∀ v ∈ rest, v = 0 := by
  have := hgood (x :: y :: rest) (by simp [hlen, others_length])
    (by intro v hv; simp at hv; rcases hv with rfl | rfl | hv; exact hx; exact hy; exact hrest v hv) hw
    (by simpa [synG] using hs)
  exact ⟨this x (by simp), this y (by simp), fun v hv => this v (by simp [hv])⟩

theorem Tp_ne_zero : Tp ≠ 0 := by decide

/-! ### the core: 58 symbols in offset order, followed by the version symbol 1 -/

theorem synR_snoc_one (r : List Nat) : synR (r ++ [1]) = polymodFrom 1 (List.replicate r.length 0) ^^^ synR r := by
  unfold synR
  have e : (r ++ [1]).reverse = 1 :: r.reverse := by simp
  rw [e]
  have : polymodFrom 0 (1 :: r.reverse) = polymodFrom 1 r.reverse := by
    simp [polymodFrom, step_zero_left]
  rw [this, polymodFrom_split 1 r.reverse]
  simp

theorem cross_core (r : List Nat) (hl : r.length = N) (hlt : ∀ x ∈ r, x < 32) (hw : weight r ≤ 3)
    (hs : synR (r ++ [1]) = crossT) : r = patLit := by
  -- homogenise
  have h1 : synR r = Tp := by
    rw [synR_snoc_one, hl] at hs
    have := xor_cancel_left hs
    rw [this, Nat.xor_comm]; exact Tp_eq
  have h2 : synG r tableLit = Tp := by
    rw [← table_eq, synG_table N r (Nat.le_of_eq hl) hlt]; exact h1
  have h3 : synG r QLit = 0 :=
    (reduceByN_sound 1 [Tp] tableLit QLit reduce_eq [true] (by simp) r (by simp [comb, h2])).1
  obtain ⟨lA, lB, lC, lD⟩ := piece_lengths
  -- split the word around the three exceptional offsets
  obtain ⟨A, a, R1, e1, hA, hR1⟩ := split_at r 16 (by rw [hl]; decide)
  rw [hl] at hR1
  obtain ⟨B, b, R2, e2, hB, hR2⟩ := split_at R1 19 (by rw [hR1]; decide)
  rw [hR1] at hR2
  obtain ⟨C, c, D, e3, hC, hD⟩ := split_at R2 8 (by rw [hR2]; decide)
  rw [hR2] at hD
  subst e3; subst e2; subst e1
  have hN : N = 58 := rfl
  simp only [hN] at hD
  have ha : a < 32 := hlt a (by simp)
  have hb : b < 32 := hlt b (by simp)
  have hc : c < 32 := hlt c (by simp)
  have hAlt : ∀ v ∈ A, v < 32 := fun v hv => hlt v (by simp [hv])
  have hBlt : ∀ v ∈ B, v < 32 := fun v hv => hlt v (by simp [hv])
  have hClt : ∀ v ∈ C, v < 32 := fun v hv => hlt v (by simp [hv])
  have hDlt : ∀ v ∈ D, v < 32 := fun v hv => hlt v (by simp [hv])
  -- the syndrome in pieces
  have hsyn : synG A QA ^^^ (comb (bits5 a) eX ^^^ (synG B QB ^^^ (comb (bits5 b) eY ^^^
      (synG C QC ^^^ (comb (bits5 c) eZ ^^^ synG D QD))))) = 0 := by
    have := h3
    unfold QLit at this
    rw [synG_append A _ QA _ (by rw [hA, lA])] at this
    simp only [synG] at this
    rw [synG_append B _ QB _ (by rw [hB, lB])] at this
    simp only [synG] at this
    rw [synG_append C _ QC _ (by rw [hC, lC])] at this
    simp only [synG] at this
    exact this
  have hrest : synG (A ++ (B ++ (C ++ D))) others
      = synG A QA ^^^ (synG B QB ^^^ (synG C QC ^^^ synG D QD)) := by
    unfold others
    rw [synG_append A _ QA _ (by rw [hA, lA]), synG_append B _ QB _ (by rw [hB, lB]),
      synG_append C _ QC _ (by rw [hC, lC])]
  have hrlen : (A ++ (B ++ (C ++ D))).length = 55 := by simp [hA, hB, hC, hD]
  have hrlt : ∀ v ∈ A ++ (B ++ (C ++ D)), v < 32 := by
    intro v hv
    simp only [List.mem_append] at hv
    rcases hv with hv | hv | hv | hv
    · exact hAlt v hv
    · exact hBlt v hv
    · exact hClt v hv
    · exact hDlt v hv
  have hwt : weight A + ((if a = 0 then 0 else 1) + (weight B + ((if b = 0 then 0 else 1)
      + (weight C + ((if c = 0 then 0 else 1) + weight D))))) ≤ 3 := by
    simpa [weight_append, weight] using hw
  have hwrest : weight (A ++ (B ++ (C ++ D))) = weight A + (weight B + (weight C + weight D)) := by
    simp [weight_append]
  -- if the whole word were zero its syndrome would be zero
  have hzero : (∀ v ∈ A ++ (B ++ (C ++ D)), v = 0) → a = 0 → b = 0 → c = 0 → False := by
    intro hz ha0 hb0 hc0
    have hall : ∀ v ∈ A ++ a :: (B ++ b :: (C ++ c :: D)), v = 0 := by
      intro v hv
      simp only [List.mem_append, List.mem_cons] at hv
      rcases hv with hv | rfl | hv | rfl | hv | rfl | hv
      · exact hz v (by simp [hv])
      · exact ha0
      · exact hz v (by simp [hv])
      · exact hb0
      · exact hz v (by simp [hv])
      · exact hc0
      · exact hz v (by simp [hv])
    rw [synG_all_zero _ _ hall] at h2
    exact Tp_ne_zero h2.symm
  generalize hsA : synG A QA = sA at hsyn hrest
  generalize hsB : synG B QB = sB at hsyn hrest
  generalize hsC : synG C QC = sC at hsyn hrest
  generalize hsD : synG D QD = sD at hsyn hrest
  generalize hca : comb (bits5 a) eX = ca at hsyn
  generalize hcb : comb (bits5 b) eY = cb at hsyn
  generalize hcc : comb (bits5 c) eZ = cc at hsyn
  have wa := weight_le_one a
  have wb := weight_le_one b
  have wc := weight_le_one c
  by_cases hc0 : c = 0
  · exfalso
    have hcc0 : cc = 0 := by rw [← hcc, hc0]; exact comb_bits5_zero _
    have hs' : ca ^^^ (cb ^^^ synG (A ++ (B ++ (C ++ D))) others) = 0 := by
      rw [hrest, ← hsyn, hcc0, Nat.zero_xor]; ac_rfl
    obtain ⟨xa, xb, xr⟩ := two_of_three eX eY good_lxy a b _ ha hb hrlt hrlen
      (by simp only [weight, hwrest]; simp only [hc0, if_true] at hwt; omega) (by rw [hca, hcb]; exact hs')
    exact hzero xr xa xb hc0
  by_cases hb0 : b = 0
  · exfalso
    have hcb0 : cb = 0 := by rw [← hcb, hb0]; exact comb_bits5_zero _
    have hs' : ca ^^^ (cc ^^^ synG (A ++ (B ++ (C ++ D))) others) = 0 := by
      rw [hrest, ← hsyn, hcb0, Nat.zero_xor]; ac_rfl
    obtain ⟨xa, xc, xr⟩ := two_of_three eX eZ good_lxz a c _ ha hc hrlt hrlen
      (by simp only [weight, hwrest]; simp only [hb0, if_true] at hwt; omega) (by rw [hca, hcc]; exact hs')
    exact hzero xr xa hb0 xc
  by_cases ha0 : a = 0
  · exfalso
    have hca0 : ca = 0 := by rw [← hca, ha0]; exact comb_bits5_zero _
    have hs' : cb ^^^ (cc ^^^ synG (A ++ (B ++ (C ++ D))) others) = 0 := by
      rw [hrest, ← hsyn, hca0, Nat.zero_xor]; ac_rfl
    obtain ⟨xb, xc, xr⟩ := two_of_three eY eZ good_lyz b c _ hb hc hrlt hrlen
      (by simp only [weight, hwrest]; simp only [ha0, if_true] at hwt; omega) (by rw [hcb, hcc]; exact hs')
    exact hzero xr ha0 xb xc
  -- all three exceptional symbols are non-zero: nothing else is
  simp only [ha0, hb0, hc0, if_false] at hwt
  have zA := zeros_of_weight A (by omega)
  have zB := zeros_of_weight B (by omega)
  have zC := zeros_of_weight C (by omega)
  have zD := zeros_of_weight D (by omega)
  rw [hA] at zA; rw [hB] at zB; rw [hC] at zC; rw [hD] at zD
  have z0 : ∀ (k : Nat) (G : List (List Nat)), synG (List.replicate k 0) G = 0 :=
    fun k G => synG_all_zero _ _ (by intro v hv; exact (List.mem_replicate.mp hv).2)
  have hsA0 : sA = 0 := by rw [← hsA, zA]; exact z0 _ _
  have hsB0 : sB = 0 := by rw [← hsB, zB]; exact z0 _ _
  have hsC0 : sC = 0 := by rw [← hsC, zC]; exact z0 _ _
  have hsD0 : sD = 0 := by rw [← hsD, zD]; exact z0 _ _
  rw [hsA0, hsB0, hsC0, hsD0] at hsyn
  simp only [Nat.zero_xor, Nat.xor_zero] at hsyn
  rw [← hca, ← hcb, ← hcc] at hsyn
  rcases triple_unique a b c ha hb hc hsyn with ⟨h0, _, _⟩ | ⟨hva, hvb, hvc⟩
  · exact absurd h0 ha0
  · rw [patLit_eq, zA, zB, zC, zD, hva, hvb, hvc]

/-! ### words in natural order -/

/-- the neighbour pattern in natural order (index 0 = witness version symbol, then the 52 program symbols, then
    the 6 checksum symbols): the version symbol and the symbols at offsets 45, 36, 16 from the end -/
def crossPattern : List Nat := 1 :: patLit.reverse

theorem crossPattern_eq : crossPattern =
    [1, 0, 0, 0, 0, 0, 0, 0, 0, 0, 0, 0, 0, 22, 0, 0, 0, 0, 0, 0, 0, 0, 31, 0, 0, 0, 0, 0, 0, 0, 0, 0, 0, 0, 0, 0, 0, 0, 0,
     0, 0, 0, 25, 0, 0, 0, 0, 0, 0, 0, 0, 0, 0, 0, 0, 0, 0, 0, 0] := by decide

theorem crossPattern_length : crossPattern.length = 59 := by decide

theorem crossPattern_lt : ∀ x ∈ crossPattern, x < 32 := by decide

/-- the pattern's own syndrome is the difference of the two constants -/
theorem crossPattern_syndrome : polymodFrom 0 crossPattern = crossT := by decide +kernel

/-- two words of 59 five-bit symbols whose polymods (from any start state, after any common prefix) differ by
    BECH32 xor BECH32M, whose first symbols differ by XOR 1 and that differ in at most four positions differ
    exactly by `crossPattern` -/
theorem cross_words (s : Nat) (p u u' : List Nat) (hl : u.length = 59) (hl' : u'.length = 59)
    (hu : ∀ x ∈ u, x < 32) (hu' : ∀ x ∈ u', x < 32) (hham : hamming u u' ≤ 4)
    (hhead : (xorW u u').head? = some 1)
    (hx : polymodFrom s (p ++ u) ^^^ polymodFrom s (p ++ u') = crossT) : xorW u u' = crossPattern := by
  have hlen : u.length = u'.length := by rw [hl, hl']
  have hxx : polymodFrom 0 (xorW u u') = crossT := by
    have := polymodFrom_xor s s (p ++ u) (p ++ u') (by simp [hlen])
    rw [Nat.xor_self, hx, xorW_append p u p u' rfl, xorW_self, polymodFrom_append, polymodFrom_zeros] at this
    exact this
  have helen := xorW_length u u' hlen
  have he32 := xorW_lt u u' hu hu'
  unfold hamming at hham
  generalize xorW u u' = e at *
  cases e with
  | nil => simp at hhead
  | cons x e1 =>
    simp only [List.head?_cons, Option.some.injEq] at hhead
    subst hhead
    have hr := cross_core e1.reverse (by simp at helen ⊢; rw [hl] at helen; simp [N]; omega)
      (by intro v hv; exact he32 v (by simp at hv; simp [hv]))
      (by rw [weight_reverse_le]; simp [weight] at hham; omega)
      (by unfold synR; simpa using hxx)
    have : e1 = patLit.reverse := by rw [← hr]; simp
    rw [this]; rfl

theorem xorW_xorW (a b : List Nat) (h : a.length = b.length) : xorW a (xorW a b) = b := by
  induction a generalizing b with
  | nil => cases b with
    | nil => rfl
    | cons _ _ => simp at h
  | cons x xs ih =>
    cases b with
    | nil => simp at h
    | cons y ys =>
      simp only [xorW, ih ys (by simpa using h), ← Nat.xor_assoc, Nat.xor_self, Nat.zero_xor]

end Embit.Model.Bech32.Cross
