import EmbitModel.Proofs.SecSpec
/-
  Soundness of the key decoders of C10 ("accepted ⇒ re-encodes to exactly the input"): private keys, WIF,
  SEC stream reads, x-only keys, extended keys (bytes, stream, text). No Mathlib import.
-/
namespace Embit.Keys
open Embit

variable {E : EcOps}

/-! ### private keys -/

theorem privInit_sound (sec : Bytes) (c : Bool) (net : Nat) (k : PrivateKey)
    (h : PrivateKey.init E sec c net = some k) :
    k.serialize = sec ∧ sec.length = 32 ∧ k.compressed = c ∧ k.network = net ∧ seckeyValid E k.secret = true := by
  obtain ⟨hk, hv⟩ := privInit_fields sec c net k h
  have hl : sec.length = 32 := by
    unfold PrivateKey.init at h
    split at h
    · cases h
    · rename_i hne; simpa using hne
  subst hk
  exact ⟨by simp [PrivateKey.serialize, beN32_ofBe sec hl], hl, rfl, rfl, hv⟩

theorem privParse_sound (b : Bytes) (k : PrivateKey) (h : PrivateKey.parse E b = some k) :
    k.serialize = b ∧ b.length = 32 ∧ k.compressed = true ∧ k.network = Generated.privDefaultNet
      ∧ seckeyValid E k.secret = true := by
  unfold PrivateKey.parse at h
  cases hi : PrivateKey.init E (b.take 32) with
  | none => simp [hi] at h
  | some k' =>
    simp only [hi] at h
    split at h
    · rename_i hd
      have := Option.some.inj h
      subst this
      obtain ⟨hs, hl, hc, hn, hv⟩ := privInit_sound _ _ _ _ hi
      have hb : b.take 32 = b := by
        have := List.take_append_drop 32 b
        rw [hd, List.append_nil] at this
        exact this
      rw [hb] at hs hl
      exact ⟨hs, hl, hc, hn, hv⟩
    · cases h

/-! ### WIF -/

theorem wifNetLoop_sound (pre : Bytes) : ∀ (ns : List Generated.KeyNet) (i : Nat) (acc : Option Nat) (j : Nat),
    wifNetLoop pre ns i acc = some j →
      acc = some j ∨ (i ≤ j ∧ ∃ m, ns[j - i]? = some m ∧ m.wif = pre) := by
  intro ns
  induction ns with
  | nil => intro i acc j h; exact Or.inl h
  | cons n ns ih =>
    intro i acc j h
    simp only [wifNetLoop] at h
    rcases ih _ _ _ h with hacc | ⟨hle, m, hm, hw⟩
    · by_cases hn : n.wif = pre
      · rw [if_pos hn] at hacc
        have : i = j := Option.some.inj hacc
        subst this
        exact Or.inr ⟨Nat.le_refl _, n, by simp, hn⟩
      · rw [if_neg hn] at hacc
        exact Or.inl hacc
    · right
      refine ⟨by omega, m, ?_, hw⟩
      have : j - i = (j - (i + 1)) + 1 := by omega
      rw [this, List.getElem?_cons_succ]
      exact hm

/-- the network found by the loop of `from_wif` has exactly this WIF prefix -/
theorem wifNetwork_sound (pre : Bytes) (j : Nat) (h : wifNetwork pre = some j) : netWif j = some pre := by
  unfold wifNetwork at h
  rcases wifNetLoop_sound pre _ _ _ _ h with hacc | ⟨_, m, hm, hw⟩
  · cases hacc
  · simp only [Nat.sub_zero] at hm
    simp [netWif, hm, hw]

/-- the codec law in the decoding direction: whatever `decode_check` accepts is the `encode_check` of its result
    (true of Base58Check: a Base58 string has one spelling) -/
def DecodeCanonical (env : Env) : Prop := ∀ t b, env.b58dec t = some b → env.b58enc b = t

theorem take1_take32 (b : Bytes) (h : b.length = 33) : b.take 1 ++ (b.drop 1).take 32 = b := by
  have h1 : (b.drop 1).take 32 = b.drop 1 := take_len _ _ (by simp [h])
  rw [h1, List.take_append_drop]

theorem take1_take32_last (b : Bytes) (h : b.length = 34) (hl : b.getLast? = some 0x01) :
    b.take 1 ++ (b.drop 1).take 32 ++ [0x01] = b := by
  obtain ⟨ini, rfl⟩ : ∃ ini, b = ini ++ [0x01] := by
    rcases List.eq_nil_or_concat b with rfl | ⟨ini, x, rfl⟩
    · simp at h
    · simp only [List.concat_eq_append, List.getLast?_append, List.getLast?_singleton, Option.some_or,
        Option.some.injEq] at hl
      exact ⟨ini, by rw [hl]; simp⟩
  have hi : ini.length = 33 := by simpa using h
  have h1 : (ini ++ [0x01]).take 1 = ini.take 1 := by
    rw [List.take_append_of_le_length (by omega)]
  have h2 : ((ini ++ [0x01]).drop 1).take 32 = (ini.drop 1).take 32 := by
    rw [List.drop_append_of_le_length (by omega), List.take_append_of_le_length (by simp [hi])]
  rw [h1, h2, take1_take32 ini hi]

/-- an accepted WIF text re-encodes to itself, and what it holds is a valid key of a listed network -/
theorem fromWif_sound (env : Env) (hcanon : DecodeCanonical env) (t : Text) (k : PrivateKey)
    (h : PrivateKey.fromWif E env t = some k) :
    k.wif env = some t ∧ seckeyValid E k.secret = true ∧ (netWif k.network).isSome = true := by
  unfold PrivateKey.fromWif at h
  cases hd : env.b58dec t with
  | none => simp [hd] at h
  | some b =>
    simp only [hd] at h
    cases hn : wifNetwork (b.take 1) with
    | none => simp [hn] at h
    | some net =>
      simp only [hn] at h
      have hpre := wifNetwork_sound _ _ hn
      have henc := hcanon t b hd
      by_cases h33 : b.length = 33
      · rw [if_pos h33] at h
        obtain ⟨hs, _, hc, hnet, hv⟩ := privInit_sound _ _ _ _ h
        refine ⟨?_, hv, by rw [hnet, hpre]; rfl⟩
        simp only [PrivateKey.serialize] at hs
        simp only [PrivateKey.wif, Option.getD_none, hnet, hpre, hs, hc, Bool.false_eq_true, if_false,
          List.append_nil, take1_take32 b h33, henc]
      · rw [if_neg h33] at h
        by_cases h34 : b.length = 34
        · rw [if_pos h34] at h
          by_cases hl : b.getLast? = some 0x01
          · rw [if_pos hl] at h
            obtain ⟨hs, _, hc, hnet, hv⟩ := privInit_sound _ _ _ _ h
            refine ⟨?_, hv, by rw [hnet, hpre]; rfl⟩
            simp only [PrivateKey.serialize] at hs
            simp only [PrivateKey.wif, Option.getD_none, hnet, hpre, hs, hc, if_true,
              take1_take32_last b h34 hl, henc]
          · rw [if_neg hl] at h; cases h
        · rw [if_neg h34] at h; cases h

/-! ### SEC stream reads, x-only -/

/-- whatever `PublicKey.read_from` accepts: the key's encoding followed by the rest IS the stream -/
theorem readFrom_sec_sound (L : EcLaws E) (s : Bytes) (k : PublicKey E) (rest : Bytes)
    (h : PublicKey.readFrom E s = some (k, rest)) : k.sec ++ rest = s ∧ E.isInf k.point = false := by
  obtain ⟨f, r, rfl, hcase⟩ := readFrom_some_length s k rest h
  have key : ∀ n : Nat, (if f = 0x04 then 64 else 32) = n → n ≤ r.length → rest = r.drop n →
      k.sec ++ rest = f :: r ∧ E.isInf k.point = false := by
    intro n hn hle hrest
    have hp : PublicKey.parse E (f :: r.take n) = some k := by
      simp only [PublicKey.readFrom] at h
      simp only [PublicKey.parse, PublicKey.readFrom]
      split at h
      · rename_i hf
        rw [if_pos hf]
        rw [hn] at h ⊢
        have ht : (r.take n).take n = r.take n := by rw [List.take_take, Nat.min_self]
        have hd : (r.take n).drop n = [] := List.drop_eq_nil_of_le (by rw [List.length_take]; omega)
        rw [ht, hd]
        cases hpp : pubkeyParse E (f :: r.take n) with
        | none => simp [hpp] at h
        | some P =>
          simp only [hpp, Option.some.injEq, Prod.mk.injEq] at h
          simp only [h.1]
      · cases h
    obtain ⟨hsec, hinf⟩ := parse_sec_sound L _ k hp
    refine ⟨?_, hinf⟩
    rw [hsec, hrest, List.cons_append, List.take_append_drop]
  rcases hcase with ⟨hf, hl, hrest, _⟩ | ⟨hf, hl, hrest, _⟩
  · exact key 64 (by simp [hf]) hl hrest
  · have h4 : f ≠ 0x04 := by rcases hf with h | h <;> subst h <;> simp
    exact key 32 (by simp [h4]) hl hrest

/-- whatever `from_xonly` accepts is the even-Y key with exactly this x-only encoding -/
theorem fromXonly_sound (L : EcLaws E) (data : Bytes) (k : PublicKey E)
    (h : PublicKey.fromXonly E data = some k) :
    k.xonly = data ∧ k.compressed = true ∧ E.yOdd k.point = false ∧ E.isInf k.point = false := by
  unfold PublicKey.fromXonly at h
  split at h
  · rename_i hl
    obtain ⟨hsec, hinf⟩ := parse_sec_sound L _ k h
    obtain ⟨P, c⟩ := k
    simp only [PublicKey.sec, pubkeySerialize] at hsec
    cases c
    · simp at hsec
    · simp only [if_true] at hsec
      by_cases hy : E.yOdd P = true
      · simp [hy] at hsec
      · have hy' : E.yOdd P = false := by simpa using hy
        refine ⟨?_, rfl, hy', hinf⟩
        simp only [PublicKey.xonly, PublicKey.sec, pubkeySerialize, if_true, hy', Bool.false_eq_true, if_false]
        simp only [hy', Bool.false_eq_true, if_false, List.cons.injEq, true_and] at hsec
        rw [hsec]
        simp [take_len data 32 hl]
  · cases h

/-! ### extended keys -/

theorem readKeyField_sound (L : EcLaws E) (k0 : UInt8) (kr : Bytes) (key : KeyObj E)
    (h : readKeyField E k0 kr = some key) : keyField key = k0 :: kr := by
  unfold readKeyField at h
  split at h
  · rename_i h0
    cases hp : PrivateKey.parse E kr with
    | none => simp [hp] at h
    | some pk =>
      simp only [hp, Option.map_some, Option.some.injEq] at h
      subst h
      obtain ⟨hs, _⟩ := privParse_sound kr pk hp
      simp [keyField, KeyObj.isPrivate, KeyObj.serialize, hs, h0]
  · cases hp : PublicKey.parse E (k0 :: kr) with
    | none => simp [hp] at h
    | some pk =>
      simp only [hp, Option.map_some, Option.some.injEq] at h
      subst h
      obtain ⟨hs, _⟩ := parse_sec_sound L _ pk hp
      simp [keyField, KeyObj.isPrivate, KeyObj.serialize, hs]

theorem keyField_length_ge (key : KeyObj E) : 33 ≤ (keyField key).length := by
  cases key with
  | priv k => simp [keyField, KeyObj.isPrivate, KeyObj.serialize, PrivateKey.serialize]
  | pub k =>
    simp only [keyField, KeyObj.isPrivate, KeyObj.serialize, PublicKey.sec]
    have := pubkeySerialize_length k.point k.compressed
    cases hc : k.compressed <;> simp [hc] at this <;> simp [this]

/-- a stream splits into the six fields `read_from` slices out of it -/
theorem stream_split (s s2 : Bytes) (d : UInt8) (hs : s.drop 4 = d :: s2) :
    s = s.take 4 ++ (d :: (s2.take 4 ++ ((s2.drop 4).take 4 ++ ((s2.drop 8).take 32
          ++ ((s2.drop 40).take 33 ++ (s2.drop 40).drop 33))))) := by
  have h1 : (s2.drop 4).drop 4 = s2.drop 8 := by simp
  have h2 : (s2.drop 8).drop 32 = s2.drop 40 := by simp
  have e3 : (s2.drop 40).take 33 ++ (s2.drop 40).drop 33 = s2.drop 40 := List.take_append_drop _ _
  have e2 : (s2.drop 8).take 32 ++ s2.drop 40 = s2.drop 8 := by rw [← h2]; exact List.take_append_drop _ _
  have e1 : (s2.drop 4).take 4 ++ s2.drop 8 = s2.drop 4 := by rw [← h1]; exact List.take_append_drop _ _
  rw [e3, e2, e1, List.take_append_drop, ← hs, List.take_append_drop]

/-- whatever `HDKey.read_from` accepts: the key's 78-byte serialization followed by the rest IS the stream, and
    the text of those 78 bytes says the key's kind -/
theorem readFrom_hd_sound (L : EcLaws E) (env : Env) (s : Bytes) (k : HDKey E) (rest : Bytes)
    (h : HDKey.readFrom E env s = some (k, rest)) :
    ∃ b, k.serialize = some b ∧ b ++ rest = s ∧ b.length = 78 ∧
      sub14 (env.b58enc b) = kindText k.key.isPrivate := by
  obtain ⟨d, s2, k0, kr, key, hs, hk, hkey, hl1, hl2, hl3, hinit, _, _, hrest⟩ := readFrom_some env s k rest h
  obtain ⟨_, _, hkeq, b, hser, htext⟩ := (init_iff env _ _ _ _ _ _ k).mp hinit
  have hkf := readKeyField_sound L k0 kr key hkey
  have hdcn : d.toNat < 256 ∧ ofBe ((s2.drop 4).take 4) < 2 ^ 32 := by
    unfold HDKey.serialize at hser
    split at hser
    · assumption
    · cases hser
  have hlay := serialize_layout (E := E)
    ⟨key, (s2.drop 8).take 32, s.take 4, d.toNat, s2.take 4, ofBe ((s2.drop 4).take 4)⟩ hdcn.1 hdcn.2
  rw [hser] at hlay
  have hb := Option.some.inj hlay
  simp only at hb
  have hd8 : UInt8.ofNat d.toNat = d := by
    apply UInt8.toNat_inj.mp
    simp
  have hl4 : ((s2.drop 4).take 4).length = 4 := by
    have := congrArg List.length (rfl : (s2.drop 8).take 32 = (s2.drop 8).take 32)
    simp only [List.length_take, List.length_drop] at hl3 ⊢
    omega
  have hcn : beN 4 (ofBe ((s2.drop 4).take 4)) = (s2.drop 4).take 4 := by
    have := beN_ofBe ((s2.drop 4).take 4)
    rwa [hl4] at this
  rw [hd8, hcn, hkf, ← hk, List.append_nil] at hb
  have hsplit := stream_split s s2 d hs
  have hbl : b.length = 78 := by
    have hk33 : ((s2.drop 40).take 33).length = 33 := by
      have hkl := congrArg List.length hkf
      have hge := keyField_length_ge key
      rw [← hk] at hkl
      have hle := List.length_take_le 33 (s2.drop 40)
      omega
    rw [hb]
    simp only [List.length_append, List.length_cons, hl1, hl2, hl4, hl3, hk33]
  refine ⟨b, by rw [hkeq]; exact hser, ?_, hbl, by rw [hkeq]; exact htext⟩
  rw [hrest, hb]
  conv => rhs; rw [hsplit]
  simp only [List.append_assoc, List.cons_append]

/-- whatever `HDKey.parse` accepts re-encodes to exactly the input bytes -/
theorem parse_hd_sound (L : EcLaws E) (env : Env) (b : Bytes) (k : HDKey E) (h : HDKey.parse E env b = some k) :
    k.serialize = some b ∧ b.length = 78 ∧ sub14 (env.b58enc b) = kindText k.key.isPrivate := by
  unfold HDKey.parse at h
  split at h
  · rename_i k' hr
    have := Option.some.inj h
    subst this
    obtain ⟨b', hser, hcat, hlen, htext⟩ := readFrom_hd_sound L env b k' [] hr
    rw [List.append_nil] at hcat
    subst hcat
    exact ⟨hser, hlen, htext⟩
  · cases h

/-- … and so does its text form -/
theorem parse_hd_toBase58 (L : EcLaws E) (env : Env) (b : Bytes) (k : HDKey E) (h : HDKey.parse E env b = some k) :
    k.toBase58 env = some (env.b58enc b) := by
  obtain ⟨hser, _, htext⟩ := parse_hd_sound L env b k h
  unfold HDKey.toBase58
  rw [hser]
  cases hp : k.key.isPrivate
  · simp only [hp, kindText, Bool.false_eq_true, if_false] at htext
    simp [htext, tPrv_ne_tPub.symm]
  · simp only [hp, kindText, if_true] at htext
    simp [htext, tPrv_ne_tPub]

theorem fromBase58_sound (L : EcLaws E) (env : Env) (hcanon : DecodeCanonical env) (t : Text) (k : HDKey E)
    (h : HDKey.fromBase58 E env t = some k) : k.toBase58 env = some t := by
  unfold HDKey.fromBase58 at h
  cases hd : env.b58dec t with
  | none => simp [hd] at h
  | some b =>
    simp only [hd] at h
    rw [parse_hd_toBase58 L env b k h, hcanon t b hd]

end Embit.Keys
