import EmbitModel.Proofs.Pratt
import Mathlib.Tactic.NormNum.Prime
/-
  Both 256-bit parameters of secp256k1 are prime: the field size `p = 2^256 − 2^32 − 977` (10 Lucas steps) and the
  order `n` of the generator (12 Lucas steps) — Pratt certificates. The factorisations of the numbers `q − 1` were
  found off-line (GNU factor, and one elliptic-curve factorisation of a 62-digit cofactor); nothing of that is
  trusted: each step below is a theorem whose witness and modular powers are re-checked by the kernel through the
  `powMod` of the key.py model (`pratt`, on top of Mathlib's `lucas_primality`).
  GENERATED from the factor trees; primes below 100 000 are discharged by `norm_num`.
-/
namespace Embit.Model.PyCurve.Primes
open Embit.Model.PyCurve
set_option maxRecDepth 100000

/-! ### the order `n` -/

theorem prime_120233 : Nat.Prime 120233 := by
  apply pratt 120233 3 [(2, 3), (7, 1), (19, 1), (113, 1)] (by norm_num)
  · intro qe h
    simp only [List.mem_cons, List.not_mem_nil, or_false] at h
    rcases h with rfl | rfl | rfl | rfl
    · norm_num
    · norm_num
    · norm_num
    · norm_num
  · decide +kernel
  · decide +kernel
  · decide +kernel

theorem prime_305873 : Nat.Prime 305873 := by
  apply pratt 305873 3 [(2, 4), (7, 1), (2731, 1)] (by norm_num)
  · intro qe h
    simp only [List.mem_cons, List.not_mem_nil, or_false] at h
    rcases h with rfl | rfl | rfl
    · norm_num
    · norm_num
    · norm_num
  · decide +kernel
  · decide +kernel
  · decide +kernel

theorem prime_1627771 : Nat.Prime 1627771 := by
  apply pratt 1627771 3 [(2, 1), (3, 1), (5, 1), (29, 1), (1871, 1)] (by norm_num)
  · intro qe h
    simp only [List.mem_cons, List.not_mem_nil, or_false] at h
    rcases h with rfl | rfl | rfl | rfl | rfl
    · norm_num
    · norm_num
    · norm_num
    · norm_num
    · norm_num
  · decide +kernel
  · decide +kernel
  · decide +kernel

theorem prime_4681609 : Nat.Prime 4681609 := by
  apply pratt 4681609 23 [(2, 3), (3, 1), (97, 1), (2011, 1)] (by norm_num)
  · intro qe h
    simp only [List.mem_cons, List.not_mem_nil, or_false] at h
    rcases h with rfl | rfl | rfl | rfl
    · norm_num
    · norm_num
    · norm_num
    · norm_num
  · decide +kernel
  · decide +kernel
  · decide +kernel

theorem prime_44706919 : Nat.Prime 44706919 := by
  apply pratt 44706919 6 [(2, 1), (3, 1), (797, 1), (9349, 1)] (by norm_num)
  · intro qe h
    simp only [List.mem_cons, List.not_mem_nil, or_false] at h
    rcases h with rfl | rfl | rfl | rfl
    · norm_num
    · norm_num
    · norm_num
    · norm_num
  · decide +kernel
  · decide +kernel
  · decide +kernel

theorem prime_545358713 : Nat.Prime 545358713 := by
  apply pratt 545358713 5 [(2, 3), (41, 1), (59, 1), (28181, 1)] (by norm_num)
  · intro qe h
    simp only [List.mem_cons, List.not_mem_nil, or_false] at h
    rcases h with rfl | rfl | rfl | rfl
    · norm_num
    · norm_num
    · norm_num
    · norm_num
  · decide +kernel
  · decide +kernel
  · decide +kernel

theorem prime_297159362677 : Nat.Prime 297159362677 := by
  apply pratt 297159362677 2 [(2, 2), (3, 2), (11, 1), (461, 1), (1627771, 1)] (by norm_num)
  · intro qe h
    simp only [List.mem_cons, List.not_mem_nil, or_false] at h
    rcases h with rfl | rfl | rfl | rfl | rfl
    · norm_num
    · norm_num
    · norm_num
    · norm_num
    · exact prime_1627771
  · decide +kernel
  · decide +kernel
  · decide +kernel

theorem prime_107361793816595537 : Nat.Prime 107361793816595537 := by
  apply pratt 107361793816595537 3 [(2, 4), (16699, 1), (85831, 1), (4681609, 1)] (by norm_num)
  · intro qe h
    simp only [List.mem_cons, List.not_mem_nil, or_false] at h
    rcases h with rfl | rfl | rfl | rfl
    · norm_num
    · norm_num
    · norm_num
    · exact prime_4681609
  · decide +kernel
  · decide +kernel
  · decide +kernel

theorem prime_174723607534414371449 : Nat.Prime 174723607534414371449 := by
  apply pratt 174723607534414371449 3 [(2, 3), (17, 1), (59, 1), (4051, 1), (120233, 1), (44706919, 1)] (by norm_num)
  · intro qe h
    simp only [List.mem_cons, List.not_mem_nil, or_false] at h
    rcases h with rfl | rfl | rfl | rfl | rfl | rfl
    · norm_num
    · norm_num
    · norm_num
    · norm_num
    · exact prime_120233
    · exact prime_44706919
  · decide +kernel
  · decide +kernel
  · decide +kernel

theorem prime_29047611873442575647497758179 : Nat.Prime 29047611873442575647497758179 := by
  apply pratt 29047611873442575647497758179 2 [(2, 1), (293, 1), (305873, 1), (545358713, 1), (297159362677, 1)] (by norm_num)
  · intro qe h
    simp only [List.mem_cons, List.not_mem_nil, or_false] at h
    rcases h with rfl | rfl | rfl | rfl | rfl
    · norm_num
    · norm_num
    · exact prime_305873
    · exact prime_545358713
    · exact prime_297159362677
  · decide +kernel
  · decide +kernel
  · decide +kernel

theorem prime_341948486974166000522343609283189 : Nat.Prime 341948486974166000522343609283189 := by
  apply pratt 341948486974166000522343609283189 2 [(2, 2), (3, 3), (109, 1), (29047611873442575647497758179, 1)] (by norm_num)
  · intro qe h
    simp only [List.mem_cons, List.not_mem_nil, or_false] at h
    rcases h with rfl | rfl | rfl | rfl
    · norm_num
    · norm_num
    · norm_num
    · exact prime_29047611873442575647497758179
  · decide +kernel
  · decide +kernel
  · decide +kernel

theorem prime_115792089237316195423570985008687907852837564279074904382605163141518161494337 : Nat.Prime 115792089237316195423570985008687907852837564279074904382605163141518161494337 := by
  apply pratt 115792089237316195423570985008687907852837564279074904382605163141518161494337 7 [(2, 6), (3, 1), (149, 1), (631, 1), (107361793816595537, 1), (174723607534414371449, 1), (341948486974166000522343609283189, 1)] (by norm_num)
  · intro qe h
    simp only [List.mem_cons, List.not_mem_nil, or_false] at h
    rcases h with rfl | rfl | rfl | rfl | rfl | rfl | rfl
    · norm_num
    · norm_num
    · norm_num
    · norm_num
    · exact prime_107361793816595537
    · exact prime_174723607534414371449
    · exact prime_341948486974166000522343609283189
  · decide +kernel
  · decide +kernel
  · decide +kernel

/-- **the group order `n` of secp256k1 is prime** -/
theorem secp256k1N_prime : secp256k1N.Prime := prime_115792089237316195423570985008687907852837564279074904382605163141518161494337

/-! ### the field size `p` -/

theorem prime_1206781 : Nat.Prime 1206781 := by
  apply pratt 1206781 10 [(2, 2), (3, 1), (5, 1), (20113, 1)] (by norm_num)
  · intro qe h
    simp only [List.mem_cons, List.not_mem_nil, or_false] at h
    rcases h with rfl | rfl | rfl | rfl
    · norm_num
    · norm_num
    · norm_num
    · norm_num
  · decide +kernel
  · decide +kernel
  · decide +kernel

theorem prime_7240687 : Nat.Prime 7240687 := by
  apply pratt 7240687 3 [(2, 1), (3, 1), (1206781, 1)] (by norm_num)
  · intro qe h
    simp only [List.mem_cons, List.not_mem_nil, or_false] at h
    rcases h with rfl | rfl | rfl
    · norm_num
    · norm_num
    · exact prime_1206781
  · decide +kernel
  · decide +kernel
  · decide +kernel

theorem prime_13331831 : Nat.Prime 13331831 := by
  apply pratt 13331831 13 [(2, 1), (5, 1), (971, 1), (1373, 1)] (by norm_num)
  · intro qe h
    simp only [List.mem_cons, List.not_mem_nil, or_false] at h
    rcases h with rfl | rfl | rfl | rfl
    · norm_num
    · norm_num
    · norm_num
    · norm_num
  · decide +kernel
  · decide +kernel
  · decide +kernel

theorem prime_107590001 : Nat.Prime 107590001 := by
  apply pratt 107590001 3 [(2, 4), (5, 4), (7, 1), (29, 1), (53, 1)] (by norm_num)
  · intro qe h
    simp only [List.mem_cons, List.not_mem_nil, or_false] at h
    rcases h with rfl | rfl | rfl | rfl | rfl
    · norm_num
    · norm_num
    · norm_num
    · norm_num
    · norm_num
  · decide +kernel
  · decide +kernel
  · decide +kernel

theorem prime_173378833005251801 : Nat.Prime 173378833005251801 := by
  apply pratt 173378833005251801 6 [(2, 3), (5, 2), (2621, 1), (24809, 1), (13331831, 1)] (by norm_num)
  · intro qe h
    simp only [List.mem_cons, List.not_mem_nil, or_false] at h
    rcases h with rfl | rfl | rfl | rfl | rfl
    · norm_num
    · norm_num
    · norm_num
    · norm_num
    · exact prime_13331831
  · decide +kernel
  · decide +kernel
  · decide +kernel

theorem prime_22149492674086928081353 : Nat.Prime 22149492674086928081353 := by
  apply pratt 22149492674086928081353 5 [(2, 3), (3, 1), (5323, 1), (173378833005251801, 1)] (by norm_num)
  · intro qe h
    simp only [List.mem_cons, List.not_mem_nil, or_false] at h
    rcases h with rfl | rfl | rfl | rfl
    · norm_num
    · norm_num
    · norm_num
    · exact prime_173378833005251801
  · decide +kernel
  · decide +kernel
  · decide +kernel

theorem prime_132896956044521568488119 : Nat.Prime 132896956044521568488119 := by
  apply pratt 132896956044521568488119 6 [(2, 1), (3, 1), (22149492674086928081353, 1)] (by norm_num)
  · intro qe h
    simp only [List.mem_cons, List.not_mem_nil, or_false] at h
    rcases h with rfl | rfl | rfl
    · norm_num
    · norm_num
    · exact prime_22149492674086928081353
  · decide +kernel
  · decide +kernel
  · decide +kernel

theorem prime_255515944373312847190720520512484175977 : Nat.Prime 255515944373312847190720520512484175977 := by
  apply pratt 255515944373312847190720520512484175977 3 [(2, 3), (7, 2), (11, 1), (1627, 1), (2657, 1), (4423, 1), (41201, 1), (96557, 1), (7240687, 1), (107590001, 1)] (by norm_num)
  · intro qe h
    simp only [List.mem_cons, List.not_mem_nil, or_false] at h
    rcases h with rfl | rfl | rfl | rfl | rfl | rfl | rfl | rfl | rfl | rfl
    · norm_num
    · norm_num
    · norm_num
    · norm_num
    · norm_num
    · norm_num
    · norm_num
    · norm_num
    · exact prime_7240687
    · exact prime_107590001
  · decide +kernel
  · decide +kernel
  · decide +kernel

theorem prime_205115282021455665897114700593932402728804164701536103180137503955397371 : Nat.Prime 205115282021455665897114700593932402728804164701536103180137503955397371 := by
  apply pratt 205115282021455665897114700593932402728804164701536103180137503955397371 10 [(2, 1), (3, 1), (5, 1), (29, 2), (31, 1), (7723, 1), (132896956044521568488119, 1), (255515944373312847190720520512484175977, 1)] (by norm_num)
  · intro qe h
    simp only [List.mem_cons, List.not_mem_nil, or_false] at h
    rcases h with rfl | rfl | rfl | rfl | rfl | rfl | rfl | rfl
    · norm_num
    · norm_num
    · norm_num
    · norm_num
    · norm_num
    · norm_num
    · exact prime_132896956044521568488119
    · exact prime_255515944373312847190720520512484175977
  · decide +kernel
  · decide +kernel
  · decide +kernel

theorem prime_115792089237316195423570985008687907853269984665640564039457584007908834671663 : Nat.Prime 115792089237316195423570985008687907853269984665640564039457584007908834671663 := by
  apply pratt 115792089237316195423570985008687907853269984665640564039457584007908834671663 3 [(2, 1), (3, 1), (7, 1), (13441, 1), (205115282021455665897114700593932402728804164701536103180137503955397371, 1)] (by norm_num)
  · intro qe h
    simp only [List.mem_cons, List.not_mem_nil, or_false] at h
    rcases h with rfl | rfl | rfl | rfl | rfl
    · norm_num
    · norm_num
    · norm_num
    · norm_num
    · exact prime_205115282021455665897114700593932402728804164701536103180137503955397371
  · decide +kernel
  · decide +kernel
  · decide +kernel

/-- **the field size `p = 2^256 − 2^32 − 977` of secp256k1 is prime** -/
theorem secp256k1P_prime : secp256k1.p.Prime := prime_115792089237316195423570985008687907853269984665640564039457584007908834671663

end Embit.Model.PyCurve.Primes
