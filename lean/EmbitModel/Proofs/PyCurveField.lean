import EmbitModel.Model.PyCurve
import Mathlib.Data.ZMod.Basic
import Mathlib.FieldTheory.Finite.Basic
import Mathlib.Tactic.Ring
import Mathlib.Tactic.LinearCombination
/-
  Field arithmetic of key.py (`pow(b, e, m)`, `modinv`, `modsqrt`) against `ZMod`.
  * `powMod_eq`            the square-and-multiply model of built-in `pow(b, e, m)` is `b ^ e % m`
  * `modinv_some` / `modinv_none` / `modinv_inv`
                           extended Euclid as written: returns `t` with `t·a ≡ 1 (mod n)` exactly when
                           `gcd(a, n) = 1`, else `None`; for a prime modulus it is the field inverse
  * `modsqrt_*`            `a^((p+1)/4)` is a square root exactly when `a` is a square (p prime, p ≡ 3 mod 4)
-/
namespace Embit.Model.PyCurve

/-! ### casts -/

theorem cast_emod (p : ℕ) (a : ℤ) : (((a % (p : ℤ) : ℤ)) : ZMod p) = (a : ZMod p) := ZMod.intCast_mod a p

/-- reduced integers with equal residues are equal -/
theorem eq_of_cast_eq {p : ℕ} {a b : ℤ} (ha0 : 0 ≤ a) (ha : a < p) (hb0 : 0 ≤ b) (hb : b < p)
    (h : (a : ZMod p) = (b : ZMod p)) : a = b := by
  have := (ZMod.intCast_eq_intCast_iff a b p).mp h
  unfold Int.ModEq at this
  rwa [Int.emod_eq_of_lt ha0 ha, Int.emod_eq_of_lt hb0 hb] at this

theorem emod_range {p : ℕ} (hp : 0 < p) (a : ℤ) : 0 ≤ a % (p : ℤ) ∧ a % (p : ℤ) < p :=
  ⟨Int.emod_nonneg _ (by exact_mod_cast hp.ne'), Int.emod_lt_of_pos _ (by exact_mod_cast hp)⟩

theorem cast_eq_zero_iff {p : ℕ} {a : ℤ} (ha0 : 0 ≤ a) (ha : a < p) : (a : ZMod p) = 0 ↔ a = 0 := by
  constructor
  · intro h
    have hp : (0 : ℤ) < p := lt_of_le_of_lt ha0 ha
    exact eq_of_cast_eq ha0 ha le_rfl hp (by simpa using h)
  · rintro rfl; simp

/-! ### `pow(b, e, m)` -/

theorem powModAux_cast (m : ℕ) : ∀ (fuel : ℕ) (b : ℤ) (e : ℕ) (acc : ℤ), e < 2 ^ fuel →
    ((powModAux m fuel b e acc : ℤ) : ZMod m) = (acc : ZMod m) * (b : ZMod m) ^ e := by
  intro fuel
  induction fuel with
  | zero =>
    intro b e acc he
    have : e = 0 := by simpa using he
    subst this
    simp [powModAux]
  | succ f ih =>
    intro b e acc he
    unfold powModAux
    by_cases h0 : e = 0
    · subst h0; simp
    · rw [if_neg h0]
      have he2 : e / 2 < 2 ^ f := by
        rw [pow_succ] at he
        omega
      rw [ih _ _ _ he2]
      have hsplit : (b : ZMod m) ^ e = ((b : ZMod m) * b) ^ (e / 2) * (b : ZMod m) ^ (e % 2) := by
        conv_lhs => rw [← Nat.div_add_mod e 2, pow_add, pow_mul, sq]
      rw [hsplit]
      rcases Nat.mod_two_eq_zero_or_one e with h | h
      · rw [if_neg (by omega), h]
        simp only [cast_emod, Int.cast_mul, pow_zero, mul_one]
      · rw [if_pos h, h]
        simp only [cast_emod, Int.cast_mul, pow_one]
        ring

theorem powModAux_range (m : ℕ) (hm : 0 < m) : ∀ (fuel : ℕ) (b : ℤ) (e : ℕ) (acc : ℤ), 0 ≤ acc → acc < m →
    0 ≤ powModAux m fuel b e acc ∧ powModAux m fuel b e acc < m := by
  intro fuel
  induction fuel with
  | zero => intro b e acc h0 h1; exact ⟨h0, h1⟩
  | succ f ih =>
    intro b e acc h0 h1
    unfold powModAux
    by_cases he : e = 0
    · rw [if_pos he]; exact ⟨h0, h1⟩
    · rw [if_neg he]
      by_cases ho : e % 2 = 1
      · rw [if_pos ho]; exact ih _ _ _ (emod_range hm _).1 (emod_range hm _).2
      · rw [if_neg ho]; exact ih _ _ _ h0 h1

theorem powMod_cast (m : ℕ) (b : ℤ) (e : ℕ) : ((powMod b e m : ℤ) : ZMod m) = (b : ZMod m) ^ e := by
  unfold powMod
  rw [powModAux_cast m _ _ _ _ Nat.lt_log2_self]
  simp

theorem powMod_range (m : ℕ) (hm : 0 < m) (b : ℤ) (e : ℕ) : 0 ≤ powMod b e m ∧ powMod b e m < m := by
  unfold powMod
  exact powModAux_range m hm _ _ _ _ (emod_range hm _).1 (emod_range hm _).2

/-- the model of Python's built-in three-argument `pow` is `b ^ e mod m` -/
theorem powMod_eq (m : ℕ) (hm : 0 < m) (b : ℤ) (e : ℕ) : powMod b e m = b ^ e % (m : ℤ) := by
  obtain ⟨h0, h1⟩ := powMod_range m hm b e
  obtain ⟨h2, h3⟩ := emod_range hm (b ^ e)
  apply eq_of_cast_eq h0 h1 h2 h3
  rw [powMod_cast, cast_emod]
  push_cast
  rfl

/-! ### `modinv` -/

/-- the loop invariant of extended Euclid: `tᵢ·a ≡ rᵢ (mod n)`, gcd preserved, fuel sufficient -/
theorem modinvLoop_spec (n : ℕ) (a : ℤ) : ∀ (fuel : ℕ) (t1 t2 r1 r2 : ℤ), 0 ≤ r1 → 0 ≤ r2 → r2.natAbs < fuel →
    ((t1 : ZMod n) * a = r1) → ((t2 : ZMod n) * a = r2) →
    ∃ t : ℤ, modinvLoop fuel t1 t2 r1 r2 = some (t, (Int.gcd r1 r2 : ℤ)) ∧
      (t : ZMod n) * a = ((Int.gcd r1 r2 : ℤ) : ZMod n) := by
  intro fuel
  induction fuel with
  | zero => intro t1 t2 r1 r2 _ _ h; omega
  | succ f ih =>
    intro t1 t2 r1 r2 h1 h2 hf e1 e2
    unfold modinvLoop
    by_cases hz : r2 = 0
    · subst hz
      rw [if_pos rfl]
      have : ((Int.gcd r1 0 : ℕ) : ℤ) = r1 := by
        rw [Int.gcd_zero_right]; exact Int.natAbs_of_nonneg h1
      exact ⟨t1, by rw [this], by rw [this]; exact e1⟩
    · rw [if_neg hz]
      have hpos : 0 < r2 := lt_of_le_of_ne h2 (Ne.symm hz)
      have hq : Int.fdiv r1 r2 = r1 / r2 := Int.fdiv_eq_ediv_of_nonneg _ h2
      simp only [hq]
      have hrem : r1 - r1 / r2 * r2 = r1 % r2 := by
        have := Int.emod_def r1 r2
        rw [this]; ring
      rw [hrem]
      have hr0 : 0 ≤ r1 % r2 := Int.emod_nonneg _ hz
      have hrlt : r1 % r2 < r2 := Int.emod_lt_of_pos _ hpos
      have hfuel : (r1 % r2).natAbs < f := by omega
      have e3 : ((t1 - r1 / r2 * t2 : ℤ) : ZMod n) * a = ((r1 % r2 : ℤ) : ZMod n) := by
        rw [← hrem]
        push_cast
        linear_combination e1 - ((r1 / r2 : ℤ) : ZMod n) * e2
      obtain ⟨t, ht, hta⟩ := ih t2 (t1 - r1 / r2 * t2) r2 (r1 % r2) h2 hr0 hfuel e2 e3
      have hg : Int.gcd r2 (r1 % r2) = Int.gcd r1 r2 := by
        rw [Int.gcd_comm, Int.gcd_emod]
      rw [hg] at ht hta
      exact ⟨t, ht, hta⟩

/-- `modinv(a, n)` answers `t` with `t·a ≡ 1 (mod n)` when `gcd(a, n) = 1` (`a ≥ 0`, `n > 0`) -/
theorem modinv_some (n : ℕ) (a : ℤ) (ha : 0 ≤ a) (hg : Int.gcd a n = 1) :
    ∃ t : ℤ, modinv a n = some t ∧ (t : ZMod n) * a = 1 := by
  obtain ⟨t, ht, hta⟩ := modinvLoop_spec n a (a.natAbs + 2) 0 1 n a (by positivity) ha (by omega)
    (by simp) (by simp)
  have hg' : Int.gcd (n : ℤ) a = 1 := by rw [Int.gcd_comm]; exact hg
  rw [hg'] at ht hta
  unfold modinv
  rw [ht]
  simp only [Nat.cast_one, gt_iff_lt, lt_self_iff_false, if_false]
  refine ⟨_, rfl, ?_⟩
  split
  · push_cast; simpa using hta
  · simpa using hta

/-- `modinv(a, n)` is `None` when `gcd(a, n) ≠ 1` (`a ≥ 0`, `n > 0`) — e.g. `modinv(0, n)`, `modinv(n, n)` -/
theorem modinv_none (n : ℕ) (hn : 0 < n) (a : ℤ) (ha : 0 ≤ a) (hg : Int.gcd a n ≠ 1) : modinv a n = none := by
  obtain ⟨t, ht, _⟩ := modinvLoop_spec n a (a.natAbs + 2) 0 1 n a (by positivity) ha (by omega)
    (by simp) (by simp)
  have hpos : 0 < Int.gcd (n : ℤ) a := Int.gcd_pos_of_ne_zero_left _ (by exact_mod_cast hn.ne')
  have hne : Int.gcd (n : ℤ) a ≠ 1 := by rw [Int.gcd_comm]; exact hg
  unfold modinv
  rw [ht]
  simp only
  rw [if_pos (by omega)]

/-- for a prime modulus and an argument that is not a multiple of it, `modinv` is the field inverse -/
theorem modinv_inv (p : ℕ) [Fact p.Prime] (a : ℤ) (ha : 0 ≤ a) (hne : (a : ZMod p) ≠ 0) :
    ∃ t : ℤ, modinv a p = some t ∧ (t : ZMod p) = (a : ZMod p)⁻¹ := by
  have hp : p.Prime := Fact.out
  have hg : Int.gcd a p = 1 := by
    have hnd : ¬ (p : ℤ) ∣ a := fun h => hne ((ZMod.intCast_zmod_eq_zero_iff_dvd a p).mpr h)
    have : Int.gcd a p = Nat.gcd a.natAbs p := by simp [Int.gcd]
    rw [this, Nat.gcd_comm]
    have : ¬ p ∣ a.natAbs := fun h => hnd (Int.natCast_dvd.mpr h)
    exact (Nat.Prime.coprime_iff_not_dvd hp).mpr this
  obtain ⟨t, ht, hta⟩ := modinv_some p a ha hg
  exact ⟨t, ht, eq_inv_of_mul_eq_one_left hta⟩

/-- for a prime modulus `modinv` answers `None` exactly on the multiples of `p` -/
theorem modinv_zero (p : ℕ) [Fact p.Prime] (a : ℤ) (ha : 0 ≤ a) (h0 : (a : ZMod p) = 0) : modinv a p = none := by
  have hp : p.Prime := Fact.out
  apply modinv_none p hp.pos a ha
  have hd : (p : ℤ) ∣ a := (ZMod.intCast_zmod_eq_zero_iff_dvd a p).mp h0
  have : Int.gcd a p = p := by
    rw [Int.gcd_comm]
    exact Int.gcd_eq_left_iff_dvd (by positivity) |>.mpr hd |> fun h => by simpa using h
  rw [this]
  exact hp.one_lt.ne'

/-- second loop invariant (size of the Bézout coefficients): the signs of `t1`, `t2` alternate and
    `|t2|·r1 + |t1|·r2 = n`, `|t1|·(r1 + 1) ≤ n` — so the coefficient returned is at most `n / 2` in absolute value -/
theorem modinvLoop_range (n : ℤ) : ∀ (fuel : ℕ) (t1 t2 r1 r2 u1 u2 : ℤ), 0 ≤ r2 → r2 < r1 → 0 ≤ u1 → 0 ≤ u2 →
    ((t1 = -u1 ∧ t2 = u2) ∨ (t1 = u1 ∧ t2 = -u2)) → u2 * r1 + u1 * r2 = n → (u1 * (r1 + 1) ≤ n ∨ u1 = 0) →
    ∀ t r, modinvLoop fuel t1 t2 r1 r2 = some (t, r) →
      ∃ u : ℤ, 0 ≤ u ∧ (t = u ∨ t = -u) ∧ (u * (r + 1) ≤ n ∨ u = 0) ∧ 1 ≤ r := by
  intro fuel
  induction fuel with
  | zero => intro t1 t2 r1 r2 u1 u2 _ _ _ _ _ _ _ t r h; simp [modinvLoop] at h
  | succ f ih =>
    intro t1 t2 r1 r2 u1 u2 h2 h21 hu1 hu2 hs hA hB t r h
    unfold modinvLoop at h
    by_cases hz : r2 = 0
    · rw [if_pos hz] at h
      simp only [Option.some.injEq, Prod.mk.injEq] at h
      obtain ⟨rfl, rfl⟩ := h
      refine ⟨u1, hu1, ?_, hB, by omega⟩
      rcases hs with ⟨h, _⟩ | ⟨h, _⟩
      · right; exact h
      · left; exact h
    · rw [if_neg hz] at h
      have hpos : 0 < r2 := lt_of_le_of_ne h2 (Ne.symm hz)
      have hq : Int.fdiv r1 r2 = r1 / r2 := Int.fdiv_eq_ediv_of_nonneg _ h2
      simp only [hq] at h
      have hq0 : 0 ≤ r1 / r2 := Int.ediv_nonneg (by omega) h2
      have hrem : r1 - r1 / r2 * r2 = r1 % r2 := by
        have := Int.emod_def r1 r2
        rw [this]; ring
      rw [hrem] at h
      have hr0 : 0 ≤ r1 % r2 := Int.emod_nonneg _ hz
      have hrlt : r1 % r2 < r2 := Int.emod_lt_of_pos _ hpos
      apply ih t2 (t1 - r1 / r2 * t2) r2 (r1 % r2) u2 (u1 + r1 / r2 * u2) hr0 hrlt hu2
        (by positivity) ?_ ?_ ?_ t r h
      · rcases hs with ⟨a1, a2⟩ | ⟨a1, a2⟩
        · right; refine ⟨a2, ?_⟩; rw [a1, a2]; ring
        · left; refine ⟨a2, ?_⟩; rw [a1, a2]; ring
      · rw [← hrem, ← hA]; ring
      · left
        have h1 : u2 * (r2 + 1) ≤ u2 * r1 := mul_le_mul_of_nonneg_left (by omega) hu2
        have h3 : 0 ≤ u1 * r2 := mul_nonneg hu1 h2
        omega

/-- **`modinv(a, n)` answers the canonical representative**: for `0 ≤ a < n` the value returned lies in `[0, n)` -/
theorem modinv_range (n : ℕ) (a : ℤ) (h0 : 0 ≤ a) (h1 : a < n) (t : ℤ) (h : modinv a n = some t) : 0 ≤ t ∧ t < n := by
  unfold modinv at h
  cases hl : modinvLoop (a.natAbs + 2) 0 1 n a with
  | none => rw [hl] at h; cases h
  | some tr =>
    obtain ⟨t1, r⟩ := tr
    rw [hl] at h
    simp only at h
    obtain ⟨u, hu0, hsgn, hB, hr⟩ := modinvLoop_range n (a.natAbs + 2) 0 1 n a 0 1 h0 h1 le_rfl zero_le_one
      (Or.inl ⟨by simp, rfl⟩) (by ring) (Or.inr rfl) t1 r hl
    split at h
    · cases h
    · rename_i hr1
      simp only [Option.some.injEq] at h
      have hr1' : r = 1 := by omega
      subst hr1'
      have hn : (0 : ℤ) < n := by omega
      have hu : u * 2 ≤ n ∨ u = 0 := by simpa using hB
      split at h
      · rename_i hneg
        rcases hsgn with hs | hs
        · omega
        · omega
      · rename_i hneg
        rcases hsgn with hs | hs
        · omega
        · omega

/-! ### `modsqrt` (p ≡ 3 mod 4) -/

section sqrt
variable (p : ℕ) [Fact p.Prime]

omit [Fact p.Prime] in
theorem modsqrt_raises (a : ℤ) (h : p % 4 ≠ 3) : modsqrt a p = none := by
  unfold modsqrt; rw [if_pos h]

/-- what `modsqrt` returns is a reduced square root -/
theorem modsqrt_sound (a y : ℤ) (h : modsqrt a p = some (some y)) :
    0 ≤ y ∧ y < p ∧ (y : ZMod p) ^ 2 = (a : ZMod p) := by
  have hp : p.Prime := Fact.out
  unfold modsqrt at h
  split at h
  · cases h
  · simp only at h
    split at h
    · rename_i hc
      simp only [Option.some.injEq] at h
      subst h
      obtain ⟨h0, h1⟩ := powMod_range p hp.pos a ((p + 1) / 4)
      refine ⟨h0, h1, ?_⟩
      have := congrArg (fun t : ℤ => (t : ZMod p)) hc
      simp only [cast_emod] at this
      rw [powMod_cast] at this
      exact this
    · cases h

/-- Euler: for `p ≡ 3 (mod 4)` the power `a^((p+1)/4)` squares to `a` whenever `a` is a square -/
theorem sqrt_candidate_sq (h3 : p % 4 = 3) (a : ZMod p) (hsq : IsSquare a) : (a ^ ((p + 1) / 4)) ^ 2 = a := by
  obtain ⟨c, rfl⟩ := hsq
  by_cases hc : c = 0
  · subst hc
    have : (p + 1) / 4 ≠ 0 := by omega
    simp [this]
  · have hf := ZMod.pow_card_sub_one_eq_one hc
    have he : ((p + 1) / 4) * 2 * 2 = (p - 1) + 2 := by omega
    calc ((c * c) ^ ((p + 1) / 4)) ^ 2 = c ^ (((p + 1) / 4) * 2 * 2) := by
          rw [← sq, ← pow_mul, ← pow_mul]; ring_nf
      _ = c ^ (p - 1) * c ^ 2 := by rw [he, pow_add]
      _ = c * c := by rw [hf]; ring

/-- `modsqrt` finds a root of every square … -/
theorem modsqrt_complete (h3 : p % 4 = 3) (a : ℤ) (hsq : IsSquare (a : ZMod p)) :
    ∃ y, modsqrt a p = some (some y) := by
  unfold modsqrt
  rw [if_neg (by omega)]
  simp only
  refine ⟨powMod a ((p + 1) / 4) p, ?_⟩
  rw [if_pos]
  have hp : p.Prime := Fact.out
  obtain ⟨h0, h1⟩ := powMod_range p hp.pos (powMod a ((p + 1) / 4) p) 2
  obtain ⟨h2, h3'⟩ := emod_range hp.pos a
  apply eq_of_cast_eq h0 h1 h2 h3'
  rw [powMod_cast, powMod_cast, cast_emod]
  exact sqrt_candidate_sq p h3 _ hsq

/-- … and answers `None` for a non-square -/
theorem modsqrt_nonsquare (h3 : p % 4 = 3) (a : ℤ) (hsq : ¬ IsSquare (a : ZMod p)) :
    modsqrt a p = some none := by
  cases hm : modsqrt a p with
  | none => unfold modsqrt at hm; rw [if_neg (by omega)] at hm; simp only at hm; split at hm <;> cases hm
  | some r =>
    cases r with
    | none => rfl
    | some y =>
      exfalso
      obtain ⟨_, _, hy⟩ := modsqrt_sound p a y hm
      exact hsq ⟨(y : ZMod p), by rw [← hy]; ring⟩

end sqrt

end Embit.Model.PyCurve
