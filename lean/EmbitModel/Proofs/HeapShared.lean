import EmbitModel.Model.HeapShared
/-
  Invariant of the shared-state model: in a safe environment no live object holds a global cell, every constant table a
  live object sees is a cell no method writes, and the cells whose contents can enter a result keep their import-time
  contents.
-/
namespace Embit.HeapShared

/-- no live object holds a global cell, and the constant tables it sees are among the read cells of the environment -/
def Inv (env : Env) (st : State) : Prop :=
  ∀ o ∈ st.objs, ∀ f ∈ o, (∀ g, f ≠ .shared g) ∧ (∀ g, f = .table g → g ∈ env.readCells)

theorem inv_init (env : Env) (g0 : Nat → List Val) : Inv env (init g0) := by
  intro o ho
  simp [init] at ho

theorem mkField_inv (k : FieldSrc) (h : k.safe = true) (a : Option (List Val)) :
    (∀ g, mkField k a ≠ .shared g) ∧ (∀ g, mkField k a = .table g → k.tableCell = some g) := by
  cases k with
  | fresh => simp [mkField]
  | global g' => simp [FieldSrc.safe] at h
  | globalOr g' => simp [FieldSrc.safe] at h
  | globalAlways g' => simp [FieldSrc.safe] at h
  | constTable g' =>
    refine ⟨by simp [mkField], fun g hg => ?_⟩
    simp only [mkField, Field.table.injEq] at hg
    simp [FieldSrc.tableCell, hg]

theorem mkFields_inv (ks : List FieldSrc) (h : ks.all FieldSrc.safe = true) (args : List (Option (List Val))) :
    ∀ f ∈ mkFields ks args, (∀ g, f ≠ .shared g) ∧ (∀ g, f = .table g → g ∈ ks.filterMap FieldSrc.tableCell) := by
  induction ks generalizing args with
  | nil => intro f hf; simp [mkFields] at hf
  | cons k ks ih =>
    simp only [List.all_cons, Bool.and_eq_true] at h
    intro f hf
    simp only [mkFields, List.mem_cons] at hf
    rcases hf with rfl | hf
    · have := mkField_inv k h.1 (args.head?.getD none)
      refine ⟨this.1, fun g hg => ?_⟩
      have hk := this.2 g hg
      simp [hk]
    · have := ih h.2 _ f hf
      refine ⟨this.1, fun g hg => ?_⟩
      have hm := this.2 g hg
      simp only [List.filterMap_cons]
      split
      · exact hm
      · exact List.mem_cons_of_mem _ hm

theorem safe_makers {env : Env} (hs : env.safe = true) {c : Nat} {d : Maker} (hd : env.makers[c]? = some d) :
    d.fields.all FieldSrc.safe = true := by
  simp only [Env.safe, Bool.and_eq_true, List.all_eq_true] at hs
  exact List.all_eq_true.mpr (hs.1 d (List.mem_of_getElem? hd))

theorem tableCell_mem_readCells {env : Env} {c : Nat} {d : Maker} (hd : env.makers[c]? = some d) {g : Nat}
    (hg : g ∈ d.fields.filterMap FieldSrc.tableCell) : g ∈ env.readCells := by
  unfold Env.readCells
  apply List.mem_append_right
  exact List.mem_flatMap.mpr ⟨d, List.mem_of_getElem? hd, hg⟩

theorem reads_mem_readCells {env : Env} {m g : Nat} (hg : g ∈ readsOf env m) : g ∈ env.readCells := by
  unfold readsOf at hg
  split at hg
  · rename_i d hd
    unfold Env.readCells
    apply List.mem_append_left
    exact List.mem_flatMap.mpr ⟨d, List.mem_of_getElem? hd, hg⟩
  · simp at hg

/-- a safe environment's methods write no cell whose contents can enter a result -/
theorem safe_writes {env : Env} (hs : env.safe = true) (m : Nat) : ∀ g ∈ writesOf env m, g ∉ env.readCells := by
  simp only [Env.safe, Bool.and_eq_true, List.all_eq_true] at hs
  unfold writesOf
  split
  · rename_i d hd
    intro g hg hr
    have := hs.2 d (List.mem_of_getElem? hd) g hg
    simp [hr] at this
  · intro g hg; simp at hg

theorem writeAll_objs (st : State) (gs : List Nat) : (writeAll st gs).objs = st.objs := by
  induction gs generalizing st with
  | nil => rfl
  | cons g gs ih => simp [writeAll, ih, setGlob]

theorem writeAll_glob (st : State) (gs : List Nat) (g : Nat) (hg : g ∉ gs) : (writeAll st gs).glob g = st.glob g := by
  induction gs generalizing st with
  | nil => rfl
  | cons g' gs ih =>
    simp only [List.mem_cons, not_or] at hg
    simp only [writeAll]
    rw [ih _ hg.2]
    simp [setGlob, hg.1]

/-- one step of a safe environment keeps the invariant, and every cell whose contents can enter a result -/
theorem step_inv {env : Env} (hs : env.safe = true) (st : State) (hn : Inv env st) (op : Op) :
    Inv env (step env st op) ∧ ∀ g ∈ env.readCells, (step env st op).glob g = st.glob g := by
  cases op with
  | make c args =>
    simp only [step]
    split
    · exact ⟨hn, fun _ _ => rfl⟩
    · rename_i d hd
      refine ⟨?_, fun _ _ => rfl⟩
      intro o ho
      simp only [List.mem_append, List.mem_singleton] at ho
      rcases ho with ho | rfl
      · exact hn o ho
      · intro f hf
        have := mkFields_inv _ (safe_makers hs hd) args f hf
        exact ⟨this.1, fun g hg => tableCell_mem_readCells hd (this.2 g hg)⟩
  | mutate i fld v =>
    simp only [step]
    split
    · exact ⟨hn, fun _ _ => rfl⟩
    · rename_i o ho
      have hoM : o ∈ st.objs := List.mem_of_getElem? ho
      split
      · exact ⟨hn, fun _ _ => rfl⟩
      · rename_i c hc
        refine ⟨?_, fun _ _ => rfl⟩
        intro o' ho'
        rcases List.mem_or_eq_of_mem_set ho' with h | rfl
        · exact hn o' h
        · intro f hf
          rcases List.mem_or_eq_of_mem_set hf with h | rfl
          · exact hn o hoM f h
          · simp
      · rename_i g hg
        exact absurd rfl ((hn o hoM _ (List.mem_of_getElem? hg)).1 g)
      · exact ⟨hn, fun _ _ => rfl⟩
  | call i m a =>
    simp only [step]
    refine ⟨?_, fun g hg => writeAll_glob _ _ _ (fun hw => safe_writes hs m g hw hg)⟩
    intro o ho
    rw [writeAll_objs] at ho
    exact hn o ho

theorem run_inv {env : Env} (hs : env.safe = true) (h : List Op) (st : State) (hn : Inv env st) :
    Inv env (run env st h) ∧ ∀ g ∈ env.readCells, (run env st h).glob g = st.glob g := by
  induction h generalizing st with
  | nil => exact ⟨hn, fun _ _ => rfl⟩
  | cons op ops ih =>
    have h1 := step_inv hs st hn op
    have h2 := ih (step env st op) h1.1
    exact ⟨h2.1, fun g hg => (h2.2 g hg).trans (h1.2 g hg)⟩

theorem run_append (env : Env) (st : State) (h1 h2 : List Op) :
    run env st (h1 ++ h2) = run env (run env st h1) h2 := by
  induction h1 generalizing st with
  | nil => rfl
  | cons op ops ih => simp [run, ih]

/-- an object without global cells reads the same in two states that hold the same object and agree on the read cells -/
theorem obs_congr {env : Env} (st st' : State) (j : Nat) (hn : Inv env st) (ho : st'.objs[j]? = st.objs[j]?)
    (hg : ∀ g ∈ env.readCells, st'.glob g = st.glob g) : obs st' j = obs st j := by
  unfold obs
  rw [ho]
  cases h : st.objs[j]? with
  | none => rfl
  | some o =>
    simp only
    apply List.map_congr_left
    intro f hf
    have hi := hn o (List.mem_of_getElem? h) f hf
    cases f with
    | own c => rfl
    | shared g => exact absurd rfl (hi.1 g)
    | table g => simp [fieldObs, hg g (hi.2 g rfl)]

/-- in a safe environment no operation changes what can be seen of an object it does not work on -/
theorem step_frame {env : Env} (hs : env.safe = true) (st : State) (hn : Inv env st) (op : Op) (j : Nat)
    (hj : j < st.objs.length) (hne : ∀ i fld v, op = .mutate i fld v → i ≠ j) :
    obs (step env st op) j = obs st j := by
  have hg := (step_inv hs st hn op).2
  apply obs_congr _ _ _ hn _ hg
  cases op with
  | make c args =>
    simp only [step]
    split
    · rfl
    · simp [List.getElem?_append_left hj]
  | mutate i fld v =>
    have hij : i ≠ j := hne i fld v rfl
    simp only [step]
    split
    · rfl
    · split
      · rfl
      · simp [List.getElem?_set_ne hij]
      · rfl
      · rfl
  | call i m a => simp [step, writeAll_objs]

end Embit.HeapShared
