import EmbitModel.Proofs.Slip39RsElim
/- RS1024 rank checks (kernel evaluation), part 0: all position triples whose largest offset is in [32] -/
namespace Embit.Model.Slip39
set_option maxRecDepth 1000000 in
theorem tripleOk_32 : tripleOk 32 = true := by decide +kernel
end Embit.Model.Slip39
