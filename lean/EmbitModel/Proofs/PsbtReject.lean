import EmbitModel.Proofs.PsbtParseWF
/-
  C04 (deepening): helper lemmas for the rejection rules of `PSBT.parse` — uniqueness of the key-value framing,
  the decomposition of an accepted PSBT relative to a GIVEN framing, and what the global fold demands of the
  global scope.
-/
set_option linter.unusedSimpArgs false
set_option linter.unusedVariables false
namespace Embit
open Model Spec.Wire

/-! ### the framing of a PSBT is unique -/

theorem writeKVs_inj (g g' : List KV) (r r' : Bytes) (hg : ∀ kv ∈ g, KVWF kv) (hg' : ∀ kv ∈ g', KVWF kv)
    (h : writeKVs g ++ r = writeKVs g' ++ r') : g = g' ∧ r = r' := by
  have a := readKVs_write g r hg
  have b := readKVs_write g' r' hg'
  rw [h, b] at a
  simp at a
  exact ⟨a.1.symm, a.2.symm⟩

theorem writeKVs_ne_nil (g : List KV) (r : Bytes) : writeKVs g ++ r ≠ [] := by
  have := writeKVs_length g
  intro e
  have h2 := congrArg List.length e
  rw [List.length_append, List.length_nil] at h2; omega

theorem scopes_inj : ∀ (s s' : List (List KV)), (∀ kvs ∈ s, ∀ kv ∈ kvs, KVWF kv) → (∀ kvs ∈ s', ∀ kv ∈ kvs, KVWF kv) →
    s.flatMap writeKVs = s'.flatMap writeKVs → s = s' := by
  intro s
  induction s with
  | nil =>
    intro s' _ _ h
    cases s' with
    | nil => rfl
    | cons x xs => simp only [List.flatMap_nil, List.flatMap_cons] at h; exact absurd h.symm (writeKVs_ne_nil _ _)
  | cons x xs ih =>
    intro s' hs hs' h
    cases s' with
    | nil => simp only [List.flatMap_nil, List.flatMap_cons] at h; exact absurd h (writeKVs_ne_nil _ _)
    | cons y ys =>
      simp only [List.flatMap_cons] at h
      obtain ⟨e1, e2⟩ := writeKVs_inj x y _ _ (hs x (by simp)) (hs' y (by simp)) h
      rw [e1, ih ys (fun k hk => hs k (by simp [hk])) (fun k hk => hs' k (by simp [hk])) e2]

/-- the bytes of a PSBT with global pairs `g` and scope pairs `scopes` (inputs first, then outputs) -/
def framePsbt (g : List KV) (scopes : List (List KV)) : Bytes :=
  psbtMagic ++ (writeKVs g ++ scopes.flatMap writeKVs)

/-- `PSBT.parse` (KEEP_ALL) accepted a framed byte string: the decomposition, relative to THAT framing -/
theorem parse_framed_decomp (ko : KeyOps) (sha : Bytes → Bytes) (g : List KV) (scopes : List (List KV)) (p : Psbt)
    (hg : ∀ kv ∈ g, KVWF kv) (hs : ∀ kvs ∈ scopes, ∀ kv ∈ kvs, KVWF kv)
    (h : Psbt.parse ko sha 0 (framePsbt g scopes) = some p) :
    ∃ (tx : Option Tx) (unk : List KV) (gs : GState),
      globalFold none none [] g = some (tx, p.version, unk)
      ∧ parseUnknowns ko (p.version == some 2) (gstate0 tx) unk = some gs
      ∧ ((p.version = some 2 ∧ tx = none) ∨ (p.version ≠ some 2 ∧ ∃ t, tx = some t))
      ∧ p.txVersion = gs.txVersion ∧ p.locktime = gs.locktime ∧ p.xpubs = gs.xpubs ∧ p.unknown = gs.unknown
      ∧ scopes.length = p.inputs.length + p.outputs.length
      ∧ p.inputs.length = gs.nin.getD 0 ∧ p.outputs.length = gs.nout.getD 0
      ∧ (∀ j, j < p.inputs.length → ∃ kvs s, scopes[j]? = some kvs ∧ p.inputs[j]? = some s
            ∧ InScope.addPairs ko sha 0 (seedIn tx j) kvs = some s)
      ∧ (∀ j, j < p.outputs.length → ∃ kvs s, scopes[p.inputs.length + j]? = some kvs ∧ p.outputs[j]? = some s
            ∧ OutScope.addPairs ko (seedOut tx j) kvs = some s)
      ∧ (∀ t, tx = some t → p.tx = some t ∧ p.inputs.length = t.vin.length ∧ p.outputs.length = t.vout.length) := by
  obtain ⟨g', kin, kout, tx, unk, gs, eb, wg, ws, hgf, hpu, hver, q1, q2, q3, q4, l1, l2, l3, l4, fi, fo, ft⟩ :=
    parse_decomp ko sha _ p h
  unfold framePsbt at eb
  have e1 := List.append_cancel_left eb
  obtain ⟨e2, e3⟩ := writeKVs_inj g g' _ _ hg wg e1
  have e4 := scopes_inj scopes (kin ++ kout) hs ws e3
  subst e2
  refine ⟨tx, unk, gs, hgf, hpu, hver, q1, q2, q3, q4, by rw [e4]; simp [l1, l2], l3, l4, ?_, ?_, ft⟩
  · intro j hj
    obtain ⟨kvs, s, a1, a2, a3⟩ := fi j hj
    refine ⟨kvs, s, ?_, a2, a3⟩
    rw [e4, List.getElem?_append_left (by omega)]; exact a1
  · intro j hj
    obtain ⟨kvs, s, a1, a2, a3⟩ := fo j hj
    refine ⟨kvs, s, ?_, a2, a3⟩
    rw [e4, List.getElem?_append_right (by omega)]
    rw [show p.inputs.length + j - kin.length = j by omega]; exact a1

/-! ### the global scope -/

/-- `PSBT.parse` of a byte string whose global scope is framed, any mode: it is decided by the global fold first -/
theorem parse_global_none (ko : KeyOps) (sha : Bytes → Bytes) (c : Nat) (g : List KV) (rest : Bytes)
    (hg : ∀ kv ∈ g, KVWF kv)
    (h : ∀ tx ver unk, globalFold none none [] g = some (tx, ver, unk) →
      (tx.isSome && ver == some 2) = true ∨ (tx.isNone && !(ver == some 2)) = true) :
    Psbt.parse ko sha c (psbtMagic ++ (writeKVs g ++ rest)) = none := by
  have h1 : takeN 5 (psbtMagic ++ (writeKVs g ++ rest)) = some (psbtMagic, writeKVs g ++ rest) :=
    takeN_append psbtMagic _
  have h2 := readKVs_write g rest hg
  unfold Psbt.parse
  simp only [h1, h2]
  cases hgf : globalFold none none [] g with
  | none => simp
  | some r =>
    obtain ⟨tx, ver, unk⟩ := r
    rcases h tx ver unk hgf with hh | hh
    · simp [hh]
    · cases hc : (tx.isSome && ver == some 2) <;> simp [hh]

/-- no key 00 in the global scope: the fold leaves the transaction as it was -/
theorem globalFold_tx_absent : ∀ (g : List KV) (tx : Option Tx) (ver : Option Nat) (unk : List KV)
    (tx' : Option Tx) (ver' : Option Nat) (unk' : List KV),
    globalFold tx ver unk g = some (tx', ver', unk') → (∀ kv ∈ g, kv.1 ≠ [0x00]) → tx' = tx := by
  intro g
  induction g with
  | nil => intro tx ver unk tx' ver' unk' h _; simp [globalFold] at h; exact h.1.symm
  | cons kv g ih =>
    intro tx ver unk tx' ver' unk' h hno
    obtain ⟨k, v⟩ := kv
    have hk : k ≠ [0x00] := hno (k, v) (by simp)
    have hno' : ∀ kv ∈ g, kv.1 ≠ [0x00] := fun x hx => hno x (by simp [hx])
    simp only [globalFold, hk, if_false] at h
    split at h
    · split at h
      · simp at h
      · split at h
        · simp at h
        · exact ih _ _ _ _ _ _ h hno'
    · split at h
      · simp at h
      · exact ih _ _ _ _ _ _ h hno'

/-- a successful global fold saw every key once -/
theorem globalFold_keys_nodup : ∀ (g : List KV) (tx : Option Tx) (ver : Option Nat) (unk : List KV)
    (tx' : Option Tx) (ver' : Option Nat) (unk' : List KV),
    globalFold tx ver unk g = some (tx', ver', unk') → (∀ u ∈ unk, notTxVer u = true) →
      (g.map Prod.fst).Nodup ∧ (tx.isSome = true → ∀ kv ∈ g, kv.1 ≠ [0x00])
      ∧ (ver.isSome = true → ∀ kv ∈ g, kv.1 ≠ [0xfb]) ∧ (∀ u ∈ unk, ∀ kv ∈ g, kv.1 ≠ u.1) := by
  intro g
  induction g with
  | nil => intro tx ver unk tx' ver' unk' _ _; simp
  | cons kv g ih =>
    intro tx ver unk tx' ver' unk' h hu
    obtain ⟨k, v⟩ := kv
    simp only [globalFold] at h
    split at h
    · rename_i hk0
      split at h
      · simp at h
      · rename_i htx
        split at h
        · simp at h
        · split at h
          · simp at h
          · obtain ⟨a1, a2, a3, a4⟩ := ih _ _ _ _ _ _ h hu
            have htn : tx = none := by simpa using htx
            subst hk0
            refine ⟨?_, by simp [htn], ?_, ?_⟩
            · simp only [List.map_cons, List.nodup_cons]
              refine ⟨?_, a1⟩
              intro hm
              obtain ⟨x, hx, e⟩ := List.mem_map.mp hm
              exact a2 rfl x hx e
            · intro hv x hx
              simp at hx
              rcases hx with rfl | hx
              · simp
              · exact a3 hv x hx
            · intro u huu x hx
              simp at hx
              rcases hx with rfl | hx
              · intro e
                have := hu u huu
                simp [notTxVer, ← e] at this
              · exact a4 u huu x hx
    · rename_i hk0
      split at h
      · rename_i hkfb
        split at h
        · simp at h
        · rename_i hver
          split at h
          · simp at h
          · obtain ⟨a1, a2, a3, a4⟩ := ih _ _ _ _ _ _ h hu
            have hvn : ver = none := by simpa using hver
            subst hkfb
            refine ⟨?_, ?_, by simp [hvn], ?_⟩
            · simp only [List.map_cons, List.nodup_cons]
              refine ⟨?_, a1⟩
              intro hm
              obtain ⟨x, hx, e⟩ := List.mem_map.mp hm
              exact a3 rfl x hx e
            · intro ht x hx
              simp at hx
              rcases hx with rfl | hx
              · simp
              · exact a2 ht x hx
            · intro u huu x hx
              simp at hx
              rcases hx with rfl | hx
              · intro e
                have := hu u huu
                simp [notTxVer, ← e] at this
              · exact a4 u huu x hx
      · rename_i hkfb
        split at h
        · simp at h
        · rename_i hl
          have hu' : ∀ u ∈ unk ++ [(k, v)], notTxVer u = true := by
            intro u huu
            rcases List.mem_append.mp huu with huu | huu
            · exact hu u huu
            · simp at huu; subst huu; simp [notTxVer, hk0, hkfb]
          obtain ⟨a1, a2, a3, a4⟩ := ih _ _ _ _ _ _ h hu'
          have hlk := (lookup_none_iff k unk).mp (by simpa using hl)
          refine ⟨?_, ?_, ?_, ?_⟩
          · simp only [List.map_cons, List.nodup_cons]
            refine ⟨?_, a1⟩
            intro hm
            obtain ⟨x, hx, e⟩ := List.mem_map.mp hm
            exact a4 (k, v) (by simp) x hx e
          · intro ht x hx
            simp at hx
            rcases hx with rfl | hx
            · exact hk0
            · exact a2 ht x hx
          · intro hv x hx
            simp at hx
            rcases hx with rfl | hx
            · exact hkfb
            · exact a3 hv x hx
          · intro u huu x hx
            simp at hx
            rcases hx with rfl | hx
            · exact fun e => hlk u huu e.symm
            · exact a4 u (by simp [huu]) x hx

/-! ### scopes seeded from the global transaction refuse the PSBTv2 transaction-field keys -/

theorem InScope.addPairs_seeded_keys (ko : KeyOps) (sha : Bytes → Bytes) (c : Nat) :
    ∀ (kvs : List KV) (s s' : InScope), InSeeded s → InScope.addPairs ko sha c s kvs = some s' →
      ∀ kv ∈ kvs, txFieldKey kv.1 = false := by
  intro kvs
  induction kvs with
  | nil => intro s s' _ _ kv hkv; simp at hkv
  | cons x kvs ih =>
    intro s s' hs h kv hkv
    obtain ⟨k, v⟩ := x
    simp only [InScope.addPairs] at h
    split at h
    · simp at h
    · rename_i s1 h1
      obtain ⟨e0, e1, e2, e3⟩ := InScope.addPair_seeded ko sha c s s1 k v hs h1
      simp at hkv
      rcases hkv with rfl | hkv
      · exact e0
      · exact ih s1 s' ⟨by rw [e1]; exact hs.1, by rw [e2]; exact hs.2.1, by rw [e3]; exact hs.2.2⟩ h kv hkv

theorem OutScope.addPairs_seeded_keys (ko : KeyOps) :
    ∀ (kvs : List KV) (s s' : OutScope), OutSeeded s → OutScope.addPairs ko s kvs = some s' →
      ∀ kv ∈ kvs, txFieldKeyOut kv.1 = false := by
  intro kvs
  induction kvs with
  | nil => intro s s' _ _ kv hkv; simp at hkv
  | cons x kvs ih =>
    intro s s' hs h kv hkv
    obtain ⟨k, v⟩ := x
    simp only [OutScope.addPairs] at h
    split at h
    · simp at h
    · rename_i s1 h1
      obtain ⟨e0, e1, e2⟩ := OutScope.addPair_seeded ko s s1 k v hs h1
      simp at hkv
      rcases hkv with rfl | hkv
      · exact e0
      · exact ih s1 s' ⟨by rw [e1]; exact hs.1, by rw [e2]; exact hs.2⟩ h kv hkv

/-- the value `parse_unknowns` (version 2) remembers under a count key is the one stored under that key -/
theorem lastFold_unique {α : Type} (key : Bytes) (f : Bytes → Option α) (unk : List KV) (w : Bytes)
    (hnd : (unk.map Prod.fst).Nodup) (hm : (key, w) ∈ unk) : lastFold key f none unk = f w := by
  apply lastFold_char
  · intro kv hkv hk
    have : (key, kv.2) ∈ unk := by rw [← hk]; exact hkv
    rw [nodup_keys_unique unk key kv.2 w hnd this hm]
  · intro hno; exact absurd rfl (hno _ hm)

/-- the transaction the fold returns is the parse of THE value stored under key 00 -/
theorem globalFold_tx_of_mem (g : List KV) (tx : Option Tx) (ver : Option Nat) (unk : List KV) (v : Bytes)
    (h : globalFold none none [] g = some (tx, ver, unk)) (hm : ([0x00], v) ∈ g) :
    ∃ t, tx = some t ∧ Tx.parse v = some t := by
  obtain ⟨t, ht⟩ : ∃ t, tx = some t := by
    rcases (globalFold_spec g _ _ _ _ _ _ h).2.2.2.2 _ hm with ⟨_, t, ht, _⟩ | ⟨e, _⟩ | ⟨_, e, _⟩
    · exact ⟨t, ht⟩
    · simp at e
    · simp at e
  subst ht
  obtain ⟨g1, w, g2, eg, n1, n2, hparse, _⟩ := globalFold_split g _ _ _ _ _ h
  refine ⟨t, rfl, ?_⟩
  rw [eg] at hm
  simp only [List.mem_append, List.mem_cons] at hm
  rcases hm with hm | hm | hm
  · exact absurd rfl (n1 _ hm)
  · simp at hm; rw [hm]; exact hparse
  · exact absurd rfl (n2 _ hm)

/-- version 2: the scope counts `parse_unknowns` ends with are the values stored under keys 04 / 05 -/
theorem parse_v2_counts (ko : KeyOps) (g unk : List KV) (ver : Option Nat) (gs : GState)
    (hgf : globalFold none none [] g = some (none, ver, unk))
    (hpu : parseUnknowns ko true (gstate0 none) unk = some gs) :
    (∀ w, ([0x04], w) ∈ g → gs.nin = parseAll Compact.read w)
    ∧ (∀ w, ([0x05], w) ∈ g → gs.nout = parseAll Compact.read w) := by
  have hunk : unk = g.filter notTxVer := by simpa using globalFold_unk g none none [] none ver unk hgf
  have hnd := globalFold_nodup g none none [] none ver unk hgf (by simp)
  obtain ⟨_, _, f3, f4, _⟩ := parseUnknowns_fold ko unk _ gs hpu
  refine ⟨?_, ?_⟩
  · intro w hw
    rw [f3]
    exact lastFold_unique _ _ unk w hnd (by rw [hunk]; exact List.mem_filter.mpr ⟨hw, rfl⟩)
  · intro w hw
    rw [f4]
    exact lastFold_unique _ _ unk w hnd (by rw [hunk]; exact List.mem_filter.mpr ⟨hw, rfl⟩)

end Embit
