import EmbitModel.Proofs.DescText
import EmbitModel.Proofs.DescDerive
/-
  Helper lemmas for C12: `Miniscript.read_from` / `read_arguments` / `Number` / `Raw` against `__str__`.
-/
namespace Embit.Model.Descriptor
open Embit Embit.Miniscript

variable {K : Type}
/-! ### Number, Raw -/

theorem readNumberAux_digits : ∀ (ds : Str) (acc : Nat) (b : Str) (c : Char) (r : Str),
    (∀ x ∈ ds, (digitVal x).isSome = true) → digitVal c = none →
    readNumberAux acc b (ds ++ c :: r) = some (digitsVal acc ds, ⟨ds.reverse ++ b, c :: r⟩) := by
  intro ds
  induction ds with
  | nil => intro acc b c r _ hc; simp [readNumberAux, hc, digitsVal]
  | cons d ds ih =>
    intro acc b c r hd hc
    have h0 := hd d List.mem_cons_self
    cases hv : digitVal d with
    | none => rw [hv] at h0; cases h0
    | some v =>
      simp only [List.cons_append, readNumberAux, hv, digitsVal, Option.getD_some]
      rw [ih _ (d :: b) c r (fun x hx => hd x (List.mem_cons_of_mem _ hx)) hc]
      simp

theorem readNumber_showNat (n : Nat) (b : Str) (c : Char) (r : Str) (hc : digitVal c = none) :
    readNumber ⟨b, showNat n ++ c :: r⟩ = some (n, ⟨(showNat n).reverse ++ b, c :: r⟩) := by
  unfold readNumber
  rw [readNumberAux_digits (showNat n) 0 b c r (showNat_digits n) hc, digitsVal_showNat]

theorem readRaw_hexlify (len : Nat) (h : Bytes) (hl : h.length = len) (b r : Str) :
    readRaw len ⟨b, hexlify h ++ r⟩ = some (h, ⟨(hexlify h).reverse ++ b, r⟩) := by
  unfold readRaw
  have hlen : (hexlify h).length = 2 * len := by rw [hexlify_length, hl]
  rw [readN_exact (2 * len) b (hexlify h) r hlen]
  simp [hlen, unhexlify_hexlify]

/-! ### operator names -/

theorem keyFragOf_name (f : KeyFrag) : keyFragOf (keyFragName f) = some f := by cases f <;> decide
theorem timeFragOf_name (f : TimeFrag) : keyFragOf (timeFragName f) = none ∧ timeFragOf (timeFragName f) = some f := by
  cases f <;> decide
theorem hashFragOf_name (f : HashFrag) :
    keyFragOf (hashFragName f) = none ∧ timeFragOf (hashFragName f) = none ∧ hashFragOf (hashFragName f) = some f := by
  cases f <;> decide
theorem andor_name : keyFragOf ['a', 'n', 'd', 'o', 'r'] = none ∧ timeFragOf ['a', 'n', 'd', 'o', 'r'] = none ∧
    hashFragOf ['a', 'n', 'd', 'o', 'r'] = none := by decide
theorem binFragOf_name (f : BinFrag) :
    keyFragOf (binFragName f) = none ∧ timeFragOf (binFragName f) = none ∧ hashFragOf (binFragName f) = none ∧
      binFragName f ≠ ['a', 'n', 'd', 'o', 'r'] ∧ binFragOf (binFragName f) = some f := by
  cases f <;> decide
theorem thresh_name : keyFragOf ['t', 'h', 'r', 'e', 's', 'h'] = none ∧ timeFragOf ['t', 'h', 'r', 'e', 's', 'h'] = none ∧
    hashFragOf ['t', 'h', 'r', 'e', 's', 'h'] = none ∧ (['t', 'h', 'r', 'e', 's', 'h'] : Str) ≠ ['a', 'n', 'd', 'o', 'r'] ∧
    binFragOf ['t', 'h', 'r', 'e', 's', 'h'] = none := by decide
theorem multiFragOf_name (f : MultiFrag) :
    keyFragOf (multiFragName f) = none ∧ timeFragOf (multiFragName f) = none ∧ hashFragOf (multiFragName f) = none ∧
      multiFragName f ≠ ['a', 'n', 'd', 'o', 'r'] ∧ binFragOf (multiFragName f) = none ∧
      multiFragName f ≠ ['t', 'h', 'r', 'e', 's', 'h'] ∧ multiFragOf (multiFragName f) = some f := by
  cases f <;> decide

theorem wrapOf_char (w : Wrap) : wrapOf (wrapChar w) = some w := by cases w <;> decide

/-- characters of operator names and wrappers: lower-case letters, digits, `_` — never `(` or `:` -/
def nameChar (c : Char) : Bool := c != '(' && c != ':'

theorem keyFragName_chars (f : KeyFrag) : ∀ c ∈ keyFragName f, nameChar c = true := by cases f <;> decide
theorem timeFragName_chars (f : TimeFrag) : ∀ c ∈ timeFragName f, nameChar c = true := by cases f <;> decide
theorem hashFragName_chars (f : HashFrag) : ∀ c ∈ hashFragName f, nameChar c = true := by cases f <;> decide
theorem binFragName_chars (f : BinFrag) : ∀ c ∈ binFragName f, nameChar c = true := by cases f <;> decide
theorem multiFragName_chars (f : MultiFrag) : ∀ c ∈ multiFragName f, nameChar c = true := by cases f <;> decide
theorem wrapChar_chars (w : Wrap) : nameChar (wrapChar w) = true := by cases w <;> decide

/-! ### shapes -/

def DMs.isWrap : DMs K → Bool
  | .wrap _ _ => true
  | _ => false

/-- `ws` applied around `e`, first = outermost -/
def wrapsOf (ws : List Wrap) (e : DMs K) : DMs K := ws.foldr DMs.wrap e

mutual
/-- fuel the parser needs: nodes and list lengths; wrappers are read in the same call as their operator -/
def DMs.size : DMs K → Nat
  | .key _ _ => 1
  | .time _ _ => 1
  | .hash _ _ => 1
  | .andor x y z => 1 + x.size + y.size + z.size
  | .bin _ x y => 1 + x.size + y.size
  | .thresh _ xs => 2 + DMs.sizeL xs
  | .multi _ _ keys => 2 + keys.length
  | .wrap _ x => x.size
def DMs.sizeL : List (DMs K) → Nat
  | [] => 0
  | x :: r => 1 + x.size + DMs.sizeL r
end

mutual
/-- an expression the parser can have produced and the printer prints back to it -/
def MsNormal (ops : KeyOps K) (tap : Bool) : DMs K → Prop
  | .key f k => KeyNormal ops tap (f == .pk_h || f == .pkh) k
  | .time _ _ => True
  | .hash f h => h.length = hashFragLen f
  | .andor x y z => MsNormal ops tap x ∧ MsNormal ops tap y ∧ MsNormal ops tap z
  | .bin _ x y => MsNormal ops tap x ∧ MsNormal ops tap y
  | .thresh _ xs => MsNormalL ops tap xs
  | .multi f _ keys => Gen.Ms.multiTaproot f = tap ∧ ∀ k ∈ keys, KeyNormal ops tap false k
  | .wrap _ x => MsNormal ops tap x
def MsNormalL (ops : KeyOps K) (tap : Bool) : List (DMs K) → Prop
  | [] => True
  | x :: r => MsNormal ops tap x ∧ MsNormalL ops tap r
end

theorem MsNormalL_mem {ops : KeyOps K} {tap : Bool} : ∀ {xs : List (DMs K)}, MsNormalL ops tap xs →
    ∀ x ∈ xs, MsNormal ops tap x := by
  intro xs
  induction xs with
  | nil => intro _ x hx; cases hx
  | cons a r ih =>
    intro h x hx
    simp only [MsNormalL] at h
    cases hx with
    | head => exact h.1
    | tail _ hm => exact ih h.2 x hm

theorem sizeL_mem : ∀ {xs : List (DMs K)} {x : DMs K}, x ∈ xs → x.size < DMs.sizeL xs := by
  intro xs
  induction xs with
  | nil => intro x hx; cases hx
  | cons a r ih =>
    intro x hx
    simp only [DMs.sizeL]
    cases hx with
    | head => omega
    | tail _ hm => have := ih hm; omega

theorem sizeL_length : ∀ (xs : List (DMs K)), xs.length ≤ DMs.sizeL xs := by
  intro xs
  induction xs with
  | nil => simp [DMs.sizeL]
  | cons a r ih => simp only [DMs.sizeL, List.length_cons]; omega

/-! ### printing a wrapped base expression -/

def wrapPrefix (ws : List Wrap) : Str := if ws = [] then [] else ws.map wrapChar ++ [':']

theorem showMs_wrap_wrap (ops : KeyOps K) (w w' : Wrap) (x : DMs K) :
    showMs ops (.wrap w (.wrap w' x)) = (showMs ops (.wrap w' x)).map fun a => wrapChar w :: a := by
  simp only [showMs]

theorem showMs_wrap_base (ops : KeyOps K) (w : Wrap) (e : DMs K) (he : e.isWrap = false) :
    showMs ops (.wrap w e) = (showMs ops e).map fun a => wrapChar w :: ':' :: a := by
  cases e with
  | wrap _ _ => simp [DMs.isWrap] at he
  | key _ _ => simp only [showMs]
  | time _ _ => simp only [showMs]
  | hash _ _ => simp only [showMs]
  | andor _ _ _ => simp only [showMs]
  | bin _ _ _ => simp only [showMs]
  | thresh _ _ => simp only [showMs]
  | multi _ _ _ => simp only [showMs]

theorem showMs_wrapsOf (ops : KeyOps K) (e : DMs K) (he : e.isWrap = false) : ∀ (ws : List Wrap),
    showMs ops (wrapsOf ws e) = (showMs ops e).map fun t => wrapPrefix ws ++ t := by
  intro ws
  induction ws with
  | nil => simp [wrapsOf, wrapPrefix]
  | cons w r ih =>
    have hw : wrapsOf (w :: r) e = .wrap w (wrapsOf r e) := rfl
    rw [hw]
    cases r with
    | nil =>
      have : wrapsOf [] e = e := rfl
      rw [this, showMs_wrap_base ops w e he]
      cases showMs ops e <;> simp [wrapPrefix]
    | cons w' r' =>
      have hx : wrapsOf (w' :: r') e = .wrap w' (wrapsOf r' e) := rfl
      rw [hx] at ih ⊢
      rw [showMs_wrap_wrap, ih]
      cases showMs ops e <;> simp [wrapPrefix]

theorem applyWrappers_chars (ws : List Wrap) (e : DMs K) :
    applyWrappers (ws.map wrapChar) e = some (wrapsOf ws e) := by
  induction ws with
  | nil => rfl
  | cons w r ih => simp [applyWrappers, ih, wrapOf_char, wrapsOf]


theorem joinWith_cons_flat (a : Str) : ∀ (as : List Str),
    joinWith ',' (a :: as) = a ++ as.flatMap (fun t => ',' :: t) := by
  intro as
  induction as generalizing a with
  | nil => simp [joinWith]
  | cons x r ih => rw [joinWith_cons_cons, ih x]; simp

theorem call_eq (name a : Str) (as : List Str) :
    call name (a :: as) = name ++ '(' :: (a ++ as.flatMap (fun t => ',' :: t) ++ [')']) := by
  simp [call, joinWith_cons_flat]

/-- what it means that `p` reads the text `t` of item `x` in front of `,` or `)` -/
def Reads {α : Type} (p : Stream → Option (α × Stream)) (x : α) (t : Str) : Prop :=
  ∀ (b : Str) (c : Char) (r : Str), (c = ',' ∨ c = ')') → p ⟨b, t ++ c :: r⟩ = some (x, ⟨t.reverse ++ b, c :: r⟩)

theorem flat_next (ts : List Str) (r : Str) :
    ∃ c r', (ts.flatMap (fun t => ',' :: t) ++ ')' :: r) = c :: r' ∧ (c = ',' ∨ c = ')') := by
  cases ts with
  | nil => exact ⟨')', r, rfl, Or.inr rfl⟩
  | cons t ts' => exact ⟨',', t ++ (ts'.flatMap (fun t => ',' :: t) ++ ')' :: r), by simp, Or.inl rfl⟩

inductive AllReads {α : Type} (p : Stream → Option (α × Stream)) : List α → List Str → Prop
  | nil : AllReads p [] []
  | cons {x : α} {t : Str} {xs : List α} {ts : List Str} : Reads p x t → AllReads p xs ts → AllReads p (x :: xs) (t :: ts)

/-- the `while True` loop over `,item` … `)` -/
theorem readMore_spec {α : Type} (p : Stream → Option (α × Stream)) :
    ∀ (items : List α) (texts : List Str), AllReads p items texts →
      ∀ (fuel : Nat) (b r : Str), fuel > items.length →
      readMore p fuel ⟨b, texts.flatMap (fun t => ',' :: t) ++ ')' :: r⟩ =
        some (items, ⟨(texts.flatMap (fun t => ',' :: t) ++ [')']).reverse ++ b, r⟩) := by
  intro items texts h
  induction h with
  | nil =>
    intro fuel b r hf
    cases fuel with
    | zero => omega
    | succ f => simp [readMore, Stream.read1]
  | @cons x t xs ts hx _ ih =>
    intro fuel b r hf
    cases fuel with
    | zero => omega
    | succ f =>
      obtain ⟨c, r', hnext, hc⟩ := flat_next ts r
      have hrest : (t :: ts).flatMap (fun t => ',' :: t) ++ ')' :: r = ',' :: (t ++ c :: r') := by
        simp [List.flatMap_cons, hnext]
      rw [hrest]
      simp only [readMore, Stream.read1]
      rw [hx (',' :: b) c r' hc, ← hnext]
      simp only [ih f (t.reverse ++ ',' :: b) r (by simp at hf; omega)]
      simp

theorem nameChar_not_open {s : Str} (h : ∀ c ∈ s, nameChar c = true) : ∀ c ∈ s, c ∉ ['('] := by
  intro c hc hm
  simp only [List.mem_singleton] at hm
  subst hm
  have := h '(' hc
  revert this
  decide

theorem nameChar_no_colon {s : Str} (h : ∀ c ∈ s, nameChar c = true) : ∀ c ∈ s, c ≠ ':' := by
  intro c hc hm
  subst hm
  have := h ':' hc
  revert this
  decide

theorem contains_colon_false {s : Str} (h : ∀ c ∈ s, nameChar c = true) : s.contains ':' = false := by
  cases hcon : s.contains ':' with
  | false => rfl
  | true =>
    have : ':' ∈ s := by simpa using hcon
    exact absurd rfl (nameChar_no_colon h ':' this)

/-- the common part of every operator: name, wrappers, brackets -/
theorem readMs_base (ops : KeyOps K) (tap : Bool) (e : DMs K) (he : e.isWrap = false) (name args : Str)
    (hshow : showMs ops e = some (name ++ '(' :: (args ++ [')']))) (hname : ∀ c ∈ name, nameChar c = true)
    (fuel : Nat)
    (hbody : ∀ (b' : Str) (c : Char) (r : Str),
      readMsBody ops tap (readMs ops tap fuel) fuel name ⟨b', args ++ ')' :: c :: r⟩ =
        some (e, ⟨(args ++ [')']).reverse ++ b', c :: r⟩))
    (ws : List Wrap) (b : Str) (c : Char) (r : Str) :
    ∃ t, showMs ops (wrapsOf ws e) = some t ∧
      readMs ops tap (fuel + 1) ⟨b, t ++ c :: r⟩ = some (wrapsOf ws e, ⟨t.reverse ++ b, c :: r⟩) := by
  refine ⟨wrapPrefix ws ++ (name ++ '(' :: (args ++ [')'])), by rw [showMs_wrapsOf ops e he ws, hshow]; rfl, ?_⟩
  have hpre : ∀ x ∈ wrapPrefix ws ++ name, x ∉ ['('] := by
    intro x hx
    simp only [List.mem_append] at hx
    cases hx with
    | inr h2 => exact nameChar_not_open hname x h2
    | inl h1 =>
      unfold wrapPrefix at h1
      split at h1
      · cases h1
      · simp only [List.mem_append, List.mem_map, List.mem_singleton] at h1
        rcases h1 with ⟨w, _, rfl⟩ | rfl
        · intro hm; simp only [List.mem_singleton] at hm; have := wrapChar_chars w; rw [hm] at this; revert this; decide
        · decide
  have htext : (wrapPrefix ws ++ (name ++ '(' :: (args ++ [')']))) ++ c :: r
      = (wrapPrefix ws ++ name) ++ '(' :: (args ++ ')' :: c :: r) := by simp
  have hru := readUntil_stop ['('] (wrapPrefix ws ++ name) b '(' (args ++ ')' :: c :: r) hpre (by simp)
  rw [htext]
  simp only [readMs, hru, ne_eq, not_true_eq_false, if_false]
  -- the wrappers
  cases ws with
  | nil =>
    have hp : wrapPrefix ([] : List Wrap) = [] := rfl
    simp only [hp, List.nil_append, contains_colon_false hname, Bool.false_eq_true, if_false,
      hbody _ c r]
    simp [applyWrappers, wrapsOf]
  | cons w ws' =>
    have hp : wrapPrefix (w :: ws') = (w :: ws').map wrapChar ++ [':'] := by simp [wrapPrefix]
    have hcon : (((w :: ws').map wrapChar ++ [':']) ++ name).contains ':' = true := by simp
    have hs : splitOn ':' (((w :: ws').map wrapChar ++ [':']) ++ name) = [(w :: ws').map wrapChar, name] := by
      have : ((w :: ws').map wrapChar ++ [':']) ++ name = (w :: ws').map wrapChar ++ ':' :: name := by simp
      rw [this, splitOn_append ':' _ name (by
        intro x hx
        simp only [List.mem_map] at hx
        obtain ⟨w0, _, rfl⟩ := hx
        intro hm
        have := wrapChar_chars w0
        rw [hm] at this
        revert this
        decide), splitOn_no_sep ':' name (nameChar_no_colon hname)]
    simp only [hp, hcon, hs, if_true, hbody _ c r, applyWrappers_chars, Option.map_some]
    simp


/-- the statement proved for every expression: under any wrappers, with enough fuel, in front of `,` or `)` -/
def MsRoundTrip (ops : KeyOps K) (tap : Bool) (e : DMs K) : Prop :=
  MsNormal ops tap e → ∀ (ws : List Wrap) (fuel : Nat), fuel > e.size → ∀ (b : Str) (c : Char) (r : Str),
    ∃ t, showMs ops (wrapsOf ws e) = some t ∧
      readMs ops tap fuel ⟨b, t ++ c :: r⟩ = some (wrapsOf ws e, ⟨t.reverse ++ b, c :: r⟩)

theorem reads_of_roundtrip (ops : KeyOps K) (tap : Bool) (x : DMs K) (h : MsRoundTrip ops tap x)
    (hn : MsNormal ops tap x) (fuel : Nat) (hf : fuel > x.size) :
    ∃ t, showMs ops x = some t ∧ Reads (readMs ops tap fuel) x t := by
  obtain ⟨t, ht, _⟩ := h hn [] fuel hf [] ',' []
  refine ⟨t, ht, ?_⟩
  intro b c r _
  obtain ⟨t', ht', hr⟩ := h hn [] fuel hf b c r
  have : wrapsOf [] x = x := rfl
  rw [this] at ht ht' hr
  rw [ht] at ht'
  cases ht'
  exact hr

theorem allReads_list (ops : KeyOps K) (tap : Bool) (fuel : Nat) : ∀ (xs : List (DMs K)),
    (∀ x ∈ xs, MsRoundTrip ops tap x) → MsNormalL ops tap xs → (∀ x ∈ xs, fuel > x.size) →
    ∃ ts, showMsL ops xs = some ts ∧ AllReads (readMs ops tap fuel) xs ts := by
  intro xs
  induction xs with
  | nil => intro _ _ _; exact ⟨[], rfl, .nil⟩
  | cons a r ih =>
    intro hrt hn hf
    simp only [MsNormalL] at hn
    obtain ⟨t, ht, hr⟩ := reads_of_roundtrip ops tap a (hrt a List.mem_cons_self) hn.1 fuel (hf a List.mem_cons_self)
    obtain ⟨ts, hts, hrs⟩ := ih (fun x hx => hrt x (List.mem_cons_of_mem _ hx)) hn.2
      (fun x hx => hf x (List.mem_cons_of_mem _ hx))
    exact ⟨t :: ts, by simp [showMsL, ht, hts], .cons hr hrs⟩

theorem allReads_keys (ops : KeyOps K) (tap : Bool) : ∀ (keys : List (KeyExpr K)),
    (∀ k ∈ keys, KeyNormal ops tap false k) →
    ∃ ts, showKeys ops keys = some ts ∧ AllReads (readKey ops tap false) keys ts := by
  intro keys
  induction keys with
  | nil => intro _; exact ⟨[], rfl, .nil⟩
  | cons k r ih =>
    intro hn
    obtain ⟨t, ht, _⟩ := readKey_showKey ops tap false k (hn k List.mem_cons_self) [] ',' [] (Or.inl rfl)
    obtain ⟨ts, hts, hrs⟩ := ih (fun x hx => hn x (List.mem_cons_of_mem _ hx))
    refine ⟨t :: ts, by simp [showKeys, ht, hts], .cons ?_ hrs⟩
    intro b c r' hc
    obtain ⟨t', ht', hr⟩ := readKey_showKey ops tap false k (hn k List.mem_cons_self) b c r' hc
    rw [ht] at ht'
    cases ht'
    exact hr

theorem digitVal_delim (c : Char) (hc : c = ',' ∨ c = ')') : digitVal c = none := by
  rcases hc with rfl | rfl <;> decide

/-- MINISCRIPT TEXT: `Miniscript.read_from` inverts `__str__` -/
theorem readMs_roundtrip (ops : KeyOps K) (tap : Bool) : ∀ e : DMs K, MsRoundTrip ops tap e := by
  intro e
  induction e using DMs.ind with
  | wrap w x ih =>
    intro hn ws fuel hf b c r
    have hw : wrapsOf ws (.wrap w x) = wrapsOf (ws ++ [w]) x := by simp [wrapsOf]
    rw [hw]
    exact ih (by simpa [MsNormal] using hn) (ws ++ [w]) fuel (by simpa [DMs.size] using hf) b c r
  | key f k =>
    intro hn ws fuel hf b c r
    cases fuel with
    | zero => simp [DMs.size] at hf
    | succ fuel =>
      simp only [MsNormal] at hn
      obtain ⟨a, ha, _⟩ := readKey_showKey ops tap (f == .pk_h || f == .pkh) k hn [] ')' [] (Or.inr rfl)
      apply readMs_base ops tap (.key f k) rfl (keyFragName f) a
        (by simp [showMs, ha, call_eq]) (keyFragName_chars f) fuel _ ws b c r
      intro b' c' r'
      obtain ⟨a', ha', hr⟩ := readKey_showKey ops tap (f == .pk_h || f == .pkh) k hn b' ')' (c' :: r') (Or.inr rfl)
      rw [ha] at ha'
      cases ha'
      simp only [readMsBody, keyFragOf_name, hr, expectChar_ok]
      simp
  | time f n =>
    intro _ ws fuel hf b c r
    cases fuel with
    | zero => simp [DMs.size] at hf
    | succ fuel =>
      apply readMs_base ops tap (.time f n) rfl (timeFragName f) (showNat n)
        (by simp [showMs, call_eq]) (timeFragName_chars f) fuel _ ws b c r
      intro b' c' r'
      simp only [readMsBody, (timeFragOf_name f).1, (timeFragOf_name f).2,
        readNumber_showNat n b' ')' (c' :: r') (by decide), expectChar_ok]
      simp
  | hash f h =>
    intro hn ws fuel hf b c r
    cases fuel with
    | zero => simp [DMs.size] at hf
    | succ fuel =>
      simp only [MsNormal] at hn
      apply readMs_base ops tap (.hash f h) rfl (hashFragName f) (hexlify h)
        (by simp [showMs, call_eq]) (hashFragName_chars f) fuel _ ws b c r
      intro b' c' r'
      simp only [readMsBody, (hashFragOf_name f).1, (hashFragOf_name f).2.1, (hashFragOf_name f).2.2,
        readRaw_hexlify (hashFragLen f) h hn b' (')' :: c' :: r'), expectChar_ok]
      simp
  | andor x y z ihx ihy ihz =>
    intro hn ws fuel hf b c r
    cases fuel with
    | zero => simp [DMs.size] at hf
    | succ fuel =>
      simp only [MsNormal] at hn
      simp only [DMs.size] at hf
      obtain ⟨tx, hx, rx⟩ := reads_of_roundtrip ops tap x ihx hn.1 fuel (by omega)
      obtain ⟨ty, hy, ry⟩ := reads_of_roundtrip ops tap y ihy hn.2.1 fuel (by omega)
      obtain ⟨tz, hz, rz⟩ := reads_of_roundtrip ops tap z ihz hn.2.2 fuel (by omega)
      apply readMs_base ops tap (.andor x y z) rfl ['a', 'n', 'd', 'o', 'r'] (tx ++ ',' :: (ty ++ ',' :: tz))
        (by simp [showMs, hx, hy, hz, call_eq]) (by decide) fuel _ ws b c r
      intro b' c' r'
      have e1 : (tx ++ ',' :: (ty ++ ',' :: tz)) ++ ')' :: c' :: r' = tx ++ ',' :: (ty ++ ',' :: (tz ++ ')' :: c' :: r')) := by
        simp
      rw [e1]
      simp only [readMsBody, andor_name.1, andor_name.2.1, andor_name.2.2, if_true,
        rx b' ',' _ (Or.inl rfl), expectChar_ok, ry _ ',' _ (Or.inl rfl), rz _ ')' _ (Or.inr rfl), Option.map_some]
      simp
  | bin f x y ihx ihy =>
    intro hn ws fuel hf b c r
    cases fuel with
    | zero => simp [DMs.size] at hf
    | succ fuel =>
      simp only [MsNormal] at hn
      simp only [DMs.size] at hf
      obtain ⟨tx, hx, rx⟩ := reads_of_roundtrip ops tap x ihx hn.1 fuel (by omega)
      obtain ⟨ty, hy, ry⟩ := reads_of_roundtrip ops tap y ihy hn.2 fuel (by omega)
      apply readMs_base ops tap (.bin f x y) rfl (binFragName f) (tx ++ ',' :: ty)
        (by simp [showMs, hx, hy, call_eq]) (binFragName_chars f) fuel _ ws b c r
      intro b' c' r'
      have e1 : (tx ++ ',' :: ty) ++ ')' :: c' :: r' = tx ++ ',' :: (ty ++ ')' :: c' :: r') := by simp
      rw [e1]
      have hb := binFragOf_name f
      simp only [readMsBody, hb.1, hb.2.1, hb.2.2.1, hb.2.2.2.1, hb.2.2.2.2, if_false,
        rx b' ',' _ (Or.inl rfl), expectChar_ok, ry _ ')' _ (Or.inr rfl), Option.map_some]
      simp
  | thresh k xs ih =>
    intro hn ws fuel hf b c r
    cases fuel with
    | zero => simp [DMs.size] at hf
    | succ fuel =>
      simp only [MsNormal] at hn
      simp only [DMs.size] at hf
      obtain ⟨ts, hts, hrs⟩ := allReads_list ops tap fuel xs ih hn
        (fun x hx => by have := sizeL_mem hx; omega)
      apply readMs_base ops tap (.thresh k xs) rfl ['t', 'h', 'r', 'e', 's', 'h']
        (showNat k ++ ts.flatMap (fun t => ',' :: t))
        (by simp [showMs, hts, call_eq]) (by decide) fuel _ ws b c r
      intro b' c' r'
      obtain ⟨cn, rn, hnext, hcn⟩ := flat_next ts (c' :: r')
      have e1 : (showNat k ++ ts.flatMap (fun t => ',' :: t)) ++ ')' :: c' :: r' = showNat k ++ cn :: rn := by
        simp [hnext]
      rw [e1]
      have ht := thresh_name
      simp only [readMsBody, ht.1, ht.2.1, ht.2.2.1, ht.2.2.2.1, ht.2.2.2.2, if_false, if_true,
        readNumber_showNat k b' cn rn (digitVal_delim cn hcn)]
      rw [← hnext, readMore_spec (readMs ops tap fuel) xs ts hrs fuel _ (c' :: r')
        (by have := sizeL_length xs; omega)]
      simp
  | multi f k keys =>
    intro hn ws fuel hf b c r
    cases fuel with
    | zero => simp [DMs.size] at hf
    | succ fuel =>
      simp only [MsNormal] at hn
      simp only [DMs.size] at hf
      obtain ⟨ts, hts, hrs⟩ := allReads_keys ops tap keys hn.2
      apply readMs_base ops tap (.multi f k keys) rfl (multiFragName f)
        (showNat k ++ ts.flatMap (fun t => ',' :: t))
        (by simp [showMs, hts, call_eq]) (multiFragName_chars f) fuel _ ws b c r
      intro b' c' r'
      obtain ⟨cn, rn, hnext, hcn⟩ := flat_next ts (c' :: r')
      have e1 : (showNat k ++ ts.flatMap (fun t => ',' :: t)) ++ ')' :: c' :: r' = showNat k ++ cn :: rn := by
        simp [hnext]
      rw [e1]
      have hm := multiFragOf_name f
      simp only [readMsBody, hm.1, hm.2.1, hm.2.2.1, hm.2.2.2.1, hm.2.2.2.2.1, hm.2.2.2.2.2.1, hm.2.2.2.2.2.2,
        if_false, readNumber_showNat k b' cn rn (digitVal_delim cn hcn)]
      rw [← hnext, readMore_spec (readKey ops tap false) keys ts hrs fuel _ (c' :: r') (by omega)]
      simp [hn.1]


/-! ### the text is at least as long as the fuel the parser needs -/

theorem call_length (name a : Str) (as : List Str) :
    (call name (a :: as)).length = name.length + a.length + (as.flatMap fun t => ',' :: t).length + 2 := by
  rw [call_eq]
  simp
  omega

theorem showMs_wrap_length (ops : KeyOps K) (w : Wrap) (x : DMs K) (t : Str) (h : showMs ops (.wrap w x) = some t) :
    ∃ tx, showMs ops x = some tx ∧ tx.length ≤ t.length := by
  cases hx : x.isWrap with
  | false =>
    rw [showMs_wrap_base ops w x hx] at h
    cases hs : showMs ops x with
    | none => simp [hs] at h
    | some tx => simp [hs] at h; subst h; exact ⟨tx, rfl, by simp; omega⟩
  | true =>
    cases x with
    | wrap w' x' =>
      rw [showMs_wrap_wrap] at h
      cases hs : showMs ops (.wrap w' x') with
      | none => simp [hs] at h
      | some tx => simp [hs] at h; subst h; exact ⟨tx, rfl, by simp⟩
    | key _ _ => simp [DMs.isWrap] at hx
    | time _ _ => simp [DMs.isWrap] at hx
    | hash _ _ => simp [DMs.isWrap] at hx
    | andor _ _ _ => simp [DMs.isWrap] at hx
    | bin _ _ _ => simp [DMs.isWrap] at hx
    | thresh _ _ => simp [DMs.isWrap] at hx
    | multi _ _ _ => simp [DMs.isWrap] at hx

theorem sizeL_le (ops : KeyOps K) : ∀ (xs : List (DMs K)) (ts : List Str),
    (∀ x ∈ xs, ∀ t, showMs ops x = some t → x.size ≤ t.length) → showMsL ops xs = some ts →
    DMs.sizeL xs ≤ (ts.flatMap fun t => ',' :: t).length := by
  intro xs
  induction xs with
  | nil => intro ts _ h; simp [showMsL] at h; subst h; simp [DMs.sizeL]
  | cons a r ih =>
    intro ts hx h
    simp only [showMsL] at h
    cases ha : showMs ops a with
    | none => simp [ha] at h
    | some ta =>
      cases hr : showMsL ops r with
      | none => simp [ha, hr] at h
      | some tr =>
        simp [ha, hr] at h; subst h
        have h1 := hx a List.mem_cons_self ta ha
        have h2 := ih tr (fun x hx' => hx x (List.mem_cons_of_mem _ hx')) hr
        simp only [DMs.sizeL, List.flatMap_cons, List.length_append, List.length_cons]
        omega

theorem showKeys_length (ops : KeyOps K) : ∀ (keys : List (KeyExpr K)) (ts : List Str),
    showKeys ops keys = some ts → keys.length ≤ (ts.flatMap fun t => ',' :: t).length := by
  intro keys
  induction keys with
  | nil => intro ts h; simp [showKeys] at h; subst h; simp
  | cons k r ih =>
    intro ts h
    simp only [showKeys] at h
    cases hk : showKey ops k with
    | none => simp [hk] at h
    | some tk =>
      cases hr : showKeys ops r with
      | none => simp [hk, hr] at h
      | some tr =>
        simp [hk, hr] at h; subst h
        have := ih tr hr
        simp only [List.length_cons, List.flatMap_cons, List.length_append]
        omega

theorem size_le_text (ops : KeyOps K) : ∀ (e : DMs K) (t : Str), showMs ops e = some t → e.size ≤ t.length := by
  intro e
  induction e using DMs.ind with
  | key f k =>
    intro t h
    simp only [showMs] at h
    cases hk : showKey ops k with
    | none => simp [hk] at h
    | some a => simp [hk] at h; subst h; rw [call_length]; simp only [DMs.size, List.flatMap_cons, List.flatMap_nil, List.length_append, List.length_cons, List.length_nil, List.append_nil]; omega
  | time f n => intro t h; simp only [showMs, Option.some.injEq] at h; subst h; rw [call_length]; simp only [DMs.size, List.flatMap_cons, List.flatMap_nil, List.length_append, List.length_cons, List.length_nil, List.append_nil]; omega
  | hash f hh => intro t h; simp only [showMs, Option.some.injEq] at h; subst h; rw [call_length]; simp only [DMs.size, List.flatMap_cons, List.flatMap_nil, List.length_append, List.length_cons, List.length_nil, List.append_nil]; omega
  | andor x y z ihx ihy ihz =>
    intro t h
    simp only [showMs] at h
    cases hx : showMs ops x with
    | none => simp [hx] at h
    | some a =>
      cases hy : showMs ops y with
      | none => simp [hx, hy] at h
      | some b =>
        cases hz : showMs ops z with
        | none => simp [hx, hy, hz] at h
        | some c =>
          simp [hx, hy, hz] at h; subst h
          have := ihx a hx; have := ihy b hy; have := ihz c hz
          rw [call_length]
          simp only [DMs.size, List.flatMap_cons, List.flatMap_nil, List.length_append, List.length_cons, List.length_nil, List.append_nil]; omega
  | bin f x y ihx ihy =>
    intro t h
    simp only [showMs] at h
    cases hx : showMs ops x with
    | none => simp [hx] at h
    | some a =>
      cases hy : showMs ops y with
      | none => simp [hx, hy] at h
      | some b =>
        simp [hx, hy] at h; subst h
        have := ihx a hx; have := ihy b hy
        rw [call_length]
        simp only [DMs.size, List.flatMap_cons, List.flatMap_nil, List.length_append, List.length_cons, List.length_nil, List.append_nil]; omega
  | thresh k xs ih =>
    intro t h
    simp only [showMs] at h
    cases hl : showMsL ops xs with
    | none => simp [hl] at h
    | some ts =>
      simp [hl] at h; subst h
      have := sizeL_le ops xs ts ih hl
      rw [call_length]
      simp only [DMs.size]
      omega
  | multi f k keys =>
    intro t h
    simp only [showMs] at h
    cases hl : showKeys ops keys with
    | none => simp [hl] at h
    | some ts =>
      simp [hl] at h; subst h
      have := showKeys_length ops keys ts hl
      rw [call_length]
      simp only [DMs.size]
      omega
  | wrap w x ih =>
    intro t h
    obtain ⟨tx, hx, hlen⟩ := showMs_wrap_length ops w x t h
    have := ih tx hx
    simp only [DMs.size]
    omega

/-! ### first character of an expression text -/

/-- a lower-case letter that starts an operator name or is a wrapper: not `w`, `{`, `t…(`-relevant checks are done
    on whole prefixes -/
def headOk (c : Char) : Bool := c != 'w' && c != '{' && c != ',' && c != ')' && c != '}'

theorem showMs_head (ops : KeyOps K) : ∀ (e : DMs K) (t : Str), showMs ops e = some t →
    ∃ c r, t = c :: r ∧ headOk c = true := by
  intro e
  induction e using DMs.ind with
  | key f k =>
    intro t h
    simp only [showMs] at h
    cases hk : showKey ops k with
    | none => simp [hk] at h
    | some a => simp [hk] at h; subst h; cases f <;> exact ⟨_, _, rfl, by decide⟩
  | time f n => intro t h; simp only [showMs, Option.some.injEq] at h; subst h; cases f <;> exact ⟨_, _, rfl, by decide⟩
  | hash f hh => intro t h; simp only [showMs, Option.some.injEq] at h; subst h; cases f <;> exact ⟨_, _, rfl, by decide⟩
  | andor x y z _ _ _ =>
    intro t h
    simp only [showMs] at h
    cases hx : showMs ops x <;> cases hy : showMs ops y <;> cases hz : showMs ops z <;> simp [hx, hy, hz] at h
    subst h
    exact ⟨_, _, rfl, by decide⟩
  | bin f x y _ _ =>
    intro t h
    simp only [showMs] at h
    cases hx : showMs ops x <;> cases hy : showMs ops y <;> simp [hx, hy] at h
    subst h
    cases f <;> exact ⟨_, _, rfl, by decide⟩
  | thresh k xs _ =>
    intro t h
    simp only [showMs] at h
    cases hl : showMsL ops xs <;> simp [hl] at h
    subst h
    exact ⟨_, _, rfl, by decide⟩
  | multi f k keys =>
    intro t h
    simp only [showMs] at h
    cases hl : showKeys ops keys <;> simp [hl] at h
    subst h
    cases f <;> exact ⟨_, _, rfl, by decide⟩
  | wrap w x _ =>
    intro t h
    cases hx : x.isWrap with
    | false =>
      rw [showMs_wrap_base ops w x hx] at h
      cases hs : showMs ops x <;> simp [hs] at h
      subst h
      cases w <;> exact ⟨_, _, rfl, by decide⟩
    | true =>
      cases x with
      | wrap w' x' =>
        rw [showMs_wrap_wrap] at h
        cases hs : showMs ops (.wrap w' x') <;> simp [hs] at h
        subst h
        cases w <;> exact ⟨_, _, rfl, by decide⟩
      | key _ _ => simp [DMs.isWrap] at hx
      | time _ _ => simp [DMs.isWrap] at hx
      | hash _ _ => simp [DMs.isWrap] at hx
      | andor _ _ _ => simp [DMs.isWrap] at hx
      | bin _ _ _ => simp [DMs.isWrap] at hx
      | thresh _ _ => simp [DMs.isWrap] at hx
      | multi _ _ _ => simp [DMs.isWrap] at hx


theorem showMs_length (ops : KeyOps K) (e : DMs K) (t : Str) (h : showMs ops e = some t) : t.length ≥ 4 := by
  -- name (≥ 2 characters) + brackets; wrappers only add characters
  have base : ∀ (name a : Str) (as : List Str), name.length ≥ 2 → (call name (a :: as)).length ≥ 4 := by
    intro name a as hn; rw [call_length]; omega
  induction e using DMs.ind generalizing t with
  | key f k =>
    simp only [showMs] at h
    cases hk : showKey ops k <;> simp [hk] at h
    subst h; exact base _ _ _ (by cases f <;> decide)
  | time f n => simp only [showMs, Option.some.injEq] at h; subst h; exact base _ _ _ (by cases f <;> decide)
  | hash f hh => simp only [showMs, Option.some.injEq] at h; subst h; exact base _ _ _ (by cases f <;> decide)
  | andor x y z _ _ _ =>
    simp only [showMs] at h
    cases hx : showMs ops x <;> cases hy : showMs ops y <;> cases hz : showMs ops z <;> simp [hx, hy, hz] at h
    subst h; exact base _ _ _ (by decide)
  | bin f x y _ _ =>
    simp only [showMs] at h
    cases hx : showMs ops x <;> cases hy : showMs ops y <;> simp [hx, hy] at h
    subst h; exact base _ _ _ (by cases f <;> decide)
  | thresh k xs _ =>
    simp only [showMs] at h
    cases hl : showMsL ops xs <;> simp [hl] at h
    subst h; exact base _ _ _ (by decide)
  | multi f k keys =>
    simp only [showMs] at h
    cases hl : showKeys ops keys <;> simp [hl] at h
    subst h; exact base _ _ _ (by cases f <;> decide)
  | wrap w x ih =>
    obtain ⟨tx, hx, hlen⟩ := showMs_wrap_length ops w x t h
    have := ih tx hx
    omega

/-! ### tap trees -/

def TapTree.size : TapTree K → Nat
  | .empty => 0
  | .leaf ms => ms.size
  | .node l r => 1 + l.size + r.size

/-- a tree the parser can have produced: leaves are accepted miniscripts, no empty sub-tree -/
def TreeNormal (ops : KeyOps K) : TapTree K → Prop
  | .empty => False
  | .leaf ms => MsNormal ops true ms ∧ leafAccepted ms = true
  | .node l r => TreeNormal ops l ∧ TreeNormal ops r

theorem tree_size_le_text (ops : KeyOps K) : ∀ (t : TapTree K) (tt : Str), showTapTree ops t = some tt →
    t.size ≤ tt.length := by
  intro t
  induction t with
  | empty => intro tt _; simp [TapTree.size]
  | leaf ms => intro tt h; exact size_le_text ops ms tt h
  | node l r ihl ihr =>
    intro tt h
    simp only [showTapTree] at h
    cases hl : showTapTree ops l with
    | none => simp [hl] at h
    | some a =>
      cases hr : showTapTree ops r with
      | none => simp [hl, hr] at h
      | some b =>
        simp [hl, hr] at h; subst h
        have := ihl a hl; have := ihr b hr
        simp [TapTree.size]
        omega

/-- `TapTree.read_from` inverts `__str__` (any following character) -/
theorem readTapTree_roundtrip (ops : KeyOps K) : ∀ (t : TapTree K), TreeNormal ops t →
    ∀ (fuel : Nat), fuel > t.size → ∀ (b : Str) (c : Char) (r : Str),
    ∃ tt, showTapTree ops t = some tt ∧
      readTapTree ops fuel ⟨b, tt ++ c :: r⟩ = some (t, ⟨tt.reverse ++ b, c :: r⟩) := by
  intro t
  induction t with
  | empty => intro h; exact absurd h (by simp [TreeNormal])
  | leaf ms =>
    intro hn fuel hf b c r
    simp only [TreeNormal] at hn
    simp only [TapTree.size] at hf
    cases fuel with
    | zero => omega
    | succ f =>
      obtain ⟨tt, htt, hr⟩ := readMs_roundtrip ops true ms hn.1 [] (f + 1) hf b c r
      have hw : wrapsOf [] ms = ms := rfl
      rw [hw] at htt hr
      obtain ⟨c0, r0, rfl, hc0⟩ := showMs_head ops ms tt htt
      refine ⟨c0 :: r0, htt, ?_⟩
      have hne : c0 ≠ '{' := by intro he; subst he; revert hc0; decide
      simp only [readTapTree, List.cons_append, Stream.read1, hne, if_false, Stream.unread]
      have : (⟨b, c0 :: (r0 ++ c :: r)⟩ : Stream) = ⟨b, (c0 :: r0) ++ c :: r⟩ := by simp
      rw [this, hr]
      simp [hn.2]
  | node l r ihl ihr =>
    intro hn fuel hf b c r'
    simp only [TreeNormal] at hn
    simp only [TapTree.size] at hf
    cases fuel with
    | zero => omega
    | succ f =>
      obtain ⟨tl, htl, _⟩ := ihl hn.1 f (by omega) [] ',' []
      obtain ⟨tr, htr, _⟩ := ihr hn.2 f (by omega) [] '}' []
      refine ⟨['{'] ++ tl ++ [','] ++ tr ++ ['}'], by simp [showTapTree, htl, htr], ?_⟩
      obtain ⟨tl', htl', hrl⟩ := ihl hn.1 f (by omega) ('{' :: b) ',' (tr ++ '}' :: c :: r')
      rw [htl] at htl'; cases htl'
      obtain ⟨tr', htr', hrr⟩ := ihr hn.2 f (by omega) (',' :: (tl.reverse ++ '{' :: b)) '}' (c :: r')
      rw [htr] at htr'; cases htr'
      have e : (['{'] ++ tl ++ [','] ++ tr ++ ['}']) ++ c :: r' = '{' :: (tl ++ ',' :: (tr ++ '}' :: c :: r')) := by simp
      rw [e]
      simp only [readTapTree, Stream.read1, if_true, hrl, hrr, expectChar_ok, Option.map_some]
      simp


/-! ### the miniscript-bearing forms -/

inductive MsForm | sh | wsh | shwsh
deriving DecidableEq

def MsForm.desc (f : MsForm) (m : DMs K) : Desc K :=
  match f with
  | .sh => ⟨some m, true, false, none, false, false, .empty⟩
  | .wsh => ⟨some m, false, true, none, false, false, .empty⟩
  | .shwsh => ⟨some m, true, true, none, false, false, .empty⟩

def MsForm.opening : MsForm → Str
  | .sh => ['s', 'h', '(']
  | .wsh => ['w', 's', 'h', '(']
  | .shwsh => ['s', 'h', '(', 'w', 's', 'h', '(']

def MsForm.closing : MsForm → Str
  | .shwsh => [')', ')']
  | _ => [')']

theorem print_msForm (ops : KeyOps K) (f : MsForm) (m : DMs K) (t : Str) (ht : showMs ops m = some t) :
    (f.desc m).print ops = some (f.opening ++ t ++ f.closing) := by
  cases f <;> simp [MsForm.desc, Desc.print, ht, MsForm.opening, MsForm.closing]

theorem readHead_msForm (f : MsForm) (t : Str) (c0 : Char) (r0 : Str) (ht : t = c0 :: r0) (hc0 : headOk c0 = true)
    (hlen : t.length ≥ 4) (r : Str) :
    readHead ⟨[], f.opening ++ t ++ r⟩ = some
      ((match f with | .sh => Head.sh | .wsh => Head.wsh | .shwsh => Head.shwsh), ⟨f.opening.reverse, t ++ r⟩) := by
  subst ht
  obtain ⟨b, c, d, t', rfl⟩ : ∃ b c d t', r0 = b :: c :: d :: t' := by
    match r0, hlen with
    | b :: c :: d :: t', _ => exact ⟨b, c, d, t', rfl⟩
  have hw : c0 ≠ 'w' := by intro he; subst he; revert hc0; decide
  cases f with
  | sh =>
    have h7 := readN_exact 7 [] ['s', 'h', '(', c0, b, c, d] (t' ++ r) rfl
    have hs := seekBack_spec 4 [d, c, b, c0] ['(', 'h', 's'] (t' ++ r) rfl
    simp only [MsForm.opening, List.cons_append, List.nil_append, List.reverse_cons, List.reverse_nil] at h7 hs ⊢
    unfold readHead
    simp only [h7]
    simp [isPrefix, hs, hw]
  | wsh =>
    have h7 := readN_exact 7 [] ['w', 's', 'h', '(', c0, b, c] (d :: (t' ++ r)) rfl
    have hs := seekBack_spec 3 [c, b, c0] ['(', 'h', 's', 'w'] (d :: (t' ++ r)) rfl
    simp only [MsForm.opening, List.cons_append, List.nil_append, List.reverse_cons, List.reverse_nil] at h7 hs ⊢
    unfold readHead
    simp only [h7]
    simp [isPrefix, hs]
  | shwsh =>
    have h7 := readN_exact 7 [] ['s', 'h', '(', 'w', 's', 'h', '('] (c0 :: b :: c :: d :: (t' ++ r)) rfl
    simp only [MsForm.opening, List.cons_append, List.nil_append, List.reverse_cons, List.reverse_nil] at h7 ⊢
    unfold readHead
    simp only [h7]
    simp [isPrefix]

/-- PRINT then PARSE, `sh(M)`, `wsh(M)`, `sh(wsh(M))` -/
theorem print_parse_msForm (ops : KeyOps K) (f : MsForm) (m : DMs K) (hn : MsNormal ops false m)
    (hacc : msAccepted .wsh m = true) :
    ∃ text, (f.desc m).print ops = some text ∧ Desc.parse ops text = some (f.desc m) := by
  obtain ⟨t, ht, _⟩ := readMs_roundtrip ops false m hn [] (m.size + 1) (by omega) [] ')' []
  have hw : wrapsOf [] m = m := rfl
  rw [hw] at ht
  refine ⟨f.opening ++ t ++ f.closing, print_msForm ops f m t ht, ?_⟩
  obtain ⟨c0, r0, ht0, hc0⟩ := showMs_head ops m t ht
  have hlen := showMs_length ops m t ht
  have hsz := size_le_text ops m t ht
  have hrh := readHead_msForm f t c0 r0 ht0 hc0 hlen f.closing
  unfold Desc.parse Desc.readFrom
  have hstream : Stream.ofStr (f.opening ++ t ++ f.closing) = ⟨[], f.opening ++ t ++ f.closing⟩ := rfl
  rw [hstream, hrh]
  have hfuel : (f.opening ++ t ++ f.closing).length + 1 > m.size := by simp; omega
  cases f with
  | sh =>
    obtain ⟨t', ht', hr⟩ := readMs_roundtrip ops false m hn [] _ hfuel MsForm.sh.opening.reverse ')' []
    rw [hw] at ht' hr
    rw [ht] at ht'; cases ht'
    simp only [MsForm.closing] at hr ⊢
    rw [hr]
    simp [expectClose, expectChar, Stream.read1, MsForm.desc, hacc]
  | wsh =>
    obtain ⟨t', ht', hr⟩ := readMs_roundtrip ops false m hn [] _ hfuel MsForm.wsh.opening.reverse ')' []
    rw [hw] at ht' hr
    rw [ht] at ht'; cases ht'
    simp only [MsForm.closing] at hr ⊢
    rw [hr]
    simp [expectClose, expectChar, Stream.read1, MsForm.desc, hacc]
  | shwsh =>
    obtain ⟨t', ht', hr⟩ := readMs_roundtrip ops false m hn [] _ hfuel MsForm.shwsh.opening.reverse ')' [')']
    rw [hw] at ht' hr
    rw [ht] at ht'; cases ht'
    simp only [MsForm.closing] at hr ⊢
    rw [hr]
    simp [expectClose, expectChar, Stream.read1, MsForm.desc, hacc]

/-- PRINT then PARSE, `tr(K, TREE)` -/
theorem print_parse_trTree (ops : KeyOps K) (k : KeyExpr K) (tree : TapTree K) (hk : KeyNormal ops true false k)
    (hlen : ∀ t, showKey ops k = some t → t.length ≥ 4) (htree : TreeNormal ops tree) :
    ∃ text, (⟨none, false, false, some k, false, true, tree⟩ : Desc K).print ops = some text ∧
      Desc.parse ops text = some ⟨none, false, false, some k, false, true, tree⟩ := by
  obtain ⟨tk, htk, _⟩ := readKey_showKey ops true false k hk [] ',' [] (Or.inl rfl)
  obtain ⟨tt, htt, _⟩ := readTapTree_roundtrip ops tree htree (tree.size + 1) (by omega) [] ')' []
  have htruthy : tree.truthy = true := by
    cases tree with
    | empty => exact absurd htree (by simp [TreeNormal])
    | leaf _ => rfl
    | node _ _ => rfl
  refine ⟨['t', 'r', '('] ++ tk ++ [','] ++ tt ++ [')'], by
    simp [Desc.print, htruthy, showOptKey, htk, htt], ?_⟩
  have hrh := readHead_keyForm KeyForm.tr tk (hlen tk htk) (',' :: (tt ++ [')']))
  obtain ⟨hd, hrh, hhd⟩ := hrh
  subst hhd
  unfold Desc.parse Desc.readFrom
  have hstream : Stream.ofStr (['t', 'r', '('] ++ tk ++ [','] ++ tt ++ [')'])
      = ⟨[], KeyForm.tr.opening ++ tk ++ ',' :: (tt ++ [')'])⟩ := by simp [Stream.ofStr, KeyForm.opening]
  rw [hstream, hrh]
  obtain ⟨tk', htk', hrk⟩ := readKey_showKey ops true false k hk KeyForm.tr.opening.reverse ',' (tt ++ [')']) (Or.inl rfl)
  rw [htk] at htk'; cases htk'
  have hsz := tree_size_le_text ops tree tt htt
  obtain ⟨tt', htt', hrt⟩ := readTapTree_roundtrip ops tree htree
    ((['t', 'r', '('] ++ tk ++ [','] ++ tt ++ [')']).length + 1) (by simp; omega)
    (',' :: (tk.reverse ++ KeyForm.tr.opening.reverse)) ')' []
  rw [htt] at htt'; cases htt'
  dsimp only
  rw [hrk]
  simp only [Stream.read1, if_true]
  rw [hrt]
  simp [expectClose, expectChar, Stream.read1]

/-! ### all seven forms -/

/-- a descriptor the parser can have produced and the printer prints back to it: one of the seven forms over normal
    key expressions / accepted normal miniscripts / a tap tree of accepted normal leaves -/
inductive DescNormal (ops : KeyOps K) : Desc K → Prop
  | keyForm (f : KeyForm) (k : KeyExpr K) : KeyNormal ops f.tap false k →
      (∀ t, showKey ops k = some t → t.length ≥ 4) → DescNormal ops (f.desc k)
  | msForm (f : MsForm) (m : DMs K) : MsNormal ops false m → msAccepted .wsh m = true → DescNormal ops (f.desc m)
  | trTree (k : KeyExpr K) (tree : TapTree K) : KeyNormal ops true false k →
      (∀ t, showKey ops k = some t → t.length ≥ 4) → TreeNormal ops tree →
      DescNormal ops ⟨none, false, false, some k, false, true, tree⟩

theorem print_parse_all (ops : KeyOps K) (d : Desc K) (hn : DescNormal ops d) :
    ∃ text, d.print ops = some text ∧ Desc.parse ops text = some d := by
  cases hn with
  | keyForm f k hk hlen => exact print_parse_keyForm ops f k hk hlen
  | msForm f m hm hacc => exact print_parse_msForm ops f m hm hacc
  | trTree k tree hk hlen ht => exact print_parse_trTree ops k tree hk hlen ht

end Embit.Model.Descriptor
