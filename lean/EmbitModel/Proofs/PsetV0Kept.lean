import EmbitModel.Proofs.PsetSerParseV0
import EmbitModel.Proofs.PsetV0Whole
/-
  C18 (round 6): serialise-then-parse and well-formedness of version-0 PSET objects whose scopes carry the parts of the
  global transaction kept by fix `d53` (peg-in flag, issuance, output nonce). `read_value` never looks at these parts, so
  every fold over pairs commutes with setting them (`withParts` / `withNonce`); the statements of Proofs/PsetSerParse,
  PsetSerParseV0 and PsetParseWF (which demand EMPTY kept parts) are reused on the scope with the parts cleared.
-/
set_option linter.unusedSimpArgs false
set_option linter.unusedVariables false
namespace Embit
open Model Spec.LWire

def Model.LInScope.withParts (a : Bool) (b : Option Issuance) (s : LInScope) : LInScope :=
  { s with isPegin := a, txIssuance := b }

def Model.LOutScope.withNonce (n : Option Bytes) (s : LOutScope) : LOutScope := { s with txNonce := n }

/-- the scope with the kept transaction parts cleared -/
def Model.LInScope.clr (s : LInScope) : LInScope := s.withParts false none
def Model.LOutScope.clr (s : LOutScope) : LOutScope := s.withNonce none

theorem LInScope.addPair_withParts (ko : KeyOps) (a : Bool) (b : Option Issuance) (s : LInScope) (k v : Bytes) :
    LInScope.addPair ko (s.withParts a b) k v = (LInScope.addPair ko s k v).map (LInScope.withParts a b) := by
  unfold LInScope.addPair LInScope.withParts
  simp only []
  repeat' split
  all_goals simp_all

theorem LInScope.addPairs_withParts (ko : KeyOps) (a : Bool) (b : Option Issuance) : ∀ (kvs : List KV) (s : LInScope),
    LInScope.addPairs ko (s.withParts a b) kvs = (LInScope.addPairs ko s kvs).map (LInScope.withParts a b) := by
  intro kvs
  induction kvs with
  | nil => intro s; simp [LInScope.addPairs]
  | cons kv kvs ih =>
    intro s
    obtain ⟨k, v⟩ := kv
    simp only [LInScope.addPairs, LInScope.addPair_withParts]
    cases LInScope.addPair ko s k v with
    | none => rfl
    | some s1 => simpa using ih s1

theorem LOutScope.addPair_withNonce (ko : KeyOps) (n : Option Bytes) (s : LOutScope) (k v : Bytes) :
    LOutScope.addPair ko (s.withNonce n) k v = (LOutScope.addPair ko s k v).map (LOutScope.withNonce n) := by
  unfold LOutScope.addPair LOutScope.withNonce
  simp only []
  repeat' split
  all_goals simp_all

theorem LOutScope.addPairs_withNonce (ko : KeyOps) (n : Option Bytes) : ∀ (kvs : List KV) (s : LOutScope),
    LOutScope.addPairs ko (s.withNonce n) kvs = (LOutScope.addPairs ko s kvs).map (LOutScope.withNonce n) := by
  intro kvs
  induction kvs with
  | nil => intro s; simp [LOutScope.addPairs]
  | cons kv kvs ih =>
    intro s
    obtain ⟨k, v⟩ := kv
    simp only [LOutScope.addPairs, LOutScope.addPair_withNonce]
    cases LOutScope.addPair ko s k v with
    | none => rfl
    | some s1 => simpa using ih s1

/-! ### the seeds that carry the kept parts -/

/-- the scope `read_from` starts with, kept parts included (`LInputScope(vin=vin)` after fix `d53`) -/
def Model.LInScope.seedOfK (version : Option Nat) (s : LInScope) : LInScope :=
  (LInScope.seedOf version s).withParts s.isPegin s.txIssuance

def Model.LOutScope.seedOf0K (s : LOutScope) : LOutScope := s.seedOf0.withNonce s.txNonce

theorem LInScope.pairs_clr (s : LInScope) (ver : Option Nat) : s.clr.pairs ver = s.pairs ver := rfl
theorem LOutScope.pairsL_clr (s : LOutScope) (ver : Option Nat) : s.clr.pairsL ver = s.pairsL ver := rfl
theorem LInScope.seedOf_clr (s : LInScope) (ver : Option Nat) : LInScope.seedOf ver s.clr = LInScope.seedOf ver s := rfl
theorem LOutScope.seedOf0_clr (s : LOutScope) : s.clr.seedOf0 = s.seedOf0 := rfl

theorem LInScope.norm_clr_withParts (s : LInScope) : s.clr.norm.withParts s.isPegin s.txIssuance = s.norm := rfl
theorem LOutScope.norm_clr_withNonce (s : LOutScope) : s.clr.norm.withNonce s.txNonce = s.norm := rfl

/-- serialise-then-parse of an input scope that keeps parts of the global transaction: folding `read_value` over the
    pairs written, from the seed WITH those parts, gives the scope back -/
theorem LInScope.addPairs_pairsK (ko : KeyOps) (ver : Option Nat) (s : LInScope) (h : LInWF ko s.clr) :
    LInScope.addPairs ko (LInScope.seedOfK ver s) (s.pairs ver) = some s.norm := by
  have := LInScope.addPairs_pairs ko ver s.clr h
  rw [LInScope.pairs_clr, LInScope.seedOf_clr] at this
  rw [LInScope.seedOfK, LInScope.addPairs_withParts, this]
  simp [LInScope.norm_clr_withParts]

theorem LOutScope.addPairs_pairs0K (ko : KeyOps) (ver : Option Nat) (hv : ver ≠ some 2) (s : LOutScope)
    (h : LOutWF0 ko s.clr) :
    LOutScope.addPairs ko s.seedOf0K (s.pairsL ver) = some s.norm := by
  have := LOutScope.addPairs_pairs0 ko ver hv s.clr h
  rw [LOutScope.pairsL_clr, LOutScope.seedOf0_clr] at this
  rw [LOutScope.seedOf0K, LOutScope.addPairs_withNonce, this]
  simp [LOutScope.norm_clr_withNonce]

/-! ### scopes in sequence, the whole object (copies of `readLIns_write'` / `readLOuts_write0` / `LPset.parse_ser_v0` for the
    seeds with kept parts) -/

theorem readLIns_writeK (ko : KeyOps) (tx : Option LTx) (ver : Option Nat) :
    ∀ (ins : List LInScope) (i : Nat) (r : Bytes), (∀ s ∈ ins, LInWF ko s.clr) →
    (∀ (j : Nat) (s : LInScope), ins[j]? = some s → lseedIn tx (i + j) = LInScope.seedOfK ver s) →
    readLIns ko tx ins.length i (ins.flatMap (fun s => writeKVs (s.pairs ver)) ++ r)
      = some (ins.map LInScope.norm, r) := by
  intro ins
  induction ins with
  | nil => intro i r _ _; simp [readLIns]
  | cons s ins ih =>
    intro i r hwf hseed
    have h1 := readKVs_write (s.pairs ver) (ins.flatMap (fun s => writeKVs (s.pairs ver)) ++ r)
      (LInScope.pairs_wf ko ver s.clr (hwf s (by simp)))
    have h2 := LInScope.addPairs_pairsK ko ver s (hwf s (by simp))
    have h3 : lseedIn tx i = LInScope.seedOfK ver s := by simpa using hseed 0 s (by simp)
    have h4 := ih (i + 1) r (fun x hx => hwf x (by simp [hx])) (fun j x hx => by
      have := hseed (j + 1) x (by simpa using hx)
      rwa [show i + (j + 1) = i + 1 + j by omega] at this)
    simp only [List.flatMap_cons, List.append_assoc, List.length_cons, readLIns, h1, h3, h2, h4, List.map_cons]

theorem readLOuts_write0K (ko : KeyOps) (tx : Option LTx) (ver : Option Nat) (hv : ver ≠ some 2) :
    ∀ (outs : List LOutScope) (i : Nat) (r : Bytes), (∀ s ∈ outs, LOutWF0 ko s.clr) →
    (∀ (j : Nat) (s : LOutScope), outs[j]? = some s → lseedOut tx (i + j) = s.seedOf0K) →
    readLOuts ko tx outs.length i (outs.flatMap (fun s => writeKVs (s.pairsL ver)) ++ r)
      = some (outs.map LOutScope.norm, r) := by
  intro outs
  induction outs with
  | nil => intro i r _ _; simp [readLOuts]
  | cons s outs ih =>
    intro i r hwf hseed
    have h1 := readKVs_write (s.pairsL ver) (outs.flatMap (fun s => writeKVs (s.pairsL ver)) ++ r)
      (LOutScope.pairsL_wf0 ko ver s.clr (hwf s (by simp)))
    have h2 := LOutScope.addPairs_pairs0K ko ver hv s (hwf s (by simp))
    have h3 : lseedOut tx i = s.seedOf0K := by simpa using hseed 0 s (by simp)
    have h4 := ih (i + 1) r (fun x hx => hwf x (by simp [hx])) (fun j x hx => by
      have := hseed (j + 1) x (by simpa using hx)
      rwa [show i + (j + 1) = i + 1 + j by omega] at this)
    simp only [List.flatMap_cons, List.append_assoc, List.length_cons, readLOuts, h1, h3, h2, h4, List.map_cons]

/-- well-formed version-0 PSET object whose scopes may keep parts of the global transaction (fix `d53`): as `LPsetWF0`,
    scope well-formedness taken with the kept parts cleared, seeds WITH the kept parts. `tx`: the object carries its transaction — it is well-formed, fits the framing,
    agrees with the stored version / locktime — and the seeds `read_from` derives from that transaction are the seeds of
    the object's scopes (decidable; for outputs this says: script, asset and value-or-commitment of the scope are the
    ones its own `vout` reports). -/
structure LPsetWF0K (ko : KeyOps) (p : LPset) : Prop where
  version : p.version ≠ some 2
  versionLt : OptP (· < 2^32) p.version
  xpubs : ∀ e ∈ p.xpubs, ko.validXpub e.1 = true ∧ Fits (0x01 :: e.1) ∧ DerivWF e.2
  xpubsNodup : (p.xpubs.map Prod.fst).Nodup
  unknown : ∀ kv ∈ p.unknown, KVWF kv ∧ unkKeyGlobal false kv.1 = true
  unknownNodup : (p.unknown.map Prod.fst).Nodup
  ins : ∀ s ∈ p.inputs, LInWF ko s.clr
  outs : ∀ s ∈ p.outputs, LOutWF0 ko s.clr
  tx : ∃ t, p.tx = some t ∧ WF t ∧ Fits (LTx.ser t) ∧ p.txVersion = some t.version ∧ p.locktime = some t.locktime
    ∧ (∀ (j : Nat) (s : LInScope), p.inputs[j]? = some s → lseedIn (some t) j = LInScope.seedOfK p.version s)
    ∧ (∀ (j : Nat) (s : LOutScope), p.outputs[j]? = some s → lseedOut (some t) j = s.seedOf0K)

/-- serialise-then-parse, version 0 -/
theorem LPset.parse_ser_v0K (ko : KeyOps) (p : LPset) (h : LPsetWF0K ko p) :
    ∃ b, LPset.ser p = some b ∧ LPset.parse ko b = some p.norm := by
  obtain ⟨t, ht, twf, tfit, tv, tl, sin, sout⟩ := h.tx
  obtain ⟨tun, tni, tno⟩ := LPset.tx_shape p t ht
  have hv := h.version
  have hisv2 : (p.version == some 2) = false := by simp [hv]
  have hver := h.versionLt
  let xp : List KV := p.xpubs.map (fun e => (0x01 :: e.1, Deriv.ser e.2))
  have x1 : ∀ kv ∈ xp, KVWF kv ∧ notTxVer kv = true ∧ ∃ x, kv.1 = 0x01 :: x := by
    intro kv hkv
    obtain ⟨e, he, rfl⟩ := List.mem_map.mp hkv
    obtain ⟨a1, a2, a3⟩ := h.xpubs e he
    exact ⟨⟨by simp, a2, a3.2.2⟩, by simp [notTxVer], e.1, rfl⟩
  have x2 : (xp.map Prod.fst).Nodup := by
    have : xp.map Prod.fst = (p.xpubs.map Prod.fst).map (fun x => 0x01 :: x) := by
      simp [xp, List.map_map, Function.comp_def]
    rw [this]
    exact nodup_map_cons _ _ h.xpubsNodup
  have z1 : ∀ kv ∈ p.unknown, KVWF kv ∧ notTxVer kv = true ∧ (∀ x, kv.1 ≠ 0x01 :: x) := by
    intro kv hkv
    obtain ⟨a, b⟩ := h.unknown kv hkv
    obtain ⟨c1, c2, c3⟩ := unkKeyGlobal_props _ kv.1 b
    exact ⟨a, c1, c2⟩
  have hnd2 : ((xp ++ p.unknown).map Prod.fst).Nodup := by
    rw [List.map_append]
    refine nodup_append_of x2 h.unknownNodup ?_
    intro a ha b hb e
    obtain ⟨kv, hkv, rfl⟩ := List.mem_map.mp ha
    obtain ⟨kv', hkv', rfl⟩ := List.mem_map.mp hb
    obtain ⟨x, hx⟩ := (x1 kv hkv).2.2
    exact (z1 kv' hkv').2.2 x (by rw [← e, hx])
  have hgf : lglobalFold none none []
      (([0x00], LTx.ser t) :: (xp ++ optKV [0xfb] (p.version.map (leN 4)) ++ p.unknown))
      = some (some t, p.version, xp ++ p.unknown) := by
    rw [lglobalFold_tx_step t twf tun (LPset.tx_noWitness p t ht), List.append_assoc,
      lglobalFold_unknown_seg _ _ _ _ _ (fun kv hkv => (x1 kv hkv).2.1) (by simpa using x2),
      lglobalFold_ver_step _ _ hver]
    have := lglobalFold_unknown_seg p.unknown (some t) p.version ([] ++ xp) []
      (fun kv hkv => (z1 kv hkv).2.1) (by simpa using hnd2)
    simp only [List.append_nil, List.nil_append] at this ⊢
    rw [this]; rfl
  have hpu : parseUnknowns ko (p.version == some 2) (lgstate0 (some t)) (xp ++ p.unknown)
      = some { txVersion := p.txVersion, locktime := p.locktime, nin := some p.inputs.length,
               nout := some p.outputs.length, xpubs := p.xpubs, unknown := p.unknown } := by
    rw [hisv2, tv, tl, ← tni, ← tno]
    have := pu_bind_step
      (pu_step_xpubs ko false p.xpubs (lgstate0 (some t)) (fun e he => ⟨(h.xpubs e he).1, (h.xpubs e he).2.2⟩))
      (pu_step_unknown ko false p.unknown _ (fun kv hkv => (h.unknown kv hkv).2))
    simpa [lgstate0, xp] using this
  have hins := readLIns_writeK ko (some t) p.version p.inputs 0
    (p.outputs.flatMap (fun s => writeKVs (s.pairsL p.version)) ++ []) h.ins
    (fun j s hs => by simpa using sin j s hs)
  have houts := readLOuts_write0K ko (some t) p.version hv p.outputs 0 [] h.outs
    (fun j s hs => by simpa using sout j s hs)
  have hwf : ∀ kv ∈ (([0x00], LTx.ser t) :: (xp ++ optKV [0xfb] (p.version.map (leN 4)) ++ p.unknown) : List KV),
      KVWF kv := by
    intro kv hkv
    simp only [List.mem_cons, List.mem_append] at hkv
    rcases hkv with rfl | ((hkv | hkv) | hkv)
    · exact ⟨by simp, by simp, tfit⟩
    · exact (x1 kv hkv).1
    · exact optKV_wf _ _ ⟨by simp, by simp [Fits]⟩ (OptP_map hver (fun t ht => by simp [Fits])) kv hkv
    · exact (z1 kv hkv).1
  have hparse := LPset.parse_of_parts ko _ _ (some t) p.version _ _ (p.inputs.map LInScope.norm)
    (p.outputs.map LOutScope.norm) _ hwf hgf (by simp [hv]) (by simp) hpu (by simpa using hins) (by simpa using houts)
  refine ⟨_, ?_, hparse⟩
  have hfits : LTx.serOpt t = some (LTx.ser t) := by simp [LTx.serOpt, LTx.fits_of_wf t twf]
  have hgp : p.globalPairs = some (([0x00], LTx.ser t) :: (xp ++ optKV [0xfb] (p.version.map (leN 4)) ++ p.unknown)) := by
    simp only [LPset.globalPairs, hisv2, Bool.not_false, if_true, ht, Option.bind_some, hfits, Option.map_some,
      Bool.false_eq_true, if_false, List.append_nil]
    simp [xp]
  have hop : ∀ s ∈ p.outputs, s.pairs p.version = some (s.pairsL p.version) := by
    intro s hs
    simp [LOutScope.pairs_eq, hv]
  rw [LPset.ser_of_globalPairs p _ hgp hop]
  simp [List.append_assoc]

end Embit
