import EmbitModel.Proofs.Contract
/-
  Contract theorems for the primitives where the two sides take different routes through the curve
  (py negates / converts keys by re-parsing the compressed encoding; ECDSA signing attempts), relative to `EcLaws`.
-/
namespace Embit
open Embit.Model Embit.Model.Der Embit.Model.PySecp

variable (E : EcOps)

/-- a loaded key structure has the coordinates it was loaded from -/
theorem pubLoad_xy (L : EcLaws E) (pub : Bytes) (P : E.Pt) (h : pubLoad E pub = some P) :
    ∃ x y, E.xy P = some (x, y) ∧ x < E.p ∧ y < E.p := by
  unfold pubLoad at h
  simp only [] at h
  split at h
  · rename_i hxy
    exact ⟨_, _, L.xy_ofXY _ _ _ hxy.1 hxy.2 h, hxy.1, hxy.2⟩
  · cases h

/-- `ECPubKey.set` on the compressed encoding of the x coordinate of `P`: the point itself when the parity byte
    matches the parity of its y, its negation otherwise -/
theorem setCompressed_of_point (L : EcLaws E) (hp : E.p ≤ 2 ^ 256) (P : E.Pt) (x y : Nat)
    (hxy : E.xy P = some (x, y)) (pre : UInt8) :
    (pre.toNat % 2 = y % 2 → setCompressed E pre (beN 32 x) = some P) ∧
    (pre.toNat % 2 ≠ y % 2 → setCompressed E pre (beN 32 x) = some (E.neg P)) := by
  obtain ⟨_, hxp, hy0, hyp⟩ := L.xy_range P x y hxy
  unfold setCompressed
  simp only []
  rw [ofBe_beN32 x (by omega)]
  simp only [hxp, if_true]
  by_cases hy : y % 2 = 0
  · rw [L.liftX_even P x y hxy hy]
    simp only []
    constructor
    · intro h
      have : ¬ pre.toNat % 2 = 1 := by omega
      simp [this]
    · intro h
      have : pre.toNat % 2 = 1 := by omega
      simp [this]
  · obtain ⟨hneg, hpar⟩ := L.neg_parity P x y hxy
    rw [L.liftX_even (E.neg P) x (E.p - y) hneg (hpar.mpr (by omega))]
    simp only []
    constructor
    · intro h
      have : pre.toNat % 2 = 1 := by omega
      simp [this, L.neg_neg]
    · intro h
      have : ¬ pre.toNat % 2 = 1 := by omega
      simp [this]

theorem serialize_compressed (L : EcLaws E) (pub : Bytes) (hl : pub.length = 64) (P : E.Pt)
    (h : pubLoad E pub = some P) (x y : Nat) (hxy : E.xy P = some (x, y)) :
    ecPubkeySerialize E pub EC_COMPRESSED = some (UInt8.ofNat (2 + y % 2) :: beN 32 x) := by
  unfold ecPubkeySerialize
  simp [hl, h, hxy, EC_COMPRESSED, EC_UNCOMPRESSED]

theorem serialize_none (pub : Bytes) (hl : pub.length = 64) (h : pubLoad E pub = none) (flag : Nat) :
    ecPubkeySerialize E pub flag = none := by
  unfold ecPubkeySerialize
  simp only [hl, ne_eq, not_true_eq_false, if_false, h]
  split <;> rfl

theorem parse_compressed (pre : UInt8) (body : Bytes) (hb : body.length = 32) (hpre : pre = 0x02 ∨ pre = 0x03) :
    ecPubkeyParse E (pre :: body) = (setCompressed E pre body).bind (pubStore E) := by
  unfold ecPubkeyParse
  have e1 : ¬ ((pre :: body).length ≠ 33 ∧ (pre :: body).length ≠ 65) := by simp [hb]
  have e2 : (pre :: body).length = 33 := by simp [hb]
  have e3 : ¬ (pre ≠ 0x02 ∧ pre ≠ 0x03) := by rcases hpre with h | h <;> simp [h]
  simp only [e1, if_false, e2, if_true, e3]
  cases setCompressed E pre body <;> rfl

theorem eq_pubkey_negate (L : EcLaws E) (hp : E.p ≤ 2 ^ 256) (pub : Bytes) :
    ecPubkeyNegate E pub = Spec.Libsecp.ec_pubkey_negate E pub := by
  unfold ecPubkeyNegate Spec.Libsecp.ec_pubkey_negate
  by_cases hl : pub.length = 64
  · rw [← pubLoad_eq E pub hl]
    simp only [hl, ne_eq, not_true_eq_false, if_false]
    cases hP : pubLoad E pub with
    | none => rw [serialize_none E pub hl hP]; rfl
    | some P =>
      obtain ⟨x, y, hxy, _, _⟩ := pubLoad_xy E L pub P hP
      rw [serialize_compressed E L pub hl P hP x y hxy]
      simp only [Option.bind_some, ← pubStore_eq]
      have hcase : (2 + y % 2 = 2 ∧ y % 2 = 0) ∨ (2 + y % 2 = 3 ∧ y % 2 = 1) := by omega
      rcases hcase with ⟨h1, h2⟩ | ⟨h1, h2⟩
      · rw [h1]
        have e : UInt8.ofNat (5 - (UInt8.ofNat 2).toNat) = 0x03 := by decide
        have hpar : (0x03 : UInt8).toNat % 2 ≠ y % 2 := by
          have : (0x03 : UInt8).toNat % 2 = 1 := by decide
          omega
        rw [e, parse_compressed E _ _ (by simp) (Or.inr rfl),
          (setCompressed_of_point E L hp P x y hxy 0x03).2 hpar]
        rfl
      · rw [h1]
        have e : UInt8.ofNat (5 - (UInt8.ofNat 3).toNat) = 0x02 := by decide
        have hpar : (0x02 : UInt8).toNat % 2 ≠ y % 2 := by
          have : (0x02 : UInt8).toNat % 2 = 0 := by decide
          omega
        rw [e, parse_compressed E _ _ (by simp) (Or.inl rfl),
          (setCompressed_of_point E L hp P x y hxy 0x02).2 hpar]
        rfl
  · simp [hl, pubkeyOf_none E pub hl]

theorem eq_xonly (L : EcLaws E) (hp : E.p ≤ 2 ^ 256) (pub : Bytes) :
    xonlyPubkeyFromPubkey E pub = Spec.Libsecp.xonly_pubkey_from_pubkey E pub := by
  unfold xonlyPubkeyFromPubkey Spec.Libsecp.xonly_pubkey_from_pubkey
  by_cases hl : pub.length = 64
  · rw [← pubLoad_eq E pub hl]
    simp only [hl, ne_eq, not_true_eq_false, if_false]
    cases hP : pubLoad E pub with
    | none => rw [serialize_none E pub hl hP]; rfl
    | some P =>
      obtain ⟨x, y, hxy, _, _⟩ := pubLoad_xy E L pub P hP
      rw [serialize_compressed E L pub hl P hP x y hxy]
      have ht : (beN 32 x).take 32 = beN 32 x := List.take_of_length_le (by simp)
      simp only [Option.bind_some, hxy, ht]
      rw [parse_compressed E _ _ (by simp) (Or.inl rfl), ← pubStore_eq]
      have h2 : (0x02 : UInt8).toNat % 2 = 0 := by decide
      by_cases hy : y % 2 = 1
      · have c : (0x02 : UInt8).toNat % 2 ≠ y % 2 := by omega
        have e : UInt8.ofNat (2 + y % 2) = 0x03 := by rw [hy]; rfl
        rw [(setCompressed_of_point E L hp P x y hxy 0x02).2 c]
        simp only [Option.bind_some, hy, if_true, e, ← pubStore_eq]
        cases pubStore E (E.neg P) <;> simp
      · have c : (0x02 : UInt8).toNat % 2 = y % 2 := by omega
        have hy0 : y % 2 = 0 := by omega
        have e : UInt8.ofNat (2 + y % 2) = 0x02 := by rw [hy0]; rfl
        rw [(setCompressed_of_point E L hp P x y hxy 0x02).1 c]
        simp only [Option.bind_some, hy, if_false, e, ← pubStore_eq]
        cases pubStore E P <;> simp
  · simp [hl, pubkeyOf_none E pub hl]

theorem eq_keypair_create (L : EcLaws E) (hp : E.p ≤ 2 ^ 256) (secret : Bytes) :
    keypairCreate E secret = Spec.Libsecp.keypair_create E secret := by
  unfold keypairCreate Spec.Libsecp.keypair_create
  rw [← eq_pubkey_create]
  cases hc : ecPubkeyCreate E secret with
  | none => rfl
  | some pub =>
    simp only [Option.map_some]
    -- the created structure is a valid key, so the x-only conversion cannot fail
    unfold ecPubkeyCreate at hc
    split at hc
    · cases hc
    · simp only [] at hc
      split at hc
      · unfold pubStore at hc
        split at hc
        · cases hc
        · rename_i x y hxy
          simp only [Option.some.injEq] at hc
          subst hc
          obtain ⟨_, hxp, _, hyp⟩ := L.xy_range _ _ _ hxy
          rw [eq_xonly E L hp]
          unfold Spec.Libsecp.xonly_pubkey_from_pubkey
          have hlen : (leN 32 x ++ leN 32 y).length = 64 := by simp
          rw [← pubLoad_eq E _ hlen, pubLoad_store E x y hxp hyp hp, L.ofXY_xy _ _ _ hxy]
          simp only [Option.bind_some, hxy]
          by_cases hy : y % 2 = 1
          · simp only [hy, if_true]
            rw [← pubStore_eq]; unfold pubStore
            rw [L.xy_neg _ _ _ hxy]
            rfl
          · simp only [hy, if_false]
            rw [← pubStore_eq]; unfold pubStore
            rw [hxy]
            rfl
      · cases hc

/-! ### verification verdicts -/

/-- a structure made from a pair that libsecp256k1 verifies has non-zero members and a low S -/
theorem contract_verify_true_range (r s : Nat) (msg pub : Bytes) (hr : r < 2 ^ 256) (hs : s < 2 ^ 256)
    (h : Spec.Libsecp.ecdsa_verify E (Spec.Libsecp.sigStruct r s) msg pub = some true) :
    r ≠ 0 ∧ s ≠ 0 ∧ s ≤ E.n / 2 := by
  unfold Spec.Libsecp.ecdsa_verify Spec.Libsecp.sigOf Spec.Libsecp.sigStruct at h
  split at h
  · cases h
  · simp only [List.length_append, leN_length, Nat.reduceAdd, if_true, Option.bind_some] at h
    rw [take32_leN, drop32_leN, ofLe_leN32 r hr, ofLe_leN32 s hs] at h
    cases hq : Spec.Libsecp.pubkeyOf E pub with
    | none => rw [hq] at h; cases h
    | some Q =>
      rw [hq] at h
      simp only [Option.map_some, Option.some.injEq, Bool.and_eq_true] at h
      obtain ⟨hlow, hv⟩ := h
      unfold Spec.Ecdsa.isLowS at hlow
      unfold Spec.Ecdsa.verify at hv
      split at hv
      · cases hv
      · rename_i hrange
        simp only [decide_eq_true_eq] at hlow
        refine ⟨by omega, by omega, by omega⟩

open Embit.Spec.Libsecp (contentValue readInt parseDerRS) in
theorem contentValue_le (c : Bytes) : contentValue E c < E.n ∨ contentValue E c = 0 := by
  unfold contentValue
  split
  · right; rfl
  · rename_i h; left; omega

open Embit.Spec.Libsecp (contentValue readInt parseDerRS) in
theorem readInt_le (b : Bytes) (v : Nat) (rest : Bytes) (h : readInt E b = some (v, rest)) : v < E.n ∨ v = 0 := by
  unfold readInt at h
  split at h
  · split at h
    · cases h
    · split at h
      · cases h
      · split at h
        · cases h
        · simp only [Option.some.injEq, Prod.mk.injEq] at h
          rw [← h.1]; exact contentValue_le E _
  · cases h

open Embit.Spec.Libsecp (contentValue readInt parseDerRS) in
theorem parseDerRS_le (der : Bytes) (r s : Nat) (h : parseDerRS E der = some (r, s)) :
    (r < E.n ∨ r = 0) ∧ (s < E.n ∨ s = 0) := by
  unfold parseDerRS at h
  split at h
  · split at h
    · cases h
    · split at h
      · cases h
      · split at h
        · cases h
        · rename_i r' b1 hri
          split at h
          · cases h
          · rename_i s' b2 hsi
            split at h
            · simp only [Option.some.injEq, Prod.mk.injEq] at h
              obtain ⟨rfl, rfl⟩ := h
              exact ⟨readInt_le E _ _ _ hri, readInt_le E _ _ _ hsi⟩
            · cases h
  · cases h

/-! ### ECDSA signing: the attempt loop of libsecp256k1 vs "first valid candidate, then sign, else raise" -/

variable (H : HashOps)

open Spec.Rfc6979 in
theorem signAttempts_of_find (d z : Nat) (kv : Bytes × Bytes) :
    ∀ (is : List Nat),
      (∀ k, (is.map fun i => (candidate H.hmac256 kv i).1).find? (fun c => 1 ≤ c ∧ c < E.n) = some k →
        ∀ r s, Spec.Ecdsa.signWith E d z k = some (r, s) →
          Spec.Libsecp.signAttempts E H d z kv is = some (k, r, s)) ∧
      ((is.map fun i => (candidate H.hmac256 kv i).1).find? (fun c => 1 ≤ c ∧ c < E.n) = none →
        Spec.Libsecp.signAttempts E H d z kv is = none) := by
  intro is
  induction is with
  | nil => simp [Spec.Libsecp.signAttempts]
  | cons i rest ih =>
    simp only [List.map_cons, List.find?_cons, Spec.Libsecp.signAttempts]
    by_cases hv : 1 ≤ (candidate H.hmac256 kv i).1 ∧ (candidate H.hmac256 kv i).1 < E.n
    · simp only [hv, and_self, decide_true, if_true, Option.some.injEq]
      constructor
      · intro k hk r s hs
        subst hk
        rw [hs]
      · intro h; cases h
    · have : decide (1 ≤ (candidate H.hmac256 kv i).1 ∧ (candidate H.hmac256 kv i).1 < E.n) = false := by
        simpa using hv
      simp only [this, hv, if_false]
      exact ih

theorem eq_ecdsa_sign_partial (hn : E.n < 2 ^ 256) (hodd : E.n % 2 = 1) (fuel : Nat)
    (msg secret : Bytes) (extra : Option Bytes)
    (hgood : ∀ k, deterministicK H fuel E.n (ofBe secret) (ofBe msg) extra = some k →
      (Spec.Ecdsa.signWith E (ofBe secret) (ofBe msg) k).isSome) :
    ecdsaSign E H fuel msg secret extra = Spec.Libsecp.ecdsa_sign E H fuel msg secret extra := by
  unfold ecdsaSign Spec.Libsecp.ecdsa_sign
  by_cases hm : msg.length = 32
  swap
  · simp [hm]
  by_cases hx : badExtra extra = true
  · have : (extra.map fun e => e.length != 32) = some true := by
      cases extra with
      | none => simp [badExtra] at hx
      | some e => simpa [badExtra] using hx
    simp only [hm, ne_eq, not_true_eq_false, if_false, hx, if_true, this]
    split <;> rfl
  have hx' : ¬ (extra.map fun e => e.length != 32) = some true := by
    cases extra with
    | none => simp
    | some e => simpa [badExtra] using hx
  by_cases hs : secret.length = 32
  swap
  · simp [hm, hs, hx, hx', seckey_none_of_len E secret hs]
  simp only [hm, hs, ne_eq, not_true_eq_false, if_false, hx, hx', seckey_eq E secret hs]
  by_cases hv : seckeyValid E (ofBe secret) = true
  swap
  · simp [hv]
  simp only [hv, Bool.not_true, Bool.false_eq_true, if_false, if_true, Option.bind_some]
  -- the nonce
  have hraw := deterministicK_eq_raw H fuel E.n (ofBe secret) (ofBe msg) extra
  have hmsg : beN 32 (ofBe msg) = msg := by rw [← hm]; exact beN_ofBe msg
  unfold Spec.Rfc6979.nonceRaw Spec.Rfc6979.firstValid Spec.Rfc6979.int2octets at hraw
  rw [hmsg] at hraw
  unfold Spec.Libsecp.signCore
  obtain ⟨hfound, hnone⟩ := signAttempts_of_find E H (ofBe secret) (ofBe msg)
    (Spec.Rfc6979.init H.hmac256 (beN 32 (ofBe secret) ++ msg ++ extra.getD [])) (List.range fuel)
  cases hk : deterministicK H fuel E.n (ofBe secret) (ofBe msg) extra with
  | none =>
    rw [hk] at hraw
    rw [hnone hraw.symm]
    rfl
  | some k =>
    rw [hk] at hraw
    have hg := hgood k hk
    cases hsw : Spec.Ecdsa.signWith E (ofBe secret) (ofBe msg) k with
    | none => rw [hsw] at hg; cases hg
    | some rs =>
      obtain ⟨r, s0⟩ := rs
      rw [hfound k hraw.symm r s0 hsw]
      simp only [Option.map_some]
      -- the model computes the same (r, s0) and normalises s the same way
      unfold Spec.Ecdsa.signWith at hsw
      unfold signRS
      cases hR : E.xy (E.mul k E.g) with
      | none => rw [hR] at hsw; cases hsw
      | some xy =>
        obtain ⟨rx, ry⟩ := xy
        rw [hR] at hsw
        simp only [] at hsw ⊢
        split at hsw
        · cases hsw
        · rename_i hnz
          simp only [Option.some.injEq, Prod.mk.injEq] at hsw
          obtain ⟨hr, hs0⟩ := hsw
          have hnpos : 0 < E.n := by omega
          have hmul : ofBe secret * (rx % E.n) = rx % E.n * ofBe secret := Nat.mul_comm _ _
          have hr0 : r ≠ 0 := by rw [← hr]; intro h; exact hnz (Or.inl h)
          have hs00 : s0 ≠ 0 := by rw [← hs0]; intro h; exact hnz (Or.inr h)
          rw [hr] at hs0
          rw [hmul, hr, hs0]
          have hs0lt : s0 < E.n := by rw [← hs0]; exact Nat.mod_lt _ hnpos
          have hrlt : r < E.n := by rw [← hr]; exact Nat.mod_lt _ hnpos
          have hnorm := lowS_norm E.n s0 (by omega) hs0lt
          simp only [] at hnorm
          unfold ecdsaSignatureParseDer
          rw [parse_serRS E.n true r _ (by omega)
            ((rangeOk_iff E.n true r _).mpr ⟨by omega, hrlt, hnorm.1, hnorm.2.1, fun _ => hnorm.2.2⟩)]
          simp only [Spec.Libsecp.sigStruct, Spec.Ecdsa.normalizeS, Spec.Ecdsa.isLowS, decide_eq_true_eq,
            Option.some.injEq]
          rw [normalize_eq E.n s0 hodd]

/-! ### a toy curve and toy hashes for witness theorems (ℤ/11, `x(P) = P` except `x(5) = 11 ≡ 0`) -/

def toyE : EcOps where
  Pt := Nat
  add := fun a b => (a + b) % 11
  neg := fun a => (11 - a % 11) % 11
  mul := fun k P => (k * P) % 11
  g := 1
  n := 11
  p := 13
  xy := fun P => if P % 11 = 0 then none else some (if P % 11 = 5 then 11 else P % 11, P % 11)
  ofXY := fun x y => if 0 < y ∧ y < 11 ∧ (x = y ∨ (y = 5 ∧ x = 11)) ∧ (y = 5 → x = 11) then some y else none
  liftX := fun x => if 0 < x ∧ x < 11 ∧ x % 2 = 0 then some x else none
  invN := fun a => a ^ 9 % 11

def toyHs : HashOps where
  sha256 := id
  hmac256 := fun k m => beN 32 ((ofBe k + ofBe m + 3) % 7 + 1)

end Embit
