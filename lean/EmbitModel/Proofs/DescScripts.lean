import EmbitModel.Proofs.DescDerive
import EmbitModel.Proofs.MiniscriptScript
import EmbitModel.Spec.DescriptorSpec
/-
  Helper lemmas for the script theorems of C12: fusion of `mapKeys` with `toMs`, agreement of the model's
  `Key.derive` with the specification's `deriveKey`, the tap tree hash, independence of typing from key bytes.
-/
namespace Embit.Model.Descriptor
open Embit Embit.Miniscript Embit.Spec.Descriptor

variable {K : Type}

/-! ### mapOpt -/

theorem mapOpt_bind {α β γ : Type} (f : α → Option β) (g : β → Option γ) (l : List α) :
    (mapOpt f l).bind (mapOpt g) = mapOpt (fun x => (f x).bind g) l := by
  induction l with
  | nil => rfl
  | cons a r ih =>
    simp only [mapOpt]
    cases hfa : f a with
    | none => simp
    | some a' =>
      cases hr : mapOpt f r with
      | none =>
        rw [hr] at ih
        simp only [Option.bind_none] at ih
        simp only [Option.bind_some, ← ih]
        cases g a' <;> rfl
      | some r' =>
        rw [hr] at ih
        simp only [Option.bind_some] at ih
        simp only [Option.bind_some, ← ih, mapOpt]

theorem mapOpt_congr {α β : Type} {f g : α → Option β} {l : List α} (h : ∀ x ∈ l, f x = g x) :
    mapOpt f l = mapOpt g l := by
  induction l with
  | nil => rfl
  | cons a r ih =>
    simp only [mapOpt]
    rw [h a List.mem_cons_self, ih (fun x hx => h x (List.mem_cons_of_mem _ hx))]

/-! ### fusion: transform the keys, then resolve them = resolve with the composed function -/

def fuse (f : KeyExpr K → Option (KeyExpr K)) (P : KeyFrag → KeyExpr K → Option Bytes) :
    KeyFrag → KeyExpr K → Option Bytes := fun fr k => (f k).bind (P fr)

theorem toMsL_mapKeysL (f : KeyExpr K → Option (KeyExpr K)) (P : KeyFrag → KeyExpr K → Option Bytes) :
    ∀ (xs : List (DMs K)),
      (∀ x ∈ xs, (x.mapKeys f).bind (fun e' => e'.toMs P) = x.toMs (fuse f P)) →
      (DMs.mapKeysL f xs).bind (fun l => DMs.toMsL P l) = DMs.toMsL (fuse f P) xs := by
  intro xs
  induction xs with
  | nil => intro _; rfl
  | cons a r ih =>
    intro h
    have ha := h a List.mem_cons_self
    have hr := ih (fun x hx => h x (List.mem_cons_of_mem _ hx))
    simp only [DMs.mapKeysL, DMs.toMsL]
    rw [← ha, ← hr]
    cases a.mapKeys f with
    | none => simp
    | some a' =>
      cases DMs.mapKeysL f r with
      | none =>
        simp only [Option.bind_some, Option.bind_none]
        cases a'.toMs P <;> rfl
      | some r' => simp [DMs.toMsL]

theorem DMs.toMs_mapKeys (f : KeyExpr K → Option (KeyExpr K)) (P : KeyFrag → KeyExpr K → Option Bytes) :
    ∀ (e : DMs K), (e.mapKeys f).bind (fun e' => e'.toMs P) = e.toMs (fuse f P) := by
  intro e
  induction e using DMs.ind with
  | key fr k =>
    simp only [DMs.mapKeys, DMs.toMs, fuse]
    cases f k <;> simp [DMs.toMs]
  | time _ _ => rfl
  | hash _ _ => rfl
  | andor x y z ihx ihy ihz =>
    simp only [DMs.mapKeys, DMs.toMs]
    rw [← ihx, ← ihy, ← ihz]
    cases x.mapKeys f with
    | none => simp
    | some x' =>
      cases y.mapKeys f with
      | none => simp only [Option.bind_some, Option.bind_none]; cases x'.toMs P <;> rfl
      | some y' =>
        cases z.mapKeys f with
        | none =>
          simp only [Option.bind_some, Option.bind_none]
          cases x'.toMs P <;> cases y'.toMs P <;> rfl
        | some z' => simp [DMs.toMs]
  | bin fr x y ihx ihy =>
    simp only [DMs.mapKeys, DMs.toMs]
    rw [← ihx, ← ihy]
    cases x.mapKeys f with
    | none => simp
    | some x' =>
      cases y.mapKeys f with
      | none => simp only [Option.bind_some, Option.bind_none]; cases x'.toMs P <;> rfl
      | some y' => simp [DMs.toMs]
  | thresh n xs ih =>
    simp only [DMs.mapKeys, DMs.toMs]
    rw [← toMsL_mapKeysL f P xs ih]
    cases DMs.mapKeysL f xs <;> simp [DMs.toMs]
  | multi fr n keys =>
    simp only [DMs.mapKeys, DMs.toMs]
    have := mapOpt_bind f (P .pk_k) keys
    unfold fuse
    rw [← this]
    cases mapOpt f keys <;> simp [DMs.toMs]
  | wrap w x ih =>
    simp only [DMs.mapKeys, DMs.toMs]
    rw [← ih]
    cases x.mapKeys f <;> simp [DMs.toMs]

theorem toMsL_congr {P Q : KeyFrag → KeyExpr K → Option Bytes} :
    ∀ (xs : List (DMs K)), (∀ x ∈ xs, x.toMs P = x.toMs Q) → DMs.toMsL P xs = DMs.toMsL Q xs := by
  intro xs
  induction xs with
  | nil => intro _; rfl
  | cons a r ih =>
    intro h
    simp only [DMs.toMsL]
    rw [h a List.mem_cons_self, ih (fun x hx => h x (List.mem_cons_of_mem _ hx))]

theorem mem_keysL_of {xs : List (DMs K)} {x : DMs K} {k : KeyExpr K} (hx : x ∈ xs) (hk : k ∈ x.keys) :
    k ∈ DMs.keysL xs := by
  induction xs with
  | nil => cases hx
  | cons a r ih =>
    simp only [DMs.keysL, List.mem_append]
    cases hx with
    | head => exact Or.inl hk
    | tail _ hm => exact Or.inr (ih hm)

/-- resolving with two payload functions that agree on the keys of the expression gives the same result -/
theorem DMs.toMs_congr {P Q : KeyFrag → KeyExpr K → Option Bytes} :
    ∀ (e : DMs K), (∀ fr k, k ∈ e.keys → P fr k = Q fr k) → e.toMs P = e.toMs Q := by
  intro e
  induction e using DMs.ind with
  | key fr k => intro h; simp only [DMs.toMs]; rw [h fr k (by simp [DMs.keys])]
  | time _ _ => intro _; rfl
  | hash _ _ => intro _; rfl
  | andor x y z ihx ihy ihz =>
    intro h
    simp only [DMs.toMs]
    rw [ihx (fun fr k hk => h fr k (by simp [DMs.keys, hk])),
      ihy (fun fr k hk => h fr k (by simp [DMs.keys, hk])),
      ihz (fun fr k hk => h fr k (by simp [DMs.keys, hk]))]
  | bin fr x y ihx ihy =>
    intro h
    simp only [DMs.toMs]
    rw [ihx (fun fr k hk => h fr k (by simp [DMs.keys, hk])),
      ihy (fun fr k hk => h fr k (by simp [DMs.keys, hk]))]
  | thresh n xs ih =>
    intro h
    simp only [DMs.toMs]
    rw [toMsL_congr xs (fun x hx => ih x hx (fun fr k hk => h fr k (by
      simp only [DMs.keys]; exact mem_keysL_of hx hk)))]
  | multi fr n keys =>
    intro h
    simp only [DMs.toMs]
    rw [mapOpt_congr (fun k hk => h .pk_k k (by simpa [DMs.keys] using hk))]
  | wrap w x ih =>
    intro h
    simp only [DMs.toMs]
    rw [ih (fun fr k hk => h fr k (by simpa [DMs.keys] using hk))]

/-! ### `fill` against `pathAt` -/

theorem fillSteps_pathAt (i b : Nat) : ∀ (ix : List Step) (der : List (Option Nat)),
    fillSteps (some i) (some b) ix = some der → (∀ x ∈ der, x ≠ none) →
    ∃ p, pathAt i b ix = some p ∧ der = p.map some := by
  intro ix
  induction ix with
  | nil => intro der h _; simp [fillSteps] at h; subst h; exact ⟨[], rfl, rfl⟩
  | cons s r ih =>
    intro der h hn
    cases s with
    | idx n =>
      simp only [fillSteps] at h
      cases hr : fillSteps (some i) (some b) r with
      | none => simp [hr] at h
      | some t =>
        simp [hr] at h; subst h
        obtain ⟨p, hp, ht⟩ := ih t hr (fun x hx => hn x (List.mem_cons_of_mem _ hx))
        exact ⟨n :: p, by simp [pathAt, hp], by simp [ht]⟩
    | wild =>
      simp only [fillSteps] at h
      cases hr : fillSteps (some i) (some b) r with
      | none => simp [hr] at h
      | some t =>
        simp [hr] at h; subst h
        obtain ⟨p, hp, ht⟩ := ih t hr (fun x hx => hn x (List.mem_cons_of_mem _ hx))
        exact ⟨i :: p, by simp [pathAt, hp], by simp [ht]⟩
    | set l =>
      simp only [fillSteps] at h
      split at h
      · cases h
      · rename_i hb
        cases hr : fillSteps (some i) (some b) r with
        | none => simp [hr] at h
        | some t =>
          simp [hr] at h; subst h
          obtain ⟨p, hp, ht⟩ := ih t hr (fun x hx => hn x (List.mem_cons_of_mem _ hx))
          have hlt : b < l.length := by omega
          have hne := hn (l.getD b none) List.mem_cons_self
          cases hg : l[b]? with
          | none => simp [List.getElem?_eq_none_iff] at hg; omega
          | some o =>
            have hgd : l.getD b none = o := by simp [List.getD, hg]
            rw [hgd] at hne
            cases o with
            | none => exact absurd rfl hne
            | some n => exact ⟨n :: p, by simp [pathAt, hg, hp], by simp [ht, hgd]⟩

theorem pathAt_fillSteps (i b : Nat) : ∀ (ix : List Step) (p : List Nat),
    pathAt i b ix = some p → fillSteps (some i) (some b) ix = some (p.map some) := by
  intro ix
  induction ix with
  | nil => intro p h; simp [pathAt] at h; subst h; rfl
  | cons s r ih =>
    intro p h
    cases s with
    | idx n =>
      simp only [pathAt] at h
      cases hr : pathAt i b r with
      | none => simp [hr] at h
      | some t => simp [hr] at h; subst h; simp [fillSteps, ih t hr]
    | wild =>
      simp only [pathAt] at h
      cases hr : pathAt i b r with
      | none => simp [hr] at h
      | some t => simp [hr] at h; subst h; simp [fillSteps, ih t hr]
    | set l =>
      simp only [pathAt] at h
      cases hr : pathAt i b r with
      | none =>
        cases hg : l[b]? with
        | none => simp [hg] at h
        | some o => cases o <;> simp [hg, hr] at h
      | some t =>
        cases hg : l[b]? with
        | none => simp [hg] at h
        | some o =>
          cases o with
          | none => simp [hg] at h
          | some n =>
            simp [hg, hr] at h; subst h
            have hlt : b < l.length := (List.getElem?_eq_some_iff.mp hg).1
            have hgd : l.getD b none = some n := by simp [List.getD, hg]
            simp only [fillSteps, ih t hr]
            rw [if_neg (by omega)]
            simp [hg]

end Embit.Model.Descriptor

namespace Embit.Model.Descriptor
open Embit Embit.Miniscript Embit.Spec.Descriptor Embit.Model.Miniscript

variable {K : Type}

/-! ### typing does not look at key bytes -/

mutual
/-- the expression with every key / hash-of-key argument blanked -/
def blankMs : Ms → Ms
  | .key f _ => .key f []
  | .time f n => .time f n
  | .hash f h => .hash f h
  | .andor x y z => .andor (blankMs x) (blankMs y) (blankMs z)
  | .bin f x y => .bin f (blankMs x) (blankMs y)
  | .thresh k xs => .thresh k (blankMsL xs)
  | .multi f k keys => .multi f k (keys.map fun _ => [])
  | .wrap w x => .wrap w (blankMs x)
def blankMsL : List Ms → List Ms
  | [] => []
  | x :: xs => blankMs x :: blankMsL xs
end

theorem type_blank : ∀ e : Ms, type (blankMs e) = type e := by
  intro e
  induction e using Ms.ind with
  | key _ _ => rfl
  | time _ _ => rfl
  | hash _ _ => rfl
  | andor x y z _ ihy _ => simp only [blankMs, type, ihy]
  | bin f x y ihx ihy => simp only [blankMs, type, ihx, ihy]
  | thresh _ _ _ => rfl
  | multi _ _ _ => rfl
  | wrap _ _ _ => rfl

theorem propsL_blank (ctx : Ctx) : ∀ xs : List Ms, (∀ x ∈ xs, props ctx (blankMs x) = props ctx x) →
    propsL ctx (blankMsL xs) = propsL ctx xs := by
  intro xs
  induction xs with
  | nil => intro _; rfl
  | cons a r ih =>
    intro h
    simp only [blankMsL, propsL, h a List.mem_cons_self, ih (fun x hx => h x (List.mem_cons_of_mem _ hx))]

theorem props_blank (ctx : Ctx) : ∀ e : Ms, props ctx (blankMs e) = props ctx e := by
  intro e
  induction e using Ms.ind with
  | key _ _ => rfl
  | time _ _ => rfl
  | hash _ _ => rfl
  | andor x y z ihx ihy ihz => simp only [blankMs, props, ihx, ihy, ihz]
  | bin f x y ihx ihy => simp only [blankMs, props, ihx, ihy]
  | thresh k xs ih => simp only [blankMs, props, propsL_blank ctx xs ih]
  | multi _ _ _ => rfl
  | wrap w x ih => simp only [blankMs, props, ih]

theorem tpL_blank (ctx : Ctx) : ∀ xs : List Ms, tpL ctx (blankMsL xs) = tpL ctx xs := by
  intro xs
  induction xs with
  | nil => rfl
  | cons a r ih => simp only [blankMsL, tpL, type_blank, props_blank, ih]

theorem constructibleL_blank (ctx : Ctx) : ∀ xs : List Ms,
    (∀ x ∈ xs, constructible ctx (blankMs x) = constructible ctx x) →
    constructibleL ctx (blankMsL xs) = constructibleL ctx xs := by
  intro xs
  induction xs with
  | nil => intro _; rfl
  | cons a r ih =>
    intro h
    simp only [blankMsL, constructibleL, h a List.mem_cons_self,
      ih (fun x hx => h x (List.mem_cons_of_mem _ hx))]

theorem constructible_blank (ctx : Ctx) : ∀ e : Ms, constructible ctx (blankMs e) = constructible ctx e := by
  intro e
  induction e using Ms.ind with
  | key _ _ => rfl
  | time _ _ => rfl
  | hash _ _ => rfl
  | andor x y z ihx ihy ihz => simp only [blankMs, constructible, ihx, ihy, ihz]
  | bin f x y ihx ihy => simp only [blankMs, constructible, ihx, ihy]
  | thresh k xs ih => simp only [blankMs, constructible, constructibleL_blank ctx xs ih]
  | multi _ _ _ => rfl
  | wrap w x ih => simp only [blankMs, constructible, ih]

theorem verifyL_blank (ctx : Ctx) : ∀ xs : List Ms, (∀ x ∈ xs, verify ctx (blankMs x) = verify ctx x) →
    verifyL ctx (blankMsL xs) = verifyL ctx xs := by
  intro xs
  induction xs with
  | nil => intro _; rfl
  | cons a r ih =>
    intro h
    simp only [blankMsL, verifyL, h a List.mem_cons_self, ih (fun x hx => h x (List.mem_cons_of_mem _ hx))]

theorem verify_blank (ctx : Ctx) : ∀ e : Ms, verify ctx (blankMs e) = verify ctx e := by
  intro e
  induction e using Ms.ind with
  | key _ _ => rfl
  | time _ _ => rfl
  | hash _ _ => rfl
  | andor x y z ihx ihy ihz => simp only [blankMs, verify, ihx, ihy, ihz, type_blank, props_blank]
  | bin f x y ihx ihy => simp only [blankMs, verify, ihx, ihy, type_blank, props_blank]
  | thresh k xs ih => simp only [blankMs, verify, verifyL_blank ctx xs ih, tpL_blank]
  | multi f k keys => simp only [blankMs, verify, List.length_map]
  | wrap w x ih => simp only [blankMs, verify, ih, type_blank, props_blank]

theorem accepts_blank (ctx : Ctx) (e : Ms) : accepts ctx (blankMs e) = accepts ctx e := by
  simp only [accepts, constructible_blank, verify_blank, type_blank]

theorem mapOpt_length {α β : Type} {f : α → Option β} : ∀ {l : List α} {l' : List β},
    mapOpt f l = some l' → l'.length = l.length := by
  intro l
  induction l with
  | nil => intro l' h; simp [mapOpt] at h; subst h; rfl
  | cons a r ih =>
    intro l' h
    simp only [mapOpt] at h
    cases ha : f a with
    | none => simp [ha] at h
    | some a' =>
      cases hr : mapOpt f r with
      | none => simp [ha, hr] at h
      | some r' => simp [ha, hr] at h; subst h; simp [ih hr]

theorem mapOpt_const {α : Type} (l : List α) : mapOpt (fun _ => some ([] : Bytes)) l = some (l.map fun _ => []) := by
  induction l with
  | nil => rfl
  | cons a r ih => simp [mapOpt, ih]

theorem map_const_of_length {α β : Type} {l : List α} {l' : List β} (h : l'.length = l.length) :
    (l'.map fun _ => ([] : Bytes)) = l.map fun _ => [] := by
  induction l generalizing l' with
  | nil => cases l' with
    | nil => rfl
    | cons _ _ => simp at h
  | cons a r ih =>
    cases l' with
    | nil => simp at h
    | cons a' r' => simp only [List.map_cons, List.cons.injEq, true_and]; exact ih (by simpa using h)

def blankP : KeyFrag → KeyExpr K → Option Bytes := fun _ _ => some []

theorem toMsL_blank (P : KeyFrag → KeyExpr K → Option Bytes) : ∀ (xs : List (DMs K)) (l : List Ms),
    (∀ x ∈ xs, ∀ m, x.toMs P = some m → x.toMs blankP = some (blankMs m)) →
    DMs.toMsL P xs = some l → DMs.toMsL blankP xs = some (blankMsL l) := by
  intro xs
  induction xs with
  | nil => intro l _ h; simp [DMs.toMsL] at h; subst h; rfl
  | cons a r ih =>
    intro l hx h
    simp only [DMs.toMsL] at h
    cases ha : a.toMs P with
    | none => simp [ha] at h
    | some a' =>
      cases hr : DMs.toMsL P r with
      | none => simp [ha, hr] at h
      | some r' =>
        simp [ha, hr] at h; subst h
        simp only [DMs.toMsL, hx a List.mem_cons_self a' ha,
          ih r' (fun x hx' => hx x (List.mem_cons_of_mem _ hx')) hr, blankMsL]

/-- resolving with blank key bytes gives the blanked resolved expression -/
theorem DMs.toMs_blank (P : KeyFrag → KeyExpr K → Option Bytes) :
    ∀ (e : DMs K) (m : Ms), e.toMs P = some m → e.toMs blankP = some (blankMs m) := by
  intro e
  induction e using DMs.ind with
  | key fr k =>
    intro m h
    simp only [DMs.toMs] at h
    cases hp : P fr k with
    | none => simp [hp] at h
    | some b => simp [hp] at h; subst h; rfl
  | time _ _ => intro m h; simp only [DMs.toMs, Option.some.injEq] at h; subst h; rfl
  | hash _ _ => intro m h; simp only [DMs.toMs, Option.some.injEq] at h; subst h; rfl
  | andor x y z ihx ihy ihz =>
    intro m h
    simp only [DMs.toMs] at h
    cases hx : x.toMs P with
    | none => simp [hx] at h
    | some a =>
      cases hy : y.toMs P with
      | none => simp [hx, hy] at h
      | some b =>
        cases hz : z.toMs P with
        | none => simp [hx, hy, hz] at h
        | some c =>
          simp [hx, hy, hz] at h; subst h
          simp only [DMs.toMs, ihx a hx, ihy b hy, ihz c hz, blankMs]
  | bin fr x y ihx ihy =>
    intro m h
    simp only [DMs.toMs] at h
    cases hx : x.toMs P with
    | none => simp [hx] at h
    | some a =>
      cases hy : y.toMs P with
      | none => simp [hx, hy] at h
      | some b =>
        simp [hx, hy] at h; subst h
        simp only [DMs.toMs, ihx a hx, ihy b hy, blankMs]
  | thresh n xs ih =>
    intro m h
    simp only [DMs.toMs] at h
    cases hl : DMs.toMsL P xs with
    | none => simp [hl] at h
    | some l =>
      simp [hl] at h; subst h
      simp only [DMs.toMs, toMsL_blank P xs l ih hl, Option.map_some, blankMs]
  | multi fr n keys =>
    intro m h
    simp only [DMs.toMs] at h
    cases hl : mapOpt (P .pk_k) keys with
    | none => simp [hl] at h
    | some l =>
      simp [hl] at h; subst h
      have hc : mapOpt (blankP (K := K) .pk_k) keys = some (keys.map fun _ => []) := mapOpt_const keys
      simp only [DMs.toMs, hc, Option.map_some, blankMs, map_const_of_length (mapOpt_length hl)]
  | wrap w x ih =>
    intro m h
    simp only [DMs.toMs] at h
    cases hx : x.toMs P with
    | none => simp [hx] at h
    | some a =>
      simp [hx] at h; subst h
      simp only [DMs.toMs, ih a hx, Option.map_some, blankMs]

theorem shape_eq_blank (P : KeyFrag → KeyExpr K → Option Bytes) (e : DMs K) (m : Ms) (h : e.toMs P = some m) :
    e.shape = blankMs m := by
  have := DMs.toMs_blank P e m h
  unfold DMs.shape
  unfold blankP at this
  rw [this]
  rfl

/-- what `Descriptor.__init__` / `TapLeaf.__init__` verified about the blank shape holds of the resolved expression -/
theorem accepts_resolved (ctx : Ctx) (P : KeyFrag → KeyExpr K → Option Bytes) (e : DMs K) (m : Ms)
    (h : e.toMs P = some m) (ha : accepts ctx e.shape = true) : verify ctx m = true := by
  rw [shape_eq_blank P e m h, accepts_blank] at ha
  simp only [accepts, Bool.and_eq_true] at ha
  exact ha.1.2

end Embit.Model.Descriptor

namespace Embit.Model.Descriptor
open Embit Embit.Miniscript Embit.Spec.Descriptor Embit.Model.Miniscript

variable {K : Type}

/-! ### what is assumed of the key operations (C09) -/

/-- x-only part of a SEC key -/
def xonlyOf (sec : Bytes) : Bytes := (sec.drop 1).take 32

/-- the laws of key objects the script theorems use; each is the subject of C09 (BIP32 / BIP341 derivation
    commutes with neutering). Hypotheses of theorems — never axioms. -/
structure KeyLaws (ops : KeyOps K) (h : Hashes) (tweakAdd : Bytes → Bytes → Option Bytes) : Prop where
  /-- `HDKey.child(None)` raises -/
  derive_none : ∀ k path, none ∈ path → ops.derive k path = none
  /-- `taproot_tweak(m).xonly()` is BIP341's output key of the x-only public key, for private and public keys -/
  tweak_eq : ∀ k m,
    ops.tweak k m = tweakAdd (xonlyOf (ops.sec k)) (h.tagged "TapTweak" (xonlyOf (ops.sec k) ++ m))
  /-- neutering keeps the public key -/
  sec_toPublic : ∀ k p, ops.toPublic k = some p → ops.sec p = ops.sec k
  /-- where public derivation works it yields the public key of the private derivation (C09 neuter_commutes) -/
  derive_toPublic : ∀ k p path c c', ops.toPublic k = some p → ops.derive k path = some c →
    ops.derive p path = some c' → ops.sec c' = ops.sec c

theorem fill_some (ix : List Step) (i : Nat) (b : Option Nat) (hi : i < 2 ^ 31) :
    fill ix (some i) b = fillSteps (some i) b ix := by
  unfold fill
  simp only
  rw [if_neg]
  simp only [HARDENED]
  omega

/-- the key the model derives contributes to a script what the specification's `deriveKey` says -/
theorem payload_agree {ops : KeyOps K} {h : Hashes} {tweakAdd : Bytes → Bytes → Option Bytes}
    (laws : KeyLaws ops h tweakAdd) (k k' : KeyExpr K) (i b : Nat) (hi : i < 2 ^ 31)
    (hd : k.derive ops h (some i) (some b) = some k') (tap : Bool) (fr : KeyFrag) :
    fragPayload ops h tap fr k' = argBytes h tap (fun k => deriveKey ops k i b) fr k := by
  have hnot : ¬ i ≥ 2 ^ 31 := by omega
  unfold KeyExpr.derive at hd
  cases hdv : k.deriv with
  | none =>
    simp only [hdv, Option.some.injEq] at hd
    subst hd
    cases hk : k.key with
    | obj key =>
      cases fr <;>
        simp [fragPayload, argBytes, deriveKey, hk, hdv, hnot, keyBytes, keyHashBytes]
    | raw s =>
      cases fr <;>
        simp [fragPayload, argBytes, deriveKey, hk, hnot, keyBytes, keyHashBytes]
  | some ix =>
    simp only [hdv] at hd
    rw [fill_some ix i (some b) hi] at hd
    cases hf : fillSteps (some i) (some b) ix with
    | none => simp [hf] at hd
    | some der =>
      simp only [hf] at hd
      cases hk : k.key with
      | raw s => simp [hk] at hd
      | obj key =>
        simp only [hk] at hd
        cases hc : ops.derive key der with
        | none => simp [hc] at hd
        | some child =>
          simp only [hc, Option.some.injEq] at hd
          subst hd
          have hnn : ∀ x ∈ der, x ≠ none := by
            intro x hx hxn
            subst hxn
            rw [laws.derive_none key der hx] at hc
            cases hc
          obtain ⟨p, hp, hder⟩ := fillSteps_pathAt i b ix der hf hnn
          have hdk : deriveKey ops k i b = some (ops.sec child) := by
            simp only [deriveKey, hnot, if_false, hk, hdv, hp, ← hder, hc, Option.map_some]
          cases fr <;>
            simp [fragPayload, argBytes, hdk, hk, keyBytes, keyHashBytes]

/-! ### tap trees -/

def TapTree.leaves : TapTree K → List (DMs K)
  | .empty => []
  | .leaf ms => [ms]
  | .node l r => l.leaves ++ r.leaves

/-- the merkle root with a given leaf-script function -/
def treeRoot (h : Hashes) (L : DMs K → Option Bytes) : TapTree K → Option Bytes
  | .empty => none
  | .leaf ms => (L ms).map (leafHash h)
  | .node l r =>
    match treeRoot h L l, treeRoot h L r with
    | some a, some b => some (branchHash h a b)
    | _, _ => none

theorem tweakHelper_root (ops : KeyOps K) (h : Hashes) :
    ∀ t : TapTree K, (tweakHelper ops h t).map (·.2) = treeRoot h (compileMs ops h true) t := by
  intro t
  induction t with
  | empty => rfl
  | leaf ms =>
    simp only [tweakHelper, treeRoot]
    cases compileMs ops h true ms <;> rfl
  | node l r ihl ihr =>
    simp only [tweakHelper, treeRoot, ← ihl, ← ihr]
    cases tweakHelper ops h l with
    | none => rfl
    | some pl =>
      cases tweakHelper ops h r with
      | none => rfl
      | some pr =>
        obtain ⟨ll, lh⟩ := pl
        obtain ⟨rl, rh⟩ := pr
        simp only [Option.map_some, branchHash]
        cases bytesLe lh rh <;> rfl

theorem resolveTree_root (h : Hashes) (kb : KeyExpr K → Option Bytes) :
    ∀ t : TapTree K, (resolveTree h kb t).map (merkleRoot h) =
      treeRoot h (fun m => (m.toMs (argBytes h true kb)).map Spec.Miniscript.scriptBytes) t := by
  intro t
  induction t with
  | empty => rfl
  | leaf ms =>
    simp only [resolveTree, treeRoot]
    cases ms.toMs (argBytes h true kb) <;> rfl
  | node l r ihl ihr =>
    simp only [resolveTree, treeRoot, ← ihl, ← ihr]
    cases resolveTree h kb l <;> cases resolveTree h kb r <;> rfl

theorem treeRoot_mapKeys (h : Hashes) (L : DMs K → Option Bytes) (f : KeyExpr K → Option (KeyExpr K)) :
    ∀ (t t' : TapTree K), t.mapKeys f = some t' →
      treeRoot h L t' = treeRoot h (fun ms => (ms.mapKeys f).bind L) t := by
  intro t
  induction t with
  | empty => intro t' ht; simp [TapTree.mapKeys] at ht; subst ht; rfl
  | leaf ms =>
    intro t' ht
    simp only [TapTree.mapKeys] at ht
    cases hm : ms.mapKeys f with
    | none => simp [hm] at ht
    | some ms' =>
      simp only [hm] at ht
      split at ht
      · cases ht; simp [treeRoot, hm]
      · cases ht
  | node l r ihl ihr =>
    intro t' ht
    simp only [TapTree.mapKeys] at ht
    cases hl : l.mapKeys f with
    | none => simp [hl] at ht
    | some l' =>
      cases hr : r.mapKeys f with
      | none => simp [hl, hr] at ht
      | some r' =>
        simp [hl, hr] at ht; subst ht
        simp only [treeRoot, ihl l' hl, ihr r' hr]

theorem treeRoot_congr (h : Hashes) (L1 L2 : DMs K → Option Bytes) :
    ∀ (t : TapTree K), (∀ ms ∈ t.leaves, L1 ms = L2 ms) → treeRoot h L1 t = treeRoot h L2 t := by
  intro t
  induction t with
  | empty => intro _; rfl
  | leaf ms => intro hl; simp only [treeRoot, hl ms (by simp [TapTree.leaves])]
  | node l r ihl ihr =>
    intro hl
    simp only [treeRoot, ihl (fun ms hm => hl ms (by simp [TapTree.leaves, hm])),
      ihr (fun ms hm => hl ms (by simp [TapTree.leaves, hm]))]

theorem TapTree.mapKeys_leaves (f : KeyExpr K → Option (KeyExpr K)) :
    ∀ (t t' : TapTree K), t.mapKeys f = some t' →
      ∀ ms ∈ t.leaves, ∃ ms', ms.mapKeys f = some ms' ∧ leafAccepted ms' = true := by
  intro t
  induction t with
  | empty => intro _ _ ms hm; cases hm
  | leaf ms0 =>
    intro t' ht ms hm
    simp only [TapTree.leaves, List.mem_singleton] at hm
    subst hm
    simp only [TapTree.mapKeys] at ht
    cases hmm : ms.mapKeys f with
    | none => simp [hmm] at ht
    | some ms' =>
      simp only [hmm] at ht
      split at ht
      · rename_i hacc; exact ⟨ms', rfl, hacc⟩
      · cases ht
  | node l r ihl ihr =>
    intro t' ht ms hm
    simp only [TapTree.mapKeys] at ht
    cases hl : l.mapKeys f with
    | none => simp [hl] at ht
    | some l' =>
      cases hr : r.mapKeys f with
      | none => simp [hl, hr] at ht
      | some r' =>
        simp only [TapTree.leaves, List.mem_append] at hm
        cases hm with
        | inl h1 => exact ihl l' hl ms h1
        | inr h2 => exact ihr r' hr ms h2

theorem TapTree.mem_keys_of_leaf {t : TapTree K} {ms : DMs K} {k : KeyExpr K} (hm : ms ∈ t.leaves)
    (hk : k ∈ ms.keys) : k ∈ t.keys := by
  induction t with
  | empty => cases hm
  | leaf ms0 =>
    simp only [TapTree.leaves, List.mem_singleton] at hm
    subst hm
    exact hk
  | node l r ihl ihr =>
    simp only [TapTree.leaves, List.mem_append] at hm
    simp only [TapTree.keys, List.mem_append]
    cases hm with
    | inl h1 => exact Or.inl (ihl h1)
    | inr h2 => exact Or.inr (ihr h2)

/-! ### one script expression: derive the keys, compile = resolve with `deriveKey`, take the specified script -/

def ctxOf (tap : Bool) : Ctx := if tap then .tap else .wsh

theorem compile_derived_eq {ops : KeyOps K} {h : Hashes} {tweakAdd : Bytes → Bytes → Option Bytes}
    (laws : KeyLaws ops h tweakAdd) (tap : Bool) (e e' : DMs K) (i b : Nat) (hi : i < 2 ^ 31)
    (hm : e.mapKeys (fun k => k.derive ops h (some i) (some b)) = some e')
    (hacc : accepts (ctxOf tap) e'.shape = true)
    (hargs : ∀ m, e.toMs (argBytes h tap (fun k => deriveKey ops k i b)) = some m → m.argsOk = true) :
    compileMs ops h tap e' =
      (e.toMs (argBytes h tap (fun k => deriveKey ops k i b))).map Spec.Miniscript.scriptBytes := by
  let f : KeyExpr K → Option (KeyExpr K) := fun k => k.derive ops h (some i) (some b)
  have hall := DMs.mapKeys_some_all f e (by rw [hm]; rfl)
  have hfuse : e'.toMs (fragPayload ops h tap) = e.toMs (fuse f (fragPayload ops h tap)) := by
    have := DMs.toMs_mapKeys f (fragPayload ops h tap) e
    rw [hm] at this
    exact this
  have hcong : e.toMs (fuse f (fragPayload ops h tap)) =
      e.toMs (argBytes h tap (fun k => deriveKey ops k i b)) := by
    apply DMs.toMs_congr
    intro fr k hk
    have hs := hall k hk
    cases hfk : f k with
    | none => rw [hfk] at hs; cases hs
    | some k' =>
      simp only [fuse, hfk, Option.bind_some]
      exact payload_agree laws k k' i b hi hfk tap fr
  unfold compileMs
  rw [hfuse, hcong]
  cases hq : e.toMs (argBytes h tap (fun k => deriveKey ops k i b)) with
  | none => rfl
  | some m =>
    simp only [Option.map_some, Option.some.injEq]
    have hres : e'.toMs (fragPayload ops h tap) = some m := by rw [hfuse, hcong, hq]
    exact compile_eq (ctxOf tap) m (hargs m hq) (accepts_resolved (ctxOf tap) _ e' m hres hacc)

end Embit.Model.Descriptor
