import EmbitModel.Model.LockCtx
import EmbitModel.Proofs.LockFair
/-
  C20, finer machine — helper lemmas: the machine with context contents (`Model/LockCtx.lean`) is SIMULATED by the
  coarse machine (`Model/Lock.lean`) on the erased programs as long as the threads follow the discipline: lock, buffers,
  results and program counters coincide, and on top of that the context is consistent whenever no native call is in
  flight, and the one call in flight (its thread holds the lock) has read a first word that matches the second.
  All theorems about the coarse machine transfer.
-/
namespace Embit.Model.LockCtx
open Embit.Model.Lock

structure Sim (cs : CState) (s : State) : Prop where
  lock : cs.lock = s.lock
  mid : ∀ t, cs.mid t = s.mid t
  bufs : ∀ b, cs.bufs b = s.bufs b
  res : ∀ t, cs.res t = s.res t
  rest : ∀ t, (cs.rest t).map erase = s.rest t
  /-- the call in flight has seen a first word that matches the present second word; the first word of the context is
      already the writer's seed when the call is a writer -/
  rd : ∀ t, cs.mid t = true → cs.seen t = cs.ctxB ∧
        ∃ f w outs r, cs.rest t = .native f w outs :: r ∧ cs.ctxA = w.getD cs.ctxB
  /-- no call in flight: the context is consistent -/
  quiet : (∀ t, cs.mid t = false) → cs.ctxA = cs.ctxB

theorem sim_init (progs : Tid → List CStep) : Sim (cinit progs) (init (eraseProgs progs)) := by
  refine ⟨rfl, fun _ => rfl, fun _ => rfl, fun _ => rfl, fun _ => rfl, ?_, fun _ => rfl⟩
  intro t h; simp [cinit] at h

theorem mid_holder {progs : Tid → List Step} {s : State} {ls : Tid → Local} (I : Inv progs s ls) {t : Tid}
    (h : s.mid t = true) : s.lock = some t := (I.lock t).1 (I.mid t h).2.1

theorem mid_unique {progs : Tid → List Step} {s : State} {ls : Tid → Local} (I : Inv progs s ls) {t t' : Tid}
    (h : s.mid t = true) (h' : s.mid t' = true) : t' = t := by
  have h1 := mid_holder I h
  have h2 := mid_holder I h'
  rw [h1] at h2
  exact (Option.some.inj h2).symm

theorem map_erase_upd (cs : CState) (s : State) (t : Tid) (r : List CStep)
    (h : ∀ t, (cs.rest t).map erase = s.rest t) :
    ∀ t', (upd cs.rest t r t').map erase = upd s.rest t (r.map erase) t' := by
  intro t'
  by_cases ht : t' = t
  · subst ht; simp [upd_same]
  · simp [upd_other _ _ ht, h t']

/-- a step that is not a native call keeps the two context clauses (the stepping thread is not in flight) -/
theorem rd_keep {cs : CState} {t : Tid} {st : CStep} {r : List CStep} (hrest : cs.rest t = st :: r)
    (hst : ∀ f w o, st ≠ .native f w o)
    (rd : ∀ t, cs.mid t = true → cs.seen t = cs.ctxB ∧
        ∃ f w outs r, cs.rest t = .native f w outs :: r ∧ cs.ctxA = w.getD cs.ctxB) :
    ∀ t', cs.mid t' = true → cs.seen t' = cs.ctxB ∧
        ∃ f w outs r', upd cs.rest t r t' = .native f w outs :: r' ∧ cs.ctxA = w.getD cs.ctxB := by
  intro t' hm
  obtain ⟨h1, f, w, o, r', h2, h3⟩ := rd t' hm
  by_cases ht : t' = t
  · subst ht; rw [hrest] at h2; cases h2; exact absurd rfl (hst f w o)
  · exact ⟨h1, f, w, o, r', by rw [upd_other _ _ ht]; exact h2, h3⟩

theorem sim_step {progs : Tid → List Step} {cs : CState} {s : State} {ls : Tid → Local} (t : Tid)
    (S : Sim cs s) (I : Inv progs s ls) : Sim (cstep t cs) (step t s) := by
  have hr := S.rest t
  cases hrest : cs.rest t with
  | nil =>
    rw [hrest] at hr
    have h1 : cstep t cs = cs := by simp [cstep, hrest]
    have h2 : step t s = s := by simp [step, ← hr]
    rw [h1, h2]; exact S
  | cons st r =>
    rw [hrest] at hr
    cases st with
    | acquire =>
      have hr' : s.rest t = .acquire :: r.map erase := by simpa [erase] using hr.symm
      cases hl : cs.lock with
      | some o =>
        have hl' : s.lock = some o := by rw [← S.lock]; exact hl
        have h1 : cstep t cs = cs := by simp [cstep, hrest, hl]
        have h2 : step t s = s := by simp [step, hr', hl']
        rw [h1, h2]; exact S
      | none =>
        have hl' : s.lock = none := by rw [← S.lock]; exact hl
        have h1 : cstep t cs = { cs with lock := some t, rest := upd cs.rest t r } := by simp [cstep, hrest, hl]
        have h2 : step t s = { s with lock := some t, rest := upd s.rest t (r.map erase) } := by
          simp [step, hr', hl']
        rw [h1, h2]
        exact ⟨rfl, S.mid, S.bufs, S.res, map_erase_upd cs s t r S.rest,
          rd_keep hrest (by intro f w o h; cases h) S.rd, S.quiet⟩
    | release =>
      have hr' : s.rest t = .release :: r.map erase := by simpa [erase] using hr.symm
      have h1 : cstep t cs = { cs with lock := none, rest := upd cs.rest t r } := by simp [cstep, hrest]
      have h2 : step t s = { s with lock := none, rest := upd s.rest t (r.map erase) } := by simp [step, hr']
      rw [h1, h2]
      exact ⟨rfl, S.mid, S.bufs, S.res, map_erase_upd cs s t r S.rest,
        rd_keep hrest (by intro f w o h; cases h) S.rd, S.quiet⟩
    | copyOut b =>
      have hr' : s.rest t = .copyOut b :: r.map erase := by simpa [erase] using hr.symm
      have h1 : cstep t cs = { cs with res := upd cs.res t (cs.res t ++ [cs.bufs b]), rest := upd cs.rest t r } := by
        simp [cstep, hrest]
      have h2 : step t s = { s with res := upd s.res t (s.res t ++ [s.bufs b]),
                                    rest := upd s.rest t (r.map erase) } := by simp [step, hr']
      rw [h1, h2]
      refine ⟨S.lock, S.mid, S.bufs, ?_, map_erase_upd cs s t r S.rest,
        rd_keep hrest (by intro f w o h; cases h) S.rd, S.quiet⟩
      intro t'
      by_cases ht : t' = t
      · subst ht; simp [upd_same, S.res, S.bufs]
      · simp [upd_other _ _ ht, S.res]
    | «local» =>
      have hr' : s.rest t = .local :: r.map erase := by simpa [erase] using hr.symm
      have h1 : cstep t cs = { cs with rest := upd cs.rest t r } := by simp [cstep, hrest]
      have h2 : step t s = { s with rest := upd s.rest t (r.map erase) } := by simp [step, hr']
      rw [h1, h2]
      exact ⟨S.lock, S.mid, S.bufs, S.res, map_erase_upd cs s t r S.rest,
        rd_keep hrest (by intro f w o h; cases h) S.rd, S.quiet⟩
    | native f w outs =>
      have hr' : s.rest t = .nativeCall f outs :: r.map erase := by simpa [erase] using hr.symm
      cases hm : cs.mid t with
      | true =>
        -- exit: the call has seen matching words, its output is clean; a writer completes the context
        have hm' : s.mid t = true := by rw [← S.mid]; exact hm
        have hctx : s.ctx = some t := (I.mid t hm').1
        obtain ⟨hseen, f', w', o', r', h2, hA⟩ := S.rd t hm
        rw [hrest] at h2
        have hw : w' = w := by cases h2; rfl
        subst hw
        have h1 : cstep t cs = { cs with mid := upd cs.mid t false, bufs := writeAll true outs cs.bufs,
                                          ctxB := w'.getD cs.ctxB, rest := upd cs.rest t r } := by
          simp [cstep, hrest, hm, hseen]
        have h2' : step t s = { s with mid := upd s.mid t false, bufs := writeAll true outs s.bufs,
                                       rest := upd s.rest t (r.map erase) } := by
          simp [step, hr', hm', hctx]
        rw [h1, h2']
        have nomid : ∀ t', upd cs.mid t false t' = false := by
          intro t'
          by_cases ht : t' = t
          · subst ht; exact upd_same _ _ _
          · rw [upd_other _ _ ht]
            cases hmt : cs.mid t' with
            | false => rfl
            | true =>
              have : s.mid t' = true := by rw [← S.mid]; exact hmt
              exact absurd (mid_unique I hm' this) ht
        refine ⟨S.lock, ?_, ?_, S.res, map_erase_upd cs s t r S.rest, ?_, ?_⟩
        · intro t'
          by_cases ht : t' = t
          · subst ht; simp [upd_same]
          · simp [upd_other _ _ ht, S.mid]
        · intro b; exact writeAll_congr true outs _ _ b (Or.inr (S.bufs b))
        · intro t' hmt
          have hmt' : upd cs.mid t false t' = true := hmt
          rw [nomid t'] at hmt'; cases hmt'
        · intro _; exact hA
      | false =>
        -- entry: nobody else is in flight (the caller holds the lock), so the context is consistent
        have hm' : s.mid t = false := by rw [← S.mid]; exact hm
        have h1 : cstep t cs = { cs with mid := upd cs.mid t true, seen := upd cs.seen t cs.ctxA,
                                          ctxA := w.getD cs.ctxA } := by simp [cstep, hrest, hm]
        have h2 : step t s = { s with mid := upd s.mid t true, ctx := some t } := by simp [step, hr', hm']
        rw [h1, h2]
        have hhold : (ls t).hold.isSome = true := by
          have := I.safe t
          rw [hr'] at this
          cases hh : (ls t).hold with
          | none => rw [hh] at this; simp [safe] at this
          | some ws => rfl
        have hlock : s.lock = some t := (I.lock t).1 hhold
        have allquiet : ∀ t', cs.mid t' = false := by
          intro t'
          cases hmt : cs.mid t' with
          | false => rfl
          | true =>
            have hmt' : s.mid t' = true := by rw [← S.mid]; exact hmt
            have := mid_holder I hmt'
            rw [hlock] at this
            have ht : t = t' := Option.some.inj this
            subst ht; rw [hm] at hmt; cases hmt
        have hAB : cs.ctxA = cs.ctxB := S.quiet allquiet
        refine ⟨S.lock, ?_, S.bufs, S.res, S.rest, ?_, ?_⟩
        · intro t'
          by_cases ht : t' = t
          · subst ht; simp [upd_same]
          · simp [upd_other _ _ ht, S.mid]
        · intro t' hmt
          by_cases ht : t' = t
          · subst ht
            exact ⟨by simp [upd_same, hAB], f, w, outs, r, hrest, by simp [hAB]⟩
          · have hmt' : upd cs.mid t true t' = true := hmt
            rw [upd_other _ _ ht, allquiet t'] at hmt'; cases hmt'
        · intro hq
          have : upd cs.mid t true t = false := hq t
          rw [upd_same] at this; cases this

theorem crun_cons (t : Tid) (r : List Tid) (s : CState) : crun (t :: r) s = crun r (cstep t s) := rfl

theorem crun_append (a b : List Tid) (s : CState) : crun (a ++ b) s = crun b (crun a s) := by
  simp [crun, List.foldl_append]

theorem sim_run {progs : Tid → List Step} (sched : List Tid) :
    ∀ {cs : CState} {s : State} {ls : Tid → Local}, Sim cs s → Inv progs s ls →
      Sim (crun sched cs) (run sched s) := by
  induction sched with
  | nil => intro cs s ls S _; exact S
  | cons t r ih =>
    intro cs s ls S I
    rw [crun_cons, run_cons]
    exact ih (sim_step t S I) (inv_step t I)

/-- the whole simulation from the initial states -/
theorem sim_of_safe (progs : Tid → List CStep) (hs : ∀ t, csafe t (progs t) = true) (sched : List Tid) :
    Sim (crun sched (cinit progs)) (run sched (init (eraseProgs progs))) :=
  sim_run sched (sim_init progs) (inv_init (eraseProgs progs) hs)

/-! ### the executed part of a program is a prefix of it (no discipline needed) -/

theorem cstep_suffix (t t' : Tid) (cs : CState) : ∃ d, cs.rest t' = d ++ (cstep t cs).rest t' := by
  by_cases ht : t' = t
  · subst ht
    cases hrest : cs.rest t' with
    | nil => exact ⟨[], by simp [cstep, hrest]⟩
    | cons st r =>
      cases st with
      | acquire =>
        cases hl : cs.lock with
        | some o => exact ⟨[], by simp [cstep, hrest, hl]⟩
        | none => exact ⟨[.acquire], by simp [cstep, hrest, hl, upd_same]⟩
      | release => exact ⟨[.release], by simp [cstep, hrest, upd_same]⟩
      | native f w o =>
        cases hm : cs.mid t' with
        | true => exact ⟨[.native f w o], by simp [cstep, hrest, hm, upd_same]⟩
        | false => exact ⟨[], by simp [cstep, hrest, hm]⟩
      | copyOut b => exact ⟨[.copyOut b], by simp [cstep, hrest, upd_same]⟩
      | «local» => exact ⟨[.local], by simp [cstep, hrest, upd_same]⟩
  · refine ⟨[], ?_⟩
    simp only [List.nil_append]
    unfold cstep
    split <;> (try split) <;> first | rfl | simp [upd_other _ _ ht]

theorem crun_suffix (sched : List Tid) : ∀ (cs : CState) (t' : Tid), ∃ d, cs.rest t' = d ++ (crun sched cs).rest t' := by
  induction sched with
  | nil => intro cs t'; exact ⟨[], rfl⟩
  | cons t r ih =>
    intro cs t'
    obtain ⟨d1, h1⟩ := cstep_suffix t t' cs
    obtain ⟨d2, h2⟩ := ih (cstep t cs) t'
    exact ⟨d1 ++ d2, by rw [crun_cons, List.append_assoc, ← h2, ← h1]⟩

theorem results_prefix_ctx (progs : Tid → List CStep) (hs : ∀ t, csafe t (progs t) = true) (sched : List Tid) (t : Tid) :
    ∃ pre, progs t = pre ++ (crun sched (cinit progs)).rest t ∧ (crun sched (cinit progs)).res t = csolo pre := by
  have S := sim_of_safe progs hs sched
  obtain ⟨pre, hpre⟩ := crun_suffix sched (cinit progs) t
  have hpre' : progs t = pre ++ (crun sched (cinit progs)).rest t := hpre
  obtain ⟨pre', h1, h2⟩ := results_prefix_aux (progs := eraseProgs progs) hs sched t
  refine ⟨pre, hpre', ?_⟩
  rw [S.res t, h2]
  have : (eraseProgs progs) t = pre.map erase ++ (run sched (init (eraseProgs progs))).rest t := by
    show (progs t).map erase = _
    rw [hpre', List.map_append, S.rest t]
  rw [h1] at this
  rw [List.append_cancel_right this]
  rfl

theorem ccomplete_iff (progs : Tid → List CStep) (hs : ∀ t, csafe t (progs t) = true) (sched : List Tid) :
    ccomplete (crun sched (cinit progs)) ↔ complete (run sched (init (eraseProgs progs))) := by
  have S := sim_of_safe progs hs sched
  constructor
  · intro h t; rw [← S.rest t, h t]; rfl
  · intro h t
    have := S.rest t
    rw [h t] at this
    exact List.map_eq_nil_iff.1 this

theorem rest_ne_nil_iff (progs : Tid → List CStep) (hs : ∀ t, csafe t (progs t) = true) (sched : List Tid) (t : Tid) :
    (run sched (init (eraseProgs progs))).rest t ≠ [] ↔ (crun sched (cinit progs)).rest t ≠ [] := by
  have S := sim_of_safe progs hs sched
  rw [← S.rest t]
  simp

/-! ### compiled programs: erasing the compiled fine program gives the compiled coarse program -/

theorem erase_compileStepC (t op : Nat) (st : AStep) : erase (compileStepC t op st) = compileStep t op st := by
  cases st <;> rfl

theorem erase_compileOpsC (t : Nat) (ops : List (List AStep)) :
    ∀ op, (compileOpsC t op ops).map erase = compileOps t op ops := by
  induction ops with
  | nil => intro _; rfl
  | cons f r ih =>
    intro op
    simp only [compileOpsC, compileOps, List.map_append, ih (op + 1), compile, List.map_map]
    congr 1
    apply List.map_congr_left
    intro st _
    exact erase_compileStepC t op st

theorem erase_progsOfC (threads : List (List (List AStep))) : eraseProgs (progsOfC threads) = progsOf threads := by
  funext t
  simp only [eraseProgs, progsOfC, progsOf]
  cases threads[t]? with
  | none => rfl
  | some ops => exact erase_compileOpsC t ops 0

end Embit.Model.LockCtx
