import EmbitModel.Proofs.Sign
import EmbitModel.Spec.LibsecpContract
/-
  Model of py_secp256k1 = contract of the wrapped libsecp256k1 function, primitive by primitive:
  scalar arithmetic and codecs (all byte strings), then the curve primitives (same abstract curve on both sides).
-/
namespace Embit
open Embit.Model Embit.Model.Der Embit.Model.PySecp

variable (E : EcOps)

theorem rev_eq_leN (x : Bytes) (h : x.length = 32) : x.reverse = leN 32 (ofBe x) := by
  have := leN_ofLe x.reverse
  simp only [List.length_reverse, h] at this
  simp [ofBe, this]

theorem rev_eq_beN (x : Bytes) (h : x.length = 32) : x.reverse = beN 32 (ofLe x) := by
  have := leN_ofLe x
  rw [h] at this
  simp [beN, this]

theorem take32_len (c : Bytes) (h : c.length = 64) : (c.take 32).length = 32 := by simp; omega
theorem drop32_len (c : Bytes) (h : c.length = 64) : (c.drop 32).length = 32 := by simp; omega

/-! ### scalars -/

theorem seckey_eq (b : Bytes) (hl : b.length = 32) :
    Spec.Libsecp.seckey E b = if seckeyValid E (ofBe b) then some (ofBe b) else none := by
  unfold Spec.Libsecp.seckey seckeyValid
  by_cases h : 0 < ofBe b ∧ ofBe b < E.n
  · simp [hl, h]
  · simp only [hl, true_and, h, if_false]
    have : ¬ ((decide (0 < ofBe b) && decide (ofBe b < E.n)) = true) := by simpa using h
    simp [this]

theorem seckey_none_of_len (b : Bytes) (hl : b.length ≠ 32) : Spec.Libsecp.seckey E b = none := by
  simp [Spec.Libsecp.seckey, hl]

theorem eq_seckey_verify (secret : Bytes) : ecSeckeyVerify E secret = Spec.Libsecp.ec_seckey_verify E secret := by
  unfold ecSeckeyVerify Spec.Libsecp.ec_seckey_verify
  by_cases hl : secret.length = 32
  · simp only [hl, ne_eq, not_true_eq_false, if_false, seckey_eq E secret hl]
    cases seckeyValid E (ofBe secret) <;> simp
  · simp [hl]

theorem eq_privkey_negate (secret : Bytes) : ecPrivkeyNegate E secret = Spec.Libsecp.ec_privkey_negate E secret := by
  unfold ecPrivkeyNegate Spec.Libsecp.ec_privkey_negate
  by_cases hl : secret.length = 32
  · simp only [hl, ne_eq, not_true_eq_false, if_false, seckey_eq E secret hl, seckeyValid]
    by_cases h : 0 < ofBe secret ∧ ofBe secret < E.n
    · have h1 : ¬ (ofBe secret = 0 ∨ ofBe secret ≥ E.n) := by omega
      simp [h, h1]
    · have h1 : (ofBe secret = 0 ∨ ofBe secret ≥ E.n) := by omega
      have h2 : ¬ ((decide (0 < ofBe secret) && decide (ofBe secret < E.n)) = true) := by simpa using h
      simp [h1, h2]
  · simp [hl, seckey_none_of_len E secret hl]

theorem add_mod_cases (n d t : Nat) (hd : 0 < d ∧ d < n) (ht : t < n) :
    ((d + t) % n = 0 ↔ d + t = n) ∧ (d + t) % n = if d + t < n then d + t else d + t - n := by
  by_cases h : d + t < n
  · rw [Nat.mod_eq_of_lt h]; simp [h]; omega
  · have e : (d + t) % n = d + t - n := by
      rw [Nat.mod_eq_sub_mod (by omega), Nat.mod_eq_of_lt (by omega)]
    rw [e]; simp [h]; omega

theorem eq_privkey_add (secret tweak : Bytes) :
    ecPrivkeyAdd E secret tweak = Spec.Libsecp.ec_privkey_add E secret tweak := by
  unfold ecPrivkeyAdd Spec.Libsecp.ec_privkey_add Spec.Libsecp.tweak
  by_cases hl : secret.length = 32
  · by_cases hl2 : tweak.length = 32
    · simp only [hl, hl2, ne_eq, not_true_eq_false, or_self, if_false, seckey_eq E secret hl, seckeyValid, true_and]
      by_cases h : 0 < ofBe secret ∧ ofBe secret < E.n
      · by_cases ht : ofBe tweak < E.n
        · have h1 : ¬ (ofBe secret = 0 ∨ ofBe secret ≥ E.n ∨ ofBe tweak ≥ E.n) := by omega
          obtain ⟨c1, c2⟩ := add_mod_cases E.n _ _ h ht
          by_cases hz : ofBe secret + ofBe tweak = E.n
          · simp [h, ht, h1, hz]
          · have hnz : ¬ (ofBe secret + ofBe tweak) % E.n = 0 := fun hh => hz (c1.mp hh)
            simp only [h, ht, h1, hnz, hz, and_self, decide_true, Bool.and_self, if_true, if_false,
              Option.bind_some]
            rw [c2]
        · have h1 : (ofBe secret = 0 ∨ ofBe secret ≥ E.n ∨ ofBe tweak ≥ E.n) := by omega
          simp [h, ht, h1]
      · have h1 : (ofBe secret = 0 ∨ ofBe secret ≥ E.n ∨ ofBe tweak ≥ E.n) := by omega
        have h2 : ¬ ((decide (0 < ofBe secret) && decide (ofBe secret < E.n)) = true) := by simpa using h
        simp [h1, h2]
    · simp only [hl2, ne_eq, not_false_eq_true, or_true, if_true, false_and, if_false]
      cases Spec.Libsecp.seckey E secret <;> simp
  · simp [hl, seckey_none_of_len E secret hl]

/-! ### signature codecs -/

theorem eq_parse_compact (c : Bytes) :
    ecdsaSignatureParseCompact E c = Spec.Libsecp.ecdsa_signature_parse_compact E c := by
  unfold ecdsaSignatureParseCompact Spec.Libsecp.ecdsa_signature_parse_compact Spec.Libsecp.sigStruct
  by_cases hl : c.length = 64
  · simp only [hl, ne_eq, not_true_eq_false, if_false]
    rw [rev_eq_leN _ (take32_len c hl), rev_eq_leN _ (drop32_len c hl)]
    by_cases h : ofBe (c.take 32) < E.n ∧ ofBe (c.drop 32) < E.n
    · have : ¬ (ofBe (c.take 32) ≥ E.n ∨ ofBe (c.drop 32) ≥ E.n) := by omega
      simp [h, this]
    · have : (ofBe (c.take 32) ≥ E.n ∨ ofBe (c.drop 32) ≥ E.n) := by omega
      simp [h, this]
  · simp [hl]

theorem eq_serialize_compact (sig : Bytes) :
    ecdsaSignatureSerializeCompact sig = Spec.Libsecp.ecdsa_signature_serialize_compact sig := by
  unfold ecdsaSignatureSerializeCompact Spec.Libsecp.ecdsa_signature_serialize_compact Spec.Libsecp.sigOf
  by_cases hl : sig.length = 64
  · simp only [hl, ne_eq, not_true_eq_false, if_false, if_true, Option.map_some]
    rw [rev_eq_beN _ (take32_len sig hl), rev_eq_beN _ (drop32_len sig hl)]
  · simp [hl]

theorem normalize_eq (n s : Nat) (hodd : n % 2 = 1) :
    (if s > n / 2 then n - s else s) = (if s ≤ (n - 1) / 2 then s else n - s) := by
  have : (n - 1) / 2 = n / 2 := by omega
  rw [this]
  split <;> split <;> omega

theorem eq_normalize (hodd : E.n % 2 = 1) (sig : Bytes) :
    ecdsaSignatureNormalize E sig = Spec.Libsecp.ecdsa_signature_normalize E sig := by
  unfold ecdsaSignatureNormalize Spec.Libsecp.ecdsa_signature_normalize Spec.Libsecp.sigOf Spec.Libsecp.sigStruct
    Spec.Ecdsa.normalizeS Spec.Ecdsa.isLowS
  by_cases hl : sig.length = 64
  · simp only [hl, ne_eq, not_true_eq_false, if_false, if_true, Option.bind_some]
    by_cases h : ofLe (sig.take 32) < E.n ∧ ofLe (sig.drop 32) < E.n
    · have : ¬ (ofLe (sig.take 32) ≥ E.n ∨ ofLe (sig.drop 32) ≥ E.n) := by omega
      simp only [h, this, if_false, and_self, if_true, decide_eq_true_eq]
      rw [normalize_eq E.n _ hodd]
    · have : (ofLe (sig.take 32) ≥ E.n ∨ ofLe (sig.drop 32) ≥ E.n) := by omega
      simp [h, this]
  · simp [hl]

/-! ### recoverable signature codecs -/

theorem eq_rec_parse_compact (c : Bytes) (recid : Int) :
    ecdsaRecoverableSignatureParseCompact E c recid = Spec.Libsecp.ecdsa_recoverable_signature_parse_compact E c recid := by
  unfold ecdsaRecoverableSignatureParseCompact Spec.Libsecp.ecdsa_recoverable_signature_parse_compact
  rw [eq_parse_compact]
  by_cases hl : c.length = 64
  · simp only [hl, ne_eq, not_true_eq_false, if_false]
    split
    · rfl
    · cases Spec.Libsecp.ecdsa_signature_parse_compact E c <;> rfl
  · have : Spec.Libsecp.ecdsa_signature_parse_compact E c = none := by
      simp [Spec.Libsecp.ecdsa_signature_parse_compact, hl]
    simp [hl, this]

theorem eq_rec_serialize_compact (sig : Bytes) :
    ecdsaRecoverableSignatureSerializeCompact sig = Spec.Libsecp.ecdsa_recoverable_signature_serialize_compact sig := by
  unfold ecdsaRecoverableSignatureSerializeCompact Spec.Libsecp.ecdsa_recoverable_signature_serialize_compact
  rw [eq_serialize_compact]
  by_cases hl : sig.length = 65
  · simp only [hl, ne_eq, not_true_eq_false, if_false]
    have h64 : sig[64]? = some (sig.getD 64 0) := by
      rw [List.getD_eq_getElem?_getD]
      have : 64 < sig.length := by omega
      simp [List.getElem?_eq_getElem this]
    rw [h64]
    cases Spec.Libsecp.ecdsa_signature_serialize_compact (List.take 64 sig) <;> rfl
  · simp [hl]

theorem eq_rec_convert (sig : Bytes) :
    ecdsaRecoverableSignatureConvert sig = Spec.Libsecp.ecdsa_recoverable_signature_convert sig := rfl

end Embit

namespace Embit
open Embit.Model Embit.Model.Der Embit.Model.PySecp Embit.Spec.Der

/-! ### DER serialiser = X.690 encoder -/

theorem ofBe_dropZeros (l : Bytes) : ofBe (l.dropWhile (· == 0)) = ofBe l := by
  induction l with
  | nil => rfl
  | cons a l ih =>
    by_cases h : a = 0
    · subst h; simp [List.dropWhile_cons, ih, ofBe_cons]
    · simp [List.dropWhile_cons, h]

theorem head_dropZeros (l : Bytes) (a : UInt8) (rest : Bytes) (h : l.dropWhile (· == 0) = a :: rest) : a ≠ 0 := by
  induction l with
  | nil => simp at h
  | cons b l ih =>
    by_cases hb : b = 0
    · subst hb; simp [List.dropWhile_cons] at h; exact ih h
    · simp [List.dropWhile_cons, hb] at h
      rw [← h.1]; exact hb

theorem intContent_isDer (v : Nat) (hv : v < 2 ^ 264) : IsDerInt (intContent v) v := by
  have hval : ofBe (minBe v) = v := by
    unfold minBe; rw [ofBe_dropZeros]; apply ofBe_beN; rw [pow256]; exact hv
  unfold intContent
  match hm : minBe v with
  | [] =>
    rw [hm] at hval
    simp only [ofBe_nil] at hval
    subst hval
    exact ⟨by simp [ofBe, ofLe], by simp, by intro a ha; simp at ha; subst ha; simp,
      by intro a b _ hb; simp at hb⟩
  | a :: rest =>
    have ha := head_dropZeros _ a rest (by unfold minBe at hm; exact hm)
    rw [hm] at hval
    simp only []
    split
    · rename_i hge
      refine ⟨by rw [ofBe_cons]; simpa using hval, by simp, ?_, ?_⟩
      · intro x hx; simp at hx; subst hx; simp
      · intro x y hx hy _; simp at hx hy; subst hy; exact hge
    · rename_i hlt
      refine ⟨hval, by simp, ?_, ?_⟩
      · intro x hx; simp at hx; subst hx; omega
      · intro x y hx _ hx0; simp at hx; subst hx; exact absurd hx0 ha

theorem intContent_eq_derInt (v : Nat) (hv : v < 2 ^ 264) : intContent v = derInt v :=
  isDer_unique _ _ (intContent_isDer v hv)

/-- the model serialiser is the X.690 / BIP66 encoder -/
theorem encode_eq_serRS (r s : Nat) (hr : r < 2 ^ 264) (hs : s < 2 ^ 264) : Spec.Der.encode r s = serRS r s := by
  unfold Spec.Der.encode serRS
  rw [intContent_eq_derInt r hr, intContent_eq_derInt s hs]
  simp

theorem ofLe_lt_256 (x : Bytes) (h : x.length = 32) : ofLe x < 2 ^ 256 := by
  have := ofLe_lt x; rw [h, pow256] at this; exact this

theorem eq_serialize_der (sig : Bytes) :
    ecdsaSignatureSerializeDer sig = Spec.Libsecp.ecdsa_signature_serialize_der sig := by
  unfold ecdsaSignatureSerializeDer Spec.Libsecp.ecdsa_signature_serialize_der Spec.Libsecp.sigOf
  by_cases hl : sig.length = 64
  · simp only [hl, ne_eq, not_true_eq_false, if_false, if_true, Option.map_some]
    have h1 := ofLe_lt_256 _ (take32_len sig hl)
    have h2 := ofLe_lt_256 _ (drop32_len sig hl)
    have e : (2:Nat) ^ 256 ≤ 2 ^ 264 := Nat.pow_le_pow_right (by norm_num) (by norm_num)
    rw [encode_eq_serRS _ _ (by omega) (by omega)]
  · simp [hl]

end Embit

namespace Embit
open Embit.Model Embit.Model.Der Embit.Model.PySecp

variable (E : EcOps)

/-! ### public keys: validation, encoding, dispatch (the curve is the same abstract `E` on both sides) -/

theorem pubStore_eq (P : E.Pt) : pubStore E P = Spec.Libsecp.pubkeyStruct E P := by
  unfold pubStore Spec.Libsecp.pubkeyStruct
  cases E.xy P with
  | none => rfl
  | some xy => rfl

theorem pubLoad_eq (b : Bytes) (h : b.length = 64) : pubLoad E b = Spec.Libsecp.pubkeyOf E b := by
  unfold pubLoad Spec.Libsecp.pubkeyOf
  simp [h]

theorem pubkeyOf_none (b : Bytes) (h : b.length ≠ 64) : Spec.Libsecp.pubkeyOf E b = none := by
  simp [Spec.Libsecp.pubkeyOf, h]

theorem eq_pubkey_create (secret : Bytes) : ecPubkeyCreate E secret = Spec.Libsecp.ec_pubkey_create E secret := by
  unfold ecPubkeyCreate Spec.Libsecp.ec_pubkey_create
  by_cases hl : secret.length = 32
  · simp only [hl, ne_eq, not_true_eq_false, if_false, seckey_eq E secret hl, pubStore_eq]
    cases seckeyValid E (ofBe secret) <;> simp
  · simp [hl, seckey_none_of_len E secret hl]

theorem eq_pubkey_add (pub tweak : Bytes) : ecPubkeyAdd E pub tweak = Spec.Libsecp.ec_pubkey_add E pub tweak := by
  unfold ecPubkeyAdd Spec.Libsecp.ec_pubkey_add Spec.Libsecp.tweak
  by_cases hl : pub.length = 64
  · rw [← pubLoad_eq E pub hl]
    by_cases hl2 : tweak.length = 32
    · simp only [hl, hl2, ne_eq, not_true_eq_false, if_false, true_and, pubStore_eq]
      cases pubLoad E pub with
      | none => rfl
      | some P =>
        by_cases ht : ofBe tweak < E.n
        · have : ¬ ofBe tweak ≥ E.n := by omega
          simp [ht, this]
        · have : ofBe tweak ≥ E.n := by omega
          simp [ht, this]
    · simp only [hl, hl2, ne_eq, not_true_eq_false, not_false_eq_true, if_true, if_false, false_and]
      cases pubLoad E pub <;> simp
  · simp [hl, pubkeyOf_none E pub hl]

theorem eq_pubkey_serialize (pub : Bytes) (flag : Nat) :
    ecPubkeySerialize E pub flag = Spec.Libsecp.ec_pubkey_serialize E pub flag := by
  unfold ecPubkeySerialize Spec.Libsecp.ec_pubkey_serialize
  by_cases hl : pub.length = 64
  · rw [← pubLoad_eq E pub hl]
    simp only [hl, ne_eq, not_true_eq_false, if_false, EC_COMPRESSED, EC_UNCOMPRESSED,
      Spec.Libsecp.EC_COMPRESSED, Spec.Libsecp.EC_UNCOMPRESSED]
    by_cases hf : ¬flag = 258 ∧ ¬flag = 2
    · simp [hf]
    · simp only [hf, if_false]
      cases pubLoad E pub with
      | none => rfl
      | some P =>
        simp only [Option.bind_some]
        cases E.xy P with
        | none => rfl
        | some xy =>
          obtain ⟨x, y⟩ := xy
          simp only [Option.map_some]
          by_cases hc : flag = 258
          · have : (2 + y % 2 = 2 ∧ y % 2 = 0) ∨ (2 + y % 2 = 3 ∧ y % 2 = 1) := by omega
            rcases this with ⟨h1, h2⟩ | ⟨h1, h2⟩
            · simp [hc, h1, h2]
            · simp [hc, h1, h2]
          · simp [hc]
  · simp only [hl, ne_eq, not_false_eq_true, if_true, pubkeyOf_none E pub hl, Option.bind_none]
    split <;> rfl

theorem eq_pubkey_parse (sec : Bytes) : ecPubkeyParse E sec = Spec.Libsecp.ec_pubkey_parse E sec := by
  unfold ecPubkeyParse Spec.Libsecp.ec_pubkey_parse
  cases sec with
  | nil => simp
  | cons pre body =>
    simp only [List.length_cons]
    by_cases h33 : body.length = 32
    · have e1 : ¬ (body.length + 1 ≠ 33 ∧ body.length + 1 ≠ 65) := by omega
      have e2 : body.length + 1 = 33 := by omega
      have e3 : ¬ body.length = 64 := by omega
      simp only [e1, if_false, e2, if_true, h33, true_and, e3, false_and]
      by_cases hp : pre = 0x02 ∨ pre = 0x03
      · have : ¬ (pre ≠ 0x02 ∧ pre ≠ 0x03) := by
          rcases hp with h | h <;> simp [h]
        simp only [this, if_false, hp, if_true, setCompressed]
        by_cases hx : ofBe body < E.p
        · have hx' : ¬ ofBe body ≥ E.p := by omega
          simp only [hx, if_true, hx', if_false]
          cases E.liftX (ofBe body) with
          | none => rfl
          | some P =>
            simp only [Option.bind_some, pubStore_eq]
            rcases hp with h | h <;> subst h <;> simp
        · have hx' : ofBe body ≥ E.p := by omega
          simp [hx, hx']
      · have h2 : (pre ≠ 0x02 ∧ pre ≠ 0x03) := by
          constructor <;> intro h <;> apply hp <;> simp [h]
        simp [h2, hp]
    · by_cases h65 : body.length = 64
      · have e1 : ¬ (body.length + 1 ≠ 33 ∧ body.length + 1 ≠ 65) := by omega
        have e2 : ¬ body.length + 1 = 33 := by omega
        simp only [e1, if_false, e2, h33, false_and, h65, true_and]
        by_cases hp : pre = 0x04
        · subst hp
          simp only [ne_eq, not_true_eq_false, if_false, if_true]
          by_cases hx : ofBe (body.take 32) < E.p ∧ ofBe (body.drop 32) < E.p
          · have hx' : ¬ (ofBe (body.take 32) ≥ E.p ∨ ofBe (body.drop 32) ≥ E.p) := by omega
            simp only [hx, and_self, if_true, hx', if_false]
            cases E.ofXY (ofBe (body.take 32)) (ofBe (body.drop 32)) with
            | none => rfl
            | some P => simp [pubStore_eq]
          · have hx' : (ofBe (body.take 32) ≥ E.p ∨ ofBe (body.drop 32) ≥ E.p) := by omega
            simp [hx, hx']
        · simp [hp]
      · have e1 : (body.length + 1 ≠ 33 ∧ body.length + 1 ≠ 65) := by omega
        simp [e1, h33, h65]

end Embit

namespace Embit
open Embit.Model Embit.Model.Der Embit.Model.PySecp

variable (E : EcOps)

/-! ### ECDSA verification -/

/-- the DER detour inside `ecdsa_verify` (`serialize_der` then the strict parser of `verify_ecdsa`) only applies
    the range / low-S test -/
theorem parse_of_ser (n : Nat) (lowS : Bool) (r s : Nat) (hr : r < 2 ^ 256) (hs : s < 2 ^ 256) :
    Der.parse n lowS (serRS r s) = if rangeOk n lowS r s then some (r, s) else none := by
  unfold Der.parse
  rw [parseRS_serRS r s hr hs]

theorem verifyKey_eq_spec (hodd : E.n % 2 = 1) (P : E.Pt) (r s : Nat) (msg : Bytes)
    (hr : r < 2 ^ 256) (hs : s < 2 ^ 256) :
    verifyEcdsaKey E P (serRS r s) msg true = (Spec.Ecdsa.isLowS E s && Spec.Ecdsa.verify E P (ofBe msg) r s) := by
  unfold verifyEcdsaKey
  rw [parse_of_ser E.n true r s hr hs]
  unfold Spec.Ecdsa.isLowS Spec.Ecdsa.verify
  have hhalf : (E.n - 1) / 2 = E.n / 2 := by omega
  by_cases hok : rangeOk E.n true r s = true
  · have h := (rangeOk_iff E.n true r s).mp hok
    have h1 : ¬ (r < 1 ∨ r ≥ E.n ∨ s < 1 ∨ s ≥ E.n) := by omega
    have h2 : s ≤ (E.n - 1) / 2 := by rw [hhalf]; exact h.2.2.2.2 rfl
    simp only [hok, if_true, h1, if_false, h2, decide_true, Bool.true_and]
    have e : ofBe msg % E.n * E.invN s % E.n = ofBe msg * E.invN s % E.n := by
      rw [Nat.mul_mod, Nat.mod_mod, ← Nat.mul_mod]
    rw [e]
    generalize E.xy (E.add (E.mul (ofBe msg * E.invN s % E.n) E.g) (E.mul (r * E.invN s % E.n) P)) = o
    cases o with
    | none => rfl
    | some xy => rfl
  · have hok' : rangeOk E.n true r s = false := by simpa using hok
    simp only [hok', Bool.false_eq_true, if_false]
    have h := (rangeOk_iff E.n true r s).not.mp hok
    by_cases h1 : (r < 1 ∨ r ≥ E.n ∨ s < 1 ∨ s ≥ E.n)
    · rw [if_pos h1]; simp
    · have : ¬ s ≤ (E.n - 1) / 2 := by
        rw [hhalf]; intro hle; apply h
        exact ⟨by omega, by omega, by omega, by omega, fun _ => hle⟩
      simp [this]

theorem eq_ecdsa_verify (hodd : E.n % 2 = 1) (sig msg pub : Bytes) :
    ecdsaVerify E sig msg pub = Spec.Libsecp.ecdsa_verify E sig msg pub := by
  unfold ecdsaVerify Spec.Libsecp.ecdsa_verify Spec.Libsecp.sigOf
  by_cases hs : sig.length = 64
  · by_cases hm : msg.length = 32
    · by_cases hp : pub.length = 64
      · simp only [hs, hm, hp, ne_eq, not_true_eq_false, if_false, if_true, Option.bind_some]
        rw [← pubLoad_eq E pub hp]
        cases pubLoad E pub with
        | none => rfl
        | some P =>
          simp only [Option.map_some]
          unfold ecdsaSignatureSerializeDer
          simp only [hs, ne_eq, not_true_eq_false, if_false, Option.some.injEq]
          exact verifyKey_eq_spec E hodd P _ _ msg (ofLe_lt_256 _ (take32_len sig hs)) (ofLe_lt_256 _ (drop32_len sig hs))
      · simp [hs, hm, hp, pubkeyOf_none E pub hp]
    · simp [hs, hm]
  · simp only [hs, ne_eq, not_false_eq_true, if_true, if_false, Option.bind_none]
    split <;> rfl

end Embit
