import EmbitModel.Proofs.Slip39Recover
/-
  `ShareSet.interpolate` = the executable `Interpolation` of the spec (Lagrange formula written with carry-less
  multiplication and a^254 inverses), for well-formed share data.
-/
namespace Embit.Model.Slip39
open Embit.Spec.Slip39 (gfMul gfInv gfProd xorAll basisAt basisValues interpolation)

theorem gfProd_val (l : List Nat) (h : ∀ a ∈ l, a < 256) : gfProd l = ((l.map GF256.ofNat).prod).val := by
  induction l with
  | nil => rfl
  | cons a l ih =>
    have ha := h a List.mem_cons_self
    have ih' := ih (fun a' h' => h a' (List.mem_cons_of_mem _ h'))
    simp only [gfProd, List.foldr_cons, List.map_cons, List.prod_cons, GF256.mul_val, ofNat_val ha] at ih' ⊢
    rw [ih', ← mulL_eq_gfMul _ _ ha (GF256.lt _)]

theorem xorAll_val (l : List Nat) (h : ∀ a ∈ l, a < 256) : xorAll l = ((l.map GF256.ofNat).sum).val := by
  induction l with
  | nil => rfl
  | cons a l ih =>
    have ha := h a List.mem_cons_self
    have ih' := ih (fun a' h' => h a' (List.mem_cons_of_mem _ h'))
    simp only [xorAll, List.foldr_cons, List.map_cons, List.sum_cons, GF256.add_val, ofNat_val ha] at ih' ⊢
    rw [ih']

theorem prod_map_div' {α : Type} (l : List α) (f g : α → GF256) :
    (l.map f).prod / (l.map g).prod = (l.map fun j => f j / g j).prod := by
  induction l with
  | nil => simp
  | cons a l ih => simp only [List.map_cons, List.prod_cons, ← ih, div_mul_div_comm]

theorem ofNat_self (a : GF256) : GF256.ofNat a.val = a := by
  ext; exact ofNat_val a.lt

theorem basisAt_eq (x : Nat) (xs : List Nat) (hx : x < 256) (hxs : ∀ a ∈ xs, a < 256) (hnd : xs.Nodup)
    (i : Nat) (hi : i < xs.length) : basisAt x xs i = (basisVal x xs xs[i]).val := by
  unfold basisAt basisVal
  have hg : xs.getD i 0 = xs[i] := by simp [List.getD, List.getElem?_eq_getElem hi]
  have he : xs.eraseIdx i = xs.erase xs[i] := (hnd.erase_getElem i hi).symm
  have hxi := hxs xs[i] (List.getElem_mem hi)
  simp only [hg, he]
  rw [prod_map_div']
  have hsub : ∀ a ∈ xs.erase xs[i], a < 256 := fun a h => hxs a (List.mem_of_mem_erase h)
  rw [gfProd_val]
  · rw [List.map_map]
    congr 2
    apply List.map_congr_left
    intro a ha
    have h1 := hsub a ha
    simp only [Function.comp]
    rw [← mulL_eq_gfMul _ _ (xor_lt_256 hx h1) (by rw [gfInv_eq_invL _ (xor_lt_256 hxi h1)]; exact invL_lt _),
      gfInv_eq_invL _ (xor_lt_256 hxi h1)]
    ext
    simp only [ofNat_val (mulL_lt _ _), div_eq_mul_inv, GF256.mul_val, GF256.inv_val, GF256.sub_eq_add, GF256.add_val,
      ofNat_val hx, ofNat_val h1, ofNat_val hxi]
  · intro a ha
    obtain ⟨b, hb, rfl⟩ := List.mem_map.mp ha
    have h1 := hsub b hb
    rw [← mulL_eq_gfMul _ _ (xor_lt_256 hx h1) (by rw [gfInv_eq_invL _ (xor_lt_256 hxi h1)]; exact invL_lt _)]
    exact mulL_lt _ _

/-- `interpolate` equals the spec's executable `Interpolation` on well-formed share data -/
theorem interpolate_eq_spec {data : List (Nat × Bytes)} {L : Nat} (g : Good data L) (x : Nat) (hx : x < 256)
    (hnot : x ∉ data.map (·.1)) : interpolate x data = interpolation L x data := by
  apply ext_getD
  · rw [interpolate_length' g]; simp [interpolation]
  · intro b hb
    rw [interpolate_length' g] at hb
    apply toG_inj
    cases data with
    | nil => exact absurd rfl g.ne
    | cons s data =>
      have hs := g.len s List.mem_cons_self
      rw [interpolate_byte x s data (fun s' h' => by rw [g.len s' h', hs]) hx g.lt g.nodup hnot b (by omega)]
      -- the spec side
      have hget : (interpolation L x (s :: data)).getD b 0 =
          UInt8.ofNat (xorAll (List.zipWith (fun (p : Nat × Bytes) l => gfMul (p.2.getD b 0).toNat l) (s :: data)
            (basisValues x ((s :: data).map (·.1))))) := by
        simp [interpolation, List.getD, hb]
      rw [hget]
      have hz : List.zipWith (fun (p : Nat × Bytes) l => gfMul (p.2.getD b 0).toNat l) (s :: data)
            (basisValues x ((s :: data).map (·.1))) =
          (s :: data).map (fun p => (toG (p.2.getD b 0) * basisVal x ((s :: data).map (·.1)) p.1).val) := by
        apply List.ext_getElem
        · simp [basisValues]
        · intro i h1 h2
          have hi : i < (s :: data).length := by simpa [basisValues] using h1
          have hi' : i < ((s :: data).map (·.1)).length := by simpa using hi
          simp only [List.getElem_zipWith, basisValues, List.getElem_map, List.getElem_range]
          rw [basisAt_eq x _ hx g.xs_lt g.nodup i hi']
          simp only [List.getElem_map, GF256.mul_val, toG]
          exact (mulL_eq_gfMul _ _ (UInt8.toNat_lt _) (GF256.lt _)).symm
      rw [hz, xorAll_val _ (by
        intro a ha; obtain ⟨p, _, rfl⟩ := List.mem_map.mp ha; exact GF256.lt _)]
      rw [List.map_map]
      have : (GF256.ofNat ∘ fun p : Nat × Bytes => (toG (p.2.getD b 0) * basisVal x ((s :: data).map (·.1)) p.1).val) =
          fun p => toG (p.2.getD b 0) * basisVal x ((s :: data).map (·.1)) p.1 := by
        funext p; exact ofNat_self _
      rw [this]
      ext
      simp only [toG, UInt8.toNat_ofNat']
      exact (Nat.mod_eq_of_lt (GF256.lt _)).symm

/-- `recover_secret` = the spec's `RecoverSecret` for thresholds ≠ 1 on well-formed share data with
    x-coordinates other than 254 and 255 -/
theorem recoverSecret_eq_spec (P : Prims) {T : List (Nat × Bytes)} {L : Nat} (g : Good T L) (t : Nat) (ht : t ≠ 1)
    (h254 : 254 ∉ T.map (·.1)) (h255 : 255 ∉ T.map (·.1)) :
    recoverSecret P T = Spec.Slip39.recoverSecret ⟨P.hmac, P.pbkdf2⟩ t T := by
  cases T with
  | nil => exact absurd rfl g.ne
  | cons s0 T' =>
    have hs := g.len s0 List.mem_cons_self
    unfold recoverSecret Spec.Slip39.recoverSecret
    simp only [ht, if_false, hs]
    rw [interpolate_eq_spec g 255 (by decide) h255, interpolate_eq_spec g 254 (by decide) h254]
    simp only [digest]
    by_cases hc : List.take 4 (interpolation L 254 (s0 :: T')) =
        List.take 4 (P.hmac (List.drop 4 (interpolation L 254 (s0 :: T'))) (interpolation L 255 (s0 :: T')))
    · simp [hc]
    · simp [hc]

/-- `split_secret` = the spec's `SplitSecret` run on the same random choices (k ≥ 2): the first n−4 draws are `R`,
    the following (k−2)·n draws are y_0 … y_{k−3} -/
theorem splitSecret_eq_spec (P : Prims) (hH : ∀ key msg, 4 ≤ (P.hmac key msg).length)
    (secret : Bytes) (k n : Nat) (tape : List Nat) (shares : List (Nat × Bytes))
    (hs : splitSecret P secret k n tape = some shares) (hk : 2 ≤ k) :
    ∃ (r : Bytes) (ys : List Bytes), r.length = secret.length - 4 ∧ ys.length = k - 2 ∧
      Spec.Slip39.splitSecret ⟨P.hmac, P.pbkdf2⟩ k n secret r ys = some shares := by
  obtain ⟨hkn, hn, hsz, r, base, hr, hbx, hbl, rfl⟩ := splitSecret_structure P secret k n tape shares hs hk
  have hblen : base.length = k - 2 := by
    have := congrArg List.length hbx; simpa using this
  refine ⟨r, base.map (·.2), hr, by simpa using hblen, ?_⟩
  have hbase : (List.range (k - 2)).map (fun i => (i, (base.map (·.2)).getD i [])) = base := by
    apply List.ext_getElem
    · simp [hblen]
    · intro i h1 h2
      have hi : i < base.length := h2
      have hx : (base.map (·.1))[i]'(by simpa using hi) = i := by
        simp only [hbx, List.getElem_range']; omega
      simp only [List.getElem_map, List.getElem_range, List.getD, List.getElem?_map, List.getElem?_eq_getElem hi,
        Option.map_some, Option.getD_some]
      rw [List.getElem_map] at hx
      exact Prod.ext hx.symm rfl
  -- well-formedness of the base points (as in `splitSecret_onpoly`)
  have hdg : (digest P r secret).length = 4 := by simp [digest]; exact hH r secret
  have hBx : (base ++ [(254, digest P r secret ++ r), (255, secret)]).map (fun x : Nat × Bytes => x.1) =
      List.range' 0 (k - 2) ++ [254, 255] := by simp [hbx]
  have gB' : Good (base ++ [(254, digest P r secret ++ r), (255, secret)]) secret.length := by
    refine ⟨?_, ?_, ?_, by simp⟩
    · intro s hs'
      have : s.1 ∈ (base ++ [(254, digest P r secret ++ r), (255, secret)]).map (fun x : Nat × Bytes => x.1) :=
        List.mem_map_of_mem hs'
      rw [hBx] at this
      simp [List.mem_range'_1] at this
      omega
    · rw [hBx, List.nodup_append]
      refine ⟨List.nodup_range', by decide, ?_⟩
      intro a ha b hb
      simp [List.mem_range'_1] at ha
      simp at hb
      omega
    · intro s hs'
      simp only [List.mem_append, List.mem_cons, List.not_mem_nil, or_false] at hs'
      rcases hs' with h | h | h
      · exact hbl s h
      · rw [h]; simp [hdg, hr]; omega
      · rw [h]
  unfold Spec.Slip39.splitSecret
  have c1 : (1 ≤ k ∧ k ≤ n ∧ n ≤ 16) := ⟨by omega, hkn, hn⟩
  simp only [c1, and_self, decide_true, Bool.not_true, Bool.false_eq_true, if_false]
  rw [if_neg (by omega)]
  have c2 : ¬ (r.length ≠ secret.length - 4 ∨ (base.map (·.2)).length ≠ k - 2 ∨
      (base.map (·.2)).any (fun y => decide (y.length ≠ secret.length)) = true) := by
    simp only [hr, ne_eq, not_true_eq_false, List.length_map, hblen, false_or, List.any_map, List.any_eq_true,
      Function.comp, decide_eq_true_eq, not_exists, not_and, not_not]
    exact fun s hs' => hbl s hs'
  rw [if_neg c2, hbase]
  simp only [Option.some.injEq]
  have hsplit : List.range n = List.range (k - 2) ++ List.range' (k - 2) (n - (k - 2)) := by
    rw [List.range_eq_range', List.range_eq_range',
      show List.range' (k - 2) (n - (k - 2)) = List.range' (0 + (k - 2)) (n - (k - 2)) by simp,
      List.range'_append_1]
    congr 1; omega
  rw [hsplit, List.map_append]
  congr 1
  · conv_rhs => rw [← hbase]
    apply List.map_congr_left
    intro i hi
    simp only [List.mem_range] at hi
    simp [hi]
  · apply List.map_congr_left
    intro i hi
    simp only [List.mem_range'_1] at hi
    have hnot : i ∉ (base ++ [(254, digest P r secret ++ r), (255, secret)]).map (fun x : Nat × Bytes => x.1) := by
      rw [hBx]; simp [List.mem_range'_1]; omega
    rw [if_neg (by omega)]
    have := interpolate_eq_spec gB' i (by omega) hnot
    simp only [digest] at this ⊢
    rw [this]

end Embit.Model.Slip39
