import EmbitModel.Proofs.Slip39EndToEnd
import EmbitModel.Proofs.Slip39Layout
import EmbitModel.Spec.Slip39Groups
/-
  `generate_shares` SUCCEEDS for valid parameters (audit item A11 / I-16.1): the exact number of `randint` draws the
  model consumes, the exact condition on the tape, and what `recover` does with header-identical shares at
  threshold 1 (there is no digest share there; the first non-empty group's first share is decrypted).
-/
namespace Embit.Model.Slip39

/-! ### the random tape: exact consumption -/

/-- number of `randint(0, 255)` draws of `split_secret(secret, k, n)` for a secret of `L` bytes: none for k = 1,
    otherwise `L − 4` for `r` and `L` for each of the `k − 2` random shares -/
def splitDraws (L k : Nat) : Nat := if k = 1 then 0 else (L - 4) + (k - 2) * L

/-- number of draws of `generate_shares`: the identifier first, then those of `split_secret` -/
def generateDraws (L k : Nat) : Nat := 1 + splitDraws L k

theorem drawBytes_some (n : Nat) (tape : List Nat) (hlen : n ≤ tape.length) (hb : ∀ t ∈ tape.take n, t < 256) :
    drawBytes n tape = some ((tape.take n).map UInt8.ofNat, tape.drop n) := by
  induction n generalizing tape with
  | zero => simp [drawBytes]
  | succ n ih =>
    cases tape with
    | nil => simp at hlen
    | cons t tape =>
      have ht : t < 256 := hb t (by simp)
      have := ih tape (by simpa using hlen) (fun x hx => hb x (by simp [hx]))
      simp only [drawBytes, ht, if_true, this, List.take_succ_cons, List.map_cons, List.drop_succ_cons]

theorem drawBytes_inv (n : Nat) (tape : List Nat) (bs : Bytes) (rest : List Nat)
    (h : drawBytes n tape = some (bs, rest)) :
    n ≤ tape.length ∧ (∀ t ∈ tape.take n, t < 256) ∧ rest = tape.drop n := by
  induction n generalizing tape bs rest with
  | zero => simp [drawBytes] at h; simp [h.2]
  | succ n ih =>
    cases tape with
    | nil => simp [drawBytes] at h
    | cons t tape =>
      simp only [drawBytes] at h
      split at h
      · rename_i ht
        split at h
        · rename_i bs' rest' hd
          simp only [Option.some.injEq, Prod.mk.injEq] at h
          obtain ⟨h1, h2, h3⟩ := ih _ _ _ hd
          refine ⟨by simpa using h1, ?_, by rw [← h.2, h3]; rfl⟩
          intro x hx
          simp only [List.take_succ_cons, List.mem_cons] at hx
          rcases hx with e | e
          · rw [e]; exact ht
          · exact h2 x e
        · simp at h
      · simp at h

theorem take_add_mem {α : Type} (a b : Nat) (l : List α) (x : α) :
    x ∈ l.take (a + b) ↔ x ∈ l.take a ∨ x ∈ (l.drop a).take b := by
  rw [List.take_add, List.mem_append]

theorem drawShares_some (L c i : Nat) (tape : List Nat) (hlen : c * L ≤ tape.length)
    (hb : ∀ t ∈ tape.take (c * L), t < 256) :
    ∃ l, drawShares L c i tape = some (l, tape.drop (c * L)) := by
  induction c generalizing i tape with
  | zero => exact ⟨[], by simp [drawShares]⟩
  | succ c ih =>
    have e : (c + 1) * L = L + c * L := by rw [Nat.succ_mul, Nat.add_comm]
    rw [e] at hlen hb ⊢
    have h1 := drawBytes_some L tape (by omega) (fun t ht => hb t ((take_add_mem _ _ _ _).mpr (Or.inl ht)))
    obtain ⟨l, hl⟩ := ih (i + 1) (tape.drop L) (by rw [List.length_drop]; omega)
      (fun t ht => hb t ((take_add_mem _ _ _ _).mpr (Or.inr ht)))
    refine ⟨(i, (tape.take L).map UInt8.ofNat) :: l, ?_⟩
    simp only [drawShares, h1, hl, List.drop_drop]

theorem drawShares_inv (L c i : Nat) (tape : List Nat) (l : List (Nat × Bytes)) (rest : List Nat)
    (h : drawShares L c i tape = some (l, rest)) :
    c * L ≤ tape.length ∧ (∀ t ∈ tape.take (c * L), t < 256) ∧ rest = tape.drop (c * L) := by
  induction c generalizing i tape l rest with
  | zero => simp [drawShares] at h; simp [h.2]
  | succ c ih =>
    have e : (c + 1) * L = L + c * L := by rw [Nat.succ_mul, Nat.add_comm]
    rw [e]
    simp only [drawShares] at h
    split at h
    · simp at h
    · rename_i bs rest1 hbs
      split at h
      · simp at h
      · rename_i l' rest' hd
        simp only [Option.some.injEq, Prod.mk.injEq] at h
        obtain ⟨a1, a2, a3⟩ := drawBytes_inv _ _ _ _ hbs
        obtain ⟨b1, b2, b3⟩ := ih _ _ _ _ hd
        subst a3
        rw [List.length_drop] at b1
        refine ⟨by omega, ?_, by rw [← h.2, b3, List.drop_drop, Nat.add_comm]⟩
        intro t ht
        rcases (take_add_mem _ _ _ _).mp ht with e' | e'
        · exact a2 t e'
        · exact b2 t e'

/-- `split_secret` succeeds EXACTLY when the parameters are valid and the tape holds `splitDraws` bytes -/
theorem splitSecret_isSome_iff (P : Prims) (secret : Bytes) (k n : Nat) (tape : List Nat) :
    (splitSecret P secret k n tape).isSome ↔
      (1 ≤ k ∧ k ≤ n ∧ n ≤ 16 ∧ (secret.length = 16 ∨ secret.length = 32) ∧
       splitDraws secret.length k ≤ tape.length ∧ ∀ t ∈ tape.take (splitDraws secret.length k), t < 256) := by
  constructor
  · intro h
    unfold splitSecret at h
    split at h; · simp at h
    split at h; · simp at h
    split at h; · simp at h
    split at h; · simp at h
    simp only at h
    split at h; · simp at h
    split at h
    · rename_i hk1
      refine ⟨by omega, by omega, by omega, by omega, ?_, ?_⟩ <;> simp [splitDraws, hk1]
    · rename_i hk1
      split at h; · simp at h
      rename_i r tape1 hr
      split at h; · simp at h
      rename_i base rest hbase
      obtain ⟨a1, a2, a3⟩ := drawBytes_inv _ _ _ _ hr
      obtain ⟨b1, b2, b3⟩ := drawShares_inv _ _ _ _ _ _ hbase
      subst a3
      rw [List.length_drop] at b1
      refine ⟨by omega, by omega, by omega, by omega, ?_, ?_⟩
      · simp only [splitDraws, hk1, if_false]; omega
      · simp only [splitDraws, hk1, if_false]
        intro t ht
        rcases (take_add_mem _ _ _ _).mp ht with e' | e'
        · exact a2 t e'
        · exact b2 t e'
  · rintro ⟨h1, h2, h3, h4, h5, h6⟩
    unfold splitSecret
    rw [if_neg (by omega), if_neg (by omega), if_neg (by omega), if_neg (by omega)]
    simp only
    rw [if_neg (by omega)]
    by_cases hk1 : k = 1
    · rw [if_pos hk1]; rfl
    · rw [if_neg hk1]
      simp only [splitDraws, hk1, if_false] at h5 h6
      have d1 := drawBytes_some (secret.length - 4) tape (by omega)
        (fun t ht => h6 t ((take_add_mem _ _ _ _).mpr (Or.inl ht)))
      obtain ⟨l, d2⟩ := drawShares_some secret.length (k - 2) 0 (tape.drop (secret.length - 4))
        (by rw [List.length_drop]; omega) (fun t ht => h6 t ((take_add_mem _ _ _ _).mpr (Or.inr ht)))
      simp only [d1, d2]
      rfl

/-! ### `generate_shares` succeeds -/

theorem ofBe_lt_pow (b : Bytes) : ofBe b < 256 ^ b.length := by
  have := ofLe_lt b.reverse
  simpa [ofBe] using this

theorem encrypt_some_id (P : Prims) (x : Bytes) (id e : Nat) (pass y : Bytes)
    (h : encrypt P x id e pass = some y) : id < 65536 := by
  unfold encrypt crypt at h
  split at h; · simp at h
  simp only at h
  split at h; · simp at h
  omega

/-- every share `generate_shares` builds from the output of `split_secret` passes the checks of `Share.__init__` -/
theorem shareOf_initOk (P : Prims) (hH : ∀ key msg, 4 ≤ (P.hmac key msg).length) (enc : Bytes) (k n : Nat)
    (tape : List Nat) (data : List (Nat × Bytes)) (hs : splitSecret P enc k n tape = some data) (L id e : Nat)
    (hL : enc.length = L) : ∀ d ∈ data, (shareOf (L * 8) id e k n d).initOk = true := by
  obtain ⟨hx, hk1, hkn, hn, _, hlen, _⟩ := splitSecret_shape P hH enc k n tape data hs
  intro d hd
  have hd1 : d.1 < n := by
    have : d.1 ∈ data.map (·.1) := List.mem_map_of_mem hd
    rwa [hx, List.mem_range] at this
  have hv : ofBe d.2 < 256 ^ (L * 8 / 8) := by
    have := ofBe_lt_pow d.2
    rw [hlen d hd, hL] at this
    rwa [Nat.mul_div_cancel _ (by decide : 0 < 8)]
  simp only [Share.initOk, shareOf, Bool.and_eq_true, Bool.not_eq_true', Bool.or_eq_false_iff]
  refine ⟨⟨⟨⟨⟨?_, ?_, ?_⟩, ?_, ?_⟩, ?_⟩, ?_, ?_⟩, decide_eq_true hv⟩ <;> (apply decide_eq_false; omega)

/-- **`generate_shares` succeeds EXACTLY on valid parameters and a sufficient tape**: secret of 16 or 32 bytes,
    1 ≤ k ≤ n ≤ 16, first draw (the identifier) below 65 536 (`id.to_bytes(2, "big")`), followed by at least
    `splitDraws` further draws, each below 256 (`bytes(...)`).  No condition on the exponent, the passphrase or the
    values of the primitives. -/
theorem generateShares_isSome_iff (P : Prims) (hF : ∀ pw s it n, (P.pbkdf2 pw s it n).length = n)
    (hH : ∀ key msg, 4 ≤ (P.hmac key msg).length)
    (secret : Bytes) (k n : Nat) (pass : Bytes) (e : Nat) (tape : List Nat) :
    (generateShares P secret k n pass e tape).isSome ↔
      ((secret.length = 16 ∨ secret.length = 32) ∧ 1 ≤ k ∧ k ≤ n ∧ n ≤ 16 ∧
       ∃ id rest, tape = id :: rest ∧ id < 65536 ∧ splitDraws secret.length k ≤ rest.length ∧
         ∀ t ∈ rest.take (splitDraws secret.length k), t < 256) := by
  constructor
  · intro h
    obtain ⟨ms, hms⟩ := Option.isSome_iff_exists.mp h
    obtain ⟨id, tape1, enc, data, rfl, hsz, henc, hdata, _, _⟩ := generateShares_structure P secret k n pass e tape ms hms
    have hid := encrypt_some_id P secret id e pass enc henc
    have hsne : secret ≠ [] := by intro h; rw [h] at hsz; simp at hsz
    obtain ⟨henclen, _⟩ := decrypt_encrypt P hF secret id e pass (by omega) hsne hid enc henc
    have := (splitSecret_isSome_iff P enc k n tape1).mp (by rw [hdata]; rfl)
    rw [henclen] at this
    obtain ⟨a1, a2, a3, _, a5, a6⟩ := this
    exact ⟨hsz, a1, a2, a3, id, tape1, rfl, hid, a5, a6⟩
  · rintro ⟨hsz, h1, h2, h3, id, rest, rfl, hid, h5, h6⟩
    have hsne : secret ≠ [] := by intro h; rw [h] at hsz; simp at hsz
    obtain ⟨enc, henc, henclen, _⟩ := crypt_reverse P hF pass secret id e [0, 1, 2, 3] (by omega) hsne hid
    have hsp : (splitSecret P enc k n rest).isSome :=
      (splitSecret_isSome_iff P enc k n rest).mpr ⟨h1, h2, h3, by omega, by rw [henclen]; exact h5, by rw [henclen]; exact h6⟩
    obtain ⟨data, hdata⟩ := Option.isSome_iff_exists.mp hsp
    have hinit := shareOf_initOk P hH enc k n rest data hdata secret.length id e henclen
    unfold generateShares
    show (if secret.length * 8 ≠ 128 ∧ secret.length * 8 ≠ 256 then none else _ : Option (List (List Nat))).isSome = true
    rw [if_neg (by omega)]
    simp only
    have henc' : encrypt P secret id e pass = some enc := henc
    rw [henc']
    simp only [hdata]
    have := mapM_some_map (fun d => (Share.new? (shareOf (secret.length * 8) id e k n d)).map Share.mnemonic)
      (fun d => (shareOf (secret.length * 8) id e k n d).mnemonic) data
      (fun d hd => by simp only [Share.new?, hinit d hd, if_true, Option.map_some])
    simp only [shareOf] at this
    rw [this]
    rfl

/-! ### threshold 1: no digest, the first share decides -/

/-- groups whose members all have member threshold 1 contribute their FIRST share, no check -/
theorem gather_mt1 (P : Prims) (gs : List (Nat × List Share))
    (h : ∀ g ∈ gs, ∀ s ∈ g.2, s.memberThreshold = 1) :
    gatherGroups P gs = some (gs.filterMap fun g => g.2.head?.map fun s => (g.1, s.bytes)) := by
  induction gs with
  | nil => rfl
  | cons g gs ih =>
    obtain ⟨i, grp⟩ := g
    have ih' := ih (fun g' h' => h g' (List.mem_cons_of_mem _ h'))
    cases grp with
    | nil => simp only [gatherGroups, recoverGroup, ih', List.filterMap_cons, List.head?_nil, Option.map_none]
    | cons g0 rest =>
      have h0 : g0.memberThreshold = 1 := h (i, g0 :: rest) List.mem_cons_self g0 List.mem_cons_self
      have hall : ((g0 :: rest).all fun s => s.memberThreshold == 1) = true := by
        rw [List.all_eq_true]
        intro s hs
        rw [h (i, g0 :: rest) List.mem_cons_self s hs]
        rfl
      simp only [gatherGroups, recoverGroup, h0, hall, Bool.not_true, Bool.false_eq_true, if_false, if_true, ih',
        List.filterMap_cons, List.head?_cons, Option.map_some]

theorem head_filterMap_range' {β : Type} (f : Nat → Option β) (a : Nat) (b : β) (hfa : f a = some b) (c s : Nat)
    (hs : s ≤ a) (ha : a < s + c) (hlt : ∀ i, s ≤ i → i < a → f i = none) :
    ((List.range' s c).filterMap f).head? = some b := by
  induction c generalizing s with
  | zero => omega
  | succ c ih =>
    rw [List.range'_succ, List.filterMap_cons]
    by_cases e : s = a
    · subst e; rw [hfa]; rfl
    · rw [hlt s (Nat.le_refl _) (by omega)]
      exact ih (s + 1) (by omega) (by omega) (fun i h1 h2 => hlt i (by omega) h2)

/-- **threshold 1 (group threshold 1, all member thresholds 1): `recover` performs no digest check**; it decrypts
    the value of the first given share among those with the smallest group index — whatever the other shares hold -/
theorem recover_threshold_one (P : Prims) (ss : ShareSet) (pass : Bytes) (hgt : ss.groupThreshold = 1)
    (hmt : ∀ s ∈ ss.shares, s.memberThreshold = 1) (hgi : ∀ s ∈ ss.shares, s.groupIndex < ss.groupCount)
    (s0 : Share) (hmin : ∀ s ∈ ss.shares, s0.groupIndex ≤ s.groupIndex)
    (hfirst : (ss.shares.filter fun s => s.groupIndex == s0.groupIndex).head? = some s0) :
    ss.recover P pass = decrypt P s0.bytes ss.id ss.exponent pass := by
  have hs0 : s0 ∈ ss.shares := by
    have : s0 ∈ ss.shares.filter fun s => s.groupIndex == s0.groupIndex := List.mem_of_mem_head? hfirst
    exact (List.mem_filter.mp this).1
  unfold ShareSet.recover
  have hany : (ss.shares.any fun s => decide (s.groupIndex ≥ ss.groupCount)) = false := by
    rw [List.any_eq_false]
    intro s hs
    have := hgi s hs
    simp only [ge_iff_le, decide_eq_true_eq]; omega
  rw [hany]
  simp only [Bool.false_eq_true, if_false]
  rw [gather_mt1 P _ (by
    intro g hg s hs
    obtain ⟨i, _, rfl⟩ := List.mem_map.mp hg
    exact hmt s (List.mem_filter.mp hs).1)]
  simp only [hgt, if_true, List.filterMap_map]
  have hhead := head_filterMap_range'
    ((fun g : Nat × List Share => g.2.head?.map fun s => (g.1, s.bytes)) ∘ fun i =>
      (i, ss.shares.filter fun s => s.groupIndex == i)) s0.groupIndex (s0.groupIndex, s0.bytes)
    (by simp only [Function.comp, hfirst, Option.map_some]) ss.groupCount 0 (Nat.zero_le _)
    (by have := hgi s0 hs0; omega)
    (by
      intro i _ hi
      have : (ss.shares.filter fun s => s.groupIndex == i) = [] := by
        rw [List.filter_eq_nil_iff]
        intro s hs hsi
        simp only [beq_iff_eq] at hsi
        have := hmin s hs
        omega
      simp only [Function.comp, this, List.head?_nil, Option.map_none])
  rw [← List.range_eq_range'] at hhead
  generalize List.filterMap _ (List.range ss.groupCount) = sd at hhead
  cases sd with
  | nil => simp at hhead
  | cons d sd' =>
    simp only [List.head?_cons, Option.some.injEq] at hhead
    subst hhead
    rfl

/-- two header-identical shares at threshold 1 are accepted by `ShareSet(...)`, and `recover` returns the decryption
    of ONE of them — the one with the smaller group index, the first one when the group indices are equal -/
theorem recover_pair_threshold_one (P : Prims) (s1 s2 : Share) (pass : Bytes)
    (hid : s2.id = s1.id) (he : s2.exponent = s1.exponent)
    (hgt1 : s1.groupThreshold = 1) (hgt2 : s2.groupThreshold = 1) (hgc : s2.groupCount = s1.groupCount)
    (hsbl : s2.shareBitLength = s1.shareBitLength) (hm1 : s1.memberThreshold = 1) (hm2 : s2.memberThreshold = 1)
    (hg1 : s1.groupIndex < s1.groupCount) (hg2 : s2.groupIndex < s1.groupCount)
    (hx : (s1.groupIndex, s1.memberIndex) ≠ (s2.groupIndex, s2.memberIndex)) :
    (ShareSet.new? [s1, s2]).bind (fun ss => ss.recover P pass) =
      decrypt P (if s2.groupIndex < s1.groupIndex then s2 else s1).bytes s1.id s1.exponent pass := by
  have hc : consistent s1 [s1, s2] = true := by
    have hnd : nodupB [(s1.groupIndex, s1.memberIndex), (s2.groupIndex, s2.memberIndex)] = true := by
      rw [nodupB_iff]; simp [hx]
    simp only [consistent, List.all_cons, List.all_nil, beq_self_eq_true, Bool.true_and, Bool.and_true, hid, he, hgt1,
      hgt2, hgc, hsbl, List.map_cons, List.map_nil, hnd, Bool.not_eq_true', decide_eq_false_iff_not]
    omega
  have hnew : ShareSet.new? [s1, s2] = some ⟨[s1, s2], s1.id, s1.exponent, s1.groupThreshold, s1.groupCount,
      s1.shareBitLength⟩ := by
    unfold ShareSet.new?
    simp only [hc]
    rfl
  rw [hnew]
  simp only [Option.bind_some]
  by_cases hlt : s2.groupIndex < s1.groupIndex
  · rw [if_pos hlt]
    refine recover_threshold_one P _ pass hgt1 ?_ ?_ s2 ?_ ?_
    · intro s hs; simp only [List.mem_cons, List.not_mem_nil, or_false] at hs; rcases hs with rfl | rfl <;> assumption
    · intro s hs; simp only [List.mem_cons, List.not_mem_nil, or_false] at hs; rcases hs with rfl | rfl <;> assumption
    · intro s hs; simp only [List.mem_cons, List.not_mem_nil, or_false] at hs; rcases hs with rfl | rfl <;> omega
    · have : (s1.groupIndex == s2.groupIndex) = false := by rw [beq_eq_false_iff_ne]; omega
      simp [this]
  · rw [if_neg hlt]
    refine recover_threshold_one P _ pass hgt1 ?_ ?_ s1 ?_ ?_
    · intro s hs; simp only [List.mem_cons, List.not_mem_nil, or_false] at hs; rcases hs with rfl | rfl <;> assumption
    · intro s hs; simp only [List.mem_cons, List.not_mem_nil, or_false] at hs; rcases hs with rfl | rfl <;> assumption
    · intro s hs; simp only [List.mem_cons, List.not_mem_nil, or_false] at hs; rcases hs with rfl | rfl <;> omega
    · simp [List.filter_cons]

/-- two shares with the same (group index, member index) are refused by `ShareSet(...)` whatever they hold -/
theorem pair_same_index_refused (s1 s2 : Share) (hg : s2.groupIndex = s1.groupIndex)
    (hm : s2.memberIndex = s1.memberIndex) : ShareSet.new? [s1, s2] = none := by
  have hnd : nodupB [(s1.groupIndex, s1.memberIndex), (s2.groupIndex, s2.memberIndex)] = false := by
    rw [hg, hm]; simp [nodupB]
  have hc : consistent s1 [s1, s2] = false := by
    simp only [consistent, List.map_cons, List.map_nil, hnd, Bool.and_false]
  unfold ShareSet.new?
  simp [hc]

/-- `split_secret` at threshold 1: n copies of the secret -/
theorem splitSecret_one (P : Prims) (secret : Bytes) (k n : Nat) (tape : List Nat) (data : List (Nat × Bytes))
    (hk : k = 1) (hs : splitSecret P secret k n tape = some data) :
    data = (List.range n).map fun i => (i, secret) := by
  unfold splitSecret at hs
  split at hs; · simp at hs
  split at hs; · simp at hs
  split at hs; · simp at hs
  split at hs; · simp at hs
  simp only at hs
  split at hs; · simp at hs
  simp only [Option.some.injEq] at hs
  exact hs.symm

/-- the i-th mnemonic of `generate_shares` at threshold 1 parses to the share (index i, value = encrypted secret) -/
theorem generate_one_nth (P : Prims) (hF : ∀ pw s it n, (P.pbkdf2 pw s it n).length = n)
    (secret : Bytes) (n : Nat) (pass : Bytes) (e id : Nat) (tape : List Nat) (ms : List (List Nat))
    (hgen : generateShares P secret 1 n pass e (id :: tape) = some ms) (hid : id < 2 ^ 15) (he : e < 32)
    (i : Nat) (hi : i < n) :
    ∃ enc, encrypt P secret id e pass = some enc ∧ decrypt P enc id e pass = some secret ∧
      enc.length = secret.length ∧ (secret.length = 16 ∨ secret.length = 32) ∧
      ms[i]? = some (shareOf (secret.length * 8) id e 1 n (i, enc)).mnemonic ∧
      Share.parse (shareOf (secret.length * 8) id e 1 n (i, enc)).mnemonic =
        some (shareOf (secret.length * 8) id e 1 n (i, enc)) ∧
      (shareOf (secret.length * 8) id e 1 n (i, enc)).bytes = enc := by
  obtain ⟨id', tape1, enc, data, htape, hsz, henc, hdata, rfl, hinit⟩ :=
    generateShares_structure P secret 1 n pass e _ ms hgen
  obtain ⟨h1, h2⟩ := List.cons.inj htape
  subst h1 h2
  have hsne : secret ≠ [] := by intro h; rw [h] at hsz; simp at hsz
  obtain ⟨henclen, hdec⟩ := decrypt_encrypt P hF secret id e pass (by omega) hsne (by omega) enc henc
  have hd := splitSecret_one P enc 1 n tape data rfl hdata
  subst hd
  refine ⟨enc, henc, hdec, henclen, hsz, ?_, ?_, ?_⟩
  · simp [List.getElem?_map, List.getElem?_range hi]
  · apply share_text_roundtrip
    exact ⟨hinit (i, enc) (List.mem_map.mpr ⟨i, List.mem_range.mpr hi, rfl⟩), hid, he,
      by simp only [shareOf]; omega, by simp only [shareOf]; omega⟩
  · simp only [Share.bytes, shareOf]
    have : secret.length * 8 / 8 = enc.length := by rw [henclen]; omega
    rw [this, beN_ofBe]

/-- for the standard such a pair is NOT a valid set: it holds more shares than the thresholds ask for (two groups
    where the group threshold is 1, or two members where the member threshold is 1) -/
theorem pair_threshold_one_invalid (s1 s2 : Share)
    (hgt1 : s1.groupThreshold = 1) (hm1 : s1.memberThreshold = 1) (hgc16 : s1.groupCount ≤ 16)
    (hg1 : s1.groupIndex < s1.groupCount) (hg2 : s2.groupIndex < s1.groupCount) :
    Spec.Slip39.validSet ([s1, s2].map Share.toFields) = false := by
  cases h : Spec.Slip39.validSet ([s1, s2].map Share.toFields) with
  | false => rfl
  | true =>
    exfalso
    simp only [List.map_cons, List.map_nil, Spec.Slip39.validSet, Bool.and_eq_true] at h
    obtain ⟨⟨_, hlen⟩, hall⟩ := h
    have mem1 : s1.groupIndex ∈ Spec.Slip39.groupIndices [s1.toFields, s2.toFields] := by
      simp only [Spec.Slip39.groupIndices, List.mem_filter, List.mem_range, List.any_cons, List.any_nil, Bool.or_false,
        Bool.or_eq_true, beq_iff_eq]
      exact ⟨by omega, Or.inl rfl⟩
    have mem2 : s2.groupIndex ∈ Spec.Slip39.groupIndices [s1.toFields, s2.toFields] := by
      simp only [Spec.Slip39.groupIndices, List.mem_filter, List.mem_range, List.any_cons, List.any_nil, Bool.or_false,
        Bool.or_eq_true, beq_iff_eq]
      exact ⟨by omega, Or.inr rfl⟩
    have hgt : s1.toFields.Gt = 1 := hgt1
    rw [hgt] at hlen
    generalize Spec.Slip39.groupIndices [s1.toFields, s2.toFields] = G at hlen hall mem1 mem2
    match G, hlen with
    | [g], _ =>
      simp only [List.mem_singleton] at mem1 mem2
      simp only [List.all_cons, List.all_nil, Bool.and_true] at hall
      have e1 : (s1.toFields.GI == g) = true := by rw [beq_iff_eq]; exact mem1
      have e2 : (s2.toFields.GI == g) = true := by rw [beq_iff_eq]; exact mem2
      have ht : s1.toFields.t = 1 := hm1
      simp [Spec.Slip39.membersOf, e1, e2, Spec.Slip39.validGroup, ht] at hall

theorem combine_invalid_none (P : Spec.Slip39.Prims) (fs : List Spec.Slip39.ShareFields) (pass : Bytes)
    (h : Spec.Slip39.validSet fs = false) : Spec.Slip39.combineShares P fs pass = none := by
  unfold Spec.Slip39.combineShares
  cases fs with
  | nil => rfl
  | cons f fs => simp only [h, Bool.not_false, if_true]

end Embit.Model.Slip39
