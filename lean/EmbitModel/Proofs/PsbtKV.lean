import EmbitModel.Model.Psbt
import EmbitModel.Proofs.Tx
/-
  C04 helper lemmas, key-value layer and field codecs.
-/
namespace Embit
open Model

theorem serString_eq (s : Bytes) : serString s = scriptSer s := rfl

theorem readString_ser (s r : Bytes) (h : s.length < 2^64) : readString (serString s ++ r) = some (s, r) :=
  scriptRead_ser s r h

theorem readString_sound {b s r : Bytes} (h : readString b = some (s, r)) :
    b = serString s ++ r ∧ s.length < 2^64 := scriptRead_sound h

theorem serString_length_pos (s : Bytes) : 0 < (serString s).length := by
  have := Compact.enc_length_pos s.length
  simp [serString]; omega

def KVWF (kv : KV) : Prop := kv.1 ≠ [] ∧ kv.1.length < 2^64 ∧ kv.2.length < 2^64

theorem readKVsFuel_write (kvs : List KV) (r : Bytes) (fuel : Nat) (hf : kvs.length + 1 ≤ fuel)
    (h : ∀ kv ∈ kvs, KVWF kv) : readKVsFuel fuel (writeKVs kvs ++ r) = some (kvs, r) := by
  induction kvs generalizing fuel with
  | nil =>
    cases fuel with
    | zero => omega
    | succ f =>
      have : readString (0 :: r) = some ([], r) := by
        have := readString_ser [] r (by decide)
        simpa [serString, Compact.enc] using this
      simp [readKVsFuel, writeKVs, this]
  | cons kv kvs ih =>
    cases fuel with
    | zero => omega
    | succ f =>
      obtain ⟨hne, hk, hv⟩ := h kv (by simp)
      have ih' := ih f (by simp at hf; omega) (fun x hx => h x (by simp [hx]))
      have e : writeKVs (kv :: kvs) ++ r
          = serString kv.1 ++ (serString kv.2 ++ (writeKVs kvs ++ r)) := by
        simp [writeKVs, List.append_assoc]
      have hne' : kv.1.isEmpty = false := by
        cases hkv : kv.1 with
        | nil => exact absurd hkv hne
        | cons _ _ => rfl
      rw [e]
      simp [readKVsFuel, readString_ser _ _ hk, readString_ser _ _ hv, hne', ih']

theorem writeKVs_length (kvs : List KV) : kvs.length < (writeKVs kvs).length := by
  induction kvs with
  | nil => simp [writeKVs]
  | cons kv kvs ih =>
    have h1 := serString_length_pos kv.1
    have h2 := serString_length_pos kv.2
    simp [writeKVs] at ih ⊢
    omega

/-- writing then reading a scope's pairs is the identity -/
theorem readKVs_write (kvs : List KV) (r : Bytes) (h : ∀ kv ∈ kvs, KVWF kv) :
    readKVs (writeKVs kvs ++ r) = some (kvs, r) := by
  unfold readKVs
  apply readKVsFuel_write kvs r _ _ h
  have := writeKVs_length kvs
  simp; omega

theorem readKVsFuel_sound (fuel : Nat) : ∀ (b : Bytes) (kvs : List KV) (r : Bytes),
    readKVsFuel fuel b = some (kvs, r) → b = writeKVs kvs ++ r ∧ ∀ kv ∈ kvs, KVWF kv := by
  induction fuel with
  | zero => intro b kvs r h; simp [readKVsFuel] at h
  | succ f ih =>
    intro b kvs r h
    simp only [readKVsFuel] at h
    split at h
    · simp at h
    · rename_i k r1 hk
      obtain ⟨e1, l1⟩ := readString_sound hk
      split at h
      · rename_i hemp
        simp at h; obtain ⟨h1, h2⟩ := h; subst h1; subst h2
        have : k = [] := by simpa using hemp
        subst this
        simp [e1, writeKVs, serString, Compact.enc]
      · rename_i hemp
        split at h
        · simp at h
        · rename_i v r2 hv
          obtain ⟨e2, l2⟩ := readString_sound hv
          split at h
          · simp at h
          · rename_i kvs' r3 hrec
            simp at h; obtain ⟨h1, h2⟩ := h; subst h1; subst h2
            obtain ⟨e3, w3⟩ := ih _ _ _ hrec
            refine ⟨by simp [e1, e2, e3, writeKVs, List.append_assoc], ?_⟩
            intro kv hkv
            simp at hkv
            rcases hkv with rfl | hkv
            · refine ⟨?_, l1, l2⟩
              intro hnil; simp at hemp; exact hemp hnil
            · exact w3 kv hkv

/-- a scope that parses is exactly the canonical framing of its pairs: nothing is skipped or merged -/
theorem readKVs_sound {b : Bytes} {kvs : List KV} {r : Bytes} (h : readKVs b = some (kvs, r)) :
    b = writeKVs kvs ++ r ∧ ∀ kv ∈ kvs, KVWF kv := readKVsFuel_sound _ _ _ _ h

/-! ### field codecs -/

theorem chunks4_ser (fuel : Nat) (b : Bytes) (p : List Nat) (h : chunks4 fuel b = some p) :
    p.flatMap (leN 4) = b := by
  induction fuel generalizing b p with
  | zero => simp [chunks4] at h
  | succ f ih =>
    simp only [chunks4] at h
    split at h
    · rename_i he
      simp at h; subst h
      have : b = [] := by simpa using he
      simp [this]
    · split at h
      · simp at h
      · rename_i hl
        split at h
        · simp at h
        · rename_i rest hr
          simp at h; subst h
          have := ih _ _ hr
          have ht : (b.take 4).length = 4 := by simp; omega
          have := leN_ofLe (b.take 4)
          rw [ht] at this
          simp [List.flatMap_cons, *]

theorem Deriv.ser_parse {v : Bytes} {d : Deriv} (h : Deriv.parse v = some d) : Deriv.ser d = v := by
  unfold Deriv.parse at h
  split at h
  · simp at h
  · rename_i p hp
    simp at h; subst h
    simp [Deriv.ser, chunks4_ser _ _ _ hp]

theorem takeN32_flatten (n : Nat) (b : Bytes) (hs : List Bytes) (r : Bytes)
    (h : readMany (takeN 32) n b = some (hs, r)) : b = hs.flatten ++ r ∧ hs.length = n := by
  have := readMany_sound (takeN 32) id (fun _ => True)
    (fun b x r hx => ⟨(takeN_sound hx).1, trivial⟩) n b hs r h
  refine ⟨?_, this.2.1⟩
  have e : hs.flatMap id = hs.flatten := by simp [List.flatMap_def]
  rw [← e]; exact this.1

theorem tapDeriv_ser_parse {v : Bytes} {x : List Bytes × Deriv} (h : tapDerivParse v = some x) :
    tapDerivSer x = v := by
  unfold tapDerivParse at h
  split at h
  · simp at h
  · rename_i n r hn
    obtain ⟨e1, _⟩ := Compact.read_sound hn
    split at h
    · simp at h
    · rename_i hs r2 hh
      obtain ⟨e2, l2⟩ := takeN32_flatten _ _ _ _ hh
      split at h
      · simp at h
      · rename_i d hd
        simp at h; subst h
        simp [tapDerivSer, Deriv.ser_parse hd, e1, e2, l2, List.append_assoc]

theorem parseAll_TxOut_ser {v : Bytes} {o : TxOut} (h : parseAll TxOut.read v = some o) : TxOut.ser o = v := by
  unfold parseAll at h
  split at h
  · rename_i x hx
    simp at h; subst h
    have := (TxOut.read_sound hx).1
    simp [this]
  · simp at h

theorem parseAll_witness_ser {v : Bytes} {w : List Bytes} (h : parseAll witnessRead v = some w) :
    witnessSer w = v := by
  unfold parseAll at h
  split at h
  · rename_i x hx
    simp at h; subst h
    have := (witnessRead_sound hx).1
    simp [this]
  · simp at h

theorem parseAll_compact {v : Bytes} {n : Nat} (h : parseAll Compact.read v = some n) : Compact.enc n = v := by
  unfold parseAll at h
  split at h
  · rename_i x hx
    simp at h; subst h
    have := (Compact.read_sound hx).1
    simp [this]
  · simp at h

end Embit
