import EmbitModel.Model.Blech32
/-
  Proofs about the blech32 model (embit/liquid/blech32.py). Core Lean only (no Mathlib).

  (a) `polymodStep_xor`            the checksum step is XOR-linear (all `Nat`, no bounds)
  (b) `foldl_polymodStep_xor`      … hence so is the fold over equally long lists
  (c) `foldl_polymodStep_zero`, `foldl_polymodStep_pack`
  (d) `create_verify`              a created checksum verifies, for EVERY `hrp` and `data`
  (e) `bech32Decode_encode`, `convertBits_roundtrip`, `decode_encode`, `encode_decode`
-/
namespace Embit.Blech32
open Embit.Model.Blech32

/-- one conditional generator term -/
def genTerm (top i g : Nat) : Nat := if (top >>> i) &&& 1 ≠ 0 then g else 0

theorem polymodStep_eq (chk v : Nat) : polymodStep chk v =
    ((chk &&& 0x7FFFFFFFFFFFFF) <<< 5) ^^^ v
      ^^^ genTerm (chk >>> 55) 0 0x7D52FBA40BD886
      ^^^ genTerm (chk >>> 55) 1 0x5E8DBF1A03950C
      ^^^ genTerm (chk >>> 55) 2 0x1C3A3C74072A18
      ^^^ genTerm (chk >>> 55) 3 0x385D72FA0E5139
      ^^^ genTerm (chk >>> 55) 4 0x7093E5A608865B := by
  rfl

theorem genTerm_testBit (top i g : Nat) : genTerm top i g = if top.testBit i then g else 0 := by
  unfold genTerm Nat.testBit
  rw [Nat.and_comm]
  by_cases h : 1 &&& top >>> i = 0 <;> simp [h]

theorem genTerm_xor (s t i g : Nat) : genTerm (s ^^^ t) i g = genTerm s i g ^^^ genTerm t i g := by
  simp only [genTerm_testBit, Nat.testBit_xor]
  cases s.testBit i <;> cases t.testBit i <;> simp

theorem polymodStep_xor (a b v w : Nat) :
    polymodStep (a ^^^ b) (v ^^^ w) = polymodStep a v ^^^ polymodStep b w := by
  simp only [polymodStep_eq, Nat.shiftRight_xor_distrib, Nat.and_xor_distrib_right,
    Nat.shiftLeft_xor_distrib, genTerm_xor]
  ac_rfl

theorem foldl_polymodStep_xor (vs ws : List Nat) (h : vs.length = ws.length) (a b : Nat) :
    (List.zipWith (· ^^^ ·) vs ws).foldl polymodStep (a ^^^ b)
      = vs.foldl polymodStep a ^^^ ws.foldl polymodStep b := by
  induction vs generalizing ws a b with
  | nil => cases ws with
    | nil => rfl
    | cons _ _ => simp at h
  | cons v vs ih => cases ws with
    | nil => simp at h
    | cons w ws =>
      simp only [List.zipWith_cons_cons, List.foldl_cons, polymodStep_xor]
      exact ih ws (by simpa using h) _ _

theorem polymodStep_zero : polymodStep 0 0 = 0 := by decide

theorem foldl_polymodStep_zero (n : Nat) : (List.replicate n 0).foldl polymodStep 0 = 0 := by
  induction n with
  | zero => rfl
  | succ n ih => simp only [List.replicate_succ, List.foldl_cons, polymodStep_zero, ih]

def pack (c : List Nat) : Nat := c.foldl (fun acc x => acc * 32 + x) 0

theorem genTerm_zero (i g : Nat) : genTerm 0 i g = 0 := by simp [genTerm]

theorem polymodStep_small (s x : Nat) (hs : s < 2 ^ 55) (hx : x < 32) :
    polymodStep s x = s * 32 + x := by
  have h55 : s >>> 55 = 0 := by
    rw [Nat.shiftRight_eq_div_pow]; exact Nat.div_eq_of_lt hs
  have hm : s &&& 0x7FFFFFFFFFFFFF = s := by
    have := Nat.and_two_pow_sub_one_eq_mod s 55
    simp only [Nat.reducePow, Nat.reduceSub] at this
    rw [this]; exact Nat.mod_eq_of_lt hs
  rw [polymodStep_eq, h55, hm]
  simp only [genTerm_zero, Nat.xor_zero]
  have hx' : x < 2 ^ 5 := hx
  rw [Nat.shiftLeft_eq]
  apply Nat.eq_of_testBit_eq
  intro i
  have := Nat.shiftLeft_add_eq_or_of_lt hx' s
  rw [Nat.shiftLeft_eq] at this
  show _ = (s * 2 ^ 5 + x).testBit i
  rw [this, Nat.testBit_xor, Nat.testBit_or, ← Nat.shiftLeft_eq, Nat.testBit_shiftLeft]
  by_cases hi : i ≥ 5
  · have : x.testBit i = false := Nat.testBit_lt_two_pow (Nat.lt_of_lt_of_le hx' (Nat.pow_le_pow_right (by decide) hi))
    simp [this]
  · simp [hi]

theorem foldl_polymodStep_small (c : List Nat) (hc : ∀ x ∈ c, x < 32) (s : Nat)
    (hs : (s + 1) * 32 ^ c.length ≤ 2 ^ 60) :
    c.foldl polymodStep s = c.foldl (fun acc x => acc * 32 + x) s := by
  induction c generalizing s with
  | nil => rfl
  | cons x xs ih =>
    have hx : x < 32 := hc x (by simp)
    simp only [List.length_cons, Nat.pow_succ] at hs
    have hs55 : s < 2 ^ 55 := by
      have h1 : (s + 1) * 32 ≤ (s + 1) * (32 ^ xs.length * 32) :=
        Nat.mul_le_mul_left _ (Nat.le_mul_of_pos_left _ (Nat.pow_pos (by decide)))
      have : (s + 1) * 32 ≤ 2 ^ 60 := Nat.le_trans h1 hs
      simp only [Nat.reducePow] at this ⊢
      omega
    simp only [List.foldl_cons]
    rw [polymodStep_small s x hs55 hx]
    apply ih (fun y hy => hc y (by simp [hy]))
    have h2 : (s * 32 + x + 1) ≤ (s + 1) * 32 := by omega
    calc (s * 32 + x + 1) * 32 ^ xs.length ≤ ((s + 1) * 32) * 32 ^ xs.length :=
          Nat.mul_le_mul_right _ h2
      _ = (s + 1) * (32 ^ xs.length * 32) := by
          rw [Nat.mul_assoc, Nat.mul_comm 32]
      _ ≤ 2 ^ 60 := hs

theorem foldl_polymodStep_pack (c : List Nat) (hlen : c.length ≤ 12) (hc : ∀ x ∈ c, x < 32) :
    c.foldl polymodStep 0 = pack c := by
  apply foldl_polymodStep_small c hc 0
  calc (0 + 1) * 32 ^ c.length = 32 ^ c.length := by simp
    _ ≤ 32 ^ 12 := Nat.pow_le_pow_right (by decide) hlen
    _ = 2 ^ 60 := by decide

/-- the 12 symbols cut out of `m` by `bech32_create_checksum` -/
def symbols12 (m : Nat) : List Nat := (List.range 12).map fun i => (m >>> (5 * (11 - i))) &&& 0x1F

theorem symbols12_length (m : Nat) : (symbols12 m).length = 12 := by simp [symbols12]

theorem symbols12_lt (m : Nat) : ∀ x ∈ symbols12 m, x < 32 := by
  intro x hx
  simp only [symbols12, List.mem_map] at hx
  obtain ⟨i, _, rfl⟩ := hx
  exact Nat.and_lt_two_pow _ (n := 5) (by decide)

theorem and_31 (x : Nat) : x &&& 0x1F = x % 32 := Nat.and_two_pow_sub_one_eq_mod x 5

theorem symbols12_eq (m : Nat) : symbols12 m = [(m >>> 55) &&& 0x1F, (m >>> 50) &&& 0x1F, (m >>> 45) &&& 0x1F,
  (m >>> 40) &&& 0x1F, (m >>> 35) &&& 0x1F, (m >>> 30) &&& 0x1F, (m >>> 25) &&& 0x1F, (m >>> 20) &&& 0x1F,
  (m >>> 15) &&& 0x1F, (m >>> 10) &&& 0x1F, (m >>> 5) &&& 0x1F, (m >>> 0) &&& 0x1F] := by
  rfl

theorem shiftRight_add5 (m k : Nat) : m >>> (k + 5) = (m >>> k) / 32 := by
  rw [Nat.shiftRight_add, Nat.shiftRight_eq_div_pow (m >>> k) 5]

theorem pack_step (q N : Nat) : (q / 32 % N) * 32 + q % 32 = q % (32 * N) := by
  rw [Nat.mod_mul]; omega

theorem pack_symbols12 (m : Nat) : pack (symbols12 m) = m % 2 ^ 60 := by
  rw [symbols12_eq]
  simp only [pack, List.foldl_cons, List.foldl_nil, and_31]
  have A : ∀ k N acc, acc = (m >>> (k + 5)) % N →
      acc * 32 + (m >>> k) % 32 = (m >>> k) % (32 * N) := by
    intro k N acc h; rw [h, shiftRight_add5, pack_step]
  have h1 : 0 * 32 + (m >>> 55) % 32 = (m >>> (50 + 5)) % 32 := by omega
  have h := A 0 _ _ (A 5 _ _ (A 10 _ _ (A 15 _ _ (A 20 _ _ (A 25 _ _ (A 30 _ _ (A 35 _ _
    (A 40 _ _ (A 45 _ _ (A 50 _ _ h1))))))))))
  exact h

theorem createChecksum_eq (hrp data : List Nat) :
    createChecksum hrp data
      = symbols12 (polymod (hrpExpand hrp ++ data ++ List.replicate 12 0) ^^^ 1) := rfl

theorem polymodStep_lt (chk v : Nat) (hv : v < 2 ^ 60) : polymodStep chk v < 2 ^ 60 := by
  rw [polymodStep_eq]
  have hg : ∀ top i g, g < 2 ^ 60 → genTerm top i g < 2 ^ 60 := by
    intro top i g hg; unfold genTerm; split
    · exact hg
    · exact Nat.pow_pos (by decide)
  have h0 : (chk &&& 0x7FFFFFFFFFFFFF) <<< 5 < 2 ^ 60 := by
    have : chk &&& 0x7FFFFFFFFFFFFF < 2 ^ 55 := Nat.and_lt_two_pow _ (by decide)
    rw [Nat.shiftLeft_eq]
    simp only [Nat.reducePow] at this ⊢
    omega
  repeat' apply Nat.xor_lt_two_pow
  all_goals first | exact h0 | exact hv | exact hg _ _ _ (by decide)

/-- (d) a created checksum verifies — for every `hrp` and `data`, no side condition. -/
theorem create_verify (hrp data : List Nat) :
    verifyChecksum hrp (data ++ createChecksum hrp data) = true := by
  rw [createChecksum_eq]
  generalize hE : hrpExpand hrp ++ data = E
  have hP : polymod (E ++ List.replicate 12 0) < 2 ^ 60 := by
    unfold polymod
    rw [List.foldl_append]
    show List.foldl polymodStep _ (List.replicate (11 + 1) 0) < _
    rw [List.replicate_succ', List.foldl_append]
    exact polymodStep_lt _ _ (by decide)
  generalize hPd : polymod (E ++ List.replicate 12 0) = P at hP
  have hM : P ^^^ 1 < 2 ^ 60 := Nat.xor_lt_two_pow hP (by decide)
  unfold verifyChecksum
  rw [← List.append_assoc, hE]
  have key : polymod (E ++ symbols12 (P ^^^ 1)) = 1 := by
    unfold polymod at hPd ⊢
    rw [List.foldl_append] at hPd ⊢
    generalize List.foldl polymodStep 1 E = S at hPd ⊢
    have hz : List.zipWith (· ^^^ ·) (List.replicate 12 0) (symbols12 (P ^^^ 1)) = symbols12 (P ^^^ 1) := by
      have hl := symbols12_length (P ^^^ 1)
      generalize symbols12 (P ^^^ 1) = c at hl
      match c, hl with
      | [_,_,_,_,_,_,_,_,_,_,_,_], _ => simp [List.replicate]
    have := foldl_polymodStep_xor (List.replicate 12 0) (symbols12 (P ^^^ 1))
      (by simp [symbols12_length]) S 0
    rw [hz, Nat.xor_zero, hPd, foldl_polymodStep_pack _ (by simp [symbols12_length]) (symbols12_lt _),
      pack_symbols12, Nat.mod_eq_of_lt hM] at this
    rw [this, ← Nat.xor_assoc, Nat.xor_self, Nat.zero_xor]
  simp [key]

/-! ### `bech32_decode ∘ bech32_encode` -/

theorem charAt_table : ∀ d, d < 32 →
    (33 ≤ charAt d ∧ charAt d ≤ 126) ∧ lowerC (charAt d) = charAt d ∧ charAt d ≠ 49 ∧
    charset.contains (charAt d) = true ∧ charIdx (charAt d) = d := by
  decide

theorem rfind_none (c : Nat) (l : List Nat) (h : c ∉ l) : rfind c l = none := by
  induction l with
  | nil => rfl
  | cons x xs ih =>
    simp only [List.mem_cons, not_or] at h
    simp only [rfind, ih h.2]
    simp [Ne.symm h.1]

theorem rfind_sep (c : Nat) (h t : List Nat) (ht : c ∉ t) : rfind c (h ++ c :: t) = some h.length := by
  induction h with
  | nil => simp [rfind, rfind_none c t ht]
  | cons x xs ih => simp [rfind, ih]

/-- well-formed human-readable part for `bech32_decode`: non-empty, printable ASCII, no upper case -/
def HrpOk (hrp : List Nat) : Prop :=
  hrp ≠ [] ∧ ∀ c ∈ hrp, 33 ≤ c ∧ c ≤ 126 ∧ ¬ (65 ≤ c ∧ c ≤ 90)

instance (hrp : List Nat) : Decidable (HrpOk hrp) := by unfold HrpOk; infer_instance

theorem map_id_of_forall {f : Nat → Nat} (l : List Nat) (hl : ∀ x ∈ l, f x = x) : l.map f = l := by
  induction l with
  | nil => rfl
  | cons d ds ih => simp [hl d (by simp), ih (fun d hd => hl d (by simp [hd]))]

/-- `bech32_decode` on `hrp ++ "1" ++ S` where `S` consists of (lower-case) charset characters:
    the separator is found, and the answer is decided by the checksum alone. -/
theorem bech32Decode_sep (hrp S : List Nat) (hh : HrpOk hrp) (hS : ∀ x ∈ S, x ∈ charset)
    (hlen : 6 ≤ S.length) :
    bech32Decode (hrp ++ [49] ++ S)
      = if verifyChecksum hrp (S.map charIdx) then some (hrp, (S.map charIdx).take (S.length - 12))
        else none := by
  obtain ⟨hne, hc⟩ := hh
  have hS_tab : ∀ x ∈ S, (33 ≤ x ∧ x ≤ 126) ∧ lowerC x = x ∧ x ≠ 49 := by
    have : ∀ x ∈ charset, (33 ≤ x ∧ x ≤ 126) ∧ lowerC x = x ∧ x ≠ 49 := by decide
    exact fun x hx => this x (hS x hx)
  have hlow : (hrp ++ [49] ++ S).map lowerC = hrp ++ [49] ++ S := by
    apply map_id_of_forall
    intro x hx
    simp only [List.mem_append, List.mem_singleton] at hx
    rcases hx with (hx | hx) | hx
    · have := hc x hx; unfold lowerC; rw [if_neg this.2.2]
    · subst hx; decide
    · exact (hS_tab x hx).2.1
  have hrange : (hrp ++ [49] ++ S).any (fun x => x < 33 || x > 126) = false := by
    rw [List.any_eq_false]
    intro x hx
    simp only [List.mem_append, List.mem_singleton] at hx
    have : 33 ≤ x ∧ x ≤ 126 := by
      rcases hx with (hx | hx) | hx
      · have := hc x hx; exact ⟨this.1, this.2.1⟩
      · subst hx; decide
      · exact (hS_tab x hx).1
    simp; omega
  have hfind : rfind 49 (hrp ++ [49] ++ S) = some hrp.length := by
    rw [List.append_assoc]
    exact rfind_sep 49 hrp S (fun h => (hS_tab 49 h).2.2 rfl)
  have hpos : 1 ≤ hrp.length := by
    cases hrp with
    | nil => exact absurd rfl hne
    | cons _ _ => simp
  have hdrop : (hrp ++ [49] ++ S).drop (hrp.length + 1) = S := by
    have : (hrp ++ [49]).length = hrp.length + 1 := by simp
    rw [← this, List.drop_left]
  have htake : (hrp ++ [49] ++ S).take hrp.length = hrp := by
    rw [List.append_assoc, List.take_left]
  have hall : S.all (fun x => charset.contains x) = true := by
    rw [List.all_eq_true]; intro x hx; simpa using hS x hx
  have h1 : (decide (hrp.length < 1) || decide (hrp.length + 7 > (hrp ++ [49] ++ S).length)) = false := by
    simp only [List.length_append, List.length_singleton, Bool.or_eq_false_iff, decide_eq_false_iff_not]
    omega
  unfold bech32Decode
  simp only [hrange, hlow, bne_self_eq_false, Bool.false_and, Bool.or_self, Bool.false_eq_true, ↓reduceIte, hfind,
    hdrop, htake, hall, Bool.not_true, h1, List.length_map]
  cases verifyChecksum hrp (S.map charIdx) <;> simp

theorem bech32Decode_encode (hrp data : List Nat) (hh : HrpOk hrp) (hd : ∀ d ∈ data, d < 32) :
    bech32Decode (bech32Encode hrp data) = some (hrp, data) := by
  have hcs : ∀ d ∈ data ++ createChecksum hrp data, d < 32 := by
    intro d hd'
    rcases List.mem_append.1 hd' with h | h
    · exact hd d h
    · exact symbols12_lt _ d h
  have hlen : (createChecksum hrp data).length = 12 := symbols12_length _
  have hver := create_verify hrp data
  have hidx : (List.map charAt (data ++ createChecksum hrp data)).map charIdx
      = data ++ createChecksum hrp data := by
    rw [List.map_map]
    exact map_id_of_forall _ (fun d hd => (charAt_table d (hcs d hd)).2.2.2.2)
  unfold bech32Encode
  simp only
  rw [bech32Decode_sep hrp _ hh]
  · rw [hidx, hver]
    simp [hlen]
  · intro x hx
    obtain ⟨d, hd', rfl⟩ := List.mem_map.1 hx
    simpa using (charAt_table d (hcs d hd')).2.2.2.1
  · simp [hlen]


/-! ### bit streams -/

/-- the low `w` bits of `x`, most significant first -/
def bitsBE : Nat → Nat → List Bool
  | 0, _ => []
  | w + 1, x => x.testBit w :: bitsBE w x

/-- concatenated `w`-bit big-endian expansions -/
def bitsOf (w : Nat) (xs : List Nat) : List Bool := xs.flatMap (bitsBE w)

@[simp] theorem bitsBE_length (w x : Nat) : (bitsBE w x).length = w := by
  induction w with
  | zero => rfl
  | succ w ih => simp [bitsBE, ih]

theorem bitsBE_eq_iff (w x y : Nat) : bitsBE w x = bitsBE w y ↔ ∀ i, i < w → x.testBit i = y.testBit i := by
  induction w with
  | zero => simp [bitsBE]
  | succ w ih =>
    simp only [bitsBE, List.cons.injEq, ih]
    constructor
    · rintro ⟨h1, h2⟩ i hi
      by_cases h : i = w
      · subst h; exact h1
      · exact h2 i (by omega)
    · intro h; exact ⟨h w (by omega), fun i hi => h i (by omega)⟩

theorem bitsBE_zero (w : Nat) : bitsBE w 0 = List.replicate w false := by
  induction w with
  | zero => rfl
  | succ w ih => simp [bitsBE, ih, List.replicate_succ]

theorem bitsBE_add (a b x : Nat) : bitsBE (a + b) x = bitsBE a (x >>> b) ++ bitsBE b x := by
  induction a with
  | zero => simp [bitsBE]
  | succ a ih =>
    rw [show a + 1 + b = (a + b) + 1 by omega]
    simp only [bitsBE, ih, Nat.testBit_shiftRight, List.cons_append, Nat.add_comm b a]

theorem testBit_false_of_lt {x w i : Nat} (hx : x < 2 ^ w) (hi : w ≤ i) : x.testBit i = false :=
  Nat.testBit_lt_two_pow (Nat.lt_of_lt_of_le hx (Nat.pow_le_pow_right (by decide) hi))

theorem bitsBE_inj {w x y : Nat} (hx : x < 2 ^ w) (hy : y < 2 ^ w) (h : bitsBE w x = bitsBE w y) : x = y := by
  rw [bitsBE_eq_iff] at h
  apply Nat.eq_of_testBit_eq
  intro i
  by_cases hi : i < w
  · exact h i hi
  · rw [testBit_false_of_lt hx (by omega), testBit_false_of_lt hy (by omega)]

@[simp] theorem bitsOf_nil (w : Nat) : bitsOf w [] = [] := rfl
@[simp] theorem bitsOf_cons (w x : Nat) (xs : List Nat) : bitsOf w (x :: xs) = bitsBE w x ++ bitsOf w xs := rfl
theorem bitsOf_append (w : Nat) (xs ys : List Nat) : bitsOf w (xs ++ ys) = bitsOf w xs ++ bitsOf w ys := by
  simp [bitsOf]

@[simp] theorem bitsOf_length (w : Nat) (xs : List Nat) : (bitsOf w xs).length = w * xs.length := by
  induction xs with
  | nil => simp
  | cons x xs ih => simp [ih, Nat.mul_succ, Nat.add_comm]

theorem bitsOf_inj {w : Nat} {xs ys : List Nat} (hl : xs.length = ys.length)
    (hx : ∀ x ∈ xs, x < 2 ^ w) (hy : ∀ y ∈ ys, y < 2 ^ w) (h : bitsOf w xs = bitsOf w ys) : xs = ys := by
  induction xs generalizing ys with
  | nil => cases ys with
    | nil => rfl
    | cons _ _ => simp at hl
  | cons x xs ih => cases ys with
    | nil => simp at hl
    | cons y ys =>
      simp only [bitsOf_cons] at h
      obtain ⟨h1, h2⟩ := List.append_inj h (by simp)
      rw [bitsBE_inj (hx x (by simp)) (hy y (by simp)) h1,
        ih (by simpa using hl) (fun a ha => hx a (by simp [ha])) (fun a ha => hy a (by simp [ha])) h2]

/-! ### `convertbits` -/

theorem cbWhile_spec (to acc : Nat) (hto : 1 ≤ to) (fuel bits : Nat) (ret : List Nat) (hf : bits < fuel)
    (hret : ∀ x ∈ ret, x < 2 ^ to) :
    (cbWhile to (2 ^ to - 1) acc fuel bits ret).1 < to ∧
    (∀ x ∈ (cbWhile to (2 ^ to - 1) acc fuel bits ret).2, x < 2 ^ to) ∧
    bitsOf to (cbWhile to (2 ^ to - 1) acc fuel bits ret).2
        ++ bitsBE (cbWhile to (2 ^ to - 1) acc fuel bits ret).1 acc
      = bitsOf to ret ++ bitsBE bits acc := by
  induction fuel generalizing bits ret with
  | zero => omega
  | succ fuel ih =>
    unfold cbWhile
    by_cases hb : bits ≥ to
    · simp only [hb, ↓reduceIte]
      have hd : (acc >>> (bits - to)) &&& (2 ^ to - 1) < 2 ^ to := by
        rw [Nat.and_two_pow_sub_one_eq_mod]; exact Nat.mod_lt _ (Nat.pow_pos (by decide))
      have := ih (bits - to) (ret ++ [(acc >>> (bits - to)) &&& (2 ^ to - 1)]) (by omega)
        (by
          intro x hx
          rcases List.mem_append.1 hx with h | h
          · exact hret x h
          · rw [List.mem_singleton.1 h]; exact hd)
      refine ⟨this.1, this.2.1, ?_⟩
      rw [this.2.2, bitsOf_append, List.append_assoc]
      congr 1
      simp only [bitsOf_cons, bitsOf_nil, List.append_nil]
      conv => rhs; rw [show bits = to + (bits - to) by omega, bitsBE_add]
      congr 1
      rw [bitsBE_eq_iff]
      intro i hi
      simp [hi]
    · simp only [hb, ↓reduceIte]
      exact ⟨by omega, hret, trivial⟩

theorem cbLoop_spec (frm to : Nat) (hto : 1 ≤ to) (data : List Nat) (hdata : ∀ v ∈ data, v < 2 ^ frm)
    (acc bits : Nat) (ret : List Nat) (hbits : bits < to) (hret : ∀ x ∈ ret, x < 2 ^ to) :
    ∃ acc' bits' ret',
      cbLoop frm to (2 ^ to - 1) (2 ^ (frm + to - 1) - 1) data acc bits ret = some (acc', bits', ret') ∧
      bits' < to ∧ (∀ x ∈ ret', x < 2 ^ to) ∧
      bitsOf to ret' ++ bitsBE bits' acc' = bitsOf to ret ++ bitsBE bits acc ++ bitsOf frm data := by
  induction data generalizing acc bits ret with
  | nil => exact ⟨acc, bits, ret, rfl, hbits, hret, by simp⟩
  | cons v rest ih =>
    have hv : v < 2 ^ frm := hdata v (by simp)
    have hv0 : v >>> frm = 0 := by
      rw [Nat.shiftRight_eq_div_pow]; exact Nat.div_eq_of_lt hv
    unfold cbLoop
    simp only [hv0, ne_eq, not_true_eq_false, ↓reduceIte]
    generalize hacc1 : ((acc <<< frm) ||| v) &&& (2 ^ (frm + to - 1) - 1) = acc1
    have hw := cbWhile_spec to acc1 hto (bits + frm + 1) (bits + frm) ret (by omega) hret
    generalize cbWhile to (2 ^ to - 1) acc1 (bits + frm + 1) (bits + frm) ret = r at hw
    obtain ⟨bits2, ret2⟩ := r
    simp only at hw ⊢
    obtain ⟨acc', bits', ret', h1, h2, h3, h4⟩ :=
      ih (fun v hv => hdata v (by simp [hv])) acc1 bits2 ret2 hw.1 hw.2.1
    refine ⟨acc', bits', ret', h1, h2, h3, ?_⟩
    rw [h4, hw.2.2, bitsOf_cons, bitsBE_add]
    simp only [List.append_assoc]
    congr 2
    · rw [bitsBE_eq_iff]
      intro i hi
      rw [← hacc1]
      simp only [Nat.testBit_shiftRight, Nat.testBit_and, Nat.testBit_or, Nat.testBit_shiftLeft,
        Nat.testBit_two_pow_sub_one]
      rw [testBit_false_of_lt hv (by omega)]
      have : frm + i < frm + to - 1 := by omega
      simp [this]
    · congr 1
      rw [bitsBE_eq_iff]
      intro i hi
      rw [← hacc1]
      simp only [Nat.testBit_and, Nat.testBit_or, Nat.testBit_shiftLeft, Nat.testBit_two_pow_sub_one]
      have h1 : ¬ i ≥ frm := by omega
      have h2 : i < frm + to - 1 := by omega
      simp [h1, h2]


theorem bitsBE_eq_zeros_iff (w x : Nat) :
    bitsBE w x = List.replicate w false ↔ ∀ i, i < w → x.testBit i = false := by
  rw [← bitsBE_zero, bitsBE_eq_iff]; simp

/-- `convertbits(data, frm, to, pad=True)` on `frm`-bit values succeeds; its `to`-bit expansion is the
    `frm`-bit expansion of the input followed by fewer than `to` zero bits. -/
theorem convertBits_pad (frm to : Nat) (hto : 1 ≤ to) (data : List Nat) (hdata : ∀ v ∈ data, v < 2 ^ frm) :
    ∃ r k, convertBits data frm to true = some r ∧ k < to ∧ (∀ x ∈ r, x < 2 ^ to) ∧
      bitsOf to r = bitsOf frm data ++ List.replicate k false := by
  obtain ⟨acc, bits, ret, h1, h2, h3, h4⟩ :=
    cbLoop_spec frm to hto data hdata 0 0 [] (by omega) (by simp)
  simp only [bitsOf_nil, bitsBE, List.append_nil, List.nil_append] at h4
  unfold convertBits
  simp only [Nat.one_shiftLeft, h1, ↓reduceIte]
  by_cases hb : bits = 0
  · subst hb
    refine ⟨ret, 0, by simp, by omega, h3, ?_⟩
    simpa [bitsBE] using h4
  · have hd : (acc <<< (to - bits)) &&& (2 ^ to - 1) < 2 ^ to := by
      rw [Nat.and_two_pow_sub_one_eq_mod]; exact Nat.mod_lt _ (Nat.pow_pos (by decide))
    refine ⟨ret ++ [(acc <<< (to - bits)) &&& (2 ^ to - 1)], to - bits, by simp [hb], by omega, ?_, ?_⟩
    · intro x hx
      rcases List.mem_append.1 hx with h | h
      · exact h3 x h
      · rw [List.mem_singleton.1 h]; exact hd
    · rw [bitsOf_append, ← h4, List.append_assoc]
      congr 1
      simp only [bitsOf_cons, bitsOf_nil, List.append_nil]
      conv => lhs; rw [show to = bits + (to - bits) by omega, bitsBE_add]
      rw [show bits + (to - bits) = to by omega]
      congr 1
      · rw [bitsBE_eq_iff]
        intro i hi
        simp only [Nat.testBit_shiftRight, Nat.testBit_and, Nat.testBit_shiftLeft,
          Nat.testBit_two_pow_sub_one]
        have h1 : to - bits + i ≥ to - bits := by omega
        have h2 : to - bits + i < to := by omega
        simp [h2]
      · rw [bitsBE_eq_zeros_iff]
        intro i hi
        simp only [Nat.testBit_and, Nat.testBit_shiftLeft]
        have h1 : ¬ i ≥ to - bits := by omega
        simp [h1]

/-- `convertbits(enc, to, frm, pad=False)` on a stream that is the `frm`-bit expansion of `data` followed by
    `k < to ≤ frm` zero bits gives back `data`. -/
theorem convertBits_nopad (frm to : Nat) (hle : to ≤ frm) (data enc : List Nat) (k : Nat)
    (hk : k < to) (hdata : ∀ v ∈ data, v < 2 ^ frm) (henc : ∀ x ∈ enc, x < 2 ^ to)
    (hbits : bitsOf to enc = bitsOf frm data ++ List.replicate k false) :
    convertBits enc to frm false = some data := by
  obtain ⟨acc, bits, ret, h1, h2, h3, h4⟩ :=
    cbLoop_spec to frm (by omega) enc henc 0 0 [] (by omega) (by simp)
  simp only [bitsOf_nil, bitsBE, List.append_nil, List.nil_append, hbits] at h4
  have hlen := congrArg List.length h4
  simp only [List.length_append, bitsOf_length, bitsBE_length, List.length_replicate] at hlen
  have hbk : bits = k := by
    have := congrArg (· % frm) hlen
    simp only [Nat.mul_add_mod] at this
    rwa [Nat.mod_eq_of_lt h2, Nat.mod_eq_of_lt (by omega)] at this
  subst hbk
  have hl : ret.length = data.length := by
    have : frm * ret.length = frm * data.length := by omega
    exact Nat.eq_of_mul_eq_mul_left (by omega) this
  obtain ⟨h5, h6⟩ := List.append_inj h4 (by simp [hl])
  have hret : ret = data := bitsOf_inj hl h3 hdata h5
  rw [bitsBE_eq_zeros_iff] at h6
  have hz : (acc <<< (frm - bits)) &&& (2 ^ frm - 1) = 0 := by
    apply Nat.eq_of_testBit_eq
    intro i
    simp only [Nat.testBit_and, Nat.testBit_shiftLeft, Nat.testBit_two_pow_sub_one, Nat.zero_testBit]
    by_cases hi : i < frm
    · by_cases hi2 : i ≥ frm - bits
      · rw [h6 (i - (frm - bits)) (by omega)]; simp
      · simp [hi2]
    · simp [hi]
  unfold convertBits
  simp only [Nat.one_shiftLeft, h1, hz, hret]
  have : ¬ bits ≥ to := by omega
  simp [this]

/-- the classical regrouping lemma: `frm`→`to` with padding, then `to`→`frm` without, is the identity
    (`1 ≤ to ≤ frm`; embit uses 8 → 5 → 8). -/
theorem convertBits_roundtrip (frm to : Nat) (hto : 1 ≤ to) (hle : to ≤ frm) (data : List Nat)
    (hdata : ∀ v ∈ data, v < 2 ^ frm) :
    ∃ r, convertBits data frm to true = some r ∧ (∀ x ∈ r, x < 2 ^ to) ∧
      convertBits r to frm false = some data := by
  obtain ⟨r, k, h1, h2, h3, h4⟩ := convertBits_pad frm to hto data hdata
  exact ⟨r, h1, h3, convertBits_nopad frm to hle data r k h2 hdata h3 h4⟩


/-! ### address round trip -/

/-- (e) `decode` inverts the string built by `encode`, and `encode` accepts it:
    for a well-formed `hrp`, a version symbol `< 32` and a byte list `witprog`. -/
theorem decode_encode (hrp : List Nat) (witver : Nat) (witprog : List Nat) (hh : HrpOk hrp)
    (hv : witver < 32) (hp : ∀ b ∈ witprog, b < 256) :
    ∃ conv, convertBits witprog 8 5 true = some conv ∧
      decode hrp (bech32Encode hrp ([witver] ++ conv)) = some (witver, some witprog) ∧
      encode hrp witver witprog = some (bech32Encode hrp ([witver] ++ conv)) := by
  obtain ⟨conv, h1, h2, h3⟩ := convertBits_roundtrip 8 5 (by decide) (by decide) witprog hp
  have hdec : decode hrp (bech32Encode hrp ([witver] ++ conv)) = some (witver, some witprog) := by
    unfold decode
    rw [bech32Decode_encode hrp _ hh (by
      intro d hd
      rcases List.mem_append.1 hd with h | h
      · rw [List.mem_singleton.1 h]; exact hv
      · exact h2 d h)]
    simp [h3]
  refine ⟨conv, h1, hdec, ?_⟩
  unfold encode
  simp only [h1, hdec]
  have : ¬ witver ≥ 32 := by omega
  simp [this]

/-- the same with the regrouped program written as in the Python source -/
theorem decode_encode' (hrp : List Nat) (witver : Nat) (witprog : List Nat) (hh : HrpOk hrp)
    (hv : witver < 32) (hp : ∀ b ∈ witprog, b < 256) :
    decode hrp (bech32Encode hrp ([witver] ++ (convertBits witprog 8 5 true).getD []))
      = some (witver, some witprog) ∧
    encode hrp witver witprog
      = some (bech32Encode hrp ([witver] ++ (convertBits witprog 8 5 true).getD [])) := by
  obtain ⟨conv, h1, h2, h3⟩ := decode_encode hrp witver witprog hh hv hp
  rw [h1]; exact ⟨h2, h3⟩

/-- what `encode` answers, it decodes back to `(witver, witprog)` -/
theorem encode_decode (hrp : List Nat) (witver : Nat) (witprog addr : List Nat) (hh : HrpOk hrp)
    (hv : witver < 32) (hp : ∀ b ∈ witprog, b < 256) (he : encode hrp witver witprog = some addr) :
    decode hrp addr = some (witver, some witprog) := by
  obtain ⟨conv, _, h2, h3⟩ := decode_encode hrp witver witprog hh hv hp
  rw [h3] at he
  cases he; exact h2

/-! ### non-vacuity -/

example : verifyChecksum (ofString "lq") ([0, 1, 2] ++ createChecksum (ofString "lq") [0, 1, 2]) = true := by
  decide +kernel

example : HrpOk (ofString "el") := by decide
example : HrpOk (ofString "tlq") := by decide

example : (toString' <$> encode (ofString "el") 0 (List.range 53)) =
    some "el1qqqqsyqcyq5rqwzqfpg9scrgwpugpzysnzs23v9ccrydpk8qarc0jqgfzyvjz2f389q5j52ev95hz7vp3xgengh4sl4qghhy3v" := by
  decide +kernel

example : decode (ofString "el") (ofString
    "el1qqqqsyqcyq5rqwzqfpg9scrgwpugpzysnzs23v9ccrydpk8qarc0jqgfzyvjz2f389q5j52ev95hz7vp3xgengh4sl4qghhy3v")
    = some (0, some (List.range 53)) := by
  decide +kernel

/-- a bad checksum is rejected -/
example : decode (ofString "el") (ofString
    "el1qqqqsyqcyq5rqwzqfpg9scrgwpugpzysnzs23v9ccrydpk8qarc0jqgfzyvjz2f389q5j52ev95hz7vp3xgengh4sl4qghhy3q")
    = none := by
  decide +kernel

/-- the `HrpOk` hypothesis matters: with an upper-case `hrp` the decode-back check inside `encode` fails
    (`bech32_decode` lower-cases the string, so `hrpgot != hrp`) and `encode` answers `None`. -/
example : encode (ofString "EL") 0 [0, 1, 2, 3, 4] = none := by decide +kernel

end Embit.Blech32
