import EmbitModel.Proofs.SignWithTrace
/-
  What applying a trace of writes does to a scope / a PSBT: slot contents afterwards, keys kept, other inputs untouched
  (Mathlib-free). Together with `signWith_tr` this gives the frame theorems of C02X.
-/
namespace Embit.Model.SignWith
open Embit Embit.Model

variable {HD : Type}

theorem slotValue_applySlot (s : InScope) (w : Slot × Bytes) (sl : Slot) :
    slotValue (applySlot s w) sl = if sl = w.1 then some w.2 else slotValue s sl := by
  obtain ⟨sl', v⟩ := w
  cases sl' with
  | partialSig k =>
    cases sl with
    | partialSig k' =>
      simp only [applySlot, slotValue, lookup_setKV, Slot.partialSig.injEq]
    | tapScriptSig k' => simp [applySlot, slotValue]
    | tapKeySig => simp [applySlot, slotValue]
  | tapScriptSig k =>
    cases sl with
    | partialSig k' => simp [applySlot, slotValue]
    | tapScriptSig k' =>
      simp only [applySlot, slotValue, lookup_setKV, Slot.tapScriptSig.injEq]
    | tapKeySig => simp [applySlot, slotValue]
  | tapKeySig =>
    cases sl with
    | partialSig k' => simp [applySlot, slotValue]
    | tapScriptSig k' => simp [applySlot, slotValue]
    | tapKeySig => simp [applySlot, slotValue]

/-- every slot content after the writes is the original content or one of the writes -/
theorem slotValue_applySlots (s : InScope) (ws : List (Slot × Bytes)) (sl : Slot) (v : Bytes)
    (h : slotValue (applySlots s ws) sl = some v) : slotValue s sl = some v ∨ (sl, v) ∈ ws := by
  induction ws generalizing s with
  | nil => exact Or.inl h
  | cons w r ih =>
    simp only [applySlots, List.foldl_cons] at h
    rcases ih (applySlot s w) h with h1 | h1
    · rw [slotValue_applySlot] at h1
      split at h1
      · rename_i heq
        cases h1
        exact Or.inr (by rw [heq]; exact List.mem_cons_self)
      · exact Or.inl h1
    · exact Or.inr (List.mem_cons_of_mem _ h1)

/-- a slot no write touches keeps its content -/
theorem slotValue_applySlots_untouched (s : InScope) (ws : List (Slot × Bytes)) (sl : Slot)
    (h : ∀ w ∈ ws, w.1 ≠ sl) : slotValue (applySlots s ws) sl = slotValue s sl := by
  induction ws generalizing s with
  | nil => rfl
  | cons w r ih =>
    simp only [applySlots, List.foldl_cons]
    have := ih (applySlot s w) (fun w' hw' => h w' (List.mem_cons_of_mem _ hw'))
    simp only [applySlots] at this
    rw [this, slotValue_applySlot]
    have hne : sl ≠ w.1 := fun e => h w List.mem_cons_self e.symm
    simp [hne]

/-- nothing is removed from a signature map -/
theorem slotValue_applySlots_isSome (s : InScope) (ws : List (Slot × Bytes)) (sl : Slot)
    (h : (slotValue s sl).isSome = true) : (slotValue (applySlots s ws) sl).isSome = true := by
  induction ws generalizing s with
  | nil => exact h
  | cons w r ih =>
    simp only [applySlots, List.foldl_cons]
    apply ih
    rw [slotValue_applySlot]
    split
    · rfl
    · exact h

/-- a written slot holds one of the values written to it -/
theorem slotValue_applySlots_written (s : InScope) (ws : List (Slot × Bytes)) (sl : Slot) (v : Bytes)
    (h : (sl, v) ∈ ws) : ∃ v', (sl, v') ∈ ws ∧ slotValue (applySlots s ws) sl = some v' := by
  induction ws generalizing s v with
  | nil => cases h
  | cons w r ih =>
    simp only [applySlots, List.foldl_cons]
    by_cases hr : ∃ v2, (sl, v2) ∈ r
    · obtain ⟨v2, hv2⟩ := hr
      obtain ⟨v', h1, h2⟩ := ih (applySlot s w) v2 hv2
      exact ⟨v', List.mem_cons_of_mem _ h1, h2⟩
    · have hw : w = (sl, v) := by
        rcases List.mem_cons.mp h with h1 | h1
        · exact h1.symm
        · exact absurd ⟨v, h1⟩ hr
      refine ⟨v, h, ?_⟩
      have := slotValue_applySlots_untouched (applySlot s w) r sl (by
        intro w' hw' heq
        exact hr ⟨w'.2, by rw [← heq]; exact hw'⟩)
      simp only [applySlots] at this
      rw [this, slotValue_applySlot, hw]
      simp

/-- the final witness after the writes: the original one, or a single key-path signature that was written -/
theorem finalWitness_applySlots (s : InScope) (ws : List (Slot × Bytes)) :
    (applySlots s ws).finalWitness = s.finalWitness
      ∨ ∃ v, (Slot.tapKeySig, v) ∈ ws ∧ (applySlots s ws).finalWitness = some [v] := by
  induction ws generalizing s with
  | nil => exact Or.inl rfl
  | cons w r ih =>
    simp only [applySlots, List.foldl_cons]
    rcases ih (applySlot s w) with h | ⟨v, hv, h⟩
    · obtain ⟨sl, v⟩ := w
      cases sl with
      | partialSig k => exact Or.inl h
      | tapScriptSig k => exact Or.inl h
      | tapKeySig => exact Or.inr ⟨v, List.mem_cons_self, h⟩
    · exact Or.inr ⟨v, List.mem_cons_of_mem _ hv, h⟩

theorem partialKeys_applySlot (s : InScope) (w : Slot × Bytes) :
    ∃ extra, (applySlot s w).partialSigs.map Prod.fst = s.partialSigs.map Prod.fst ++ extra := by
  obtain ⟨sl, v⟩ := w
  cases sl with
  | partialSig k =>
    simp only [applySlot, keys_setKV]
    split
    · exact ⟨[], by simp⟩
    · exact ⟨[k], rfl⟩
  | tapScriptSig k => exact ⟨[], by simp [applySlot]⟩
  | tapKeySig => exact ⟨[], by simp [applySlot]⟩

theorem tapKeys_applySlot (s : InScope) (w : Slot × Bytes) :
    ∃ extra, (applySlot s w).tapSigs.map Prod.fst = s.tapSigs.map Prod.fst ++ extra := by
  obtain ⟨sl, v⟩ := w
  cases sl with
  | partialSig k => exact ⟨[], by simp [applySlot]⟩
  | tapScriptSig k =>
    simp only [applySlot, keys_setKV]
    split
    · exact ⟨[], by simp⟩
    · exact ⟨[k], rfl⟩
  | tapKeySig => exact ⟨[], by simp [applySlot]⟩

/-- keys of the `partial_sigs` map: the old keys in their order, then new ones -/
theorem partialKeys_applySlots (s : InScope) (ws : List (Slot × Bytes)) :
    ∃ extra, (applySlots s ws).partialSigs.map Prod.fst = s.partialSigs.map Prod.fst ++ extra := by
  induction ws generalizing s with
  | nil => exact ⟨[], by simp [applySlots]⟩
  | cons w r ih =>
    simp only [applySlots, List.foldl_cons]
    obtain ⟨e, he⟩ := ih (applySlot s w)
    obtain ⟨e1, h1⟩ := partialKeys_applySlot s w
    simp only [applySlots] at he
    exact ⟨e1 ++ e, by rw [he, h1, List.append_assoc]⟩

theorem tapKeys_applySlots (s : InScope) (ws : List (Slot × Bytes)) :
    ∃ extra, (applySlots s ws).tapSigs.map Prod.fst = s.tapSigs.map Prod.fst ++ extra := by
  induction ws generalizing s with
  | nil => exact ⟨[], by simp [applySlots]⟩
  | cons w r ih =>
    simp only [applySlots, List.foldl_cons]
    obtain ⟨e, he⟩ := ih (applySlot s w)
    obtain ⟨e1, h1⟩ := tapKeys_applySlot s w
    simp only [applySlots] at he
    exact ⟨e1 ++ e, by rw [he, h1, List.append_assoc]⟩

/-! ### PSBT level -/

/-- the writes of the trace that concern input `i` -/
def writesOf (ws : List Write) (i : Nat) : List (Slot × Bytes) :=
  ws.filterMap (fun w => if w.1 = i then some w.2 else none)

theorem mem_writesOf (ws : List Write) (i : Nat) (w : Slot × Bytes) : w ∈ writesOf ws i ↔ (i, w) ∈ ws := by
  simp only [writesOf, List.mem_filterMap]
  constructor
  · rintro ⟨⟨j, w'⟩, hm, h⟩
    dsimp only at h
    split at h
    · rename_i hj; cases h; subst hj; exact hm
    · cases h
  · intro h
    exact ⟨(i, w), h, by simp⟩

theorem setInput_get_ne (p : Psbt) (i j : Nat) (t : InScope) (h : i ≠ j) :
    (Psbt.setInput p i t).inputs[j]? = p.inputs[j]? := by
  simp [Psbt.setInput, h]

/-- input `i` after the trace: the original scope with the writes concerning `i` applied -/
theorem applyWrites_get (p : Psbt) (ws : List Write) (i : Nat) :
    (applyWrites p ws).inputs[i]? = (p.inputs[i]?).map (fun s => applySlots s (writesOf ws i)) := by
  induction ws generalizing p with
  | nil => simp [applyWrites, writesOf, applySlots]
  | cons w r ih =>
    simp only [applyWrites, List.foldl_cons] at ih ⊢
    rw [ih]
    obtain ⟨j, w'⟩ := w
    unfold applyWrite
    dsimp only
    cases hj : p.inputs[j]? with
    | none =>
      dsimp only
      by_cases hji : j = i
      · subst hji; simp [hj]
      · simp [writesOf, hji]
    | some s =>
      dsimp only
      by_cases hji : j = i
      · subst hji
        rw [setInput_get p j s _ hj, hj]
        simp [writesOf, applySlots]
      · rw [setInput_get_ne p j i _ hji]
        simp [writesOf, hji]

theorem applyWrites_inputs_length (p : Psbt) (ws : List Write) :
    (applyWrites p ws).inputs.length = p.inputs.length := by
  have := congrArg (fun q => q.inputs.length) (pcore_applyWrites p ws)
  simpa [pcore] using this

end Embit.Model.SignWith
