import EmbitModel.Proofs.Slip39Feistel
import EmbitModel.Spec.Slip39Spec
/- `_crypt` as modelled = the Feistel cipher of the standard (Spec.Slip39.encryptMS / decryptMS). -/
namespace Embit.Model.Slip39

def toSpec (P : Prims) : Spec.Slip39.Prims := { hmac := P.hmac, pbkdf2 := P.pbkdf2 }

theorem shamir_utf8 : Spec.Slip39.asciiShamir = shamirBytes := by decide

theorem crypt_eq_spec (P : Prims) (x : Bytes) (id e : Nat) (pass : Bytes) (hx : x.length % 2 = 0) (hne : x ≠ [])
    (hid : id < 65536) :
    encrypt P x id e pass = some (Spec.Slip39.encryptMS (toSpec P) x id e pass) ∧
    decrypt P x id e pass = some (Spec.Slip39.decryptMS (toSpec P) x id e pass) := by
  have hpos : 0 < x.length := List.length_pos_iff.mpr hne
  have hhalf : x.length / 2 ≠ 0 := by omega
  have hit : 2500 <<< e = 2500 * 2 ^ e := Nat.shiftLeft_eq _ _
  constructor
  · unfold encrypt crypt Spec.Slip39.encryptMS
    rw [if_neg (by omega), if_neg (by omega), if_neg (by simp [hhalf])]
    simp [Spec.Slip39.feistel, Spec.Slip39.roundF, feistelRound, toSpec, shamir_utf8, hit, xorBytes,
      Spec.Slip39.xorBytes]
  · unfold decrypt crypt Spec.Slip39.decryptMS
    rw [if_neg (by omega), if_neg (by omega), if_neg (by simp [hhalf])]
    simp [Spec.Slip39.feistel, Spec.Slip39.roundF, feistelRound, toSpec, shamir_utf8, hit, xorBytes,
      Spec.Slip39.xorBytes]

end Embit.Model.Slip39
