import EmbitModel.Proofs.Base58
import EmbitModel.Model.Base58Check
import EmbitModel.Proofs.KeysSound
/-
  The concrete Base58Check text layer of the key models (`Model/Base58Check.lean`, over ASCII codes) IS C11's
  Base58 model (`Model/Base58.lean`, over `Char`) read through the character codes; hence C11's theorem
  "decode s = some b → encode b = s" transfers, and the codec law `DecodeCanonical` of C10X holds for it.
-/
namespace Embit.Keys.B58
open Embit Embit.Keys Embit.Digits

def chr (u : UInt8) : Char := Char.ofNat u.toNat
def code (c : Char) : UInt8 := UInt8.ofNat c.toNat

theorem code_chr_nat : ∀ n, n < 256 → code (Char.ofNat n) = UInt8.ofNat n := by decide +kernel

theorem code_chr (u : UInt8) : code (chr u) = u := by
  have := code_chr_nat u.toNat u.toNat_lt
  simpa [chr] using this

theorem map_code_chr (s : Text) : (s.map chr).map code = s := by
  induction s with
  | nil => rfl
  | cons x xs ih => simp [code_chr, ih]

/-! ### pointwise: alphabet -/

theorem charVal_eq_nat : ∀ n, n < 256 → charVal (UInt8.ofNat n) = Model.Base58.digitVal (Char.ofNat n) := by
  decide +kernel

theorem charVal_eq (u : UInt8) : charVal u = Model.Base58.digitVal (chr u) := by
  have := charVal_eq_nat u.toNat u.toNat_lt
  simpa [chr] using this

theorem digitChar_eq : ∀ d, d < 58 → digitChar d = code (Model.Base58.digitChar d) := by decide +kernel

theorem chr_one_nat : ∀ n, n < 256 → (Char.ofNat n = '1' ↔ UInt8.ofNat n = (0x31 : UInt8)) := by decide +kernel

theorem chr_one (u : UInt8) : chr u = '1' ↔ u = 0x31 := by
  have := chr_one_nat u.toNat u.toNat_lt
  simpa [chr] using this

/-! ### decode -/

theorem decodeNat_eq (s : Text) : ∀ a, decodeNat s a = Model.Base58.accumulate a (s.map chr) := by
  induction s with
  | nil => intro a; rfl
  | cons c r ih =>
    intro a
    simp only [decodeNat, List.map_cons, Model.Base58.accumulate, charVal_eq]
    cases Model.Base58.digitVal (chr c) with
    | none => rfl
    | some d => exact ih _

theorem natBytesAux_eq (n : Nat) : natBytesAux n = (Model.Base58.minBytesLE n).reverse := by
  induction n using Nat.strongRecOn with
  | _ n ih =>
    by_cases hn : n = 0
    · subst hn; rw [natBytesAux, Model.Base58.minBytesLE]; simp
    · rw [natBytesAux, Model.Base58.minBytesLE]
      simp only [hn, dite_false, List.reverse_cons]
      rw [ih _ (by omega)]

theorem natBytes_eq (n : Nat) : natBytes n = Model.Base58.hexBytes n := by
  unfold natBytes Model.Base58.hexBytes
  split
  · rfl
  · exact natBytesAux_eq n

theorem leadingOnes_eq (l : Text) : Model.Base58.leadingOnes (l.map chr) = (l.takeWhile (· = 0x31)).length := by
  induction l with
  | nil => rfl
  | cons x xs ih =>
    simp only [List.map_cons, Model.Base58.leadingOnes, List.takeWhile_cons]
    by_cases hx : x = 0x31
    · have h1 := (chr_one x).mpr hx
      subst hx
      simp [h1, ih]
    · have : ¬ chr x = '1' := fun h => hx ((chr_one x).mp h)
      simp [hx, this]

theorem decode_eq (s : Text) : decode s = Model.Base58.decode (s.map chr) := by
  unfold decode Model.Base58.decode
  by_cases hs : s = []
  · subst hs; rfl
  · have : (s.map chr).isEmpty = false := by cases s with | nil => exact absurd rfl hs | cons _ _ => rfl
    simp only [hs, if_false, this, Bool.false_eq_true, decodeNat_eq]
    cases Model.Base58.accumulate 0 (s.map chr) with
    | none => rfl
    | some n =>
      simp only [natBytes_eq]
      rw [← List.map_dropLast, leadingOnes_eq]

/-! ### encode -/

theorem digitsLsd_eq (n : Nat) : digitsLsd n = toLE 58 n := by
  induction n using Nat.strongRecOn with
  | _ n ih =>
    by_cases hn : n = 0
    · subst hn; rw [digitsLsd, toLE_zero]; simp
    · rw [digitsLsd, toLE_pos (by decide) hn]
      simp only [hn, dite_false]
      rw [ih _ (by omega)]

theorem leadingZeros_eq (b : Bytes) : (b.takeWhile (· = 0)).length = Model.Base58.leadingZeros b := by
  induction b with
  | nil => rfl
  | cons x xs ih =>
    simp only [List.takeWhile_cons, Model.Base58.leadingZeros]
    by_cases hx : x = 0
    · simp [hx, ih]
    · simp [hx]

theorem encode_eq (b : Bytes) : encode b = (Model.Base58.encode b).map code := by
  unfold encode Model.Base58.encode
  simp only [List.map_append, List.map_replicate, List.map_reverse, Model.Base58.loopChars_eq, digitsLsd_eq,
    leadingZeros_eq, List.map_map]
  congr 2
  apply List.map_congr_left
  intro d hd
  exact digitChar_eq d ((toLE_canon (B := 58) (by decide) (ofBe b)).1 d hd)

/-! ### the codec law -/

theorem encode_decode (s : Text) (b : Bytes) (h : decode s = some b) : encode b = s := by
  rw [decode_eq] at h
  rw [encode_eq, Model.Base58.encode_decode _ _ h, map_code_chr]

/-- whatever `decode_check` accepts is the `encode_check` of its result -/
theorem decodeCheck_sound (dsha : Bytes → Bytes) (t : Text) (p : Bytes) (h : decodeCheck dsha t = some p) :
    encodeCheck dsha p = t := by
  unfold decodeCheck at h
  cases hd : decode t with
  | none => simp [hd] at h
  | some b =>
    simp only [hd] at h
    split at h
    · rename_i hc
      have := Option.some.inj h
      subst this
      unfold encodeCheck
      rw [← hc, List.take_append_drop]
      exact encode_decode t b hd
    · cases h

/-- the codec law of C10X holds for the real Base58Check text layer (any checksum function) -/
theorem decodeCanonical (env : Env) (dsha : Bytes → Bytes) (henc : env.b58enc = encodeCheck dsha)
    (hdec : env.b58dec = decodeCheck dsha) : DecodeCanonical env := by
  intro t b h
  rw [hdec] at h
  rw [henc]
  exact decodeCheck_sound dsha t b h

end Embit.Keys.B58
