import EmbitModel.Model.View
import EmbitModel.Proofs.PsbtTop
/-
  C05 helper lemmas: offset arithmetic of the streaming view against the encodings it walks over.
-/
set_option linter.unusedSimpArgs false
set_option linter.unusedVariables false
namespace Embit
open Model Spec.Wire

theorem drop_pre (pre x : Bytes) (n : Nat) (h : n = pre.length) : (pre ++ x).drop n = x := by
  subst h; simp

theorem drop_len_add (A B : Bytes) (n k : Nat) (h : n = A.length + k) : (A ++ B).drop n = B.drop k := by
  subst h; simp [List.drop_append]

theorem compactAt_enc (pre rest : Bytes) (v : Nat) (hv : v < 2^64) (pos : Nat) (hp : pos = pre.length) :
    compactAt (pre ++ (Compact.enc v ++ rest)) pos = some (v, pos + (Compact.enc v).length) := by
  simp [compactAt, drop_pre pre _ pos hp, Compact.read_enc v rest hv]

/-- an unsigned well-formed input occupies exactly 41 bytes -/
theorem unsignedIn_len (i : TxIn) (hw : WFIn i) (hs : i.scriptSig = []) : (TxIn.ser i).length = LEN_VIN := by
  simp [TxIn.ser, scriptSer, hs, Compact.enc, hw.txid, LEN_VIN]

theorem flatMap_ser_len (vin : List TxIn) (h : ∀ i ∈ vin, (TxIn.ser i).length = LEN_VIN) :
    (vin.flatMap TxIn.ser).length = LEN_VIN * vin.length := by
  induction vin with
  | nil => simp
  | cons i is ih =>
    have := ih (fun j hj => h j (by simp [hj]))
    simp [List.flatMap_cons, this, h i (by simp), Nat.mul_add]
    omega

theorem flatMap_ser_drop (vin : List TxIn) (h : ∀ i ∈ vin, (TxIn.ser i).length = LEN_VIN) (k : Nat) :
    (vin.flatMap TxIn.ser).drop (LEN_VIN * k) = (vin.drop k).flatMap TxIn.ser := by
  induction vin generalizing k with
  | nil => simp
  | cons i is ih =>
    cases k with
    | zero => simp
    | succ k =>
      have hi := h i (by simp)
      have := ih (fun j hj => h j (by simp [hj])) k
      simp only [List.flatMap_cons, List.drop_succ_cons]
      rw [show LEN_VIN * (k + 1) = (TxIn.ser i).length + LEN_VIN * k by rw [hi]; simp [Nat.mul_add]; omega]
      rw [List.drop_append]
      simp [this]

/-- serialisation of an unsigned transaction has no marker/witness section -/
theorem unsigned_ser (t : Tx) (hu : Unsigned t) :
    Tx.ser t = leN 4 t.version ++ (Compact.enc t.vin.length ++ (t.vin.flatMap TxIn.ser
      ++ (Compact.enc t.vout.length ++ (t.vout.flatMap TxOut.ser ++ leN 4 t.locktime)))) := by
  have hs : Tx.isSegwit t = false := by
    simp only [Tx.isSegwit, List.any_eq_false]
    intro i hi
    rw [TxIn.isSegwit_iff, (hu i hi).2]; simp
  simp [Tx.ser, hs, List.append_assoc]

theorem skipOutputs_spec (pre post : Bytes) : ∀ (outs : List TxOut) (k : Nat) (pos : Nat),
    (∀ o ∈ outs, WFOut o) → k ≤ outs.length → pos = pre.length →
    skipOutputs (pre ++ (outs.flatMap TxOut.ser ++ post)) k pos
      = some (pos + ((outs.take k).flatMap TxOut.ser).length) := by
  intro outs
  induction outs generalizing pre with
  | nil => intro k pos _ hk hp; have : k = 0 := by simpa using hk
           subst this; simp [skipOutputs]
  | cons o os ih =>
    intro k pos hw hk hp
    cases k with
    | zero => simp [skipOutputs]
    | succ k =>
      have hwo := hw o (by simp)
      have e : pre ++ ((o :: os).flatMap TxOut.ser ++ post)
          = (pre ++ leN 8 o.value) ++ (Compact.enc o.spk.length ++ (o.spk ++ (os.flatMap TxOut.ser ++ post))) := by
        simp [TxOut.ser, scriptSer, List.append_assoc]
      have hc := compactAt_enc (pre ++ leN 8 o.value) (o.spk ++ (os.flatMap TxOut.ser ++ post)) o.spk.length
        hwo.script (pos + 8) (by simp [hp])
      have e2 : pre ++ ((o :: os).flatMap TxOut.ser ++ post)
          = (pre ++ TxOut.ser o) ++ (os.flatMap TxOut.ser ++ post) := by
        simp [List.append_assoc]
      simp only [skipOutputs, skipOutputAt]
      rw [e, hc]
      simp only []
      rw [← e, e2]
      have := ih (pre ++ TxOut.ser o) k (pos + 8 + (Compact.enc o.spk.length).length + o.spk.length)
        (fun x hx => hw x (by simp [hx])) (by simpa using hk)
        (by simp [TxOut.ser, scriptSer, hp]; omega)
      rw [this]
      simp [TxOut.ser, scriptSer, List.flatMap_cons]
      omega

end Embit

namespace Embit
open Model Spec.Wire

/-- the layout facts of an unsigned transaction embedded at offset `|pre|` -/
theorem GTx.open_spec (pre post : Bytes) (t : Tx) (hwf : WF t) (hu : Unsigned t) :
    GTx.open (pre ++ (Tx.ser t ++ post)) pre.length
      = some { off := pre.length, numVin := t.vin.length,
               vin0 := pre.length + 4 + (Compact.enc t.vin.length).length,
               numVout := t.vout.length,
               vout0 := pre.length + 4 + (Compact.enc t.vin.length).length + LEN_VIN * t.vin.length
                        + (Compact.enc t.vout.length).length } := by
  have hlen : ∀ i ∈ t.vin, (TxIn.ser i).length = LEN_VIN := fun i hi =>
    unsignedIn_len i (hwf.ins i hi) (hu i hi).1
  rw [unsigned_ser t hu]
  have e1 : pre ++ ((leN 4 t.version ++ (Compact.enc t.vin.length ++ (t.vin.flatMap TxIn.ser
      ++ (Compact.enc t.vout.length ++ (t.vout.flatMap TxOut.ser ++ leN 4 t.locktime))))) ++ post)
      = (pre ++ leN 4 t.version) ++ (Compact.enc t.vin.length ++ (t.vin.flatMap TxIn.ser
      ++ (Compact.enc t.vout.length ++ (t.vout.flatMap TxOut.ser ++ (leN 4 t.locktime ++ post))))) := by
    simp [List.append_assoc]
  have c1 := compactAt_enc (pre ++ leN 4 t.version) (t.vin.flatMap TxIn.ser
      ++ (Compact.enc t.vout.length ++ (t.vout.flatMap TxOut.ser ++ (leN 4 t.locktime ++ post))))
      t.vin.length hwf.ninLt (pre.length + 4) (by simp)
  have e2 : (pre ++ leN 4 t.version) ++ (Compact.enc t.vin.length ++ (t.vin.flatMap TxIn.ser
      ++ (Compact.enc t.vout.length ++ (t.vout.flatMap TxOut.ser ++ (leN 4 t.locktime ++ post)))))
      = (pre ++ leN 4 t.version ++ Compact.enc t.vin.length ++ t.vin.flatMap TxIn.ser)
        ++ (Compact.enc t.vout.length ++ (t.vout.flatMap TxOut.ser ++ (leN 4 t.locktime ++ post))) := by
    simp [List.append_assoc]
  have c2 := compactAt_enc (pre ++ leN 4 t.version ++ Compact.enc t.vin.length ++ t.vin.flatMap TxIn.ser)
      (t.vout.flatMap TxOut.ser ++ (leN 4 t.locktime ++ post)) t.vout.length hwf.noutLt
      (pre.length + 4 + (Compact.enc t.vin.length).length + LEN_VIN * t.vin.length)
      (by simp [flatMap_ser_len t.vin hlen]; omega)
  unfold GTx.open
  rw [e1, c1]
  simp only []
  rw [e2, c2]

theorem GTx.vin_spec (pre post : Bytes) (t : Tx) (hwf : WF t) (hu : Unsigned t) (g : GTx)
    (hg : GTx.open (pre ++ (Tx.ser t ++ post)) pre.length = some g) (i : Nat) :
    GTx.vin (pre ++ (Tx.ser t ++ post)) g i = t.vin[i]? := by
  rw [GTx.open_spec pre post t hwf hu] at hg
  simp at hg; subst hg
  have hlen : ∀ i ∈ t.vin, (TxIn.ser i).length = LEN_VIN := fun i hi =>
    unsignedIn_len i (hwf.ins i hi) (hu i hi).1
  unfold GTx.vin
  simp only []
  by_cases hi : i ≥ t.vin.length
  · simp [hi, List.getElem?_eq_none hi]
  · simp only [hi, if_false]
    have hi' : i < t.vin.length := by omega
    rw [unsigned_ser t hu]
    have e : pre ++ ((leN 4 t.version ++ (Compact.enc t.vin.length ++ (t.vin.flatMap TxIn.ser
        ++ (Compact.enc t.vout.length ++ (t.vout.flatMap TxOut.ser ++ leN 4 t.locktime))))) ++ post)
        = (pre ++ leN 4 t.version ++ Compact.enc t.vin.length) ++ (t.vin.flatMap TxIn.ser
          ++ (Compact.enc t.vout.length ++ (t.vout.flatMap TxOut.ser ++ (leN 4 t.locktime ++ post)))) := by
      simp [List.append_assoc]
    rw [e, drop_len_add (pre ++ leN 4 t.version ++ Compact.enc t.vin.length) _ _ (LEN_VIN * i)
      (by simp; omega)]
    rw [List.drop_append_of_le_length
      (by rw [flatMap_ser_len t.vin hlen]; exact Nat.mul_le_mul_left _ (by omega))]
    rw [flatMap_ser_drop t.vin hlen i]
    have hd : t.vin.drop i = t.vin[i] :: t.vin.drop (i + 1) := by
      rw [List.drop_eq_getElem_cons hi']
    rw [hd, List.flatMap_cons, List.append_assoc]
    have hwi := hwf.ins t.vin[i] (List.getElem_mem hi')
    rw [TxIn.read_ser t.vin[i] _ hwi]
    have hw := (hu t.vin[i] (List.getElem_mem hi')).2
    simp [List.getElem?_eq_getElem hi']
    cases hh : t.vin[i] with
    | mk a b c d e => simp [hh] at hw; simp [hw]

theorem GTx.vout_spec (pre post : Bytes) (t : Tx) (hwf : WF t) (hu : Unsigned t) (g : GTx)
    (hg : GTx.open (pre ++ (Tx.ser t ++ post)) pre.length = some g) (j : Nat) :
    GTx.vout (pre ++ (Tx.ser t ++ post)) g j = t.vout[j]? := by
  rw [GTx.open_spec pre post t hwf hu] at hg
  simp at hg; subst hg
  have hlen : ∀ i ∈ t.vin, (TxIn.ser i).length = LEN_VIN := fun i hi =>
    unsignedIn_len i (hwf.ins i hi) (hu i hi).1
  unfold GTx.vout
  simp only []
  by_cases hj : j ≥ t.vout.length
  · simp [hj, List.getElem?_eq_none hj]
  · simp only [hj, if_false]
    have hj' : j < t.vout.length := by omega
    rw [unsigned_ser t hu]
    have e : pre ++ ((leN 4 t.version ++ (Compact.enc t.vin.length ++ (t.vin.flatMap TxIn.ser
        ++ (Compact.enc t.vout.length ++ (t.vout.flatMap TxOut.ser ++ leN 4 t.locktime))))) ++ post)
        = (pre ++ leN 4 t.version ++ Compact.enc t.vin.length ++ t.vin.flatMap TxIn.ser
            ++ Compact.enc t.vout.length) ++ (t.vout.flatMap TxOut.ser ++ (leN 4 t.locktime ++ post)) := by
      simp [List.append_assoc]
    rw [e]
    have hs := skipOutputs_spec (pre ++ leN 4 t.version ++ Compact.enc t.vin.length ++ t.vin.flatMap TxIn.ser
            ++ Compact.enc t.vout.length) (leN 4 t.locktime ++ post) t.vout j
        (pre.length + 4 + (Compact.enc t.vin.length).length + LEN_VIN * t.vin.length
          + (Compact.enc t.vout.length).length) hwf.outs (by omega) (by simp [flatMap_ser_len t.vin hlen]; omega)
    rw [hs]
    simp only []
    have hsplit : t.vout.flatMap TxOut.ser = (t.vout.take j).flatMap TxOut.ser ++ (t.vout.drop j).flatMap TxOut.ser := by
      rw [← List.flatMap_append, List.take_append_drop]
    have hpos : pre.length + 4 + (Compact.enc t.vin.length).length + LEN_VIN * t.vin.length
          + (Compact.enc t.vout.length).length + ((t.vout.take j).flatMap TxOut.ser).length
        = (pre ++ leN 4 t.version ++ Compact.enc t.vin.length ++ t.vin.flatMap TxIn.ser
            ++ Compact.enc t.vout.length ++ (t.vout.take j).flatMap TxOut.ser).length := by
      simp [flatMap_ser_len t.vin hlen]; omega
    rw [hpos]
    have e3 : (pre ++ leN 4 t.version ++ Compact.enc t.vin.length ++ t.vin.flatMap TxIn.ser
            ++ Compact.enc t.vout.length) ++ (t.vout.flatMap TxOut.ser ++ (leN 4 t.locktime ++ post))
        = (pre ++ leN 4 t.version ++ Compact.enc t.vin.length ++ t.vin.flatMap TxIn.ser
            ++ Compact.enc t.vout.length ++ (t.vout.take j).flatMap TxOut.ser)
          ++ ((t.vout.drop j).flatMap TxOut.ser ++ (leN 4 t.locktime ++ post)) := by
      rw [hsplit]; simp [List.append_assoc]
    rw [e3, List.drop_left]
    have hd : t.vout.drop j = t.vout[j] :: t.vout.drop (j + 1) := by
      rw [List.drop_eq_getElem_cons hj']
    rw [hd, List.flatMap_cons, List.append_assoc]
    rw [TxOut.read_ser t.vout[j] _ (hwf.outs _ (List.getElem_mem hj'))]
    simp [List.getElem?_eq_getElem hj']

theorem GTx.locktime_spec (pre post : Bytes) (t : Tx) (hwf : WF t) (hu : Unsigned t) (g : GTx)
    (hg : GTx.open (pre ++ (Tx.ser t ++ post)) pre.length = some g) :
    GTx.locktime (pre ++ (Tx.ser t ++ post)) g = some t.locktime
    ∧ GTx.version (pre ++ (Tx.ser t ++ post)) g = t.version := by
  rw [GTx.open_spec pre post t hwf hu] at hg
  simp at hg; subst hg
  have hlen : ∀ i ∈ t.vin, (TxIn.ser i).length = LEN_VIN := fun i hi =>
    unsignedIn_len i (hwf.ins i hi) (hu i hi).1
  constructor
  · unfold GTx.locktime
    simp only []
    rw [unsigned_ser t hu]
    have e : pre ++ ((leN 4 t.version ++ (Compact.enc t.vin.length ++ (t.vin.flatMap TxIn.ser
        ++ (Compact.enc t.vout.length ++ (t.vout.flatMap TxOut.ser ++ leN 4 t.locktime))))) ++ post)
        = (pre ++ leN 4 t.version ++ Compact.enc t.vin.length ++ t.vin.flatMap TxIn.ser
            ++ Compact.enc t.vout.length) ++ (t.vout.flatMap TxOut.ser ++ (leN 4 t.locktime ++ post)) := by
      simp [List.append_assoc]
    rw [e]
    have hs := skipOutputs_spec (pre ++ leN 4 t.version ++ Compact.enc t.vin.length ++ t.vin.flatMap TxIn.ser
            ++ Compact.enc t.vout.length) (leN 4 t.locktime ++ post) t.vout t.vout.length
        (pre.length + 4 + (Compact.enc t.vin.length).length + LEN_VIN * t.vin.length
          + (Compact.enc t.vout.length).length) hwf.outs (by omega) (by simp [flatMap_ser_len t.vin hlen]; omega)
    rw [hs]
    simp only [List.take_length]
    have hpos : pre.length + 4 + (Compact.enc t.vin.length).length + LEN_VIN * t.vin.length
          + (Compact.enc t.vout.length).length + (t.vout.flatMap TxOut.ser).length
        = (pre ++ leN 4 t.version ++ Compact.enc t.vin.length ++ t.vin.flatMap TxIn.ser
            ++ Compact.enc t.vout.length ++ t.vout.flatMap TxOut.ser).length := by
      simp [flatMap_ser_len t.vin hlen]; omega
    rw [hpos]
    have e3 : (pre ++ leN 4 t.version ++ Compact.enc t.vin.length ++ t.vin.flatMap TxIn.ser
            ++ Compact.enc t.vout.length) ++ (t.vout.flatMap TxOut.ser ++ (leN 4 t.locktime ++ post))
        = (pre ++ leN 4 t.version ++ Compact.enc t.vin.length ++ t.vin.flatMap TxIn.ser
            ++ Compact.enc t.vout.length ++ t.vout.flatMap TxOut.ser) ++ (leN 4 t.locktime ++ post) := by
      simp [List.append_assoc]
    rw [e3]
    simp only [readAt, List.drop_left]
    have : (leN 4 t.locktime ++ post).take 4 = leN 4 t.locktime := by
      simp [List.take_append]
    rw [this, ofLe_leN 4 _ (by have := hwf.locktime; omega)]
  · unfold GTx.version
    simp only [readAt]
    rw [unsigned_ser t hu]
    simp only [List.append_assoc, List.drop_left]
    have : (leN 4 t.version ++ (Compact.enc t.vin.length ++ (t.vin.flatMap TxIn.ser
        ++ (Compact.enc t.vout.length ++ (t.vout.flatMap TxOut.ser ++ (leN 4 t.locktime ++ post)))))).take 4
        = leN 4 t.version := by
      simp [List.take_append]
    rw [this, ofLe_leN 4 _ (by have := hwf.version; omega)]

end Embit

namespace Embit
open Model

theorem skipStringAt_ser (pre rest s : Bytes) (hs : s.length < 2^64) (pos : Nat) (hp : pos = pre.length) :
    skipStringAt (pre ++ (serString s ++ rest)) pos
      = some ((serString s).length, pos + (serString s).length) := by
  have : pre ++ (serString s ++ rest) = pre ++ (Compact.enc s.length ++ (s ++ rest)) := by
    simp [serString, List.append_assoc]
  rw [skipStringAt, this, compactAt_enc pre (s ++ rest) s.length hs pos hp]
  simp [serString]; omega

theorem stringAt_ser (pre rest s : Bytes) (hs : s.length < 2^64) (pos : Nat) (hp : pos = pre.length) :
    stringAt (pre ++ (serString s ++ rest)) pos = some (s, pos + (serString s).length) := by
  have := readString_ser s rest hs
  simp only [serString, List.append_assoc] at this
  simp only [stringAt, drop_pre pre _ pos hp, serString, List.append_assoc, this]
  simp; omega

/-- `_skip_scope` lands exactly behind the separator of the scope it starts in -/
theorem skipScopeAt_spec (post : Bytes) : ∀ (kvs : List KV) (pre : Bytes) (fuel pos : Nat),
    (∀ kv ∈ kvs, KVWF kv) → pos = pre.length → kvs.length + 1 ≤ fuel →
    skipScopeAt (pre ++ (writeKVs kvs ++ post)) fuel pos = some (pos + (writeKVs kvs).length) := by
  intro kvs
  induction kvs with
  | nil =>
    intro pre fuel pos _ hp hf
    cases fuel with
    | zero => omega
    | succ f =>
      have := skipStringAt_ser pre post [] (by decide) pos hp
      simp [serString, Compact.enc] at this
      simp [skipScopeAt, writeKVs, this]
  | cons kv kvs ih =>
    intro pre fuel pos hw hp hf
    cases fuel with
    | zero => omega
    | succ f =>
      obtain ⟨hne, hk, hv⟩ := hw kv (by simp)
      have e : pre ++ (writeKVs (kv :: kvs) ++ post)
          = pre ++ (serString kv.1 ++ (serString kv.2 ++ (writeKVs kvs ++ post))) := by
        simp [writeKVs, List.append_assoc]
      have e2 : pre ++ (serString kv.1 ++ (serString kv.2 ++ (writeKVs kvs ++ post)))
          = (pre ++ serString kv.1) ++ (serString kv.2 ++ (writeKVs kvs ++ post)) := by simp
      have e3 : (pre ++ serString kv.1) ++ (serString kv.2 ++ (writeKVs kvs ++ post))
          = (pre ++ serString kv.1 ++ serString kv.2) ++ (writeKVs kvs ++ post) := by simp
      have s1 := skipStringAt_ser pre (serString kv.2 ++ (writeKVs kvs ++ post)) kv.1 hk pos hp
      have s2 := skipStringAt_ser (pre ++ serString kv.1) (writeKVs kvs ++ post) kv.2 hv
        (pos + (serString kv.1).length) (by simp [hp])
      have hklen : (serString kv.1).length ≠ 1 := by
        have : 0 < kv.1.length := List.length_pos_iff.mpr hne
        have := Compact.enc_length_pos kv.1.length
        simp [serString]; omega
      have hrec := ih (pre ++ serString kv.1 ++ serString kv.2) f
        (pos + (serString kv.1).length + (serString kv.2).length)
        (fun x hx => hw x (by simp [hx])) (by simp [hp]; omega) (by simp at hf; omega)
      simp only [skipScopeAt]
      rw [e, s1]
      simp only [hklen, if_false]
      rw [e2, s2]
      simp only []
      rw [e3, hrec]
      simp [writeKVs]; omega

/-- value lookup in the scope starting at `pos` returns the value stored under exactly that key -/
theorem valueAt_spec (post key : Bytes) (hkey : key ≠ []) : ∀ (kvs : List KV) (pre : Bytes) (fuel pos : Nat),
    (∀ kv ∈ kvs, KVWF kv) → pos = pre.length → kvs.length + 1 ≤ fuel →
    valueAt (pre ++ (writeKVs kvs ++ post)) key fuel pos = some (lookup key kvs) := by
  intro kvs
  induction kvs with
  | nil =>
    intro pre fuel pos _ hp hf
    cases fuel with
    | zero => omega
    | succ f =>
      have := stringAt_ser pre post [] (by decide) pos hp
      simp [serString, Compact.enc] at this
      simp [valueAt, writeKVs, this, lookup]
  | cons kv kvs ih =>
    intro pre fuel pos hw hp hf
    cases fuel with
    | zero => omega
    | succ f =>
      obtain ⟨hne, hk, hv⟩ := hw kv (by simp)
      obtain ⟨k, v⟩ := kv
      have e : pre ++ (writeKVs ((k, v) :: kvs) ++ post)
          = pre ++ (serString k ++ (serString v ++ (writeKVs kvs ++ post))) := by
        simp [writeKVs, List.append_assoc]
      have e2 : pre ++ (serString k ++ (serString v ++ (writeKVs kvs ++ post)))
          = (pre ++ serString k) ++ (serString v ++ (writeKVs kvs ++ post)) := by simp
      have e3 : (pre ++ serString k) ++ (serString v ++ (writeKVs kvs ++ post))
          = (pre ++ serString k ++ serString v) ++ (writeKVs kvs ++ post) := by simp
      have s1 := stringAt_ser pre (serString v ++ (writeKVs kvs ++ post)) k hk pos hp
      have hke : k.isEmpty = false := by
        cases k with
        | nil => exact absurd rfl hne
        | cons _ _ => rfl
      simp only [valueAt]
      rw [e, s1]
      simp only [hke, Bool.false_eq_true, if_false]
      by_cases hkk : k = key
      · subst hkk
        have s2 := stringAt_ser (pre ++ serString k) (writeKVs kvs ++ post) v hv
          (pos + (serString k).length) (by simp [hp])
        rw [e2, s2]
        simp [lookup]
      · have s2 := skipStringAt_ser (pre ++ serString k) (writeKVs kvs ++ post) v hv
          (pos + (serString k).length) (by simp [hp])
        have hrec := ih (pre ++ serString k ++ serString v) f
          (pos + (serString k).length + (serString v).length)
          (fun x hx => hw x (by simp [hx])) (by simp [hp]; omega) (by simp at hf; omega)
        have hkk' : ¬ key = k := fun e => hkk e.symm
        simp only [hkk, if_false]
        rw [e2, s2]
        simp only []
        rw [e3, hrec]
        simp [lookup, hkk']

end Embit
