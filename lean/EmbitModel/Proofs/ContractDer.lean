import EmbitModel.Proofs.Contract
/-
  libsecp256k1's lenient DER parser vs the strict parser of the pure-python fallback:
  what py accepts, libsecp parses to the same pair; what libsecp parses to a verifiable pair (r, s ≠ 0) is strict DER.
-/
namespace Embit
open Embit.Model Embit.Model.Der Embit.Model.PySecp Embit.Spec.Der
open Embit.Spec.Libsecp (readLen readInt parseDerRS)

variable (E : EcOps)

theorem readLen_short (b1 : UInt8) (rest : Bytes) (h : b1.toNat < 0x80) :
    readLen (b1 :: rest) = some (b1.toNat, rest) := by
  unfold readLen
  have : b1 ≠ 0xFF := by intro hc; subst hc; simp at h
  simp [this, h]

theorem readLen_sound (b : Bytes) (l : Nat) (rest' : Bytes) (h : readLen b = some (l, rest')) (hl : l < 0x80) :
    ∃ b1, b = b1 :: rest' ∧ b1.toNat = l := by
  unfold readLen at h
  cases b with
  | nil => cases h
  | cons b1 rest =>
    simp only [] at h
    split at h
    · cases h
    · split at h
      · simp only [Option.some.injEq, Prod.mk.injEq] at h
        exact ⟨b1, by rw [h.2], h.1⟩
      · split at h
        · cases h
        · split at h
          · cases h
          · split at h
            · cases h
            · split at h
              · cases h
              · split at h
                · cases h
                · split at h
                  · cases h
                  · simp only [Option.some.injEq, Prod.mk.injEq] at h
                    omega

open Embit.Spec.Libsecp (excessivePadding significant isNegative contentValue)

theorem significant_cons (c0 : UInt8) (ctl : Bytes) :
    significant (c0 :: ctl) = if c0 = 0x00 then ctl else c0 :: ctl := rfl

theorem ofBe_significant (c : Bytes) : ofBe (significant c) = ofBe c := by
  cases c with
  | nil => rfl
  | cons c0 ctl =>
    rw [significant_cons]
    split
    · rename_i h; subst h; rw [ofBe_cons]; simp
    · rfl

/-- a strict INTEGER content has no excessive padding, is not negative, and its value survives -/
theorem strict_content (hn : E.n ≤ 2 ^ 256) (x : Bytes) (v : Nat) (hx : IsDerInt x v) (hxl : x.length ≤ 33)
    (hv : v < E.n) : excessivePadding x = false ∧ contentValue E x = v := by
  obtain ⟨hval, hne, hpos, hmin⟩ := hx
  cases x with
  | nil => exact absurd rfl hne
  | cons c0 ctl =>
    have hc0 := hpos c0 (by simp)
    have hFF : ¬ c0 = 0xFF := by intro hc; subst hc; simp at hc0
    constructor
    · cases ctl with
      | nil => rfl
      | cons c1 ctl' =>
        unfold excessivePadding
        by_cases hz : c0 = 0
        · have := hmin c0 c1 (by simp) (by simp) hz
          have h1 : ¬ c1.toNat < 0x80 := by omega
          simp [hz, h1]
        · simp [hz, hFF]
    · unfold contentValue
      rw [ofBe_significant, hval]
      have hneg : isNegative (c0 :: ctl) = false := by simp [isNegative]; omega
      have hlen : ¬ (significant (c0 :: ctl)).length > 32 := by
        rw [significant_cons]
        split
        · simp at hxl; omega
        · rename_i hz
          intro hgt
          have hl33 : ctl.length = 32 := by simp at hxl hgt; omega
          rw [ofBe_cons] at hval
          have hc1 : 1 ≤ c0.toNat := by
            rcases Nat.eq_zero_or_pos c0.toNat with h | h
            · exfalso; apply hz; exact UInt8.toNat_inj.mp (by simpa using h)
            · exact h
          have : 1 * 256 ^ ctl.length ≤ c0.toNat * 256 ^ ctl.length := Nat.mul_le_mul_right _ hc1
          rw [hl33, pow256] at this
          rw [hl33, pow256] at hval
          omega
      have : ¬ (isNegative (c0 :: ctl) = true ∨ (significant (c0 :: ctl)).length > 32 ∨ v ≥ E.n) := by
        rw [hneg]; simp only [Bool.false_eq_true, false_or]; omega
      rw [if_neg this]

/-- conversely: content without excessive padding whose stored value is non-zero is a strict INTEGER content -/
theorem content_strict (c : Bytes) (v : Nat) (hpad : excessivePadding c = false) (hv : contentValue E c = v)
    (hv0 : v ≠ 0) : IsDerInt c v ∧ c.length ≤ 33 ∧ v < E.n := by
  unfold contentValue at hv
  split at hv
  · exact absurd hv.symm hv0
  · rename_i hgood
    have hneg : isNegative c = false := by
      cases h : isNegative c with
      | false => rfl
      | true => exact absurd (Or.inl h) hgood
    have hlen : (significant c).length ≤ 32 := by
      by_contra hh; apply hgood; right; left; omega
    have hlt : v < E.n := by
      by_contra hh; apply hgood; right; right; rw [hv]; omega
    rw [ofBe_significant] at hv
    cases c with
    | nil => simp [ofBe, ofLe] at hv; exact absurd hv.symm hv0
    | cons c0 ctl =>
      have hc0 : c0.toNat < 0x80 := by simp [isNegative] at hneg; omega
      refine ⟨⟨hv, by simp, ?_, ?_⟩, ?_, hlt⟩
      · intro a ha; simp at ha; subst ha; exact hc0
      · intro a b ha hb ha0
        simp at ha; subst ha
        cases ctl with
        | nil => simp at hb
        | cons c1 ctl' =>
          simp at hb; subst hb
          unfold excessivePadding at hpad
          by_contra hlow
          have : c1.toNat < 0x80 := by omega
          simp [ha0, this] at hpad
      · rw [significant_cons] at hlen
        split at hlen
        · simp; omega
        · simp at hlen ⊢; omega

/-- direction A: a strict INTEGER element parses to its value -/
theorem readInt_strict (hn : E.n ≤ 2 ^ 256) (x tail : Bytes) (v : Nat) (hx : IsDerInt x v) (hxl : x.length ≤ 33)
    (hv : v < E.n) : readInt E (0x02 :: UInt8.ofNat x.length :: (x ++ tail)) = some (v, tail) := by
  have hL : (UInt8.ofNat x.length).toNat = x.length := by rw [UInt8.toNat_ofNat']; omega
  have hne : x.length ≠ 0 := by
    have := hx.nonempty; cases x with | nil => exact absurd rfl this | cons _ _ => simp
  obtain ⟨hp, hc⟩ := strict_content E hn x v hx hxl hv
  unfold readInt
  simp only []
  rw [readLen_short _ _ (by rw [hL]; omega)]
  simp only [hL]
  have h1 : ¬ (x.length = 0 ∨ x.length > (x ++ tail).length) := by
    simp only [List.length_append]; omega
  rw [if_neg h1, List.take_left' rfl, List.drop_left' rfl, hp, hc]
  simp

/-- direction B: an INTEGER element whose value is non-zero is strictly encoded and below `n` -/
theorem readInt_sound (b : Bytes) (v : Nat) (rest' : Bytes) (h : readInt E b = some (v, rest')) (hv : v ≠ 0) :
    ∃ x, IsDerInt x v ∧ x.length ≤ 33 ∧ v < E.n ∧ b = 0x02 :: UInt8.ofNat x.length :: (x ++ rest') := by
  unfold readInt at h
  split at h
  · rename_i rest
    split at h
    · cases h
    · rename_i l body hlen
      split at h
      · cases h
      · rename_i hl
        split at h
        · cases h
        · rename_i hpad
          simp only [Option.some.injEq, Prod.mk.injEq] at h
          obtain ⟨hval, hrest⟩ := h
          obtain ⟨hder, hl33, hlt⟩ := content_strict E (body.take l) v (by simpa using hpad) hval hv
          have hclen : (body.take l).length = l := by simp; omega
          obtain ⟨b1, hb1, hb1n⟩ := readLen_sound rest l body hlen (by omega)
          refine ⟨body.take l, hder, hl33, hlt, ?_⟩
          subst hb1n
          rw [hb1, hclen, UInt8.ofNat_toNat, ← hrest, List.take_append_drop]
  · cases h

/-- A: what the strict parser accepts, libsecp parses to the same pair -/
theorem contract_parses_strict (hn : E.n ≤ 2 ^ 256) (r s : Nat) (hr : r < E.n) (hs : s < E.n) :
    parseDerRS E (serRS r s) = some (r, s) := by
  have hxl := derInt_length_le_33 r (by omega)
  have hyl := derInt_length_le_33 s (by omega)
  unfold serRS parseDerRS
  have hL : (UInt8.ofNat (4 + (derInt r).length + (derInt s).length)).toNat
      = 4 + (derInt r).length + (derInt s).length := by rw [UInt8.toNat_ofNat']; omega
  simp only []
  rw [readLen_short _ _ (by rw [hL]; omega)]
  simp only [hL]
  have hlen : ¬ 4 + (derInt r).length + (derInt s).length ≠
      (0x02 :: UInt8.ofNat (derInt r).length :: (derInt r ++ 0x02 :: UInt8.ofNat (derInt s).length :: derInt s)).length := by
    simp; omega
  simp only [hlen, if_false]
  rw [readInt_strict E hn (derInt r) _ r (derInt_isDer r) hxl hr]
  simp only []
  have := readInt_strict E hn (derInt s) [] s (derInt_isDer s) hyl hs
  rw [List.append_nil] at this
  rw [this]
  simp

/-- B: what libsecp parses to a pair with non-zero members is strict DER -/
theorem strict_of_contract (der : Bytes) (r s : Nat) (h : parseDerRS E der = some (r, s)) (hr : r ≠ 0) (hs : s ≠ 0) :
    parseRS der = some (r, s) ∧ r < E.n ∧ s < E.n := by
  unfold parseDerRS at h
  split at h
  · rename_i rest
    split at h
    · cases h
    · rename_i L body hL
      split at h
      · cases h
      · rename_i hLb
        split at h
        · cases h
        · rename_i r' b1 hri
          split at h
          · cases h
          · rename_i s' b2 hsi
            split at h
            · rename_i hemp
              simp only [Option.some.injEq, Prod.mk.injEq] at h
              obtain ⟨rfl, rfl⟩ := h
              have hb2 : b2 = [] := by simpa using hemp
              subst hb2
              obtain ⟨x, hx, hxl, hrn, hbody⟩ := readInt_sound E body r' b1 hri hr
              obtain ⟨y, hy, hyl, hsn, hb1⟩ := readInt_sound E b1 s' [] hsi hs
              rw [List.append_nil] at hb1
              have hLval : L = 4 + x.length + y.length := by
                have : L = body.length := by omega
                rw [this, hbody, hb1]; simp; omega
              obtain ⟨bL, hrest, hbLn⟩ := readLen_sound rest L body hL (by omega)
              refine ⟨?_, hrn, hsn⟩
              have : (0x30 :: rest) = 0x30 :: UInt8.ofNat (4 + x.length + y.length) :: 0x02 :: UInt8.ofNat x.length ::
                  (x ++ 0x02 :: UInt8.ofNat y.length :: y) := by
                rw [hrest, hbody, hb1, ← hLval, ← hbLn, UInt8.ofNat_toNat]
              rw [this]
              exact parseRS_complete x y r' s' hx hy hxl hyl
            · cases h
  · cases h

end Embit
