import EmbitModel.Proofs.PyCurveCount
import Mathlib.GroupTheory.Perm.Cycle.Type
import Mathlib.FieldTheory.Finite.Basic
/-
  Elementary counting on `E : y² = x³ + a x + b` over `𝔽_p` (no Hasse bound):

  * `card_le`          #E(𝔽_p) ≤ 2p + 1 — an injection `Point → Option (𝔽_p × Bool)`: above every `x` there are at
                       most two points (`y₁² = y₂²` gives `y₁ = ± y₂` in a field);
  * `two_torsion_y`    a point of order two is a finite point with `y = 0` (odd characteristic);
  * `card_odd`         hence #E is odd as soon as `x³ + a x + b` has no root (Cauchy's theorem);
  * `cardEq_of_odd`    `n ∣ #E` (Lagrange, `G` of prime order `n`), `#E ≤ 2p + 1 < 3n`, `#E` odd  ⇒  `#E = n`;
  * `not_cube`         for `p ≡ 1 (mod 3)`: `x³ = c`, `c ≠ 0` forces `c^((p−1)/3) = x^(p−1) = 1` (Fermat), so a value
                       of the executable `powMod c ((p−1)/3) p` other than 1 shows that `c` is not a cube.
-/
namespace Embit.Model.PyCurve
open WeierstrassCurve

variable (C : Curve) [Fact C.p.Prime]

/-! ### #E ≤ 2p + 1 -/

/-- the affine equation of the short Weierstrass curve `W C` -/
theorem equation_short (x y : ZMod C.p) :
    (W C).toAffine.Equation x y ↔ y ^ 2 = x ^ 3 + (C.a : ZMod C.p) * x + (C.b : ZMod C.p) := by
  rw [Affine.equation_iff]
  simp only [W, Wab]
  constructor <;> intro h <;> linear_combination h

theorem point_eqn {x y : ZMod C.p} (h : (W C).toAffine.Nonsingular x y) :
    y ^ 2 = x ^ 3 + (C.a : ZMod C.p) * x + (C.b : ZMod C.p) := (equation_short C x y).mp h.left

open Classical in
/-- a chosen root of `y² = x³ + a x + b` above `x` (0 when there is none) -/
noncomputable def rootAbove (x : ZMod C.p) : ZMod C.p :=
  if h : ∃ y : ZMod C.p, y ^ 2 = x ^ 3 + (C.a : ZMod C.p) * x + (C.b : ZMod C.p) then h.choose else 0

theorem rootAbove_sq {x y : ZMod C.p} (h : y ^ 2 = x ^ 3 + (C.a : ZMod C.p) * x + (C.b : ZMod C.p)) :
    rootAbove C x ^ 2 = y ^ 2 := by
  have hex : ∃ y : ZMod C.p, y ^ 2 = x ^ 3 + (C.a : ZMod C.p) * x + (C.b : ZMod C.p) := ⟨y, h⟩
  unfold rootAbove
  rw [dif_pos hex, hex.choose_spec, h]

open Classical in
/-- a point is coded by its `x` and by whether its `y` is the chosen root above `x` -/
noncomputable def code : (W C).toAffine.Point → Option (ZMod C.p × Bool)
  | .zero => none
  | .some x y _ => some (x, decide (y = rootAbove C x))

theorem code_injective : Function.Injective (code C) := by
  intro P Q h
  cases P with
  | zero =>
    cases Q with
    | zero => rfl
    | some x y hq => simp [code] at h
  | some x₁ y₁ h₁ =>
    cases Q with
    | zero => simp [code] at h
    | some x₂ y₂ h₂ =>
      simp only [code, Option.some.injEq, Prod.mk.injEq] at h
      obtain ⟨hx, hb⟩ := h
      subst hx
      have e₁ := rootAbove_sq C (point_eqn C h₁)
      have e₂ := rootAbove_sq C (point_eqn C h₂)
      have hy : y₁ = y₂ := by
        by_cases c₁ : y₁ = rootAbove C x₁
        · have c₂ : y₂ = rootAbove C x₁ := by
            have : decide (y₂ = rootAbove C x₁) = true := by rw [← hb]; exact decide_eq_true c₁
            exact of_decide_eq_true this
          rw [c₁, c₂]
        · have c₂ : ¬ y₂ = rootAbove C x₁ := by
            have : decide (y₂ = rootAbove C x₁) = false := by rw [← hb]; exact decide_eq_false c₁
            exact of_decide_eq_false this
          -- both are the other root: `y = −r`
          have f₁ : (y₁ - rootAbove C x₁) * (y₁ + rootAbove C x₁) = 0 := by linear_combination -e₁
          have f₂ : (y₂ - rootAbove C x₁) * (y₂ + rootAbove C x₁) = 0 := by linear_combination -e₂
          have g₁ : y₁ + rootAbove C x₁ = 0 :=
            (mul_eq_zero.mp f₁).resolve_left (fun h => c₁ (sub_eq_zero.mp h))
          have g₂ : y₂ + rootAbove C x₁ = 0 :=
            (mul_eq_zero.mp f₂).resolve_left (fun h => c₂ (sub_eq_zero.mp h))
          linear_combination g₁ - g₂
      subst hy
      rfl

instance point_finite : Finite (W C).toAffine.Point := Finite.of_injective (code C) (code_injective C)

/-- **#E(𝔽_p) ≤ 2p + 1**: at most two points above every `x`, and the point at infinity -/
theorem card_le : Nat.card (W C).toAffine.Point ≤ 2 * C.p + 1 := by
  have h := Nat.card_le_card_of_injective (code C) (code_injective C)
  have hc : Nat.card (Option (ZMod C.p × Bool)) = 2 * C.p + 1 := by
    rw [Nat.card_eq_fintype_card, Fintype.card_option, Fintype.card_prod, ZMod.card, Fintype.card_bool]
    ring
  rwa [hc] at h

/-! ### points of order two -/

/-- a non-zero point with `2 • P = 0` is `(x, 0)` with `x³ + a x + b = 0` (odd characteristic) -/
theorem two_torsion_y (hs : Smooth C) (P : (W C).toAffine.Point) (h0 : P ≠ 0) (h2 : 2 • P = 0) :
    ∃ x : ZMod C.p, x ^ 3 + (C.a : ZMod C.p) * x + (C.b : ZMod C.p) = 0 := by
  have hneg : P = -P := by
    rw [two_nsmul] at h2
    exact eq_neg_of_add_eq_zero_left h2
  cases P with
  | zero => exact absurd rfl h0
  | some x y h =>
    rw [Affine.Point.neg_some] at hneg
    simp only [Affine.Point.some.injEq, true_and] at hneg
    have hy : y = -y := by
      have : (W C).toAffine.negY x y = -y := by
        simp [Affine.negY, W, Wab]
      rw [this] at hneg; exact hneg
    have h2y : (2 : ZMod C.p) * y = 0 := by linear_combination hy
    have hy0 : y = 0 := (mul_eq_zero.mp h2y).resolve_left (two_ne_zero' C hs)
    refine ⟨x, ?_⟩
    have := point_eqn C h
    rw [hy0] at this
    linear_combination -this

/-- **#E is odd** when `x³ + a x + b` has no root in `𝔽_p`: an even group has an element of order two (Cauchy) -/
theorem card_odd (hs : Smooth C) (hroot : ∀ x : ZMod C.p, x ^ 3 + (C.a : ZMod C.p) * x + (C.b : ZMod C.p) ≠ 0) :
    ¬ 2 ∣ Nat.card (W C).toAffine.Point := by
  intro hd
  have : Fact (Nat.Prime 2) := ⟨Nat.prime_two⟩
  obtain ⟨P, hP⟩ := exists_prime_addOrderOf_dvd_card' (G := (W C).toAffine.Point) 2 hd
  have h2 : 2 • P = 0 := by rw [← hP]; exact addOrderOf_nsmul_eq_zero P
  have h0 : P ≠ 0 := by
    intro h
    rw [h, addOrderOf_zero] at hP
    exact absurd hP (by norm_num)
  obtain ⟨x, hx⟩ := two_torsion_y C hs P h0 h2
  exact hroot x hx

/-! ### Lagrange + the bound + oddness -/

/-- `n ∣ #E ≤ 2p + 1 < 3n` and `#E` odd give `#E = n` -/
theorem cardEq_of_odd {n : ℕ} {g : APt C} (hp : Params C n g) (h3 : 2 * C.p + 1 < 3 * n)
    (hodd : ¬ 2 ∣ Nat.card (W C).toAffine.Point) : CardEq C n := by
  unfold CardEq
  have hd := addOrderOf_dvd_natCard (ι C g)
  rw [addOrderOf_g C hp] at hd
  have hle := card_le C
  obtain ⟨k, hk⟩ := hd
  rw [hk] at hle hodd ⊢
  have hn := hp.n_prime.pos
  have hk3 : k < 3 := by
    by_contra hge
    have : 3 * n ≤ n * k := by rw [Nat.mul_comm]; exact Nat.mul_le_mul_left n (by omega)
    omega
  have hk0 : k ≠ 0 := by
    rintro rfl
    exact hodd (by simp)
  have hk2 : k ≠ 2 := by
    rintro rfl
    exact hodd ⟨n, by ring⟩
  have : k = 1 := by omega
  rw [this, Nat.mul_one]

/-! ### non-cubes -/

/-- for `3 ∣ p − 1`: if `c ≠ 0` is a cube modulo `p` then `c^((p−1)/3) = 1` — contrapositive, through `powMod` -/
theorem not_cube (p : ℕ) [Fact p.Prime] (c : ℤ) (h3 : 3 ∣ p - 1) (hc : (c : ZMod p) ≠ 0)
    (hpow : powMod c ((p - 1) / 3) (p : ℤ) ≠ 1) (x : ZMod p) : x ^ 3 ≠ (c : ZMod p) := by
  intro hx
  apply hpow
  have hp : p.Prime := Fact.out
  have hx0 : x ≠ 0 := by
    rintro rfl
    apply hc
    rw [← hx]; simp
  have h1 : (c : ZMod p) ^ ((p - 1) / 3) = 1 := by
    rw [← hx, ← pow_mul, Nat.mul_div_cancel' h3]
    exact ZMod.pow_card_sub_one_eq_one hx0
  rw [← powMod_cast] at h1
  obtain ⟨r0, r1⟩ := powMod_range p hp.pos c ((p - 1) / 3)
  exact eq_of_cast_eq r0 r1 zero_le_one (by exact_mod_cast hp.one_lt) (by simpa using h1)

end Embit.Model.PyCurve
