import EmbitModel.Proofs.HdInit
import EmbitModel.Spec.Bip32
/-
  HDKey.child against BIP32's CKDpriv / CKDpub; neutering; depth overflow.
-/
namespace Embit.Keys
open Embit Embit.Spec.Bip32

variable {E : EcOps}

theorem serP_eq (P : E.Pt) : serP E P = pubkeySerialize E P true := by
  simp only [serP, pubkeySerialize, if_true, ser256]
  cases h : E.yOdd P
  · have := (yOdd_false P).mp h; simp [this]
  · have := (yOdd_eq P).mp h; simp [this]

theorem hardenedIndex_eq : hardenedIndex = 2 ^ 31 := by decide

theorem normIndex_false (i : Nat) : normIndex i false = i := by simp [normIndex]

theorem sec_priv (pk : PrivateKey) (hc : pk.compressed = true) (hv : seckeyValid E pk.secret = true) :
    pk.sec E = some (serP E (point E pk.secret)) := by
  simp [PrivateKey.sec, PrivateKey.getPublicKey, pubkeyCreate, hv, PublicKey.sec, hc, serP_eq, point]

theorem privInit_beN (L : EcLaws E) (s : Nat) (hs : seckeyValid E s = true) (c : Bool) (net : Nat) :
    PrivateKey.init E (beN 32 s) c net = some ⟨s, c, net⟩ := by
  have := valid_lt E L hs
  simp [PrivateKey.init, ofBe_beN32 _ this, hs]

theorem split_len (I : Bytes) (h : I.length = 64) : (I.take 32).length = 32 ∧ (I.drop 32).length = 32 := by
  simp [h]

/-- the private step is BIP32's `k_i = parse256(I_L) + k_par (mod n)` with its two invalid cases -/
theorem childPriv_eq (L : EcLaws E) (pk : PrivateKey) (hv : seckeyValid E pk.secret = true) (il : Nat) :
    childPriv E pk il =
      if il ≥ E.n ∨ (il + pk.secret) % E.n = 0 then none
      else some ⟨(il + pk.secret) % E.n, true, Generated.privDefaultNet⟩ := by
  unfold childPriv privkeyAdd
  by_cases hlt : il < E.n
  · simp only [hv, hlt, decide_true, Bool.and_self, if_true]
    rw [Nat.add_comm pk.secret]
    by_cases hz : (il + pk.secret) % E.n = 0
    · simp [hz]
    · have hs : seckeyValid E ((il + pk.secret) % E.n) = true := by
        rw [seckeyValid_iff]
        exact ⟨Nat.pos_of_ne_zero hz, Nat.mod_lt _ L.n_pos⟩
      rw [if_neg hz, if_neg (by omega)]
      exact privInit_beN L _ hs true Generated.privDefaultNet
  · simp only [hv, hlt, decide_false, Bool.and_false, Bool.false_eq_true, if_false]
    rw [if_pos (Or.inl (by omega))]

/-- the public step is BIP32's `K_i = point(parse256(I_L)) + K_par` with its two invalid cases -/
theorem childPub_eq (L : EcLaws E) (pb : PublicKey E) (il : Nat) :
    childPub E pb il =
      if il ≥ E.n ∨ E.isInf (E.add (point E il) pb.point) = true then none
      else some ⟨E.add (point E il) pb.point, true⟩ := by
  unfold childPub pubkeyAdd
  rw [L.add_comm pb.point]
  by_cases hlt : il < E.n
  · simp only [hlt, if_true]
    cases hz : E.isInf (E.add (point E il) pb.point)
    · rw [if_neg (by simp), if_neg (by simp; omega)]
    · rw [if_pos (by simp), if_pos (Or.inr rfl)]
  · simp only [hlt, if_false]
    rw [if_pos (Or.inl (by omega))]

/-- CKDpriv returns the right half of the HMAC output as chain code -/
theorem CKDpriv_cc_length (hmac : Bytes → Bytes → Bytes) (hlen : ∀ key msg, (hmac key msg).length = 64)
    (x : XPrv) (i : Nat) (r : XPrv) (h : CKDpriv E hmac x i = some r) : r.c.length = 32 := by
  unfold CKDpriv at h
  have hI : (if i ≥ 2 ^ 31 then hmac x.c (0x00 :: (ser256 x.k ++ ser32 i))
      else hmac x.c (serP E (point E x.k) ++ ser32 i)).length = 64 := by
    split <;> apply hlen
  generalize (if i ≥ 2 ^ 31 then hmac x.c (0x00 :: (ser256 x.k ++ ser32 i))
      else hmac x.c (serP E (point E x.k) ++ ser32 i)) = I at h hI
  simp only at h
  by_cases hc : parse256 (split I).1 ≥ E.n ∨ (parse256 (split I).1 + x.k) % E.n = 0
  · rw [if_pos hc] at h; cases h
  · rw [if_neg hc] at h
    rw [← Option.some.inj h]
    simp [split, hI]

/-- private parent, for every index below 2^32 -/
theorem child_priv (L : EcLaws E) (env : Env) (hlen : ∀ key msg, (env.hmac512 key msg).length = 64)
    (k : HDKey E) (pk : PrivateKey) (hk : k.key = .priv pk) (hc : pk.compressed = true)
    (hv : seckeyValid E pk.secret = true) (i : Nat) (hi : i < 2 ^ 32) :
    k.child env i false =
      (CKDpriv E env.hmac512 ⟨pk.secret, k.chainCode⟩ i).bind fun r =>
        HDKey.init env (.priv ⟨r.k, true, Generated.privDefaultNet⟩) r.c (some k.version) (k.depth + 1)
          (fingerprint E env.hash160 (point E pk.secret)) i := by
  unfold HDKey.child
  rw [if_neg (by omega)]
  simp only [normIndex_false, Bool.false_or, hk, KeyObj.isPrivate, HDKey.sec, KeyObj.sec, sec_priv pk hc hv]
  rw [if_neg (by simp)]
  simp only [childData, hk, KeyObj.serialize, PrivateKey.serialize, childKey, childPriv_eq L pk hv]
  unfold CKDpriv
  have hdata : (if decide (i ≥ hardenedIndex) = true then (0x00:UInt8) :: (beN 32 pk.secret ++ beN 4 i)
      else serP E (point E pk.secret) ++ beN 4 i) =
      (if i ≥ 2 ^ 31 then (0x00:UInt8) :: (ser256 pk.secret ++ ser32 i) else serP E (point E pk.secret) ++ ser32 i) := by
    rw [hardenedIndex_eq]; simp
  rw [hdata]
  have hI : (if i ≥ 2 ^ 31 then env.hmac512 k.chainCode ((0x00:UInt8) :: (ser256 pk.secret ++ ser32 i))
      else env.hmac512 k.chainCode (serP E (point E pk.secret) ++ ser32 i)) =
      env.hmac512 k.chainCode (if i ≥ 2 ^ 31 then (0x00:UInt8) :: (ser256 pk.secret ++ ser32 i)
        else serP E (point E pk.secret) ++ ser32 i) := by
    split <;> rfl
  simp only [hI]
  have hl := hlen k.chainCode (if i ≥ 2 ^ 31 then (0x00:UInt8) :: (ser256 pk.secret ++ ser32 i)
        else serP E (point E pk.secret) ++ ser32 i)
  generalize env.hmac512 k.chainCode (if i ≥ 2 ^ 31 then (0x00:UInt8) :: (ser256 pk.secret ++ ser32 i)
        else serP E (point E pk.secret) ++ ser32 i) = I at hl ⊢
  rw [if_neg (by simp [hl])]
  simp only [fingerprint, parse256, split]
  by_cases hcond : ofBe (List.take 32 I) ≥ E.n ∨ (ofBe (List.take 32 I) + pk.secret) % E.n = 0
  · simp [hcond]
  · simp [hcond]

/-- public parent, for every index below 2^32 (hardened indices are refused, as CKDpub fails) -/
theorem child_pub (L : EcLaws E) (env : Env) (hlen : ∀ key msg, (env.hmac512 key msg).length = 64)
    (k : HDKey E) (pb : PublicKey E) (hk : k.key = .pub pb) (hc : pb.compressed = true)
    (i : Nat) (hi : i < 2 ^ 32) :
    k.child env i false =
      (CKDpub E env.hmac512 ⟨pb.point, k.chainCode⟩ i).bind fun r =>
        HDKey.init env (.pub ⟨r.K, true⟩) r.c (some k.version) (k.depth + 1)
          (fingerprint E env.hash160 pb.point) i := by
  unfold HDKey.child CKDpub
  rw [if_neg (by omega)]
  simp only [normIndex_false, Bool.false_or, hk, KeyObj.isPrivate, HDKey.sec, KeyObj.sec]
  by_cases hh : i ≥ hardenedIndex
  · have h2 : i ≥ 2 ^ 31 := by rw [← hardenedIndex_eq]; exact hh
    rw [if_pos (by simp [hh]), if_pos h2]
    rfl
  · have h2 : ¬ i ≥ 2 ^ 31 := by rw [← hardenedIndex_eq]; exact hh
    rw [if_neg (by simp [hh]), if_neg h2]
    simp only [childData, hh, decide_false, Bool.false_eq_true, if_false, childKey, childPub_eq L pb]
    have hsec : pb.sec = serP E pb.point := by simp [PublicKey.sec, hc, serP_eq]
    simp only [hsec, ser32]
    have hl := hlen k.chainCode (serP E pb.point ++ beN 4 i)
    generalize env.hmac512 k.chainCode (serP E pb.point ++ beN 4 i) = I at hl ⊢
    rw [if_neg (by simp [hl])]
    simp only [fingerprint, parse256, split]
    by_cases hcond : ofBe (List.take 32 I) ≥ E.n ∨ E.isInf (E.add (point E (ofBe (List.take 32 I))) pb.point) = true
    · simp [hcond]
    · simp [hcond]

/-- the `hardened` flag only adds 2^31 to a small index -/
theorem child_hardened_flag (env : Env) (k : HDKey E) (i : Nat) (hi : i < 2 ^ 32) :
    k.child env i true = k.child env (normIndex i true) false := by
  have hH := hardenedIndex_eq
  have hn : normIndex i true ≥ hardenedIndex := by
    unfold normIndex; simp only [true_and]; split <;> omega
  have hn2 : ¬ normIndex i true > 0xFFFFFFFF := by
    unfold normIndex; simp only [true_and]; split <;> omega
  have hi2 : ¬ i > 0xFFFFFFFF := by omega
  unfold HDKey.child
  rw [if_neg hi2, if_neg hn2]
  simp only [normIndex_false, Bool.true_or, Bool.false_or, hn, decide_true]

/-- hardened derivation from a public key is refused -/
theorem child_pub_hardened (env : Env) (k : HDKey E) (hk : k.key.isPrivate = false) (i : Nat) (h : Bool)
    (hh : h = true ∨ i ≥ 2 ^ 31) : k.child env i h = none := by
  unfold HDKey.child
  split
  · rfl
  · rw [if_pos]
    refine ⟨?_, hk⟩
    rcases hh with hh | hh
    · simp [hh]
    · have hH := hardenedIndex_eq
      have : normIndex i h ≥ hardenedIndex := by
        unfold normIndex; split <;> omega
      simp [this]

/-- at depth 255 no child can be constructed: `bytes([256])` raises in the constructor's `to_base58()` -/
theorem child_depth_overflow (env : Env) (k : HDKey E) (hd : 255 ≤ k.depth) (i : Nat) (h : Bool) :
    k.child env i h = none := by
  unfold HDKey.child
  split
  · rfl
  · split
    · rfl
    · split
      · rfl
      · split
        · rfl
        · split
          · rfl
          · exact init_depth_overflow env _ _ _ _ _ _ (by omega)

end Embit.Keys
