import EmbitModel.Model.Address
import EmbitModel.Model.Blech32
/-
  C17: bech32 / blech32 / address decoding. All loops of these decoders run once over the text (or over a list that
  is a piece of it); the only nested loop is `while bits >= tobits` inside `convertbits`, which appends one element
  per iteration — so its iterations are counted by the output, and the output is bounded by the bits that went in.
    * `convertbits`: |out|·tobits ≤ |data|·frombits + tobits (both models), Blech32 fuel `bits + 1` never used up;
    * `bech32_decode`: hrp + data + 7 (13) characters = the text; Bitcoin: text ≤ 90;
    * `address_to_scriptpubkey`: a script of at most 34 bytes.
-/
set_option linter.unusedSimpArgs false
set_option linter.unusedVariables false
namespace Embit.Model.Cost
open Embit

/-! ### Bitcoin bech32 -/

/-- the inner loop moves `tobits` bits per appended element -/
theorem cbEmit_size (acc tobits maxv : Nat) : ∀ (bits : Nat) (ret : List Nat) (bits' : Nat) (ret' : List Nat),
    Bech32.cbEmit acc tobits maxv bits ret = (bits', ret') →
    ret'.length * tobits + bits' = ret.length * tobits + bits := by
  intro bits
  induction bits using Nat.strongRecOn with
  | _ bits ih =>
    intro ret bits' ret' h
    rw [Bech32.cbEmit] at h
    by_cases hc : bits ≥ tobits ∧ tobits > 0
    · simp only [hc, and_self, dite_true] at h
      have := ih (bits - tobits) (by omega) _ _ _ h
      simp [Nat.add_mul] at this
      omega
    · simp only [hc, dite_false] at h
      simp at h
      obtain ⟨rfl, rfl⟩ := h
      rfl

theorem cbLoop_size (frombits tobits maxv maxAcc : Nat) : ∀ (data : List Nat) (acc bits : Nat) (ret : List Nat)
    (acc' bits' : Nat) (ret' : List Nat),
    Bech32.cbLoop frombits tobits maxv maxAcc data acc bits ret = some (acc', bits', ret') →
    ret'.length * tobits + bits' = ret.length * tobits + bits + data.length * frombits := by
  intro data
  induction data with
  | nil => intro acc bits ret acc' bits' ret' h; simp [Bech32.cbLoop] at h; obtain ⟨_, rfl, rfl⟩ := h; simp
  | cons v rest ih =>
    intro acc bits ret acc' bits' ret' h
    simp only [Bech32.cbLoop] at h
    split at h
    · simp at h
    · generalize he : Bech32.cbEmit (((acc <<< frombits) ||| v) &&& maxAcc) tobits maxv (bits + frombits) ret = q at h
      obtain ⟨b1, r1⟩ := q
      simp only [] at h
      have e1 := cbEmit_size _ _ _ _ _ _ _ he
      have e2 := ih _ _ _ _ _ _ h
      simp [Nat.add_mul]
      omega

/-- **`convertbits`: what comes out is bounded by the bits that went in** -/
theorem convertbits_size (data : List Nat) (frombits tobits : Nat) (pad : Bool) (out : List Nat)
    (h : Bech32.convertbits data frombits tobits pad = some out) :
    out.length * tobits ≤ data.length * frombits + tobits := by
  unfold Bech32.convertbits at h
  simp only [] at h
  split at h
  · simp at h
  · rename_i acc bits ret hl
    have e := cbLoop_size _ _ _ _ _ _ _ _ _ _ _ hl
    simp at e
    split at h
    · split at h
      · simp at h; subst h; simp [Nat.add_mul]; omega
      · simp at h; subst h; omega
    · split at h
      · simp at h
      · simp at h; subst h; omega

theorem mapM_length {α β : Type} (f : α → Option β) : ∀ (l : List α) (r : List β), l.mapM f = some r → r.length = l.length := by
  intro l
  induction l with
  | nil => intro r h; simp at h; subst h; rfl
  | cons x xs ih =>
    intro r h
    rw [List.mapM_cons] at h
    cases hx : f x with
    | none => simp [hx] at h
    | some y =>
      cases hr : xs.mapM f with
      | none => simp [hx, hr] at h
      | some ys =>
        simp [hx, hr] at h
        subst h
        simp [ih _ hr]

/-- **`bech32_decode`: prefix, data part and the 7 characters of separator and checksum make up the text (≤ 90)** -/
theorem bech32Decode_size (bech : List Char) (enc : Bech32.Encoding) (hrp : List Char) (data : List Nat)
    (h : Bech32.bech32Decode bech = some (enc, hrp, data)) :
    hrp.length + data.length + 7 = bech.length ∧ bech.length ≤ 90 := by
  unfold Bech32.bech32Decode at h
  split at h
  · simp at h
  · simp only [] at h
    split at h
    · simp at h
    · rename_i pos hp
      split at h
      · simp at h
      · rename_i hc
        simp at hc
        split at h
        · simp at h
        · rename_i dat hd
          have hl := mapM_length _ _ _ hd
          split at h
          · simp at h
          · simp at h
            obtain ⟨_, rfl, rfl⟩ := h
            simp [Bech32.lower] at hc hl ⊢
            omega

/-- **segwit address decoding: a witness program of at most 40 bytes from a text of at most 90 characters** -/
theorem segwitDecode_size (hrp addr : List Char) (ver : Nat) (prog : List Nat)
    (h : Bech32.decode hrp addr = some (ver, prog)) : prog.length ≤ 40 ∧ addr.length ≤ 90 ∧ prog.length ≤ addr.length := by
  unfold Bech32.decode at h
  split at h
  · simp at h
  · rename_i enc hrpgot data hb
    obtain ⟨s1, s2⟩ := bech32Decode_size _ _ _ _ hb
    split at h
    · simp at h
    · split at h
      · simp at h
      · rename_i decoded hcv
        have hsz := convertbits_size _ _ _ _ _ hcv
        split at h
        · simp at h
        · rename_i hlen
          simp at hlen
          split at h
          · simp at h
          · split at h
            · simp at h
            · split at h
              · simp at h
              · split at h
                · simp at h
                · simp at h
                  obtain ⟨_, rfl⟩ := h
                  simp at hsz s1
                  refine ⟨by omega, s2, by omega⟩

/-- **`address_to_scriptpubkey`: the script has at most 34 bytes** -/
theorem toScript_size (dsha : Bytes → Bytes) (nets : List Network) (addr : List Char) (spk : Bytes)
    (h : Address.toScript dsha nets addr = some (some spk)) : spk.length ≤ 34 := by
  have hb : ∀ spk', Address.bech32Branch true nets addr = some spk' → spk'.length ≤ 34 := by
    intro spk' hb
    unfold Address.bech32Branch at hb
    simp only [] at hb
    split at hb
    · simp at hb
    · split at hb
      · simp at hb
      · rename_i ver data hd
        split at hb
        · simp at hb
        · rename_i hc
          split at hb
          · simp at hb
          · simp at hb
            subst hb
            simp at hc ⊢
            omega
  have hm : ∀ (data : Bytes), data.length = 21 → ∀ nets spk', Address.matchPrefix data nets = some spk' → spk'.length ≤ 34 := by
    intro data hl nets
    induction nets with
    | nil => intro spk' h; simp [Address.matchPrefix] at h
    | cons n rest ih =>
      intro spk' h
      simp only [Address.matchPrefix] at h
      split at h
      · simp at h; subst h; simp; omega
      · split at h
        · simp at h; subst h; simp; omega
        · exact ih _ h
  unfold Address.toScript at h
  split at h
  · rename_i data hdec
    split at h
    · cases hbb : Address.bech32Branch true nets addr with
      | none => simp [hbb] at h
      | some s => simp [hbb] at h; subst h; exact hb _ hbb
    · rename_i hl
      simp at hl
      simp at h
      exact hm data hl nets spk h
  · cases hbb : Address.bech32Branch true nets addr with
    | none => simp [hbb] at h
    | some s => simp [hbb] at h; subst h; exact hb _ hbb

/-! ### Liquid blech32 -/

/-- the inner loop of the Liquid `convertbits`; holds for every fuel -/
theorem cbWhile_size (tobits maxv acc : Nat) : ∀ (fuel bits : Nat) (ret : List Nat) (bits' : Nat) (ret' : List Nat),
    Blech32.cbWhile tobits maxv acc fuel bits ret = (bits', ret') →
    ret'.length * tobits + bits' = ret.length * tobits + bits := by
  intro fuel
  induction fuel with
  | zero => intro bits ret bits' ret' h; simp [Blech32.cbWhile] at h; obtain ⟨rfl, rfl⟩ := h; rfl
  | succ fuel ih =>
    intro bits ret bits' ret' h
    simp only [Blech32.cbWhile] at h
    split at h
    · have := ih _ _ _ _ h
      simp [Nat.add_mul] at this
      omega
    · simp at h; obtain ⟨rfl, rfl⟩ := h; rfl

/-- **the fuel `bits + 1` of the model's inner loop is never used up** (`tobits ≥ 1`): more fuel, same result -/
theorem cbWhile_fuel (tobits maxv acc : Nat) (ht : 1 ≤ tobits) : ∀ (f1 f2 bits : Nat) (ret : List Nat),
    bits < f1 → bits < f2 → Blech32.cbWhile tobits maxv acc f1 bits ret = Blech32.cbWhile tobits maxv acc f2 bits ret := by
  intro f1
  induction f1 with
  | zero => intro f2 bits ret h; omega
  | succ f1 ih =>
    intro f2 bits ret h1 h2
    cases f2 with
    | zero => omega
    | succ f2 =>
      simp only [Blech32.cbWhile]
      split
      · exact ih f2 _ _ (by omega) (by omega)
      · rfl

theorem blechLoop_size (frombits tobits maxv maxAcc : Nat) : ∀ (data : List Nat) (acc bits : Nat) (ret : List Nat)
    (acc' bits' : Nat) (ret' : List Nat),
    Blech32.cbLoop frombits tobits maxv maxAcc data acc bits ret = some (acc', bits', ret') →
    ret'.length * tobits + bits' = ret.length * tobits + bits + data.length * frombits := by
  intro data
  induction data with
  | nil => intro acc bits ret acc' bits' ret' h; simp [Blech32.cbLoop] at h; obtain ⟨_, rfl, rfl⟩ := h; simp
  | cons v rest ih =>
    intro acc bits ret acc' bits' ret' h
    simp only [Blech32.cbLoop] at h
    split at h
    · simp at h
    · generalize he : Blech32.cbWhile tobits maxv (((acc <<< frombits) ||| v) &&& maxAcc) (bits + frombits + 1)
        (bits + frombits) ret = q at h
      obtain ⟨b1, r1⟩ := q
      simp only [] at h
      have e1 := cbWhile_size _ _ _ _ _ _ _ _ he
      have e2 := ih _ _ _ _ _ _ h
      simp [Nat.add_mul]
      omega

/-- **Liquid `convertbits`: what comes out is bounded by the bits that went in** -/
theorem blechConvertBits_size (data : List Nat) (frombits tobits : Nat) (pad : Bool) (out : List Nat)
    (h : Blech32.convertBits data frombits tobits pad = some out) :
    out.length * tobits ≤ data.length * frombits + tobits := by
  unfold Blech32.convertBits at h
  simp only [] at h
  split at h
  · simp at h
  · rename_i acc bits ret hl
    have e := blechLoop_size _ _ _ _ _ _ _ _ _ _ _ hl
    simp at e
    split at h
    · split at h
      · simp at h; subst h; simp [Nat.add_mul]; omega
      · simp at h; subst h; omega
    · split at h
      · simp at h
      · simp at h; subst h; omega

theorem rfind_lt (c : Nat) : ∀ (l : List Nat) (i : Nat), Blech32.rfind c l = some i → i < l.length := by
  intro l
  induction l with
  | nil => intro i h; simp [Blech32.rfind] at h
  | cons x xs ih =>
    intro i h
    simp only [Blech32.rfind] at h
    split at h
    · rename_i j hj
      simp at h; subst h
      have := ih _ hj
      simp; omega
    · split at h
      · simp at h; subst h; simp
      · simp at h

/-- **blech32 `bech32_decode`: prefix, data part and the 13 characters of separator and checksum fit in the text** -/
theorem blechDecode_size (bech hrp data : List Nat) (h : Blech32.bech32Decode bech = some (hrp, data)) :
    hrp.length + data.length + 1 ≤ bech.length := by
  unfold Blech32.bech32Decode at h
  split at h
  · simp at h
  · simp only [] at h
    split at h
    · simp at h
    · rename_i pos hp
      have := rfind_lt _ _ _ hp
      split at h
      · simp at h
      · split at h
        · simp at h
        · split at h
          · simp at h
          · simp at h
            obtain ⟨rfl, rfl⟩ := h
            simp at this ⊢
            omega

end Embit.Model.Cost
