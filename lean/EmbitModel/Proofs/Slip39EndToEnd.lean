import EmbitModel.Proofs.Slip39Recover
import EmbitModel.Proofs.Slip39Feistel
import EmbitModel.Proofs.Slip39Text
import EmbitModel.Proofs.Slip39Logic
/-
  The whole pipeline: `generate_shares` (encrypt, split, print) followed by `recover_mnemonic` (parse, check,
  group, interpolate, digest, decrypt) on ANY set of at least k of the n produced mnemonics gives back the
  secret; the n mnemonics are pairwise distinct.
-/
namespace Embit.Model.Slip39

theorem beN_ofBe (b : Bytes) : beN b.length (ofBe b) = b := by
  unfold beN ofBe
  have := leN_ofLe b.reverse
  rw [List.length_reverse] at this
  rw [this, List.reverse_reverse]

/-- the share `generate_shares` builds from one entry of the split data -/
def shareOf (numBits id e k n : Nat) (d : Nat × Bytes) : Share :=
  { shareBitLength := numBits, id := id, exponent := e, groupIndex := d.1, groupThreshold := k, groupCount := n,
    memberIndex := 0, memberThreshold := 1, value := ofBe d.2 }

/-- shape of `split_secret`'s output for every k ≥ 1 -/
theorem splitSecret_shape (P : Prims) (hH : ∀ key msg, 4 ≤ (P.hmac key msg).length) (secret : Bytes) (k n : Nat)
    (tape : List Nat) (data : List (Nat × Bytes)) (hs : splitSecret P secret k n tape = some data) :
    data.map (·.1) = List.range n ∧ 1 ≤ k ∧ k ≤ n ∧ n ≤ 16 ∧ (secret.length = 16 ∨ secret.length = 32) ∧
    (∀ d ∈ data, d.2.length = secret.length) ∧ (k = 1 → ∀ d ∈ data, d.2 = secret) := by
  by_cases hk : 2 ≤ k
  · obtain ⟨r, B, _, _, _, _, _, hx, hkn, hn, hsz, hshare⟩ := splitSecret_onpoly P hH secret k n tape data hs hk
    exact ⟨hx, by omega, hkn, hn, hsz, fun d hd => (hshare d hd).1, fun h => by omega⟩
  · unfold splitSecret at hs
    split at hs; · simp at hs
    split at hs; · simp at hs
    split at hs; · simp at hs
    split at hs; · simp at hs
    simp only at hs
    split at hs; · simp at hs
    have hk1 : k = 1 := by omega
    rw [if_pos hk1] at hs
    simp only [Option.some.injEq] at hs
    subst hs
    refine ⟨by simp [List.map_map, Function.comp_def], by omega, by omega, by omega, by omega, ?_, ?_⟩
    · intro d hd; obtain ⟨i, _, rfl⟩ := List.mem_map.mp hd; rfl
    · intro _ d hd; obtain ⟨i, _, rfl⟩ := List.mem_map.mp hd; rfl

theorem mapM_some_map {α β : Type} (f : α → Option β) (g : α → β) (l : List α) (h : ∀ a ∈ l, f a = some (g a)) :
    l.mapM f = some (l.map g) := by
  induction l with
  | nil => rfl
  | cons a l ih =>
    rw [List.mapM_cons, h a List.mem_cons_self, ih (fun a' h' => h a' (List.mem_cons_of_mem _ h'))]
    rfl

theorem mapM_cons_some {α β : Type} (f : α → Option β) (a : α) (l : List α) (r : List β)
    (h : (a :: l).mapM f = some r) : ∃ b r', f a = some b ∧ l.mapM f = some r' ∧ r = b :: r' := by
  rw [List.mapM_cons] at h
  cases ha : f a with
  | none => simp [ha] at h
  | some b =>
    cases hl : l.mapM f with
    | none => simp [ha, hl] at h
    | some r' =>
      simp [ha, hl] at h
      exact ⟨b, r', rfl, rfl, h.symm⟩

theorem mapM_new_mnemonic (sh : Nat × Bytes → Share) (l : List (Nat × Bytes)) (r : List (List Nat))
    (h : l.mapM (fun d => (Share.new? (sh d)).map Share.mnemonic) = some r) :
    r = l.map (fun d => (sh d).mnemonic) ∧ ∀ d ∈ l, (sh d).initOk = true := by
  induction l generalizing r with
  | nil => simp at h; subst h; simp
  | cons a l ih =>
    obtain ⟨b, r', hb, hl, rfl⟩ := mapM_cons_some _ a l r h
    obtain ⟨e, hi⟩ := ih r' hl
    simp only [Share.new?] at hb
    by_cases ha : (sh a).initOk = true
    · simp only [ha, if_true, Option.map_some, Option.some.injEq] at hb
      subst hb
      exact ⟨by rw [e]; rfl, by
        intro d hd
        rcases List.mem_cons.mp hd with h | h
        · rw [h]; exact ha
        · exact hi d h⟩
    · simp [ha] at hb

theorem mapM_map_some {α β γ : Type} (f : β → Option γ) (g : α → β) (h : α → γ) (l : List α)
    (hh : ∀ a ∈ l, f (g a) = some (h a)) : (l.map g).mapM f = some (l.map h) := by
  induction l with
  | nil => rfl
  | cons a l ih =>
    rw [List.map_cons, List.mapM_cons, hh a List.mem_cons_self, ih (fun a' h' => hh a' (List.mem_cons_of_mem _ h'))]
    rfl

theorem preimage_list {α β : Type} (f : α → β) (data : List α) (sub : List β) (h : ∀ m ∈ sub, m ∈ data.map f) :
    ∃ T : List α, (∀ t ∈ T, t ∈ data) ∧ sub = T.map f := by
  induction sub with
  | nil => exact ⟨[], by simp, rfl⟩
  | cons m sub ih =>
    obtain ⟨T, hT, e⟩ := ih (fun m' h' => h m' (List.mem_cons_of_mem _ h'))
    obtain ⟨d, hd, rfl⟩ := List.mem_map.mp (h m List.mem_cons_self)
    exact ⟨d :: T, by
      intro t ht
      rcases List.mem_cons.mp ht with h | h
      · rw [h]; exact hd
      · exact hT t h, by rw [e]; rfl⟩

/-- what `generate_shares` returns -/
theorem generateShares_structure (P : Prims) (secret : Bytes) (k n : Nat) (pass : Bytes) (e : Nat) (tape : List Nat)
    (ms : List (List Nat)) (h : generateShares P secret k n pass e tape = some ms) :
    ∃ id tape1 enc data,
      tape = id :: tape1 ∧ (secret.length = 16 ∨ secret.length = 32) ∧ encrypt P secret id e pass = some enc ∧
      splitSecret P enc k n tape1 = some data ∧
      ms = data.map (fun d => (shareOf (secret.length * 8) id e k n d).mnemonic) ∧
      ∀ d ∈ data, (shareOf (secret.length * 8) id e k n d).initOk = true := by
  unfold generateShares at h
  simp only at h
  split at h; · simp at h
  rename_i hbits
  split at h; · simp at h
  rename_i id tape1
  split at h; · simp at h
  rename_i enc henc
  split at h; · simp at h
  rename_i data hdata
  obtain ⟨e1, e2⟩ := mapM_new_mnemonic (shareOf (secret.length * 8) id e k n) data ms h
  exact ⟨id, tape1, enc, data, rfl, by omega, henc, hdata, e1, e2⟩

theorem filter_fst_le_one (T : List (Nat × Bytes)) (hnd : (T.map (·.1)).Nodup) (i : Nat) :
    T.filter (fun t => t.1 == i) = [] ∨ ∃ t, t ∈ T ∧ t.1 = i ∧ T.filter (fun t => t.1 == i) = [t] := by
  induction T with
  | nil => left; rfl
  | cons t T ih =>
    simp only [List.map_cons, List.nodup_cons] at hnd
    by_cases e : t.1 = i
    · right
      refine ⟨t, List.mem_cons_self, e, ?_⟩
      have : T.filter (fun t => t.1 == i) = [] := by
        rw [List.filter_eq_nil_iff]
        intro a ha hai
        simp only [beq_iff_eq] at hai
        exact hnd.1 (List.mem_map.mpr ⟨a, ha, by rw [hai, e]⟩)
      simp [e, this]
    · have h1 : (t.1 == i) = false := by simpa using e
      rw [List.filter_cons, h1]
      simp only [Bool.false_eq_true, if_false]
      rcases ih hnd.2 with h | ⟨t', ht', hi, hf⟩
      · left; exact h
      · right; exact ⟨t', List.mem_cons_of_mem _ ht', hi, hf⟩

theorem gather_simple (P : Prims) (gs : List (Nat × List Share))
    (h : ∀ g ∈ gs, g.2 = [] ∨ ∃ s, g.2 = [s] ∧ s.memberThreshold = 1) :
    gatherGroups P gs = some (gs.filterMap fun g => g.2.head?.map fun s => (g.1, s.bytes)) := by
  induction gs with
  | nil => rfl
  | cons g gs ih =>
    obtain ⟨i, grp⟩ := g
    have ih' := ih (fun g' h' => h g' (List.mem_cons_of_mem _ h'))
    rcases h (i, grp) List.mem_cons_self with e | ⟨s, e, hs⟩
    · simp only at e; subst e
      simp only [gatherGroups, recoverGroup, ih', List.filterMap_cons, List.head?_nil, Option.map_none]
    · simp only at e; subst e
      simp only [gatherGroups, recoverGroup, ih', List.filterMap_cons, List.head?_cons, Option.map_some,
        List.all_cons, List.all_nil, beq_self_eq_true, Bool.and_self, Bool.not_true, Bool.false_eq_true, if_false,
        hs, if_true]

theorem filterMap_fst_sublist (l : List Nat) (f : Nat → Option (Nat × Bytes)) (h : ∀ i x, f i = some x → x.1 = i) :
    ((l.filterMap f).map (·.1)).Sublist l := by
  induction l with
  | nil => simp
  | cons a l ih =>
    rw [List.filterMap_cons]
    cases ha : f a with
    | none => simp only; exact ih.cons _
    | some x =>
      simp only [List.map_cons]
      rw [h a x ha]
      exact ih.cons_cons _

theorem decrypt_encrypt (P : Prims) (hF : ∀ pw s it n, (P.pbkdf2 pw s it n).length = n) (x : Bytes) (id e : Nat)
    (pass : Bytes) (hx : x.length % 2 = 0) (hne : x ≠ []) (hid : id < 65536) (y : Bytes)
    (hy : encrypt P x id e pass = some y) : y.length = x.length ∧ decrypt P y id e pass = some x := by
  obtain ⟨y', h1, h2, h3⟩ := crypt_reverse P hF pass x id e [0, 1, 2, 3] hx hne hid
  unfold encrypt at hy
  rw [h1] at hy
  simp only [Option.some.injEq] at hy
  subst hy
  exact ⟨h2, h3⟩

/-- **generate, then recover from any k or more of the n mnemonics** -/
theorem generate_recover (P : Prims) (hF : ∀ pw s it n, (P.pbkdf2 pw s it n).length = n)
    (hH : ∀ key msg, 4 ≤ (P.hmac key msg).length)
    (secret : Bytes) (k n : Nat) (pass : Bytes) (e : Nat) (tape : List Nat) (ms : List (List Nat))
    (hgen : generateShares P secret k n pass e tape = some ms)
    (hid : ∀ id rest, tape = id :: rest → id < 2 ^ 15) (he : e < 32)
    (sub : List (List Nat)) (hsub : ∀ m ∈ sub, m ∈ ms) (hnd : sub.Nodup) (hk : k ≤ sub.length) :
    recoverShares P sub pass = some secret := by
  obtain ⟨id, tape1, enc, data, rfl, hsz, henc, hdata, rfl, hinit⟩ :=
    generateShares_structure P secret k n pass e _ ms hgen
  have hid' : id < 2 ^ 15 := hid id tape1 rfl
  have hsne : secret ≠ [] := by intro h; rw [h] at hsz; simp at hsz
  obtain ⟨henclen, hdec⟩ := decrypt_encrypt P hF secret id e pass (by omega) hsne (by omega) enc henc
  obtain ⟨hx, hk1, hkn, hn, _, hlen, hone⟩ := splitSecret_shape P hH enc k n tape1 data hdata
  -- the chosen mnemonics come from a list T of split entries
  obtain ⟨T, hT, rfl⟩ := preimage_list _ data sub hsub
  have hTnd : T.Nodup := List.Nodup.of_map _ hnd
  have hinj : ∀ a ∈ data, ∀ b ∈ data, a.1 = b.1 → a = b := by
    have : (data.map (·.1)).Nodup := by rw [hx]; exact List.nodup_range
    exact List.inj_on_of_nodup_map this
  have hTx : (T.map (·.1)).Nodup :=
    List.Nodup.map_on (fun a ha b hb h => hinj a (hT a ha) b (hT b hb) h) hTnd
  have hlt : ∀ t ∈ T, t.1 < n := by
    intro t ht
    have : t.1 ∈ data.map (·.1) := List.mem_map_of_mem (hT t ht)
    rwa [hx, List.mem_range] at this
  -- parsing gives back the shares
  have hparse : ∀ t ∈ T, Share.parse ((shareOf (secret.length * 8) id e k n t).mnemonic) =
      some (shareOf (secret.length * 8) id e k n t) := by
    intro t ht
    apply share_text_roundtrip
    exact ⟨hinit t (hT t ht), hid', he, by simp only [shareOf]; omega, by simp only [shareOf]; omega⟩
  have hmapM := mapM_map_some Share.parse (fun d => (shareOf (secret.length * 8) id e k n d).mnemonic)
    (shareOf (secret.length * 8) id e k n) T hparse
  unfold recoverShares
  rw [List.length_map] at hk
  rw [hmapM]
  simp only
  -- the share set is accepted
  have hTne : T ≠ [] := by intro h; rw [h] at hk; simp at hk; omega
  have hnew : ShareSet.new? (T.map (shareOf (secret.length * 8) id e k n)) =
      some { shares := T.map (shareOf (secret.length * 8) id e k n), id := id, exponent := e, groupThreshold := k,
             groupCount := n, shareBitLength := secret.length * 8 } := by
    cases T with
    | nil => exact absurd rfl hTne
    | cons t0 T' =>
      unfold ShareSet.new?
      simp only [List.map_cons]
      have hc : consistent (shareOf (secret.length * 8) id e k n t0)
          (shareOf (secret.length * 8) id e k n t0 :: T'.map (shareOf (secret.length * 8) id e k n)) = true := by
        simp only [consistent, shareOf, List.all_cons, List.all_map, Function.comp_def, beq_self_eq_true, Bool.true_and,
          List.all_eq_true, Bool.and_eq_true, Bool.not_eq_true', implies_true,
          true_and, and_true]
        refine ⟨by simp; exact hkn, ?_⟩
        have : (List.map (fun s : Share => (s.groupIndex, s.memberIndex))
            (shareOf (secret.length * 8) id e k n t0 :: T'.map (shareOf (secret.length * 8) id e k n))) =
            ((t0 :: T').map (·.1)).map (fun i => (i, 0)) := by
          simp [shareOf, List.map_map, Function.comp_def]
        simp only [shareOf] at this
        rw [this, nodupB_iff]
        exact List.Nodup.map (fun a b h => by simpa using h) hTx
      rw [hc]
      simp [shareOf]
  rw [hnew]
  simp only
  -- recover
  unfold ShareSet.recover
  simp only
  have hany : (List.any (T.map (shareOf (secret.length * 8) id e k n)) fun s => decide (s.groupIndex ≥ n)) = false := by
    rw [List.any_eq_false]
    intro s hs
    obtain ⟨t, ht, rfl⟩ := List.mem_map.mp hs
    simp only [shareOf, ge_iff_le, decide_eq_true_eq, Nat.not_le]
    exact hlt t ht
  rw [hany]
  simp only [Bool.false_eq_true, if_false]
  have hgroups : ∀ g ∈ (List.range n).map (fun i => (i, (T.map (shareOf (secret.length * 8) id e k n)).filter
      fun s => s.groupIndex == i)), g.2 = [] ∨ ∃ s, g.2 = [s] ∧ s.memberThreshold = 1 := by
    intro g hg
    obtain ⟨i, _, rfl⟩ := List.mem_map.mp hg
    simp only [List.filter_map]
    rcases filter_fst_le_one T hTx i with h | ⟨t, _, _, h⟩
    · left
      have : (T.filter ((fun s : Share => s.groupIndex == i) ∘ shareOf (secret.length * 8) id e k n)) =
          T.filter (fun t => t.1 == i) := rfl
      rw [this, h]; rfl
    · right
      have : (T.filter ((fun s : Share => s.groupIndex == i) ∘ shareOf (secret.length * 8) id e k n)) =
          T.filter (fun t => t.1 == i) := rfl
      rw [this, h]
      exact ⟨_, rfl, rfl⟩
  rw [gather_simple P _ hgroups, List.filterMap_map]
  simp only
  -- the gathered share data
  generalize hsd : List.filterMap ((fun g : Nat × List Share => g.2.head?.map fun s => (g.1, s.bytes)) ∘ fun i =>
    (i, (T.map (shareOf (secret.length * 8) id e k n)).filter fun s => s.groupIndex == i)) (List.range n) = sd
  have hf : ∀ i x, ((fun g : Nat × List Share => g.2.head?.map fun s => (g.1, s.bytes)) ∘ fun i =>
      (i, (T.map (shareOf (secret.length * 8) id e k n)).filter fun s => s.groupIndex == i)) i = some x →
      x ∈ T ∧ x.1 = i := by
    intro i x hx'
    simp only [Function.comp, List.filter_map] at hx'
    have e1 : (T.filter ((fun s : Share => s.groupIndex == i) ∘ shareOf (secret.length * 8) id e k n)) =
        T.filter (fun t => t.1 == i) := rfl
    rw [e1] at hx'
    rcases filter_fst_le_one T hTx i with h | ⟨t, ht, hti, h⟩
    · rw [h] at hx'; simp at hx'
    · rw [h] at hx'
      simp only [List.map_cons, List.map_nil, List.head?_cons, Option.map_some, Option.some.injEq] at hx'
      have hb : (shareOf (secret.length * 8) id e k n t).bytes = t.2 := by
        simp only [Share.bytes, shareOf]
        have : secret.length * 8 / 8 = t.2.length := by rw [hlen t (hT t ht), henclen]; omega
        rw [this, beN_ofBe]
      rw [hb] at hx'
      rw [← hx', ← hti]
      exact ⟨ht, rfl⟩
  have hsdT : ∀ x ∈ sd, x ∈ T := by
    intro x hx'
    rw [← hsd, List.mem_filterMap] at hx'
    obtain ⟨i, _, hi⟩ := hx'
    exact (hf i x hi).1
  have hsdnd : (sd.map (·.1)).Nodup := by
    rw [← hsd]
    exact List.Nodup.sublist (filterMap_fst_sublist _ _ (fun i x h => (hf i x h).2)) List.nodup_range
  have hTsd : ∀ t ∈ T, t ∈ sd := by
    intro t ht
    rw [← hsd, List.mem_filterMap]
    refine ⟨t.1, List.mem_range.mpr (hlt t ht), ?_⟩
    simp only [Function.comp, List.filter_map]
    have e1 : (T.filter ((fun s : Share => s.groupIndex == t.1) ∘ shareOf (secret.length * 8) id e k n)) =
        T.filter (fun t' => t'.1 == t.1) := rfl
    rw [e1]
    rcases filter_fst_le_one T hTx t.1 with h | ⟨t', ht', hti, h⟩
    · have : t ∈ T.filter (fun t' => t'.1 == t.1) := by simp [List.mem_filter, ht]
      rw [h] at this; simp at this
    · have : t' = t := hinj t' (hT t' ht') t (hT t ht) hti
      subst this
      rw [h]
      simp only [List.map_cons, List.map_nil, List.head?_cons, Option.map_some, Option.some.injEq]
      have hb : (shareOf (secret.length * 8) id e k n t').bytes = t'.2 := by
        simp only [Share.bytes, shareOf]
        have : secret.length * 8 / 8 = t'.2.length := by rw [hlen t' (hT t' ht), henclen]; omega
        rw [this, beN_ofBe]
      rw [hb]
  have hsdlen : k ≤ sd.length :=
    Nat.le_trans hk (List.subperm_of_subset hTnd hTsd).length_le
  by_cases hk1' : k = 1
  · rw [if_pos hk1']
    cases sd with
    | nil => simp at hsdlen; omega
    | cons d sd' =>
      simp only
      have : d.2 = enc := hone hk1' d (hT d (hsdT d List.mem_cons_self))
      rw [this]
      exact hdec
  · rw [if_neg hk1', if_neg (by omega)]
    have := recoverSecret_of_split P hH enc k n tape1 data hdata (by omega) sd
      (fun t ht => hT t (hsdT t ht)) hsdnd hsdlen
    rw [this]
    exact hdec

/-- `generate_shares` yields exactly n pairwise distinct mnemonics (for every 1 ≤ k ≤ n ≤ 16) -/
theorem generate_distinct (P : Prims) (hH : ∀ key msg, 4 ≤ (P.hmac key msg).length)
    (secret : Bytes) (k n : Nat) (pass : Bytes) (e : Nat) (tape : List Nat) (ms : List (List Nat))
    (hgen : generateShares P secret k n pass e tape = some ms)
    (hid : ∀ id rest, tape = id :: rest → id < 2 ^ 15) (he : e < 32) :
    ms.length = n ∧ ms.Nodup := by
  obtain ⟨id, tape1, enc, data, rfl, hsz, henc, hdata, rfl, hinit⟩ :=
    generateShares_structure P secret k n pass e _ ms hgen
  have hid' : id < 2 ^ 15 := hid id tape1 rfl
  obtain ⟨hx, hk1, hkn, hn, _, hlen, hone⟩ := splitSecret_shape P hH enc k n tape1 data hdata
  have hxnd : (data.map (·.1)).Nodup := by rw [hx]; exact List.nodup_range
  have hinj : ∀ a ∈ data, ∀ b ∈ data, a.1 = b.1 → a = b := List.inj_on_of_nodup_map hxnd
  refine ⟨by rw [List.length_map, ← List.length_map (f := (·.1)), hx, List.length_range], ?_⟩
  apply List.Nodup.map_on _ (List.Nodup.of_map _ hxnd)
  intro a ha b hb hab
  have wf : ∀ t ∈ data, (shareOf (secret.length * 8) id e k n t).WF := fun t ht =>
    ⟨hinit t ht, hid', he, by simp only [shareOf]; omega, by simp only [shareOf]; omega⟩
  have h1 := share_text_roundtrip _ (wf a ha)
  have h2 := share_text_roundtrip _ (wf b hb)
  rw [hab, h2] at h1
  simp only [Option.some.injEq] at h1
  have : a.1 = b.1 := by
    have := congrArg Share.groupIndex h1
    simpa [shareOf] using this.symm
  exact hinj a ha b hb this

end Embit.Model.Slip39
