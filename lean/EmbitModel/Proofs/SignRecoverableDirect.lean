import EmbitModel.Proofs.ContractCurve
/-
  `ecdsa_sign_recoverable` after fix `c08-signrec`: py computes the recovery id from the nonce point exactly as
  libsecp256k1 does (no search by trial recovery). The two sides are then equal wherever `ecdsa_sign` is — no curve
  law is needed any more (the old statement needed `EcLaws`, `FiniteMultiples`, `p ≤ 2^256` and excluded the region
  `recidSearchSafe = false`).
-/
namespace Embit
open Embit.Model Embit.Model.Der Embit.Model.PySecp

/-- py's `(y & 1) | (2 if x >= n else 0)`, `^= 1` when `s > n // 2` is libsecp256k1's
    `(overflow << 1) | y_is_odd`, `^= 1` when S is negated (written with `+ 1` / `- 1` in the contract) -/
theorem recid_bits (n xR yR s : Nat) (hodd : n % 2 = 1) :
    (if s > n / 2 then ((yR % 2) ||| (if xR ≥ n then 2 else 0)) ^^^ 1 else (yR % 2) ||| (if xR ≥ n then 2 else 0))
      = (if (!decide (s ≤ (n - 1) / 2)) = true
          then (if ((if xR ≥ n then 2 else 0) + yR % 2) % 2 = 0 then ((if xR ≥ n then 2 else 0) + yR % 2) + 1
                else ((if xR ≥ n then 2 else 0) + yR % 2) - 1)
          else (if xR ≥ n then 2 else 0) + yR % 2) := by
  have hhalf : (n - 1) / 2 = n / 2 := by omega
  rw [hhalf]
  have hy : yR % 2 = 0 ∨ yR % 2 = 1 := by omega
  by_cases hx : xR ≥ n <;> by_cases hs : s > n / 2 <;> rcases hy with hy | hy
  all_goals
    have hs' : (s ≤ n / 2) = (¬ s > n / 2) := by simp
    simp only [hx, hs, hy, hs', if_true, if_false, not_true_eq_false, not_false_eq_true, decide_true, decide_false,
      Bool.not_true, Bool.not_false, Bool.false_eq_true]
    try decide

variable (E : EcOps) (H : HashOps)

theorem eq_ecdsa_sign_recoverable_direct (hn : E.n < 2 ^ 256) (hodd : E.n % 2 = 1) (fuel : Nat)
    (msg secret : Bytes)
    (hgood : ∀ k, deterministicK H fuel E.n (ofBe secret) (ofBe msg) none = some k →
      (Spec.Ecdsa.signWith E (ofBe secret) (ofBe msg) k).isSome) :
    ecdsaSignRecoverableDirect E H fuel msg secret = Spec.Libsecp.ecdsa_sign_recoverable E H fuel msg secret := by
  unfold ecdsaSignRecoverableDirect
  rw [eq_ecdsa_sign_partial E H hn hodd fuel msg secret none hgood]
  unfold Spec.Libsecp.ecdsa_sign Spec.Libsecp.ecdsa_sign_recoverable
  by_cases hm : msg.length = 32
  swap
  · simp [hm]
  by_cases hs : secret.length = 32
  swap
  · simp [hm, seckey_none_of_len E secret hs]
  simp only [hm, ne_eq, not_true_eq_false, if_false, Option.map_none, reduceCtorEq, seckey_eq E secret hs]
  by_cases hv : seckeyValid E (ofBe secret) = true
  swap
  · simp [hv]
  simp only [hv, if_true, Option.bind_some]
  -- the nonce
  have hraw := deterministicK_eq_raw H fuel E.n (ofBe secret) (ofBe msg) none
  have hmsg : beN 32 (ofBe msg) = msg := by rw [← hm]; exact beN_ofBe msg
  unfold Spec.Rfc6979.nonceRaw Spec.Rfc6979.firstValid Spec.Rfc6979.int2octets at hraw
  rw [hmsg] at hraw
  unfold Spec.Libsecp.signCore
  obtain ⟨hfound, hnone⟩ := signAttempts_of_find E H (ofBe secret) (ofBe msg)
    (Spec.Rfc6979.init H.hmac256 (beN 32 (ofBe secret) ++ msg ++ (none : Option Bytes).getD [])) (List.range fuel)
  cases hk : deterministicK H fuel E.n (ofBe secret) (ofBe msg) none with
  | none =>
    rw [hk] at hraw
    rw [hnone hraw.symm]
    rfl
  | some k =>
    rw [hk] at hraw
    have hg := hgood k hk
    cases hsw : Spec.Ecdsa.signWith E (ofBe secret) (ofBe msg) k with
    | none => rw [hsw] at hg; cases hg
    | some rs =>
      obtain ⟨r, s0⟩ := rs
      rw [hfound k hraw.symm r s0 hsw]
      simp only [Option.map_some, Option.bind_some]
      unfold Spec.Ecdsa.signWith at hsw
      cases hR : E.xy (E.mul k E.g) with
      | none => rw [hR] at hsw; cases hsw
      | some xy =>
        obtain ⟨rx, ry⟩ := xy
        rw [hR] at hsw
        simp only [] at hsw ⊢
        split at hsw
        · cases hsw
        · simp only [Option.some.injEq, Prod.mk.injEq] at hsw
          obtain ⟨hr, hs0⟩ := hsw
          have hmul : ofBe secret * (rx % E.n) = rx % E.n * ofBe secret := Nat.mul_comm _ _
          rw [hmul, hs0]
          simp only [Option.map_some, Option.some.injEq, Spec.Ecdsa.isLowS]
          rw [recid_bits E.n rx ry s0 hodd]
