import EmbitModel.Model.PsbtVerify
/-
  Helper lemmas for Props/C06X.lean: what one `InputScope.verify` call can do, and the loop of `PSBT.verify` scope by
  scope (index form).
-/
namespace Embit.Model

/-! ### one `InputScope.verify` call -/

theorem InScope.verify_true_eq (sha : Bytes → Bytes) (s s' : InScope) (ign : Bool)
    (h : InScope.verify sha s ign = some (true, s')) : s' = { s with verified := true } := by
  unfold InScope.verify at h
  repeat' (split at h)
  all_goals (simp at h)
  all_goals (exact h.symm)

theorem InScope.verify_false_eq (sha : Bytes → Bytes) (s s' : InScope) (ign : Bool)
    (h : InScope.verify sha s ign = some (false, s')) : s' = s ∧ ign = true := by
  unfold InScope.verify at h
  repeat' (split at h)
  all_goals (simp at h)
  rename_i hi
  exact ⟨h.symm, hi⟩

/-- with previous-transaction data present `verify` never answers `False`: it answers `True` or raises -/
theorem InScope.verify_ok_of_prev (sha : Bytes → Bytes) (s s' : InScope) (ign ok : Bool)
    (hp : (s.nonWitnessUtxo.isSome || s.txhash.isSome) = true)
    (h : InScope.verify sha s ign = some (ok, s')) : ok = true := by
  unfold InScope.verify at h
  rw [if_pos hp] at h
  repeat' (split at h)
  all_goals (simp at h)
  all_goals (exact h.1)

/-- without `ignore_missing` `verify` never answers `False` -/
theorem InScope.verify_strict (sha : Bytes → Bytes) (s s' : InScope) (ok : Bool)
    (h : InScope.verify sha s false = some (ok, s')) : ok = true := by
  cases ok with
  | true => rfl
  | false => exact absurd (InScope.verify_false_eq sha s s' false h).2 (by decide)

/-- `True` is answered only when there is previous-transaction data and the outpoint's txid is what it hashes to -/
theorem InScope.verify_true_expected (sha : Bytes → Bytes) (s s' : InScope) (ign : Bool)
    (h : InScope.verify sha s ign = some (true, s')) :
    (s.nonWitnessUtxo.isSome || s.txhash.isSome) = true ∧ s.txid.isSome = true ∧ s.txid = s.expectedTxid sha := by
  unfold InScope.verify at h
  split at h
  · rename_i hp
    split at h
    · rename_i hc
      simp only [Bool.and_eq_true, beq_iff_eq] at hc
      exact ⟨hp, hc.1, hc.2⟩
    · simp at h
  · split at h <;> simp at h

/-- whatever `verify` returns, the flag only goes up -/
theorem InScope.verify_mono (sha : Bytes → Bytes) (s s' : InScope) (ign ok : Bool)
    (h : InScope.verify sha s ign = some (ok, s')) : s.verified = true → s' = s := by
  intro hv
  cases ok with
  | true =>
    rw [InScope.verify_true_eq sha s s' ign h]
    cases s; simp_all
  | false => exact (InScope.verify_false_eq sha s s' ign h).1

/-! ### the loop -/

theorem verifyLoop_done (sha : Bytes → Bytes) (ign : Bool) :
    ∀ (l l' : List InScope), verifyLoop sha ign l = (l', true) →
      l'.length = l.length ∧
      ∀ (i : Nat) (s : InScope), l[i]? = some s →
        ∃ ok s', InScope.verify sha s ign = some (ok, s') ∧ l'[i]? = some s' := by
  intro l
  induction l with
  | nil =>
    intro l' h
    simp [verifyLoop] at h
    subst h
    simp
  | cons a r ih =>
    intro l' h
    unfold verifyLoop at h
    cases hv : InScope.verify sha a ign with
    | none => simp [hv] at h
    | some x =>
      obtain ⟨ok, a'⟩ := x
      simp only [hv] at h
      cases hr : verifyLoop sha ign r with
      | mk r' d =>
        simp only [hr, Prod.mk.injEq] at h
        obtain ⟨rfl, rfl⟩ := h
        obtain ⟨hl, hi⟩ := ih r' hr
        refine ⟨by simp [hl], ?_⟩
        intro i s hs
        cases i with
        | zero =>
          simp at hs
          subst hs
          exact ⟨ok, a', hv, by simp⟩
        | succ j =>
          simp at hs
          obtain ⟨ok', s', h1, h2⟩ := hi j s hs
          exact ⟨ok', s', h1, by simpa using h2⟩

theorem verifyLoop_raise (sha : Bytes → Bytes) (ign : Bool) :
    ∀ (l l' : List InScope), verifyLoop sha ign l = (l', false) →
      l'.length = l.length ∧
      ∃ (k : Nat) (s : InScope), l[k]? = some s ∧ InScope.verify sha s ign = none ∧
        (∀ i, k ≤ i → l'[i]? = l[i]?) ∧
        (∀ (i : Nat) (t : InScope), i < k → l[i]? = some t →
          ∃ ok t', InScope.verify sha t ign = some (ok, t') ∧ l'[i]? = some t') := by
  intro l
  induction l with
  | nil =>
    intro l' h
    simp [verifyLoop] at h
  | cons a r ih =>
    intro l' h
    unfold verifyLoop at h
    cases hv : InScope.verify sha a ign with
    | none =>
      simp only [hv, Prod.mk.injEq] at h
      obtain ⟨rfl, -⟩ := h
      exact ⟨rfl, 0, a, by simp, hv, fun i _ => rfl, fun i t hi => absurd hi (Nat.not_lt_zero i)⟩
    | some x =>
      obtain ⟨ok, a'⟩ := x
      simp only [hv] at h
      cases hr : verifyLoop sha ign r with
      | mk r' d =>
        simp only [hr, Prod.mk.injEq] at h
        obtain ⟨rfl, rfl⟩ := h
        obtain ⟨hl, k, s, hk, hn, hge, hlt⟩ := ih r' hr
        refine ⟨by simp [hl], k + 1, s, by simpa using hk, hn, ?_, ?_⟩
        · intro i hi
          cases i with
          | zero => omega
          | succ j => simpa using hge j (by omega)
        · intro i t hi ht
          cases i with
          | zero =>
            simp at ht
            subst ht
            exact ⟨ok, a', hv, by simp⟩
          | succ j =>
            simp at ht
            obtain ⟨ok', t', h1, h2⟩ := hlt j t (by omega) ht
            exact ⟨ok', t', h1, by simpa using h2⟩

end Embit.Model
