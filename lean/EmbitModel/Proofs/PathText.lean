import EmbitModel.Model.Bip32
/-
  `parse_path(path_to_str(p)) = p` for every list of integers, and derive = fold.
-/
namespace Embit.Keys
open Embit

/-- everything the proofs need to know about the ten digit characters -/
def DigitFacts (c : UInt8) (m : Nat) : Prop :=
  isDigit c = true ∧ c.toNat - 0x30 = m ∧ isSpace c = false ∧ c ≠ 0x2f ∧ c ≠ 0x2d ∧ c ≠ 0x2b ∧ c ≠ 0x68 ∧ c ≠ 0x48
    ∧ c ≠ 0x27

instance (c : UInt8) (m : Nat) : Decidable (DigitFacts c m) := by unfold DigitFacts; infer_instance

theorem digit_facts_fin : ∀ m : Fin 10, DigitFacts (UInt8.ofNat (0x30 + m.val)) m.val := by decide

theorem digit_facts (m : Nat) (h : m < 10) : DigitFacts (UInt8.ofNat (0x30 + m)) m := digit_facts_fin ⟨m, h⟩

/-- a "clean" character: what may appear in the decimal rendering of an index -/
def Clean (c : UInt8) : Prop := isSpace c = false ∧ c ≠ 0x2f

theorem decDigits_unfold (n : Nat) :
    decDigits n = if n < 10 then [UInt8.ofNat (0x30 + n)] else decDigits (n / 10) ++ [UInt8.ofNat (0x30 + n % 10)] := by
  rw [decDigits]; split <;> rfl

theorem decDigits_all (n : Nat) : ∀ c ∈ decDigits n, ∃ m, m < 10 ∧ c = UInt8.ofNat (0x30 + m) := by
  induction n using Nat.strongRecOn with
  | ind n ih =>
    rw [decDigits_unfold]
    split
    · intro c hc; rw [List.mem_singleton] at hc; exact ⟨n, by omega, hc⟩
    · intro c hc
      rw [List.mem_append] at hc
      rcases hc with hc | hc
      · exact ih (n / 10) (by omega) c hc
      · rw [List.mem_singleton] at hc; exact ⟨n % 10, by omega, hc⟩

theorem decDigits_ne_nil (n : Nat) : decDigits n ≠ [] := by
  rw [decDigits_unfold]; split <;> simp

/-- reading the digits back -/
theorem digitsVal_decDigits (n : Nat) : ∀ (r : Text) (acc : Nat) (prev : Bool),
    digitsVal (decDigits n ++ r) acc prev = digitsVal r (acc * 10 ^ (decDigits n).length + n) true := by
  induction n using Nat.strongRecOn with
  | ind n ih =>
    intro r acc prev
    rw [decDigits_unfold]
    split
    · rename_i h
      obtain ⟨hd, hv, _⟩ := digit_facts n h
      simp only [List.cons_append, List.nil_append, digitsVal, hd, if_true, hv, List.length_singleton, Nat.pow_one]
    · rename_i h
      rw [List.append_assoc, ih (n / 10) (by omega)]
      obtain ⟨hd, hv, _⟩ := digit_facts (n % 10) (by omega)
      simp only [List.cons_append, List.nil_append, digitsVal, hd, if_true, hv, List.length_append,
        List.length_singleton, Nat.pow_succ]
      congr 1
      have := Nat.div_add_mod n 10
      rw [Nat.add_mul, Nat.mul_assoc]
      omega

theorem digitsVal_dec (n : Nat) : digitsVal (decDigits n) 0 false = some n := by
  have := digitsVal_decDigits n [] 0 false
  simp only [List.append_nil, Nat.zero_mul, Nat.zero_add] at this
  rw [this]; rfl

/-! ### `int()` on the decimal rendering -/

theorem dropWhile_head {α : Type} (p : α → Bool) (c : α) (r : List α) (h : p c = false) :
    (c :: r).dropWhile p = c :: r := by simp [List.dropWhile, h]

/-- nothing is stripped from a string whose first and last characters are not white space -/
theorem stripSpace_id (t : Text) (c l : UInt8) (r i : Text) (h1 : t = c :: r) (h2 : t = i ++ [l])
    (hc : isSpace c = false) (hl : isSpace l = false) : stripSpace t = t := by
  unfold stripSpace
  rw [h1, dropWhile_head _ _ _ hc, ← h1, h2]
  simp [List.dropWhile, hl]

theorem decDigits_shape (n : Nat) :
    ∃ c r i l, decDigits n = c :: r ∧ decDigits n = i ++ [l] ∧
      (∃ m, m < 10 ∧ c = UInt8.ofNat (0x30 + m)) ∧ (∃ m, m < 10 ∧ l = UInt8.ofNat (0x30 + m)) := by
  have hne := decDigits_ne_nil n
  have hall := decDigits_all n
  cases hd : decDigits n with
  | nil => exact absurd hd hne
  | cons c r =>
    have hl := List.dropLast_concat_getLast (l := decDigits n) hne
    refine ⟨c, r, (decDigits n).dropLast, (decDigits n).getLast hne, rfl, ?_, ?_, ?_⟩
    · rw [← hd]; exact hl.symm
    · exact hall c (by rw [hd]; simp)
    · exact hall _ (List.getLast_mem hne)

theorem pyInt_nat (n : Nat) : pyInt (decDigits n) = some (n : Int) := by
  obtain ⟨c, r, i, l, h1, h2, ⟨m, hm, hc⟩, ⟨m', hm', hl⟩⟩ := decDigits_shape n
  have fc := digit_facts m hm
  have fl := digit_facts m' hm'
  rw [← hc] at fc; rw [← hl] at fl
  unfold pyInt
  rw [stripSpace_id _ c l r i h1 h2 fc.2.2.1 fl.2.2.1, h1]
  simp only
  rw [if_neg fc.2.2.2.2.1, if_neg fc.2.2.2.2.2.1, ← h1, digitsVal_dec]
  rfl

theorem pyInt_showInt (z : Int) : pyInt (showInt z) = some z := by
  unfold showInt
  split
  · rename_i hz
    obtain ⟨c, r, i, l, h1, h2, ⟨m, hm, hc⟩, ⟨m', hm', hl⟩⟩ := decDigits_shape z.natAbs
    have fl := digit_facts m' hm'
    rw [← hl] at fl
    unfold pyInt
    rw [stripSpace_id (0x2d :: decDigits z.natAbs) 0x2d l (decDigits z.natAbs) (0x2d :: i) rfl (by rw [h2]; rfl)
          (by decide) fl.2.2.1]
    simp only [if_true, digitsVal_dec]
    have : -(z.natAbs : Int) = z := by omega
    simp [this]
  · rename_i hz
    rw [pyInt_nat]
    have : (z.toNat : Int) = z := by omega
    rw [this]

/-- one path element as text (without the leading slash) -/
def seg (el : Int) : Text :=
  if el ≥ (hardenedIndex : Int) then showInt (el - hardenedIndex) ++ [0x68] else showInt el

theorem showInt_shape (z : Int) :
    ∃ i l, showInt z = i ++ [l] ∧ (∃ m, m < 10 ∧ l = UInt8.ofNat (0x30 + m)) ∧ (∀ c ∈ showInt z, c ≠ 0x2f) := by
  unfold showInt
  split
  · obtain ⟨c, r, i, l, h1, h2, _, hl⟩ := decDigits_shape z.natAbs
    refine ⟨0x2d :: i, l, by rw [h2]; rfl, hl, ?_⟩
    intro c hc
    simp only [List.mem_cons] at hc
    rcases hc with hc | hc
    · rw [hc]; decide
    · obtain ⟨m, hm, he⟩ := decDigits_all _ c hc
      rw [he]; exact (digit_facts m hm).2.2.2.1
  · obtain ⟨c, r, i, l, h1, h2, _, hl⟩ := decDigits_shape z.toNat
    refine ⟨i, l, h2, hl, ?_⟩
    intro c hc
    obtain ⟨m, hm, he⟩ := decDigits_all _ c hc
    rw [he]; exact (digit_facts m hm).2.2.2.1

theorem parseDerItem_seg (el : Int) : parseDerItem (seg el) = some el := by
  by_cases h : el ≥ (hardenedIndex : Int)
  · simp only [seg, h, if_true, parseDerItem, List.getLast?_append, List.getLast?_singleton, Option.some_or,
      List.dropLast_concat, true_or, pyInt_showInt, Option.map_some]
    have : el - ↑hardenedIndex + ↑hardenedIndex = el := by omega
    rw [this]
  · obtain ⟨i, l, h1, ⟨m, hm, hl⟩, _⟩ := showInt_shape el
    have fl := digit_facts m hm
    rw [← hl] at fl
    simp only [seg, h, if_false, parseDerItem]
    rw [h1, List.getLast?_append, List.getLast?_singleton]
    simp only [Option.some_or]
    rw [if_neg (by simp [fl.2.2.2.2.2.2.1, fl.2.2.2.2.2.2.2.1, fl.2.2.2.2.2.2.2.2]), ← h1, pyInt_showInt]

theorem seg_no_slash (el : Int) : ∀ c ∈ seg el, c ≠ 0x2f := by
  unfold seg
  obtain ⟨_, _, _, _, h⟩ := showInt_shape (el - hardenedIndex)
  obtain ⟨_, _, _, _, h'⟩ := showInt_shape el
  split
  · intro c hc
    rw [List.mem_append] at hc
    rcases hc with hc | hc
    · exact h c hc
    · simp at hc; rw [hc]; decide
  · exact h'

theorem seg_last (el : Int) : ∃ i l, seg el = i ++ [l] ∧ l ≠ 0x2f := by
  unfold seg
  split
  · exact ⟨_, 0x68, rfl, by decide⟩
  · obtain ⟨i, l, h1, ⟨m, hm, hl⟩, _⟩ := showInt_shape el
    exact ⟨i, l, h1, by rw [hl]; exact (digit_facts m hm).2.2.2.1⟩

/-! ### splitting at the slashes -/

theorem splitOn_ne_nil (sep : UInt8) (t : Text) : splitOn sep t ≠ [] := by
  induction t with
  | nil => simp [splitOn]
  | cons c r ih =>
    unfold splitOn
    split
    · simp
    · split <;> simp

theorem splitOn_clean (w : Text) (hw : ∀ c ∈ w, c ≠ 0x2f) : splitOn 0x2f w = [w] := by
  induction w with
  | nil => rfl
  | cons c r ih =>
    have hc : c ≠ 0x2f := hw c (by simp)
    have := ih (fun c h => hw c (by simp [h]))
    simp [splitOn, hc, this]

theorem splitOn_append (w rest : Text) (hw : ∀ c ∈ w, c ≠ 0x2f) :
    splitOn 0x2f (w ++ 0x2f :: rest) = w :: splitOn 0x2f rest := by
  induction w with
  | nil => simp [splitOn]
  | cons c r ih =>
    have hc : c ≠ 0x2f := hw c (by simp)
    have := ih (fun c h => hw c (by simp [h]))
    simp [splitOn, hc, this]

def pathBody (p : List Int) : Text := p.flatMap (fun el => 0x2f :: seg el)

theorem pathToStr_eq (p : List Int) : pathToStr p none = [0x6d] ++ pathBody p := by
  have : (fun el : Int => if el ≥ (hardenedIndex : Int) then (0x2f:UInt8) :: (showInt (el - hardenedIndex) ++ [0x68])
      else 0x2f :: showInt el) = (fun el => 0x2f :: seg el) := by
    funext el; unfold seg; split <;> rfl
  unfold pathToStr pathBody
  rw [this]

theorem splitOn_body (p : List Int) : ∀ (w : Text), (∀ c ∈ w, c ≠ 0x2f) →
    splitOn 0x2f (w ++ pathBody p) = w :: p.map seg := by
  induction p with
  | nil => intro w hw; simp [pathBody, splitOn_clean w hw]
  | cons el p ih =>
    intro w hw
    have : pathBody (el :: p) = 0x2f :: (seg el ++ pathBody p) := by simp [pathBody]
    rw [this, splitOn_append w _ hw, ih (seg el) (seg_no_slash el)]
    rfl

theorem body_last (p : List Int) : ∀ (w : Text) (l : UInt8), l ≠ 0x2f →
    ∃ i l', (w ++ [l]) ++ pathBody p = i ++ [l'] ∧ l' ≠ 0x2f := by
  induction p with
  | nil => intro w l hl; exact ⟨w, l, by simp [pathBody], hl⟩
  | cons el p ih =>
    intro w l hl
    obtain ⟨i, l', h1, h2⟩ := seg_last el
    obtain ⟨i2, l2, h3, h4⟩ := ih (w ++ [l] ++ 0x2f :: i) l' h2
    refine ⟨i2, l2, ?_, h4⟩
    rw [← h3]
    simp [pathBody, h1]

theorem rstripSlash_id (t i : Text) (l : UInt8) (h : t = i ++ [l]) (hl : l ≠ 0x2f) : rstripSlash t = t := by
  unfold rstripSlash
  rw [h]
  simp [List.dropWhile, hl]

theorem allSome_seg (p : List Int) : allSome ((p.map seg).map parseDerItem) = some p := by
  induction p with
  | nil => rfl
  | cons el p ih =>
    simp only [List.map_cons, allSome, parseDerItem_seg]
    rw [ih]; rfl

/-- `parse_path(path_to_str(p)) == p` for every list of integers -/
theorem parsePath_pathToStr (p : List Int) : parsePath (pathToStr p none) = some p := by
  rw [pathToStr_eq]
  obtain ⟨i, l', h1, h2⟩ := body_last p [] 0x6d (by decide)
  simp only [List.nil_append] at h1
  unfold parsePath
  rw [rstripSlash_id _ i l' h1 h2, splitOn_body p [0x6d] (by decide)]
  simp only [if_true]
  cases p with
  | nil => rfl
  | cons el p =>
    rw [if_neg (by simp)]
    exact allSome_seg (el :: p)

/-! ### derive = fold -/

/-- one step of `for idx in path: child = child.child(idx)` -/
def deriveStep {E : EcOps} (env : Env) (k : HDKey E) (i : Int) : Option (HDKey E) :=
  if i < 0 then none else k.child env i.toNat

theorem derive_eq_foldlM {E : EcOps} (env : Env) (p : List Int) : ∀ k : HDKey E,
    k.derive env p = p.foldlM (deriveStep env) k := by
  induction p with
  | nil => intro k; rfl
  | cons i r ih =>
    intro k
    simp only [HDKey.derive, List.foldlM_cons, deriveStep]
    split
    · rfl
    · cases hc : k.child env i.toNat with
      | none => rfl
      | some c => simp [ih c]

end Embit.Keys
