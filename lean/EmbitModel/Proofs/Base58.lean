import EmbitModel.Model.Base58
import EmbitModel.Spec.Base58Check
import EmbitModel.Proofs.Digits
/-
  Base58: the model's encoder equals the specified encoding; decode is its exact inverse (both directions).
-/
namespace Embit.Model.Base58
open Embit Digits

/-! ### the alphabet -/

theorem digitVal_digitChar : ∀ r, r < 58 → digitVal (digitChar r) = some r := by decide +kernel

theorem digitChar_eq_one : ∀ r, r < 58 → (digitChar r = '1' ↔ r = 0) := by decide +kernel

theorem digits_length : digits.length = 58 := by decide +kernel

theorem digitVal_some {c : Char} {i : Nat} (h : digitVal c = some i) : i < 58 ∧ digitChar i = c := by
  unfold digitVal at h
  split at h
  · rename_i j hj
    simp at h; subst h
    rw [List.idxOf?_eq_some_iff] at hj
    obtain ⟨hlt, he, _⟩ := hj
    refine ⟨by rw [digits_length] at hlt; exact hlt, ?_⟩
    simp [digitChar, List.getD_eq_getElem?_getD, hlt, he]
  · simp at h

/-! ### bridges to positional notation -/

theorem loopChars_eq (n : Nat) : loopChars n = (toLE 58 n).map digitChar := by
  induction n using Nat.strongRecOn with
  | _ n ih =>
    by_cases hn : n = 0
    · subst hn; rw [loopChars, toLE_zero]; simp
    · rw [loopChars, toLE_pos (by decide) hn]
      simp only [hn, dite_false, List.map_cons]
      rw [ih _ (by omega)]

theorem minBytesLE_eq (n : Nat) : minBytesLE n = (toLE 256 n).map UInt8.ofNat := by
  induction n using Nat.strongRecOn with
  | _ n ih =>
    by_cases hn : n = 0
    · subst hn; rw [minBytesLE, toLE_zero]; simp
    · rw [minBytesLE, toLE_pos (by decide) hn]
      simp only [hn, dite_false, List.map_cons]
      rw [ih _ (by omega)]

theorem ofLe_eq (l : Bytes) : ofLe l = ofLE 256 (l.map UInt8.toNat) := by
  induction l with
  | nil => rfl
  | cons x xs ih => simp [ofLe, ofLE, ih]

theorem ofLe_zeros (z : Nat) : ofLe (List.replicate z 0) = 0 := by
  induction z with
  | zero => rfl
  | succ z ih => simp [List.replicate_succ, ofLe, ih]

theorem ofLe_append_zeros (l : Bytes) (z : Nat) : ofLe (l ++ List.replicate z 0) = ofLe l := by
  induction l with
  | nil => simp [ofLe_zeros, ofLe]
  | cons x xs ih => simp [ofLe, ih]

theorem ofBe_zeros_append (z : Nat) (r : Bytes) : ofBe (List.replicate z 0 ++ r) = ofBe r := by
  simp [ofBe, ofLe_append_zeros]

/-! ### leading zeros / ones -/

theorem leadingZeros_replicate (z : Nat) (r : Bytes) (h : ∀ x ∈ r.head?, x ≠ 0) :
    leadingZeros (List.replicate z 0 ++ r) = z := by
  induction z with
  | zero =>
    cases r with
    | nil => rfl
    | cons x xs => simp at h; simp [leadingZeros, h]
  | succ z ih => simp [List.replicate_succ, leadingZeros, ih]

theorem leadingOnes_replicate (z : Nat) (r : List Char) (h : ∀ x ∈ r.head?, x ≠ '1') :
    leadingOnes (List.replicate z '1' ++ r) = z := by
  induction z with
  | zero =>
    cases r with
    | nil => rfl
    | cons x xs => simp at h; simp [leadingOnes, h]
  | succ z ih => simp [List.replicate_succ, leadingOnes, ih]

/-- every byte string is zeros followed by a string that does not start with zero -/
theorem bytes_decomp (b : Bytes) :
    ∃ r, b = List.replicate (leadingZeros b) 0 ++ r ∧ ∀ x ∈ r.head?, x ≠ 0 := by
  induction b with
  | nil => exact ⟨[], rfl, by simp⟩
  | cons x xs ih =>
    by_cases hx : x = 0
    · obtain ⟨r, hr, hh⟩ := ih
      refine ⟨r, ?_, hh⟩
      subst hx
      simp only [leadingZeros, if_true, List.replicate_succ, List.cons_append]
      rw [← hr]
    · exact ⟨x :: xs, by simp [leadingZeros, hx], by simpa using hx⟩

/-- a byte string not starting with zero, reversed, is a canonical base-256 numeral -/
theorem canon_of_head (r : Bytes) (h : ∀ x ∈ r.head?, x ≠ 0) : Canon 256 (r.reverse.map UInt8.toNat) := by
  refine ⟨?_, ?_⟩
  · intro d hd
    simp only [List.mem_map] at hd
    obtain ⟨x, _, rfl⟩ := hd
    exact x.toNat_lt
  · cases r with
    | nil => simp
    | cons x xs =>
      simp at h
      simp
      intro h0; apply h; exact UInt8.toNat_inj.mp (by simpa using h0)

theorem map_ofNat_toNat (l : Bytes) : (l.map UInt8.toNat).map UInt8.ofNat = l := by
  induction l with
  | nil => rfl
  | cons x xs ih => simp [ih]

/-- minimal big-endian bytes of the value of `r` are `r` itself when `r` does not start with zero -/
theorem minBytes_ofBe (r : Bytes) (h : ∀ x ∈ r.head?, x ≠ 0) : (minBytesLE (ofBe r)).reverse = r := by
  rw [minBytesLE_eq, ofBe, ofLe_eq, toLE_ofLE (by decide) (canon_of_head r h), map_ofNat_toNat]
  simp

theorem ofBe_eq_zero_iff (r : Bytes) (h : ∀ x ∈ r.head?, x ≠ 0) : ofBe r = 0 ↔ r = [] := by
  constructor
  · intro h0
    cases r with
    | nil => rfl
    | cons x xs =>
      exfalso
      have := ofLE_pos_of_canon (canon_of_head (x :: xs) h) (by simp)
      rw [← ofLe_eq] at this
      exact this h0
  · rintro rfl; rfl

/-! ### accumulate -/

theorem accumulate_map (a : Nat) (ds : List Nat) (h : ∀ d ∈ ds, d < 58) :
    accumulate a (ds.map digitChar) = some (ds.foldl (fun a d => a * 58 + d) a) := by
  induction ds generalizing a with
  | nil => rfl
  | cons d rest ih =>
    simp only [List.map_cons, accumulate, digitVal_digitChar d (h d (by simp)), List.foldl_cons]
    exact ih _ (fun x hx => h x (by simp [hx]))

theorem accumulate_some {a n : Nat} {s : List Char} (h : accumulate a s = some n) :
    ∃ ds : List Nat, (∀ d ∈ ds, d < 58) ∧ s = ds.map digitChar ∧ n = ds.foldl (fun a d => a * 58 + d) a := by
  induction s generalizing a with
  | nil => simp [accumulate] at h; exact ⟨[], by simp, rfl, by simp [h]⟩
  | cons c cs ih =>
    unfold accumulate at h
    split at h
    · simp at h
    · rename_i d hd
      obtain ⟨ds, h1, h2, h3⟩ := ih h
      obtain ⟨hlt, hc⟩ := digitVal_some hd
      refine ⟨d :: ds, ?_, ?_, ?_⟩
      · intro x hx; simp at hx; rcases hx with rfl | hx
        · exact hlt
        · exact h1 x hx
      · simp [hc, h2]
      · simpa using h3

theorem foldl_zeros (z : Nat) (t : List Nat) :
    (List.replicate z 0 ++ t).foldl (fun a d => a * 58 + d) 0 = t.foldl (fun a d => a * 58 + d) 0 := by
  induction z with
  | zero => rfl
  | succ z ih => simpa [List.replicate_succ] using ih

/-- digit lists: zeros followed by a list that does not start with zero -/
theorem digits_decomp (ds : List Nat) :
    ∃ z t, ds = List.replicate z 0 ++ t ∧ ∀ x ∈ t.head?, x ≠ 0 := by
  induction ds with
  | nil => exact ⟨0, [], rfl, by simp⟩
  | cons x xs ih =>
    by_cases hx : x = 0
    · obtain ⟨z, t, ht, hh⟩ := ih
      exact ⟨z + 1, t, by simp [hx, ht, List.replicate_succ], hh⟩
    · exact ⟨0, x :: xs, rfl, by simpa using hx⟩

theorem canon58_of_head (t : List Nat) (hlt : ∀ d ∈ t, d < 58) (h : ∀ x ∈ t.head?, x ≠ 0) : Canon 58 t.reverse := by
  refine ⟨by simpa using hlt, ?_⟩
  cases t with
  | nil => simp
  | cons x xs => simp at h; simp [h]

theorem map_digitChar_replicate (z : Nat) : (List.replicate z 0).map digitChar = List.replicate z '1' := by
  have : digitChar 0 = '1' := by decide +kernel
  simp [List.map_replicate, this]

theorem head_digitChar_ne_one (t : List Nat) (hlt : ∀ d ∈ t, d < 58) (h : ∀ x ∈ t.head?, x ≠ 0) :
    ∀ c ∈ (t.map digitChar).head?, c ≠ '1' := by
  cases t with
  | nil => simp
  | cons x xs =>
    simp at h ⊢
    intro hc
    exact h ((digitChar_eq_one x (hlt x (by simp))).mp hc)

theorem head_dropLast_ne {α : Type} (m : List α) (p : α → Prop) (h : ∀ c ∈ m.head?, p c) : ∀ c ∈ m.dropLast.head?, p c := by
  cases m with
  | nil => simp
  | cons x xs =>
    cases xs with
    | nil => simp
    | cons y ys => simpa using h

/-! ### the two normal forms -/

/-- decoding the string `'1'^z ++ digits(t)` where `t` has no leading zero digit -/
theorem decode_normal (z : Nat) (t : List Nat) (hlt : ∀ d ∈ t, d < 58) (h : ∀ x ∈ t.head?, x ≠ 0) :
    decode (List.replicate z '1' ++ t.map digitChar) =
      some (if t = [] then List.replicate z 0
            else List.replicate z 0 ++ (minBytesLE (ofLE 58 t.reverse)).reverse) := by
  have hs : List.replicate z '1' ++ t.map digitChar = (List.replicate z 0 ++ t).map digitChar := by
    rw [List.map_append, map_digitChar_replicate]
  have hall : ∀ d ∈ List.replicate z 0 ++ t, d < 58 := by
    intro d hd; simp at hd; rcases hd with ⟨_, rfl⟩ | hd
    · decide
    · exact hlt d hd
  have hacc : accumulate 0 (List.replicate z '1' ++ t.map digitChar) = some (ofLE 58 t.reverse) := by
    rw [hs, accumulate_map 0 _ hall, foldl_zeros]
    have := ofBE_reverse 58 t.reverse
    simp only [List.reverse_reverse, ofBE] at this
    rw [this]
  unfold decode
  by_cases ht : t = []
  · subst ht
    simp only [List.map_nil, List.append_nil, if_true] at hacc ⊢
    cases z with
    | zero => simp
    | succ z =>
      have hne : (List.replicate (z + 1) '1').isEmpty = false := by simp [List.replicate_succ]
      rw [hne]
      simp only [Bool.false_eq_true, if_false, hacc]
      have : (List.replicate (z + 1) '1').dropLast = List.replicate z '1' := by
        rw [List.dropLast_replicate]; simp
      have h2 := leadingOnes_replicate z [] (by simp)
      simp only [List.append_nil] at h2
      simp [h2, hexBytes, ofLE, List.replicate_succ']
  · have hne : (List.replicate z '1' ++ t.map digitChar).isEmpty = false := by
      cases t with
      | nil => exact absurd rfl ht
      | cons x xs => simp
    rw [hne]
    simp only [Bool.false_eq_true, if_false, hacc, ht]
    have hn0 : ofLE 58 t.reverse ≠ 0 :=
      ofLE_pos_of_canon (canon58_of_head t hlt h) (by simpa using ht)
    have hdl : (List.replicate z '1' ++ t.map digitChar).dropLast
        = List.replicate z '1' ++ (t.map digitChar).dropLast :=
      List.dropLast_append_of_ne_nil (by simpa using ht)
    have hpad : leadingOnes (List.replicate z '1' ++ (t.map digitChar).dropLast) = z :=
      leadingOnes_replicate z _ (head_dropLast_ne _ (· ≠ '1') (head_digitChar_ne_one t hlt h))
    simp [hdl, hpad, hexBytes, hn0]

/-- encoding the byte string `0^z ++ r` where `r` does not start with zero -/
theorem encode_normal (z : Nat) (r : Bytes) (h : ∀ x ∈ r.head?, x ≠ 0) :
    encode (List.replicate z 0 ++ r) = List.replicate z '1' ++ ((toLE 58 (ofBe r)).reverse).map digitChar := by
  unfold encode
  simp only [leadingZeros_replicate z r h, ofBe_zeros_append, loopChars_eq, List.map_reverse]

/-! ### main theorems -/

theorem decode_encode (b : Bytes) : decode (encode b) = some b := by
  obtain ⟨r, hb, hh⟩ := bytes_decomp b
  generalize leadingZeros b = z at hb
  subst hb
  rw [encode_normal z r hh]
  have hc := toLE_canon (B := 58) (by decide) (ofBe r)
  have hlt : ∀ d ∈ (toLE 58 (ofBe r)).reverse, d < 58 := by simpa using hc.1
  have hhead : ∀ x ∈ (toLE 58 (ofBe r)).reverse.head?, x ≠ 0 := by
    intro x hx
    rw [List.head?_reverse] at hx
    intro h0; subst h0
    exact hc.2 (by simpa using hx)
  rw [decode_normal z _ hlt hhead]
  simp only [List.reverse_reverse, ofLE_toLE (by decide : 2 ≤ 58), List.reverse_eq_nil_iff]
  by_cases hr : r = []
  · subst hr
    have : toLE 58 (ofBe ([] : Bytes)) = [] := by simp [ofBe, ofLe, toLE_zero]
    simp [this]
  · have hn0 : ofBe r ≠ 0 := fun e => hr ((ofBe_eq_zero_iff r hh).mp e)
    have : toLE 58 (ofBe r) ≠ [] := by rw [toLE_pos (by decide) hn0]; simp
    simp [this, minBytes_ofBe r hh]

theorem encode_decode (s : List Char) (b : Bytes) (h : decode s = some b) : encode b = s := by
  by_cases hs : s = []
  · subst hs; simp [decode] at h; subst h; simp [encode, leadingZeros, ofBe, ofLe, loopChars_eq, toLE_zero]
  · have hacc : ∃ n, accumulate 0 s = some n := by
      unfold decode at h
      cases ha : accumulate 0 s with
      | none => simp [hs, ha] at h
      | some n => exact ⟨n, rfl⟩
    obtain ⟨n, hn⟩ := hacc
    obtain ⟨ds, hlt, hsd, _⟩ := accumulate_some hn
    obtain ⟨z, t, hd, hh⟩ := digits_decomp ds
    have hlt' : ∀ d ∈ t, d < 58 := fun d hd' => hlt d (by simp [hd, hd'])
    have hs' : s = List.replicate z '1' ++ t.map digitChar := by
      rw [hsd, hd, List.map_append, map_digitChar_replicate]
    rw [hs', decode_normal z t hlt' hh] at h
    simp only [Option.some.injEq] at h
    rw [hs', ← h]
    by_cases ht : t = []
    · subst ht
      simp only [if_true, List.map_nil, List.append_nil]
      have := encode_normal z [] (by simp)
      simp only [List.append_nil] at this
      rw [this]; simp [ofBe, ofLe, toLE_zero]
    · simp only [ht, if_false]
      have hcan := canon58_of_head t hlt' hh
      have hn0 : ofLE 58 t.reverse ≠ 0 := ofLE_pos_of_canon hcan (by simpa using ht)
      -- the minimal bytes do not start with zero
      have hc256 := toLE_canon (B := 256) (by decide) (ofLE 58 t.reverse)
      have hne256 : toLE 256 (ofLE 58 t.reverse) ≠ [] := by rw [toLE_pos (by decide) hn0]; simp
      have hhead : ∀ x ∈ (minBytesLE (ofLE 58 t.reverse)).reverse.head?, x ≠ 0 := by
        intro x hx
        rw [minBytesLE_eq, List.head?_reverse, List.getLast?_map] at hx
        simp only [Option.mem_def, Option.map_eq_some_iff] at hx
        obtain ⟨d, hd1, hd2⟩ := hx
        have h1 : d ≠ 0 := by intro e; subst e; exact hc256.2 hd1
        have h2 := hc256.1 d (List.mem_of_getLast? hd1)
        rw [← hd2]
        intro h0
        have := congrArg UInt8.toNat h0
        simp [UInt8.toNat_ofNat'] at this
        omega
      rw [encode_normal z _ hhead]
      have hval : ofBe (minBytesLE (ofLE 58 t.reverse)).reverse = ofLE 58 t.reverse := by
        rw [ofBe, List.reverse_reverse, ofLe_eq, minBytesLE_eq]
        have : ((toLE 256 (ofLE 58 t.reverse)).map UInt8.ofNat).map UInt8.toNat = toLE 256 (ofLE 58 t.reverse) := by
          have e : ((toLE 256 (ofLE 58 t.reverse)).map UInt8.ofNat).map UInt8.toNat
              = (toLE 256 (ofLE 58 t.reverse)).map id := by
            rw [List.map_map]
            apply List.map_congr_left
            intro d hd'
            have := hc256.1 d hd'
            simp [UInt8.toNat_ofNat']; omega
          simpa using e
        rw [this, ofLE_toLE (by decide)]
      rw [hval, toLE_ofLE (by decide) hcan]; simp

/-- base58 decoding accepts exactly the encodings -/
theorem decode_iff (s : List Char) (b : Bytes) : decode s = some b ↔ s = encode b :=
  ⟨fun h => (encode_decode s b h).symm, fun h => h ▸ decode_encode b⟩

/-- a string is accepted iff all its characters are in the alphabet -/
theorem decode_isSome_iff (s : List Char) : (decode s).isSome ↔ ∀ c ∈ s, c ∈ digits := by
  constructor
  · intro h
    by_cases hs : s = []
    · subst hs; simp
    · unfold decode at h
      cases ha : accumulate 0 s with
      | none => simp [hs, ha] at h
      | some n =>
        obtain ⟨ds, hlt, hsd, _⟩ := accumulate_some ha
        intro c hc
        rw [hsd] at hc
        simp at hc
        obtain ⟨d, hd, rfl⟩ := hc
        have := hlt d hd
        simp only [digitChar, List.getD_eq_getElem?_getD]
        have hl : d < digits.length := by rw [digits_length]; exact this
        simp [hl]
  · intro h
    by_cases hs : s = []
    · subst hs; simp [decode]
    · have : ∃ n, accumulate 0 s = some n := by
        have key : ∀ (s : List Char) a, (∀ c ∈ s, c ∈ digits) → ∃ n, accumulate a s = some n := by
          intro s
          induction s with
          | nil => intro a _; exact ⟨a, rfl⟩
          | cons c cs ih =>
            intro a hc
            have hmem := hc c (by simp)
            obtain ⟨i, hi, he⟩ := List.getElem_of_mem hmem
            have hi58 : i < 58 := by rw [digits_length] at hi; exact hi
            have : digitChar i = c := by simp [digitChar, List.getD_eq_getElem?_getD, hi, he]
            unfold accumulate
            rw [← this, digitVal_digitChar i hi58]
            exact ih _ (fun x hx => hc x (by simp [hx]))
        exact key s 0 h
      obtain ⟨n, hn⟩ := this
      unfold decode
      simp [hs, hn]

/-! ### model = spec -/

theorem value_eq (b : Bytes) : Spec.Base58.value b = ofBe b := by
  have h1 : Spec.Base58.value b = ofBE 256 (b.map UInt8.toNat) := by
    unfold Spec.Base58.value ofBE
    rw [List.foldl_map]
    congr 1
    funext a x
    rw [Nat.mul_comm]
  have h2 := ofBE_reverse 256 (b.map UInt8.toNat).reverse
  rw [List.reverse_reverse] at h2
  rw [h1, h2, ofBe, ofLe_eq, List.map_reverse]

theorem spec_digits_eq (n : Nat) : Spec.Base58.digitsBE n = (toLE 58 n).reverse := by
  induction n using Nat.strongRecOn with
  | _ n ih =>
    by_cases hn : n = 0
    · subst hn; rw [Spec.Base58.digitsBE, toLE_zero]; simp
    · rw [Spec.Base58.digitsBE, toLE_pos (by decide) hn]
      simp only [hn, dite_false, List.reverse_cons]
      rw [ih _ (by omega)]

theorem zeroPrefix_eq (b : Bytes) : Spec.Base58.zeroPrefix b = leadingZeros b := by
  induction b with
  | nil => rfl
  | cons x xs ih =>
    unfold Spec.Base58.zeroPrefix at *
    by_cases hx : x = 0
    · simp [hx, leadingZeros, ih]
    · simp [hx, leadingZeros]

theorem alphabet_eq : Spec.Base58.alphabet = digits := by decide

theorem encode_eq_spec (b : Bytes) : encode b = Spec.Base58.encode b := by
  unfold encode Spec.Base58.encode
  simp only [zeroPrefix_eq, value_eq, spec_digits_eq, loopChars_eq, ← List.map_reverse]
  congr 1
  apply List.map_congr_left
  intro d hd
  have := (toLE_canon (B := 58) (by decide) (ofBe b)).1 d (by simpa using hd)
  simp only [digitChar, alphabet_eq, List.getD_eq_getElem?_getD]
  have hl : d < digits.length := by rw [digits_length]; exact this
  simp [hl]

/-! ### Base58Check -/

theorem decodeCheck_sound (dsha : Bytes → Bytes) (s : List Char) (p : Bytes)
    (h : decodeCheck dsha s = some p) : s = encodeCheck dsha p := by
  unfold decodeCheck at h
  cases hd : decode s with
  | none => simp [hd] at h
  | some b =>
    simp only [hd] at h
    split at h
    · simp at h
    · rename_i hc
      simp at hc
      simp at h
      have hb : b = p ++ (dsha p).take 4 := by
        subst h
        rw [← hc, List.take_append_drop]
      rw [(decode_iff s b).mp hd, hb]; rfl

theorem decodeCheck_encodeCheck (dsha : Bytes → Bytes) (h4 : ∀ x, 4 ≤ (dsha x).length) (p : Bytes) :
    decodeCheck dsha (encodeCheck dsha p) = some p := by
  unfold decodeCheck encodeCheck
  rw [decode_encode]
  have hl : ((dsha p).take 4).length = 4 := by
    have := h4 p
    simp [List.length_take]; omega
  have h1 : (p ++ (dsha p).take 4).length - 4 = p.length := by simp [hl]
  simp only [h1, List.take_left', List.drop_left']
  simp

theorem decodeCheck_iff (dsha : Bytes → Bytes) (h4 : ∀ x, 4 ≤ (dsha x).length) (s : List Char) (p : Bytes) :
    decodeCheck dsha s = some p ↔ s = encodeCheck dsha p :=
  ⟨decodeCheck_sound dsha s p, fun h => h ▸ decodeCheck_encodeCheck dsha h4 p⟩

theorem encodeCheck_eq_spec (sha : Bytes → Bytes) (p : Bytes) :
    encodeCheck (fun x => sha (sha x)) p = Spec.Base58.encodeCheck sha p := by
  unfold encodeCheck Spec.Base58.encodeCheck Spec.Base58.checksum
  exact encode_eq_spec _

end Embit.Model.Base58
