import EmbitModel.Proofs.Slip39Text
import EmbitModel.Proofs.Slip39RsSpec
/-
  Converse of the text round trip: whatever `Share.parse` accepts (words below 1024) is a well-formed share
  whose `mnemonic()` is exactly the accepted word sequence — the parser accepts precisely the printed format.
-/
namespace Embit.Model.Slip39

theorem xor_xor_cancel (x y : Nat) : x ^^^ y ^^^ x = y := by
  apply Nat.eq_of_testBit_eq; intro i
  simp only [Nat.testBit_xor]
  cases x.testBit i <;> cases y.testBit i <;> rfl

/-- three words below 1024 fed into the zero state give the packed triple -/
theorem foldl_step_three (a b c : Nat) (ha : a < 1024) (hb : b < 1024) (hc : c < 1024) :
    [a, b, c].foldl rs1024Step 0 = pack (a, b, c) := by
  have h := fold_eq_spec [a, b, c] (by
    intro v hv; simp only [List.mem_cons, List.not_mem_nil, or_false] at hv
    rcases hv with h | h | h <;> omega) (0, 0, 0) ⟨by decide, by decide, by decide⟩
  have p0 : pack (0, 0, 0) = 0 := by decide
  rw [p0] at h
  rw [h.1]
  have z := genFold_eq_mul 0 (by decide)
  have m0 : Spec.Slip39.gf1024Mul 0 Spec.Slip39.rsG2 = 0 ∧ Spec.Slip39.gf1024Mul 0 Spec.Slip39.rsG1 = 0 ∧
      Spec.Slip39.gf1024Mul 0 Spec.Slip39.rsG0 = 0 := by decide +kernel
  simp only [List.foldl_cons, List.foldl_nil, Spec.Slip39.rsStep, m0.1, m0.2.1, m0.2.2, Nat.xor_zero]

/-- the checksum is determined by the data: three words below 1024 that make the sequence verify are the
    created checksum -/
theorem create_unique (cs data : List Nat) (a b c : Nat) (ha : a < 1024) (hb : b < 1024) (hc : c < 1024)
    (hv : rs1024Verify cs (data ++ [a, b, c]) = true) : rs1024Create cs data = [a, b, c] := by
  unfold rs1024Verify rs1024Polymod at hv
  simp only [beq_iff_eq, ← List.append_assoc, List.foldl_append] at hv
  unfold rs1024Create rs1024Polymod
  simp only [List.foldl_append]
  generalize List.foldl rs1024Step (List.foldl rs1024Step 1 cs) data = s at hv ⊢
  have lin := foldl_step_xor [0, 0, 0] [a, b, c] rfl s 0
  simp only [xorList, List.zipWith_cons_cons, List.zipWith_nil_right, Nat.zero_xor, Nat.xor_zero] at lin
  rw [hv, foldl_step_three a b c ha hb hc] at lin
  have hp : [0, 0, 0].foldl rs1024Step s ^^^ 1 = pack (a, b, c) := by
    rw [lin, ← Nat.xor_assoc, Nat.xor_self, Nat.zero_xor]
  rw [hp, pack_eq _ ⟨ha, hb, hc⟩]
  simp only [and1023', Nat.shiftRight_eq_div_pow]
  have e1 : (a * 1048576 + b * 1024 + c) / 2 ^ 20 % 1024 = a := by omega
  have e2 : (a * 1048576 + b * 1024 + c) / 2 ^ 10 % 1024 = b := by omega
  have e3 : (a * 1048576 + b * 1024 + c) % 1024 = c := by omega
  rw [e1, e2, e3]

theorem valueOfWords_cons (d : Nat) (ws : List Nat) (hd : d < 1024) (h : ∀ w ∈ ws, w < 1024) :
    valueOfWords (d :: ws) = d * 1024 ^ ws.length + valueOfWords ws := by
  unfold valueOfWords
  rw [List.foldl_cons, foldl_words_acc ws h, or10 0 d hd]
  simp

theorem valueOfWords_lt (ws : List Nat) (h : ∀ w ∈ ws, w < 1024) : valueOfWords ws < 1024 ^ ws.length := by
  induction ws with
  | nil => simp [valueOfWords]
  | cons d ws ih =>
    have hd := h d List.mem_cons_self
    have hws := fun w hw => h w (List.mem_cons_of_mem _ hw)
    rw [valueOfWords_cons d ws hd hws, List.length_cons, Nat.pow_succ]
    have := ih hws
    calc d * 1024 ^ ws.length + valueOfWords ws < d * 1024 ^ ws.length + 1024 ^ ws.length := by omega
      _ = (d + 1) * 1024 ^ ws.length := by ring
      _ ≤ 1024 * 1024 ^ ws.length := Nat.mul_le_mul_right _ (by omega)
      _ = 1024 ^ ws.length * 1024 := by ring

/-- printing the number formed by ten-bit words gives the words back (whatever sits above them) -/
theorem wordsOfBits_valueOfWords (ws : List Nat) (h : ∀ w ∈ ws, w < 1024) (hi : Nat) :
    wordsOfBits (hi * 1024 ^ ws.length + valueOfWords ws) ws.length = ws := by
  induction ws generalizing hi with
  | nil => simp [wordsOfBits]
  | cons d ws ih =>
    have hd := h d List.mem_cons_self
    have hws := fun w hw => h w (List.mem_cons_of_mem _ hw)
    have hv := valueOfWords_lt ws hws
    rw [List.length_cons, wordsOfBits_succ, valueOfWords_cons d ws hd hws]
    have e : hi * 1024 ^ (ws.length + 1) + (d * 1024 ^ ws.length + valueOfWords ws) =
        (hi * 1024 + d) * 1024 ^ ws.length + valueOfWords ws := by ring
    rw [e, ih hws (hi * 1024 + d)]
    congr 1
    rw [and1023, Nat.shiftRight_eq_div_pow, pow1024, Nat.add_comm, Nat.add_mul_div_right _ _ (Nat.pow_pos (by decide)),
      Nat.div_eq_of_lt hv, Nat.zero_add]
    omega

theorem parse_inv (idx : List Nat) (s : Share) (h : Share.parse idx = some s) :
    ∃ i0 i1 i2 i3 rest, idx = i0 :: i1 :: i2 :: i3 :: rest ∧ rs1024Verify csShamir idx = true ∧ 3 ≤ rest.length ∧
      valueOfWords (rest.take (rest.length - 3)) >>> ((rest.length - 3) * 10 / 16 * 16) = 0 ∧
      128 ≤ (rest.length - 3) * 10 / 16 * 16 ∧ (rest.length - 3) * 10 - (rest.length - 3) * 10 / 16 * 16 ≤ 8 ∧
      s = headerOf i0 i1 i2 i3 ((rest.length - 3) * 10 / 16 * 16) (valueOfWords (rest.take (rest.length - 3))) ∧
      s.initOk = true := by
  unfold Share.parse at h
  split at h
  · simp at h
  · rename_i hv
    simp only [Bool.not_eq_true, Bool.not_eq_false'] at hv
    split at h
    · rename_i i0 i1 i2 i3 rest
      have e7 : (i0 :: i1 :: i2 :: i3 :: rest).length - 7 = rest.length - 3 := by simp only [List.length_cons]; omega
      simp only [e7] at h
      split at h
      · simp at h
      · rename_i hl
        simp only [List.length_cons] at hl
        split at h
        · simp at h
        · rename_i h1
          split at h
          · simp at h
          · rename_i h2
            split at h
            · simp at h
            · rename_i h3
              unfold Share.new? at h
              split at h
              · rename_i hi
                simp only [Option.some.injEq] at h
                refine ⟨i0, i1, i2, i3, rest, rfl, by simpa using hv, by omega, by simpa using h1, by omega, by omega,
                  h.symm, by rw [← h]; exact hi⟩
              · simp at h
    · simp at h

/-- **everything the parser accepts is the printed form of a well-formed share** -/
theorem parse_sound (idx : List Nat) (hw : ∀ w ∈ idx, w < 1024) (s : Share) (h : Share.parse idx = some s) :
    s.WF ∧ s.mnemonic = idx := by
  obtain ⟨i0, i1, i2, i3, rest, rfl, hv, hl, hsh, h128, hpad, rfl, hinit⟩ := parse_inv idx s h
  have h0 : i0 < 1024 := hw i0 (by simp)
  have h1 : i1 < 1024 := hw i1 (by simp)
  have h2 : i2 < 1024 := hw i2 (by simp)
  have h3 : i3 < 1024 := hw i3 (by simp)
  have hrest : ∀ w ∈ rest, w < 1024 := fun w hm => hw w (by simp [hm])
  obtain ⟨m, hm⟩ : ∃ m, rest.length = m + 3 := ⟨rest.length - 3, by omega⟩
  have hm3 : rest.length - 3 = m := by omega
  rw [hm3] at hsh h128 hpad hinit ⊢
  -- value words and checksum words
  have hsplit : rest = rest.take m ++ rest.drop m := (List.take_append_drop m rest).symm
  have hvwlen : (rest.take m).length = m := by rw [List.length_take]; omega
  have hvw : ∀ w ∈ rest.take m, w < 1024 := fun w hm' => hrest w (List.mem_of_mem_take hm')
  obtain ⟨a, b, c, hchk⟩ : ∃ a b c, rest.drop m = [a, b, c] := by
    have : (rest.drop m).length = 3 := by rw [List.length_drop]; omega
    match hd : rest.drop m, this with
    | [a, b, c], _ => exact ⟨a, b, c, rfl⟩
  have habc : a < 1024 ∧ b < 1024 ∧ c < 1024 := by
    have : ∀ w ∈ rest.drop m, w < 1024 := fun w hm' => hrest w (List.mem_of_mem_drop hm')
    rw [hchk] at this
    exact ⟨this a (by simp), this b (by simp), this c (by simp)⟩
  -- numeric facts
  have a31 : ∀ x : Nat, x &&& 31 = x % 32 := fun x => Nat.and_two_pow_sub_one_eq_mod x 5
  have a15 : ∀ x : Nat, x &&& 15 = x % 16 := fun x => Nat.and_two_pow_sub_one_eq_mod x 4
  have a3 : ∀ x : Nat, x &&& 3 = x % 4 := fun x => Nat.and_two_pow_sub_one_eq_mod x 2
  have fid : (i0 <<< 5) ||| (i1 >>> 5) = i0 * 32 + i1 / 32 := by
    rw [or_eq_add _ _ 5 (by rw [Nat.shiftRight_eq_div_pow]; omega), Nat.shiftRight_eq_div_pow]; norm_num
  have fgc : ((i2 &&& 3) <<< 2) ||| (i3 >>> 8) = i2 % 4 * 4 + i3 / 256 := by
    rw [a3, or_eq_add _ _ 2 (by rw [Nat.shiftRight_eq_div_pow]; omega), Nat.shiftRight_eq_div_pow]; norm_num
  generalize hL : m * 10 / 16 * 16 = L at hsh h128 hpad hinit ⊢
  generalize hval : valueOfWords (rest.take m) = value at hsh hinit ⊢
  have hvalL : value < 2 ^ L := by
    rw [Nat.shiftRight_eq_div_pow] at hsh
    exact (Nat.div_eq_zero_iff.mp hsh).resolve_left (Nat.ne_of_gt (Nat.pow_pos (by decide)))
  have hpL : (10 - L % 10) % 10 + L = 10 * m := by omega
  have hvalue : value < 1024 ^ m := by
    rw [← pow1024]
    exact Nat.lt_of_lt_of_le hvalL (Nat.pow_le_pow_right (by decide) (by omega))
  refine ⟨⟨hinit, ?_, ?_, by simp only [headerOf]; omega, by simp only [headerOf]; omega⟩, ?_⟩
  · simp only [headerOf]; rw [fid]; omega
  · simp only [headerOf]; rw [a31]; omega
  -- the mnemonic
  obtain ⟨H, hH⟩ : ∃ H, H = i0 * 1073741824 + i1 * 1048576 + i2 * 1024 + i3 := ⟨_, rfl⟩
  have hA : (headerOf i0 i1 i2 i3 L value).allBits = H * 1024 ^ m + value := by
    simp only [Share.allBits, headerOf, Nat.add_sub_cancel]
    rw [fid, fgc, a31, a15, a15, a15, Nat.shiftRight_eq_div_pow, Nat.shiftRight_eq_div_pow, Nat.shiftRight_eq_div_pow]
    rw [or_eq_add _ _ 5 (by omega), or_eq_add _ _ 4 (by omega), or_eq_add _ _ 4 (by omega),
      or_eq_add _ _ 4 (by omega), or_eq_add _ _ 4 (by omega), or_eq_add _ _ 4 (by omega), hpL,
      or_eq_add _ value (10 * m) (by rw [pow1024]; exact hvalue), pow1024]
    congr 1
    congr 1
    rw [hH]
    omega
  have hidx : wordsOfBits (H * 1024 ^ m + value) (4 + m) = i0 :: i1 :: i2 :: i3 :: rest.take m := by
    rw [show 4 + m = m + 1 + 1 + 1 + 1 by omega, wordsOfBits_succ, wordsOfBits_succ, wordsOfBits_succ, wordsOfBits_succ]
    rw [show 10 * (m + 1 + 1 + 1) = 10 * (m + 3) by omega, show 10 * (m + 1 + 1) = 10 * (m + 2) by omega,
      show 10 * m = 10 * (m + 0) by omega,
      shiftRight_header H value m 3 hvalue, shiftRight_header H value m 2 hvalue,
      shiftRight_header H value m 1 hvalue, shiftRight_header H value m 0 hvalue]
    have := wordsOfBits_valueOfWords (rest.take m) hvw H
    rw [hvwlen, hval] at this
    rw [this]
    simp only [and1023, Nat.shiftRight_eq_div_pow]
    have w0 : H / 2 ^ (10 * 3) % 1024 = i0 := by rw [hH]; omega
    have w1 : H / 2 ^ (10 * 2) % 1024 = i1 := by rw [hH]; omega
    have w2 : H / 2 ^ (10 * 1) % 1024 = i2 := by rw [hH]; omega
    have w3 : H / 2 ^ (10 * 0) % 1024 = i3 := by rw [hH]; omega
    rw [w0, w1, w2, w3]
  unfold Share.mnemonic
  have hnw : ((10 - (headerOf i0 i1 i2 i3 L value).shareBitLength % 10) % 10 +
      (headerOf i0 i1 i2 i3 L value).shareBitLength) / 10 = m := by
    simp only [headerOf]; omega
  simp only [hnw, hA, hidx]
  have hv' : rs1024Verify csShamir ((i0 :: i1 :: i2 :: i3 :: rest.take m) ++ [a, b, c]) = true := by
    rw [← hchk]
    have : (i0 :: i1 :: i2 :: i3 :: rest.take m) ++ rest.drop m = i0 :: i1 :: i2 :: i3 :: rest := by
      simp [List.take_append_drop]
    rw [this]; exact hv
  rw [create_unique csShamir _ a b c habc.1 habc.2.1 habc.2.2 hv', ← hchk]
  simp [List.take_append_drop]

end Embit.Model.Slip39
