import EmbitModel.Proofs.Slip39RsElim
/- RS1024 rank checks (kernel evaluation), part 6: all position triples whose largest offset is in [26, 12, 11, 10, 9, 8, 7, 6, 5, 4, 3, 2, 1, 0] -/
namespace Embit.Model.Slip39
set_option maxRecDepth 1000000 in
theorem tripleOk_26 : tripleOk 26 = true := by decide +kernel
set_option maxRecDepth 1000000 in
theorem tripleOk_12 : tripleOk 12 = true := by decide +kernel
set_option maxRecDepth 1000000 in
theorem tripleOk_11 : tripleOk 11 = true := by decide +kernel
set_option maxRecDepth 1000000 in
theorem tripleOk_10 : tripleOk 10 = true := by decide +kernel
set_option maxRecDepth 1000000 in
theorem tripleOk_9 : tripleOk 9 = true := by decide +kernel
set_option maxRecDepth 1000000 in
theorem tripleOk_8 : tripleOk 8 = true := by decide +kernel
set_option maxRecDepth 1000000 in
theorem tripleOk_7 : tripleOk 7 = true := by decide +kernel
set_option maxRecDepth 1000000 in
theorem tripleOk_6 : tripleOk 6 = true := by decide +kernel
set_option maxRecDepth 1000000 in
theorem tripleOk_5 : tripleOk 5 = true := by decide +kernel
set_option maxRecDepth 1000000 in
theorem tripleOk_4 : tripleOk 4 = true := by decide +kernel
set_option maxRecDepth 1000000 in
theorem tripleOk_3 : tripleOk 3 = true := by decide +kernel
set_option maxRecDepth 1000000 in
theorem tripleOk_2 : tripleOk 2 = true := by decide +kernel
set_option maxRecDepth 1000000 in
theorem tripleOk_1 : tripleOk 1 = true := by decide +kernel
set_option maxRecDepth 1000000 in
theorem tripleOk_0 : tripleOk 0 = true := by decide +kernel
end Embit.Model.Slip39
