/-
  Positional notation: little-endian digit lists in base `B ≥ 2` (canonical: no most-significant zeros) and
  fixed-width big-endian digit lists. Shared by base58 (58 / 256) and bech32 `convertbits` (2^k).
-/
namespace Embit.Digits

/-- canonical little-endian digits (`[]` for 0) -/
def toLE (B : Nat) (n : Nat) : List Nat :=
  if _h : n = 0 ∨ B < 2 then [] else n % B :: toLE B (n / B)
termination_by n
decreasing_by
  have : n / B < n := Nat.div_lt_self (by omega) (by omega)
  exact this

def ofLE (B : Nat) : List Nat → Nat
  | [] => 0
  | d :: ds => d + B * ofLE B ds

/-- canonical: all digits `< B`, most significant digit (last) non-zero -/
def Canon (B : Nat) (ds : List Nat) : Prop := (∀ d ∈ ds, d < B) ∧ ds.getLast? ≠ some 0

theorem toLE_zero (B : Nat) : toLE B 0 = [] := by unfold toLE; simp

theorem toLE_pos {B n : Nat} (hB : 2 ≤ B) (hn : n ≠ 0) : toLE B n = n % B :: toLE B (n / B) := by
  rw [toLE]; simp [hn]; omega

theorem ofLE_toLE {B : Nat} (hB : 2 ≤ B) (n : Nat) : ofLE B (toLE B n) = n := by
  induction n using Nat.strongRecOn with
  | _ n ih =>
    by_cases hn : n = 0
    · subst hn; simp [toLE_zero, ofLE]
    · rw [toLE_pos hB hn]
      have : n / B < n := Nat.div_lt_self (by omega) (by omega)
      simp only [ofLE, ih _ this]
      exact Nat.mod_add_div n B

theorem Canon.tail {B d : Nat} {rest : List Nat} (hc : Canon B (d :: rest)) (hr : rest ≠ []) : Canon B rest := by
  refine ⟨fun x hx => hc.1 x (List.mem_cons_of_mem _ hx), ?_⟩
  have := hc.2
  cases rest with
  | nil => exact absurd rfl hr
  | cons e rest' => simpa [List.getLast?_cons_cons] using this

theorem canon_nil (B : Nat) : Canon B [] := ⟨by simp, by simp⟩

theorem ofLE_pos_of_canon {B : Nat} {ds : List Nat} (hc : Canon B ds) (hne : ds ≠ []) : ofLE B ds ≠ 0 := by
  induction ds with
  | nil => exact absurd rfl hne
  | cons d rest ih =>
    by_cases hr : rest = []
    · subst hr
      have := hc.2
      simp at this
      simp [ofLE, this]
    · have := ih (hc.tail hr) hr
      simp only [ofLE]
      have hB : B ≠ 0 := by
        intro h0
        have := hc.1 d (List.mem_cons_self)
        omega
      have : B * ofLE B rest ≠ 0 := Nat.mul_ne_zero hB this
      omega

theorem toLE_ofLE {B : Nat} (hB : 2 ≤ B) {ds : List Nat} (hc : Canon B ds) : toLE B (ofLE B ds) = ds := by
  induction ds with
  | nil => simp [ofLE, toLE_zero]
  | cons d rest ih =>
    have hd : d < B := hc.1 d List.mem_cons_self
    have hne : ofLE B (d :: rest) ≠ 0 := ofLE_pos_of_canon hc (by simp)
    have hrest : toLE B (ofLE B rest) = rest := by
      by_cases hr : rest = []
      · subst hr; simp [ofLE, toLE_zero]
      · exact ih (hc.tail hr)
    rw [toLE_pos hB hne]
    simp only [ofLE] at hne ⊢
    have h1 : (d + B * ofLE B rest) % B = d := by
      rw [Nat.add_mul_mod_self_left]; exact Nat.mod_eq_of_lt hd
    have h2 : (d + B * ofLE B rest) / B = ofLE B rest := by
      rw [Nat.add_mul_div_left _ _ (by omega : 0 < B), Nat.div_eq_of_lt hd]; simp
    rw [h1, h2, hrest]

theorem toLE_canon {B : Nat} (hB : 2 ≤ B) (n : Nat) : Canon B (toLE B n) := by
  induction n using Nat.strongRecOn with
  | _ n ih =>
    by_cases hn : n = 0
    · subst hn; rw [toLE_zero]; exact canon_nil B
    · rw [toLE_pos hB hn]
      have hlt : n / B < n := Nat.div_lt_self (by omega) (by omega)
      have ih' := ih _ hlt
      refine ⟨?_, ?_⟩
      · intro d hd
        simp only [List.mem_cons] at hd
        rcases hd with rfl | hd
        · exact Nat.mod_lt _ (by omega)
        · exact ih'.1 d hd
      · by_cases hq : n / B = 0
        · have e : toLE B (n / B) = [] := by rw [hq, toLE_zero]
          simp only [e, List.getLast?_singleton, ne_eq, Option.some.injEq]
          intro hm
          have := Nat.mod_add_div n B
          rw [hq, hm] at this; omega
        · have e : toLE B (n / B) = (n / B) % B :: toLE B (n / B / B) := toLE_pos hB hq
          have h2 := ih'.2
          rw [e] at h2 ⊢
          simpa [List.getLast?_cons_cons] using h2

/-- value of a big-endian digit list via a left fold -/
def ofBE (B : Nat) (ds : List Nat) : Nat := ds.foldl (fun a d => a * B + d) 0

theorem foldl_ofBE (B : Nat) (a : Nat) (ds : List Nat) :
    ds.foldl (fun a d => a * B + d) a = a * B ^ ds.length + ofBE B ds := by
  induction ds generalizing a with
  | nil => simp [ofBE]
  | cons d rest ih =>
    simp only [List.foldl_cons, List.length_cons, ofBE]
    rw [ih, ih (0 * B + d)]
    simp [Nat.pow_succ, Nat.add_mul, Nat.mul_assoc, Nat.add_assoc, Nat.mul_comm B]

theorem ofBE_reverse (B : Nat) (ds : List Nat) : ofBE B ds.reverse = ofLE B ds := by
  induction ds with
  | nil => rfl
  | cons d rest ih =>
    simp only [List.reverse_cons, ofBE, List.foldl_append, List.foldl_cons, List.foldl_nil, ofLE]
    have := ih; unfold ofBE at this; rw [this]; rw [Nat.mul_comm, Nat.add_comm]

/-! ### fixed-width big-endian digits -/

/-- the `k` least significant base-`B` digits of `n`, most significant first -/
def fixedBE (B : Nat) : Nat → Nat → List Nat
  | 0, _ => []
  | k+1, n => fixedBE B k (n / B) ++ [n % B]

@[simp] theorem fixedBE_length (B k n : Nat) : (fixedBE B k n).length = k := by
  induction k generalizing n with
  | zero => rfl
  | succ k ih => simp [fixedBE, ih]

theorem fixedBE_lt {B : Nat} (hB : 0 < B) (k n : Nat) : ∀ d ∈ fixedBE B k n, d < B := by
  induction k generalizing n with
  | zero => simp [fixedBE]
  | succ k ih =>
    intro d hd
    simp only [fixedBE, List.mem_append, List.mem_singleton] at hd
    rcases hd with hd | rfl
    · exact ih _ d hd
    · exact Nat.mod_lt _ hB

theorem ofBE_append (B : Nat) (xs ys : List Nat) : ofBE B (xs ++ ys) = ofBE B xs * B ^ ys.length + ofBE B ys := by
  unfold ofBE; rw [List.foldl_append, foldl_ofBE]; rfl

theorem ofBE_fixedBE (B : Nat) (k n : Nat) : ofBE B (fixedBE B k n) = n % B ^ k := by
  induction k generalizing n with
  | zero => simp [fixedBE, ofBE, Nat.mod_one]
  | succ k ih =>
    simp only [fixedBE, ofBE_append, ih, List.length_singleton, Nat.pow_one]
    have : ofBE B [n % B] = n % B := by simp [ofBE]
    rw [this, Nat.pow_succ, Nat.mul_comm (B ^ k) B, Nat.mod_mul, Nat.add_comm, Nat.mul_comm]

theorem fixedBE_ofBE_rev {B : Nat} (hB : 0 < B) (rs : List Nat) (h : ∀ d ∈ rs, d < B) :
    fixedBE B rs.length (ofBE B rs.reverse) = rs.reverse := by
  induction rs with
  | nil => rfl
  | cons d rest ih =>
    have hd : d < B := h d (by simp)
    have hr : ∀ x ∈ rest, x < B := fun x hx => h x (by simp [hx])
    rw [List.reverse_cons, List.length_cons, fixedBE, ofBE_append]
    have : ofBE B [d] = d := by simp [ofBE]
    rw [this, List.length_singleton, Nat.pow_one]
    have h1 : (ofBE B rest.reverse * B + d) / B = ofBE B rest.reverse := by
      rw [Nat.mul_comm, Nat.mul_add_div hB, Nat.div_eq_of_lt hd]; simp
    have h2 : (ofBE B rest.reverse * B + d) % B = d := by
      rw [Nat.mul_comm, Nat.mul_add_mod]; exact Nat.mod_eq_of_lt hd
    rw [h1, h2, ih hr]

theorem fixedBE_ofBE {B : Nat} (hB : 0 < B) (ds : List Nat) (h : ∀ d ∈ ds, d < B) :
    fixedBE B ds.length (ofBE B ds) = ds := by
  have := fixedBE_ofBE_rev hB ds.reverse (by simpa using h)
  simpa using this

theorem ofBE_lt {B : Nat} (hB : 0 < B) (ds : List Nat) (h : ∀ d ∈ ds, d < B) : ofBE B ds < B ^ ds.length := by
  have := ofBE_fixedBE B ds.length (ofBE B ds)
  rw [fixedBE_ofBE hB ds h] at this
  rw [this]
  exact Nat.mod_lt _ (Nat.pow_pos hB)

/-- appending one more least-significant digit -/
theorem fixedBE_succ (B k n : Nat) : fixedBE B (k + 1) n = fixedBE B k (n / B) ++ [n % B] := rfl

end Embit.Digits
