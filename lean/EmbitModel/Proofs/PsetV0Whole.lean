import EmbitModel.Proofs.PsetEmit
/-
  C18 (round 6): whole version-0 PSETs after the repairs `d53` / `b4` — the transaction rebuilt from the scopes is the
  global transaction WITHOUT the side condition `D53Free` on the transaction (composition of the per-scope facts over
  `LPset.parse_decomp`; `hasWitness t = false` is carried out of `lglobalFold`).
-/
set_option linter.unusedSimpArgs false
set_option linter.unusedVariables false
namespace Embit
open Model Spec.LWire

/-- the only side condition left: no input scope carries the PSETv2 issuance fields `pset 00` / `pset 01` (which by
    design take precedence over the issuance of the global transaction) -/
def NoOwnIssuance (ins : List (List KV)) : Bool :=
  ins.all (fun kvs => kvs.all (fun kv => kv.1 != LInField.key .issueValue && kv.1 != LInField.key .issueCommitment))

theorem LInWitness.eq_of_isEmpty (w : LInWitness) (h : LInWitness.isEmpty w = true) : w = {} := by
  cases w with
  | mk a b c d =>
    simp [LInWitness.isEmpty] at h
    obtain ⟨⟨⟨rfl, rfl⟩, rfl⟩, rfl⟩ := h
    rfl

theorem LOutWitness.eq_of_isEmpty (w : LOutWitness) (h : LOutWitness.isEmpty w = true) : w = {} := by
  cases w with
  | mk a b =>
    simp [LOutWitness.isEmpty] at h
    obtain ⟨rfl, rfl⟩ := h
    rfl

theorem LTx.noWitness_parts (t : LTx) (h : LTx.hasWitness t = false) :
    (∀ i ∈ t.vin, i.witness = {}) ∧ (∀ o ∈ t.vout, o.witness = {}) := by
  simp only [LTx.hasWitness, Bool.or_eq_false_iff, List.any_eq_false] at h
  constructor
  · intro i hi
    exact LInWitness.eq_of_isEmpty _ (by simpa using h.1 i hi)
  · intro o ho
    exact LOutWitness.eq_of_isEmpty _ (by simpa using h.2 o ho)

/-- fix `b4`: the transaction the global scope accepts carries no witness -/
theorem lglobalFold_noWitness : ∀ (g : List KV) (tx : Option LTx) (ver : Option Nat) (unk : List KV)
    (tx' : Option LTx) (ver' : Option Nat) (unk' : List KV),
    lglobalFold tx ver unk g = some (tx', ver', unk') →
      ∀ t, tx' = some t → tx = some t ∨ LTx.hasWitness t = false := by
  intro g
  induction g with
  | nil =>
    intro tx ver unk tx' ver' unk' h t ht
    simp [lglobalFold] at h; obtain ⟨rfl, rfl, rfl⟩ := h
    exact Or.inl ht
  | cons kv g ih =>
    intro tx ver unk tx' ver' unk' h t0 ht0
    obtain ⟨k, v⟩ := kv
    simp only [lglobalFold] at h
    split at h
    · split at h
      · simp at h
      · rename_i htx
        split at h
        · simp at h
        · rename_i t ht
          split at h
          · simp at h
          · split at h
            · simp at h
            · rename_i hnw
              rcases ih _ _ _ _ _ _ h t0 ht0 with hh | hh
              · simp at hh; subst hh
                exact Or.inr (by simpa using hnw)
              · exact Or.inr hh
    · split at h
      · split at h
        · simp at h
        · split at h
          · simp at h
          · exact ih _ _ _ _ _ _ h t0 ht0
      · split at h
        · simp at h
        · exact ih _ _ _ _ _ _ h t0 ht0

/-- input scope read on top of its version-0 seed: the input rebuilt from it IS the input of the global transaction,
    whatever issuance / peg-in flag that input carries (the statement of `C18Z.pset_v0_input_kept`) -/
theorem LInScope.vin_of_seed_kept (ko : KeyOps) (t : LTx) (j : Nat) (hj : j < t.vin.length) (kvs : List KV) (s : LInScope)
    (h : LInScope.addPairs ko (lseedIn (some t) j) kvs = some s)
    (hu : t.vin[j].scriptSig = []) (hw : t.vin[j].witness = {})
    (hk : ∀ kv ∈ kvs, kv.1 ≠ LInField.key .issueValue ∧ kv.1 ≠ LInField.key .issueCommitment) :
    s.vin = some t.vin[j] := by
  have hseed : InSeeded (lseedIn (some t) j).base := by
    simp [lseedIn, List.getElem?_eq_getElem hj, InSeeded]
  obtain ⟨⟨e1, e2, e3⟩, hl⟩ := LInScope.addPairs_facts ko kvs _ s hseed h
  have l1 := hl .issueValue (by simp [lseedIn, List.getElem?_eq_getElem hj, lget]) (fun kv hkv => (hk kv hkv).1)
  have l2 := hl .issueCommitment (by simp [lseedIn, List.getElem?_eq_getElem hj, lget]) (fun kv hkv => (hk kv hkv).2)
  simp [lseedIn, List.getElem?_eq_getElem hj] at e1 e2 e3
  have hai : s.assetIssuance = none := by
    simp [LInScope.assetIssuance, LInScope.geti, l1, l2, truthyN, truthyB]
  obtain ⟨p1, p2⟩ := LInScope.addPairs_txparts ko kvs _ s h
  simp [lseedIn, List.getElem?_eq_getElem hj] at p1 p2
  simp only [LInScope.vin, LInScope.issuance, e1, e2, e3, hai, p1, p2, Option.getD_some]
  cases hh : t.vin[j] with
  | mk a1 a2 a3 a4 a5 a6 a7 =>
    simp [hh] at hu hw ⊢
    simp_all

/-- the same for an output scope, nonce included (the statement of `C18Z.pset_v0_output_kept`) -/
theorem LOutScope.vout_of_seed_kept (ko : KeyOps) (t : LTx) (j : Nat) (hj : j < t.vout.length) (kvs : List KV)
    (s : LOutScope) (h : LOutScope.addPairs ko (lseedOut (some t) j) kvs = some s)
    (hne : ∀ kv ∈ kvs, kv.1 ≠ [])
    (hwa : WFAsset t.vout[j].asset) (hw : t.vout[j].witness = {}) :
    s.vout = some t.vout[j] := by
  cases hv : t.vout[j].value with
  | explicit v =>
    have hseed : LOutSeededG (lseedOut (some t) j) := by
      simp [lseedOut, List.getElem?_eq_getElem hj, hv, LOutSeededG, lget]
    obtain ⟨_, _, e0, e⟩ := LOutScope.addPairs_losslessG ko none kvs _ s (Or.inr hseed) hne h
    obtain ⟨e1, e2, e3⟩ := e hseed
    simp [lseedOut, List.getElem?_eq_getElem hj, hv, lget] at e0 e1 e2 e3
    have ht := WFAsset_truthy _ hwa
    have q := LOutScope.addPairs_txparts ko kvs _ s h
    simp [lseedOut, List.getElem?_eq_getElem hj, hv] at q
    simp only [LOutScope.vout, LOutScope.get, e0, e1, e2, e3, ht, if_true, WFAsset_norm _ hwa, q]
    cases hh : t.vout[j] with
    | mk a1 a2 a3 a4 a5 =>
      simp [hh] at hv hw ⊢
      simp_all
  | conf c =>
    have hseed : LOutSeededG (lseedOut (some t) j) := by
      simp [lseedOut, List.getElem?_eq_getElem hj, hv, LOutSeededG, lget]
    obtain ⟨_, _, e0, e⟩ := LOutScope.addPairs_losslessG ko none kvs _ s (Or.inr hseed) hne h
    obtain ⟨e1, e2, e3⟩ := e hseed
    simp [lseedOut, List.getElem?_eq_getElem hj, hv, lget] at e0 e1 e2 e3
    have ht := WFAsset_truthy _ hwa
    have q := LOutScope.addPairs_txparts ko kvs _ s h
    simp [lseedOut, List.getElem?_eq_getElem hj, hv] at q
    simp only [LOutScope.vout, LOutScope.get, e0, e1, e2, e3, ht, if_true, WFAsset_norm _ hwa, q]
    cases hh : t.vout[j] with
    | mk a1 a2 a3 a4 a5 =>
      simp [hh] at hv hw ⊢
      simp_all

/-- version 0 after the repairs: the transaction rebuilt from the scopes IS the global transaction (any issuance,
    peg-in flag, nonce) — as `LPset.tx_of_v0`, with `hasWitness t = false` (which the global scope checks) and
    `NoOwnIssuance` in the place of `D53Free` -/
theorem LPset.tx_of_v0_kept (ko : KeyOps) (p : LPset) (t : LTx) (kin kout : List (List KV))
    (hwf : WF t) (hu : LUnsigned t) (hnw : LTx.hasWitness t = false)
    (wo : ∀ kvs ∈ kout, ∀ kv ∈ kvs, KVWF kv)
    (hv : p.txVersion = some t.version) (hl : p.locktime = some t.locktime)
    (li : p.inputs.length = t.vin.length) (lo : p.outputs.length = t.vout.length)
    (fi : ∀ j, j < p.inputs.length → ∃ kvs s, kin[j]? = some kvs ∧ p.inputs[j]? = some s
            ∧ LInScope.addPairs ko (lseedIn (some t) j) kvs = some s)
    (fo : ∀ j, j < p.outputs.length → ∃ kvs s, kout[j]? = some kvs ∧ p.outputs[j]? = some s
            ∧ LOutScope.addPairs ko (lseedOut (some t) j) kvs = some s)
    (hfree : NoOwnIssuance kin = true) : p.tx = some t := by
  simp only [NoOwnIssuance, Bool.and_eq_true, List.all_eq_true, bne_iff_ne, ne_eq] at hfree
  obtain ⟨hwi, hwo⟩ := LTx.noWitness_parts t hnw
  have hvin : optAll (p.inputs.map LInScope.vin) = some t.vin := by
    apply optAll_map_eq_get
    · exact li
    · intro j a ha
      have hj : j < p.inputs.length := (List.getElem?_eq_some_iff.mp ha).1
      have hjt : j < t.vin.length := by omega
      obtain ⟨kvs, s, a1, a2, a3⟩ := fi j hj
      rw [ha] at a2; simp at a2; subst a2
      refine ⟨t.vin[j], List.getElem?_eq_getElem hjt, ?_⟩
      have hm := List.getElem_mem hjt
      exact LInScope.vin_of_seed_kept ko t j hjt kvs a a3 (hu _ hm) (hwi _ hm)
        (fun kv hkv => hfree kvs (List.mem_of_getElem? a1) kv hkv)
  have hvout : optAll (p.outputs.map LOutScope.vout) = some t.vout := by
    apply optAll_map_eq_get
    · exact lo
    · intro j a ha
      have hj : j < p.outputs.length := (List.getElem?_eq_some_iff.mp ha).1
      have hjt : j < t.vout.length := by omega
      obtain ⟨kvs, s, a1, a2, a3⟩ := fo j hj
      rw [ha] at a2; simp at a2; subst a2
      refine ⟨t.vout[j], List.getElem?_eq_getElem hjt, ?_⟩
      have hm := List.getElem_mem hjt
      exact LOutScope.vout_of_seed_kept ko t j hjt kvs a a3
        (fun kv hkv => (wo kvs (List.mem_of_getElem? a1) kv hkv).1) (hwf.outs _ hm).asset (hwo _ hm)
  simp only [LPset.tx, hvin, hvout, hv, hl]
  simp

/-- `LPset.parse_lossless` with the version-0 clause freed of `D53Free`: the global transaction is unsigned, carries no
    witness, and — when no input scope holds `pset 00/01` — is the transaction rebuilt from the scopes, whatever
    issuance / peg-in flag / nonce it carries; every global pair is written back -/
theorem LPset.parse_lossless_kept (ko : KeyOps) (b : Bytes) (p : LPset) (h : LPset.parse ko b = some p) :
    ∃ (g : List KV) (ins outs : List (List KV)),
      b = psetMagic ++ writeKVs g ++ ins.flatMap writeKVs ++ outs.flatMap writeKVs
      ∧ (∀ kv ∈ g, KVWF kv) ∧ (∀ kvs ∈ ins, ∀ kv ∈ kvs, KVWF kv) ∧ (∀ kvs ∈ outs, ∀ kv ∈ kvs, KVWF kv)
      ∧ ins.length = p.inputs.length ∧ outs.length = p.outputs.length
      ∧ (∀ (j : Nat) (kvs : List KV) (s : LInScope), ins[j]? = some kvs → p.inputs[j]? = some s →
            (∀ kv ∈ kvs, kv ∈ s.pairs p.version) ∧ kvs.Perm (s.pairs p.version)
            ∧ ((s.pairs p.version).map Prod.fst).Nodup)
      ∧ (∀ (j : Nat) (kvs : List KV) (s : LOutScope), outs[j]? = some kvs → p.outputs[j]? = some s →
            s.pairs p.version = some (s.pairsL p.version)
            ∧ (∀ kv ∈ kvs, (LOutField.canonKey p.version kv.1, kv.2) ∈ s.pairsL p.version)
            ∧ (kvs.map (fun kv => (LOutField.canonKey p.version kv.1, kv.2))).Perm (s.pairsL p.version)
            ∧ ((s.pairsL p.version).map Prod.fst).Nodup)
      ∧ (p.version = some 2 → (∀ kv ∈ g, kv.1 ≠ [0x00]) ∧ ∃ gp, p.globalPairs = some gp ∧ ∀ kv ∈ g, kv ∈ gp)
      ∧ (p.version ≠ some 2 → ∃ t, ([0x00], LTx.ser t) ∈ g ∧ WF t ∧ LUnsigned t ∧ LTx.hasWitness t = false
            ∧ p.inputs.length = t.vin.length ∧ p.outputs.length = t.vout.length
            ∧ (∀ gp, p.globalPairs = some gp → ∀ kv ∈ g, kv.1 ≠ [0x00] → kv ∈ gp)
            ∧ (NoOwnIssuance ins = true → p.tx = some t ∧ LTx.serOpt t = some (LTx.ser t)
                 ∧ ∃ gp, p.globalPairs = some gp ∧ ∀ kv ∈ g, kv ∈ gp)) := by
  obtain ⟨g, kin, kout, tx, unk, gs, eb, wg, ws, hgf, hpu, hver, q1, q2, q3, q4, l1, l2, l3, l4, fi, fo⟩ :=
    LPset.parse_decomp ko b p h
  obtain ⟨f1, f2, f3, f5, f4⟩ := lglobalFold_spec g none none [] tx p.version unk hgf
  have hnd := lglobalFold_nodup g none none [] tx p.version unk hgf (by simp)
  obtain ⟨u1, u2, u3, u4, u5, u6, u7, u8⟩ := parseUnknowns_spec ko (p.version == some 2) unk _ gs hnd hpu
  have wi : ∀ kvs ∈ kin, ∀ kv ∈ kvs, KVWF kv := fun kvs hk => ws kvs (by simp [hk])
  have wo : ∀ kvs ∈ kout, ∀ kv ∈ kvs, KVWF kv := fun kvs hk => ws kvs (by simp [hk])
  -- the non-transaction part of the global scope, whatever the version
  have hglob : ∀ txp : List KV, ∀ kv ∈ g, kv.1 ≠ [0x00] → kv ∈
      txp ++ p.xpubs.map (fun (x, d) => (0x01 :: x, Deriv.ser d))
      ++ (if (p.version == some 2) = true then
            optKV [0x02] (p.txVersion.map (leN 4)) ++ optKV [0x03] (p.locktime.map (leN 4))
            ++ [([0x04], Compact.enc p.inputs.length), ([0x05], Compact.enc p.outputs.length)]
          else [])
      ++ optKV [0xfb] (p.version.map (leN 4)) ++ p.unknown := by
    intro txp kv hkv hk0
    rcases f4 kv hkv with ⟨e, _⟩ | ⟨e, n, hn, hl⟩ | ⟨hu, _, _⟩
    · exact absurd e hk0
    · obtain ⟨k, v⟩ := kv; simp at e hl; subst e; subst hl
      simp [optKV, hn]
    · obtain ⟨k, v⟩ := kv
      rcases u8 (k, v) hu with ⟨x, d, e1, e2, e3⟩ | ⟨c, e1, n, e2, e3⟩ | ⟨c, e1, n, e2, e3⟩
          | ⟨c, e1, n, e2, e3⟩ | ⟨c, e1, n, e2, e3⟩ | e1
      · simp at e1 e3; subst e1; subst e3
        refine List.mem_append_left _ (List.mem_append_left _ (List.mem_append_left _ (List.mem_append_right _ ?_)))
        rw [q3]; exact List.mem_map.mpr ⟨(x, d), e2, rfl⟩
      · simp at e1 e3; subst e1; subst e3; simp [optKV, q1, e2, c]
      · simp at e1 e3; subst e1; subst e3; simp [optKV, q2, e2, c]
      · simp at e1 e3; subst e1; subst e3
        rw [e2] at l3; simp at l3
        simp [c, l3]
      · simp at e1 e3; subst e1; subst e3
        rw [e2] at l4; simp at l4
        simp [c, l4]
      · simp [q4, e1]
  refine ⟨g, kin, kout, by simp [eb, List.append_assoc], wg, wi, wo, l1, l2, ?_, ?_, ?_, ?_⟩
  · -- inputs
    intro j kvs s hk hs
    have hj : j < p.inputs.length := (List.getElem?_eq_some_iff.mp hs).1
    obtain ⟨kvs', s', a1, a2, a3⟩ := fi j hj
    rw [hk] at a1; simp at a1; subst a1
    rw [hs] at a2; simp at a2; subst a2
    have hne : ∀ kv ∈ kvs, kv.1 ≠ [] := fun kv hkv => (wi kvs (List.mem_of_getElem? hk) kv hkv).1
    have hseed : (p.version = some 2 ∨ InSeeded (lseedIn tx j).base) ∧ (lseedIn tx j).pairs p.version = [] := by
      rcases hver with ⟨hv, htx⟩ | ⟨hv, t, ht⟩
      · subst htx
        exact ⟨Or.inl hv, by simp [lseedIn, LInScope.pairs, LInScope.lpairs, InScope.pairs, optKV, lget]⟩
      · subst ht
        have hcn := (u7 (by simp [hv])).2.2.1
        rw [hcn] at l3; simp [lgstate0] at l3
        have : j < t.vin.length := by omega
        exact ⟨Or.inr (by simp [lseedIn, List.getElem?_eq_getElem this, InSeeded]),
          by simp [lseedIn, List.getElem?_eq_getElem this, LInScope.pairs, LInScope.lpairs, InScope.pairs, optKV, lget, hv]⟩
    exact ⟨(LInScope.addPairs_lossless ko p.version kvs _ s hseed.1 hne a3).1,
      LInScope.pairs_perm ko p.version kvs _ s hseed.1 hseed.2 hne a3,
      LInScope.pairs_keys_nodup ko p.version kvs _ s hseed.1 hseed.2 hne a3⟩
  · -- outputs
    intro j kvs s hk hs
    have hj : j < p.outputs.length := (List.getElem?_eq_some_iff.mp hs).1
    obtain ⟨kvs', s', a1, a2, a3⟩ := fo j hj
    rw [hk] at a1; simp at a1; subst a1
    rw [hs] at a2; simp at a2; subst a2
    have hne : ∀ kv ∈ kvs, kv.1 ≠ [] := fun kv hkv => (wo kvs (List.mem_of_getElem? hk) kv hkv).1
    have hseed : p.version = some 2 ∨ LOutSeededG (lseedOut tx j) := by
      rcases hver with ⟨hv, _⟩ | ⟨hv, t, ht⟩
      · exact Or.inl hv
      · right
        subst ht
        have hcn := (u7 (by simp [hv])).2.2.2
        rw [hcn] at l4; simp [lgstate0] at l4
        have : j < t.vout.length := by omega
        cases hval : t.vout[j].value <;>
          simp [lseedOut, List.getElem?_eq_getElem this, hval, LOutSeededG, lget]
    have hseed0 : (lseedOut tx j).pairsL p.version = [] := by
      rcases hver with ⟨hv, htx⟩ | ⟨hv, t, ht⟩
      · subst htx
        simp [lseedOut, LOutScope.pairsL, LOutScope.lpairs, OutScope.pairs, optKV, lget]
      · subst ht
        have hcn := (u7 (by simp [hv])).2.2.2
        rw [hcn] at l4; simp [lgstate0] at l4
        have : j < t.vout.length := by omega
        have hb2 : (p.version == some 2) = false := by simp [hv]
        cases hval : t.vout[j].value <;>
          simp [lseedOut, List.getElem?_eq_getElem this, hval, LOutScope.pairsL, LOutScope.lpairs, OutScope.pairs,
            optKV, lget, hv, hb2, LOutField.order]
    obtain ⟨m1, _, m3, _⟩ := LOutScope.addPairs_losslessG ko p.version kvs _ s hseed hne a3
    refine ⟨?_, m1, LOutScope.pairsL_perm ko p.version kvs _ s hseed hseed0 hne a3,
      LOutScope.pairsL_keys_nodup ko p.version kvs _ s hseed hseed0 hne a3⟩
    rw [LOutScope.pairs_eq]
    rcases hver with ⟨hv, htx⟩ | ⟨hv, _⟩
    · subst htx
      have : s.valueConf = none := by rw [m3]; rfl
      simp [this]
    · simp [hv]
  · -- version 2
    intro hv2
    have htx : tx = none := by
      rcases hver with ⟨_, htx⟩ | ⟨hv, _⟩
      · exact htx
      · exact absurd hv2 hv
    subst htx
    have hno0 : ∀ kv ∈ g, kv.1 ≠ [0x00] := by
      intro kv hkv e
      rcases f4 kv hkv with ⟨_, t, ht, _⟩ | ⟨e', _⟩ | ⟨_, e', _⟩
      · simp at ht
      · rw [e] at e'; simp at e'
      · exact e' e
    refine ⟨hno0, ?_⟩
    have hb : (p.version == some 2) = true := by simp [hv2]
    refine ⟨_, by simp only [LPset.globalPairs, hb]; rfl, ?_⟩
    intro kv hkv
    have := hglob [] kv hkv (hno0 kv hkv)
    simpa [hb] using this
  · -- version 0
    intro hv0
    obtain ⟨t, ht⟩ : ∃ t, tx = some t := by
      rcases hver with ⟨hv, _⟩ | ⟨_, ht⟩
      · exact absurd hv hv0
      · exact ht
    subst ht
    have hb : (p.version == some 2) = false := by simp [hv0]
    obtain ⟨hu, hwf⟩ : LUnsigned t ∧ WF t := by
      rcases f5 t rfl with hh | hh
      · simp at hh
      · exact hh
    obtain ⟨c1, c2, c3, c4⟩ := u7 hb
    rw [c3] at l3; simp [lgstate0] at l3
    rw [c4] at l4; simp [lgstate0] at l4
    -- the transaction pair
    have hmem : ([0x00], LTx.ser t) ∈ g := by
      have : ∃ kv ∈ g, kv.1 = [0x00] := by
        rcases lglobalFold_tx_mem g none none [] _ _ _ hgf with hh | hh
        · simp at hh
        · exact hh
      obtain ⟨kv, hkv, e⟩ := this
      rcases f4 kv hkv with ⟨_, t', ht', hs, _⟩ | ⟨e', _⟩ | ⟨_, e', _⟩
      · simp at ht'; subst ht'
        obtain ⟨k, v⟩ := kv; simp at e hs; subst e; subst hs; exact hkv
      · rw [e] at e'; simp at e'
      · exact absurd e e'
    have hnontx : ∀ gp, p.globalPairs = some gp → ∀ kv ∈ g, kv.1 ≠ [0x00] → kv ∈ gp := by
      intro gp hgp kv hkv hk0
      simp only [LPset.globalPairs, hb] at hgp
      cases htxp : (p.tx.bind fun t => (LTx.serOpt t).map fun b => [(([0x00] : Bytes), b)]) with
      | none => simp [htxp] at hgp
      | some txp =>
        simp [htxp] at hgp
        subst hgp
        have := hglob txp kv hkv hk0
        simpa [hb, List.append_assoc] using this
    have hnw : LTx.hasWitness t = false := by
      rcases lglobalFold_noWitness g none none [] _ _ _ hgf t rfl with hh | hh
      · simp at hh
      · exact hh
    refine ⟨t, hmem, hwf, hu, hnw, l3, l4, hnontx, ?_⟩
    · intro hfree
      have htx : p.tx = some t := by
        refine LPset.tx_of_v0_kept ko p t kin kout hwf hu hnw wo ?_ ?_ l3 l4 fi fo hfree
        · rw [q1, c1]; rfl
        · rw [q2, c2]; rfl
      have hfits : LTx.serOpt t = some (LTx.ser t) := by simp [LTx.serOpt, LTx.fits_of_wf t hwf]
      have hsome : ∃ gp, p.globalPairs = some gp ∧ ([0x00], LTx.ser t) ∈ gp := by
        simp [LPset.globalPairs, hb, htx, hfits]
      obtain ⟨gp, hgp, hmem0⟩ := hsome
      refine ⟨htx, hfits, gp, hgp, ?_⟩
      intro kv hkv
      by_cases hk0 : kv.1 = [0x00]
      · rcases f4 kv hkv with ⟨_, t', ht', hs, _⟩ | ⟨e', _⟩ | ⟨_, e', _⟩
        · simp at ht'; subst ht'
          obtain ⟨k, v⟩ := kv; simp at hk0 hs; subst hk0; subst hs
          exact hmem0
        · rw [hk0] at e'; simp at e'
        · exact absurd hk0 e'
      · exact hnontx gp hgp kv hkv hk0

end Embit
