import EmbitModel.Model.Owns
import EmbitModel.Spec.DescriptorSpec
/-
  Helper lemmas for C14: `AllowedDerivation.check_derivation` against the specification's `pathAt`,
  `Key.check_derivation` against `RecordOf`, and the two scanning loops of `owns`.
-/
namespace Embit.Model.Descriptor
open Embit Embit.Spec.Descriptor

def wildCount (ix : List Step) : Nat := (ix.filter fun s => s == .wild).length
def setCount (ix : List Step) : Nat := (ix.filter Step.isSet).length

@[simp] theorem wildCount_nil : wildCount [] = 0 := rfl
@[simp] theorem setCount_nil : setCount [] = 0 := rfl
@[simp] theorem wildCount_idx (n : Nat) (r : List Step) : wildCount (.idx n :: r) = wildCount r := by
  simp [wildCount, List.filter]
  rfl
@[simp] theorem wildCount_set (l : List (Option Nat)) (r : List Step) : wildCount (.set l :: r) = wildCount r := by
  simp [wildCount, List.filter]
  rfl
@[simp] theorem wildCount_wild (r : List Step) : wildCount (.wild :: r) = wildCount r + 1 := by
  simp [wildCount, List.filter]
@[simp] theorem setCount_idx (n : Nat) (r : List Step) : setCount (.idx n :: r) = setCount r := by
  simp [setCount, List.filter, Step.isSet]
@[simp] theorem setCount_wild (r : List Step) : setCount (.wild :: r) = setCount r := by
  simp [setCount, List.filter, Step.isSet]
@[simp] theorem setCount_set (l : List (Option Nat)) (r : List Step) : setCount (.set l :: r) = setCount r + 1 := by
  simp [setCount, List.filter, Step.isSet]

/-! ### `list.index` -/

theorem indexOfOpt_sound {x : Nat} {l : List (Option Nat)} {j : Nat} (h : indexOfOpt x l = some j) :
    l[j]? = some (some x) := by
  induction l generalizing j with
  | nil => simp [indexOfOpt] at h
  | cons y r ih =>
    unfold indexOfOpt at h
    split at h
    · rename_i hy
      cases h
      simp [hy]
    · cases hr : indexOfOpt x r with
      | none => simp [hr] at h
      | some j' =>
        simp [hr] at h
        subst h
        simpa using ih hr

theorem indexOfOpt_lt {x : Nat} {l : List (Option Nat)} {j : Nat} (h : indexOfOpt x l = some j) : j < l.length := by
  have := indexOfOpt_sound h
  exact (List.getElem?_eq_some_iff.mp this).1

/-- no element of the set is repeated -/
def NoDupSet : List (Option Nat) → Bool
  | [] => true
  | x :: r => !r.contains x && NoDupSet r

theorem indexOfOpt_complete {x : Nat} {l : List (Option Nat)} {j : Nat} (hn : NoDupSet l = true)
    (h : l[j]? = some (some x)) : indexOfOpt x l = some j := by
  induction l generalizing j with
  | nil => simp at h
  | cons y r ih =>
    simp only [NoDupSet, Bool.and_eq_true, Bool.not_eq_true'] at hn
    cases j with
    | zero =>
      simp at h
      simp [indexOfOpt, h]
    | succ j =>
      simp at h
      have hmem : some x ∈ r := List.mem_of_getElem? h
      have hne : y ≠ some x := by
        intro he
        subst he
        have : r.contains (some x) = true := by simpa using hmem
        rw [this] at hn
        exact absurd hn.1 (by simp)
      simp [indexOfOpt, hne, ih hn.2 h]

/-! ### `AllowedDerivation.check_derivation` -/

theorem checkStepsAux_idx_of_no_wild :
    ∀ (ix : List Step) (der : List Nat) (idx0 : Option Nat) (b0 : Nat) (idx : Option Nat) (b : Nat),
      wildCount ix = 0 → checkStepsAux ix der idx0 b0 = some (idx, b) → idx = idx0 := by
  intro ix
  induction ix with
  | nil => intro der idx0 b0 idx b _ h; simp [checkStepsAux] at h; exact h.1.symm
  | cons s r ih =>
    intro der idx0 b0 idx b hw h
    cases der with
    | nil => simp [checkStepsAux] at h; exact h.1.symm
    | cons d ds =>
      cases s with
      | idx n =>
        simp only [checkStepsAux] at h
        split at h
        · cases h
        · exact ih ds idx0 b0 idx b (by simpa using hw) h
      | set l =>
        simp only [checkStepsAux] at h
        split at h
        · cases h
        · exact ih ds idx0 _ idx b (by simpa using hw) h
      | wild => simp at hw

theorem checkStepsAux_b_of_no_set :
    ∀ (ix : List Step) (der : List Nat) (idx0 : Option Nat) (b0 : Nat) (idx : Option Nat) (b : Nat),
      setCount ix = 0 → checkStepsAux ix der idx0 b0 = some (idx, b) → b = b0 := by
  intro ix
  induction ix with
  | nil => intro der idx0 b0 idx b _ h; simp [checkStepsAux] at h; exact h.2.symm
  | cons s r ih =>
    intro der idx0 b0 idx b hw h
    cases der with
    | nil => simp [checkStepsAux] at h; exact h.2.symm
    | cons d ds =>
      cases s with
      | idx n =>
        simp only [checkStepsAux] at h
        split at h
        · cases h
        · exact ih ds idx0 b0 idx b (by simpa using hw) h
      | set l => simp at hw
      | wild =>
        simp only [checkStepsAux] at h
        exact ih ds _ b0 idx b (by simpa using hw) h

/-- soundness of the loop: the recorded path is the steps instantiated at the returned (index, branch) -/
theorem checkStepsAux_sound :
    ∀ (ix : List Step) (der : List Nat) (idx0 : Option Nat) (b0 : Nat) (idx : Option Nat) (b : Nat),
      wildCount ix ≤ 1 → setCount ix ≤ 1 → ix.length = der.length →
      checkStepsAux ix der idx0 b0 = some (idx, b) →
      ∀ i b', (wildCount ix = 0 ∨ idx = some i) → (setCount ix = 0 ∨ b' = b) → pathAt i b' ix = some der := by
  intro ix
  induction ix with
  | nil =>
    intro der idx0 b0 idx b _ _ hl _ i b' _ _
    cases der with
    | nil => rfl
    | cons _ _ => simp at hl
  | cons s r ih =>
    intro der idx0 b0 idx b hw hs hl h i b' hi hb
    cases der with
    | nil => simp at hl
    | cons d ds =>
      have hl' : r.length = ds.length := by simpa using hl
      cases s with
      | idx n =>
        simp only [checkStepsAux] at h
        split at h
        · cases h
        · rename_i hnd
          have hnd' : n = d := by simpa using hnd
          have := ih ds idx0 b0 idx b (by simpa using hw) (by simpa using hs) hl' h i b'
            (by simpa using hi) (by simpa using hb)
          simp [pathAt, this, hnd']
      | set l =>
        simp only [checkStepsAux] at h
        split at h
        · cases h
        · rename_i j hj
          have hs0 : setCount r = 0 := by simp at hs; omega
          have hbj : b = j := checkStepsAux_b_of_no_set r ds idx0 j idx b hs0 h
          have hb' : b' = b := by
            cases hb with
            | inl h0 => simp at h0
            | inr h1 => exact h1
          have := ih ds idx0 j idx b (by simpa using hw) (by omega) hl' h i b' (by simpa using hi) (Or.inl hs0)
          have hget := indexOfOpt_sound hj
          subst hb'
          subst hbj
          simp [pathAt, this, hget]
      | wild =>
        simp only [checkStepsAux] at h
        have hw0 : wildCount r = 0 := by simp at hw; omega
        have hid : idx = some d := checkStepsAux_idx_of_no_wild r ds (some d) b0 idx b hw0 h
        have hi' : i = d := by
          cases hi with
          | inl h0 => simp at h0
          | inr h1 => rw [hid] at h1; exact (Option.some.inj h1).symm
        have := ih ds (some d) b0 idx b (by omega) (by simpa using hs) hl' h i b' (Or.inl hw0) (by simpa using hb)
        subst hi'
        simp [pathAt, this]

/-- the branch the loop returns is 0 without a set, else an index into the (first) set -/
theorem checkStepsAux_branch :
    ∀ (ix : List Step) (der : List Nat) (idx0 : Option Nat) (b0 : Nat) (idx : Option Nat) (b : Nat),
      setCount ix ≤ 1 → checkStepsAux ix der idx0 b0 = some (idx, b) → ix.length = der.length →
      (setCount ix = 0 ∧ b = b0) ∨ (∃ l, branchesOf ix = some l ∧ b < l.length) := by
  intro ix
  induction ix with
  | nil => intro der idx0 b0 idx b _ h _; simp [checkStepsAux] at h; exact Or.inl ⟨rfl, h.2.symm⟩
  | cons s r ih =>
    intro der idx0 b0 idx b hs h hl
    cases der with
    | nil => simp at hl
    | cons d ds =>
      have hl' : r.length = ds.length := by simpa using hl
      cases s with
      | idx n =>
        simp only [checkStepsAux] at h
        split at h
        · cases h
        · have := ih ds idx0 b0 idx b (by simpa using hs) h hl'
          simpa [branchesOf] using this
      | set l =>
        simp only [checkStepsAux] at h
        split at h
        · cases h
        · rename_i j hj
          have hs0 : setCount r = 0 := by simp at hs; omega
          have hbj : b = j := checkStepsAux_b_of_no_set r ds idx0 j idx b hs0 h
          exact Or.inr ⟨l, by simp [branchesOf], by rw [hbj]; exact indexOfOpt_lt hj⟩
      | wild =>
        simp only [checkStepsAux] at h
        have := ih ds (some d) b0 idx b (by simpa using hs) h hl'
        simpa [branchesOf] using this

theorem pathAt_length : ∀ (ix : List Step) (i b : Nat) (p : List Nat), pathAt i b ix = some p → p.length = ix.length := by
  intro ix
  induction ix with
  | nil => intro i b p h; simp [pathAt] at h; subst h; rfl
  | cons s r ih =>
    intro i b p h
    cases s with
    | idx n =>
      simp only [pathAt] at h
      cases hr : pathAt i b r with
      | none => simp [hr] at h
      | some t => simp [hr] at h; subst h; simp [ih i b t hr]
    | wild =>
      simp only [pathAt] at h
      cases hr : pathAt i b r with
      | none => simp [hr] at h
      | some t => simp [hr] at h; subst h; simp [ih i b t hr]
    | set l =>
      simp only [pathAt] at h
      cases hr : pathAt i b r with
      | none => simp [hr] at h
      | some t =>
        cases hg : l[b]? with
        | none => simp [hr, hg] at h
        | some o =>
          cases o with
          | none => simp [hr, hg] at h
          | some n => simp [hr, hg] at h; subst h; simp [ih i b t hr]

/-- every set of the steps is duplicate-free -/
def NoDupSteps : List Step → Bool
  | [] => true
  | .set l :: r => NoDupSet l && NoDupSteps r
  | _ :: r => NoDupSteps r

/-- completeness of the loop -/
theorem checkStepsAux_complete :
    ∀ (ix : List Step) (der : List Nat) (idx0 : Option Nat) (b0 : Nat) (i b : Nat),
      NoDupSteps ix = true → pathAt i b ix = some der →
      checkStepsAux ix der idx0 b0 =
        some (if wildCount ix = 0 then idx0 else some i, if setCount ix = 0 then b0 else b) := by
  intro ix
  induction ix with
  | nil => intro der idx0 b0 i b _ h; simp [pathAt] at h; subst h; simp [checkStepsAux]
  | cons s r ih =>
    intro der idx0 b0 i b hn h
    cases s with
    | idx n =>
      simp only [pathAt] at h
      cases hr : pathAt i b r with
      | none => simp [hr] at h
      | some t =>
        simp [hr] at h; subst h
        simp only [checkStepsAux]
        simp [ih t idx0 b0 i b (by simpa [NoDupSteps] using hn) hr]
    | wild =>
      simp only [pathAt] at h
      cases hr : pathAt i b r with
      | none => simp [hr] at h
      | some t =>
        simp [hr] at h; subst h
        simp only [checkStepsAux]
        rw [ih t (some i) b0 i b (by simpa [NoDupSteps] using hn) hr]
        by_cases hw : wildCount r = 0 <;> simp [hw]
    | set l =>
      simp only [pathAt] at h
      cases hr : pathAt i b r with
      | none => simp [hr] at h
      | some t =>
        cases hg : l[b]? with
        | none => simp [hr, hg] at h
        | some o =>
          cases o with
          | none => simp [hr, hg] at h
          | some n =>
            simp [hr, hg] at h; subst h
            simp only [NoDupSteps, Bool.and_eq_true] at hn
            simp only [checkStepsAux, indexOfOpt_complete hn.1 hg]
            rw [ih t idx0 b i b hn.2 hr]
            by_cases hs : setCount r = 0 <;> simp [hs]

/-- at most one wildcard and at most one set (what `AllowedDerivation.__init__` enforces) -/
def StepsWF (ix : List Step) : Prop := wildCount ix ≤ 1 ∧ setCount ix ≤ 1

theorem checkSteps_sound {ix : List Step} {der : List Nat} {i b : Nat} (hwf : StepsWF ix)
    (h : checkSteps ix der = some (i, b)) :
    pathAt i b ix = some der ∧
      ((branchesOf ix = none ∧ b = 0) ∨ (∃ l, branchesOf ix = some l ∧ b < l.length)) := by
  unfold checkSteps at h
  split at h
  · cases h
  · rename_i hl
    have hl' : ix.length = der.length := by
      have : ¬ der.length ≠ ix.length := hl
      omega
    split at h
    · rename_i i' b' hc
      cases h
      refine ⟨checkStepsAux_sound ix der none 0 (some i) b hwf.1 hwf.2 hl' hc i b (Or.inr rfl) (Or.inr rfl), ?_⟩
      cases checkStepsAux_branch ix der none 0 (some i) b hwf.2 hc hl' with
      | inl h0 =>
        refine Or.inl ⟨?_, h0.2⟩
        have : ∀ ix : List Step, setCount ix = 0 → branchesOf ix = none := by
          intro ix
          induction ix with
          | nil => intro _; rfl
          | cons s r ih =>
            intro hs
            cases s with
            | idx n => simpa [branchesOf] using ih (by simpa using hs)
            | wild => simpa [branchesOf] using ih (by simpa using hs)
            | set l => simp at hs
        exact this ix h0.1
      | inr h1 => exact Or.inr h1
    · cases h

theorem checkSteps_complete {ix : List Step} {der : List Nat} {i b : Nat} (hn : NoDupSteps ix = true)
    (hw : wildCount ix ≠ 0) (hb : setCount ix ≠ 0 ∨ b = 0) (h : pathAt i b ix = some der) :
    checkSteps ix der = some (i, b) := by
  unfold checkSteps
  have hl := pathAt_length ix i b der h
  rw [if_neg (by omega)]
  rw [checkStepsAux_complete ix der none 0 i b hn h]
  simp only [hw, if_false]
  cases hb with
  | inl h1 => simp [h1]
  | inr h2 => by_cases hs : setCount ix = 0 <;> simp [hs, h2]

/-! ### `Key.check_derivation` -/

def KeyView.WF (k : KeyView) : Prop := ∀ ix, k.allowed = some ix → StepsWF ix

theorem take_append_drop_map (n : Nat) (p : List Nat) :
    p.map Int.ofNat = (p.take n).map Int.ofNat ++ (p.drop n).map Int.ofNat := by
  rw [← List.map_append, List.take_append_drop]

theorem KeyView.check_sound {k : KeyView} {r : DerivRec} {i b : Nat} (hwf : k.WF) (h : k.check r = some (i, b)) :
    RecordOf k r i b ∧ b < branchCount k := by
  unfold KeyView.check at h
  cases ha : k.allowed with
  | none => simp [ha] at h
  | some ix =>
    simp only [ha] at h
    split at h
    · rename_i ix' p heq1 heq2
      cases heq1
      have hs := checkSteps_sound (hwf ix ha) h
      refine ⟨⟨ix, p, ha, hs.1, ?_⟩, ?_⟩
      · by_cases hm : k.myFingerprint = some r.fingerprint
        · simp [hm] at heq2
          exact Or.inr ⟨hm, heq2⟩
        · simp only [hm, if_false] at heq2
          split at heq2
          · rename_i hf
            split at heq2
            · rename_i ho
              cases heq2
              refine Or.inl ⟨hf, ?_⟩
              rw [take_append_drop_map k.originPath.length r.path, ← ho]
            · cases heq2
          · cases heq2
      · unfold branchCount
        cases hs.2 with
        | inl h0 => simp [ha, h0.1, h0.2]
        | inr h1 =>
          obtain ⟨l, hl, hlt⟩ := h1
          simp [ha, hl, hlt]
    · rename_i hne
      exfalso
      cases hrest : (if k.myFingerprint = some r.fingerprint then some r.path else
          if k.fingerprint = some r.fingerprint then
            if k.originPath = List.map Int.ofNat (List.take k.originPath.length r.path) then
              some (List.drop k.originPath.length r.path) else none
          else none) with
      | none => simp [hrest] at h
      | some p => exact hne ix p rfl hrest

/-- origin fingerprint = own fingerprint only for a key that is its own origin (empty origin path) -/
def KeyView.OriginConsistent (k : KeyView) : Prop :=
  ∀ fp, k.myFingerprint = some fp → k.fingerprint = some fp → k.originPath = []

theorem map_ofNat_inj {a b : List Nat} (h : a.map Int.ofNat = b.map Int.ofNat) : a = b := by
  induction a generalizing b with
  | nil => cases b <;> simp_all
  | cons x xs ih =>
    cases b with
    | nil => simp at h
    | cons y ys =>
      simp only [List.map_cons, List.cons.injEq] at h
      rw [ih h.2, Int.ofNat.inj h.1]

theorem KeyView.check_complete {k : KeyView} {r : DerivRec} {i b : Nat} {ix : List Step}
    (ha : k.allowed = some ix) (hn : NoDupSteps ix = true) (hw : wildCount ix ≠ 0)
    (hb : setCount ix ≠ 0 ∨ b = 0) (hoc : k.OriginConsistent) (h : RecordOf k r i b) :
    k.check r = some (i, b) := by
  obtain ⟨steps, p, hst, hp, hcl⟩ := h
  rw [ha] at hst
  cases hst
  unfold KeyView.check
  simp only [ha]
  have key : ∀ rest, rest = p → checkSteps ix rest = some (i, b) := by
    intro rest hr; subst hr; exact checkSteps_complete hn hw hb hp
  cases hcl with
  | inr h2 =>
    simp only [h2.1, if_true]
    exact key _ h2.2
  | inl h1 =>
    by_cases hm : k.myFingerprint = some r.fingerprint
    · simp only [hm, if_true]
      have ho := hoc _ hm h1.1
      rw [ho] at h1
      exact key _ (map_ofNat_inj (by simpa using h1.2))
    · simp only [hm, if_false, h1.1, if_true]
      have hlen : k.originPath.length ≤ r.path.length := by
        have := congrArg List.length h1.2
        simp at this
        omega
      have htake : k.originPath = List.map Int.ofNat (List.take k.originPath.length r.path) := by
        have h3 := congrArg (List.take k.originPath.length) h1.2
        rw [List.take_left' rfl] at h3
        rw [List.map_take]
        exact h3.symm
      rw [if_pos htake]
      apply key
      have h3 := congrArg (List.drop k.originPath.length) h1.2
      rw [List.drop_left' rfl, ← List.map_drop] at h3
      exact map_ofNat_inj h3

/-! ### the scanning loops -/

theorem scanKeys_true {ds : Nat → Nat → Option Bytes} {spk : Bytes} {r : DerivRec} :
    ∀ {keys : List KeyView}, scanKeys ds spk r keys = some true →
      ∃ k, k ∈ keys ∧ k.extended = true ∧ ∃ i b, k.check r = some (i, b) ∧ ds i b = some spk := by
  intro keys
  induction keys with
  | nil => intro h; simp [scanKeys] at h
  | cons k ks ih =>
    intro h
    unfold scanKeys at h
    split at h
    · obtain ⟨k', hk, rest⟩ := ih h
      exact ⟨k', List.mem_cons_of_mem _ hk, rest⟩
    · rename_i hext
      split at h
      · obtain ⟨k', hk, rest⟩ := ih h
        exact ⟨k', List.mem_cons_of_mem _ hk, rest⟩
      · rename_i i b hc
        split at h
        · cases h
        · rename_i s hs
          split at h
          · rename_i heq
            have : s = spk := by simpa using heq
            subst this
            exact ⟨k, List.mem_cons_self, by simpa using hext, i, b, hc, hs⟩
          · obtain ⟨k', hk, rest⟩ := ih h
            exact ⟨k', List.mem_cons_of_mem _ hk, rest⟩

theorem scanRecords_true {keys : List KeyView} {ds : Nat → Nat → Option Bytes} {spk : Bytes} :
    ∀ {recs : List DerivRec}, scanRecords keys ds spk recs = some true →
      ∃ r, r ∈ recs ∧ scanKeys ds spk r keys = some true := by
  intro recs
  induction recs with
  | nil => intro h; simp [scanRecords] at h
  | cons r rs ih =>
    intro h
    unfold scanRecords at h
    split at h
    · cases h
    · rename_i hk
      exact ⟨r, List.mem_cons_self, hk⟩
    · obtain ⟨r', hr, rest⟩ := ih h
      exact ⟨r', List.mem_cons_of_mem _ hr, rest⟩

/-- no matching (record, key) pair makes `derive` raise -/
def NoRaise (keys : List KeyView) (ds : Nat → Nat → Option Bytes) (recs : List DerivRec) : Prop :=
  ∀ r, r ∈ recs → ∀ k, k ∈ keys → k.extended = true → ∀ i b, k.check r = some (i, b) → (ds i b).isSome = true

theorem scanKeys_ne_none {ds : Nat → Nat → Option Bytes} {spk : Bytes} {r : DerivRec} :
    ∀ {keys : List KeyView},
      (∀ k, k ∈ keys → k.extended = true → ∀ i b, k.check r = some (i, b) → (ds i b).isSome = true) →
      scanKeys ds spk r keys ≠ none := by
  intro keys
  induction keys with
  | nil => intro _; simp [scanKeys]
  | cons k ks ih =>
    intro hnr
    have ih' := ih (fun k' hk' => hnr k' (List.mem_cons_of_mem _ hk'))
    unfold scanKeys
    split
    · exact ih'
    · rename_i hext
      split
      · exact ih'
      · rename_i i b hc
        have := hnr k List.mem_cons_self (by simpa using hext) i b hc
        split
        · rename_i hd; simp [hd] at this
        · split
          · simp
          · exact ih'

theorem scanKeys_complete {ds : Nat → Nat → Option Bytes} {spk : Bytes} {r : DerivRec} :
    ∀ {keys : List KeyView},
      (∀ k, k ∈ keys → k.extended = true → ∀ i b, k.check r = some (i, b) → (ds i b).isSome = true) →
      (∃ k, k ∈ keys ∧ k.extended = true ∧ ∃ i b, k.check r = some (i, b) ∧ ds i b = some spk) →
      scanKeys ds spk r keys = some true := by
  intro keys
  induction keys with
  | nil => intro _ h; obtain ⟨k, hk, _⟩ := h; cases hk
  | cons k ks ih =>
    intro hnr hex
    have hnr' := fun k' hk' => hnr k' (List.mem_cons_of_mem _ hk')
    obtain ⟨k0, hk0, hext0, i0, b0, hc0, hd0⟩ := hex
    have tail : k0 ∈ ks → scanKeys ds spk r ks = some true :=
      fun hm => ih hnr' ⟨k0, hm, hext0, i0, b0, hc0, hd0⟩
    unfold scanKeys
    split
    · rename_i hext
      cases hk0 with
      | head => simp [hext0] at hext
      | tail _ hm => exact tail hm
    · split
      · rename_i hc
        cases hk0 with
        | head => rw [hc0] at hc; cases hc
        | tail _ hm => exact tail hm
      · rename_i i b hc
        split
        · rename_i hd
          have := hnr k List.mem_cons_self (by simp_all) i b hc
          simp [hd] at this
        · rename_i s hs
          split
          · rfl
          · rename_i hne
            cases hk0 with
            | head =>
              rw [hc0] at hc
              cases hc
              rw [hd0] at hs
              cases hs
              simp at hne
            | tail _ hm => exact tail hm

theorem scanRecords_ne_none {keys : List KeyView} {ds : Nat → Nat → Option Bytes} {spk : Bytes} :
    ∀ {recs : List DerivRec}, NoRaise keys ds recs → scanRecords keys ds spk recs ≠ none := by
  intro recs
  induction recs with
  | nil => intro _; simp [scanRecords]
  | cons r rs ih =>
    intro hnr
    unfold scanRecords
    have h1 := scanKeys_ne_none (spk := spk) (hnr r List.mem_cons_self)
    split
    · rename_i hk; exact absurd hk h1
    · simp
    · exact ih (fun r' hr' => hnr r' (List.mem_cons_of_mem _ hr'))

theorem scanRecords_complete {keys : List KeyView} {ds : Nat → Nat → Option Bytes} {spk : Bytes} :
    ∀ {recs : List DerivRec}, NoRaise keys ds recs →
      (∃ r, r ∈ recs ∧ ∃ k, k ∈ keys ∧ k.extended = true ∧ ∃ i b, k.check r = some (i, b) ∧ ds i b = some spk) →
      scanRecords keys ds spk recs = some true := by
  intro recs
  induction recs with
  | nil => intro _ h; obtain ⟨r, hr, _⟩ := h; cases hr
  | cons r rs ih =>
    intro hnr hex
    obtain ⟨r0, hr0, hk0⟩ := hex
    unfold scanRecords
    have h1 := scanKeys_ne_none (spk := spk) (hnr r List.mem_cons_self)
    split
    · rename_i hk; exact absurd hk h1
    · rfl
    · rename_i hf
      cases hr0 with
      | head =>
        have := scanKeys_complete (hnr r List.mem_cons_self) hk0
        rw [this] at hf
        cases hf
      | tail _ hm =>
        exact ih (fun r' hr' => hnr r' (List.mem_cons_of_mem _ hr')) ⟨r0, hm, hk0⟩

end Embit.Model.Descriptor
