import EmbitModel.Model.Slip39
import EmbitModel.Spec.Slip39Spec
/-
  The exp/log tables built by `ShareSet._load` (as modelled), evaluated once by the kernel into literals,
  and their defining facts. `mulL` is "multiplication through the tables" as `interpolate` performs it.
-/
namespace Embit.Model.Slip39

def expLit : List Nat := [
  1, 3, 5, 15, 17, 51, 85, 255, 26, 46, 114, 150, 161, 248, 19, 53, 95, 225, 56, 72, 216, 115, 149, 164,
  247, 2, 6, 10, 30, 34, 102, 170, 229, 52, 92, 228, 55, 89, 235, 38, 106, 190, 217, 112, 144, 171, 230, 49,
  83, 245, 4, 12, 20, 60, 68, 204, 79, 209, 104, 184, 211, 110, 178, 205, 76, 212, 103, 169, 224, 59, 77, 215,
  98, 166, 241, 8, 24, 40, 120, 136, 131, 158, 185, 208, 107, 189, 220, 127, 129, 152, 179, 206, 73, 219, 118, 154,
  181, 196, 87, 249, 16, 48, 80, 240, 11, 29, 39, 105, 187, 214, 97, 163, 254, 25, 43, 125, 135, 146, 173, 236,
  47, 113, 147, 174, 233, 32, 96, 160, 251, 22, 58, 78, 210, 109, 183, 194, 93, 231, 50, 86, 250, 21, 63, 65,
  195, 94, 226, 61, 71, 201, 64, 192, 91, 237, 44, 116, 156, 191, 218, 117, 159, 186, 213, 100, 172, 239, 42, 126,
  130, 157, 188, 223, 122, 142, 137, 128, 155, 182, 193, 88, 232, 35, 101, 175, 234, 37, 111, 177, 200, 67, 197, 84,
  252, 31, 33, 99, 165, 244, 7, 9, 27, 45, 119, 153, 176, 203, 70, 202, 69, 207, 74, 222, 121, 139, 134, 145,
  168, 227, 62, 66, 198, 81, 243, 14, 18, 54, 90, 238, 41, 123, 141, 140, 143, 138, 133, 148, 167, 242, 13, 23,
  57, 75, 221, 124, 132, 151, 162, 253, 28, 36, 108, 180, 199, 82, 246]

def logLit : List Nat := [
  0, 0, 25, 1, 50, 2, 26, 198, 75, 199, 27, 104, 51, 238, 223, 3, 100, 4, 224, 14, 52, 141, 129, 239,
  76, 113, 8, 200, 248, 105, 28, 193, 125, 194, 29, 181, 249, 185, 39, 106, 77, 228, 166, 114, 154, 201, 9, 120,
  101, 47, 138, 5, 33, 15, 225, 36, 18, 240, 130, 69, 53, 147, 218, 142, 150, 143, 219, 189, 54, 208, 206, 148,
  19, 92, 210, 241, 64, 70, 131, 56, 102, 221, 253, 48, 191, 6, 139, 98, 179, 37, 226, 152, 34, 136, 145, 16,
  126, 110, 72, 195, 163, 182, 30, 66, 58, 107, 40, 84, 250, 133, 61, 186, 43, 121, 10, 21, 155, 159, 94, 202,
  78, 212, 172, 229, 243, 115, 167, 87, 175, 88, 168, 80, 244, 234, 214, 116, 79, 174, 233, 213, 231, 230, 173, 232,
  44, 215, 117, 122, 235, 22, 11, 245, 89, 203, 95, 176, 156, 169, 81, 160, 127, 12, 246, 111, 23, 196, 73, 236,
  216, 67, 31, 45, 164, 118, 123, 183, 204, 187, 62, 90, 251, 96, 177, 134, 59, 82, 161, 108, 170, 85, 41, 157,
  151, 178, 135, 144, 97, 190, 220, 252, 188, 149, 207, 205, 55, 63, 91, 209, 83, 57, 132, 60, 65, 162, 109, 71,
  20, 42, 158, 93, 86, 242, 211, 171, 68, 17, 146, 217, 35, 32, 46, 137, 180, 124, 184, 38, 119, 153, 227, 165,
  103, 74, 237, 222, 197, 49, 254, 24, 13, 99, 140, 128, 192, 247, 112, 7]

set_option maxRecDepth 100000 in
theorem expTable_eq : expTable = expLit := by decide +kernel
set_option maxRecDepth 100000 in
theorem logTable_eq : logTable = logLit := by decide +kernel

def expL (i : Nat) : Nat := expLit.getD i 0
def logL (a : Nat) : Nat := logLit.getD a 0

theorem exp_eq_expL : exp = expL := by funext i; simp [exp, expL, expTable_eq]
theorem log_eq_logL : log = logL := by funext i; simp [log, logL, logTable_eq]

/-- multiplication as the byte update of `interpolate` computes it: `exp[(log a + log b) % 255]`, 0 if a factor is 0 -/
def mulL (a b : Nat) : Nat := if a = 0 ∨ b = 0 then 0 else expL ((logL a + logL b) % 255)

set_option maxRecDepth 100000 in
theorem expL_facts : ∀ i < 255, 0 < expL i ∧ expL i < 256 ∧ logL (expL i) = i := by decide +kernel

set_option maxRecDepth 100000 in
theorem logL_facts : ∀ a < 256, a ≠ 0 → logL a < 255 ∧ expL (logL a) = a := by decide +kernel

theorem logL_zero : logL 0 = 0 := by decide +kernel
theorem expL_zero : expL 0 = 1 := by decide +kernel
theorem expL_one : expL 1 = 3 := by decide +kernel

set_option maxRecDepth 100000 in
/-- each table entry is the previous one times 3 in the spec's GF(256), and the cycle closes -/
theorem expL_step : ∀ i < 255, expL ((i + 1) % 255) = Spec.Slip39.gfMul (expL i) 3 := by decide +kernel

end Embit.Model.Slip39
