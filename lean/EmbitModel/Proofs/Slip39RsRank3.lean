import EmbitModel.Proofs.Slip39RsElim
/- RS1024 rank checks (kernel evaluation), part 3: all position triples whose largest offset is in [29] -/
namespace Embit.Model.Slip39
set_option maxRecDepth 1000000 in
theorem tripleOk_29 : tripleOk 29 = true := by decide +kernel
end Embit.Model.Slip39
