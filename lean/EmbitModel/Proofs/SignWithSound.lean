import EmbitModel.Proofs.SignWithValid
import EmbitModel.Proofs.SignWithCount
/-
  Consequences of the trace discipline `PTr p p' n ws` alone — shared by the in-memory model (`signWith`) and the
  stream model (`viewSignWith`): frame, slot contents, count (Mathlib-free).
-/
namespace Embit.Model.SignWith
open Embit Embit.Model

variable {HD : Type}

theorem PTr.pcore {G : List (Nat × Slot)} {p p' : Psbt} {n : Nat} {ws : List Write} (t : PTr G p p' n ws) : pcore p' = pcore p := by
  rw [t.app, pcore_applyWrites]

/-- globals, outputs and the number of inputs are unchanged, every input scope keeps its frame -/
theorem PTr.frame {G : List (Nat × Slot)} {p p' : Psbt} {n : Nat} {ws : List Write} (t : PTr G p p' n ws) :
    p'.version = p.version ∧ p'.txVersion = p.txVersion ∧ p'.locktime = p.locktime ∧ p'.xpubs = p.xpubs ∧
    p'.unknown = p.unknown ∧ p'.outputs = p.outputs ∧ p'.inputs.length = p.inputs.length ∧
    ∀ (i : Nat) s s', p.inputs[i]? = some s → p'.inputs[i]? = some s' → core s' = core s := by
  have hc := t.pcore
  refine ⟨show (SignWith.pcore p').version = (SignWith.pcore p).version from congrArg _ hc,
    show (SignWith.pcore p').txVersion = (SignWith.pcore p).txVersion from congrArg _ hc,
    show (SignWith.pcore p').locktime = (SignWith.pcore p).locktime from congrArg _ hc,
    show (SignWith.pcore p').xpubs = (SignWith.pcore p).xpubs from congrArg _ hc,
    show (SignWith.pcore p').unknown = (SignWith.pcore p).unknown from congrArg _ hc,
    show (SignWith.pcore p').outputs = (SignWith.pcore p).outputs from congrArg _ hc, ?_, ?_⟩
  · have := congrArg (fun q => q.inputs.length) hc
    simpa [SignWith.pcore] using this
  · intro i s s' hs hs'
    obtain ⟨t', ht', hct⟩ := pcore_get hc.symm i s hs
    rw [hs'] at ht'; cases ht'
    exact hct.symm

theorem PTr.frameSigs {G : List (Nat × Slot)} {p p' : Psbt} {n : Nat} {ws : List Write} (t : PTr G p p' n ws) (i : Nat) (s s' : InScope)
    (hs : p.inputs[i]? = some s) (hs' : p'.inputs[i]? = some s') :
    (∃ extra, s'.partialSigs.map Prod.fst = s.partialSigs.map Prod.fst ++ extra) ∧
    (∃ extra, s'.tapSigs.map Prod.fst = s.tapSigs.map Prod.fst ++ extra) ∧
    (∀ sl, (∀ v, (i, sl, v) ∉ ws) → slotValue s' sl = slotValue s sl) ∧
    (∀ sl v, (i, sl, v) ∈ ws → ∃ v', (i, sl, v') ∈ ws ∧ slotValue s' sl = some v') ∧
    (s'.finalWitness = s.finalWitness ∨ ∃ v, (i, Slot.tapKeySig, v) ∈ ws ∧ s'.finalWitness = some [v]) := by
  have hget := t.scope i s s' hs hs'
  subst hget
  refine ⟨partialKeys_applySlots s _, tapKeys_applySlots s _, ?_, ?_, ?_⟩
  · intro sl hno
    apply slotValue_applySlots_untouched
    intro w hw heq
    exact hno w.2 (by rw [← heq]; exact (mem_writesOf ws i w).mp hw)
  · intro sl v hm
    obtain ⟨v', h1, h2⟩ := slotValue_applySlots_written s (writesOf ws i) sl v ((mem_writesOf ws i _).mpr hm)
    exact ⟨v', (mem_writesOf ws i _).mp h1, h2⟩
  · rcases finalWitness_applySlots s (writesOf ws i) with h1 | ⟨v, hv, h1⟩
    · exact Or.inl h1
    · exact Or.inr ⟨v, (mem_writesOf ws i _).mp hv, h1⟩

/-- `count_eq_added`: when no write stores a value its slot held before the call, the counter is the number of slots whose
    content differs -/
theorem PTr.countAdded {p p' : Psbt} {n : Nat} {ws : List Write} (t : PTr [] p p' n ws)
    (hfresh : ∀ w ∈ ws, ∀ s, p.inputs[w.1]? = some s → slotValue s w.2.1 ≠ some w.2.2) :
    ∃ L : List (Nat × Slot), L.Nodup ∧ L.length = n ∧
      ∀ (i : Nat) s s', p.inputs[i]? = some s → p'.inputs[i]? = some s' →
        ∀ sl, (i, sl) ∈ L ↔ slotValue s' sl ≠ slotValue s sl := by
  obtain ⟨L, hnd, hlen, hmem⟩ := t.distinct
  refine ⟨L, hnd, hlen, ?_⟩
  intro i s s' hs hs' sl
  rw [hmem]
  exact changed_slots p p' n ws t hfresh i s s' hs hs' sl

end Embit.Model.SignWith
