import EmbitModel.Model.Slip39
/-
  RS1024: the polymod step is XOR-linear in (state, symbol); consequences: the syndrome of an error pattern
  does not depend on the code word, and appending the created checksum always verifies.
  Everything on `Nat` by the core bitwise lemmas (no `bv_decide`).
-/
namespace Embit.Model.Slip39

def sel (b i g : Nat) : Nat := if (b >>> i) &&& 1 = 1 then g else 0

theorem sel_xor (b1 b2 i g : Nat) : sel (b1 ^^^ b2) i g = sel b1 i g ^^^ sel b2 i g := by
  unfold sel
  rw [Nat.shiftRight_xor_distrib, Nat.and_xor_distrib_right]
  have h1 : (b1 >>> i) &&& 1 = 0 ∨ (b1 >>> i) &&& 1 = 1 := by rw [Nat.and_one_is_mod]; omega
  have h2 : (b2 >>> i) &&& 1 = 0 ∨ (b2 >>> i) &&& 1 = 1 := by rw [Nat.and_one_is_mod]; omega
  rcases h1 with h1 | h1 <;> rcases h2 with h2 | h2 <;> simp [h1, h2]

theorem sel_zero (i g : Nat) : sel 0 i g = 0 := by simp [sel]

theorem genFold_acc (b : Nat) (gs : List Nat) (i chk : Nat) :
    genFold b gs i chk = chk ^^^ genFold b gs i 0 := by
  induction gs generalizing i chk with
  | nil => simp [genFold]
  | cons g gs ih =>
    simp only [genFold]
    rw [ih (i + 1) (chk ^^^ _), ih (i + 1) (0 ^^^ _)]
    simp [Nat.xor_assoc]

theorem genFold_xor (b1 b2 : Nat) (gs : List Nat) (i : Nat) :
    genFold (b1 ^^^ b2) gs i 0 = genFold b1 gs i 0 ^^^ genFold b2 gs i 0 := by
  induction gs generalizing i with
  | nil => simp [genFold]
  | cons g gs ih =>
    simp only [genFold]
    rw [genFold_acc _ _ _ (0 ^^^ _), genFold_acc b1 _ _ (0 ^^^ _), genFold_acc b2 _ _ (0 ^^^ _), ih]
    have := sel_xor b1 b2 i g
    unfold sel at this
    rw [this]
    simp only [Nat.zero_xor]
    ac_rfl

theorem genFold_zero (gs : List Nat) (i : Nat) : genFold 0 gs i 0 = 0 := by
  induction gs generalizing i with
  | nil => rfl
  | cons g gs ih => simp [genFold, ih]

/-- XOR-linearity of one polymod step -/
theorem rs1024Step_xor (a b v w : Nat) :
    rs1024Step (a ^^^ b) (v ^^^ w) = rs1024Step a v ^^^ rs1024Step b w := by
  unfold rs1024Step
  rw [genFold_acc, genFold_acc (a >>> 20), genFold_acc (b >>> 20), Nat.shiftRight_xor_distrib, genFold_xor,
    Nat.and_xor_distrib_right, Nat.shiftLeft_xor_distrib]
  ac_rfl

theorem rs1024Step_zero : rs1024Step 0 0 = 0 := by decide

theorem rs1024Step_zero_left (v : Nat) : rs1024Step 0 v = v := by
  unfold rs1024Step
  rw [genFold_acc]
  simp [genFold_zero]

def xorList (a b : List Nat) : List Nat := List.zipWith (· ^^^ ·) a b

/-- XOR-linearity of the whole fold -/
theorem foldl_step_xor (vs ws : List Nat) (h : vs.length = ws.length) (a b : Nat) :
    (xorList vs ws).foldl rs1024Step (a ^^^ b) = vs.foldl rs1024Step a ^^^ ws.foldl rs1024Step b := by
  induction vs generalizing ws a b with
  | nil => cases ws with
    | nil => simp [xorList]
    | cons _ _ => simp at h
  | cons v vs ih => cases ws with
    | nil => simp at h
    | cons w ws =>
      simp only [List.length_cons, Nat.add_right_cancel_iff] at h
      simp only [xorList, List.zipWith_cons_cons, List.foldl_cons]
      rw [rs1024Step_xor]
      exact ih ws h _ _

theorem foldl_step_zeros (n : Nat) : (List.replicate n 0).foldl rs1024Step 0 = 0 := by
  induction n with
  | zero => rfl
  | succ n ih => simp [List.replicate_succ, rs1024Step_zero, ih]

theorem gen_lt : ∀ g ∈ rs1024Gen, g < 2 ^ 30 := by decide

theorem genFold_lt (b : Nat) (gs : List Nat) (hg : ∀ g ∈ gs, g < 2 ^ 30) (i chk : Nat) (h : chk < 2 ^ 30) :
    genFold b gs i chk < 2 ^ 30 := by
  induction gs generalizing i chk with
  | nil => simpa [genFold] using h
  | cons g gs ih =>
    simp only [genFold]
    apply ih (fun g' hg' => hg g' (List.mem_cons_of_mem _ hg'))
    apply Nat.xor_lt_two_pow h
    split
    · exact hg g (List.mem_cons_self)
    · decide

/-- after a step with a symbol below 2^30 the state is below 2^30, whatever it was before -/
theorem rs1024Step_lt (chk v : Nat) (hv : v < 2 ^ 30) : rs1024Step chk v < 2 ^ 30 := by
  unfold rs1024Step
  apply genFold_lt _ _ gen_lt
  apply Nat.xor_lt_two_pow _ hv
  have : chk &&& 0xFFFFF < 2 ^ 20 := by
    have := Nat.and_two_pow_sub_one_eq_mod chk 20
    have h2 : (2 : Nat) ^ 20 - 1 = 0xFFFFF := by decide
    rw [h2] at this; rw [this]; exact Nat.mod_lt _ (by decide)
  rw [Nat.shiftLeft_eq]
  calc (chk &&& 0xFFFFF) * 2 ^ 10 < 2 ^ 20 * 2 ^ 10 := Nat.mul_lt_mul_of_pos_right this (by decide)
    _ = 2 ^ 30 := by decide

/-- the three words `(p >> 20) & 1023, (p >> 10) & 1023, p & 1023` fed into the zero state rebuild `p` -/
theorem foldl_step_words (p : Nat) (hp : p < 2 ^ 30) :
    [(p >>> 20) &&& 1023, (p >>> 10) &&& 1023, p &&& 1023].foldl rs1024Step 0 = p := by
  have e1023 : (1023 : Nat) = 2 ^ 10 - 1 := by decide
  have eF : (0xFFFFF : Nat) = 2 ^ 20 - 1 := by decide
  simp only [List.foldl_cons, List.foldl_nil, rs1024Step_zero_left]
  -- second step: top part of the state is zero
  have hc1 : (p >>> 20) &&& 1023 < 2 ^ 10 := by
    rw [e1023, Nat.and_two_pow_sub_one_eq_mod]; exact Nat.mod_lt _ (by decide)
  have s2 : rs1024Step ((p >>> 20) &&& 1023) ((p >>> 10) &&& 1023)
      = (((p >>> 20) &&& 1023) <<< 10) ^^^ ((p >>> 10) &&& 1023) := by
    unfold rs1024Step
    have h0 : ((p >>> 20) &&& 1023) >>> 20 = 0 := by
      rw [Nat.shiftRight_eq_div_pow]; apply Nat.div_eq_of_lt; omega
    have h1 : ((p >>> 20) &&& 1023) &&& 0xFFFFF = (p >>> 20) &&& 1023 := by
      rw [eF, Nat.and_two_pow_sub_one_eq_mod]; apply Nat.mod_eq_of_lt; omega
    rw [h0, genFold_acc, genFold_zero, h1]; simp
  rw [s2]
  have hc2 : (p >>> 10) &&& 1023 < 2 ^ 10 := by
    rw [e1023, Nat.and_two_pow_sub_one_eq_mod]; exact Nat.mod_lt _ (by decide)
  have hs : (((p >>> 20) &&& 1023) <<< 10) ^^^ ((p >>> 10) &&& 1023) < 2 ^ 20 := by
    apply Nat.xor_lt_two_pow
    · rw [Nat.shiftLeft_eq]
      calc _ < 2 ^ 10 * 2 ^ 10 := Nat.mul_lt_mul_of_pos_right hc1 (by decide)
        _ = 2 ^ 20 := by decide
    · omega
  unfold rs1024Step
  have h0 : ((((p >>> 20) &&& 1023) <<< 10) ^^^ ((p >>> 10) &&& 1023)) >>> 20 = 0 := by
    rw [Nat.shiftRight_eq_div_pow]; exact Nat.div_eq_of_lt hs
  have h1 : ((((p >>> 20) &&& 1023) <<< 10) ^^^ ((p >>> 10) &&& 1023)) &&& 0xFFFFF
      = (((p >>> 20) &&& 1023) <<< 10) ^^^ ((p >>> 10) &&& 1023) := by
    rw [eF, Nat.and_two_pow_sub_one_eq_mod]; exact Nat.mod_eq_of_lt hs
  rw [h0, genFold_acc, genFold_zero, h1, Nat.xor_zero]
  -- bitwise identity
  apply Nat.eq_of_testBit_eq
  intro i
  rw [e1023]
  simp only [Nat.testBit_xor, Nat.testBit_shiftLeft, Nat.testBit_and, Nat.testBit_shiftRight,
    Nat.testBit_two_pow_sub_one]
  by_cases h10 : i < 10
  · simp [h10, show ¬ (10 ≤ i) by omega]
  · by_cases h20 : i < 20
    · have : i - 10 < 10 := by omega
      have e : 10 + (i - 10) = i := by omega
      simp [h10, this, show (10 ≤ i) by omega, show ¬ (10 ≤ i - 10) by omega, e]
    · by_cases h30 : i < 30
      · have : i - 10 - 10 < 10 := by omega
        have e : 20 + (i - 10 - 10) = i := by omega
        simp [h10, this, show (10 ≤ i) by omega, show (10 ≤ i - 10) by omega, show ¬ (i - 10 < 10) by omega, e]
      · have hz : p.testBit i = false := by
          apply Nat.testBit_lt_two_pow
          calc p < 2 ^ 30 := hp
            _ ≤ 2 ^ i := Nat.pow_le_pow_right (by decide) (by omega)
        simp [h10, hz, show (10 ≤ i) by omega, show (10 ≤ i - 10) by omega, show ¬ (i - 10 < 10) by omega,
          show ¬ (i - 10 - 10 < 10) by omega]

/-- appending the created checksum always verifies (any customisation string, any data) -/
theorem rs1024_create_verify (cs data : List Nat) :
    rs1024Verify cs (data ++ rs1024Create cs data) = true := by
  unfold rs1024Verify rs1024Create rs1024Polymod
  simp only [beq_iff_eq]
  simp only [List.foldl_append]
  generalize data.foldl rs1024Step (cs.foldl rs1024Step 1) = s
  have hP : [0, 0, 0].foldl rs1024Step s < 2 ^ 30 := by
    simp only [List.foldl_cons, List.foldl_nil]
    exact rs1024Step_lt _ _ (by decide)
  have hp : ([0, 0, 0].foldl rs1024Step s ^^^ 1) < 2 ^ 30 := Nat.xor_lt_two_pow hP (by decide)
  have lin := foldl_step_xor [0, 0, 0] [(([0, 0, 0].foldl rs1024Step s ^^^ 1) >>> 20) &&& 1023,
    (([0, 0, 0].foldl rs1024Step s ^^^ 1) >>> 10) &&& 1023, ([0, 0, 0].foldl rs1024Step s ^^^ 1) &&& 1023] rfl s 0
  rw [foldl_step_words _ hp] at lin
  simp only [xorList, List.zipWith_cons_cons, List.zipWith_nil_right, Nat.zero_xor, Nat.xor_zero] at lin
  rw [lin, ← Nat.xor_assoc, Nat.xor_self, Nat.zero_xor]

end Embit.Model.Slip39
