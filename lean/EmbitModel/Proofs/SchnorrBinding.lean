import EmbitModel.Proofs.ContractSchnorr
/-
  BIP340 correctness at the level of the bindings: schnorrsig_sign(msg, secret) verifies with schnorrsig_verify
  under xonly_pubkey_from_pubkey(ec_pubkey_create(secret)).
-/
namespace Embit
open Embit.Model Embit.Model.PySecp

variable (E : EcOps) (H : HashOps)

theorem schnorr_binding_correct (L : EcLaws E) (hp : E.p ≤ 2 ^ 256) (hn : E.n ≤ 2 ^ 256)
    (msg secret : Bytes) (aux : Option Bytes) (sig pub xo : Bytes) (par : Bool) (hlen : secret.length = 32)
    (hs : schnorrsigSign E H msg secret aux = some sig)
    (hpub : ecPubkeyCreate E secret = some pub) (hxo : xonlyPubkeyFromPubkey E pub = some (xo, par)) :
    schnorrsigVerify E H sig msg xo = some true := by
  -- 1. the signature is BIP340's for d = int(secret)
  rw [eq_schnorrsig_sign E H L hp] at hs
  unfold Spec.Libsecp.schnorrsig_sign at hs
  split at hs; · cases hs
  rename_i hm
  split at hs; · cases hs
  rename_i haux
  simp only [hlen, if_true, Option.bind_some] at hs
  rw [seckey_eq E secret hlen] at hs
  split at hs
  swap
  · cases hs
  rename_i hvalid
  simp only [Option.bind_some] at hs
  have hm' : msg.length = 32 := by simpa using hm
  have hbad : badExtra aux = false := by
    cases aux with
    | none => rfl
    | some a =>
      simp only [Option.map_some, Option.some.injEq] at haux
      simp only [badExtra]
      cases h : (a.length != 32) with
      | false => rfl
      | true => exact absurd h haux
  rw [← signSchnorr_eq_spec E H secret msg aux hlen hm' hbad] at hs
  -- 2. it verifies under the x coordinate of dG
  obtain ⟨px, py, hxy, hver⟩ := verify_signSchnorr L H hp hn secret msg aux sig hs
  have hsl : sig.length = 64 := by
    by_contra hne
    unfold verifySchnorr at hver
    rw [if_neg (by simp), if_neg (by simp [hm']), if_pos hne] at hver
    cases hver
  rw [verifySchnorr_eq_spec E H L (beN 32 px) sig msg (by simp) hm' hsl] at hver
  simp only [Option.some.injEq] at hver
  -- 3. the key structures
  obtain ⟨_, hpxp, _, hpyp⟩ := L.xy_range _ _ _ hxy
  unfold ecPubkeyCreate at hpub
  simp only [hlen, ne_eq, not_true_eq_false, if_false, hvalid, if_true] at hpub
  unfold pubStore at hpub
  rw [hxy] at hpub
  simp only [Option.some.injEq] at hpub
  subst hpub
  rw [eq_xonly E L hp] at hxo
  unfold Spec.Libsecp.xonly_pubkey_from_pubkey at hxo
  have hl64 : (leN 32 px ++ leN 32 py).length = 64 := by simp
  rw [← pubLoad_eq E _ hl64, pubLoad_store E px py hpxp hpyp hp, L.ofXY_xy _ _ _ hxy] at hxo
  simp only [Option.bind_some, hxy] at hxo
  -- the even point Q with the same x
  obtain ⟨Q, y', hQ, hy'even, hy'p⟩ : ∃ Q y', E.xy Q = some (px, y') ∧ y' % 2 = 0 ∧ y' < E.p ∧
      (Spec.Libsecp.pubkeyStruct E Q).map (fun b => (b, decide (py % 2 = 1))) = some (xo, par) := by
    by_cases hodd : py % 2 = 1
    · refine ⟨E.neg (E.mul (ofBe secret) E.g), E.p - py, L.xy_neg _ _ _ hxy, ?_, by omega, ?_⟩
      · exact (L.neg_parity _ _ _ hxy).2.mpr hodd
      · simpa [hodd] using hxo
    · refine ⟨E.mul (ofBe secret) E.g, py, hxy, by omega, hpyp, ?_⟩
      simpa [hodd] using hxo
  obtain ⟨hy'p, hst⟩ := hy'p
  unfold Spec.Libsecp.pubkeyStruct at hst
  rw [hQ] at hst
  simp only [Option.map_some, Option.some.injEq, Prod.mk.injEq] at hst
  obtain ⟨hxo', _⟩ := hst
  subst hxo'
  -- 4. verification under the x-only structure
  rw [eq_schnorrsig_verify E H L hp]
  unfold Spec.Libsecp.schnorrsig_verify
  have hl64' : (leN 32 px ++ leN 32 y').length = 64 := by simp
  rw [← pubLoad_eq E _ hl64', pubLoad_store E px y' hpxp hy'p hp, L.ofXY_xy _ _ _ hQ]
  simp [hsl, hm', hQ, hy'even, hver]

end Embit
