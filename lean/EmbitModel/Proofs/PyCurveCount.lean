import EmbitModel.Proofs.PyCurveOps
import Mathlib.SetTheory.Cardinal.Finite
import Mathlib.Data.Finset.Option
/-
  `CardEq C n` ("the curve group has exactly n elements", `Nat.card` of Mathlib's point type) is the same as the
  executable count `pointCount C = n` (run `on_curve` on all `p²` reduced pairs, add one for infinity): the
  hypothesis is a decidable-in-principle fact about the code, and for a toy modulus it is decided by evaluation.
-/
namespace Embit.Model.PyCurve
open WeierstrassCurve

variable (C : Curve) [Fact C.p.Prime]

/-- the finite set of canonical values -/
def canonSet : Finset (Option (ℕ × ℕ)) :=
  Finset.insertNone ((Finset.range C.p ×ˢ Finset.range C.p).filter fun xy => onCurve C ((xy.1 : ℤ), (xy.2 : ℤ), 1))

theorem mem_canonSet (hs : Smooth C) (q : Option (ℕ × ℕ)) : q ∈ canonSet C ↔ Valid C (toJ q) := by
  cases q with
  | none =>
    simp only [canonSet, Finset.none_mem_insertNone, true_iff, toJ]
    exact valid_inf C (p_gt_one C)
  | some xy =>
    obtain ⟨x, y⟩ := xy
    simp only [canonSet, Finset.some_mem_insertNone, Finset.mem_filter, Finset.mem_product, Finset.mem_range, toJ]
    constructor
    · rintro ⟨⟨hx, hy⟩, hc⟩
      exact (valid_affine_iff C hs x y ⟨by positivity, by exact_mod_cast hx⟩ ⟨by positivity, by exact_mod_cast hy⟩).mpr hc
    · intro hv
      have hr := hv.red
      simp only [Red] at hr
      exact ⟨⟨by exact_mod_cast hr.1.2, by exact_mod_cast hr.2.1.2⟩, onCurve_of_valid C hv one_ne_zero⟩

theorem sum_range_list (n : ℕ) (f : ℕ → ℕ) : ∑ x ∈ Finset.range n, f x = ((List.range n).map f).sum := by
  induction n with
  | zero => simp
  | succ k ih => rw [Finset.sum_range_succ, ih, List.range_succ]; simp

theorem card_filter_range_list (n : ℕ) (q : ℕ → Bool) :
    ((Finset.range n).filter fun y => q y = true).card = ((List.range n).filter q).length := by
  induction n with
  | zero => simp
  | succ k ih =>
    rw [Finset.range_add_one, Finset.filter_insert, List.range_succ, List.filter_append, List.length_append, ← ih]
    by_cases h : q k = true
    · rw [if_pos h, Finset.card_insert_of_notMem (by simp)]
      simp [h]
    · rw [if_neg h]
      simp [h]

omit [Fact C.p.Prime] in
theorem card_canonSet : (canonSet C).card = pointCount C := by
  unfold canonSet pointCount
  rw [Finset.card_insertNone, Finset.card_filter, Finset.sum_product, ← sum_range_list]
  congr 1
  apply Finset.sum_congr rfl
  intro x _
  rw [← card_filter_range_list, Finset.card_filter]
  rfl

/-- **the number of elements of the curve group is the executable count** -/
theorem card_eq_pointCount (hs : Smooth C) : Nat.card (W C).toAffine.Point = pointCount C := by
  have e1 : (W C).toAffine.Point ≃ APt C :=
    (Equiv.ofBijective (ι C) ⟨ι_injective C, ι_surjective C hs⟩).symm
  have e2 : APt C ≃ {q // q ∈ canonSet C} := Equiv.subtypeEquivRight fun q => (mem_canonSet C hs q).symm
  rw [Nat.card_congr (e1.trans e2), Nat.card_eq_fintype_card, Fintype.card_coe, card_canonSet]

theorem cardEq_iff (hs : Smooth C) (n : ℕ) : CardEq C n ↔ pointCount C = n := by
  unfold CardEq; rw [card_eq_pointCount C hs]

/-- `CardEq` from ANY bound `#E < 2n` (e.g. Hasse's `#E ≤ p + 1 + 2√p` when `n` is close to `p`): the order `n` of
    `G` divides the number of points, which is positive -/
theorem cardEq_of_lt {n : ℕ} {g : APt C} (hp : Params C n g) (h : Nat.card (W C).toAffine.Point < 2 * n) :
    CardEq C n := by
  unfold CardEq
  have hd := addOrderOf_dvd_natCard (ι C g)
  rw [addOrderOf_g C hp] at hd
  have hpos : 0 < Nat.card (W C).toAffine.Point := by
    rw [card_eq_pointCount C hp.smooth]; unfold pointCount; omega
  obtain ⟨k, hk⟩ := hd
  rw [hk] at h hpos ⊢
  have hn := hp.n_prime.pos
  have hk1 : k = 1 := by
    rcases Nat.lt_or_ge k 2 with h2 | h2
    · rcases Nat.eq_zero_or_pos k with h0 | h0
      · subst h0; simp at hpos
      · omega
    · exfalso
      have : 2 * n ≤ n * k := by rw [Nat.mul_comm]; exact Nat.mul_le_mul_left n h2
      omega
  rw [hk1, Nat.mul_one]

/-! ### the Jacobian pipelines of py_secp256k1.py against the record

  `Model/PySecp.lean` writes `E.add (E.mul u1 E.g) (E.mul u2 P)` etc. over the abstract record; the real code keeps
  Jacobian tuples between the steps and normalises once, at the end. With `E = pyEcOps` both give the same
  coordinates. -/

section pipelines
variable {n : ℕ} {g : APt C} (hp : Params C n g)
include hp

/-- `ECKey.get_pubkey` + `get_bytes`: `affine(mul([(G, d)]))` -/
theorem pipeline_create (d : ℕ) (hd : d < 2 ^ 256) :
    affineXY C (mul C [(toJ g.1, d)]) = some ((pyEcOps C n g).xy ((pyEcOps C n g).mul d g)) := by
  show _ = some (eXY C (eMul C n d g))
  have hv : Valid C (mul C [(toJ g.1, d)]) := valid_mul C _ (by simpa using g.2)
  set R := eMul C n d g with hR
  have h3 : affineXY C (toJ R.1) = some (eXY C R) := by
    have h2 := affineXY_eq C R.2
    unfold eXY
    rw [h2]; rfl
  rw [← h3]
  apply affineXY_congr C hv R.2
  have : pt C (toJ R.1) = ι C R := rfl
  rw [this, hR, ι_mul_g C hp, pt_mul_single C g.2 d hd]
  rfl

/-- `verify_ecdsa` / `verify_schnorr` / `ec_pubkey_add`: `affine(mul([(G, a), (P, b)]))` (Shamir's trick) is
    the `a·G + b·P` of the record, for `P` in the group generated by … any point killed by `n` -/
theorem pipeline_two_scalars (P : APt C) (hP : n • ι C P = 0) (a b : ℕ) (ha : a < 2 ^ 256) (hb : b < 2 ^ 256) :
    affineXY C (mul C [(toJ g.1, a), (toJ P.1, b)]) =
      some ((pyEcOps C n g).xy ((pyEcOps C n g).add ((pyEcOps C n g).mul a g) ((pyEcOps C n g).mul b P))) := by
  show _ = some (eXY C (eAdd C (eMul C n a g) (eMul C n b P)))
  have hv : Valid C (mul C [(toJ g.1, a), (toJ P.1, b)]) := valid_mul C _ (by
    intro pn h
    simp only [List.mem_cons, List.not_mem_nil, or_false] at h
    rcases h with rfl | rfl
    · exact g.2
    · exact P.2)
  set R := eAdd C (eMul C n a g) (eMul C n b P) with hR
  have h3 : affineXY C (toJ R.1) = some (eXY C R) := by
    have h2 := affineXY_eq C R.2
    unfold eXY
    rw [h2]; rfl
  rw [← h3]
  apply affineXY_congr C hv R.2
  have : pt C (toJ R.1) = ι C R := rfl
  rw [this, hR, ι_add, ι_mul_g C hp, ι_mul C hp b P hP, pt_mul_pair C g.2 P.2 a b ha hb]
  rfl

/-- `ecdsa_recover`: `affine(add(mul([(R, u1)]), negate(mul([(G, u2)]))))` -/
theorem pipeline_recover (R : APt C) (hR : n • ι C R = 0) (u1 u2 : ℕ) (h1 : u1 < 2 ^ 256) (h2 : u2 < 2 ^ 256) :
    affineXY C (add C (mul C [(toJ R.1, u1)]) (negate C (mul C [(toJ g.1, u2)]))) =
      some ((pyEcOps C n g).xy ((pyEcOps C n g).add ((pyEcOps C n g).mul u1 R)
        ((pyEcOps C n g).neg ((pyEcOps C n g).mul u2 g)))) := by
  show _ = some (eXY C (eAdd C (eMul C n u1 R) (eNeg C (eMul C n u2 g))))
  have hv1 : Valid C (mul C [(toJ R.1, u1)]) := valid_mul C _ (by simpa using R.2)
  have hv2 : Valid C (mul C [(toJ g.1, u2)]) := valid_mul C _ (by simpa using g.2)
  obtain ⟨ha, hva⟩ := pt_add C hv1 (valid_negate C hv2)
  set S := eAdd C (eMul C n u1 R) (eNeg C (eMul C n u2 g)) with hS
  have h3 : affineXY C (toJ S.1) = some (eXY C S) := by
    have h2 := affineXY_eq C S.2
    unfold eXY
    rw [h2]; rfl
  rw [← h3]
  apply affineXY_congr C hva S.2
  have : pt C (toJ S.1) = ι C S := rfl
  rw [this, hS, ι_add, ι_neg, ι_mul_g C hp, ι_mul C hp u1 R hR, ha, pt_negate C hv2,
    pt_mul_single C R.2 u1 h1, pt_mul_single C g.2 u2 h2]
  rfl

end pipelines

end Embit.Model.PyCurve
